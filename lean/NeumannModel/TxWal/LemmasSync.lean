import NeumannModel.TxWal.Lemmas
/-
  C13 — memory never runs ahead of the log.
  `Sync`  : every pending transaction is in progress in the scan of the log, with the same
            participants, a phase the log justifies and (while that matters) the same votes;
  `PH`    : in every prefix of the log, a transaction the scan shows as Prepared carries exactly
            the votes of one of `record_vote`'s Prepared acknowledgements;
  `Good`  : both, together with `Inv`, preserved by every step of a run in which the size limit
            never rotates the WAL file.
-/
namespace Neumann.TxWal
open Neumann.FramedLog

/-! ## association lists: lookups -/

theorem mLookup_mModify {α : Type} (k x : Nat) (f : α → α) (m : List (Nat × α)) :
    mLookup x (mModify k f m) = if x = k then (mLookup x m).map f else mLookup x m := by
  induction m with
  | nil => simp [mModify, mLookup]
  | cons p r ih =>
    obtain ⟨a, b⟩ := p
    have hc : mModify k f ((a, b) :: r) = (if a = k then (a, f b) else (a, b)) :: mModify k f r := by
      simp [mModify]
    rw [hc]
    by_cases hak : a = k
    · subst hak
      simp only [if_true, mLookup]
      by_cases hax : a = x
      · subst hax; simp
      · simp only [hax, if_false, ih]
    · simp only [hak, if_false, mLookup]
      by_cases hax : a = x
      · subst hax
        simp [hak]
      · simp only [hax, if_false, ih]

theorem mLookup_append_some {α : Type} (x : Nat) (a b : List (Nat × α)) (v : α)
    (h : mLookup x a = some v) : mLookup x (a ++ b) = some v := by
  induction a with
  | nil => simp [mLookup] at h
  | cons p r ih =>
    obtain ⟨k, w⟩ := p
    simp only [List.cons_append, mLookup] at h ⊢
    split
    · rename_i hk; simpa [hk] using h
    · rename_i hk; simp only [hk, if_false] at h; exact ih h

theorem mLookup_append_none {α : Type} (x : Nat) (a b : List (Nat × α))
    (h : mLookup x a = none) : mLookup x (a ++ b) = mLookup x b := by
  induction a with
  | nil => rfl
  | cons p r ih =>
    obtain ⟨k, w⟩ := p
    simp only [List.cons_append, mLookup] at h ⊢
    split
    · rename_i hk; simp [hk] at h
    · rename_i hk; simp only [hk, if_false] at h; exact ih h

theorem mLookup_of_mem_nodup {α : Type} (m : List (Nat × α)) (h : (mKeys m).Nodup) (x : Nat) (v : α)
    (hm : (x, v) ∈ m) : mLookup x m = some v := by
  cases hl : mLookup x m with
  | none =>
    exfalso
    have : x ∈ mKeys m := by simp only [mKeys, List.mem_map]; exact ⟨(x, v), hm, rfl⟩
    exact mLookup_ne_none_of_mem_keys x m this hl
  | some w =>
    have := mLookup_some_mem x w m hl
    rw [mem_unique_of_nodup m h x w v this hm]

/-! ## the scan, one transaction at a time -/

/-- what the scan of `L` holds for transaction `x` -/
def ipOf (L : List Entry) (x : Nat) : Option InProg := mLookup x (scan L).inProgress

theorem ipOf_nil (x : Nat) : ipOf [] x = none := rfl

theorem ipOf_iff_mem (L : List Entry) (x : Nat) (ip : InProg) :
    ipOf L x = some ip ↔ (x, ip) ∈ (scan L).inProgress :=
  ⟨mLookup_some_mem x ip _, mLookup_of_mem_nodup _ (nodup_scan L) x ip⟩

def setPhase (t : Phase) (ip : InProg) : InProg := { ip with phase := t }

theorem ipOf_snoc_begin (L : List Entry) (y : Nat) (p : List Nat) (x : Nat) :
    ipOf (L ++ [Entry.txBegin y p]) x = if y = x then some ⟨p, [], .preparing⟩ else ipOf L x := by
  unfold ipOf; rw [scan_snoc]; simp only [scanStep, mLookup_mInsert]

theorem ipOf_snoc_vote (L : List Entry) (y s : Nat) (v : VoteKind) (x : Nat) :
    ipOf (L ++ [Entry.prepareVote y s v]) x = if x = y then (ipOf L x).map (pushVote s v) else ipOf L x := by
  unfold ipOf; rw [scan_snoc]; simp only [scanStep, mLookup_mModify]

theorem ipOf_snoc_phase (L : List Entry) (y : Nat) (f t : Phase) (x : Nat) :
    ipOf (L ++ [Entry.phaseChange y f t]) x = if x = y then (ipOf L x).map (setPhase t) else ipOf L x := by
  unfold ipOf; rw [scan_snoc]; simp only [scanStep, mLookup_mModify]; rfl

theorem ipOf_snoc_complete (L : List Entry) (y : Nat) (o : Outcome) (x : Nat) :
    ipOf (L ++ [Entry.txComplete y o]) x = if y = x then none else ipOf L x := by
  unfold ipOf; rw [scan_snoc]; simp only [scanStep, scanComplete]
  split
  · rename_i h; subst h; exact mLookup_mErase_self _ _
  · rename_i h; exact mLookup_mErase_ne _ _ _ h

/-- records the in-progress part of the scan does not look at -/
def Inert : Entry → Prop
  | .lockRelease _ _ => True
  | .allLocksReleased _ => True
  | .abortIntent _ _ _ => True
  | _ => False

theorem ipOf_snoc_inert (L : List Entry) (e : Entry) (h : Inert e) (x : Nat) :
    ipOf (L ++ [e]) x = ipOf L x := by
  unfold ipOf; rw [scan_snoc]
  cases e <;> first | rfl | exact absurd h (by simp [Inert])

theorem ipOf_append_inert (L es : List Entry) (h : ∀ e ∈ es, Inert e) (x : Nat) :
    ipOf (L ++ es) x = ipOf L x := by
  induction es generalizing L with
  | nil => simp
  | cons e es ih =>
    have : L ++ e :: es = (L ++ [e]) ++ es := by simp
    rw [this, ih _ (fun e' he' => h e' (by simp [he'])), ipOf_snoc_inert L e (h e (by simp))]

theorem pushVote_parts (shard : Nat) (v : VoteKind) (ip : InProg) : (pushVote shard v ip).parts = ip.parts := by
  unfold pushVote; split <;> rfl

theorem pushVote_not_preparing (shard : Nat) (v : VoteKind) (ip : InProg) (h : ip.phase ≠ .preparing) :
    pushVote shard v ip = ip := by
  unfold pushVote; simp [h]

/-! ## memory against the log -/

/-- the log's votes for a transaction are the coordinator's, as `record_vote` writes them -/
def VotesEq (a : List (Nat × VoteKind)) (b : List (Nat × Vote)) : Prop :=
  ∀ s, mLookup s a = (mLookup s b).map Vote.kind

/-- a pending transaction `tx` against what the scan of the log holds for it -/
def SyncTx (ip : InProg) (tx : Tx) : Prop :=
  ip.parts = tx.parts
  ∧ (tx.phase = .preparing → ip.phase = .preparing)
  ∧ (tx.phase = .prepared → ip.phase = .prepared)
  ∧ (tx.phase = .committing → ip.phase = .prepared ∨ ip.phase = .committing)
  ∧ (tx.phase = .preparing ∨ ip.phase = .prepared ∨ ip.phase = .committing → VotesEq ip.votes tx.votes)
  ∧ tx.phase ≠ .committed ∧ tx.phase ≠ .aborted

def Sync (c : Coord) : Prop :=
  ∀ x tx, (x, tx) ∈ c.pending → ∃ ip, ipOf c.log x = some ip ∧ SyncTx ip tx

theorem Sync_fresh (cfg : Cfg) (L : List Entry) : Sync { cfg := cfg, log := L } := by
  intro x tx h; simp at h

/-- memory-only changes that keep or drop pending transactions -/
theorem Sync_sub (c c' : Coord) (h : Sync c) (hlog : c'.log = c.log)
    (hp : ∀ x tx, (x, tx) ∈ c'.pending → (x, tx) ∈ c.pending) : Sync c' := by
  intro x tx hm
  rw [hlog]; exact h x tx (hp x tx hm)

theorem votesEq_restore (vs : List (Nat × VoteKind)) (hn : (mKeys vs).Nodup) :
    VotesEq vs (vs.foldl (fun m p => mInsert p.1 p.2.restore m) []) := by
  have key : ∀ (acc : List (Nat × Vote)) (vs : List (Nat × VoteKind)), (mKeys vs).Nodup →
      ∀ s, mLookup s (vs.foldl (fun m p => mInsert p.1 p.2.restore m) acc)
        = match mLookup s vs with
          | some k => some k.restore
          | none => mLookup s acc := by
    intro acc vs
    induction vs generalizing acc with
    | nil => intro _ s; rfl
    | cons p r ih =>
      obtain ⟨a, k⟩ := p
      intro hn s
      simp only [mKeys, List.map_cons, List.nodup_cons] at hn
      simp only [List.foldl_cons]
      rw [ih _ hn.2 s]
      simp only [mLookup]
      by_cases has : a = s
      · subst has
        have : mLookup a r = none := mLookup_none_of_not_mem a r hn.1
        simp [this, mLookup_mInsert]
      · simp only [has, if_false]
        cases mLookup s r with
        | none => simp [mLookup_mInsert, has]
        | some k' => rfl
  intro s
  rw [key [] vs hn s]
  cases mLookup s vs with
  | none => rfl
  | some k => cases k <;> rfl

theorem SyncTx_restore (ip : InProg) (x now : Nat) (hn : (mKeys ip.votes).Nodup)
    (hp : ip.phase = .prepared ∨ ip.phase = .committing ∨ ip.phase = .aborting) :
    SyncTx ip (restoreTx ⟨x, ip.parts, ip.votes⟩ ip.phase now) := by
  refine ⟨rfl, ?_, ?_, ?_, ?_, ?_, ?_⟩ <;> simp only [restoreTx]
  · intro h; exact h
  · intro h; exact h
  · intro h; exact Or.inr h
  · intro _; exact votesEq_restore ip.votes hn
  · rcases hp with h | h | h <;> rw [h] <;> decide
  · rcases hp with h | h | h <;> rw [h] <;> decide

/-- membership in the result of `restoreAll` -/
theorem mem_restoreAll (rs : List RecTx) (ph : Phase) (now : Nat) (p : List (Nat × Tx)) (x : Nat) (tx : Tx)
    (h : (x, tx) ∈ restoreAll rs ph now p) :
    (x, tx) ∈ p ∨ ∃ r ∈ rs, r.tx = x ∧ tx = restoreTx r ph now := by
  unfold restoreAll at h
  induction rs generalizing p with
  | nil => exact Or.inl h
  | cons r rs ih =>
    simp only [List.foldl_cons] at h
    rcases ih _ h with h | ⟨r', hr', h1, h2⟩
    · rw [mem_mInsert] at h
      rcases h with ⟨rfl, rfl⟩ | ⟨h, _⟩
      · exact Or.inr ⟨r, by simp, rfl, rfl⟩
      · exact Or.inl h
    · exact Or.inr ⟨r', by simp [hr'], h1, h2⟩

theorem Sync_recover (c : Coord) (now : Nat) (h : Sync c) : Sync (recoverFromWal c now).1 := by
  intro x tx hm
  have hlog : (recoverFromWal c now).1.log = c.log := rfl
  rw [hlog]
  unfold recoverFromWal at hm
  simp only [fromEntries, recoveryOf] at hm
  have fin : ∀ (ph : Phase) (r : RecTx), r ∈ classify (scan c.log).inProgress ph → r.tx = x →
      tx = restoreTx r ph now → (ph = .prepared ∨ ph = .committing ∨ ph = .aborting) →
      ∃ ip, ipOf c.log x = some ip ∧ SyncTx ip tx := by
    intro ph r hr hx ht hph
    obtain ⟨i, hi, hip, h1, h2⟩ := (mem_classify _ _ _).mp hr
    rw [hx] at hi
    refine ⟨i, (ipOf_iff_mem _ _ _).mpr hi, ?_⟩
    have := SyncTx_restore i x now (scan_votes_one_per_shard _ x i hi) (by rw [hip]; exact hph)
    rw [ht]
    have e : r = ⟨x, i.parts, i.votes⟩ := by cases r; simp_all
    rw [e, ← hip]; exact this
  rcases mem_restoreAll _ _ _ _ _ _ hm with hm | ⟨r, hr, hx, ht⟩
  · rcases mem_restoreAll _ _ _ _ _ _ hm with hm | ⟨r, hr, hx, ht⟩
    · rcases mem_restoreAll _ _ _ _ _ _ hm with hm | ⟨r, hr, hx, ht⟩
      · exact h x tx hm
      · exact fin _ r hr hx ht (Or.inl rfl)
    · exact fin _ r hr hx ht (Or.inr (Or.inl rfl))
  · exact fin _ r hr hx ht (Or.inr (Or.inr rfl))

theorem Sync_restartLog (cfg : Cfg) (L : List Entry) (now : Nat) : Sync (restartLog cfg L now) :=
  Sync_recover _ now (Sync_fresh cfg L)


/-! ## pending keys stay distinct -/

def PN (c : Coord) : Prop := (mKeys c.pending).Nodup

theorem nodup_filter_keys {α : Type} (m : List (Nat × α)) (p : Nat × α → Bool) (h : (mKeys m).Nodup) :
    (mKeys (m.filter p)).Nodup := by
  unfold mKeys at *
  exact List.Nodup.sublist (List.Sublist.map _ List.filter_sublist) h

theorem nodup_restoreAll (rs : List RecTx) (ph : Phase) (now : Nat) (p : List (Nat × Tx))
    (h : (mKeys p).Nodup) : (mKeys (restoreAll rs ph now p)).Nodup := by
  unfold restoreAll
  induction rs generalizing p with
  | nil => exact h
  | cons r rs ih => exact ih _ (nodup_mInsert _ _ _ h)

theorem mem_unique_pending (c : Coord) (h : PN c) (id : Nat) (t t' : Tx)
    (hl : mLookup id c.pending = some t) (hm : (id, t') ∈ c.pending) : t' = t :=
  mem_unique_of_nodup _ h id t' t hm (mLookup_some_mem _ _ _ hl)

theorem not_mem_of_lookup_none {α : Type} (m : List (Nat × α)) (x : Nat) (v : α)
    (h : mLookup x m = none) : (x, v) ∉ m := by
  intro hm
  have : x ∈ mKeys m := by simp only [mKeys, List.mem_map]; exact ⟨(x, v), hm, rfl⟩
  exact mLookup_ne_none_of_mem_keys x m this h

theorem PN_step (crc : List Nat → Nat) (ser : Entry → List Nat) (de : List Nat → Option Entry)
    (c : Coord) (s : Step) (h : PN c) : PN (step crc ser de c s).1 := by
  unfold PN at *
  cases s with
  | lock tx h' => exact h
  | «begin» id parts now =>
    simp only [step, begin]; split
    · exact h
    · split
      · exact h
      · exact nodup_mInsert _ _ _ h
  | vote id shard v x =>
    simp only [step, recordVote]
    split
    · exact h
    · split
      · exact h
      · split
        · exact h
        · split
          · exact h
          · split
            · split
              · split
                · exact nodup_mInsert _ _ _ h
                · split <;> exact nodup_mInsert _ _ _ h
              · exact nodup_mInsert _ _ _ h
            · exact nodup_mInsert _ _ _ h
  | commit id =>
    simp only [step, commit]; split
    · exact h
    · split
      · exact h
      · split
        · exact h
        · split
          · exact nodup_mInsert _ _ _ h
          · exact nodup_mErase _ _ h
  | abort id =>
    simp only [step, abort]; split
    · exact h
    · split
      · exact h
      · split
        · exact nodup_mInsert _ _ _ h
        · exact nodup_mErase _ _ h
  | completeCommit id =>
    simp only [step, completeCommit]; split
    · exact h
    · split
      · exact h
      · exact nodup_mErase _ _ h
  | completeAbort id =>
    simp only [step, completeAbort]; split
    · exact h
    · split
      · exact h
      · exact nodup_mErase _ _ h
  | forceResolve id b =>
    simp only [step, forceResolve]; split
    · exact h
    · split
      · exact h
      · exact nodup_mErase _ _ h
  | cleanup now => exact nodup_filter_keys _ _ h
  | flushAborts => exact h
  | recover now =>
    simp only [step, recoverFromWal]
    exact nodup_restoreAll _ _ _ _ (nodup_restoreAll _ _ _ _ (nodup_restoreAll _ _ _ _ h))
  | recoverMem now =>
    simp only [step, recoverMem]
    have := nodup_filter_keys c.pending (fun p => !p.2.phase.final) h
    simpa [mKeys, List.map_map, Function.comp_def] using this
  | decisions => exact h
  | truncate => exact h
  | crash n now cfg =>
    simp only [step]
    split
    · rename_i c' hc
      unfold restartBytes at hc
      cases hr : replay crc de (openRepair (List.take n (fileOf crc ser c.log))) with
      | none => rw [hr] at hc; simp at hc
      | some es =>
        rw [hr] at hc
        simp only [Option.map_some, Option.some.injEq] at hc
        subst hc
        simp only [restartLog, recoverFromWal]
        exact nodup_restoreAll _ _ _ _ (nodup_restoreAll _ _ _ _ (nodup_restoreAll _ _ _ _ (by simp [mKeys])))
    · simp [mKeys]

/-! ## `Sync` is preserved by every call -/

/-- a call about transaction `id` -/
theorem Sync_of (c c' : Coord) (id : Nat) (h : Sync c)
    (hip : ∀ x, x ≠ id → ipOf c'.log x = ipOf c.log x)
    (hp : ∀ x tx, (x, tx) ∈ c'.pending → x ≠ id → (x, tx) ∈ c.pending)
    (hid : ∀ tx, (id, tx) ∈ c'.pending → ∃ ip, ipOf c'.log id = some ip ∧ SyncTx ip tx) : Sync c' := by
  intro x tx hm
  by_cases hx : x = id
  · subst hx; exact hid tx hm
  · rw [hip x hx]; exact h x tx (hp x tx hm hx)

theorem SyncTx_fresh (parts : List Nat) (now t : Nat) :
    SyncTx ⟨parts, [], .preparing⟩ ⟨parts, .preparing, [], now, t⟩ := by
  refine ⟨rfl, fun _ => rfl, ?_, ?_, fun _ s => rfl, ?_, ?_⟩ <;> simp

theorem SyncTx_aborting (ip : InProg) (tx : Tx) (hparts : ip.parts = tx.parts)
    (h1 : ip.phase ≠ .prepared) (h2 : ip.phase ≠ .committing) (ht : tx.phase = .aborting) : SyncTx ip tx := by
  refine ⟨hparts, ?_, ?_, ?_, ?_, ?_, ?_⟩
  · intro h; rw [ht] at h; cases h
  · intro h; rw [ht] at h; cases h
  · intro h; rw [ht] at h; cases h
  · rintro (h | h | h)
    · rw [ht] at h; cases h
    · exact absurd h h1
    · exact absurd h h2
  · rw [ht]; decide
  · rw [ht]; decide

/-- a vote `record_vote` refuses (wrong phase, or the shard has voted) is one the scan drops too,
    as far as the claims of `SyncTx` go -/
theorem SyncTx_pushVote_reject (ip : InProg) (tx : Tx) (shard : Nat) (k : VoteKind) (h : SyncTx ip tx)
    (hr : tx.phase ≠ .preparing ∨ (mLookup shard tx.votes).isSome = true) :
    SyncTx (pushVote shard k ip) tx := by
  obtain ⟨h0, h1, h2, h3, h4, h5, h6⟩ := h
  by_cases hp : tx.phase = .preparing
  · -- duplicate: the scan holds the shard's vote too
    have hd : (mLookup shard tx.votes).isSome = true := by
      rcases hr with hr | hr
      · exact absurd hp hr
      · exact hr
    have hv := h4 (Or.inl hp) shard
    have : (mLookup shard ip.votes).isNone = false := by
      rw [hv]; cases hm : mLookup shard tx.votes with
      | none => rw [hm] at hd; cases hd
      | some w => rfl
    have e : pushVote shard k ip = ip := by unfold pushVote; simp [this]
    rw [e]; exact ⟨h0, h1, h2, h3, h4, h5, h6⟩
  · refine ⟨by rw [pushVote_parts]; exact h0, ?_, ?_, ?_, ?_, h5, h6⟩
    · intro h; exact absurd h hp
    · intro h; rw [pushVote_phase]; exact h2 h
    · intro h; rw [pushVote_phase]; exact h3 h
    · rw [pushVote_phase]
      rintro (h | h | h)
      · exact absurd h hp
      · rw [pushVote_not_preparing _ _ _ (by rw [h]; decide)]; exact h4 (Or.inr (Or.inl h))
      · rw [pushVote_not_preparing _ _ _ (by rw [h]; decide)]; exact h4 (Or.inr (Or.inr h))

/-- a vote `record_vote` accepts is appended by the scan -/
theorem pushVote_accept (ip : InProg) (tx : Tx) (shard : Nat) (v : Vote) (h : SyncTx ip tx)
    (hp : tx.phase = .preparing) (hn : (mLookup shard tx.votes).isSome = false) :
    pushVote shard v.kind ip = { ip with votes := ip.votes ++ [(shard, v.kind)] }
    ∧ VotesEq (ip.votes ++ [(shard, v.kind)]) (mInsert shard v tx.votes) := by
  obtain ⟨h0, h1, h2, h3, h4, h5, h6⟩ := h
  have hv := h4 (Or.inl hp)
  have hnone : mLookup shard tx.votes = none := by
    cases hm : mLookup shard tx.votes with
    | none => rfl
    | some w => rw [hm] at hn; cases hn
  have hin : mLookup shard ip.votes = none := by rw [hv shard, hnone]; rfl
  constructor
  · unfold pushVote; simp [h1 hp, hin]
  · intro s
    rw [mLookup_mInsert]
    by_cases hs : shard = s
    · subst hs
      rw [mLookup_append_none _ _ _ hin]
      simp [mLookup]
    · simp only [hs, if_false]
      cases hm : mLookup s ip.votes with
      | some w => rw [mLookup_append_some _ _ _ _ hm, ← hv s, hm]
      | none =>
        rw [mLookup_append_none _ _ _ hm, ← hv s, hm]
        simp [mLookup, hs]

theorem ipOf_walTry_inert (sz : Entry → Nat) {cfg : Cfg} (hn : cfg.NoRotate) (L : List Entry) (e : Entry)
    (h : Inert e) (x : Nat) : ipOf (walTry sz cfg L e) x = ipOf L x := by
  rcases walTry_noRotate sz hn L e with h' | h' <;> rw [h']
  exact ipOf_snoc_inert L e h x

theorem ipOf_walTryAll_inert (sz : Entry → Nat) {cfg : Cfg} (hn : cfg.NoRotate) (L es : List Entry)
    (h : ∀ e ∈ es, Inert e) (x : Nat) : ipOf (walTryAll sz cfg L es) x = ipOf L x := by
  obtain ⟨es', h1, h2⟩ := walTryAll_noRotate sz hn L es
  rw [h2]; exact ipOf_append_inert L es' (fun e he => h e (h1 e he)) x

theorem inert_releases (id : Nat) (hs : List Nat) : ∀ e ∈ hs.map (fun h => Entry.lockRelease id h), Inert e := by
  intro e he
  simp only [List.mem_map] at he
  obtain ⟨a, _, rfl⟩ := he
  trivial

theorem Sync_begin (sz : Entry → Nat) (c : Coord) (hn : c.cfg.NoRotate) (id : Nat) (parts : List Nat) (now : Nat)
    (h : Sync c) : Sync (begin sz c id parts now).1 := by
  unfold begin
  split
  · exact h
  · split
    · exact h
    · rename_i l ha
      have hl := walApp_noRotate hn ha
      subst hl
      refine Sync_of c _ id h ?_ ?_ ?_
      · intro x hx; simp only [ipOf_snoc_begin]; simp [Ne.symm hx]
      · intro x tx hm hx
        simp only [mem_mInsert] at hm
        rcases hm with ⟨h1, _⟩ | ⟨h1, _⟩
        · exact absurd h1 hx
        · exact h1
      · intro tx hm
        simp only [mem_mInsert] at hm
        rcases hm with ⟨_, rfl⟩ | ⟨_, h1⟩
        · exact ⟨_, by simp only [ipOf_snoc_begin]; simp, SyncTx_fresh _ _ _⟩
        · exact absurd rfl h1

theorem Sync_recordVote (sz : Entry → Nat) (c : Coord) (hn : c.cfg.NoRotate) (hpn : PN c)
    (id shard : Nat) (v : Vote) (xc : Bool) (h : Sync c) : Sync (recordVote sz c id shard v xc).1 := by
  unfold recordVote
  split
  · exact h
  · rename_i l ha
    have hl := walApp_noRotate hn ha
    subst hl
    have hoth : ∀ x, x ≠ id → ipOf (c.log ++ [Entry.prepareVote id shard v.kind]) x = ipOf c.log x := by
      intro x hx; rw [ipOf_snoc_vote]; simp [hx]
    simp only
    split
    · -- unknown transaction
      rename_i hnone
      refine Sync_of c _ id h hoth (fun x tx hm _ => hm) ?_
      intro tx hm; exact absurd hm (not_mem_of_lookup_none _ _ _ hnone)
    · rename_i tx0 hl0
      obtain ⟨ip0, hip0, hs0⟩ := h id tx0 (mLookup_some_mem _ _ _ hl0)
      have hidv : ipOf (c.log ++ [Entry.prepareVote id shard v.kind]) id = some (pushVote shard v.kind ip0) := by
        rw [ipOf_snoc_vote]; simp [hip0]
      -- the refused votes
      have reject : (tx0.phase ≠ .preparing ∨ (mLookup shard tx0.votes).isSome = true) →
          Sync { c with log := c.log ++ [Entry.prepareVote id shard v.kind] } := by
        intro hr
        refine Sync_of c _ id h hoth (fun x tx hm _ => hm) ?_
        intro tx hm
        have := mem_unique_pending c hpn id tx0 tx hl0 hm
        subst this
        exact ⟨_, hidv, SyncTx_pushVote_reject ip0 tx shard v.kind hs0 hr⟩
      split
      · rename_i hph; exact reject (Or.inl hph)
      · rename_i hph
        have hph : tx0.phase = .preparing := by simpa using hph
        split
        · rename_i hd; exact reject (Or.inr hd)
        · rename_i hd
          have hd : (mLookup shard tx0.votes).isSome = false := by simpa using hd
          obtain ⟨hpush, hveq⟩ := pushVote_accept ip0 tx0 shard v hs0 hph hd
          obtain ⟨h0, h1, h2, h3, h4, h5, h6⟩ := hs0
          have hidv' : ipOf (c.log ++ [Entry.prepareVote id shard v.kind]) id
              = some { ip0 with votes := ip0.votes ++ [(shard, v.kind)] } := by rw [hidv, hpush]
          -- the accepted vote, transaction still Preparing
          have acc : ∀ pa, Sync { c with log := c.log ++ [Entry.prepareVote id shard v.kind]
                                         pending := mInsert id { tx0 with votes := mInsert shard v tx0.votes } c.pending
                                         pendingAborts := pa } := by
            intro pa
            refine Sync_of c _ id h hoth ?_ ?_
            · intro x tx hm hx
              simp only [mem_mInsert] at hm
              rcases hm with ⟨h', _⟩ | ⟨h', _⟩
              · exact absurd h' hx
              · exact h'
            · intro tx hm
              simp only [mem_mInsert] at hm
              rcases hm with ⟨_, rfl⟩ | ⟨_, h'⟩
              · refine ⟨_, hidv', h0, fun _ => h1 hph, ?_, ?_, fun _ => hveq, ?_, ?_⟩
                · intro hh; rw [hph] at hh; cases hh
                · intro hh; rw [hph] at hh; cases hh
                · rw [hph]; decide
                · rw [hph]; decide
              · exact absurd rfl h'
          -- the accepted vote decides an (unlogged) abort
          have abo : ∀ pa, Sync { c with log := c.log ++ [Entry.prepareVote id shard v.kind]
                                         pending := mInsert id { tx0 with votes := mInsert shard v tx0.votes, phase := .aborting } c.pending
                                         pendingAborts := pa } := by
            intro pa
            refine Sync_of c _ id h hoth ?_ ?_
            · intro x tx hm hx
              simp only [mem_mInsert] at hm
              rcases hm with ⟨h', _⟩ | ⟨h', _⟩
              · exact absurd h' hx
              · exact h'
            · intro tx hm
              simp only [mem_mInsert] at hm
              rcases hm with ⟨_, rfl⟩ | ⟨_, h'⟩
              · refine ⟨_, hidv', SyncTx_aborting _ _ h0 ?_ ?_ rfl⟩
                · simp only [h1 hph]; decide
                · simp only [h1 hph]; decide
              · exact absurd rfl h'
          split
          · split
            · split
              · exact abo _
              · split
                · exact acc _
                · rename_i l2 ha2
                  have hl2 := walApp_noRotate (cfg := c.cfg) hn ha2
                  subst hl2
                  refine Sync_of c _ id h ?_ ?_ ?_
                  · intro x hx
                    simp only
                    rw [ipOf_snoc_phase]; simp only [hx, if_false]; exact hoth x hx
                  · intro x tx hm hx
                    simp only [mem_mInsert] at hm
                    rcases hm with ⟨h', _⟩ | ⟨h', _⟩
                    · exact absurd h' hx
                    · exact h'
                  · intro tx hm
                    simp only [mem_mInsert] at hm
                    rcases hm with ⟨_, rfl⟩ | ⟨_, h'⟩
                    · refine ⟨setPhase .prepared { ip0 with votes := ip0.votes ++ [(shard, v.kind)] }, ?_, ?_⟩
                      · simp only; rw [ipOf_snoc_phase]; simp [hidv']
                      · refine ⟨h0, ?_, fun _ => rfl, ?_, fun _ => hveq, by simp, by simp⟩
                        · intro hh; cases hh
                        · intro hh; cases hh
                    · exact absurd rfl h'
            · exact abo _
          · exact acc _

theorem Sync_commit (sz : Entry → Nat) (c : Coord) (hn : c.cfg.NoRotate) (hpn : PN c) (id : Nat)
    (h : Sync c) : Sync (commit sz c id).1 := by
  unfold commit
  split
  · exact h
  · rename_i tx0 hl0
    split
    · exact h
    · rename_i hph
      have hph : tx0.phase = .prepared := by simpa using hph
      split
      · exact h
      · rename_i l1 ha1
        have hl1 := walApp_noRotate hn ha1
        subst hl1
        obtain ⟨ip0, hip0, hs0⟩ := h id tx0 (mLookup_some_mem _ _ _ hl0)
        have hoth1 : ∀ x, x ≠ id → ipOf (c.log ++ [Entry.phaseChange id .prepared .committing]) x = ipOf c.log x := by
          intro x hx; rw [ipOf_snoc_phase]; simp [hx]
        split
        · -- TxComplete not written
          refine Sync_of c _ id h hoth1 ?_ ?_
          · intro x tx hm hx
            simp only [mem_mInsert] at hm
            rcases hm with ⟨h', _⟩ | ⟨h', _⟩
            · exact absurd h' hx
            · exact h'
          · intro tx hm
            simp only [mem_mInsert] at hm
            rcases hm with ⟨_, rfl⟩ | ⟨_, h'⟩
            · obtain ⟨h0, h1, h2, h3, h4, h5, h6⟩ := hs0
              refine ⟨setPhase .committing ip0, by simp only; rw [ipOf_snoc_phase]; simp [hip0], ?_⟩
              refine ⟨h0, ?_, ?_, fun _ => Or.inr rfl, fun _ => h4 (Or.inr (Or.inl (h2 hph))), by simp, by simp⟩
              · intro hh; cases hh
              · intro hh; cases hh
            · exact absurd rfl h'
        · rename_i l2 ha2
          have hl2 := walApp_noRotate (cfg := c.cfg) hn ha2
          subst hl2
          refine Sync_of c _ id h ?_ ?_ ?_
          · intro x hx
            simp only
            rw [ipOf_walTry_inert sz hn _ (Entry.allLocksReleased id) trivial, ipOf_walTryAll_inert sz hn _ _ (inert_releases id _),
              ipOf_snoc_complete]
            simp only [Ne.symm hx, if_false]; exact hoth1 x hx
          · intro x tx hm hx
            simp only [mem_mErase] at hm
            exact hm.1
          · intro tx hm
            simp only [mem_mErase] at hm
            exact absurd rfl hm.2

theorem Sync_abort (sz : Entry → Nat) (c : Coord) (hn : c.cfg.NoRotate) (hpn : PN c) (id : Nat)
    (h : Sync c) : Sync (abort sz c id).1 := by
  unfold abort
  split
  · exact h
  · rename_i tx0 hl0
    split
    · exact h
    · rename_i l1 ha1
      have hl1 := walApp_noRotate hn ha1
      subst hl1
      obtain ⟨ip0, hip0, hs0⟩ := h id tx0 (mLookup_some_mem _ _ _ hl0)
      have hoth1 : ∀ x, x ≠ id → ipOf (c.log ++ [Entry.phaseChange id tx0.phase .aborting]) x = ipOf c.log x := by
        intro x hx; rw [ipOf_snoc_phase]; simp [hx]
      split
      · refine Sync_of c _ id h hoth1 ?_ ?_
        · intro x tx hm hx
          simp only [mem_mInsert] at hm
          rcases hm with ⟨h', _⟩ | ⟨h', _⟩
          · exact absurd h' hx
          · exact h'
        · intro tx hm
          simp only [mem_mInsert] at hm
          rcases hm with ⟨_, rfl⟩ | ⟨_, h'⟩
          · refine ⟨setPhase .aborting ip0, by simp only; rw [ipOf_snoc_phase]; simp [hip0], ?_⟩
            exact SyncTx_aborting _ _ hs0.1 (by simp [setPhase]) (by simp [setPhase]) rfl
          · exact absurd rfl h'
      · rename_i l2 ha2
        have hl2 := walApp_noRotate (cfg := c.cfg) hn ha2
        subst hl2
        refine Sync_of c _ id h ?_ ?_ ?_
        · intro x hx
          simp only
          rw [ipOf_snoc_complete]
          simp only [Ne.symm hx, if_false]; exact hoth1 x hx
        · intro x tx hm hx
          simp only [mem_mErase] at hm
          exact hm.1
        · intro tx hm
          simp only [mem_mErase] at hm
          exact absurd rfl hm.2

theorem SyncTx_recoverTx (ip : InProg) (tx : Tx) (now : Nat) (h : SyncTx ip tx) : SyncTx ip (recoverTx now tx) := by
  obtain ⟨h0, h1, h2, h3, h4, h5, h6⟩ := h
  unfold recoverTx
  split
  · rename_i hp
    split
    · refine SyncTx_aborting _ _ h0 ?_ ?_ rfl <;> rw [h1 hp] <;> decide
    · exact ⟨h0, h1, h2, h3, h4, h5, h6⟩
  · rename_i hp
    have hip := h2 hp
    have hv := h4 (Or.inr (Or.inl hip))
    have abo : SyncTx ip { tx with phase := .aborting } := by
      refine ⟨h0, ?_, ?_, ?_, fun _ => hv, by simp, by simp⟩ <;> (intro hh; cases hh)
    split
    · exact abo
    · split
      · refine ⟨h0, ?_, ?_, fun _ => Or.inl hip, fun _ => hv, by simp, by simp⟩ <;> (intro hh; cases hh)
      · exact abo
  · exact ⟨h0, h1, h2, h3, h4, h5, h6⟩

theorem Sync_step (crc : List Nat → Nat) (ser : Entry → List Nat) (de : List Nat → Option Entry)
    (c : Coord) (s : Step) (hn : c.cfg.NoRotate) (hpn : PN c) (h : Sync c)
    (hs : StepOK crc ser de c s) (ht : s = Step.truncate → c.pending = []) : Sync (step crc ser de c s).1 := by
  cases s with
  | lock tx h' => exact Sync_sub c _ h rfl (fun _ _ hm => hm)
  | «begin» id parts now => exact Sync_begin _ c hn id parts now h
  | vote id shard v x => exact Sync_recordVote _ c hn hpn id shard v x h
  | commit id => exact Sync_commit _ c hn hpn id h
  | abort id => exact Sync_abort _ c hn hpn id h
  | completeCommit id =>
    simp only [step, completeCommit]; split
    · exact h
    · split
      · exact h
      · exact Sync_sub c _ h rfl (fun x tx hm => ((mem_mErase _ _ _ _).mp hm).1)
  | completeAbort id =>
    simp only [step, completeAbort]; split
    · exact h
    · split
      · exact h
      · exact Sync_sub c _ h rfl (fun x tx hm => ((mem_mErase _ _ _ _).mp hm).1)
  | forceResolve id b =>
    simp only [step, forceResolve]; split
    · exact h
    · split
      · exact h
      · exact Sync_sub c _ h rfl (fun x tx hm => ((mem_mErase _ _ _ _).mp hm).1)
  | cleanup now =>
    exact Sync_sub c _ h rfl (fun x tx hm => (List.mem_filter.mp hm).1)
  | flushAborts =>
    intro x tx hm
    simp only [step, flushAborts] at hm ⊢
    rw [ipOf_walTryAll_inert _ hn]
    · exact h x tx hm
    · intro e he
      simp only [List.mem_map] at he
      obtain ⟨q, _, rfl⟩ := he
      trivial
  | recover now => exact Sync_recover c now h
  | recoverMem now =>
    intro x tx hm
    simp only [step, recoverMem, List.mem_map, List.mem_filter] at hm ⊢
    obtain ⟨p, ⟨hp, _⟩, he⟩ := hm
    cases he
    obtain ⟨ip, hip, hsx⟩ := h p.1 p.2 hp
    exact ⟨ip, hip, SyncTx_recoverTx ip p.2 now hsx⟩
  | decisions => exact h
  | truncate =>
    intro x tx hm
    simp only [step, ht rfl] at hm
    cases hm
  | crash n now cfg =>
    rw [step_crash_eq crc ser de c n now cfg hs]
    exact Sync_restartLog cfg _ now


/-! ## every Prepared record in the log was acknowledged with exactly those votes -/

/-- `ip` (what a log prefix holds for `x`) is one of the Prepared acknowledgements in `hist` -/
def AckOK (hist : List (Nat × Tx)) (x : Nat) (ip : InProg) : Prop :=
  ∃ tx, (x, tx) ∈ hist ∧ ip.parts = tx.parts ∧ VotesEq ip.votes tx.votes
    ∧ tx.allVoted = true ∧ tx.allYes = true

def HP (hist : List (Nat × Tx)) (L : List Entry) : Prop :=
  ∀ x ip, ipOf L x = some ip → ip.phase = .prepared → AckOK hist x ip

/-- ... in every prefix of the log -/
def PH (hist : List (Nat × Tx)) (L : List Entry) : Prop := ∀ k, HP hist (L.take k)

/-- records that cannot make the scan show a transaction as Prepared -/
def Harmless (e : Entry) : Prop := ∀ y f, e ≠ Entry.phaseChange y f .prepared

theorem AckOK_mono {hist hist' : List (Nat × Tx)} (hsub : ∀ p ∈ hist, p ∈ hist') {x : Nat} {ip : InProg}
    (h : AckOK hist x ip) : AckOK hist' x ip := by
  obtain ⟨tx, h1, h2⟩ := h
  exact ⟨tx, hsub _ h1, h2⟩

theorem HP_nil (hist : List (Nat × Tx)) : HP hist [] := by
  intro x ip h; simp [ipOf_nil] at h

theorem PH_nil (hist : List (Nat × Tx)) : PH hist [] := by
  intro k; simpa using HP_nil hist

theorem PH_mono {hist hist' : List (Nat × Tx)} (hsub : ∀ p ∈ hist, p ∈ hist') {L : List Entry}
    (h : PH hist L) : PH hist' L :=
  fun k x ip h1 h2 => AckOK_mono hsub (h k x ip h1 h2)

theorem PH_take (hist : List (Nat × Tx)) (L : List Entry) (k : Nat) (h : PH hist L) : PH hist (L.take k) := by
  intro j; rw [List.take_take]; exact h _

theorem PH_full {hist : List (Nat × Tx)} {L : List Entry} (h : PH hist L) : HP hist L := by
  simpa using h L.length

theorem PH_snoc (hist : List (Nat × Tx)) (L : List Entry) (e : Entry) (h : PH hist L)
    (hn : HP hist (L ++ [e])) : PH hist (L ++ [e]) := by
  intro k
  by_cases hk : k ≤ L.length
  · rw [List.take_append_of_le_length hk]; exact h k
  · have : (L ++ [e]).take k = L ++ [e] := List.take_of_length_le (by simp; omega)
    rw [this]; exact hn

theorem HP_snoc_harmless (hist : List (Nat × Tx)) (L : List Entry) (e : Entry) (h : HP hist L)
    (he : Harmless e) : HP hist (L ++ [e]) := by
  intro x ip hip hp
  cases e with
  | txBegin y p =>
    rw [ipOf_snoc_begin] at hip
    split at hip
    · cases hip; cases hp
    · exact h x ip hip hp
  | prepareVote y s v =>
    rw [ipOf_snoc_vote] at hip
    split at hip
    · cases h0 : ipOf L x with
      | none => rw [h0] at hip; cases hip
      | some ip0 =>
        rw [h0] at hip
        simp only [Option.map_some, Option.some.injEq] at hip
        subst hip
        rw [pushVote_phase] at hp
        rw [pushVote_not_preparing _ _ _ (by rw [hp]; decide)]
        exact h x ip0 h0 hp
    · exact h x ip hip hp
  | phaseChange y f t =>
    rw [ipOf_snoc_phase] at hip
    split at hip
    · cases h0 : ipOf L x with
      | none => rw [h0] at hip; cases hip
      | some ip0 =>
        rw [h0] at hip
        simp only [Option.map_some, Option.some.injEq] at hip
        subst hip
        simp only [setPhase] at hp
        subst hp
        exact absurd rfl (he y f)
    · exact h x ip hip hp
  | txComplete y o =>
    rw [ipOf_snoc_complete] at hip
    split at hip
    · cases hip
    · exact h x ip hip hp
  | lockRelease y hh => rw [ipOf_snoc_inert L (Entry.lockRelease y hh) trivial] at hip; exact h x ip hip hp
  | allLocksReleased y => rw [ipOf_snoc_inert L (Entry.allLocksReleased y) trivial] at hip; exact h x ip hip hp
  | abortIntent y r sh => rw [ipOf_snoc_inert L (Entry.abortIntent y r sh) trivial] at hip; exact h x ip hip hp

theorem PH_append_harmless (hist : List (Nat × Tx)) (L es : List Entry) (h : PH hist L)
    (he : ∀ e ∈ es, Harmless e) : PH hist (L ++ es) := by
  induction es generalizing L with
  | nil => simpa using h
  | cons e es ih =>
    have : L ++ e :: es = (L ++ [e]) ++ es := by simp
    rw [this]
    apply ih
    · exact PH_snoc hist L e h (HP_snoc_harmless hist L e (PH_full h) (he e (by simp)))
    · intro e' he'; exact he e' (by simp [he'])

theorem harmless_of_inert (e : Entry) (h : Inert e) : Harmless e := by
  intro y f he; subst he; exact h

/-- as long as the size limit does not rotate the file, a call other than `record_vote` and a
    crash appends only records that cannot make a transaction Prepared -/
theorem step_grows_harmless (crc : List Nat → Nat) (ser : Entry → List Nat) (de : List Nat → Option Entry)
    (c : Coord) (hn : c.cfg.NoRotate) (s : Step) (hs : ∀ n now cfg, s ≠ Step.crash n now cfg)
    (hv : ∀ id sh v x, s ≠ Step.vote id sh v x) (ht : s ≠ Step.truncate) :
    ∃ es, (step crc ser de c s).1.log = c.log ++ es ∧ ∀ e ∈ es, Harmless e := by
  have nil : ∃ es, c.log = c.log ++ es ∧ ∀ e ∈ es, Harmless e := ⟨[], by simp, by simp⟩
  cases s with
  | lock tx h => exact nil
  | «begin» id parts now =>
    simp only [step, begin]; split
    · exact nil
    · split
      · exact nil
      · rename_i l ha
        refine ⟨_, walApp_noRotate hn ha, ?_⟩
        intro e he y f h; subst h; simp at he
  | vote id shard v x => exact absurd rfl (hv id shard v x)
  | commit id =>
    simp only [step, commit]; split
    · exact nil
    · split
      · exact nil
      · split
        · exact nil
        · rename_i l1 ha1
          have h1 := walApp_noRotate hn ha1
          split
          · refine ⟨_, h1, ?_⟩
            intro e he y f h; subst h; simp at he
          · rename_i l2 ha2
            have h2 := walApp_noRotate hn ha2
            simp only
            obtain ⟨es', hes', h3⟩ := walTryAll_noRotate (recSize ser) hn l2
              ((voteHandles _).map (fun h => Entry.lockRelease id h))
            rw [h3]
            have hes'' : ∀ e ∈ es', Harmless e := fun e he =>
              harmless_of_inert e (inert_releases id _ e (hes' e he))
            rcases walTry_noRotate (recSize ser) hn (l2 ++ es') (Entry.allLocksReleased id) with h4 | h4 <;>
              rw [h4, h2, h1]
            · refine ⟨[Entry.phaseChange id .prepared .committing, Entry.txComplete id .committed] ++ es'
                ++ [Entry.allLocksReleased id], by simp, ?_⟩
              intro e he y f h; subst h
              simp only [List.mem_append, List.mem_cons, List.mem_singleton, List.not_mem_nil, or_false] at he
              rcases he with ((he | he) | he) | he
              · cases he
              · cases he
              · exact hes'' _ he y f rfl
              · cases he
            · refine ⟨[Entry.phaseChange id .prepared .committing, Entry.txComplete id .committed] ++ es', by simp, ?_⟩
              intro e he y f h; subst h
              simp only [List.mem_append, List.mem_cons, List.not_mem_nil, or_false] at he
              rcases he with (he | he) | he
              · cases he
              · cases he
              · exact hes'' _ he y f rfl
  | abort id =>
    simp only [step, abort]; split
    · exact nil
    · rename_i tx hl
      split
      · exact nil
      · rename_i l1 ha1
        have h1 := walApp_noRotate hn ha1
        split
        · refine ⟨_, h1, ?_⟩
          intro e he y f h; subst h; simp at he
        · rename_i l2 ha2
          have h2 := walApp_noRotate hn ha2
          refine ⟨[Entry.phaseChange id tx.phase .aborting, Entry.txComplete id .aborted], by simp only; rw [h2, h1]; simp, ?_⟩
          intro e he y f h; subst h; simp at he
  | completeCommit id =>
    simp only [step, completeCommit]; split
    · exact nil
    · split <;> exact nil
  | completeAbort id =>
    simp only [step, completeAbort]; split
    · exact nil
    · split <;> exact nil
  | forceResolve id b =>
    simp only [step, forceResolve]; split
    · exact nil
    · split <;> exact nil
  | cleanup now => exact nil
  | flushAborts =>
    obtain ⟨es', hes', h⟩ := walTryAll_noRotate (recSize ser) hn c.log
      (c.pendingAborts.map (fun p => Entry.abortIntent p.1 p.2.1 p.2.2))
    refine ⟨es', by simp only [step, flushAborts]; exact h, ?_⟩
    intro e he
    have := hes' e he
    simp only [List.mem_map] at this
    obtain ⟨q, _, rfl⟩ := this
    exact harmless_of_inert _ trivial
  | recover now => exact nil
  | recoverMem now => exact nil
  | decisions => exact nil
  | truncate => exact absurd rfl ht
  | crash n now cfg => exact absurd rfl (hs n now cfg)

theorem preparedAck_not_vote (c' : Coord) (s : Step) (r : Res) (hv : ∀ id sh v x, s ≠ Step.vote id sh v x) :
    preparedAck c' s r = [] := by
  cases s <;> first | rfl | exact absurd rfl (hv _ _ _ _)

theorem harmless_vote (id shard : Nat) (k : VoteKind) : Harmless (Entry.prepareVote id shard k) := by
  intro y f h; cases h

/-- `record_vote`: the only place a transaction becomes Prepared in the log, and there the log's
    votes are the coordinator's -/
theorem PH_recordVote (sz : Entry → Nat) (c : Coord) (hn : c.cfg.NoRotate) (hpn : PN c) (hsync : Sync c)
    (hist : List (Nat × Tx)) (h : PH hist c.log) (id shard : Nat) (v : Vote) (xc : Bool) :
    PH (hist ++ preparedAck (recordVote sz c id shard v xc).1 (.vote id shard v xc) (recordVote sz c id shard v xc).2)
       (recordVote sz c id shard v xc).1.log := by
  unfold recordVote
  split
  · simpa [preparedAck] using h
  · rename_i l ha
    have hl := walApp_noRotate hn ha
    subst hl
    have h1 : PH hist (c.log ++ [Entry.prepareVote id shard v.kind]) :=
      PH_append_harmless hist c.log _ h (by intro e he; simp at he; subst he; exact harmless_vote _ _ _)
    simp only
    split
    · simpa [preparedAck] using h1
    · rename_i tx0 hl0
      split
      · simpa [preparedAck] using h1
      · rename_i hph
        have hph : tx0.phase = .preparing := by simpa using hph
        split
        · simpa [preparedAck] using h1
        · rename_i hd
          have hd : (mLookup shard tx0.votes).isSome = false := by simpa using hd
          split
          · rename_i hall
            split
            · rename_i hyes
              split
              · simpa [preparedAck] using h1
              · split
                · simpa [preparedAck] using h1
                · rename_i l2 ha2
                  have hl2 := walApp_noRotate (cfg := c.cfg) hn ha2
                  subst hl2
                  -- the acknowledgement
                  obtain ⟨ip0, hip0, hs0⟩ := hsync id tx0 (mLookup_some_mem _ _ _ hl0)
                  obtain ⟨hpush, hveq⟩ := pushVote_accept ip0 tx0 shard v hs0 hph hd
                  have hack : preparedAck
                      { c with log := c.log ++ [Entry.prepareVote id shard v.kind] ++ [Entry.phaseChange id .preparing .prepared]
                               pending := mInsert id { tx0 with votes := mInsert shard v tx0.votes, phase := .prepared } c.pending }
                      (.vote id shard v xc) (.phase (some .prepared))
                      = [(id, { tx0 with votes := mInsert shard v tx0.votes, phase := .prepared })] := by
                    simp [preparedAck, mLookup_mInsert_self]
                  simp only
                  rw [hack]
                  apply PH_snoc
                  · exact PH_mono (fun p hp => List.mem_append_left _ hp) h1
                  · intro x ip hip hp
                    rw [ipOf_snoc_phase] at hip
                    split at hip
                    · rename_i hx
                      subst hx
                      have hidv : ipOf (c.log ++ [Entry.prepareVote x shard v.kind]) x = some (pushVote shard v.kind ip0) := by
                        rw [ipOf_snoc_vote]; simp [hip0]
                      rw [hidv, hpush] at hip
                      simp only [Option.map_some, Option.some.injEq] at hip
                      subst hip
                      exact ⟨{ tx0 with votes := mInsert shard v tx0.votes, phase := .prepared },
                        List.mem_append_right _ (by simp), hs0.1, hveq, hall, hyes⟩
                    · exact AckOK_mono (fun p hp => List.mem_append_left _ hp) (PH_full h1 x ip hip hp)
            · simpa [preparedAck] using h1
          · simpa [preparedAck] using h1

/-! ## the run invariant -/

structure Good (c : Coord) (hist : List (Nat × Tx)) : Prop where
  noRotate : c.cfg.NoRotate
  inv : Inv c
  pn : PN c
  sync : Sync c
  ph : PH hist c.log

theorem Good_fresh (cfg : Cfg) (h : cfg.NoRotate) : Good { cfg := cfg } [] where
  noRotate := h
  inv := Inv_fresh cfg
  pn := by simp [PN, mKeys]
  sync := Sync_fresh cfg []
  ph := PH_nil []

/-- what one step must respect for the file to keep its records: a restart configures a WAL whose
    size limit does not rotate, and `truncate_wal` is only called with no transaction pending (a
    checkpoint) -/
def StepKeeps (c : Coord) : Step → Prop
  | .crash _ _ cfg => cfg.NoRotate
  | .truncate => c.pending = []
  | _ => True

/-- ... along a run -/
def KeepsRecords (crc : List Nat → Nat) (ser : Entry → List Nat) (de : List Nat → Option Entry) :
    Coord → List Step → Prop
  | _, [] => True
  | c, s :: ss => StepKeeps c s ∧ KeepsRecords crc ser de (step crc ser de c s).1 ss

theorem Good_step (crc : List Nat → Nat) (ser : Entry → List Nat) (de : List Nat → Option Entry)
    (c : Coord) (hist : List (Nat × Tx)) (s : Step) (hg : Good c hist) (hs : StepOK crc ser de c s)
    (hk : StepKeeps c s) :
    Good (step crc ser de c s).1 (hist ++ preparedAck (step crc ser de c s).1 s (step crc ser de c s).2) := by
  have htr : s = Step.truncate → c.pending = [] := by
    intro h; subst h; exact hk
  by_cases hc : ∃ n now cfg, s = Step.crash n now cfg
  · obtain ⟨n, now, cfg, rfl⟩ := hc
    have hcfg : cfg.NoRotate := hk
    refine ⟨?_, Inv_step crc ser de c _ hg.inv hs, PN_step crc ser de c _ hg.pn,
      Sync_step crc ser de c _ hg.noRotate hg.pn hg.sync hs htr, ?_⟩
    · rw [step_crash_eq crc ser de c n now cfg hs]; exact hcfg
    · rw [preparedAck_not_vote _ _ _ (by intro _ _ _ _ h; cases h), List.append_nil,
        step_crash_eq crc ser de c n now cfg hs]
      exact PH_take hist c.log _ hg.ph
  · have hc' : ∀ n now cfg, s ≠ Step.crash n now cfg := fun n now cfg h => hc ⟨n, now, cfg, h⟩
    refine ⟨?_, Inv_step crc ser de c _ hg.inv hs, PN_step crc ser de c _ hg.pn,
      Sync_step crc ser de c _ hg.noRotate hg.pn hg.sync hs htr, ?_⟩
    · rw [step_cfg crc ser de c s hc']; exact hg.noRotate
    · by_cases hv : ∃ id sh v x, s = Step.vote id sh v x
      · obtain ⟨id, sh, v, x, rfl⟩ := hv
        exact PH_recordVote _ c hg.noRotate hg.pn hg.sync hist hg.ph id sh v x
      · have hv' : ∀ id sh v x, s ≠ Step.vote id sh v x := fun id sh v x h => hv ⟨id, sh, v, x, h⟩
        rw [preparedAck_not_vote _ _ _ hv', List.append_nil]
        by_cases ht : s = Step.truncate
        · subst ht
          simpa [step] using PH_nil hist
        · obtain ⟨es, hes, hh⟩ := step_grows_harmless crc ser de c hg.noRotate s hc' hv' ht
          rw [hes]; exact PH_append_harmless hist c.log es hg.ph hh

theorem acks_cons (crc : List Nat → Nat) (ser : Entry → List Nat) (de : List Nat → Option Entry)
    (c : Coord) (s : Step) (ss : List Step) :
    acks crc ser de c (s :: ss)
      = preparedAck (step crc ser de c s).1 s (step crc ser de c s).2 ++ acks crc ser de (step crc ser de c s).1 ss := rfl

theorem Good_run (crc : List Nat → Nat) (ser : Entry → List Nat) (de : List Nat → Option Entry)
    (c : Coord) (hist : List (Nat × Tx)) (ss : List Step) (hg : Good c hist)
    (hv : Valid crc ser de c ss) (hnr : KeepsRecords crc ser de c ss) :
    Good (run crc ser de c ss) (hist ++ acks crc ser de c ss) := by
  induction ss generalizing c hist with
  | nil => simpa [run, acks] using hg
  | cons s ss ih =>
    rw [run_cons, acks_cons, ← List.append_assoc]
    exact ih _ _ (Good_step crc ser de c hist s hg hv.1 hnr.1) hv.2 hnr.2


/-! ## completion: answers against the log, locks -/

/-- the calls that end a transaction release the handles of its YES votes when they answer ok -/
theorem step_ok_locks (crc : List Nat → Nat) (ser : Entry → List Nat) (de : List Nat → Option Entry)
    (c : Coord) (s : Step) (id : Nat) (tx : Tx)
    (hs : s = Step.commit id ∨ s = Step.abort id ∨ s = Step.completeCommit id ∨ s = Step.completeAbort id
          ∨ ∃ b, s = Step.forceResolve id b)
    (hl : mLookup id c.pending = some tx) (hok : (step crc ser de c s).2 = Res.ok) :
    (step crc ser de c s).1.locks = releaseAll (voteHandles tx.votes) c.locks := by
  rcases hs with rfl | rfl | rfl | rfl | ⟨b, rfl⟩
  · simp only [step, commit, hl] at hok ⊢
    split at hok
    · cases hok
    · rename_i hp
      simp only [hp, if_false] at hok ⊢
      split at hok
      · cases hok
      · split at hok
        · cases hok
        · rfl
  · simp only [step, abort, hl] at hok ⊢
    split at hok
    · cases hok
    · split at hok
      · cases hok
      · rfl
  · simp only [step, completeCommit, hl] at hok ⊢
    split at hok
    · cases hok
    · rename_i hp; simp only [hp, if_false]
  · simp only [step, completeAbort, hl] at hok ⊢
    split at hok
    · cases hok
    · rename_i hp; simp only [hp, if_false]
  · simp only [step, forceResolve, hl] at hok ⊢
    split at hok
    · cases hok
    · rename_i hp; simp only [hp]; rfl

/-- `commit`: ok ⇒ the outcome is in the log; anything else ⇒ no outcome was added -/
theorem commit_answer_log (sz : Entry → Nat) (c : Coord) (hn : c.cfg.NoRotate) (id : Nat) :
    ((commit sz c id).2 = Res.ok → Entry.txComplete id .committed ∈ (commit sz c id).1.log)
    ∧ ((commit sz c id).2 ≠ Res.ok → ∀ x o, Entry.txComplete x o ∈ (commit sz c id).1.log →
        Entry.txComplete x o ∈ c.log) := by
  unfold commit
  split
  · exact ⟨fun h => (by cases h), fun _ x o h => h⟩
  · split
    · exact ⟨fun h => (by cases h), fun _ x o h => h⟩
    · split
      · exact ⟨fun h => (by cases h), fun _ x o h => h⟩
      · rename_i l1 ha1
        have h1 := walApp_noRotate hn ha1
        split
        · refine ⟨fun h => (by cases h), fun _ x o h => ?_⟩
          simp only [h1, List.mem_append, List.mem_singleton] at h
          rcases h with h | h
          · exact h
          · cases h
        · rename_i l2 ha2
          have h2 := walApp_noRotate hn ha2
          refine ⟨fun _ => ?_, fun h => absurd rfl h⟩
          simp only
          obtain ⟨es', _, h3⟩ := walTryAll_noRotate sz hn l2 ((voteHandles _).map (fun h => Entry.lockRelease id h))
          rw [h3]
          rcases walTry_noRotate sz hn (l2 ++ es') (Entry.allLocksReleased id) with h4 | h4 <;>
            (rw [h4, h2]; simp)

/-- `abort`: ok ⇒ the outcome is in the log; anything else ⇒ no outcome was added -/
theorem abort_answer_log (sz : Entry → Nat) (c : Coord) (hn : c.cfg.NoRotate) (id : Nat) :
    ((abort sz c id).2 = Res.ok → Entry.txComplete id .aborted ∈ (abort sz c id).1.log)
    ∧ ((abort sz c id).2 ≠ Res.ok → ∀ x o, Entry.txComplete x o ∈ (abort sz c id).1.log →
        Entry.txComplete x o ∈ c.log) := by
  unfold abort
  split
  · exact ⟨fun h => (by cases h), fun _ x o h => h⟩
  · split
    · exact ⟨fun h => (by cases h), fun _ x o h => h⟩
    · rename_i l1 ha1
      have h1 := walApp_noRotate hn ha1
      split
      · refine ⟨fun h => (by cases h), fun _ x o h => ?_⟩
        simp only [h1, List.mem_append, List.mem_singleton] at h
        rcases h with h | h
        · exact h
        · cases h
      · rename_i l2 ha2
        have h2 := walApp_noRotate hn ha2
        exact ⟨fun _ => by simp [h2], fun h => absurd rfl h⟩

/-! ## `recover()` on what a restart brought back -/

theorem mem_fold_restore (vs : List (Nat × VoteKind)) (acc : List (Nat × Vote)) (s : Nat) (w : Vote)
    (h : (s, w) ∈ vs.foldl (fun m p => mInsert p.1 p.2.restore m) acc) :
    (s, w) ∈ acc ∨ ∃ k, (s, k) ∈ vs ∧ w = k.restore := by
  induction vs generalizing acc with
  | nil => exact Or.inl h
  | cons p r ih =>
    simp only [List.foldl_cons] at h
    rcases ih _ h with h | ⟨k, hk, hw⟩
    · rw [mem_mInsert] at h
      rcases h with ⟨rfl, rfl⟩ | ⟨h, _⟩
      · exact Or.inr ⟨p.2, by simp, rfl⟩
      · exact Or.inl h
    · exact Or.inr ⟨k, by simp [hk], hw⟩

/-- votes that mirror an all-YES acknowledgement are all YES -/
theorem votes_yes_of_ack (ipv : List (Nat × VoteKind)) (tx : Tx) (hv : VotesEq ipv tx.votes)
    (hn : (mKeys ipv).Nodup) (hy : tx.allYes = true) :
    ∀ s k, (s, k) ∈ ipv → ∃ h, k = VoteKind.yes h := by
  intro s k hm
  have h1 := mLookup_of_mem_nodup ipv hn s k hm
  rw [hv s] at h1
  cases hl : mLookup s tx.votes with
  | none => rw [hl] at h1; cases h1
  | some w =>
    rw [hl] at h1
    simp only [Option.map_some, Option.some.injEq] at h1
    have hw := mLookup_some_mem s w tx.votes hl
    simp only [Tx.allYes, List.all_eq_true] at hy
    have := hy (s, w) hw
    cases w with
    | yes h => exact ⟨h, by rw [← h1]; rfl⟩
    | no => cases this
    | conflict => cases this

theorem restoreTx_allYes (x : Nat) (ip : InProg) (ph : Phase) (now : Nat)
    (hy : ∀ s k, (s, k) ∈ ip.votes → ∃ h, k = VoteKind.yes h) :
    (restoreTx ⟨x, ip.parts, ip.votes⟩ ph now).allYes = true := by
  simp only [Tx.allYes, restoreTx, List.all_eq_true]
  intro p hp
  rcases mem_fold_restore ip.votes [] p.1 p.2 hp with h | ⟨k, hk, hw⟩
  · cases h
  · obtain ⟨h, rfl⟩ := hy _ _ hk
    rw [hw]; rfl

/-- `recover()` moves a Prepared, all-YES transaction that has not timed out to Committing; it is
    then a pending decision and `complete_commit` finishes it -/
theorem recoverMem_commits (c : Coord) (hpn : PN c) (x : Nat) (t : Tx) (now : Nat)
    (hl : mLookup x c.pending = some t) (hp : t.phase = .prepared) (hy : t.allYes = true)
    (hto : t.timedOut now = false) :
    mLookup x (recoverMem c now).1.pending = some { t with phase := .committing }
    ∧ (x, Phase.committing) ∈ pendingDecisions (recoverMem c now).1
    ∧ (completeCommit (recoverMem c now).1 x).2 = Res.ok := by
  have hm : (x, { t with phase := Phase.committing }) ∈ (recoverMem c now).1.pending := by
    simp only [recoverMem, List.mem_map, List.mem_filter]
    refine ⟨(x, t), ⟨mLookup_some_mem _ _ _ hl, by simp [Phase.final, hp]⟩, ?_⟩
    simp [recoverTx, hp, hto, hy]
  have hpn' : PN (recoverMem c now).1 := by
    have := PN_step (fun _ => 0) (fun _ => []) (fun _ => none) c (.recoverMem now) hpn
    simpa [step] using this
  have hlk := mLookup_of_mem_nodup _ hpn' x _ hm
  refine ⟨hlk, ?_, ?_⟩
  · simp only [pendingDecisions, List.mem_map, List.mem_filter]
    exact ⟨(x, { t with phase := Phase.committing }), ⟨hm, by simp⟩, rfl⟩
  · simp [completeCommit, hlk]


instance (c : Coord) (s : Step) : Decidable (StepKeeps c s) := by
  cases s <;> (unfold StepKeeps; infer_instance)

instance decKeepsRecords (crc : List Nat → Nat) (ser : Entry → List Nat) (de : List Nat → Option Entry) :
    (c : Coord) → (ss : List Step) → Decidable (KeepsRecords crc ser de c ss)
  | _, [] => isTrue trivial
  | c, s :: ss =>
    have := decKeepsRecords crc ser de (step crc ser de c s).1 ss
    by unfold KeepsRecords; infer_instance

theorem KeepsRecords_append (crc : List Nat → Nat) (ser : Entry → List Nat) (de : List Nat → Option Entry)
    (c : Coord) (a b : List Step) :
    KeepsRecords crc ser de c (a ++ b) ↔ KeepsRecords crc ser de c a ∧ KeepsRecords crc ser de (run crc ser de c a) b := by
  induction a generalizing c with
  | nil => simp [KeepsRecords, run]
  | cons s a ih =>
    simp only [List.cons_append, KeepsRecords, run_cons, ih, and_assoc]

/-- `restore_tx` rebuilds the vote map of the scan -/
theorem lookup_restore (vs : List (Nat × VoteKind)) (hn : (mKeys vs).Nodup) (s : Nat) :
    mLookup s (vs.foldl (fun m p => mInsert p.1 p.2.restore m) []) = (mLookup s vs).map VoteKind.restore := by
  have key : ∀ (acc : List (Nat × Vote)) (vs : List (Nat × VoteKind)), (mKeys vs).Nodup →
      ∀ s, mLookup s (vs.foldl (fun m p => mInsert p.1 p.2.restore m) acc)
        = match mLookup s vs with
          | some k => some k.restore
          | none => mLookup s acc := by
    intro acc vs
    induction vs generalizing acc with
    | nil => intro _ s; rfl
    | cons p r ih =>
      obtain ⟨a, k⟩ := p
      intro hn s
      simp only [mKeys, List.map_cons, List.nodup_cons] at hn
      simp only [List.foldl_cons]
      rw [ih _ hn.2 s]
      simp only [mLookup]
      by_cases has : a = s
      · subst has
        have : mLookup a r = none := mLookup_none_of_not_mem a r hn.1
        simp [this, mLookup_mInsert]
      · simp only [has, if_false]
        cases mLookup s r with
        | none => simp [mLookup_mInsert, has]
        | some k' => rfl
  rw [key [] vs hn s]
  cases mLookup s vs <;> rfl

/-- without a size limit, `commit` of a Prepared transaction succeeds and logs the outcome -/
theorem commit_noCap (sz : Entry → Nat) (c : Coord) (hcap : c.cfg.walCap = none) (id : Nat) (tx : Tx)
    (hl : mLookup id c.pending = some tx) (hp : tx.phase = .prepared) :
    (commit sz c id).2 = Res.ok ∧ Entry.txComplete id .committed ∈ (commit sz c id).1.log := by
  unfold commit
  simp only [hl, hp, ne_eq, not_true_eq_false, if_false, walApp_noCap _ _ hcap, walTry_noCap _ _ hcap,
    walTryAll_noCap _ _ hcap]
  simp

/-- without a size limit, `abort` of a pending transaction succeeds and logs the outcome -/
theorem abort_noCap (sz : Entry → Nat) (c : Coord) (hcap : c.cfg.walCap = none) (id : Nat) (tx : Tx)
    (hl : mLookup id c.pending = some tx) :
    (abort sz c id).2 = Res.ok ∧ Entry.txComplete id .aborted ∈ (abort sz c id).1.log := by
  unfold abort
  simp only [hl, walApp_noCap _ _ hcap]
  simp


/-- every transaction the scan of the surviving log holds as Prepared / Committing / Aborting is
    pending after the restart, restored from the scan in that phase -/
theorem restart_phase (cfg : Cfg) (L : List Entry) (now : Nat) (x : Nat) (ip : InProg)
    (hm : (x, ip) ∈ (scan L).inProgress)
    (hp : ip.phase = .prepared ∨ ip.phase = .committing ∨ ip.phase = .aborting) :
    mLookup x (restartLog cfg L now).pending = some (restoreTx ⟨x, ip.parts, ip.votes⟩ ip.phase now) := by
  have hs := Sync_restartLog cfg L now
  have hpn : PN (restartLog cfg L now) := by
    unfold PN restartLog recoverFromWal
    exact nodup_restoreAll _ _ _ _ (nodup_restoreAll _ _ _ _ (nodup_restoreAll _ _ _ _ (by simp [mKeys])))
  -- it is a key of the pending map ...
  have hr : (⟨x, ip.parts, ip.votes⟩ : RecTx) ∈ classify (scan L).inProgress ip.phase :=
    (mem_classify _ _ _).mpr ⟨ip, hm, rfl, rfl, rfl⟩
  have key : ∀ (rs : List RecTx) (ph : Phase) (p : List (Nat × Tx)), (∃ r ∈ rs, r.tx = x) ∨ x ∈ mKeys p →
      x ∈ mKeys (restoreAll rs ph now p) := by
    intro rs ph p h
    rcases lookup_restoreAll rs ph now p x with ⟨r, _, _, hl⟩ | ⟨hn, hl⟩
    · exact mLookup_some_mem_keys _ _ _ hl
    · rcases h with ⟨r, hr, hx⟩ | h
      · exact absurd hx (hn r hr)
      · cases hlk : mLookup x p with
        | none => exact absurd hlk (mLookup_ne_none_of_mem_keys x p h)
        | some t => rw [hlk] at hl; exact mLookup_some_mem_keys _ _ _ hl
  have hk : x ∈ mKeys (restartLog cfg L now).pending := by
    unfold restartLog recoverFromWal
    simp only [fromEntries, recoveryOf]
    rcases hp with h | h | h
    · rw [h] at hr
      exact key _ _ _ (Or.inr (key _ _ _ (Or.inr (key _ _ _ (Or.inl ⟨_, hr, rfl⟩)))))
    · rw [h] at hr
      exact key _ _ _ (Or.inr (key _ _ _ (Or.inl ⟨_, hr, rfl⟩)))
    · rw [h] at hr
      exact key _ _ _ (Or.inl ⟨_, hr, rfl⟩)
  -- ... and whatever is pending under `x` is the restored image of the scan's entry
  cases hl : mLookup x (restartLog cfg L now).pending with
  | none => exact absurd hl (mLookup_ne_none_of_mem_keys _ _ hk)
  | some t =>
    obtain ⟨ip', hm', _, ht⟩ := restart_pending cfg L now x t hl
    have := mem_unique_of_nodup _ (nodup_scan L) x ip' ip hm' hm
    subst this
    rw [ht]

end Neumann.TxWal
