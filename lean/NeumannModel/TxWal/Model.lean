import NeumannModel.Common.FramedLog
/-
  C13 — 2PC coordinator write-ahead log and restart.
  Mirrors  tensor_chain/src/tx_wal.rs          (TxWalEntry, TxRecoveryState::{scan_entries,
                                                classify_in_progress, detect_orphaned_locks,
                                                detect_pending_aborts}, TxWal::{open,append,replay})
           tensor_chain/src/distributed_tx.rs  (DistributedTxCoordinator::{begin, record_vote, commit,
                                                abort, complete_commit, complete_abort,
                                                cleanup_timeouts, process_pending_aborts,
                                                recover_from_wal, recover, get_pending_decisions,
                                                force_resolve, truncate_wal},
                                                LOCK_COUNTER / next_lock_handle)
  Every coordinator operation is "append these WAL records in this order, then change memory".
  Import-free apart from the shared framed log; total; executable.

  Abstractions (see areas/C13.json):
    * hash maps are association lists (insert = erase + cons); everything printed is sorted;
    * bitcode is opaque: the payload <-> entry mapping is a parameter (`ser` / `de`);
    * time is an explicit argument (`now`, epoch millis) of begin / cleanup / recover;
    * the cosine cross-shard conflict test of `record_vote` is an input bit;
    * lock manager = list of (handle, tx); lock expiry is not modelled (C12); the process-wide
      handle counter (`LOCK_COUNTER`) is a field of the coordinator state (one coordinator per
      process) that a new process starts at 1; `u64` wrap-around of the counter is not modelled;
    * a WAL append fails only through the size limit (`WalConfig::max_size_bytes` with
      `auto_rotate = false`: `SizeLimitExceeded`) or rotates the file (`auto_rotate = true`:
      the records written so far leave the file `replay` reads); other I/O errors and the
      free-disk-space pre-check are not modelled.
-/
namespace Neumann.TxWal
open Neumann.FramedLog

/-! ## association lists standing for `HashMap<u64, _>` -/

def mErase {α : Type} (k : Nat) (m : List (Nat × α)) : List (Nat × α) :=
  m.filter (fun p => decide (p.1 ≠ k))

def mInsert {α : Type} (k : Nat) (v : α) (m : List (Nat × α)) : List (Nat × α) :=
  (k, v) :: mErase k m

def mLookup {α : Type} (k : Nat) : List (Nat × α) → Option α
  | [] => none
  | (k', v) :: r => if k' = k then some v else mLookup k r

def mModify {α : Type} (k : Nat) (f : α → α) (m : List (Nat × α)) : List (Nat × α) :=
  m.map (fun p => if p.1 = k then (p.1, f p.2) else p)

def mKeys {α : Type} (m : List (Nat × α)) : List Nat := m.map (·.1)

/-! ## WAL entries (tx_wal.rs:34) -/

inductive Phase where
  | preparing | prepared | committing | committed | aborting | aborted
  deriving DecidableEq, Repr, Inhabited

inductive VoteKind where
  | yes (h : Nat)
  | no
  deriving DecidableEq, Repr

inductive Outcome where
  | committed | aborted
  deriving DecidableEq, Repr

inductive Entry where
  | txBegin (tx : Nat) (parts : List Nat)
  | prepareVote (tx shard : Nat) (v : VoteKind)
  | phaseChange (tx : Nat) (frm to : Phase)
  | txComplete (tx : Nat) (o : Outcome)
  | lockRelease (tx h : Nat)
  | allLocksReleased (tx : Nat)
  | abortIntent (tx : Nat) (reason : String) (shards : List Nat)
  deriving DecidableEq, Repr

/-! ## recovery scan (tx_wal.rs:560-742) -/

/-- `InProgressTxState = (participants, votes, phase)` -/
structure InProg where
  parts : List Nat
  votes : List (Nat × VoteKind)
  phase : Phase
  deriving DecidableEq, Repr

/-- the six collections `scan_entries` builds -/
structure Scan where
  inProgress : List (Nat × InProg) := []
  completedHandles : List (Nat × List Nat) := []
  released : List (Nat × Nat) := []          -- set of (tx, handle)
  fullyReleased : List Nat := []             -- set
  abortIntents : List (Nat × (String × List Nat)) := []
  completed : List Nat := []                 -- set
  deriving Repr

def yesHandles (vs : List (Nat × VoteKind)) : List Nat :=
  vs.filterMap (fun p => match p.2 with | .yes h => some h | .no => none)

/-- what the `TxComplete` arm does (shared by the current and the pre-fix scan) -/
def scanComplete (s : Scan) (tx : Nat) : Scan :=
  let ch := match mLookup tx s.inProgress with
    | some ip =>
        let hs := yesHandles ip.votes
        if hs.isEmpty then s.completedHandles else mInsert tx hs s.completedHandles
    | none => s.completedHandles
  { s with completedHandles := ch, inProgress := mErase tx s.inProgress, completed := tx :: s.completed }

/-- `PrepareVote` arm: `record_vote` logs a vote before validating it, so the log also holds the
    votes it rejected (duplicate / late).  Only the first vote of a shard, while the transaction is
    still `Preparing`, is kept — exactly the votes `record_vote` accepted. -/
def pushVote (shard : Nat) (v : VoteKind) (ip : InProg) : InProg :=
  if ip.phase = .preparing ∧ (mLookup shard ip.votes).isNone then { ip with votes := ip.votes ++ [(shard, v)] }
  else ip

/-- one iteration of the `for entry in entries` loop of `scan_entries` -/
def scanStep (s : Scan) : Entry → Scan
  | .txBegin tx parts =>
      { s with inProgress := mInsert tx ⟨parts, [], .preparing⟩ s.inProgress }
  | .prepareVote tx shard v =>        -- `if let Some(..) = in_progress.get_mut(tx_id) { .. }`
      { s with inProgress := mModify tx (pushVote shard v) s.inProgress }
  | .phaseChange tx _ to =>
      { s with inProgress := mModify tx (fun ip => { ip with phase := to }) s.inProgress }
  | .txComplete tx _ => scanComplete s tx
  | .lockRelease tx h => { s with released := (tx, h) :: s.released }
  | .allLocksReleased tx => { s with fullyReleased := tx :: s.fullyReleased }
  | .abortIntent tx reason shards =>
      { s with abortIntents := mInsert tx (reason, shards) s.abortIntents }

/-- the scan before "fix: recovery keeps only the votes record_vote accepted": every logged vote
    was pushed.  Kept only for the `_witness` theorem. -/
def scanStepOld (s : Scan) : Entry → Scan
  | .prepareVote tx shard v =>
      { s with inProgress := mModify tx (fun ip => { ip with votes := ip.votes ++ [(shard, v)] }) s.inProgress }
  | e => scanStep s e

def scan (es : List Entry) : Scan := es.foldl scanStep {}

def scanOld (es : List Entry) : Scan := es.foldl scanStepOld {}

/-- `RecoveredPreparedTx` -/
structure RecTx where
  tx : Nat
  parts : List Nat
  votes : List (Nat × VoteKind)
  deriving DecidableEq, Repr

/-- `TxRecoveryState` -/
structure Recovery where
  prepared : List RecTx
  committing : List RecTx
  aborting : List RecTx
  orphaned : List (Nat × Nat)                       -- (tx, handle)
  pendingAbortIntents : List (Nat × (String × List Nat))
  deriving Repr

/-- `classify_in_progress`: Preparing (and the two terminal phases) fall through `=> {}` -/
def classify (ip : List (Nat × InProg)) (ph : Phase) : List RecTx :=
  (ip.filter (fun p => decide (p.2.phase = ph))).map (fun p => ⟨p.1, p.2.parts, p.2.votes⟩)

/-- `detect_orphaned_locks` -/
def orphans (s : Scan) : List (Nat × Nat) :=
  s.completedHandles.flatMap (fun p =>
    if p.1 ∈ s.fullyReleased then []
    else (p.2.filter (fun h => decide ((p.1, h) ∉ s.released))).map (fun h => (p.1, h)))

/-- `detect_pending_aborts` -/
def pendingIntents (s : Scan) : List (Nat × (String × List Nat)) :=
  s.abortIntents.filter (fun p => decide (p.1 ∉ s.completed))

def recoveryOf (s : Scan) : Recovery :=
  { prepared := classify s.inProgress .prepared
    committing := classify s.inProgress .committing
    aborting := classify s.inProgress .aborting
    orphaned := orphans s
    pendingAbortIntents := pendingIntents s }

/-- `TxRecoveryState::from_entries` -/
def fromEntries (es : List Entry) : Recovery := recoveryOf (scan es)

def fromEntriesOld (es : List Entry) : Recovery := recoveryOf (scanOld es)

/-! ## the file: `TxWal::{append, replay, open}` over the shared framed log -/

/-- `replay_with_validation(verify = true)`: `none` = `Err(ChecksumMismatch)`; an incomplete or
    undecodable record silently ends the replay. -/
def replay (crc : List Nat → Nat) (de : List Nat → Option Entry) (bytes : List Nat) : Option (List Entry) :=
  let r := parse crc (fun p => (de p).isSome) bytes
  if r.2 = PEnd.badCrc then none else some (r.1.filterMap de)

/-- bytes of a file holding exactly these entries -/
def fileOf (crc : List Nat → Nat) (ser : Entry → List Nat) (es : List Entry) : List Nat :=
  encodeAll crc (es.map ser)

/-! ### which frames the two sides accept

  `TxWal::append` (tx_wal.rs:317) writes the record of an entry as ONE frame
  `[len as u32][crc][payload]` whatever the payload's length: the write side has no per-record
  limit, only the limit on the size of the whole file (`walApp` below).  `replay_with_validation`
  (tx_wal.rs:400, `parse` above) reads `len` and allocates / reads exactly that many bytes: the
  read side has no per-record limit either.  Both sides therefore agree on every payload length
  the 4-byte length field can hold — a `TxBegin` over tens of thousands of participant shards or
  an `AbortIntent` for them (hundreds of KB) is written AND replayed.

  `parseCapped` / `replayCapped` are NOT the code: they are the variant in which the read side
  alone refuses frames whose length prefix exceeds `cap` ("a garbage header: stop as for a torn
  tail"), kept only for the contrast theorems and the `…_witness` of `PropsReplay.lean`.
  Structural recursion on a fuel argument (the bytes left), so it evaluates under `decide`. -/

def parseCappedAux (cap : Nat) (crc : List Nat → Nat) (decodable : List Nat → Bool) :
    Nat → List Nat → List (List Nat) × PEnd
  | 0, bs => ([], if bs.isEmpty then .clean else .torn)
  | fuel + 1, bs =>
    if bs.length < 8 then ([], if bs.isEmpty then .clean else .torn) else
      let len := de32 (bs.take 4)
      if cap < len then ([], .torn) else       -- the read-side limit: `break`
      let c := de32 ((bs.drop 4).take 4)
      let body := bs.drop 8
      if body.length < len then ([], .torn) else
        let p := body.take len
        if c ≠ 0 ∧ c ≠ crc p then ([], .badCrc) else
        if !decodable p then ([], .undecodable) else
          let r := parseCappedAux cap crc decodable fuel (body.drop len)
          (p :: r.1, r.2)

def parseCapped (cap : Nat) (crc : List Nat → Nat) (decodable : List Nat → Bool) (bs : List Nat) :
    List (List Nat) × PEnd :=
  parseCappedAux cap crc decodable (bs.length + 1) bs

/-- `replay` with the read-side frame-length limit `cap` (see above: not the code) -/
def replayCapped (cap : Nat) (crc : List Nat → Nat) (de : List Nat → Option Entry) (bytes : List Nat) :
    Option (List Entry) :=
  let r := parseCapped cap crc (fun p => (de p).isSome) bytes
  if r.2 = PEnd.badCrc then none else some (r.1.filterMap de)

/-! ## coordinator (distributed_tx.rs) -/

/-- in-memory `PrepareVote` (the `delta` of a YES vote is abstracted into the conflict bit) -/
inductive Vote where
  | yes (h : Nat)
  | no
  | conflict
  deriving DecidableEq, Repr

/-- what `record_vote` writes to the WAL for a vote: `No` and `Conflict` both become `No` -/
def Vote.kind : Vote → VoteKind
  | .yes h => .yes h
  | .no => .no
  | .conflict => .no

/-- `restore_tx` in `recover_from_wal` -/
def VoteKind.restore : VoteKind → Vote
  | .yes h => .yes h
  | .no => .no

def Vote.isYes : Vote → Bool
  | .yes _ => true
  | _ => false

/-- `DistributedTransaction` (fields the property talks about) -/
structure Tx where
  parts : List Nat
  phase : Phase
  votes : List (Nat × Vote)        -- HashMap<ShardId, PrepareVote>
  startedAt : Nat
  timeoutMs : Nat
  deriving DecidableEq, Repr

/-- `DistributedTxConfig` + the part of the `WalConfig` of the coordinator's `TxWal` that decides
    whether an append can fail -/
structure Cfg where
  prepareTimeoutMs : Nat
  maxConcurrent : Nat
  /-- `WalConfig::max_size_bytes`; `none` = never reached (default 1 GiB) -/
  walCap : Option Nat := none
  /-- `WalConfig::auto_rotate` -/
  autoRotate : Bool := true
  deriving DecidableEq, Repr

/-- the size limit never makes the file `replay` reads lose records -/
def Cfg.NoRotate (cfg : Cfg) : Prop := cfg.walCap = none ∨ cfg.autoRotate = false

instance (cfg : Cfg) : Decidable cfg.NoRotate := by unfold Cfg.NoRotate; infer_instance

structure Coord where
  cfg : Cfg
  pending : List (Nat × Tx) := []
  pendingAborts : List (Nat × (String × List Nat)) := []
  locks : List (Nat × Nat) := []       -- lock manager: (handle, owning tx)
  log : List Entry := []                -- what `replay` of the WAL file returns
  /-- `static LOCK_COUNTER: AtomicU64 = AtomicU64::new(1)` (distributed_tx.rs:403): the handle the
      next `try_lock` of this process returns.  Process-wide; a new process starts at 1. -/
  nextHandle : Nat := 1
  deriving Repr

/-- `LOCK_HANDLE_HIGH_WATER = u64::MAX / 10 * 9` (distributed_tx.rs:406) -/
def highWater : Nat := 18446744073709551615 / 10 * 9

/-- `Iterator::max` -/
def listMax : List Nat → Option Nat
  | [] => none
  | h :: t => match listMax t with
    | none => some h
    | some m => some (max h m)

/-- answer of one call, already reduced to what the caller can observe -/
inductive Res where
  | ok
  | phase (p : Option Phase)            -- record_vote: Ok(Some(phase)) / Ok(None)
  | tooMany
  | notFound
  | wrongPhase (actual : Phase)
  | duplicate
  | timedOut (ids : List Nat)
  | recovered (prepared committing aborting orphans : Nat)
  | flushed (n : Nat)
  | walErr                              -- `Err(StorageError("WAL write failed"))`
  | recStats (timedOut prepare commit abort completed : Nat)   -- `recover()`
  | decisions (ds : List (Nat × Phase)) -- `get_pending_decisions()`
  | cannotCommit                        -- `force_resolve(commit = true)` refused
  deriving DecidableEq, Repr

/-- bytes of a file holding `log` when the record of `e` takes `sz e` bytes -/
def fileLen (sz : Entry → Nat) (log : List Entry) : Nat := (log.map sz).sum

/-- `TxWal::append` on the file whose replay is `log` (tx_wal.rs:317): the size check either
    lets the record through, rotates the file first (`auto_rotate`: the current file is renamed
    away and a fresh one started — `replay` only reads the current file), or refuses
    (`none` = `Err(SizeLimitExceeded)`). -/
def walApp (sz : Entry → Nat) (cfg : Cfg) (log : List Entry) (e : Entry) : Option (List Entry) :=
  match cfg.walCap with
  | none => some (log ++ [e])
  | some cap =>
    if fileLen sz log + sz e > cap then
      if cfg.autoRotate then some [e] else none
    else some (log ++ [e])

/-- `log_wal_entry(e).is_err()` ⇒ carry on: the `let _ =` / `if let Err(e) = … { error!(…) }` sites -/
def walTry (sz : Entry → Nat) (cfg : Cfg) (log : List Entry) (e : Entry) : List Entry :=
  (walApp sz cfg log e).getD log

def walTryAll (sz : Entry → Nat) (cfg : Cfg) (log : List Entry) (es : List Entry) : List Entry :=
  es.foldl (walTry sz cfg) log

/-- `release_by_handle_with_wait_cleanup` -/
def release (h : Nat) (locks : List (Nat × Nat)) : List (Nat × Nat) :=
  locks.filter (fun p => decide (p.1 ≠ h))

def releaseAll (hs : List Nat) (locks : List (Nat × Nat)) : List (Nat × Nat) :=
  hs.foldl (fun l h => release h l) locks

def voteHandles (vs : List (Nat × Vote)) : List Nat :=
  vs.filterMap (fun p => match p.2 with | .yes h => some h | _ => none)

/-- `tx.is_timed_out()`: `now - started_at > timeout_ms` -/
def Tx.timedOut (t : Tx) (now : Nat) : Bool := decide (now - t.startedAt > t.timeoutMs)

/-- `tx.all_voted()` -/
def Tx.allVoted (t : Tx) : Bool := t.parts.all (fun s => (mLookup s t.votes).isSome)

/-- `tx.all_yes()` -/
def Tx.allYes (t : Tx) : Bool := t.votes.all (fun p => p.2.isYes)

/-- a successful `LockManager::try_lock` that returned handle `h` (C12 models the lock table
    itself): the handle now belongs to `tx`, and — `next_lock_handle` is
    `LOCK_COUNTER.fetch_add(1)` — the counter stands at `h + 1`.  In the code `h` is the value of
    the counter (`h = c.nextHandle`, see `tryLock`); the correspondence streams that label handles
    by their rank pass the label instead and never look at the counter. -/
def lockAcquire (c : Coord) (tx h : Nat) : Coord × Res :=
  ({ c with locks := (h, tx) :: c.locks, nextHandle := h + 1 }, .ok)

/-- `LockManager::try_lock` on free keys: the handle is the value of the counter -/
def tryLock (c : Coord) (tx : Nat) : Coord × Res := lockAcquire c tx c.nextHandle

/-- `begin` (distributed_tx.rs:1240): limit check, TxBegin logged, then inserted; a failed WAL
    write leaves the transaction out of `pending` -/
def begin (sz : Entry → Nat) (c : Coord) (id : Nat) (parts : List Nat) (now : Nat) : Coord × Res :=
  if c.pending.length ≥ c.cfg.maxConcurrent then (c, .tooMany)
  else
    match walApp sz c.cfg c.log (.txBegin id parts) with
    | none => (c, .walErr)
    | some l =>
      ({ c with log := l, pending := mInsert id ⟨parts, .preparing, [], now, c.cfg.prepareTimeoutMs⟩ c.pending }, .ok)

/-- `record_vote` (distributed_tx.rs:1419).  The vote is logged BEFORE it is validated; a failed
    write of the vote answers `Ok(None)` with nothing recorded; a failed write of the
    PhaseChange answers `Ok(None)` with the vote recorded and the phase left at Preparing. -/
def recordVote (sz : Entry → Nat) (c : Coord) (id shard : Nat) (v : Vote) (xconflict : Bool) : Coord × Res :=
  match walApp sz c.cfg c.log (.prepareVote id shard v.kind) with
  | none => (c, .phase none)
  | some l =>
  let c := { c with log := l }
  match mLookup id c.pending with
  | none => (c, .notFound)
  | some tx =>
    if tx.phase ≠ .preparing then (c, .wrongPhase tx.phase)
    else if (mLookup shard tx.votes).isSome then (c, .duplicate)
    else
      let tx := { tx with votes := mInsert shard v tx.votes }
      if tx.allVoted then
        if tx.allYes then
          if xconflict then
            -- phase 3a: memory only, abort queued for broadcast
            ({ c with pending := mInsert id { tx with phase := .aborting } c.pending
                      pendingAborts := c.pendingAborts ++ [(id, ("cross-shard conflict", tx.parts))] },
             .phase (some .aborting))
          else
            -- phase 3b: PhaseChange logged, then memory
            match walApp sz c.cfg c.log (.phaseChange id .preparing .prepared) with
            | none => ({ c with pending := mInsert id tx c.pending }, .phase none)
            | some l =>
              ({ c with log := l, pending := mInsert id { tx with phase := .prepared } c.pending },
               .phase (some .prepared))
        else
          let reason := if tx.votes.any (fun p => decide (p.2 = Vote.conflict)) then "conflict detected"
                        else "participant voted no"
          ({ c with pending := mInsert id { tx with phase := .aborting } c.pending
                    pendingAborts := c.pendingAborts ++ [(id, (reason, tx.parts))] },
           .phase (some .aborting))
      else
        ({ c with pending := mInsert id tx c.pending }, .phase none)

/-- `commit` (distributed_tx.rs:1594): PhaseChange `?`, memory Committing, TxComplete `?`, then
    best-effort LockRelease per handle and AllLocksReleased, locks released, removed -/
def commit (sz : Entry → Nat) (c : Coord) (id : Nat) : Coord × Res :=
  match mLookup id c.pending with
  | none => (c, .notFound)
  | some tx =>
    if tx.phase ≠ .prepared then (c, .wrongPhase tx.phase)
    else
      match walApp sz c.cfg c.log (.phaseChange id .prepared .committing) with
      | none => (c, .walErr)
      | some l1 =>
        match walApp sz c.cfg l1 (.txComplete id .committed) with
        | none => ({ c with log := l1, pending := mInsert id { tx with phase := .committing } c.pending }, .walErr)
        | some l2 =>
          let hs := voteHandles tx.votes
          let l3 := walTryAll sz c.cfg l2 (hs.map (fun h => Entry.lockRelease id h))
          let l4 := walTry sz c.cfg l3 (.allLocksReleased id)
          ({ c with log := l4, locks := releaseAll hs c.locks, pending := mErase id c.pending }, .ok)

/-- `abort` (distributed_tx.rs:1740): from any phase; no LockRelease / AllLocksReleased records -/
def abort (sz : Entry → Nat) (c : Coord) (id : Nat) : Coord × Res :=
  match mLookup id c.pending with
  | none => (c, .notFound)
  | some tx =>
    match walApp sz c.cfg c.log (.phaseChange id tx.phase .aborting) with
    | none => (c, .walErr)
    | some l1 =>
      match walApp sz c.cfg l1 (.txComplete id .aborted) with
      | none => ({ c with log := l1, pending := mInsert id { tx with phase := .aborting } c.pending }, .walErr)
      | some l2 =>
        ({ c with log := l2, locks := releaseAll (voteHandles tx.votes) c.locks, pending := mErase id c.pending }, .ok)

/-- `complete_commit` (distributed_tx.rs:1667): memory only -/
def completeCommit (c : Coord) (id : Nat) : Coord × Res :=
  match mLookup id c.pending with
  | none => (c, .notFound)
  | some tx =>
    if tx.phase ≠ .committing then (c, .wrongPhase tx.phase)
    else ({ c with locks := releaseAll (voteHandles tx.votes) c.locks, pending := mErase id c.pending }, .ok)

/-- `complete_abort` (distributed_tx.rs:1705): memory only -/
def completeAbort (c : Coord) (id : Nat) : Coord × Res :=
  match mLookup id c.pending with
  | none => (c, .notFound)
  | some tx =>
    if tx.phase ≠ .aborting then (c, .wrongPhase tx.phase)
    else ({ c with locks := releaseAll (voteHandles tx.votes) c.locks, pending := mErase id c.pending }, .ok)

/-- `cleanup_timeouts` (distributed_tx.rs:1798): nothing is written to the WAL -/
def cleanupTimeouts (c : Coord) (now : Nat) : Coord × Res :=
  let out := c.pending.filter (fun p => p.2.timedOut now)
  ({ c with pending := c.pending.filter (fun p => !p.2.timedOut now)
            pendingAborts := c.pendingAborts ++ out.map (fun p => (p.1, ("timeout", p.2.parts)))
            locks := releaseAll (out.flatMap (fun p => voteHandles p.2.votes)) c.locks },
   .timedOut (mKeys out))

/-- `process_pending_aborts` (distributed_tx.rs:1880): one AbortIntent record per queued abort;
    a failed write is reported and skipped -/
def flushAborts (sz : Entry → Nat) (c : Coord) : Coord × Res :=
  ({ c with log := walTryAll sz c.cfg c.log (c.pendingAborts.map (fun p => Entry.abortIntent p.1 p.2.1 p.2.2))
            pendingAborts := [] }, .flushed c.pendingAborts.length)

/-- `restore_tx`: fresh start time, the 5000 ms default of `DistributedTransaction::new`,
    votes re-inserted one by one into the map (a later vote of the same shard overwrites) -/
def restoreTx (r : RecTx) (ph : Phase) (now : Nat) : Tx :=
  { parts := r.parts, phase := ph,
    votes := r.votes.foldl (fun m p => mInsert p.1 p.2.restore m) [],
    startedAt := now, timeoutMs := 5000 }

def restoreAll (rs : List RecTx) (ph : Phase) (now : Nat) (pending : List (Nat × Tx)) : List (Nat × Tx) :=
  rs.foldl (fun m r => mInsert r.tx (restoreTx r ph now) m) pending

/-- the lock handles `recover_from_wal` finds in the recovery state: the YES votes of every
    recovered transaction and the orphaned locks (distributed_tx.rs:1160-1170) -/
def Recovery.handles (st : Recovery) : List Nat :=
  (st.prepared ++ st.committing ++ st.aborting).flatMap (fun r => yesHandles r.votes)
    ++ st.orphaned.map (·.2)

/-- `max_logged_handle` and `LOCK_COUNTER.fetch_max(handle + 1)` (distributed_tx.rs:1156-1175):
    the counter moves past every handle below the high-water mark that the recovery state carries -/
def bumpCounter (n : Nat) (st : Recovery) : Nat :=
  match listMax (st.handles.filter (fun h => decide (h < highWater))) with
  | some h => max n (h + 1)
  | none => n

/-- `recover_from_wal` (distributed_tx.rs:1148) -/
def recoverFromWal (c : Coord) (now : Nat) : Coord × Res :=
  let st := fromEntries c.log
  let p := restoreAll st.prepared .prepared now c.pending
  let p := restoreAll st.committing .committing now p
  let p := restoreAll st.aborting .aborting now p
  ({ c with pending := p, locks := releaseAll (st.orphaned.map (·.2)) c.locks,
            nextHandle := bumpCounter c.nextHandle st },
   .recovered st.prepared.length st.committing.length st.aborting.length st.orphaned.length)

/-- `recover_from_wal` before "fix: recovery moves the lock-handle counter past every handle it
    restores" (0358827a): the counter of the new process stayed where it was.  Kept only for the
    `_witness` theorem. -/
def recoverFromWalOld (c : Coord) (now : Nat) : Coord × Res :=
  let st := fromEntries c.log
  let p := restoreAll st.prepared .prepared now c.pending
  let p := restoreAll st.committing .committing now p
  let p := restoreAll st.aborting .aborting now p
  ({ c with pending := p, locks := releaseAll (st.orphaned.map (·.2)) c.locks },
   .recovered st.prepared.length st.committing.length st.aborting.length st.orphaned.length)

/-- `recover_from_wal` in the variant **RecoveryReplacesPending** (NOT the code): the restored
    transactions are collected in a scratch map that is then published over the coordinator's
    map (`*self.pending.write() = restored`) instead of being inserted into it.  On a new process
    (empty map) it is `recoverFromWal`; on a running coordinator it drops every transaction the
    log does not restore.  Kept only for the contrast / `_witness` theorems of `PropsLive`. -/
def recoverFromWalRecoveryReplacesPending (c : Coord) (now : Nat) : Coord × Res :=
  let st := fromEntries c.log
  let p := restoreAll st.prepared .prepared now []
  let p := restoreAll st.committing .committing now p
  let p := restoreAll st.aborting .aborting now p
  ({ c with pending := p, locks := releaseAll (st.orphaned.map (·.2)) c.locks,
            nextHandle := bumpCounter c.nextHandle st },
   .recovered st.prepared.length st.committing.length st.aborting.length st.orphaned.length)

/-- what `recover()` does to one pending transaction (distributed_tx.rs:2102-2144); `any_no()` is
    the complement of `all_yes()` (a vote is Yes, No or Conflict), so the "still waiting" arm of
    the Prepared case is dead -/
def recoverTx (now : Nat) (t : Tx) : Tx :=
  match t.phase with
  | .preparing => if t.timedOut now then { t with phase := .aborting } else t
  | .prepared =>
      if t.timedOut now then { t with phase := .aborting }
      else if t.allYes then { t with phase := .committing }
      else { t with phase := .aborting }
  | _ => t

def Phase.final (p : Phase) : Bool := decide (p = .committed ∨ p = .aborted)

/-- `recover()` (distributed_tx.rs:2095): memory only.  Timed-out Preparing / Prepared
    transactions become Aborting, Prepared ones with all YES become Committing, entries already
    in a final phase are dropped with their locks. -/
def recoverMem (c : Coord) (now : Nat) : Coord × Res :=
  let fin := c.pending.filter (fun p => p.2.phase.final)
  let live := c.pending.filter (fun p => !p.2.phase.final)
  let cnt := fun (f : Tx → Bool) => (live.filter (fun p => f p.2)).length
  ({ c with pending := live.map (fun p => (p.1, recoverTx now p.2))
            locks := releaseAll (fin.flatMap (fun p => voteHandles p.2.votes)) c.locks },
   .recStats
     (cnt fun t => (decide (t.phase = .preparing) || decide (t.phase = .prepared)) && t.timedOut now)
     (cnt fun t => decide (t.phase = .preparing) && !t.timedOut now)
     (cnt fun t => (decide (t.phase = .prepared) && !t.timedOut now && t.allYes) || decide (t.phase = .committing))
     (cnt fun t => (decide (t.phase = .prepared) && !t.timedOut now && !t.allYes) || decide (t.phase = .aborting))
     fin.length)

/-- `get_pending_decisions()` (distributed_tx.rs:2169) -/
def pendingDecisions (c : Coord) : List (Nat × Phase) :=
  (c.pending.filter (fun p => decide (p.2.phase = .committing ∨ p.2.phase = .aborting))).map
    (fun p => (p.1, p.2.phase))

/-- `force_resolve` (distributed_tx.rs:2214): memory only, nothing logged -/
def forceResolve (c : Coord) (id : Nat) (commitIt : Bool) : Coord × Res :=
  match mLookup id c.pending with
  | none => (c, .notFound)
  | some tx =>
    if commitIt && !(tx.allYes || decide (tx.phase = .prepared) || decide (tx.phase = .committing)) then
      (c, .cannotCommit)
    else
      ({ c with locks := releaseAll (voteHandles tx.votes) c.locks, pending := mErase id c.pending }, .ok)

/-- a new process: `DistributedTxCoordinator::new(cfg).with_wal(TxWal::open(path))` over a file
    whose replay yields `es`, followed by `recover_from_wal`.  The handle counter of the new
    process starts at 1 again. -/
def restartLog (cfg : Cfg) (es : List Entry) (now : Nat) : Coord :=
  (recoverFromWal { cfg := cfg, log := es } now).1

/-- the restart before 0358827a (see `recoverFromWalOld`) -/
def restartLogOld (cfg : Cfg) (es : List Entry) (now : Nat) : Coord :=
  (recoverFromWalOld { cfg := cfg, log := es } now).1

/-- restart on raw file bytes: `TxWal::open` cuts the torn tail, replay, recover.
    `none` = `recover_from_wal` returned `Err` (checksum mismatch). -/
def restartBytes (crc : List Nat → Nat) (de : List Nat → Option Entry) (cfg : Cfg)
    (bytes : List Nat) (now : Nat) : Option Coord :=
  (replay crc de (openRepair bytes)).map (fun es => restartLog cfg es now)

/-- the restart of the variant whose replay refuses frames longer than `cap` (`replayCapped`: not
    the code).  `TxWal::open` is unchanged in that variant: it repairs and counts by headers only. -/
def restartBytesCapped (cap : Nat) (crc : List Nat → Nat) (de : List Nat → Option Entry) (cfg : Cfg)
    (bytes : List Nat) (now : Nat) : Option Coord :=
  (replayCapped cap crc de (openRepair bytes)).map (fun es => restartLog cfg es now)

/-! ## runs -/

inductive Step where
  | lock (tx h : Nat)
  | begin (id : Nat) (parts : List Nat) (now : Nat)
  | vote (id shard : Nat) (v : Vote) (xconflict : Bool)
  | commit (id : Nat)
  | abort (id : Nat)
  | completeCommit (id : Nat)
  | completeAbort (id : Nat)
  | cleanup (now : Nat)
  | flushAborts
  | recover (now : Nat)              -- `recover_from_wal` called on the live coordinator
  | recoverMem (now : Nat)           -- `recover()`
  | decisions                        -- `get_pending_decisions()`
  | forceResolve (id : Nat) (commitIt : Bool)
  | truncate                         -- `truncate_wal()`: the file is replaced by an empty one
  | crash (n : Nat) (now : Nat) (cfg : Cfg)  -- file cut to its first `n` bytes, new process with `cfg`
  deriving DecidableEq, Repr

/-- bytes one record takes in the file: 4 (length) + 4 (crc) + payload -/
def recSize (ser : Entry → List Nat) (e : Entry) : Nat := 8 + (ser e).length

/-- one step of the system; `crash` works on the real bytes of the file -/
def step (crc : List Nat → Nat) (ser : Entry → List Nat) (de : List Nat → Option Entry)
    (c : Coord) : Step → Coord × Res
  | .lock tx h => lockAcquire c tx h
  | .begin id parts now => begin (recSize ser) c id parts now
  | .vote id shard v x => recordVote (recSize ser) c id shard v x
  | .commit id => commit (recSize ser) c id
  | .abort id => abort (recSize ser) c id
  | .completeCommit id => completeCommit c id
  | .completeAbort id => completeAbort c id
  | .cleanup now => cleanupTimeouts c now
  | .flushAborts => flushAborts (recSize ser) c
  | .recover now => recoverFromWal c now
  | .recoverMem now => recoverMem c now
  | .decisions => (c, .decisions (pendingDecisions c))
  | .forceResolve id b => forceResolve c id b
  | .truncate => ({ c with log := [] }, .ok)
  | .crash n now cfg =>
      match restartBytes crc de cfg ((fileOf crc ser c.log).take n) now with
      | some c' => (c', .ok)
      | none => ({ cfg := cfg }, .notFound)

def run (crc : List Nat → Nat) (ser : Entry → List Nat) (de : List Nat → Option Entry)
    (c : Coord) (steps : List Step) : Coord :=
  steps.foldl (fun c s => (step crc ser de c s).1) c

/-- what a call reports to its caller about the fate of a transaction -/
inductive Event where
  | committed (id : Nat)
  | aborted (id : Nat)
  | timedOut (id : Nat)
  deriving DecidableEq, Repr

def Event.id : Event → Nat
  | .committed i => i
  | .aborted i => i
  | .timedOut i => i

/-- the fates a call on state `c` that answered `r` reports (`recover()` only reports a count;
    the transactions it timed out are the ones it moved to Aborting for that reason) -/
def events (c : Coord) : Step → Res → List Event
  | .commit id, .ok => [.committed id]
  | .completeCommit id, .ok => [.committed id]
  | .abort id, .ok => [.aborted id]
  | .completeAbort id, .ok => [.aborted id]
  | .forceResolve id true, .ok => [.committed id]
  | .forceResolve id false, .ok => [.aborted id]
  | .cleanup _, .timedOut ids => ids.map Event.timedOut
  | .recoverMem now, .recStats _ _ _ _ _ =>
      ((c.pending.filter (fun p => (decide (p.2.phase = .preparing) || decide (p.2.phase = .prepared))
          && p.2.timedOut now)).map (fun p => Event.timedOut p.1))
  | _, _ => []

/-- `record_vote` answered `Ok(Some(Prepared))`: the transaction as the coordinator holds it at
    that moment (participants, accepted votes) -/
def preparedAck (c' : Coord) : Step → Res → List (Nat × Tx)
  | .vote id _ _ _, .phase (some .prepared) =>
      match mLookup id c'.pending with
      | some tx => [(id, tx)]
      | none => []
  | _, _ => []

/-- every Prepared acknowledgement of a run, oldest first -/
def acks (crc : List Nat → Nat) (ser : Entry → List Nat) (de : List Nat → Option Entry) :
    Coord → List Step → List (Nat × Tx)
  | _, [] => []
  | c, s :: ss =>
    preparedAck (step crc ser de c s).1 s (step crc ser de c s).2 ++ acks crc ser de (step crc ser de c s).1 ss

end Neumann.TxWal
