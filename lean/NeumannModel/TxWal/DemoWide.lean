import NeumannModel.TxWal.Demo
import NeumannModel.TxWal.LemmasReplay
/-
  Concrete runs for the non-vacuity examples and the witness of `PropsReplay.lean`: the demo
  transaction 1 is prepared, a WIDE transaction 2 begins (its TxBegin record is the one long record
  of the log), transaction 1 is committed after it.

  `wideSer` / `wideDe`: the toy table codec plus a 4-byte payload for the wide TxBegin (every other
  payload has 1 or 2 bytes), so a cap of 3 separates them and everything evaluates under `decide`.
  `bigSer` / `bigDe`: the same with a 70 000-byte payload (more than 64 KiB) for the wide TxBegin —
  nothing is evaluated on it, the theorems are applied to it.
-/
namespace Neumann.TxWal.Demo
open Neumann.TxWal Neumann.FramedLog

def wideBegin : Entry := .txBegin 2 [0, 1, 2]

def wideSer (e : Entry) : List Nat := if e = wideBegin then [20, 21, 22, 23] else toySer e
def wideDe (p : List Nat) : Option Entry := if p = [20, 21, 22, 23] then some wideBegin else toyDe p

/-- transaction 1 prepared; the wide transaction 2 begins; transaction 1 committed -/
def wideSteps : List Step :=
  [.begin 1 [0, 1] 100, .lock 1 7, .vote 1 0 (.yes 7) false, .lock 1 8, .vote 1 1 (.yes 8) false,
   .begin 2 [0, 1, 2] 150, .commit 1]

def widePre : Coord := run Crc32.crc32 wideSer wideDe { cfg := demoCfg } wideSteps

def bigPayload : List Nat := List.replicate 70000 0

def bigSer (e : Entry) : List Nat := if e = wideBegin then bigPayload else toySer e
def bigDe (p : List Nat) : Option Entry := if p.length = 70000 then some wideBegin else toyDe p

theorem bigSer_wide : bigSer wideBegin = bigPayload := by unfold bigSer; rw [if_pos rfl]

theorem bigPayload_length : bigPayload.length = 70000 := by unfold bigPayload; exact List.length_replicate

/-- a log whose second record has a 70 000-byte payload, followed by the decision of transaction 1:
    the records are well-formed (checksums off: the `crc := fun _ => 0` instance) -/
theorem big_codec_ok :
    CodecOK (fun _ => 0) bigSer bigDe
      [.phaseChange 1 .preparing .prepared, wideBegin, .phaseChange 1 .prepared .committing, .txComplete 1 .committed] := by
  intro e he
  simp only [List.mem_cons, List.mem_nil_iff, or_false] at he
  rcases he with rfl | rfl | rfl | rfl
  · refine ⟨⟨by decide, by decide, by decide⟩, by decide⟩
  · rw [bigSer_wide]
    refine ⟨⟨by rw [bigPayload_length]; decide, by decide, ?_⟩, ?_⟩
    · show (bigDe bigPayload).isSome = true
      unfold bigDe; rw [if_pos bigPayload_length]; rfl
    · unfold bigDe; rw [if_pos bigPayload_length]
  · refine ⟨⟨by decide, by decide, by decide⟩, by decide⟩
  · refine ⟨⟨by decide, by decide, by decide⟩, by decide⟩

end Neumann.TxWal.Demo
