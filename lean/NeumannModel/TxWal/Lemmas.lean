import NeumannModel.TxWal.Model
import NeumannModel.Common.FramedLogLemmas
/-
  Helper lemmas for C13: association lists, the recovery scan, the coordinator invariant and
  the byte-level restart refinement.
-/
namespace Neumann.TxWal
open Neumann.FramedLog

/-! ## association lists -/

theorem snoc_induction {α : Type} {P : List α → Prop} (hnil : P [])
    (hsnoc : ∀ l a, P l → P (l ++ [a])) : ∀ l, P l := by
  have : ∀ l : List α, P l.reverse := by
    intro l
    induction l with
    | nil => simpa using hnil
    | cons a l ih => simpa using hsnoc _ a ih
  intro l
  simpa using this l.reverse

theorem mem_mKeys_mErase {α : Type} (k x : Nat) (m : List (Nat × α)) :
    x ∈ mKeys (mErase k m) ↔ x ∈ mKeys m ∧ x ≠ k := by
  simp only [mKeys, mErase, List.mem_map, List.mem_filter, decide_eq_true_eq]
  constructor
  · rintro ⟨p, ⟨hp, hne⟩, rfl⟩; exact ⟨⟨p, hp, rfl⟩, hne⟩
  · rintro ⟨⟨p, hp, rfl⟩, hne⟩; exact ⟨p, ⟨hp, hne⟩, rfl⟩

theorem mem_mKeys_mInsert {α : Type} (k x : Nat) (v : α) (m : List (Nat × α)) :
    x ∈ mKeys (mInsert k v m) ↔ x = k ∨ (x ∈ mKeys m ∧ x ≠ k) := by
  have h := mem_mKeys_mErase k x m
  simp only [mKeys] at h
  simp only [mInsert, mKeys, List.map_cons, List.mem_cons, h]

theorem mKeys_mModify {α : Type} (k : Nat) (f : α → α) (m : List (Nat × α)) :
    mKeys (mModify k f m) = mKeys m := by
  simp only [mKeys, mModify, List.map_map]
  apply List.map_congr_left
  intro p _
  simp only [Function.comp]
  split <;> rfl

theorem mLookup_some_mem {α : Type} (k : Nat) (v : α) (m : List (Nat × α)) :
    mLookup k m = some v → (k, v) ∈ m := by
  induction m with
  | nil => simp [mLookup]
  | cons p r ih =>
    obtain ⟨k', v'⟩ := p
    simp only [mLookup]
    split
    · rename_i h; intro hv; cases hv; simp [h]
    · intro hv; exact List.mem_cons_of_mem _ (ih hv)

theorem mLookup_some_mem_keys {α : Type} (k : Nat) (v : α) (m : List (Nat × α)) :
    mLookup k m = some v → k ∈ mKeys m := by
  intro h
  have := mLookup_some_mem k v m h
  simp only [mKeys, List.mem_map]
  exact ⟨(k, v), this, rfl⟩

theorem mLookup_none_of_not_mem {α : Type} (k : Nat) (m : List (Nat × α)) :
    k ∉ mKeys m → mLookup k m = none := by
  induction m with
  | nil => simp [mLookup]
  | cons p r ih =>
    obtain ⟨k', v'⟩ := p
    simp only [mKeys, List.map_cons, List.mem_cons, not_or, mLookup]
    intro ⟨h1, h2⟩
    have : ¬ k' = k := fun h => h1 h.symm
    simp only [this, if_false]
    exact ih h2

theorem mLookup_mInsert_self {α : Type} (k : Nat) (v : α) (m : List (Nat × α)) :
    mLookup k (mInsert k v m) = some v := by
  simp [mInsert, mLookup]

theorem mLookup_mErase_self {α : Type} (k : Nat) (m : List (Nat × α)) :
    mLookup k (mErase k m) = none := by
  apply mLookup_none_of_not_mem
  rw [mem_mKeys_mErase]
  simp


/-! ## the recovery scan -/

def Completed (L : List Entry) (x : Nat) : Prop := ∃ o, Entry.txComplete x o ∈ L
def Begun (L : List Entry) (x : Nat) : Prop := ∃ p, Entry.txBegin x p ∈ L

theorem scan_snoc (L : List Entry) (e : Entry) : scan (L ++ [e]) = scanStep (scan L) e := by
  simp [scan, List.foldl_append]

theorem scan_nil : scan [] = {} := rfl

/-- K1: a key of the in-progress map after one scan step was a key before, or was just begun -/
theorem keys_scanStep (s : Scan) (e : Entry) (x : Nat) :
    x ∈ mKeys (scanStep s e).inProgress → x ∈ mKeys s.inProgress ∨ ∃ p, e = Entry.txBegin x p := by
  cases e with
  | txBegin tx parts =>
    simp only [scanStep, mem_mKeys_mInsert]
    rintro (h | ⟨h, _⟩)
    · right; exact ⟨parts, by rw [h]⟩
    · left; exact h
  | prepareVote tx shard v => simp only [scanStep, mKeys_mModify]; exact Or.inl
  | phaseChange tx f t => simp only [scanStep, mKeys_mModify]; exact Or.inl
  | txComplete tx o =>
    simp only [scanStep, scanComplete, mem_mKeys_mErase]
    intro h; exact Or.inl h.1
  | lockRelease tx h => simp only [scanStep]; exact Or.inl
  | allLocksReleased tx => simp only [scanStep]; exact Or.inl
  | abortIntent tx r sh => simp only [scanStep]; exact Or.inl

/-- K2: a completed transaction leaves the in-progress map -/
theorem keys_scanStep_complete (s : Scan) (x : Nat) (o : Outcome) :
    x ∉ mKeys (scanStep s (Entry.txComplete x o)).inProgress := by
  simp only [scanStep, scanComplete, mem_mKeys_mErase]
  intro h; exact h.2 rfl

theorem completed_snoc (L : List Entry) (e : Entry) (x : Nat) :
    Completed (L ++ [e]) x ↔ Completed L x ∨ ∃ o, e = Entry.txComplete x o := by
  simp only [Completed, List.mem_append, List.mem_singleton]
  constructor
  · rintro ⟨o, h | h⟩
    · exact Or.inl ⟨o, h⟩
    · exact Or.inr ⟨o, h.symm⟩
  · rintro (⟨o, h⟩ | ⟨o, h⟩)
    · exact ⟨o, Or.inl h⟩
    · exact ⟨o, Or.inr h.symm⟩

/-- no transaction is both in progress and completed in the eyes of the scan -/
def Q (L : List Entry) : Prop := ∀ x ∈ mKeys (scan L).inProgress, ¬ Completed L x

/-- ... and that holds for every prefix of the log (so it survives any crash) -/
def PQ (L : List Entry) : Prop := ∀ k, Q (L.take k)

theorem Q_nil : Q [] := by
  intro x hx; simp [scan_nil, mKeys] at hx

theorem Q_snoc (L : List Entry) (e : Entry) (hq : Q L)
    (hb : ∀ x p, e = Entry.txBegin x p → ¬ Completed L x) : Q (L ++ [e]) := by
  intro x hx hc
  rw [scan_snoc] at hx
  rw [completed_snoc] at hc
  rcases hc with hc | ⟨o, rfl⟩
  · rcases keys_scanStep _ _ _ hx with h | ⟨p, rfl⟩
    · exact hq x h hc
    · exact hb x p rfl hc
  · exact keys_scanStep_complete _ _ _ hx

theorem PQ_nil : PQ [] := by
  intro k; simpa using Q_nil

theorem PQ_take (L : List Entry) (k : Nat) (h : PQ L) : PQ (L.take k) := by
  intro j
  rw [List.take_take]
  exact h _

theorem PQ_snoc (L : List Entry) (e : Entry) (h : PQ L)
    (hb : ∀ x p, e = Entry.txBegin x p → ¬ Completed L x) : PQ (L ++ [e]) := by
  intro k
  by_cases hk : k ≤ L.length
  · rw [List.take_append_of_le_length hk]; exact h k
  · have : (L ++ [e]).take k = L ++ [e] := List.take_of_length_le (by simp; omega)
    rw [this]
    have hl : Q L := by simpa using h L.length
    exact Q_snoc L e hl hb

def NoBegin (es : List Entry) : Prop := ∀ e ∈ es, ∀ x p, e ≠ Entry.txBegin x p

theorem PQ_append_noBegin (L es : List Entry) (h : PQ L) (hn : NoBegin es) : PQ (L ++ es) := by
  induction es generalizing L with
  | nil => simpa using h
  | cons e es ih =>
    have : L ++ e :: es = (L ++ [e]) ++ es := by simp
    rw [this]
    apply ih
    · exact PQ_snoc L e h (fun x p he => absurd he (hn e (by simp) x p))
    · intro e' he'; exact hn e' (by simp [he'])


/-! ## the coordinator invariant -/

structure Inv (c : Coord) : Prop where
  /-- a transaction whose completion is in the log is not pending -/
  pendingOpen : ∀ x ∈ mKeys c.pending, ¬ Completed c.log x
  /-- the log never holds two different outcomes for one transaction -/
  oneOutcome : ∀ x o o', Entry.txComplete x o ∈ c.log → Entry.txComplete x o' ∈ c.log → o = o'
  scanOK : PQ c.log

theorem Inv_fresh (cfg : Cfg) : Inv { cfg := cfg } where
  pendingOpen := by intro x hx; simp [mKeys] at hx
  oneOutcome := by intro x o o' h; simp at h
  scanOK := PQ_nil

/-! ## `TxWal::append` under the size limit -/

theorem walApp_cases {sz : Entry → Nat} {cfg : Cfg} {log l : List Entry} {e : Entry}
    (h : walApp sz cfg log e = some l) : l = log ++ [e] ∨ l = [e] := by
  unfold walApp at h
  split at h
  · left; cases h; rfl
  · split at h
    · split at h
      · right; cases h; rfl
      · cases h
    · left; cases h; rfl

theorem walApp_noRotate {sz : Entry → Nat} {cfg : Cfg} {log l : List Entry} {e : Entry}
    (hn : cfg.NoRotate) (h : walApp sz cfg log e = some l) : l = log ++ [e] := by
  unfold walApp at h
  split at h
  · cases h; rfl
  · rename_i cap hc
    split at h
    · split at h
      · rename_i hr
        rcases hn with hn | hn
        · rw [hn] at hc; cases hc
        · rw [hn] at hr; cases hr
      · cases h
    · cases h; rfl

/-- without a size limit an append never fails -/
theorem walApp_noCap {sz : Entry → Nat} {cfg : Cfg} (log : List Entry) (e : Entry)
    (h : cfg.walCap = none) : walApp sz cfg log e = some (log ++ [e]) := by
  unfold walApp; rw [h]

theorem walTry_noCap {sz : Entry → Nat} {cfg : Cfg} (log : List Entry) (e : Entry)
    (h : cfg.walCap = none) : walTry sz cfg log e = log ++ [e] := by
  unfold walTry; rw [walApp_noCap log e h]; rfl

theorem walTryAll_noCap {sz : Entry → Nat} {cfg : Cfg} (log es : List Entry)
    (h : cfg.walCap = none) : walTryAll sz cfg log es = log ++ es := by
  unfold walTryAll
  induction es generalizing log with
  | nil => simp
  | cons e es ih => simp only [List.foldl_cons, walTry_noCap log e h, ih]; simp

theorem mem_walApp {sz : Entry → Nat} {cfg : Cfg} {log l : List Entry} {e : Entry}
    (h : walApp sz cfg log e = some l) : (∀ x ∈ l, x ∈ log ∨ x = e) ∧ e ∈ l := by
  rcases walApp_cases h with rfl | rfl
  · exact ⟨fun x hx => by simpa using hx, by simp⟩
  · exact ⟨fun x hx => Or.inr (by simpa using hx), by simp⟩

theorem walTry_cases (sz : Entry → Nat) (cfg : Cfg) (log : List Entry) (e : Entry) :
    walTry sz cfg log e = log ++ [e] ∨ walTry sz cfg log e = [e] ∨ walTry sz cfg log e = log := by
  unfold walTry
  cases h : walApp sz cfg log e with
  | none => right; right; rfl
  | some l =>
    rcases walApp_cases h with rfl | rfl
    · left; rfl
    · right; left; rfl

theorem walTry_noRotate (sz : Entry → Nat) {cfg : Cfg} (hn : cfg.NoRotate) (log : List Entry) (e : Entry) :
    walTry sz cfg log e = log ++ [e] ∨ walTry sz cfg log e = log := by
  unfold walTry
  cases h : walApp sz cfg log e with
  | none => right; rfl
  | some l => left; rw [walApp_noRotate hn h]; rfl

theorem mem_walTry (sz : Entry → Nat) (cfg : Cfg) (log : List Entry) (e : Entry) :
    ∀ x ∈ walTry sz cfg log e, x ∈ log ∨ x = e := by
  intro x hx
  rcases walTry_cases sz cfg log e with h | h | h <;> rw [h] at hx
  · simpa using hx
  · right; simpa using hx
  · exact Or.inl hx

theorem mem_walTryAll (sz : Entry → Nat) (cfg : Cfg) (log es : List Entry) :
    ∀ x ∈ walTryAll sz cfg log es, x ∈ log ∨ x ∈ es := by
  unfold walTryAll
  induction es generalizing log with
  | nil => intro x hx; exact Or.inl hx
  | cons e es ih =>
    intro x hx
    simp only [List.foldl_cons] at hx
    rcases ih _ x hx with h | h
    · rcases mem_walTry sz cfg log e x h with h | h
      · exact Or.inl h
      · right; simp [h]
    · right; simp [h]

/-- under `NoRotate` the best-effort appends add a sub-list of what was attempted -/
theorem walTryAll_noRotate (sz : Entry → Nat) {cfg : Cfg} (hn : cfg.NoRotate) (log es : List Entry) :
    ∃ es', (∀ e ∈ es', e ∈ es) ∧ walTryAll sz cfg log es = log ++ es' := by
  unfold walTryAll
  induction es generalizing log with
  | nil => exact ⟨[], by simp, by simp⟩
  | cons e es ih =>
    simp only [List.foldl_cons]
    rcases walTry_noRotate sz hn log e with h | h <;> rw [h]
    · obtain ⟨es', h1, h2⟩ := ih (log ++ [e])
      exact ⟨e :: es', by intro a ha; simp at ha; rcases ha with rfl | ha <;> simp [h1 _, *], by rw [h2]; simp⟩
    · obtain ⟨es', h1, h2⟩ := ih log
      exact ⟨es', fun a ha => by simp [h1 a ha], h2⟩

theorem PQ_single (e : Entry) : PQ [e] := by
  have : PQ ([] ++ [e]) := by
    apply PQ_snoc [] e PQ_nil
    intro x p _ hc
    obtain ⟨o, ho⟩ := hc
    simp at ho
  simpa using this

theorem PQ_walApp {sz : Entry → Nat} {cfg : Cfg} {log l : List Entry} {e : Entry} (h : PQ log)
    (hb : ∀ x p, e = Entry.txBegin x p → ¬ Completed log x) (ha : walApp sz cfg log e = some l) : PQ l := by
  rcases walApp_cases ha with rfl | rfl
  · exact PQ_snoc log e h hb
  · exact PQ_single e

theorem PQ_walTry (sz : Entry → Nat) (cfg : Cfg) (log : List Entry) (e : Entry) (h : PQ log)
    (hb : ∀ x p, e ≠ Entry.txBegin x p) : PQ (walTry sz cfg log e) := by
  rcases walTry_cases sz cfg log e with h' | h' | h' <;> rw [h']
  · exact PQ_snoc log e h (fun x p he => absurd he (hb x p))
  · exact PQ_single e
  · exact h

theorem PQ_walTryAll (sz : Entry → Nat) (cfg : Cfg) (log es : List Entry) (h : PQ log)
    (hn : NoBegin es) : PQ (walTryAll sz cfg log es) := by
  unfold walTryAll
  induction es generalizing log with
  | nil => exact h
  | cons e es ih =>
    simp only [List.foldl_cons]
    apply ih
    · exact PQ_walTry sz cfg log e h (fun x p => hn e (by simp) x p)
    · intro e' he'; exact hn e' (by simp [he'])

/-- effect of a call whose new log holds only old records and records of `es` (none of them a
    TxBegin — that is `hpq`); every TxComplete in `es` is for a transaction that was pending, with
    a single outcome, and that transaction is not pending afterwards -/
theorem Inv_of (c c' : Coord) (es : List Entry) (h : Inv c)
    (hsub : ∀ e ∈ c'.log, e ∈ c.log ∨ e ∈ es) (hpq : PQ c'.log)
    (hk : ∀ x ∈ mKeys c'.pending, x ∈ mKeys c.pending ∧ ∀ o, Entry.txComplete x o ∉ es)
    (hc : ∀ x o, Entry.txComplete x o ∈ es →
            x ∈ mKeys c.pending ∧ ∀ o', Entry.txComplete x o' ∈ es → o' = o) : Inv c' where
  pendingOpen := by
    intro x hx ⟨o, ho⟩
    rcases hsub _ ho with ho | ho
    · exact h.pendingOpen x (hk x hx).1 ⟨o, ho⟩
    · exact (hk x hx).2 o ho
  oneOutcome := by
    intro x o o' h1 h2
    rcases hsub _ h1 with h1 | h1 <;> rcases hsub _ h2 with h2 | h2
    · exact h.oneOutcome x o o' h1 h2
    · exact absurd ⟨o, h1⟩ (h.pendingOpen x (hc x o' h2).1)
    · exact absurd ⟨o', h2⟩ (h.pendingOpen x (hc x o h1).1)
    · exact ((hc x o h1).2 o' h2).symm
  scanOK := hpq

/-- effect of a call that changes memory only -/
theorem Inv_mem (c c' : Coord) (h : Inv c) (hlog : c'.log = c.log)
    (hk : ∀ x ∈ mKeys c'.pending, x ∈ mKeys c.pending) : Inv c' :=
  Inv_of c c' [] h (by rw [hlog]; intro e he; exact Or.inl he) (by rw [hlog]; exact h.scanOK)
    (fun x hx => ⟨hk x hx, by simp⟩) (by intro x o ho; simp at ho)

theorem keys_insert_existing {α : Type} (id x : Nat) (t t' : α) (m : List (Nat × α))
    (hl : mLookup id m = some t) (hx : x ∈ mKeys (mInsert id t' m)) : x ∈ mKeys m := by
  rw [mem_mKeys_mInsert] at hx
  rcases hx with rfl | ⟨h, _⟩
  · exact mLookup_some_mem_keys _ _ _ hl
  · exact h

theorem Inv_lock (c : Coord) (tx h : Nat) (hi : Inv c) : Inv (lockAcquire c tx h).1 :=
  Inv_mem c _ hi rfl (fun _ hx => hx)

theorem Inv_begin (sz : Entry → Nat) (c : Coord) (id : Nat) (parts : List Nat) (now : Nat) (hi : Inv c)
    (hfresh : ¬ Completed c.log id) : Inv (begin sz c id parts now).1 := by
  unfold begin
  split
  · exact hi
  · split
    · exact hi
    · rename_i l ha
      have hm := mem_walApp ha
      exact {
        pendingOpen := by
          intro x hx hc
          obtain ⟨o, ho⟩ := hc
          simp only at hx ho
          rcases hm.1 _ ho with ho | ho
          · rw [mem_mKeys_mInsert] at hx
            rcases hx with rfl | ⟨hx, _⟩
            · exact hfresh ⟨o, ho⟩
            · exact hi.pendingOpen x hx ⟨o, ho⟩
          · cases ho
        oneOutcome := by
          intro x o o' h1 h2
          simp only at h1 h2
          rcases hm.1 _ h1 with h1 | h1 <;> rcases hm.1 _ h2 with h2 | h2
          · exact hi.oneOutcome x o o' h1 h2
          · cases h2
          · cases h1
          · cases h1
        scanOK := by
          simp only
          apply PQ_walApp hi.scanOK _ ha
          intro x p he; cases he; exact hfresh }

theorem noBegin_vote (id shard : Nat) (k : VoteKind) : ∀ x p, Entry.prepareVote id shard k ≠ Entry.txBegin x p := by
  intro _ _ h; cases h

theorem noBegin_phase (id : Nat) (f t : Phase) : ∀ x p, Entry.phaseChange id f t ≠ Entry.txBegin x p := by
  intro _ _ h; cases h

theorem noBegin_complete (id : Nat) (o : Outcome) : ∀ x p, Entry.txComplete id o ≠ Entry.txBegin x p := by
  intro _ _ h; cases h

theorem Inv_recordVote (sz : Entry → Nat) (c : Coord) (id shard : Nat) (v : Vote) (x : Bool) (hi : Inv c) :
    Inv (recordVote sz c id shard v x).1 := by
  unfold recordVote
  split
  · exact hi
  · rename_i l ha
    have hm := (mem_walApp ha).1
    have hpq : PQ l := PQ_walApp hi.scanOK (fun a p he => absurd he (noBegin_vote _ _ _ a p)) ha
    -- the state after the vote record is in the log, memory untouched
    have base : ∀ (p' : List (Nat × Tx)) (pa : List (Nat × (String × List Nat))),
        (∀ y ∈ mKeys p', y ∈ mKeys c.pending) →
        Inv { c with log := l, pending := p', pendingAborts := pa } := by
      intro p' pa hk
      refine Inv_of c _ [Entry.prepareVote id shard v.kind] hi ?_ hpq (fun y hy => ⟨hk y hy, by simp⟩) (by simp)
      intro e he
      rcases hm e he with h | h
      · exact Or.inl h
      · right; simp [h]
    simp only
    split
    · exact base c.pending c.pendingAborts (fun _ h => h)
    · rename_i tx hl
      split
      · exact base c.pending c.pendingAborts (fun _ h => h)
      · split
        · exact base c.pending c.pendingAborts (fun _ h => h)
        · split
          · split
            · split
              · exact base _ _ (fun y hy => keys_insert_existing _ _ _ _ _ hl hy)
              · split
                · exact base _ _ (fun y hy => keys_insert_existing _ _ _ _ _ hl hy)
                · rename_i l2 ha2
                  have hm2 := (mem_walApp ha2).1
                  refine Inv_of c _ [Entry.prepareVote id shard v.kind, Entry.phaseChange id .preparing .prepared]
                    hi ?_ ?_ (fun y hy => ⟨keys_insert_existing _ _ _ _ _ hl hy, by simp⟩) (by simp)
                  · intro e he
                    rcases hm2 e he with h | h
                    · rcases hm e h with h | h
                      · exact Or.inl h
                      · right; simp [h]
                    · right; simp [h]
                  · exact PQ_walApp hpq (fun a p he => absurd he (noBegin_phase _ _ _ a p)) ha2
            · exact base _ _ (fun y hy => keys_insert_existing _ _ _ _ _ hl hy)
          · exact base _ _ (fun y hy => keys_insert_existing _ _ _ _ _ hl hy)

theorem noBegin_releases (id : Nat) (hs : List Nat) : NoBegin (hs.map (fun h => Entry.lockRelease id h)) := by
  intro e he x p hx
  simp only [List.mem_map] at he
  obtain ⟨a, _, rfl⟩ := he
  cases hx

theorem Inv_commit (sz : Entry → Nat) (c : Coord) (id : Nat) (hi : Inv c) : Inv (commit sz c id).1 := by
  unfold commit
  split
  · exact hi
  · rename_i tx hl
    split
    · exact hi
    · split
      · exact hi
      · rename_i l1 ha1
        have hm1 := (mem_walApp ha1).1
        have hpq1 : PQ l1 := PQ_walApp hi.scanOK (fun a p he => absurd he (noBegin_phase _ _ _ a p)) ha1
        split
        · -- TxComplete could not be written: Committing in memory, PhaseChange in the log
          refine Inv_of c _ [Entry.phaseChange id .prepared .committing] hi ?_ hpq1
            (fun y hy => ⟨keys_insert_existing _ _ _ _ _ hl hy, by simp⟩) (by simp)
          intro e he
          rcases hm1 e he with h | h
          · exact Or.inl h
          · right; simp [h]
        · rename_i l2 ha2
          have hm2 := (mem_walApp ha2).1
          have hpq2 : PQ l2 := PQ_walApp hpq1 (fun a p he => absurd he (noBegin_complete _ _ a p)) ha2
          refine Inv_of c _ ([Entry.phaseChange id .prepared .committing, Entry.txComplete id .committed]
              ++ (voteHandles tx.votes).map (fun h => Entry.lockRelease id h) ++ [Entry.allLocksReleased id]) hi ?_ ?_ ?_ ?_
          · intro e he
            simp only at he
            rcases mem_walTry _ _ _ _ e he with h | h
            · rcases mem_walTryAll _ _ _ _ e h with h | h
              · rcases hm2 e h with h | h
                · rcases hm1 e h with h | h
                  · exact Or.inl h
                  · right; simp [h]
                · right; simp [h]
              · right; simp only [List.mem_append]; left; right; exact h
            · right; simp [h]
          · simp only
            apply PQ_walTry
            · exact PQ_walTryAll _ _ _ _ hpq2 (noBegin_releases id _)
            · intro a p he; cases he
          · intro y hy
            simp only at hy
            rw [mem_mKeys_mErase] at hy
            refine ⟨hy.1, ?_⟩
            intro o ho
            simp only [List.mem_append, List.mem_cons, List.mem_map, List.mem_singleton, List.not_mem_nil, or_false] at ho
            rcases ho with ((ho | ho) | ⟨a, _, ho⟩) | ho <;> cases ho
            exact hy.2 rfl
          · intro y o ho
            simp only [List.mem_append, List.mem_cons, List.mem_map, List.mem_singleton, List.not_mem_nil, or_false] at ho
            rcases ho with ((ho | ho) | ⟨a, _, ho⟩) | ho <;> cases ho
            refine ⟨mLookup_some_mem_keys _ _ _ hl, ?_⟩
            intro o' ho'
            simp only [List.mem_append, List.mem_cons, List.mem_map, List.mem_singleton, List.not_mem_nil, or_false] at ho'
            rcases ho' with ((ho' | ho') | ⟨a, _, ho'⟩) | ho' <;> cases ho'
            rfl

theorem Inv_abort (sz : Entry → Nat) (c : Coord) (id : Nat) (hi : Inv c) : Inv (abort sz c id).1 := by
  unfold abort
  split
  · exact hi
  · rename_i tx hl
    split
    · exact hi
    · rename_i l1 ha1
      have hm1 := (mem_walApp ha1).1
      have hpq1 : PQ l1 := PQ_walApp hi.scanOK (fun a p he => absurd he (noBegin_phase _ _ _ a p)) ha1
      split
      · refine Inv_of c _ [Entry.phaseChange id tx.phase .aborting] hi ?_ hpq1
          (fun y hy => ⟨keys_insert_existing _ _ _ _ _ hl hy, by simp⟩) (by simp)
        intro e he
        rcases hm1 e he with h | h
        · exact Or.inl h
        · right; simp [h]
      · rename_i l2 ha2
        have hm2 := (mem_walApp ha2).1
        refine Inv_of c _ [Entry.phaseChange id tx.phase .aborting, Entry.txComplete id .aborted] hi ?_ ?_ ?_ ?_
        · intro e he
          rcases hm2 e he with h | h
          · rcases hm1 e h with h | h
            · exact Or.inl h
            · right; simp [h]
          · right; simp [h]
        · exact PQ_walApp hpq1 (fun a p he => absurd he (noBegin_complete _ _ a p)) ha2
        · intro y hy
          simp only at hy
          rw [mem_mKeys_mErase] at hy
          refine ⟨hy.1, ?_⟩
          intro o ho
          simp at ho
          exact hy.2 ho.1
        · intro y o ho
          simp at ho
          obtain ⟨rfl, rfl⟩ := ho
          refine ⟨mLookup_some_mem_keys _ _ _ hl, ?_⟩
          intro o' ho'
          simp at ho'
          exact ho'

theorem Inv_completeCommit (c : Coord) (id : Nat) (hi : Inv c) : Inv (completeCommit c id).1 := by
  unfold completeCommit
  split
  · exact hi
  · split
    · exact hi
    · exact Inv_mem c _ hi rfl (fun y hy => ((mem_mKeys_mErase _ _ _).mp hy).1)

theorem Inv_completeAbort (c : Coord) (id : Nat) (hi : Inv c) : Inv (completeAbort c id).1 := by
  unfold completeAbort
  split
  · exact hi
  · split
    · exact hi
    · exact Inv_mem c _ hi rfl (fun y hy => ((mem_mKeys_mErase _ _ _).mp hy).1)

theorem Inv_forceResolve (c : Coord) (id : Nat) (b : Bool) (hi : Inv c) : Inv (forceResolve c id b).1 := by
  unfold forceResolve
  split
  · exact hi
  · split
    · exact hi
    · exact Inv_mem c _ hi rfl (fun y hy => ((mem_mKeys_mErase _ _ _).mp hy).1)

theorem Inv_cleanup (c : Coord) (now : Nat) (hi : Inv c) : Inv (cleanupTimeouts c now).1 := by
  unfold cleanupTimeouts
  refine Inv_mem c _ hi rfl ?_
  intro y hy
  simp only [mKeys, List.mem_map, List.mem_filter] at hy ⊢
  obtain ⟨p, ⟨hp, _⟩, rfl⟩ := hy
  exact ⟨p, hp, rfl⟩

theorem Inv_recoverMem (c : Coord) (now : Nat) (hi : Inv c) : Inv (recoverMem c now).1 := by
  unfold recoverMem
  refine Inv_mem c _ hi rfl ?_
  intro y hy
  simp only [mKeys, List.mem_map, List.mem_filter] at hy ⊢
  obtain ⟨q, ⟨p, ⟨hp, _⟩, rfl⟩, rfl⟩ := hy
  exact ⟨p, hp, rfl⟩

theorem Inv_flush (sz : Entry → Nat) (c : Coord) (hi : Inv c) : Inv (flushAborts sz c).1 := by
  unfold flushAborts
  refine Inv_of c _ (c.pendingAborts.map (fun p => Entry.abortIntent p.1 p.2.1 p.2.2)) hi ?_ ?_
    (fun y hy => ⟨hy, ?_⟩) ?_
  · intro e he; exact mem_walTryAll _ _ _ _ e he
  · apply PQ_walTryAll _ _ _ _ hi.scanOK
    intro e he x p hx
    simp only [List.mem_map] at he
    obtain ⟨q, _, rfl⟩ := he
    cases hx
  · intro o ho
    simp only [List.mem_map] at ho
    obtain ⟨q, _, h⟩ := ho
    cases h
  · intro y o ho
    simp only [List.mem_map] at ho
    obtain ⟨q, _, h⟩ := ho
    cases h

/-! ## recovery -/

theorem keys_restoreAll (rs : List RecTx) (ph : Phase) (now : Nat) (p : List (Nat × Tx)) (x : Nat) :
    x ∈ mKeys (restoreAll rs ph now p) → x ∈ mKeys p ∨ x ∈ rs.map (·.tx) := by
  unfold restoreAll
  induction rs generalizing p with
  | nil => intro h; exact Or.inl h
  | cons r rs ih =>
    intro h
    simp only [List.foldl_cons] at h
    rcases ih _ h with h | h
    · rw [mem_mKeys_mInsert] at h
      rcases h with rfl | ⟨h, _⟩
      · right; simp
      · left; exact h
    · right; simp only [List.map_cons, List.mem_cons]; right; exact h

theorem keys_classify (ip : List (Nat × InProg)) (ph : Phase) (x : Nat) :
    x ∈ (classify ip ph).map (·.tx) → x ∈ mKeys ip := by
  simp only [classify, List.map_map, List.mem_map, List.mem_filter, mKeys, Function.comp]
  rintro ⟨p, ⟨hp, _⟩, rfl⟩
  exact ⟨p, hp, rfl⟩

theorem keys_recover (c : Coord) (now : Nat) (x : Nat) :
    x ∈ mKeys (recoverFromWal c now).1.pending → x ∈ mKeys c.pending ∨ x ∈ mKeys (scan c.log).inProgress := by
  unfold recoverFromWal
  simp only [fromEntries, recoveryOf]
  intro h
  rcases keys_restoreAll _ _ _ _ _ h with h | h
  · rcases keys_restoreAll _ _ _ _ _ h with h | h
    · rcases keys_restoreAll _ _ _ _ _ h with h | h
      · exact Or.inl h
      · exact Or.inr (keys_classify _ _ _ h)
    · exact Or.inr (keys_classify _ _ _ h)
  · exact Or.inr (keys_classify _ _ _ h)

theorem Inv_recover (c : Coord) (now : Nat) (hi : Inv c) : Inv (recoverFromWal c now).1 where
  pendingOpen := by
    intro x hx hc
    have hlog : (recoverFromWal c now).1.log = c.log := rfl
    rw [hlog] at hc
    rcases keys_recover c now x hx with h | h
    · exact hi.pendingOpen x h hc
    · have := hi.scanOK c.log.length
      simp only [List.take_length] at this
      exact this x h hc
  oneOutcome := hi.oneOutcome
  scanOK := hi.scanOK

/-- a new process over a log that is a prefix of a good log -/
theorem Inv_restartLog (cfg : Cfg) (L : List Entry) (k now : Nat)
    (h2 : ∀ x o o', Entry.txComplete x o ∈ L → Entry.txComplete x o' ∈ L → o = o') (h3 : PQ L) :
    Inv (restartLog cfg (L.take k) now) := by
  unfold restartLog
  apply Inv_recover
  exact {
    pendingOpen := by intro x hx; simp [mKeys] at hx
    oneOutcome := by
      intro x o o' a b
      exact h2 x o o' (List.mem_of_mem_take a) (List.mem_of_mem_take b)
    scanOK := PQ_take L k h3 }


/-! ## bytes: a restart sees exactly the records wholly before the cut -/

/-- the records of `L` are ones the real writer can produce and bitcode round-trips -/
def CodecOK (crc : List Nat → Nat) (ser : Entry → List Nat) (de : List Nat → Option Entry)
    (L : List Entry) : Prop :=
  ∀ e ∈ L, GoodRec crc (fun p => (de p).isSome) (ser e) ∧ de (ser e) = some e

theorem CodecOK_take {crc ser de} {L : List Entry} (k : Nat) (h : CodecOK crc ser de L) :
    CodecOK crc ser de (L.take k) := fun e he => h e (List.mem_of_mem_take he)

theorem filterMap_de_ser (ser : Entry → List Nat) (de : List Nat → Option Entry) (L : List Entry)
    (h : ∀ e ∈ L, de (ser e) = some e) : (L.map ser).filterMap de = L := by
  induction L with
  | nil => rfl
  | cons e L ih =>
    simp only [List.map_cons, List.filterMap_cons, h e (by simp)]
    rw [ih (fun e' he' => h e' (by simp [he']))]

theorem replay_fileOf (crc : List Nat → Nat) (ser : Entry → List Nat) (de : List Nat → Option Entry)
    (L : List Entry) (h : CodecOK crc ser de L) : replay crc de (fileOf crc ser L) = some L := by
  unfold replay fileOf
  have hp := parse_encodeAll crc (fun p => (de p).isSome) (L.map ser) (by
    intro p hp
    simp only [List.mem_map] at hp
    obtain ⟨e, he, rfl⟩ := hp
    exact (h e he).1)
  simp only [hp]
  rw [filterMap_de_ser ser de L (fun e he => (h e he).2)]
  simp

/-- **Crash at any byte, then restart**: the new coordinator is exactly the one a restart on the
    log of the records that lie wholly before the cut would give — never an error, never a
    partial or altered record. -/
theorem restartBytes_take (crc : List Nat → Nat) (ser : Entry → List Nat) (de : List Nat → Option Entry)
    (cfg : Cfg) (L : List Entry) (n now : Nat) (h : CodecOK crc ser de L) :
    restartBytes crc de cfg ((fileOf crc ser L).take n) now
      = some (restartLog cfg (L.take (wholeWithin crc (L.map ser) n)) now) := by
  unfold restartBytes
  have hr : openRepair ((fileOf crc ser L).take n)
      = fileOf crc ser (L.take (wholeWithin crc (L.map ser) n)) := by
    unfold fileOf
    rw [openRepair_take crc (L.map ser) n (by
      intro p hp
      simp only [List.mem_map] at hp
      obtain ⟨e, he, rfl⟩ := hp
      exact (h e he).1.1)]
    rw [List.map_take]
  rw [hr, replay_fileOf crc ser de _ (CodecOK_take _ h)]
  rfl

/-! ## runs -/

/-- side conditions of a step: transaction ids are fresh (`generate_tx_id`), and the records in
    the file at a crash are well-formed -/
def StepOK (crc : List Nat → Nat) (ser : Entry → List Nat) (de : List Nat → Option Entry)
    (c : Coord) : Step → Prop
  | .begin id _ _ => ¬ Completed c.log id ∧ ¬ Begun c.log id
  | .crash _ _ _ => CodecOK crc ser de c.log
  | _ => True

def Valid (crc : List Nat → Nat) (ser : Entry → List Nat) (de : List Nat → Option Entry) :
    Coord → List Step → Prop
  | _, [] => True
  | c, s :: ss => StepOK crc ser de c s ∧ Valid crc ser de (step crc ser de c s).1 ss

theorem step_crash_eq (crc : List Nat → Nat) (ser : Entry → List Nat) (de : List Nat → Option Entry)
    (c : Coord) (n now : Nat) (cfg : Cfg) (h : CodecOK crc ser de c.log) :
    step crc ser de c (.crash n now cfg)
      = (restartLog cfg (c.log.take (wholeWithin crc (c.log.map ser) n)) now, Res.ok) := by
  simp only [step, restartBytes_take crc ser de cfg c.log n now h]

theorem Inv_step (crc : List Nat → Nat) (ser : Entry → List Nat) (de : List Nat → Option Entry)
    (c : Coord) (s : Step) (hi : Inv c) (hs : StepOK crc ser de c s) :
    Inv (step crc ser de c s).1 := by
  cases s with
  | lock tx h => exact Inv_lock c tx h hi
  | «begin» id parts now => exact Inv_begin _ c id parts now hi hs.1
  | vote id shard v x => exact Inv_recordVote _ c id shard v x hi
  | commit id => exact Inv_commit _ c id hi
  | abort id => exact Inv_abort _ c id hi
  | completeCommit id => exact Inv_completeCommit c id hi
  | completeAbort id => exact Inv_completeAbort c id hi
  | cleanup now => exact Inv_cleanup c now hi
  | flushAborts => exact Inv_flush _ c hi
  | recover now => exact Inv_recover c now hi
  | recoverMem now => exact Inv_recoverMem c now hi
  | decisions => exact hi
  | forceResolve id b => exact Inv_forceResolve c id b hi
  | truncate =>
    exact Inv_of c _ [] hi (by intro e he; simp [step] at he) (by simpa [step] using PQ_nil)
      (fun x hx => ⟨hx, by simp⟩) (by intro x o ho; simp at ho)
  | crash n now cfg =>
    rw [step_crash_eq crc ser de c n now cfg hs]
    exact Inv_restartLog cfg c.log _ now hi.oneOutcome hi.scanOK

theorem run_cons (crc : List Nat → Nat) (ser : Entry → List Nat) (de : List Nat → Option Entry)
    (c : Coord) (s : Step) (ss : List Step) :
    run crc ser de c (s :: ss) = run crc ser de (step crc ser de c s).1 ss := rfl

theorem Inv_run (crc : List Nat → Nat) (ser : Entry → List Nat) (de : List Nat → Option Entry)
    (c : Coord) (ss : List Step) (hi : Inv c) (hv : Valid crc ser de c ss) :
    Inv (run crc ser de c ss) := by
  induction ss generalizing c with
  | nil => exact hi
  | cons s ss ih =>
    rw [run_cons]
    exact ih _ (Inv_step crc ser de c s hi hv.1) hv.2


/-! ## what a step reports, how the log moves, locks -/

theorem events_pending (crc : List Nat → Nat) (ser : Entry → List Nat) (de : List Nat → Option Entry)
    (c : Coord) (s : Step) (ev : Event) :
    ev ∈ events c s (step crc ser de c s).2 → ev.id ∈ mKeys c.pending := by
  cases s with
  | lock tx h => simp [step, lockAcquire, events]
  | «begin» id parts now =>
    simp only [step, begin]; split
    · simp [events]
    · split <;> simp [events]
  | vote id shard v x =>
    intro h
    have : events c (Step.vote id shard v x) (step crc ser de c (Step.vote id shard v x)).2 = [] := by
      generalize (step crc ser de c (Step.vote id shard v x)).2 = r
      cases r <;> rfl
    rw [this] at h; simp at h
  | commit id =>
    simp only [step, commit]
    split
    · simp [events]
    · rename_i tx hl
      split
      · simp [events]
      · split
        · simp [events]
        · split
          · simp [events]
          · simp only [events, List.mem_singleton]
            rintro rfl; exact mLookup_some_mem_keys _ _ _ hl
  | abort id =>
    simp only [step, abort]
    split
    · simp [events]
    · rename_i tx hl
      split
      · simp [events]
      · split
        · simp [events]
        · simp only [events, List.mem_singleton]
          rintro rfl; exact mLookup_some_mem_keys _ _ _ hl
  | completeCommit id =>
    simp only [step, completeCommit]
    split
    · simp [events]
    · rename_i tx hl
      split
      · simp [events]
      · simp only [events, List.mem_singleton]
        rintro rfl; exact mLookup_some_mem_keys _ _ _ hl
  | completeAbort id =>
    simp only [step, completeAbort]
    split
    · simp [events]
    · rename_i tx hl
      split
      · simp [events]
      · simp only [events, List.mem_singleton]
        rintro rfl; exact mLookup_some_mem_keys _ _ _ hl
  | forceResolve id b =>
    simp only [step, forceResolve]
    split
    · cases b <;> simp [events]
    · rename_i tx hl
      split
      · cases b <;> simp [events]
      · cases b <;>
        · simp only [events, List.mem_singleton]
          rintro rfl; exact mLookup_some_mem_keys _ _ _ hl
  | cleanup now =>
    simp only [step, cleanupTimeouts, events, List.mem_map, mKeys, List.mem_filter]
    rintro ⟨i, ⟨p, ⟨hp, _⟩, rfl⟩, rfl⟩
    exact ⟨p, hp, rfl⟩
  | flushAborts => simp [step, flushAborts, events]
  | recover now => simp [step, recoverFromWal, events]
  | recoverMem now =>
    simp only [step, recoverMem, events, List.mem_map, mKeys, List.mem_filter]
    rintro ⟨p, ⟨hp, _⟩, rfl⟩
    exact ⟨p, hp, rfl⟩
  | decisions => simp [step, events]
  | truncate => simp [step, events]
  | crash n now cfg =>
    intro h
    have : events c (Step.crash n now cfg) (step crc ser de c (Step.crash n now cfg)).2 = [] := by
      generalize (step crc ser de c (Step.crash n now cfg)).2 = r
      cases r <;> rfl
    rw [this] at h; simp at h

/-- a TxComplete record in the log after a call that is not a crash was there before, or is for a
    transaction that was pending when the call was made -/
theorem step_complete_new (crc : List Nat → Nat) (ser : Entry → List Nat) (de : List Nat → Option Entry)
    (c : Coord) (s : Step) (hs : ∀ n now cfg, s ≠ Step.crash n now cfg) (x : Nat) (o : Outcome)
    (h : Entry.txComplete x o ∈ (step crc ser de c s).1.log) :
    Entry.txComplete x o ∈ c.log ∨ x ∈ mKeys c.pending := by
  cases s with
  | lock tx h' => exact Or.inl (by simpa [step, lockAcquire] using h)
  | «begin» id parts now =>
    simp only [step, begin] at h
    split at h
    · exact Or.inl h
    · split at h
      · exact Or.inl h
      · rename_i l ha
        rcases (mem_walApp ha).1 _ h with h | h
        · exact Or.inl h
        · cases h
  | vote id shard v b =>
    left
    simp only [step, recordVote] at h
    split at h
    · exact h
    · rename_i l ha
      have hm := (mem_walApp ha).1
      have base : Entry.txComplete x o ∈ l → Entry.txComplete x o ∈ c.log := by
        intro h; rcases hm _ h with h | h
        · exact h
        · cases h
      split at h
      · exact base h
      · split at h
        · exact base h
        · split at h
          · exact base h
          · split at h
            · split at h
              · split at h
                · exact base h
                · split at h
                  · exact base h
                  · rename_i l2 ha2
                    rcases (mem_walApp ha2).1 _ h with h | h
                    · exact base h
                    · cases h
              · exact base h
            · exact base h
  | commit id =>
    simp only [step, commit] at h
    split at h
    · exact Or.inl h
    · rename_i tx hl
      split at h
      · exact Or.inl h
      · split at h
        · exact Or.inl h
        · rename_i l1 ha1
          have b1 : Entry.txComplete x o ∈ l1 → Entry.txComplete x o ∈ c.log := by
            intro h; rcases (mem_walApp ha1).1 _ h with h | h
            · exact h
            · cases h
          split at h
          · exact Or.inl (b1 h)
          · rename_i l2 ha2
            simp only at h
            rcases mem_walTry _ _ _ _ _ h with h | h
            · rcases mem_walTryAll _ _ _ _ _ h with h | h
              · rcases (mem_walApp ha2).1 _ h with h | h
                · exact Or.inl (b1 h)
                · cases h; exact Or.inr (mLookup_some_mem_keys _ _ _ hl)
              · simp only [List.mem_map] at h
                obtain ⟨a, _, h⟩ := h; cases h
            · cases h
  | abort id =>
    simp only [step, abort] at h
    split at h
    · exact Or.inl h
    · rename_i tx hl
      split at h
      · exact Or.inl h
      · rename_i l1 ha1
        have b1 : Entry.txComplete x o ∈ l1 → Entry.txComplete x o ∈ c.log := by
          intro h; rcases (mem_walApp ha1).1 _ h with h | h
          · exact h
          · cases h
        split at h
        · exact Or.inl (b1 h)
        · rename_i l2 ha2
          rcases (mem_walApp ha2).1 _ h with h | h
          · exact Or.inl (b1 h)
          · cases h; exact Or.inr (mLookup_some_mem_keys _ _ _ hl)
  | completeCommit id =>
    left
    simp only [step, completeCommit] at h
    split at h
    · exact h
    · split at h <;> exact h
  | completeAbort id =>
    left
    simp only [step, completeAbort] at h
    split at h
    · exact h
    · split at h <;> exact h
  | forceResolve id b =>
    left
    simp only [step, forceResolve] at h
    split at h
    · exact h
    · split at h <;> exact h
  | cleanup now => exact Or.inl (by simpa [step, cleanupTimeouts] using h)
  | flushAborts =>
    left
    simp only [step, flushAborts] at h
    rcases mem_walTryAll _ _ _ _ _ h with h | h
    · exact h
    · simp only [List.mem_map] at h
      obtain ⟨a, _, h⟩ := h; cases h
  | recover now => exact Or.inl (by simpa [step, recoverFromWal] using h)
  | recoverMem now => exact Or.inl (by simpa [step, recoverMem] using h)
  | decisions => exact Or.inl (by simpa [step] using h)
  | truncate => simp [step] at h
  | crash n now cfg => exact absurd rfl (hs n now cfg)

theorem recordVote_log (sz : Entry → Nat) (c : Coord) (hn : c.cfg.NoRotate) (id shard : Nat) (v : Vote) (x : Bool) :
    ∃ es, (recordVote sz c id shard v x).1.log = c.log ++ es := by
  unfold recordVote
  split
  · exact ⟨[], by simp⟩
  · rename_i l ha
    have hl := walApp_noRotate hn ha
    subst hl
    simp only
    split
    · exact ⟨_, rfl⟩
    · split
      · exact ⟨_, rfl⟩
      · split
        · exact ⟨_, rfl⟩
        · split
          · split
            · split
              · exact ⟨_, rfl⟩
              · split
                · exact ⟨_, rfl⟩
                · rename_i l2 ha2
                  have hl2 := walApp_noRotate (cfg := c.cfg) hn ha2
                  subst hl2
                  exact ⟨[Entry.prepareVote id shard v.kind, Entry.phaseChange id .preparing .prepared], by simp⟩
            · exact ⟨_, rfl⟩
          · exact ⟨_, rfl⟩

/-- as long as the size limit does not rotate the file, every call except a crash and
    `truncate_wal` only appends to the log -/
theorem step_log_grows (crc : List Nat → Nat) (ser : Entry → List Nat) (de : List Nat → Option Entry)
    (c : Coord) (hn : c.cfg.NoRotate) (s : Step) (hs : ∀ n now cfg, s ≠ Step.crash n now cfg)
    (ht : s ≠ Step.truncate) :
    ∃ es, (step crc ser de c s).1.log = c.log ++ es := by
  cases s with
  | lock tx h => exact ⟨[], by simp [step, lockAcquire]⟩
  | «begin» id parts now =>
    simp only [step, begin]; split
    · exact ⟨[], by simp⟩
    · split
      · exact ⟨[], by simp⟩
      · rename_i l ha
        exact ⟨_, walApp_noRotate hn ha⟩
  | vote id shard v x => exact recordVote_log _ c hn id shard v x
  | commit id =>
    simp only [step, commit]; split
    · exact ⟨[], by simp⟩
    · split
      · exact ⟨[], by simp⟩
      · split
        · exact ⟨[], by simp⟩
        · rename_i l1 ha1
          have h1 := walApp_noRotate hn ha1
          split
          · exact ⟨_, h1⟩
          · rename_i l2 ha2
            have h2 := walApp_noRotate hn ha2
            simp only
            obtain ⟨es', _, h3⟩ := walTryAll_noRotate (recSize ser) hn l2
              ((voteHandles _).map (fun h => Entry.lockRelease id h))
            rw [h3]
            rcases walTry_noRotate (recSize ser) hn (l2 ++ es') (Entry.allLocksReleased id) with h4 | h4 <;>
              rw [h4, h2, h1]
            · exact ⟨_, by simp only [List.append_assoc]; rfl⟩
            · exact ⟨_, by simp only [List.append_assoc]; rfl⟩
  | abort id =>
    simp only [step, abort]; split
    · exact ⟨[], by simp⟩
    · split
      · exact ⟨[], by simp⟩
      · rename_i l1 ha1
        have h1 := walApp_noRotate hn ha1
        split
        · exact ⟨_, h1⟩
        · rename_i l2 ha2
          have h2 := walApp_noRotate hn ha2
          exact ⟨_, by simp only; rw [h2, h1, List.append_assoc]⟩
  | completeCommit id =>
    simp only [step, completeCommit]; split
    · exact ⟨[], by simp⟩
    · split <;> exact ⟨[], by simp⟩
  | completeAbort id =>
    simp only [step, completeAbort]; split
    · exact ⟨[], by simp⟩
    · split <;> exact ⟨[], by simp⟩
  | forceResolve id b =>
    simp only [step, forceResolve]; split
    · exact ⟨[], by simp⟩
    · split <;> exact ⟨[], by simp⟩
  | cleanup now => exact ⟨[], by simp [step, cleanupTimeouts]⟩
  | flushAborts =>
    obtain ⟨es', _, h⟩ := walTryAll_noRotate (recSize ser) hn c.log
      (c.pendingAborts.map (fun p => Entry.abortIntent p.1 p.2.1 p.2.2))
    exact ⟨es', by simp only [step, flushAborts]; exact h⟩
  | recover now => exact ⟨[], by simp [step, recoverFromWal]⟩
  | recoverMem now => exact ⟨[], by simp [step, recoverMem]⟩
  | decisions => exact ⟨[], by simp [step]⟩
  | truncate => exact absurd rfl ht
  | crash n now cfg => exact absurd rfl (hs n now cfg)

/-- every call except a crash leaves the configuration alone -/
theorem step_cfg (crc : List Nat → Nat) (ser : Entry → List Nat) (de : List Nat → Option Entry)
    (c : Coord) (s : Step) (hs : ∀ n now cfg, s ≠ Step.crash n now cfg) :
    (step crc ser de c s).1.cfg = c.cfg := by
  cases s with
  | lock tx h => rfl
  | «begin» id parts now =>
    simp only [step, begin]; split
    · rfl
    · split <;> rfl
  | vote id shard v x =>
    simp only [step, recordVote]
    split
    · rfl
    · skip
      split
      · rfl
      · split
        · rfl
        · split
          · rfl
          · split
            · split
              · split
                · rfl
                · split <;> rfl
              · rfl
            · rfl
  | commit id =>
    simp only [step, commit]; split
    · rfl
    · split
      · rfl
      · split
        · rfl
        · split <;> rfl
  | abort id =>
    simp only [step, abort]; split
    · rfl
    · split
      · rfl
      · split <;> rfl
  | completeCommit id =>
    simp only [step, completeCommit]; split
    · rfl
    · split <;> rfl
  | completeAbort id =>
    simp only [step, completeAbort]; split
    · rfl
    · split <;> rfl
  | forceResolve id b =>
    simp only [step, forceResolve]; split
    · rfl
    · split <;> rfl
  | cleanup now => rfl
  | flushAborts => rfl
  | recover now => rfl
  | recoverMem now => rfl
  | decisions => rfl
  | truncate => rfl
  | crash n now cfg => exact absurd rfl (hs n now cfg)

theorem mem_release (h : Nat) (l : List (Nat × Nat)) (p : Nat × Nat) :
    p ∈ release h l ↔ p ∈ l ∧ p.1 ≠ h := by
  simp [release, List.mem_filter]

theorem mem_releaseAll (hs : List Nat) (l : List (Nat × Nat)) (p : Nat × Nat) :
    p ∈ releaseAll hs l ↔ p ∈ l ∧ p.1 ∉ hs := by
  unfold releaseAll
  induction hs generalizing l with
  | nil => simp
  | cons a hs ih =>
    simp only [List.foldl_cons, ih, mem_release, List.mem_cons, not_or]
    constructor
    · rintro ⟨⟨h1, h2⟩, h3⟩; exact ⟨h1, h2, h3⟩
    · rintro ⟨h1, h2, h3⟩; exact ⟨⟨h1, h2⟩, h3⟩


/-! ## decidability helpers for the concrete non-vacuity examples -/

instance (L : List Entry) (x : Nat) : Decidable (Completed L x) :=
  decidable_of_iff (L.any (fun e => match e with | .txComplete y _ => decide (y = x) | _ => false) = true) (by
    simp only [Completed, List.any_eq_true]
    constructor
    · rintro ⟨e, he, h⟩
      cases e <;> simp at h
      subst h; exact ⟨_, he⟩
    · rintro ⟨o, ho⟩; exact ⟨_, ho, by simp⟩)

instance (L : List Entry) (x : Nat) : Decidable (Begun L x) :=
  decidable_of_iff (L.any (fun e => match e with | .txBegin y _ => decide (y = x) | _ => false) = true) (by
    simp only [Begun, List.any_eq_true]
    constructor
    · rintro ⟨e, he, h⟩
      cases e <;> simp at h
      subst h; exact ⟨_, he⟩
    · rintro ⟨o, ho⟩; exact ⟨_, ho, by simp⟩)

instance (crc : List Nat → Nat) (ser : Entry → List Nat) (de : List Nat → Option Entry) (L : List Entry) :
    Decidable (CodecOK crc ser de L) := by
  unfold CodecOK GoodRec; infer_instance

instance (crc : List Nat → Nat) (ser : Entry → List Nat) (de : List Nat → Option Entry) (c : Coord) (s : Step) :
    Decidable (StepOK crc ser de c s) := by
  cases s <;> (unfold StepOK; infer_instance)

instance decValid (crc : List Nat → Nat) (ser : Entry → List Nat) (de : List Nat → Option Entry) :
    (c : Coord) → (ss : List Step) → Decidable (Valid crc ser de c ss)
  | _, [] => isTrue trivial
  | c, s :: ss =>
    have := decValid crc ser de (step crc ser de c s).1 ss
    by unfold Valid; infer_instance

theorem run_append (crc : List Nat → Nat) (ser : Entry → List Nat) (de : List Nat → Option Entry)
    (c : Coord) (a b : List Step) :
    run crc ser de c (a ++ b) = run crc ser de (run crc ser de c a) b := by
  simp [run, List.foldl_append]

theorem Valid_append (crc : List Nat → Nat) (ser : Entry → List Nat) (de : List Nat → Option Entry)
    (c : Coord) (a b : List Step) :
    Valid crc ser de c (a ++ b) ↔ Valid crc ser de c a ∧ Valid crc ser de (run crc ser de c a) b := by
  induction a generalizing c with
  | nil => simp [Valid, run]
  | cons s a ih =>
    simp only [List.cons_append, Valid, run_cons, ih, and_assoc]


/-! ## what comes back after a restart -/

theorem mLookup_mErase_ne {α : Type} (k x : Nat) (m : List (Nat × α)) (h : k ≠ x) :
    mLookup x (mErase k m) = mLookup x m := by
  induction m with
  | nil => rfl
  | cons p r ih =>
    obtain ⟨k', v'⟩ := p
    by_cases hk : k' = k
    · subst hk
      have : mErase k' ((k', v') :: r) = mErase k' r := by simp [mErase]
      rw [this, ih]
      simp [mLookup, h]
    · have : mErase k ((k', v') :: r) = (k', v') :: mErase k r := by simp [mErase, hk]
      rw [this]
      simp only [mLookup, ih]

theorem mLookup_mInsert {α : Type} (k x : Nat) (v : α) (m : List (Nat × α)) :
    mLookup x (mInsert k v m) = if k = x then some v else mLookup x m := by
  simp only [mInsert, mLookup]
  split
  · rfl
  · rename_i h; exact mLookup_mErase_ne k x m h

/-- the transaction `x` after `restoreAll`: the restored image of one of the listed records for
    `x`, or — when none is listed — whatever was there before -/
theorem lookup_restoreAll (rs : List RecTx) (ph : Phase) (now : Nat) (p : List (Nat × Tx)) (x : Nat) :
    (∃ r ∈ rs, r.tx = x ∧ mLookup x (restoreAll rs ph now p) = some (restoreTx r ph now))
    ∨ ((∀ r ∈ rs, r.tx ≠ x) ∧ mLookup x (restoreAll rs ph now p) = mLookup x p) := by
  unfold restoreAll
  induction rs generalizing p with
  | nil => right; simp
  | cons r rs ih =>
    simp only [List.foldl_cons]
    rcases ih (mInsert r.tx (restoreTx r ph now) p) with ⟨r', hr', hx, hl⟩ | ⟨hn, hl⟩
    · left; exact ⟨r', by simp [hr'], hx, hl⟩
    · by_cases hrx : r.tx = x
      · left
        refine ⟨r, by simp, hrx, ?_⟩
        rw [hl, mLookup_mInsert]; simp [hrx]
      · right
        refine ⟨?_, ?_⟩
        · intro r' hr'
          simp only [List.mem_cons] at hr'
          rcases hr' with rfl | hr'
          · exact hrx
          · exact hn r' hr'
        · rw [hl, mLookup_mInsert]; simp [hrx]

theorem mem_classify (ip : List (Nat × InProg)) (ph : Phase) (r : RecTx) :
    r ∈ classify ip ph ↔ ∃ i, (r.tx, i) ∈ ip ∧ i.phase = ph ∧ r.parts = i.parts ∧ r.votes = i.votes := by
  simp only [classify, List.mem_map, List.mem_filter, decide_eq_true_eq]
  constructor
  · rintro ⟨p, ⟨hp, hph⟩, rfl⟩; exact ⟨p.2, hp, hph, rfl, rfl⟩
  · rintro ⟨i, hi, hph, h1, h2⟩
    refine ⟨(r.tx, i), ⟨hi, hph⟩, ?_⟩
    cases r; simp_all

/-- membership in the three map operations -/
theorem mem_mErase {α : Type} (k x : Nat) (v : α) (m : List (Nat × α)) :
    (x, v) ∈ mErase k m ↔ (x, v) ∈ m ∧ x ≠ k := by
  simp [mErase, List.mem_filter]

theorem mem_mInsert {α : Type} (k x : Nat) (v w : α) (m : List (Nat × α)) :
    (x, v) ∈ mInsert k w m ↔ (x = k ∧ v = w) ∨ ((x, v) ∈ m ∧ x ≠ k) := by
  simp [mInsert, mem_mErase]

theorem mem_mModify {α : Type} (k x : Nat) (f : α → α) (v : α) (m : List (Nat × α)) :
    (x, v) ∈ mModify k f m ↔ ∃ v0, (x, v0) ∈ m ∧ v = if x = k then f v0 else v0 := by
  simp only [mModify, List.mem_map]
  constructor
  · rintro ⟨⟨a, b⟩, hp, h⟩
    by_cases hk : a = k
    · simp only [hk, if_true, Prod.mk.injEq] at h
      obtain ⟨rfl, rfl⟩ := h
      exact ⟨b, by rw [← hk]; exact hp, by simp⟩
    · simp only [hk, if_false, Prod.mk.injEq] at h
      obtain ⟨rfl, rfl⟩ := h
      exact ⟨b, hp, by simp [hk]⟩
  · rintro ⟨v0, hp, rfl⟩
    refine ⟨(x, v0), hp, ?_⟩
    by_cases hk : x = k <;> simp [hk]

theorem pushVote_phase (shard : Nat) (v : VoteKind) (ip : InProg) : (pushVote shard v ip).phase = ip.phase := by
  unfold pushVote; split <;> rfl

/-- a transaction the scan does not see as `Preparing` has a PhaseChange record in the log -/
theorem scan_phase_logged (L : List Entry) :
    ∀ x ip, (x, ip) ∈ (scan L).inProgress → ip.phase ≠ .preparing →
      ∃ f t, Entry.phaseChange x f t ∈ L := by
  induction L using snoc_induction with
  | hnil => intro x ip h; simp [scan_nil] at h
  | hsnoc L e ih =>
    intro x ip hm hp
    rw [scan_snoc] at hm
    have lift : (∃ f t, Entry.phaseChange x f t ∈ L) → ∃ f t, Entry.phaseChange x f t ∈ L ++ [e] := by
      rintro ⟨f, t, h⟩; exact ⟨f, t, List.mem_append_left _ h⟩
    cases e with
    | txBegin tx parts =>
      simp only [scanStep, mem_mInsert] at hm
      rcases hm with ⟨_, rfl⟩ | ⟨hm, _⟩
      · exact absurd rfl hp
      · exact lift (ih x ip hm hp)
    | prepareVote tx shard v =>
      simp only [scanStep, mem_mModify] at hm
      obtain ⟨i0, hm, rfl⟩ := hm
      apply lift; apply ih x i0 hm
      split at hp
      · rwa [pushVote_phase] at hp
      · exact hp
    | phaseChange tx f t =>
      simp only [scanStep, mem_mModify] at hm
      obtain ⟨i0, hm, rfl⟩ := hm
      by_cases hk : x = tx
      · subst hk; exact ⟨f, t, by simp⟩
      · simp only [hk, if_false] at hp
        exact lift (ih x i0 hm hp)
    | txComplete tx o =>
      simp only [scanStep, scanComplete, mem_mErase] at hm
      exact lift (ih x ip hm.1 hp)
    | lockRelease tx h => exact lift (ih x ip hm hp)
    | allLocksReleased tx => exact lift (ih x ip hm hp)
    | abortIntent tx r sh => exact lift (ih x ip hm hp)

/-- the pending map of a restarted coordinator, read off the scan of the surviving log -/
theorem restart_pending (cfg : Cfg) (L : List Entry) (now : Nat) (x : Nat) (tx : Tx)
    (h : mLookup x (restartLog cfg L now).pending = some tx) :
    ∃ ip, (x, ip) ∈ (scan L).inProgress
      ∧ (ip.phase = .prepared ∨ ip.phase = .committing ∨ ip.phase = .aborting)
      ∧ tx = restoreTx ⟨x, ip.parts, ip.votes⟩ ip.phase now := by
  unfold restartLog recoverFromWal at h
  simp only [fromEntries, recoveryOf] at h
  have fin : ∀ (ph : Phase) (r : RecTx), r ∈ classify (scan L).inProgress ph → r.tx = x →
      tx = restoreTx r ph now → (ph = .prepared ∨ ph = .committing ∨ ph = .aborting) →
      ∃ ip, (x, ip) ∈ (scan L).inProgress
        ∧ (ip.phase = .prepared ∨ ip.phase = .committing ∨ ip.phase = .aborting)
        ∧ tx = restoreTx ⟨x, ip.parts, ip.votes⟩ ip.phase now := by
    intro ph r hr hx ht hph
    obtain ⟨i, hi, hip, h1, h2⟩ := (mem_classify _ _ _).mp hr
    refine ⟨i, by rw [← hx]; exact hi, by rw [hip]; exact hph, ?_⟩
    rw [ht, hip]
    cases r; simp_all
  rcases lookup_restoreAll (classify (scan L).inProgress .aborting) .aborting now _ x with
    ⟨r, hr, hx, hl⟩ | ⟨_, hl⟩
  · rw [hl] at h; cases h
    exact fin _ r hr hx rfl (Or.inr (Or.inr rfl))
  · rw [hl] at h
    rcases lookup_restoreAll (classify (scan L).inProgress .committing) .committing now _ x with
      ⟨r, hr, hx, hl⟩ | ⟨_, hl⟩
    · rw [hl] at h; cases h
      exact fin _ r hr hx rfl (Or.inr (Or.inl rfl))
    · rw [hl] at h
      rcases lookup_restoreAll (classify (scan L).inProgress .prepared) .prepared now _ x with
        ⟨r, hr, hx, hl⟩ | ⟨_, hl⟩
      · rw [hl] at h; cases h
        exact fin _ r hr hx rfl (Or.inl rfl)
      · rw [hl] at h; simp [mLookup] at h


theorem mKeys_mErase_eq {α : Type} (k : Nat) (m : List (Nat × α)) :
    mKeys (mErase k m) = (mKeys m).filter (fun y => decide (y ≠ k)) := by
  induction m with
  | nil => rfl
  | cons p r ih =>
    obtain ⟨a, b⟩ := p
    by_cases h : a = k
    · have : mErase k ((a, b) :: r) = mErase k r := by simp [mErase, h]
      rw [this, ih]; simp [mKeys, h]
    · have : mErase k ((a, b) :: r) = (a, b) :: mErase k r := by simp [mErase, h]
      rw [this]; simp only [mKeys, List.map_cons] at ih ⊢
      rw [ih]; simp [h]

theorem nodup_mErase {α : Type} (k : Nat) (m : List (Nat × α)) (h : (mKeys m).Nodup) :
    (mKeys (mErase k m)).Nodup := by
  rw [mKeys_mErase_eq]; exact h.filter _

theorem nodup_mInsert {α : Type} (k : Nat) (v : α) (m : List (Nat × α)) (h : (mKeys m).Nodup) :
    (mKeys (mInsert k v m)).Nodup := by
  have h1 := nodup_mErase k m h
  have h2 : k ∉ mKeys (mErase k m) := by rw [mem_mKeys_mErase]; simp
  simp only [mInsert, mKeys, List.map_cons] at h1 h2 ⊢
  exact List.nodup_cons.mpr ⟨h2, h1⟩

theorem nodup_scan (L : List Entry) : (mKeys (scan L).inProgress).Nodup := by
  induction L using snoc_induction with
  | hnil => simp [scan_nil, mKeys]
  | hsnoc L e ih =>
    rw [scan_snoc]
    cases e with
    | txBegin tx parts => exact nodup_mInsert _ _ _ ih
    | prepareVote tx shard v => simp only [scanStep, mKeys_mModify]; exact ih
    | phaseChange tx f t => simp only [scanStep, mKeys_mModify]; exact ih
    | txComplete tx o => exact nodup_mErase _ _ ih
    | lockRelease tx h => exact ih
    | allLocksReleased tx => exact ih
    | abortIntent tx r sh => exact ih

theorem mem_unique_of_nodup {α : Type} (m : List (Nat × α)) (h : (mKeys m).Nodup) (x : Nat) (v w : α)
    (hv : (x, v) ∈ m) (hw : (x, w) ∈ m) : v = w := by
  induction m with
  | nil => simp at hv
  | cons p r ih =>
    obtain ⟨a, b⟩ := p
    simp only [mKeys, List.map_cons, List.nodup_cons] at h
    simp only [List.mem_cons, Prod.mk.injEq] at hv hw
    have key : ∀ u, (x, u) ∈ r → x ∈ List.map (fun p => p.1) r := fun u hu => List.mem_map.mpr ⟨(x, u), hu, rfl⟩
    rcases hv with ⟨rfl, rfl⟩ | hv <;> rcases hw with ⟨hx, rfl⟩ | hw
    · rfl
    · exact absurd (key w hw) h.1
    · subst hx; exact absurd (key v hv) h.1
    · exact ih h.2 hv hw

/-- **Prepared transactions come back.**  Every transaction the scan of the surviving log holds as
    `Prepared` is pending after the restart, in phase `Prepared`, with the participants and votes
    of the scan, a fresh start time and the 5000 ms default timeout. -/
theorem restart_prepared (cfg : Cfg) (L : List Entry) (now : Nat) (x : Nat) (ip : InProg)
    (hm : (x, ip) ∈ (scan L).inProgress) (hp : ip.phase = .prepared) :
    mLookup x (restartLog cfg L now).pending = some (restoreTx ⟨x, ip.parts, ip.votes⟩ .prepared now) := by
  have nd := nodup_scan L
  have other : ∀ (ph : Phase), ph ≠ .prepared → ∀ r ∈ classify (scan L).inProgress ph, r.tx ≠ x := by
    intro ph hph r hr hx
    obtain ⟨i, hi, hip, _, _⟩ := (mem_classify _ _ _).mp hr
    rw [hx] at hi
    have := mem_unique_of_nodup _ nd x i ip hi hm
    rw [this, hp] at hip
    exact hph hip.symm
  unfold restartLog recoverFromWal
  simp only [fromEntries, recoveryOf]
  rcases lookup_restoreAll (classify (scan L).inProgress .aborting) .aborting now
      (restoreAll (classify (scan L).inProgress .committing) .committing now
        (restoreAll (classify (scan L).inProgress .prepared) .prepared now [])) x with ⟨r, hr, hx, _⟩ | ⟨_, hl⟩
  · exact absurd hx (other .aborting (by decide) r hr)
  · rw [hl]
    rcases lookup_restoreAll (classify (scan L).inProgress .committing) .committing now
        (restoreAll (classify (scan L).inProgress .prepared) .prepared now []) x with ⟨r, hr, hx, _⟩ | ⟨_, hl⟩
    · exact absurd hx (other .committing (by decide) r hr)
    · rw [hl]
      rcases lookup_restoreAll (classify (scan L).inProgress .prepared) .prepared now [] x with
        ⟨r, hr, hx, hl⟩ | ⟨hn, _⟩
      · rw [hl]
        obtain ⟨i, hi, _, h1, h2⟩ := (mem_classify _ _ _).mp hr
        rw [hx] at hi
        have := mem_unique_of_nodup _ nd x i ip hi hm
        subst this
        cases r; simp_all
      · exfalso
        exact hn ⟨x, ip.parts, ip.votes⟩ ((mem_classify _ _ _).mpr ⟨ip, hm, hp, rfl, rfl⟩) rfl

theorem mLookup_ne_none_of_mem_keys {α : Type} (k : Nat) (m : List (Nat × α)) (h : k ∈ mKeys m) :
    mLookup k m ≠ none := by
  induction m with
  | nil => simp [mKeys] at h
  | cons p r ih =>
    obtain ⟨a, b⟩ := p
    simp only [mLookup]
    split
    · simp
    · rename_i hne
      simp only [mKeys, List.map_cons, List.mem_cons] at h
      rcases h with h | h
      · exact absurd h.symm hne
      · exact ih h

/-- the votes the scan keeps never hold a shard twice (so `restore_tx` never overwrites a vote) -/
theorem scan_votes_one_per_shard (L : List Entry) :
    ∀ x ip, (x, ip) ∈ (scan L).inProgress → (mKeys ip.votes).Nodup := by
  induction L using snoc_induction with
  | hnil => intro x ip h; simp [scan_nil] at h
  | hsnoc L e ih =>
    intro x ip hm
    rw [scan_snoc] at hm
    cases e with
    | txBegin tx parts =>
      simp only [scanStep, mem_mInsert] at hm
      rcases hm with ⟨_, rfl⟩ | ⟨hm, _⟩
      · simp [mKeys]
      · exact ih x ip hm
    | prepareVote tx shard v =>
      simp only [scanStep, mem_mModify] at hm
      obtain ⟨i0, hm, rfl⟩ := hm
      have h0 := ih x i0 hm
      split
      · unfold pushVote
        split
        · rename_i hc
          have hnone : shard ∉ mKeys i0.votes := by
            intro hin
            have := mLookup_ne_none_of_mem_keys shard i0.votes hin
            exact this (by simpa using hc.2)
          simp only [mKeys, List.map_append, List.map_cons, List.map_nil] at h0 hnone ⊢
          exact List.nodup_append.mpr ⟨h0, by simp, by
            intro a ha b hb; simp at hb; subst hb; intro hab; subst hab; exact hnone ha⟩
        · exact h0
      · exact h0
    | phaseChange tx f t =>
      simp only [scanStep, mem_mModify] at hm
      obtain ⟨i0, hm, rfl⟩ := hm
      have := ih x i0 hm
      split <;> exact this
    | txComplete tx o =>
      simp only [scanStep, scanComplete, mem_mErase] at hm
      exact ih x ip hm.1
    | lockRelease tx h => exact ih x ip hm
    | allLocksReleased tx => exact ih x ip hm
    | abortIntent tx r sh => exact ih x ip hm

end Neumann.TxWal
