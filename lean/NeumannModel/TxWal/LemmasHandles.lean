import NeumannModel.TxWal.LemmasSync
/-
  C13 — the lock-handle counter.
  `HInv` : every handle below the high-water mark that the lock table, a pending transaction's
           YES votes, or a decided / pending transaction in the scan of the log carries is below
           the counter of the current process, and the lock table holds it (if at all) for that
           very transaction.  Established by a restart on ANY log (`recover_from_wal` moves the
           counter past everything it restores, 0358827a) and preserved by every step of a run
           whose locks are taken through the counter and whose YES votes carry a handle the
           voting transaction holds.
-/
namespace Neumann.TxWal
open Neumann.FramedLog

/-! ## `max` of the logged handles -/

theorem listMax_ge (l : List Nat) : ∀ m, listMax l = some m → ∀ h ∈ l, h ≤ m := by
  induction l with
  | nil => intro m h; simp [listMax] at h
  | cons a t ih =>
    intro m hm h hh
    simp only [listMax] at hm
    cases ht : listMax t with
    | none =>
      rw [ht] at hm
      simp only [Option.some.injEq] at hm
      subst hm
      cases t with
      | nil => simp at hh; omega
      | cons b t' =>
        simp only [listMax] at ht
        cases h' : listMax t' <;> rw [h'] at ht <;> simp at ht
    | some m' =>
      rw [ht] at hm
      simp only [Option.some.injEq] at hm
      subst hm
      simp only [List.mem_cons] at hh
      rcases hh with rfl | hh
      · exact Nat.le_max_left _ _
      · exact Nat.le_trans (ih m' ht h hh) (Nat.le_max_right _ _)

theorem listMax_none (l : List Nat) (h : listMax l = none) : l = [] := by
  cases l with
  | nil => rfl
  | cons a t =>
    simp only [listMax] at h
    cases h' : listMax t <;> rw [h'] at h <;> simp at h

theorem bumpCounter_ge (n : Nat) (st : Recovery) : n ≤ bumpCounter n st := by
  unfold bumpCounter
  split
  · exact Nat.le_max_left _ _
  · exact Nat.le_refl _

theorem bumpCounter_gt (n : Nat) (st : Recovery) (h : Nat) (hm : h ∈ st.handles) (hw : h < highWater) :
    h < bumpCounter n st := by
  unfold bumpCounter
  have hf : h ∈ st.handles.filter (fun h => decide (h < highWater)) := by
    simp only [List.mem_filter, decide_eq_true_eq]; exact ⟨hm, hw⟩
  split
  · rename_i m hmax
    have := listMax_ge _ m hmax h hf
    have := Nat.le_max_right n (m + 1)
    omega
  · rename_i hnone
    rw [listMax_none _ hnone] at hf
    simp at hf

/-! ## who holds a handle -/

/-- handle `h` was handed out by this process' counter and, if the lock table holds it, it holds
    it for transaction `x` -/
def Owned (c : Coord) (x h : Nat) : Prop := h < c.nextHandle ∧ ∀ t, (h, t) ∈ c.locks → t = x

theorem Owned_mono {c c' : Coord} {x h : Nat} (hn : c.nextHandle ≤ c'.nextHandle)
    (hl : ∀ p ∈ c'.locks, p ∈ c.locks) (ho : Owned c x h) : Owned c' x h :=
  ⟨Nat.lt_of_lt_of_le ho.1 hn, fun t ht => ho.2 t (hl _ ht)⟩

def Decided (p : Phase) : Prop := p = .prepared ∨ p = .committing ∨ p = .aborting

/-- the handles the scan of `L` holds for decided transactions and for the transactions `pk` -/
def LogOK (L : List Entry) (pk : Nat → Prop) (ow : Nat → Nat → Prop) : Prop :=
  ∀ x ip, ipOf L x = some ip → (Decided ip.phase ∨ pk x) →
    ∀ h ∈ yesHandles ip.votes, h < highWater → ow x h

theorem LogOK_mono {L : List Entry} {pk pk' : Nat → Prop} {ow ow' : Nat → Nat → Prop}
    (hpk : ∀ x, pk' x → pk x) (how : ∀ x h, ow x h → ow' x h) (h : LogOK L pk ow) : LogOK L pk' ow' := by
  intro x ip hip hp hh hm hw
  exact how _ _ (h x ip hip (hp.imp id (hpk x)) hh hm hw)

theorem LogOK_nil (pk : Nat → Prop) (ow : Nat → Nat → Prop) : LogOK [] pk ow := by
  intro x ip hip; simp [ipOf_nil] at hip

theorem yesHandles_nil : yesHandles [] = [] := rfl

theorem ipOf_single_votes (e : Entry) (x : Nat) (ip : InProg) (h : ipOf [e] x = some ip) : ip.votes = [] := by
  have e0 : [e] = [] ++ [e] := rfl
  rw [e0] at h
  cases e with
  | txBegin y p =>
    rw [ipOf_snoc_begin] at h
    split at h
    · cases h; rfl
    · simp [ipOf_nil] at h
  | prepareVote y s v => rw [ipOf_snoc_vote] at h; split at h <;> simp [ipOf_nil] at h
  | phaseChange y f t => rw [ipOf_snoc_phase] at h; split at h <;> simp [ipOf_nil] at h
  | txComplete y o => rw [ipOf_snoc_complete] at h; split at h <;> simp [ipOf_nil] at h
  | lockRelease y hh => rw [ipOf_snoc_inert _ _ (by simp [Inert])] at h; simp [ipOf_nil] at h
  | allLocksReleased y => rw [ipOf_snoc_inert _ _ (by simp [Inert])] at h; simp [ipOf_nil] at h
  | abortIntent y r s => rw [ipOf_snoc_inert _ _ (by simp [Inert])] at h; simp [ipOf_nil] at h

theorem LogOK_single (e : Entry) (pk : Nat → Prop) (ow : Nat → Nat → Prop) : LogOK [e] pk ow := by
  intro x ip hip _ hh hm
  rw [ipOf_single_votes e x ip hip] at hm
  simp [yesHandles] at hm

theorem LogOK_snoc_begin {L : List Entry} {pk pk' : Nat → Prop} {ow : Nat → Nat → Prop} (y : Nat) (p : List Nat)
    (h : LogOK L pk ow) (hpk : ∀ x, pk' x → pk x ∨ x = y) : LogOK (L ++ [Entry.txBegin y p]) pk' ow := by
  intro x ip hip hp hh hm hw
  rw [ipOf_snoc_begin] at hip
  split at hip
  · cases hip; simp [yesHandles] at hm
  · rename_i hne
    refine h x ip hip ?_ hh hm hw
    rcases hp with hp | hp
    · exact Or.inl hp
    · rcases hpk x hp with hp | hp
      · exact Or.inr hp
      · exact absurd hp.symm hne

theorem yesHandles_append (a b : List (Nat × VoteKind)) : yesHandles (a ++ b) = yesHandles a ++ yesHandles b := by
  simp [yesHandles, List.filterMap_append]

theorem LogOK_snoc_vote {L : List Entry} {pk : Nat → Prop} {ow : Nat → Nat → Prop} (y s : Nat) (v : VoteKind)
    (h : LogOK L pk ow) (hv : ∀ hh, v = VoteKind.yes hh → hh < highWater → ow y hh) :
    LogOK (L ++ [Entry.prepareVote y s v]) pk ow := by
  intro x ip hip hp hh hm hw
  rw [ipOf_snoc_vote] at hip
  split at hip
  · rename_i hxy
    subst hxy
    cases h0 : ipOf L x with
    | none => rw [h0] at hip; simp at hip
    | some ip0 =>
      rw [h0] at hip
      simp only [Option.map_some, Option.some.injEq] at hip
      subst hip
      have hph : (pushVote s v ip0).phase = ip0.phase := pushVote_phase s v ip0
      rw [hph] at hp
      unfold pushVote at hm
      split at hm
      · simp only [yesHandles_append, List.mem_append] at hm
        rcases hm with hm | hm
        · exact h x ip0 h0 hp hh hm hw
        · cases v with
          | yes h' =>
            simp [yesHandles] at hm
            subst hm
            exact hv _ rfl hw
          | no => simp [yesHandles] at hm
      · exact h x ip0 h0 hp hh hm hw
  · exact h x ip hip hp hh hm hw

theorem LogOK_snoc_phase {L : List Entry} {pk : Nat → Prop} {ow : Nat → Nat → Prop} (y : Nat) (f t : Phase)
    (h : LogOK L pk ow) (hy : pk y) : LogOK (L ++ [Entry.phaseChange y f t]) pk ow := by
  intro x ip hip hp hh hm hw
  rw [ipOf_snoc_phase] at hip
  split at hip
  · rename_i hxy
    subst hxy
    cases h0 : ipOf L x with
    | none => rw [h0] at hip; simp at hip
    | some ip0 =>
      rw [h0] at hip
      simp only [Option.map_some, Option.some.injEq] at hip
      subst hip
      exact h x ip0 h0 (Or.inr hy) hh hm hw
  · exact h x ip hip hp hh hm hw

theorem LogOK_snoc_complete {L : List Entry} {pk : Nat → Prop} {ow : Nat → Nat → Prop} (y : Nat) (o : Outcome)
    (h : LogOK L pk ow) : LogOK (L ++ [Entry.txComplete y o]) pk ow := by
  intro x ip hip hp hh hm hw
  rw [ipOf_snoc_complete] at hip
  split at hip
  · cases hip
  · exact h x ip hip hp hh hm hw

theorem LogOK_snoc_inert {L : List Entry} {pk : Nat → Prop} {ow : Nat → Nat → Prop} (e : Entry) (he : Inert e)
    (h : LogOK L pk ow) : LogOK (L ++ [e]) pk ow := by
  intro x ip hip
  rw [ipOf_snoc_inert L e he] at hip
  exact h x ip hip

theorem LogOK_walApp {sz : Entry → Nat} {cfg : Cfg} {L L' : List Entry} {e : Entry} {pk : Nat → Prop}
    {ow : Nat → Nat → Prop} (ha : walApp sz cfg L e = some L') (h : LogOK (L ++ [e]) pk ow) : LogOK L' pk ow := by
  rcases walApp_cases ha with rfl | rfl
  · exact h
  · exact LogOK_single e pk ow

theorem LogOK_walTry_inert (sz : Entry → Nat) (cfg : Cfg) {L : List Entry} {pk : Nat → Prop}
    {ow : Nat → Nat → Prop} (e : Entry) (he : Inert e) (h : LogOK L pk ow) : LogOK (walTry sz cfg L e) pk ow := by
  rcases walTry_cases sz cfg L e with h' | h' | h' <;> rw [h']
  · exact LogOK_snoc_inert e he h
  · exact LogOK_single e pk ow
  · exact h

theorem LogOK_walTryAll_inert (sz : Entry → Nat) (cfg : Cfg) (L es : List Entry) {pk : Nat → Prop}
    {ow : Nat → Nat → Prop} (he : ∀ e ∈ es, Inert e) (h : LogOK L pk ow) : LogOK (walTryAll sz cfg L es) pk ow := by
  unfold walTryAll
  induction es generalizing L with
  | nil => exact h
  | cons e es ih =>
    simp only [List.foldl_cons]
    exact ih _ (fun e' he' => he e' (by simp [he'])) (LogOK_walTry_inert sz cfg e (he e (by simp)) h)

/-! ## orphaned locks in the scan of the log -/

theorem mem_orphans (s : Scan) (q : Nat × Nat) :
    q ∈ orphans s ↔ ∃ hs, (q.1, hs) ∈ s.completedHandles ∧ q.1 ∉ s.fullyReleased ∧ q.2 ∈ hs ∧ (q.1, q.2) ∉ s.released := by
  unfold orphans
  simp only [List.mem_flatMap]
  constructor
  · rintro ⟨⟨x, hs⟩, hp, hq⟩
    split at hq
    · simp at hq
    · rename_i hf
      simp only [List.mem_map, List.mem_filter, decide_eq_true_eq] at hq
      obtain ⟨h, ⟨hh, hr⟩, rfl⟩ := hq
      exact ⟨hs, hp, hf, hh, hr⟩
  · rintro ⟨hs, hp, hf, hh, hr⟩
    refine ⟨(q.1, hs), hp, ?_⟩
    simp only [hf, if_false, List.mem_map, List.mem_filter, decide_eq_true_eq]
    exact ⟨q.2, ⟨hh, hr⟩, rfl⟩

def NotComplete (e : Entry) : Prop := ∀ y o, e ≠ Entry.txComplete y o

/-- only a TxComplete record adds orphaned locks -/
theorem orphans_scanStep_other (s : Scan) (e : Entry) (he : NotComplete e) :
    ∀ q ∈ orphans (scanStep s e), q ∈ orphans s := by
  intro q hq
  cases e with
  | txBegin y p => exact hq
  | prepareVote y sh v => exact hq
  | phaseChange y f t => exact hq
  | abortIntent y r sh => exact hq
  | txComplete y o => exact absurd rfl (he y o)
  | lockRelease y h =>
    rw [mem_orphans] at hq ⊢
    obtain ⟨hs, h1, h2, h3, h4⟩ := hq
    simp only [scanStep, List.mem_cons, not_or] at h1 h2 h4
    exact ⟨hs, h1, h2, h3, h4.2⟩
  | allLocksReleased y =>
    rw [mem_orphans] at hq ⊢
    obtain ⟨hs, h1, h2, h3, h4⟩ := hq
    simp only [scanStep, List.mem_cons, not_or] at h1 h2 h4
    exact ⟨hs, h1, h2.2, h3, h4⟩

/-- a TxComplete record orphans (at most) the YES handles the scan holds for that transaction -/
theorem orphans_scanComplete (s : Scan) (y : Nat) :
    ∀ q ∈ orphans (scanComplete s y), q ∈ orphans s ∨
      (q.1 = y ∧ ∃ ip, mLookup y s.inProgress = some ip ∧ q.2 ∈ yesHandles ip.votes) := by
  intro q hq
  rw [mem_orphans] at hq
  obtain ⟨hs, h1, h2, h3, h4⟩ := hq
  have hf : (scanComplete s y).fullyReleased = s.fullyReleased := rfl
  have hr : (scanComplete s y).released = s.released := rfl
  rw [hf] at h2; rw [hr] at h4
  have hold : (q.1, hs) ∈ s.completedHandles → q ∈ orphans s :=
    fun h => (mem_orphans s q).mpr ⟨hs, h, h2, h3, h4⟩
  unfold scanComplete at h1
  simp only at h1
  split at h1
  · rename_i ip hip
    split at h1
    · exact Or.inl (hold h1)
    · rw [mem_mInsert] at h1
      rcases h1 with ⟨hy, rfl⟩ | ⟨h1, _⟩
      · exact Or.inr ⟨hy, ip, hip, h3⟩
      · exact Or.inl (hold h1)
  · exact Or.inl (hold h1)

def OrphOK (L : List Entry) (ow : Nat → Nat → Prop) : Prop :=
  ∀ p ∈ orphans (scan L), p.2 < highWater → ow p.1 p.2

theorem OrphOK_mono {L : List Entry} {ow ow' : Nat → Nat → Prop} (how : ∀ x h, ow x h → ow' x h)
    (h : OrphOK L ow) : OrphOK L ow' := fun p hp hw => how _ _ (h p hp hw)

theorem OrphOK_nil (ow : Nat → Nat → Prop) : OrphOK [] ow := by
  intro p hp; simp [scan, orphans] at hp

theorem OrphOK_single (e : Entry) (ow : Nat → Nat → Prop) : OrphOK [e] ow := by
  intro p hp
  have : orphans (scan [e]) = [] := by cases e <;> rfl
  rw [this] at hp; simp at hp

theorem OrphOK_snoc_other {L : List Entry} {ow : Nat → Nat → Prop} (e : Entry) (he : NotComplete e)
    (h : OrphOK L ow) : OrphOK (L ++ [e]) ow := by
  intro p hp hw
  rw [scan_snoc] at hp
  exact h p (orphans_scanStep_other _ e he p hp) hw

theorem OrphOK_snoc_complete {L : List Entry} {ow : Nat → Nat → Prop} (y : Nat) (o : Outcome)
    (h : OrphOK L ow) (hy : ∀ ip, ipOf L y = some ip → ∀ hh ∈ yesHandles ip.votes, hh < highWater → ow y hh) :
    OrphOK (L ++ [Entry.txComplete y o]) ow := by
  intro p hp hw
  rw [scan_snoc] at hp
  rcases orphans_scanComplete _ y p hp with hp | ⟨hpy, ip, hip, hin⟩
  · exact h p hp hw
  · rw [hpy]; exact hy ip hip p.2 hin hw

theorem OrphOK_walApp_other {sz : Entry → Nat} {cfg : Cfg} {L L' : List Entry} {e : Entry} {ow : Nat → Nat → Prop}
    (ha : walApp sz cfg L e = some L') (he : NotComplete e) (h : OrphOK L ow) : OrphOK L' ow := by
  rcases walApp_cases ha with rfl | rfl
  · exact OrphOK_snoc_other e he h
  · exact OrphOK_single e ow

theorem OrphOK_walApp_complete {sz : Entry → Nat} {cfg : Cfg} {L L' : List Entry} {y : Nat} {o : Outcome}
    {ow : Nat → Nat → Prop} (ha : walApp sz cfg L (Entry.txComplete y o) = some L') (h : OrphOK L ow)
    (hy : ∀ ip, ipOf L y = some ip → ∀ hh ∈ yesHandles ip.votes, hh < highWater → ow y hh) : OrphOK L' ow := by
  rcases walApp_cases ha with rfl | rfl
  · exact OrphOK_snoc_complete y o h hy
  · exact OrphOK_single _ ow

theorem OrphOK_walTry_other (sz : Entry → Nat) (cfg : Cfg) {L : List Entry} {ow : Nat → Nat → Prop} (e : Entry)
    (he : NotComplete e) (h : OrphOK L ow) : OrphOK (walTry sz cfg L e) ow := by
  rcases walTry_cases sz cfg L e with h' | h' | h' <;> rw [h']
  · exact OrphOK_snoc_other e he h
  · exact OrphOK_single e ow
  · exact h

theorem OrphOK_walTryAll_other (sz : Entry → Nat) (cfg : Cfg) (L es : List Entry) {ow : Nat → Nat → Prop}
    (he : ∀ e ∈ es, NotComplete e) (h : OrphOK L ow) : OrphOK (walTryAll sz cfg L es) ow := by
  unfold walTryAll
  induction es generalizing L with
  | nil => exact h
  | cons e es ih =>
    simp only [List.foldl_cons]
    exact ih _ (fun e' he' => he e' (by simp [he'])) (OrphOK_walTry_other sz cfg e (he e (by simp)) h)

theorem notComplete_of_inert (e : Entry) (h : Inert e) : NotComplete e := by
  intro y o he; subst he; simp [Inert] at h

/-! ## the invariant -/

structure HInv (c : Coord) : Prop where
  /-- every handle in the lock table was handed out by the counter -/
  below : ∀ h t, (h, t) ∈ c.locks → h < c.nextHandle
  /-- a handle is held for one transaction -/
  uniq : ∀ h t t', (h, t) ∈ c.locks → (h, t') ∈ c.locks → t = t'
  /-- handles of the YES votes of pending transactions -/
  mem : ∀ x tx, (x, tx) ∈ c.pending → ∀ h ∈ voteHandles tx.votes, h < highWater → Owned c x h
  /-- handles of the decided / pending transactions in the scan of the log -/
  log : LogOK c.log (fun x => x ∈ mKeys c.pending) (Owned c)
  /-- handles of the orphaned locks in the scan of the log (completed, LockRelease not logged) -/
  orph : OrphOK c.log (Owned c)

theorem HInv_fresh (cfg : Cfg) : HInv { cfg := cfg } where
  below := by intro h t hm; simp at hm
  uniq := by intro h t t' hm; simp at hm
  mem := by intro x tx hm; simp at hm
  log := LogOK_nil _ _
  orph := OrphOK_nil _

/-- a call that hands out no handle and adds no lock -/
theorem HInv_of (c c' : Coord) (hi : HInv c) (hn : c.nextHandle ≤ c'.nextHandle)
    (hl : ∀ p ∈ c'.locks, p ∈ c.locks)
    (hp : ∀ x tx, (x, tx) ∈ c'.pending → ∀ h ∈ voteHandles tx.votes, h < highWater → Owned c x h)
    (hlog : LogOK c'.log (fun x => x ∈ mKeys c'.pending) (Owned c))
    (horph : OrphOK c'.log (Owned c)) : HInv c' where
  below := fun h t hm => Nat.lt_of_lt_of_le (hi.below h t (hl _ hm)) hn
  uniq := fun h t t' h1 h2 => hi.uniq h t t' (hl _ h1) (hl _ h2)
  mem := fun x tx hm h hh hw => Owned_mono hn hl (hp x tx hm h hh hw)
  log := LogOK_mono (fun _ h => h) (fun _ _ ho => Owned_mono hn hl ho) hlog
  orph := OrphOK_mono (fun _ _ ho => Owned_mono hn hl ho) horph

theorem mem_keys_of_mem {α : Type} (m : List (Nat × α)) (x : Nat) (v : α) (h : (x, v) ∈ m) : x ∈ mKeys m := by
  simp only [mKeys, List.mem_map]; exact ⟨(x, v), h, rfl⟩

theorem releaseAll_sub (hs : List Nat) (l : List (Nat × Nat)) : ∀ p ∈ releaseAll hs l, p ∈ l :=
  fun p hp => ((mem_releaseAll hs l p).mp hp).1

/-- side conditions of the counter: `try_lock` returns the value of the counter, and a YES vote
    carries a handle the lock table holds for the voting transaction (as `handle_prepare` takes it)
    or one no lock manager hands out -/
def VoteOwn (c : Coord) (id : Nat) : Vote → Prop
  | .yes h => highWater ≤ h ∨ (h, id) ∈ c.locks
  | _ => True

def CounterOK (c : Coord) : Step → Prop
  | .lock _ h => h = c.nextHandle
  | .vote id _ v _ => VoteOwn c id v
  | _ => True

def CounterRun (crc : List Nat → Nat) (ser : Entry → List Nat) (de : List Nat → Option Entry) :
    Coord → List Step → Prop
  | _, [] => True
  | c, s :: ss => CounterOK c s ∧ CounterRun crc ser de (step crc ser de c s).1 ss

theorem HInv_lock (c : Coord) (tx : Nat) (hi : HInv c) : HInv (lockAcquire c tx c.nextHandle).1 where
  below := by
    intro h t hm
    simp only [lockAcquire, List.mem_cons, Prod.mk.injEq] at hm ⊢
    rcases hm with ⟨rfl, _⟩ | hm
    · omega
    · have := hi.below h t hm; omega
  uniq := by
    intro h t t' h1 h2
    simp only [lockAcquire, List.mem_cons, Prod.mk.injEq] at h1 h2
    rcases h1 with ⟨rfl, rfl⟩ | h1 <;> rcases h2 with ⟨h2a, h2b⟩ | h2
    · exact h2b.symm
    · exact absurd (hi.below _ _ h2) (Nat.lt_irrefl _)
    · subst h2a; exact absurd (hi.below _ _ h1) (Nat.lt_irrefl _)
    · exact hi.uniq h t t' h1 h2
  mem := by
    intro x t hm h hh hw
    have ho := hi.mem x t hm h hh hw
    refine ⟨by simp only [lockAcquire]; have := ho.1; omega, ?_⟩
    intro t' ht'
    simp only [lockAcquire, List.mem_cons, Prod.mk.injEq] at ht'
    rcases ht' with ⟨rfl, _⟩ | ht'
    · exact absurd ho.1 (Nat.lt_irrefl _)
    · exact ho.2 t' ht'
  log := by
    intro x ip hip hp h hh hw
    have ho := hi.log x ip hip hp h hh hw
    refine ⟨by simp only [lockAcquire]; have := ho.1; omega, ?_⟩
    intro t' ht'
    simp only [lockAcquire, List.mem_cons, Prod.mk.injEq] at ht'
    rcases ht' with ⟨rfl, _⟩ | ht'
    · exact absurd ho.1 (Nat.lt_irrefl _)
    · exact ho.2 t' ht'
  orph := by
    intro p hp hw
    have ho := hi.orph p hp hw
    refine ⟨by simp only [lockAcquire]; have := ho.1; omega, ?_⟩
    intro t' ht'
    simp only [lockAcquire, List.mem_cons, Prod.mk.injEq] at ht'
    rcases ht' with ⟨h1, _⟩ | ht'
    · rw [h1] at ho; exact absurd ho.1 (Nat.lt_irrefl _)
    · exact ho.2 t' ht'

theorem HInv_begin (sz : Entry → Nat) (c : Coord) (id : Nat) (parts : List Nat) (now : Nat) (hi : HInv c) :
    HInv (begin sz c id parts now).1 := by
  unfold begin
  split
  · exact hi
  · split
    · exact hi
    · rename_i l ha
      refine HInv_of c _ hi (Nat.le_refl _) (fun _ h => h) ?_ ?_
        (OrphOK_walApp_other ha (fun _ _ he => by cases he) hi.orph)
      · intro x tx hm h hh hw
        simp only at hm
        rw [mem_mInsert] at hm
        rcases hm with ⟨_, rfl⟩ | ⟨hm, _⟩
        · simp [voteHandles] at hh
        · exact hi.mem x tx hm h hh hw
      · simp only
        refine LogOK_walApp ha (LogOK_snoc_begin id parts hi.log ?_)
        intro x hx
        rw [mem_mKeys_mInsert] at hx
        rcases hx with rfl | ⟨hx, _⟩
        · exact Or.inr rfl
        · exact Or.inl hx

theorem voteHandles_mInsert (shard : Nat) (v : Vote) (vs : List (Nat × Vote)) (h : Nat)
    (hh : h ∈ voteHandles (mInsert shard v vs)) : v = .yes h ∨ h ∈ voteHandles vs := by
  simp only [voteHandles, mInsert, mErase, List.filterMap_cons, List.mem_filterMap] at hh ⊢
  cases v with
  | yes h' =>
    simp only [List.mem_cons, List.mem_filterMap, List.mem_filter] at hh
    rcases hh with rfl | ⟨p, ⟨hp, _⟩, hq⟩
    · exact Or.inl rfl
    · exact Or.inr ⟨p, hp, hq⟩
  | no =>
    simp only [List.mem_filterMap, List.mem_filter] at hh
    obtain ⟨p, ⟨hp, _⟩, hq⟩ := hh
    exact Or.inr ⟨p, hp, hq⟩
  | conflict =>
    simp only [List.mem_filterMap, List.mem_filter] at hh
    obtain ⟨p, ⟨hp, _⟩, hq⟩ := hh
    exact Or.inr ⟨p, hp, hq⟩

theorem HInv_recordVote (sz : Entry → Nat) (c : Coord) (id shard : Nat) (v : Vote) (x : Bool) (hi : HInv c)
    (hv : VoteOwn c id v) : HInv (recordVote sz c id shard v x).1 := by
  -- the handle of the vote is the voting transaction's
  have hown : ∀ h, v = .yes h → h < highWater → Owned c id h := by
    intro h he hw
    subst he
    rcases hv with hv | hv
    · omega
    · exact ⟨hi.below _ _ hv, fun t ht => hi.uniq _ _ _ ht hv⟩
  unfold recordVote
  split
  · exact hi
  · rename_i l ha
    have hl0 : LogOK l (fun x => x ∈ mKeys c.pending) (Owned c) := by
      refine LogOK_walApp ha (LogOK_snoc_vote id shard v.kind hi.log ?_)
      intro h he hw
      apply hown h _ hw
      cases v <;> simp [Vote.kind] at he ⊢
      exact he
    have ho0 : OrphOK l (Owned c) := OrphOK_walApp_other ha (fun _ _ he => by cases he) hi.orph
    have base : ∀ (l' : List Entry) (p' : List (Nat × Tx)) (pa : List (Nat × (String × List Nat))),
        LogOK l' (fun x => x ∈ mKeys c.pending) (Owned c) → OrphOK l' (Owned c) →
        (∀ y t, (y, t) ∈ p' → (y, t) ∈ c.pending ∨
            (y = id ∧ ∃ t0, (id, t0) ∈ c.pending ∧ ∀ h ∈ voteHandles t.votes, h ∈ voteHandles (mInsert shard v t0.votes))) →
        HInv { c with log := l', pending := p', pendingAborts := pa } := by
      intro l' p' pa hl' ho' hp'
      refine HInv_of c _ hi (Nat.le_refl _) (fun _ h => h) ?_ ?_ ho'
      · intro y t hm h hh hw
        rcases hp' y t hm with hm | ⟨rfl, t0, ht0, hsub⟩
        · exact hi.mem y t hm h hh hw
        · rcases voteHandles_mInsert shard v t0.votes h (hsub h hh) with he | hin
          · exact hown h he hw
          · exact hi.mem _ t0 ht0 h hin hw
      · refine LogOK_mono ?_ (fun _ _ h => h) hl'
        intro y hy
        simp only [mKeys, List.mem_map] at hy
        obtain ⟨⟨y', t⟩, hm, rfl⟩ := hy
        rcases hp' y' t hm with hm | ⟨rfl, t0, ht0, _⟩
        · exact mem_keys_of_mem _ _ _ hm
        · exact mem_keys_of_mem _ _ _ ht0
    simp only
    split
    · exact base l c.pending c.pendingAborts hl0 ho0 (fun _ _ h => Or.inl h)
    · rename_i tx hl
      have htx := mLookup_some_mem _ _ _ hl
      have hins : ∀ (t' : Tx), t'.votes = mInsert shard v tx.votes → ∀ y t, (y, t) ∈ mInsert id t' c.pending →
          (y, t) ∈ c.pending ∨ (y = id ∧ ∃ t0, (id, t0) ∈ c.pending ∧
            ∀ h ∈ voteHandles t.votes, h ∈ voteHandles (mInsert shard v t0.votes)) := by
        intro t' ht' y t hm
        rw [mem_mInsert] at hm
        rcases hm with ⟨rfl, rfl⟩ | ⟨hm, _⟩
        · exact Or.inr ⟨rfl, tx, htx, fun h hh => by rw [← ht']; exact hh⟩
        · exact Or.inl hm
      split
      · exact base l c.pending c.pendingAborts hl0 ho0 (fun _ _ h => Or.inl h)
      · split
        · exact base l c.pending c.pendingAborts hl0 ho0 (fun _ _ h => Or.inl h)
        · split
          · split
            · split
              · exact base _ _ _ hl0 ho0 (hins _ rfl)
              · split
                · exact base _ _ _ hl0 ho0 (hins _ rfl)
                · rename_i l2 ha2
                  refine base _ _ _ ?_ (OrphOK_walApp_other ha2 (fun _ _ he => by cases he) ho0) (hins _ rfl)
                  exact LogOK_walApp ha2 (LogOK_snoc_phase id _ _ hl0 (mem_keys_of_mem _ _ _ htx))
            · exact base _ _ _ hl0 ho0 (hins _ rfl)
          · exact base _ _ _ hl0 ho0 (hins _ rfl)

theorem inert_release (id h : Nat) : Inert (Entry.lockRelease id h) := by simp [Inert]
theorem inert_allReleased (id : Nat) : Inert (Entry.allLocksReleased id) := by simp [Inert]

theorem HInv_commit (sz : Entry → Nat) (c : Coord) (id : Nat) (hi : HInv c) : HInv (commit sz c id).1 := by
  unfold commit
  split
  · exact hi
  · rename_i tx hl
    have htx := mLookup_some_mem _ _ _ hl
    have hk := mem_keys_of_mem _ _ _ htx
    split
    · exact hi
    · split
      · exact hi
      · rename_i l1 ha1
        have hl1 : LogOK l1 (fun x => x ∈ mKeys c.pending) (Owned c) :=
          LogOK_walApp ha1 (LogOK_snoc_phase id _ _ hi.log hk)
        have ho1 : OrphOK l1 (Owned c) := OrphOK_walApp_other ha1 (fun _ _ he => by cases he) hi.orph
        split
        · refine HInv_of c _ hi (Nat.le_refl _) (fun _ h => h) ?_ ?_ ho1
          · intro y t hm h hh hw
            simp only at hm
            rw [mem_mInsert] at hm
            rcases hm with ⟨rfl, rfl⟩ | ⟨hm, _⟩
            · exact hi.mem _ tx htx h hh hw
            · exact hi.mem y t hm h hh hw
          · exact LogOK_mono (fun y hy => keys_insert_existing _ _ _ _ _ hl hy) (fun _ _ h => h) hl1
        · rename_i l2 ha2
          have ho2 : OrphOK l2 (Owned c) :=
            OrphOK_walApp_complete ha2 ho1 (fun ip hip hh hin hw => hl1 id ip hip (Or.inr hk) hh hin hw)
          refine HInv_of c _ hi (Nat.le_refl _) (releaseAll_sub _ _) ?_ ?_ ?_
          · intro y t hm h hh hw
            simp only at hm
            exact hi.mem y t ((mem_mErase _ _ _ _).mp hm).1 h hh hw
          · simp only
            refine LogOK_mono (fun y hy => ((mem_mKeys_mErase _ _ _).mp hy).1) (fun _ _ h => h) ?_
            exact LogOK_walTry_inert sz c.cfg _ (inert_allReleased id)
              (LogOK_walTryAll_inert sz c.cfg _ _ (inert_releases id _)
                (LogOK_walApp ha2 (LogOK_snoc_complete id _ hl1)))
          · simp only
            exact OrphOK_walTry_other sz c.cfg _ (notComplete_of_inert _ (inert_allReleased id))
              (OrphOK_walTryAll_other sz c.cfg _ _
                (fun e he => notComplete_of_inert e (inert_releases id _ e he)) ho2)

theorem HInv_abort (sz : Entry → Nat) (c : Coord) (id : Nat) (hi : HInv c) : HInv (abort sz c id).1 := by
  unfold abort
  split
  · exact hi
  · rename_i tx hl
    have htx := mLookup_some_mem _ _ _ hl
    have hk := mem_keys_of_mem _ _ _ htx
    split
    · exact hi
    · rename_i l1 ha1
      have hl1 : LogOK l1 (fun x => x ∈ mKeys c.pending) (Owned c) :=
        LogOK_walApp ha1 (LogOK_snoc_phase id _ _ hi.log hk)
      have ho1 : OrphOK l1 (Owned c) := OrphOK_walApp_other ha1 (fun _ _ he => by cases he) hi.orph
      split
      · refine HInv_of c _ hi (Nat.le_refl _) (fun _ h => h) ?_ ?_ ho1
        · intro y t hm h hh hw
          simp only at hm
          rw [mem_mInsert] at hm
          rcases hm with ⟨rfl, rfl⟩ | ⟨hm, _⟩
          · exact hi.mem _ tx htx h hh hw
          · exact hi.mem y t hm h hh hw
        · exact LogOK_mono (fun y hy => keys_insert_existing _ _ _ _ _ hl hy) (fun _ _ h => h) hl1
      · rename_i l2 ha2
        refine HInv_of c _ hi (Nat.le_refl _) (releaseAll_sub _ _) ?_ ?_
          (OrphOK_walApp_complete ha2 ho1 (fun ip hip hh hin hw => hl1 id ip hip (Or.inr hk) hh hin hw))
        · intro y t hm h hh hw
          simp only at hm
          exact hi.mem y t ((mem_mErase _ _ _ _).mp hm).1 h hh hw
        · simp only
          refine LogOK_mono (fun y hy => ((mem_mKeys_mErase _ _ _).mp hy).1) (fun _ _ h => h) ?_
          exact LogOK_walApp ha2 (LogOK_snoc_complete id _ hl1)

/-- memory-only calls that drop pending transactions and release locks -/
theorem HInv_drop (c c' : Coord) (hi : HInv c) (hn : c'.nextHandle = c.nextHandle) (hlog : c'.log = c.log)
    (hl : ∀ p ∈ c'.locks, p ∈ c.locks)
    (hp : ∀ x tx, (x, tx) ∈ c'.pending → ∃ tx0, (x, tx0) ∈ c.pending ∧ tx.votes = tx0.votes) : HInv c' := by
  refine HInv_of c c' hi (by rw [hn]; exact Nat.le_refl _) hl ?_ ?_ (by rw [hlog]; exact hi.orph)
  · intro x tx hm h hh hw
    obtain ⟨tx0, h0, hv⟩ := hp x tx hm
    rw [hv] at hh
    exact hi.mem x tx0 h0 h hh hw
  · rw [hlog]
    refine LogOK_mono ?_ (fun _ _ h => h) hi.log
    intro y hy
    simp only [mKeys, List.mem_map] at hy
    obtain ⟨⟨y', t⟩, hm, rfl⟩ := hy
    obtain ⟨tx0, h0, _⟩ := hp y' t hm
    exact mem_keys_of_mem _ _ _ h0

theorem HInv_completeCommit (c : Coord) (id : Nat) (hi : HInv c) : HInv (completeCommit c id).1 := by
  unfold completeCommit
  split
  · exact hi
  · split
    · exact hi
    · exact HInv_drop c _ hi rfl rfl (releaseAll_sub _ _)
        (fun x tx hm => ⟨tx, ((mem_mErase _ _ _ _).mp hm).1, rfl⟩)

theorem HInv_completeAbort (c : Coord) (id : Nat) (hi : HInv c) : HInv (completeAbort c id).1 := by
  unfold completeAbort
  split
  · exact hi
  · split
    · exact hi
    · exact HInv_drop c _ hi rfl rfl (releaseAll_sub _ _)
        (fun x tx hm => ⟨tx, ((mem_mErase _ _ _ _).mp hm).1, rfl⟩)

theorem HInv_forceResolve (c : Coord) (id : Nat) (b : Bool) (hi : HInv c) : HInv (forceResolve c id b).1 := by
  unfold forceResolve
  split
  · exact hi
  · split
    · exact hi
    · exact HInv_drop c _ hi rfl rfl (releaseAll_sub _ _)
        (fun x tx hm => ⟨tx, ((mem_mErase _ _ _ _).mp hm).1, rfl⟩)

theorem HInv_cleanup (c : Coord) (now : Nat) (hi : HInv c) : HInv (cleanupTimeouts c now).1 := by
  unfold cleanupTimeouts
  exact HInv_drop c _ hi rfl rfl (releaseAll_sub _ _)
    (fun x tx hm => ⟨tx, (List.mem_filter.mp hm).1, rfl⟩)

theorem recoverTx_votes (now : Nat) (t : Tx) : (recoverTx now t).votes = t.votes := by
  unfold recoverTx
  split
  · split <;> rfl
  · split
    · rfl
    · split <;> rfl
  · rfl

theorem HInv_recoverMem (c : Coord) (now : Nat) (hi : HInv c) : HInv (recoverMem c now).1 := by
  unfold recoverMem
  refine HInv_drop c _ hi rfl rfl (releaseAll_sub _ _) ?_
  intro x tx hm
  simp only [List.mem_map, List.mem_filter] at hm
  obtain ⟨⟨y, t⟩, ⟨hp, _⟩, he⟩ := hm
  simp only [Prod.mk.injEq] at he
  obtain ⟨rfl, rfl⟩ := he
  exact ⟨t, hp, recoverTx_votes now t⟩

theorem HInv_flush (sz : Entry → Nat) (c : Coord) (hi : HInv c) : HInv (flushAborts sz c).1 := by
  unfold flushAborts
  have hin : ∀ e ∈ c.pendingAborts.map (fun p => Entry.abortIntent p.1 p.2.1 p.2.2), Inert e := by
    intro e he
    simp only [List.mem_map] at he
    obtain ⟨p, _, rfl⟩ := he
    simp [Inert]
  exact HInv_of c _ hi (Nat.le_refl _) (fun _ h => h) (fun x tx hm => hi.mem x tx hm)
    (LogOK_walTryAll_inert sz c.cfg _ _ hin hi.log)
    (OrphOK_walTryAll_other sz c.cfg _ _ (fun e he => notComplete_of_inert e (hin e he)) hi.orph)

/-! ## `recover_from_wal` -/

theorem voteHandles_restore (vs : List (Nat × VoteKind)) (h : Nat)
    (hh : h ∈ voteHandles (vs.foldl (fun m p => mInsert p.1 p.2.restore m) [])) : h ∈ yesHandles vs := by
  simp only [voteHandles, List.mem_filterMap] at hh
  obtain ⟨⟨s, w⟩, hm, hq⟩ := hh
  rcases mem_fold_restore vs [] s w hm with hm | ⟨k, hk, rfl⟩
  · simp at hm
  · simp only [yesHandles, List.mem_filterMap]
    refine ⟨(s, k), hk, ?_⟩
    cases k <;> simp [VoteKind.restore] at hq ⊢
    exact hq

/-- what `recover_from_wal` leaves pending: what was pending, or a decided transaction of the
    scan restored with (a sub-list of) its logged handles -/
theorem recover_pending (c : Coord) (now : Nat) (x : Nat) (tx : Tx)
    (hm : (x, tx) ∈ (recoverFromWal c now).1.pending) :
    (x, tx) ∈ c.pending ∨ ∃ ip, ipOf c.log x = some ip ∧ Decided ip.phase ∧
      ∀ h ∈ voteHandles tx.votes, h ∈ yesHandles ip.votes := by
  unfold recoverFromWal at hm
  simp only [fromEntries, recoveryOf] at hm
  have fin : ∀ (ph : Phase) (r : RecTx), r ∈ classify (scan c.log).inProgress ph → r.tx = x →
      tx = restoreTx r ph now → Decided ph →
      ∃ ip, ipOf c.log x = some ip ∧ Decided ip.phase ∧ ∀ h ∈ voteHandles tx.votes, h ∈ yesHandles ip.votes := by
    intro ph r hr hx ht hph
    obtain ⟨i, hi, hip, _, h2⟩ := (mem_classify _ _ _).mp hr
    rw [hx] at hi
    refine ⟨i, (ipOf_iff_mem _ _ _).mpr hi, by rw [hip]; exact hph, ?_⟩
    intro h hh
    rw [ht] at hh
    simp only [restoreTx] at hh
    rw [← h2]
    exact voteHandles_restore _ h hh
  rcases mem_restoreAll _ _ _ _ _ _ hm with hm | ⟨r, hr, hx, ht⟩
  · rcases mem_restoreAll _ _ _ _ _ _ hm with hm | ⟨r, hr, hx, ht⟩
    · rcases mem_restoreAll _ _ _ _ _ _ hm with hm | ⟨r, hr, hx, ht⟩
      · exact Or.inl hm
      · exact Or.inr (fin _ r hr hx ht (Or.inl rfl))
    · exact Or.inr (fin _ r hr hx ht (Or.inr (Or.inl rfl)))
  · exact Or.inr (fin _ r hr hx ht (Or.inr (Or.inr rfl)))

/-- **the fix**: after `recover_from_wal` the counter is past every handle (below the high-water
    mark) of every decided transaction in the scan of the log -/
theorem recover_counter_past_decided (c : Coord) (now : Nat) (x : Nat) (ip : InProg)
    (hip : ipOf c.log x = some ip) (hd : Decided ip.phase) (h : Nat) (hh : h ∈ yesHandles ip.votes)
    (hw : h < highWater) : h < (recoverFromWal c now).1.nextHandle := by
  simp only [recoverFromWal]
  apply bumpCounter_gt _ _ h _ hw
  have hmem := (ipOf_iff_mem _ _ _).mp hip
  have hr : (⟨x, ip.parts, ip.votes⟩ : RecTx) ∈ classify (scan c.log).inProgress ip.phase :=
    (mem_classify _ _ _).mpr ⟨ip, hmem, rfl, rfl, rfl⟩
  simp only [Recovery.handles, fromEntries, recoveryOf, List.mem_append, List.mem_flatMap]
  left
  refine ⟨⟨x, ip.parts, ip.votes⟩, ?_, hh⟩
  rcases hd with hd | hd | hd <;> rw [hd] at hr
  · exact Or.inl (Or.inl hr)
  · exact Or.inl (Or.inr hr)
  · exact Or.inr hr

theorem recover_counter_past_orphans (c : Coord) (now : Nat) (p : Nat × Nat)
    (hp : p ∈ (fromEntries c.log).orphaned) (hw : p.2 < highWater) :
    p.2 < (recoverFromWal c now).1.nextHandle := by
  simp only [recoverFromWal]
  apply bumpCounter_gt _ _ p.2 _ hw
  simp only [Recovery.handles, List.mem_append, List.mem_map]
  exact Or.inr ⟨p, hp, rfl⟩

theorem recover_counter_ge (c : Coord) (now : Nat) : c.nextHandle ≤ (recoverFromWal c now).1.nextHandle := by
  simp only [recoverFromWal]; exact bumpCounter_ge _ _

theorem recover_locks_sub (c : Coord) (now : Nat) : ∀ p ∈ (recoverFromWal c now).1.locks, p ∈ c.locks := by
  simp only [recoverFromWal]; exact releaseAll_sub _ _

theorem HInv_recover (c : Coord) (now : Nat) (hi : HInv c) : HInv (recoverFromWal c now).1 := by
  refine HInv_of c _ hi (recover_counter_ge c now) (recover_locks_sub c now) ?_ ?_ hi.orph
  · intro x tx hm h hh hw
    rcases recover_pending c now x tx hm with hm | ⟨ip, hip, hd, hsub⟩
    · exact hi.mem x tx hm h hh hw
    · exact hi.log x ip hip (Or.inl hd) h (hsub h hh) hw
  · have hlog : (recoverFromWal c now).1.log = c.log := rfl
    rw [hlog]
    intro x ip hip hp h hh hw
    rcases hp with hd | hk
    · exact hi.log x ip hip (Or.inl hd) h hh hw
    · simp only [mKeys, List.mem_map] at hk
      obtain ⟨⟨y, t⟩, hm, rfl⟩ := hk
      rcases recover_pending c now y t hm with hm | ⟨ip', hip', hd, _⟩
      · exact hi.log y ip hip (Or.inr (mem_keys_of_mem _ _ _ hm)) h hh hw
      · rw [hip] at hip'
        cases hip'
        exact hi.log y ip hip (Or.inl hd) h hh hw

theorem releaseAll_nil (hs : List Nat) : releaseAll hs [] = [] := by
  unfold releaseAll
  induction hs with
  | nil => rfl
  | cons a hs ih => simpa [release] using ih

/-- a restart on ANY log establishes the invariant -/
theorem HInv_restartLog (cfg : Cfg) (es : List Entry) (now : Nat) : HInv (restartLog cfg es now) := by
  have hlocks : (restartLog cfg es now).locks = [] := by
    simp only [restartLog, recoverFromWal]; exact releaseAll_nil _
  have hdec : ∀ x ip, ipOf es x = some ip → Decided ip.phase → ∀ h ∈ yesHandles ip.votes, h < highWater →
      Owned (restartLog cfg es now) x h := by
    intro x ip hip hd h hh hw
    refine ⟨recover_counter_past_decided { cfg := cfg, log := es } now x ip hip hd h hh hw, ?_⟩
    intro t ht; rw [hlocks] at ht; simp at ht
  exact {
    below := by intro h t hm; rw [hlocks] at hm; simp at hm
    uniq := by intro h t t' hm; rw [hlocks] at hm; simp at hm
    mem := by
      intro x tx hm h hh hw
      rcases recover_pending { cfg := cfg, log := es } now x tx hm with hm | ⟨ip, hip, hd, hsub⟩
      · simp at hm
      · exact hdec x ip hip hd h (hsub h hh) hw
    log := by
      have hlog : (restartLog cfg es now).log = es := rfl
      rw [hlog]
      intro x ip hip hp h hh hw
      rcases hp with hd | hk
      · exact hdec x ip hip hd h hh hw
      · simp only [mKeys, List.mem_map] at hk
        obtain ⟨⟨y, t⟩, hm, rfl⟩ := hk
        rcases recover_pending { cfg := cfg, log := es } now y t hm with hm | ⟨ip', hip', hd, _⟩
        · simp at hm
        · have hip'' : ipOf es y = some ip' := hip'
          rw [hip] at hip''
          cases hip''
          exact hdec y ip hip hd h hh hw
    orph := by
      intro p hp hw
      refine ⟨recover_counter_past_orphans { cfg := cfg, log := es } now p hp hw, ?_⟩
      intro t ht; rw [hlocks] at ht; simp at ht }

/-! ## runs -/

theorem HInv_step (crc : List Nat → Nat) (ser : Entry → List Nat) (de : List Nat → Option Entry)
    (c : Coord) (s : Step) (hi : HInv c) (hs : CounterOK c s) : HInv (step crc ser de c s).1 := by
  cases s with
  | lock tx h =>
    have : h = c.nextHandle := hs
    subst this
    exact HInv_lock c tx hi
  | «begin» id parts now => exact HInv_begin _ c id parts now hi
  | vote id shard v x => exact HInv_recordVote _ c id shard v x hi hs
  | commit id => exact HInv_commit _ c id hi
  | abort id => exact HInv_abort _ c id hi
  | completeCommit id => exact HInv_completeCommit c id hi
  | completeAbort id => exact HInv_completeAbort c id hi
  | cleanup now => exact HInv_cleanup c now hi
  | flushAborts => exact HInv_flush _ c hi
  | recover now => exact HInv_recover c now hi
  | recoverMem now => exact HInv_recoverMem c now hi
  | decisions => exact hi
  | forceResolve id b => exact HInv_forceResolve c id b hi
  | truncate =>
    exact HInv_of c _ hi (Nat.le_refl _) (fun _ h => h) (fun x tx hm => hi.mem x tx hm) (LogOK_nil _ _) (OrphOK_nil _)
  | crash n now cfg =>
    simp only [step]
    cases hr : restartBytes crc de cfg ((fileOf crc ser c.log).take n) now with
    | none => exact HInv_fresh cfg
    | some c' =>
      simp only [restartBytes, Option.map_eq_some_iff] at hr
      obtain ⟨es, _, rfl⟩ := hr
      exact HInv_restartLog cfg es now

theorem HInv_run (crc : List Nat → Nat) (ser : Entry → List Nat) (de : List Nat → Option Entry)
    (c : Coord) (ss : List Step) (hi : HInv c) (hv : CounterRun crc ser de c ss) :
    HInv (run crc ser de c ss) := by
  induction ss generalizing c with
  | nil => exact hi
  | cons s ss ih =>
    rw [run_cons]
    exact ih _ (HInv_step crc ser de c s hi hv.1) hv.2

/-! ## decidability helpers for the concrete examples -/

instance (c : Coord) (id : Nat) (v : Vote) : Decidable (VoteOwn c id v) := by
  cases v <;> (unfold VoteOwn; infer_instance)

instance (c : Coord) (s : Step) : Decidable (CounterOK c s) := by
  cases s <;> (unfold CounterOK; infer_instance)

instance decCounterRun (crc : List Nat → Nat) (ser : Entry → List Nat) (de : List Nat → Option Entry) :
    (c : Coord) → (ss : List Step) → Decidable (CounterRun crc ser de c ss)
  | _, [] => isTrue trivial
  | c, s :: ss =>
    have := decCounterRun crc ser de (step crc ser de c s).1 ss
    by unfold CounterRun; infer_instance

end Neumann.TxWal
