import NeumannModel.TxWal.LemmasSync
import NeumannModel.TxWal.LemmasHandles
/-
  `recover_from_wal` called on a RUNNING coordinator: the pending map afterwards is the map a
  restart on the same log would build, laid over the map the coordinator held.
-/
namespace Neumann.TxWal

/-- `restoreAll` inserts into whatever map it is given: if `a` is `top` laid over `base` at key
    `x`, the same holds after the same records have been restored into `a` and into `top` -/
theorem restoreAll_overlay (rs : List RecTx) (ph : Phase) (now x : Nat) (a top base : List (Nat × Tx))
    (h : mLookup x a = (mLookup x top).or (mLookup x base)) :
    mLookup x (restoreAll rs ph now a) = (mLookup x (restoreAll rs ph now top)).or (mLookup x base) := by
  induction rs generalizing a top with
  | nil => exact h
  | cons r rs ih =>
    simp only [restoreAll, List.foldl_cons] at ih ⊢
    apply ih
    rw [mLookup_mInsert, mLookup_mInsert]
    split
    · rfl
    · exact h

/-- the pending map after a recovery call = the map of a restart on the same log, over the map
    the coordinator held before the call -/
theorem recoverFromWal_pending (c : Coord) (now x : Nat) :
    mLookup x (recoverFromWal c now).1.pending
      = (mLookup x (restartLog c.cfg c.log now).pending).or (mLookup x c.pending) := by
  simp only [recoverFromWal, restartLog]
  apply restoreAll_overlay
  apply restoreAll_overlay
  apply restoreAll_overlay
  rfl

theorem recoverFromWal_log (c : Coord) (now : Nat) : (recoverFromWal c now).1.log = c.log := rfl
theorem recoverFromWal_cfg (c : Coord) (now : Nat) : (recoverFromWal c now).1.cfg = c.cfg := rfl

/-- a restart restores `x` only if the log shows it Prepared / Committing / Aborting -/
def LogRestores (L : List Entry) (x : Nat) : Prop :=
  ∃ ip, (x, ip) ∈ (scan L).inProgress ∧ (ip.phase = .prepared ∨ ip.phase = .committing ∨ ip.phase = .aborting)

theorem restart_none_of_not_restored (cfg : Cfg) (L : List Entry) (now x : Nat) (h : ¬ LogRestores L x) :
    mLookup x (restartLog cfg L now).pending = none := by
  cases hl : mLookup x (restartLog cfg L now).pending with
  | none => rfl
  | some tx =>
    obtain ⟨ip, hm, hp, _⟩ := restart_pending cfg L now x tx hl
    exact absurd ⟨ip, hm, hp⟩ h

/-- `recover_from_wal` called any number of times in a row on the running coordinator -/
def recoverCalls (c : Coord) (nows : List Nat) : Coord := nows.foldl (fun c n => (recoverFromWal c n).1) c

theorem recoverCalls_log (c : Coord) (nows : List Nat) : (recoverCalls c nows).log = c.log := by
  induction nows generalizing c with
  | nil => rfl
  | cons n ns ih => simp only [recoverCalls, List.foldl_cons] at ih ⊢; rw [ih]; rfl

theorem recoverCalls_keeps (c : Coord) (nows : List Nat) (x : Nat) (h : ¬ LogRestores c.log x) :
    mLookup x (recoverCalls c nows).pending = mLookup x c.pending := by
  induction nows generalizing c with
  | nil => rfl
  | cons n ns ih =>
    simp only [recoverCalls, List.foldl_cons] at ih ⊢
    rw [ih (recoverFromWal c n).1 h, recoverFromWal_pending,
      restart_none_of_not_restored c.cfg c.log n x h]
    rfl

theorem recoverCalls_isSome (c : Coord) (nows : List Nat) (x : Nat) (h : (mLookup x c.pending).isSome) :
    (mLookup x (recoverCalls c nows).pending).isSome := by
  induction nows generalizing c with
  | nil => exact h
  | cons n ns ih =>
    simp only [recoverCalls, List.foldl_cons] at ih ⊢
    apply ih
    rw [recoverFromWal_pending]
    cases mLookup x (restartLog c.cfg c.log n).pending with
    | none => exact h
    | some t => rfl

/-- every lock in the lock table belongs to a transaction the coordinator knows -/
def LocksKnown (c : Coord) : Prop := ∀ p ∈ c.locks, (mLookup p.2 c.pending).isSome

theorem recoverFromWal_locks_sub (c : Coord) (now : Nat) : ∀ p ∈ (recoverFromWal c now).1.locks, p ∈ c.locks :=
  fun p hp => releaseAll_sub _ _ p hp

theorem LocksKnown_recoverFromWal (c : Coord) (now : Nat) (h : LocksKnown c) : LocksKnown (recoverFromWal c now).1 := by
  intro p hp
  have := h p (recoverFromWal_locks_sub c now p hp)
  exact recoverCalls_isSome c [now] p.2 this

theorem LocksKnown_recoverCalls (c : Coord) (nows : List Nat) (h : LocksKnown c) : LocksKnown (recoverCalls c nows) := by
  induction nows generalizing c with
  | nil => exact h
  | cons n ns ih =>
    simp only [recoverCalls, List.foldl_cons] at ih ⊢
    exact ih _ (LocksKnown_recoverFromWal c n h)

end Neumann.TxWal
