import NeumannModel.TxWal.DemoWide
import NeumannModel.TxWal.Props
/-
  C13 — the write side and the read side of the coordinator's WAL accept the same records.

  `TxWal::append` has no per-record size limit (only `max_size_bytes` of the whole file) and
  `TxWal::replay` has none either: every record whose append was acknowledged is replayed,
  whatever its size (a `TxBegin` over tens of thousands of participant shards is > 64 KiB, an
  `AbortIntent` for them as well).  The theorems of `Props.lean` already hold for EVERY `ser`, i.e.
  for every assignment of payload lengths; here the agreement is stated on its own, at the level
  of frames, of one append, and of a restart, together with the contrast: a replay that refuses
  frames longer than some cap (`replayCapped`, NOT the code) agrees with `replay` exactly as long
  as every record is short — which is why ordinary logs never show the difference — and from the
  first longer record on hides every later record, TxComplete records included, so that a logged
  commit is reversed after a restart (`replayCapped_reverses_logged_commit_witness`).
  ONLY property theorems and their non-vacuity examples; helpers are in `LemmasReplay.lean`.
-/
namespace Neumann.TxWal.PropsReplay
open Neumann.TxWal Neumann.FramedLog Neumann.TxWal.Demo

variable (crc : List Nat → Nat) (ser : Entry → List Nat) (de : List Nat → Option Entry)

/-! ### frames -/

/-- **Replay accepts the frame append writes for a payload of ANY length.**  The only conditions on
    the payload are the ones the writer guarantees: its length fits the 4-byte length field, the
    checksum is a `u32`, bitcode decodes it.  Whatever follows the frame is then read exactly as
    if the frame were not there: a long record never ends the replay. -/
theorem replay_accepts_frames_of_any_length (p rest : List Nat)
    (hlen : p.length < U32) (hcrc : crc p < U32) (hdec : (de p).isSome = true) :
    parse crc (fun q => (de q).isSome) (encodeRec crc p ++ rest)
      = (p :: (parse crc (fun q => (de q).isSome) rest).1, (parse crc (fun q => (de q).isSome) rest).2) :=
  parse_cons crc _ p rest ⟨hlen, hcrc, hdec⟩

-- non-vacuity: a 70 000-byte payload (> 64 KiB) satisfies the hypotheses
example : bigPayload.length = 70000 ∧ bigPayload.length < U32 ∧ (bigDe bigPayload).isSome = true :=
  ⟨bigPayload_length, by rw [bigPayload_length]; decide, by unfold bigDe; rw [if_pos bigPayload_length]; rfl⟩

/-! ### one append -/

/-- **The write side refuses a record only because of the size of the FILE.**  `append` answers
    `SizeLimitExceeded` exactly when `max_size_bytes` is set, `auto_rotate` is off and the file plus
    the record would exceed it; there is no other, per-record, limit.  An accepted record is in the
    file `replay` reads afterwards (appended to it, or — rotation — alone in a fresh one). -/
theorem append_refuses_only_by_file_size (sz : Entry → Nat) (cfg : Cfg) (log : List Entry) (e : Entry) :
    (walApp sz cfg log e = none ↔
        ∃ cap, cfg.walCap = some cap ∧ cfg.autoRotate = false ∧ cap < fileLen sz log + sz e)
    ∧ (∀ l', walApp sz cfg log e = some l' → e ∈ l' ∧ (l' = log ++ [e] ∨ l' = [e])) := by
  unfold walApp
  cases hcap : cfg.walCap with
  | none => simp
  | some cap =>
    by_cases hfit : fileLen sz log + sz e > cap
    · cases hrot : cfg.autoRotate <;> simp [hfit]
    · simp [hfit]

/-- **Every acknowledged append is replayed, whatever the record's size.**  If `append` accepted the
    record then replaying the file returns the log including that record — also when the record is
    the largest one the file has ever seen, and also when it is followed by further appends (apply
    the statement again: the new file is again the encoding of its log). -/
theorem acknowledged_append_is_replayed (cfg : Cfg) (log : List Entry) (e : Entry) (l' : List Entry)
    (h : CodecOK crc ser de (log ++ [e])) (ha : walApp (recSize ser) cfg log e = some l') :
    replay crc de (fileOf crc ser l') = some l' ∧ e ∈ l' := by
  obtain ⟨hmem, hl⟩ := (append_refuses_only_by_file_size (recSize ser) cfg log e).2 l' ha
  refine ⟨?_, hmem⟩
  apply replay_fileOf
  rcases hl with rfl | rfl
  · exact h
  · intro x hx
    simp only [List.mem_singleton] at hx
    exact h x (by simp [hx])

/-- **Replay returns every record of a well-formed file** — no hypothesis bounds the payload
    lengths apart from the 4-byte length field (`CodecOK`). -/
theorem replay_returns_every_appended_record (L : List Entry) (h : CodecOK crc ser de L) :
    replay crc de (fileOf crc ser L) = some L :=
  replay_fileOf crc ser de L h

-- non-vacuity: the log with the 70 000-byte TxBegin in the middle is replayed completely — the
-- PhaseChange and the TxComplete written after the long record included
example :
    replay (fun _ => 0) bigDe (fileOf (fun _ => 0) bigSer
      [.phaseChange 1 .preparing .prepared, wideBegin, .phaseChange 1 .prepared .committing, .txComplete 1 .committed])
      = some [.phaseChange 1 .preparing .prepared, wideBegin, .phaseChange 1 .prepared .committing, .txComplete 1 .committed] :=
  replay_returns_every_appended_record _ _ _ _ big_codec_ok
example : (bigSer wideBegin).length = 70000 := by rw [bigSer_wide]; exact bigPayload_length
-- ... and the begin of the wide transaction is accepted by a WAL without a size limit, by one with
-- room for it, and refused by one whose FILE limit it exceeds
example : walApp (recSize wideSer) demoCfg [] wideBegin = some [wideBegin]
    ∧ walApp (recSize wideSer) { demoCfg with walCap := some 12, autoRotate := false } [] wideBegin = some [wideBegin]
    ∧ walApp (recSize wideSer) { demoCfg with walCap := some 11, autoRotate := false } [] wideBegin = none := by decide

/-! ### a restart -/

/-- **A logged outcome survives a restart whatever the sizes of the records around it.**  In every
    state reachable by any valid run, with ANY serialisation of the records (any payload lengths):
    if a `TxComplete(id, o)` record is in the log and the process is lost with the whole file on
    disk, the restarted coordinator's log still holds the record, `id` is not pending, `commit` and
    `abort` of `id` answer not found, and `cleanup_timeouts` / `recover()` report nothing about
    `id`.  (With `logged_outcome_never_reversed` this continues to hold after any further calls
    and restarts.) -/
theorem logged_outcome_survives_restart_whatever_the_record_sizes (cfg : Cfg) (steps : List Step)
    (hv : Valid crc ser de { cfg := cfg } steps) (id : Nat) (o : Outcome)
    (hlog : Entry.txComplete id o ∈ (run crc ser de { cfg := cfg } steps).log)
    (n now : Nat) (cfg' : Cfg) (hc : CodecOK crc ser de (run crc ser de { cfg := cfg } steps).log)
    (hn : (fileOf crc ser (run crc ser de { cfg := cfg } steps).log).length ≤ n) :
    (step crc ser de (run crc ser de { cfg := cfg } steps) (.crash n now cfg')).1.log
        = (run crc ser de { cfg := cfg } steps).log
    ∧ mLookup id (step crc ser de (run crc ser de { cfg := cfg } steps) (.crash n now cfg')).1.pending = none
    ∧ (step crc ser de (step crc ser de (run crc ser de { cfg := cfg } steps) (.crash n now cfg')).1 (.commit id)).2
        = Res.notFound
    ∧ (step crc ser de (step crc ser de (run crc ser de { cfg := cfg } steps) (.crash n now cfg')).1 (.abort id)).2
        = Res.notFound
    ∧ ∀ s, (∀ ev ∈ events (step crc ser de (run crc ser de { cfg := cfg } steps) (.crash n now cfg')).1 s
              (step crc ser de (step crc ser de (run crc ser de { cfg := cfg } steps) (.crash n now cfg')).1 s).2,
            ev.id ≠ id) := by
  have hv' : Valid crc ser de { cfg := cfg } (steps ++ [Step.crash n now cfg']) := by
    rw [Valid_append]; exact ⟨hv, hc, trivial⟩
  have hrun : run crc ser de { cfg := cfg } (steps ++ [Step.crash n now cfg'])
      = (step crc ser de (run crc ser de { cfg := cfg } steps) (.crash n now cfg')).1 := by
    rw [run_append]; rfl
  have hlogeq : (step crc ser de (run crc ser de { cfg := cfg } steps) (.crash n now cfg')).1.log
      = (run crc ser de { cfg := cfg } steps).log := by
    have hw := (Props.restart_sees_whole_records crc ser de cfg' _ n now hc).2 hn
    rw [step_crash_eq crc ser de _ n now cfg' hc, hw, List.take_length]
    rfl
  have hlog' : Entry.txComplete id o ∈ (run crc ser de { cfg := cfg } (steps ++ [Step.crash n now cfg'])).log := by
    rw [hrun, hlogeq]; exact hlog
  obtain ⟨_, hnone, _⟩ := Props.logged_outcome_never_reversed crc ser de cfg _ hv' id o hlog'
  rw [hrun] at hnone
  have hcm : ∀ c' : Coord, mLookup id c'.pending = none →
      (step crc ser de c' (.commit id)).2 = Res.notFound ∧ (step crc ser de c' (.abort id)).2 = Res.notFound := by
    intro c' h'; simp [step, commit, abort, h']
  refine ⟨hlogeq, hnone, (hcm _ hnone).1, (hcm _ hnone).2, ?_⟩
  intro s ev hev heq
  have hk := events_pending crc ser de _ s ev hev
  rw [heq] at hk
  have : mLookup id (step crc ser de (run crc ser de { cfg := cfg } steps) (.crash n now cfg')).1.pending ≠ none := by
    intro hnone'
    have hinv := Inv_run crc ser de _ _ (Inv_fresh cfg) hv'
    rw [hrun] at hinv
    exact hinv.pendingOpen id hk ⟨o, by rw [hlogeq]; exact hlog⟩
  exact this hnone

-- non-vacuity: the run with the wide transaction is valid, its log holds the commit of transaction 1
-- AFTER the long TxBegin record of transaction 2, and its records are well-formed
example : Valid Crc32.crc32 wideSer wideDe { cfg := demoCfg } wideSteps
    ∧ widePre.log.map (fun e => (wideSer e).length) = [1, 1, 1, 1, 4, 1, 2, 1, 1, 1]
    ∧ widePre.log.drop 4 = [wideBegin, .phaseChange 1 .prepared .committing, .txComplete 1 .committed,
        .lockRelease 1 8, .lockRelease 1 7, .allLocksReleased 1]
    ∧ CodecOK Crc32.crc32 wideSer wideDe widePre.log := by decide

/-! ### the contrast: a replay that caps the frame length -/

/-- **A read-side cap is invisible while every record is short.**  On a log whose payloads are all
    at most `cap` bytes the capped replay returns what `replay` returns: the whole log.  (Ordinary
    2PC records have a few dozen bytes; no run over such logs can tell the two apart.) -/
theorem replayCapped_agrees_while_records_are_short (cap : Nat) (L : List Entry)
    (h : CodecOK crc ser de L) (hs : ∀ e ∈ L, (ser e).length ≤ cap) :
    replayCapped cap crc de (fileOf crc ser L) = replay crc de (fileOf crc ser L) := by
  rw [replayCapped_fileOf cap crc ser de L h, replay_fileOf crc ser de L h]
  congr 1
  exact takeWhile_all _ _ (fun e he => decide_eq_true (hs e he))

/-- **A read-side cap hides everything from the first longer record on.**  If the log is
    `A ++ w :: B` with the records of `A` at most `cap` bytes and `w` longer — a record `append`
    wrote and acknowledged like any other — then `replay` returns all of it and the capped replay
    returns `A` only: `w` and every record of `B`, whatever it says, is invisible to recovery.
    Whatever the cap, such a log exists as soon as some record `append` can write is longer. -/
theorem replayCapped_stops_at_first_long_record (cap : Nat) (A B : List Entry) (w : Entry)
    (h : CodecOK crc ser de (A ++ w :: B)) (hA : ∀ e ∈ A, (ser e).length ≤ cap)
    (hw : cap < (ser w).length) :
    replay crc de (fileOf crc ser (A ++ w :: B)) = some (A ++ w :: B)
    ∧ replayCapped cap crc de (fileOf crc ser (A ++ w :: B)) = some A := by
  refine ⟨replay_fileOf crc ser de _ h, ?_⟩
  rw [replayCapped_fileOf cap crc ser de _ h]
  congr 1
  rw [List.takeWhile_append_of_pos (fun e he => decide_eq_true (hA e he))]
  have : ¬ (ser w).length ≤ cap := by omega
  simp [List.takeWhile_cons, this]

-- non-vacuity with a real size: with a 64 KiB cap, the log of the example above is cut before its
-- 70 000-byte record — the TxComplete of transaction 1 behind it is not replayed
example :
    replayCapped 65536 (fun _ => 0) bigDe (fileOf (fun _ => 0) bigSer
      ([.phaseChange 1 .preparing .prepared] ++ wideBegin ::
        [.phaseChange 1 .prepared .committing, .txComplete 1 .committed]))
      = some [.phaseChange 1 .preparing .prepared] :=
  (replayCapped_stops_at_first_long_record _ _ _ 65536 _ _ _ big_codec_ok (by decide)
    (by rw [bigSer_wide, bigPayload_length]; decide)).2

/-- **With a read-side cap a logged commit is reversed.**  Transaction 1 is prepared, the wide
    transaction 2 begins (its TxBegin is the one record longer than the cap), transaction 1 is
    committed: `commit` answered ok and its TxComplete record is in the file.  The real replay of
    the file returns all ten records and the restarted coordinator does not know transaction 1.
    The capped replay (cap 3 on the toy codec, as 64 KiB on the real one) returns the four
    records before the wide TxBegin: the restart brings transaction 1 back as Prepared, `abort`
    succeeds and logs `TxComplete(Aborted)` — a commit that was logged before the crash has been
    reversed. -/
theorem replayCapped_reverses_logged_commit_witness :
    let file := fileOf Crc32.crc32 wideSer widePre.log
    Valid Crc32.crc32 wideSer wideDe { cfg := demoCfg } wideSteps
    ∧ (step Crc32.crc32 wideSer wideDe (run Crc32.crc32 wideSer wideDe { cfg := demoCfg } (wideSteps.take 6)) (.commit 1)).2
        = Res.ok
    ∧ Entry.txComplete 1 .committed ∈ widePre.log
    -- the code: everything is replayed, transaction 1 is gone for good
    ∧ restartBytes Crc32.crc32 wideDe demoCfg file 200 = some (restartLog demoCfg widePre.log 200)
    ∧ mLookup 1 (restartLog demoCfg widePre.log 200).pending = none
    ∧ (abort (recSize wideSer) (restartLog demoCfg widePre.log 200) 1).2 = Res.notFound
    -- the capped variant: the records behind the wide TxBegin are hidden
    ∧ restartBytesCapped 3 Crc32.crc32 wideDe demoCfg file 200 = some (restartLog demoCfg (widePre.log.take 4) 200)
    ∧ (mLookup 1 (restartLog demoCfg (widePre.log.take 4) 200).pending).map (·.phase) = some .prepared
    ∧ (abort (recSize wideSer) (restartLog demoCfg (widePre.log.take 4) 200) 1).2 = Res.ok
    ∧ Entry.txComplete 1 .aborted ∈ (abort (recSize wideSer) (restartLog demoCfg (widePre.log.take 4) 200) 1).1.log := by
  have hc : CodecOK Crc32.crc32 wideSer wideDe widePre.log := by decide
  refine ⟨by decide, by decide, by decide, ?_, by decide, by decide, ?_, by decide, by decide, by decide⟩
  · unfold restartBytes
    rw [openRepair_fileOf _ _ _ _ hc, replay_fileOf _ _ _ _ hc]; rfl
  · unfold restartBytesCapped
    rw [openRepair_fileOf _ _ _ _ hc, replayCapped_fileOf 3 _ _ _ _ hc]
    have : widePre.log.takeWhile (fun e => decide ((wideSer e).length ≤ 3)) = widePre.log.take 4 := by decide
    rw [this]; rfl

-- the same hiding, evaluated directly on the bytes of the file (the capped loop is structural)
example : replayCapped 3 Crc32.crc32 wideDe (fileOf Crc32.crc32 wideSer widePre.log) = some (widePre.log.take 4)
    ∧ replayCapped 4 Crc32.crc32 wideDe (fileOf Crc32.crc32 wideSer widePre.log) = some widePre.log := by decide

end Neumann.TxWal.PropsReplay
