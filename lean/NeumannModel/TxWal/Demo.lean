import NeumannModel.TxWal.Lemmas
import NeumannModel.Common.Crc32
/-
  A table codec and one concrete run (with a crash that tears a record) used by the
  non-vacuity examples of `Props.lean`.  `parse` / `validPrefixLen` are defined by well-founded
  recursion and do not evaluate under `decide`; the crash is therefore evaluated through the
  proved refinement `step_crash_eq` (its `wholeWithin` side is structural).
-/
namespace Neumann.TxWal.Demo
open Neumann.TxWal Neumann.FramedLog

def toyTable : List (Entry × List Nat) :=
  [(.txBegin 1 [0, 1], [1]), (.prepareVote 1 0 (.yes 7), [2]), (.prepareVote 1 0 .no, [3]),
   (.prepareVote 1 1 (.yes 8), [4]), (.phaseChange 1 .preparing .prepared, [5]),
   (.phaseChange 1 .prepared .committing, [6]), (.txComplete 1 .committed, [7, 7]),
   (.lockRelease 1 8, [8]), (.lockRelease 1 7, [9]), (.allLocksReleased 1, [10]),
   (.phaseChange 1 .prepared .aborting, [11]), (.txComplete 1 .aborted, [12])]

def toySer (e : Entry) : List Nat := ((toyTable.find? (fun p => p.1 == e)).map (·.2)).getD [0]
def toyDe (p : List Nat) : Option Entry := (toyTable.find? (fun q => q.2 == p)).map (·.1)

def demoCfg : Cfg := { prepareTimeoutMs := 5000, maxConcurrent := 100 }

/-- begin, two YES votes (with a rejected duplicate NO in between), commit, crash inside the
    commit's records (byte 68 is inside the first LockRelease record, just after TxComplete), then abort and commit are tried -/
def demoSteps : List Step :=
  [.begin 1 [0, 1] 100, .lock 1 7, .vote 1 0 (.yes 7) false, .vote 1 0 .no false, .lock 1 8,
   .vote 1 1 (.yes 8) false, .commit 1, .crash 68 200 demoCfg, .abort 1, .commit 1, .cleanup 99999]

/-- the state just before the crash (no crash inside: plain evaluation) -/
def demoPre : Coord := run Crc32.crc32 toySer toyDe { cfg := demoCfg } (demoSteps.take 7)

theorem demoSteps_split : demoSteps = demoSteps.take 7 ++ (Step.crash 68 200 demoCfg :: demoSteps.drop 8) := by decide

/-- the crash at byte 68 of the 94-byte file keeps 7 of the 10 records (the cut is inside
    LockRelease, after TxComplete) -/
theorem demo_crash : (step Crc32.crc32 toySer toyDe demoPre (.crash 68 200 demoCfg)).1
    = restartLog demoCfg (demoPre.log.take 7) 200 := by
  rw [step_crash_eq Crc32.crc32 toySer toyDe demoPre 68 200 demoCfg (by decide)]
  have : wholeWithin Crc32.crc32 (demoPre.log.map toySer) 68 = 7 := by decide
  rw [this]

theorem demo_valid : Valid Crc32.crc32 toySer toyDe { cfg := demoCfg } demoSteps := by
  rw [demoSteps_split, Valid_append]
  refine ⟨by decide, ?_⟩
  show StepOK _ _ _ demoPre _ ∧ Valid _ _ _ (step Crc32.crc32 toySer toyDe demoPre (.crash 68 200 demoCfg)).1 _
  refine ⟨by decide, ?_⟩
  rw [demo_crash]
  decide

theorem demo_run : run Crc32.crc32 toySer toyDe { cfg := demoCfg } demoSteps
    = run Crc32.crc32 toySer toyDe (restartLog demoCfg (demoPre.log.take 7) 200) (demoSteps.drop 8) := by
  conv => lhs; rw [demoSteps_split]
  rw [run_append, run_cons]
  show run _ _ _ (step Crc32.crc32 toySer toyDe demoPre (.crash 68 200 demoCfg)).1 _ = _
  rw [demo_crash]


/-- the same coordinator with a 40-byte WAL that refuses to grow (`auto_rotate = false`): the four
    records of begin + three votes (36 bytes) fit, the PhaseChange -> Prepared does not -/
def demoFullCfg : Cfg := { prepareTimeoutMs := 5000, maxConcurrent := 100, walCap := some 40, autoRotate := false }

/-- ... and with a 40-byte WAL that rotates (`auto_rotate = true`, the default) -/
def demoRotCfg : Cfg := { prepareTimeoutMs := 5000, maxConcurrent := 100, walCap := some 40, autoRotate := true }

end Neumann.TxWal.Demo
