import NeumannModel.TxWal.Lemmas
/-
  Helper lemmas for `PropsReplay.lean`: the frame-length-capped replay variant (`parseCapped`,
  not the code) reads a well-formed file up to — and not including — its first record whose
  payload is longer than the cap.
-/
namespace Neumann.TxWal
open Neumann.FramedLog

variable (crc : List Nat → Nat) (dec : List Nat → Bool)

/-- one iteration of the capped loop on a well-formed frame -/
theorem parseCappedAux_cons (cap fuel : Nat) (p rest : List Nat) (hp : GoodRec crc dec p) :
    parseCappedAux cap crc dec (fuel + 1) (encodeRec crc p ++ rest)
      = if cap < p.length then ([], PEnd.torn)
        else (p :: (parseCappedAux cap crc dec fuel rest).1, (parseCappedAux cap crc dec fuel rest).2) := by
  obtain ⟨h1, h2, h3⟩ := hp
  rw [parseCappedAux]
  have hl : ¬ (encodeRec crc p ++ rest).length < 8 := by simp [encodeRec, le32]
  have e1 : (encodeRec crc p ++ rest).take 4 = le32 p.length := by simp [encodeRec, le32]
  have e2 : ((encodeRec crc p ++ rest).drop 4).take 4 = le32 (crc p) := by simp [encodeRec, le32]
  have e3 : (encodeRec crc p ++ rest).drop 8 = p ++ rest := by simp [encodeRec, le32]
  simp only [hl, if_false, e1, e2, e3, le32_rt _ h1, le32_rt _ h2]
  by_cases hc : cap < p.length
  · simp [hc]
  · simp [hc, h3]

/-- the capped loop over a whole well-formed file: the records before the first long one -/
theorem parseCappedAux_encodeAll (cap : Nat) (ps : List (List Nat)) (h : ∀ p ∈ ps, GoodRec crc dec p)
    (fuel : Nat) (hf : (encodeAll crc ps).length < fuel) :
    (parseCappedAux cap crc dec fuel (encodeAll crc ps)).1 = ps.takeWhile (fun p => decide (p.length ≤ cap))
    ∧ (parseCappedAux cap crc dec fuel (encodeAll crc ps)).2 ≠ PEnd.badCrc := by
  induction ps generalizing fuel with
  | nil =>
    cases fuel with
    | zero => simp [encodeAll, parseCappedAux]
    | succ f => simp [encodeAll, parseCappedAux]
  | cons p ps ih =>
    have henc : encodeAll crc (p :: ps) = encodeRec crc p ++ encodeAll crc ps := by simp [encodeAll]
    cases fuel with
    | zero => omega
    | succ f =>
      rw [henc] at hf ⊢
      rw [parseCappedAux_cons crc dec cap f p _ (h p (by simp))]
      have hf' : (encodeAll crc ps).length < f := by
        simp only [List.length_append, encodeRec_length] at hf; omega
      obtain ⟨i1, i2⟩ := ih (fun q hq => h q (by simp [hq])) f hf'
      by_cases hc : cap < p.length
      · have : ¬ p.length ≤ cap := by omega
        simp [hc, this]
      · have : p.length ≤ cap := by omega
        simp [hc, this, i1, i2]

theorem mem_of_mem_takeWhile' {α : Type} (q : α → Bool) (l : List α) (a : α) (h : a ∈ l.takeWhile q) : a ∈ l := by
  induction l with
  | nil => simp at h
  | cons b l ih =>
    simp only [List.takeWhile_cons] at h
    split at h
    · rcases List.mem_cons.mp h with rfl | h'
      · simp
      · exact List.mem_cons_of_mem _ (ih h')
    · simp at h

theorem takeWhile_all {α : Type} (q : α → Bool) (l : List α) (h : ∀ a ∈ l, q a = true) : l.takeWhile q = l := by
  induction l with
  | nil => rfl
  | cons b l ih =>
    rw [List.takeWhile_cons, h b (by simp), if_pos rfl, ih (fun a ha => h a (by simp [ha]))]

theorem parseCapped_encodeAll (cap : Nat) (ps : List (List Nat)) (h : ∀ p ∈ ps, GoodRec crc dec p) :
    (parseCapped cap crc dec (encodeAll crc ps)).1 = ps.takeWhile (fun p => decide (p.length ≤ cap))
    ∧ (parseCapped cap crc dec (encodeAll crc ps)).2 ≠ PEnd.badCrc :=
  parseCappedAux_encodeAll crc dec cap ps h _ (Nat.lt_succ_self _)

/-- **The capped replay of a well-formed file** returns the entries before the first one whose
    payload is longer than the cap — and nothing after it. -/
theorem replayCapped_fileOf (cap : Nat) (crc : List Nat → Nat) (ser : Entry → List Nat)
    (de : List Nat → Option Entry) (L : List Entry) (h : CodecOK crc ser de L) :
    replayCapped cap crc de (fileOf crc ser L)
      = some (L.takeWhile (fun e => decide ((ser e).length ≤ cap))) := by
  unfold replayCapped fileOf
  obtain ⟨h1, h2⟩ := parseCapped_encodeAll crc (fun p => (de p).isSome) cap (L.map ser) (by
    intro p hp
    simp only [List.mem_map] at hp
    obtain ⟨e, he, rfl⟩ := hp
    exact (h e he).1)
  simp only [h1, h2, if_false]
  rw [List.takeWhile_map]
  rw [filterMap_de_ser ser de _ (fun e he => (h e (mem_of_mem_takeWhile' _ _ _ he)).2)]
  rfl

/-- `open` leaves a file of complete frames as it is -/
theorem openRepair_fileOf (crc : List Nat → Nat) (ser : Entry → List Nat) (de : List Nat → Option Entry)
    (L : List Entry) (h : CodecOK crc ser de L) : openRepair (fileOf crc ser L) = fileOf crc ser L := by
  have := openRepair_take crc (L.map ser) (fileOf crc ser L).length (by
    intro p hp
    simp only [List.mem_map] at hp
    obtain ⟨e, he, rfl⟩ := hp
    exact (h e he).1.1)
  unfold fileOf at this ⊢
  rw [List.take_length] at this
  rw [this]
  have hw : wholeWithin crc (L.map ser) (encodeAll crc (L.map ser)).length = (L.map ser).length := by
    have h1 := wholeWithin_ge crc (L.map ser) (L.map ser).length (encodeAll crc (L.map ser)).length
      (Nat.le_refl _) (by rw [List.take_length]; exact Nat.le_refl _)
    have h2 := wholeWithin_le crc (L.map ser) (encodeAll crc (L.map ser)).length
    omega
  rw [hw, List.take_length]

end Neumann.TxWal
