import NeumannModel.Blob.Invariant
/- C19 — interleavings without a collector thread never lose a live chunk (helper lemmas). -/
namespace Neumann.Blob

section assoc
variable {α β : Type} [DecidableEq α]

theorem isSome_find_setRec (k k' : α) (v : β) (l : List (α × β)) :
    (find k' (setRec k v l)).isSome = ((find k' l).isSome || decide (k' = k)) := by
  unfold setRec
  cases hf : find k l with
  | some r =>
    simp only [find_modify]
    by_cases e : k' = k
    · subst e; simp [hf]
    · simp [e]
  | none =>
    simp only [find_append, find_cons]
    cases hf' : find k' l with
    | some r => simp
    | none =>
      by_cases e : k' = k
      · subst e; simp
      · have : ¬ k = k' := fun x => e x.symm
        simp [e, this]

theorem mem_setRec {k : α} {v : β} {l : List (α × β)} {p : α × β} (hp : p ∈ setRec k v l) :
    p ∈ l ∨ p = (k, v) := by
  unfold setRec at hp
  cases hf : find k l with
  | some r =>
    simp only [hf, modify, List.mem_map] at hp
    obtain ⟨q, hq, rfl⟩ := hp
    by_cases e : q.1 = k
    · right; simp [e]
    · left; simp [e, hq]
  | none =>
    simp only [hf, List.mem_append, List.mem_singleton] at hp
    exact hp

end assoc

section
variable {K : Type} [DecidableEq K] (h : List Nat → K)

def LiveP (s : State K) : Prop := ∀ p ∈ s.arts, ∀ k ∈ p.2.chunks, (find k s.chunks).isSome

theorem liveIntact_iff (s : State K) : liveIntact s = true ↔ LiveP s := by
  simp [liveIntact, LiveP, List.all_eq_true]

/-- writer / deleter in any phase whose already pushed keys are present; collectors excluded -/
def ThOk (s : State K) : Th K → Prop
  | .done => True
  | .wExists _ _ _ _ acc => ∀ k ∈ acc, (find k s.chunks).isSome
  | .wPutNew _ _ _ _ _ acc => ∀ k ∈ acc, (find k s.chunks).isSome
  | .wIncGet _ _ _ d _ acc => (∀ k ∈ acc, (find k s.chunks).isSome) ∧ (find (h d) s.chunks).isSome
  | .wIncPut _ _ _ _ _ acc _ => ∀ k ∈ acc, (find k s.chunks).isSome
  | .dGetMeta _ => True
  | .dDecGet _ _ => True
  | .dDecPut _ _ _ _ => True
  | .tGetMeta _ => True
  | .tPutMeta _ a => ∀ k ∈ a.chunks, (find k s.chunks).isSome
  | _ => False

def Mono (s s' : State K) : Prop := ∀ k, (find k s.chunks).isSome → (find k s'.chunks).isSome

theorem ThOk_mono {s s' : State K} (hm : Mono s s') {th : Th K} (ht : ThOk h s th) : ThOk h s' th := by
  cases th <;> simp only [ThOk] at ht ⊢ <;>
    first | exact ht | (intro k hk; exact hm k (ht k hk)) | exact ⟨fun k hk => hm k (ht.1 k hk), hm _ ht.2⟩

theorem LiveP_chunks {s : State K} (hl : LiveP s) {tbl' : List (K × CRec)}
    (hm : ∀ k, (find k s.chunks).isSome → (find k tbl').isSome) : LiveP { s with chunks := tbl' } :=
  fun p hp k hk => hm k (hl p hp k hk)

theorem mono_setRec (s : State K) (k : K) (r : CRec) :
    ∀ k', (find k' s.chunks).isSome → (find k' (setRec k r s.chunks)).isSome := by
  intro k' hk'; rw [isSome_find_setRec]; simp [hk']

theorem stepTh_safe {s : State K} (hl : LiveP s) {th : Th K} (ht : ThOk h s th) :
    LiveP (stepTh h s th).1 ∧ ThOk h (stepTh h s th).1 (stepTh h s th).2 ∧ Mono s (stepTh h s th).1 := by
  cases th with
  | done => exact ⟨hl, trivial, fun _ x => x⟩
  | wExists id t all todo acc =>
    cases todo with
    | nil =>
      simp only [stepTh]
      refine ⟨?_, trivial, fun _ x => x⟩
      intro p hp k hk
      rcases mem_setRec hp with hp | hp
      · exact hl p hp k hk
      · subst hp; exact ht k hk
    | cons d todo =>
      simp only [stepTh]
      split
      · next hx => exact ⟨hl, ⟨ht, hx⟩, fun _ x => x⟩
      · exact ⟨hl, ht, fun _ x => x⟩
  | wPutNew id t all d todo acc =>
    simp only [stepTh]
    refine ⟨LiveP_chunks hl (mono_setRec s _ _), ?_, mono_setRec s _ _⟩
    intro k hk
    simp only [List.mem_append, List.mem_singleton] at hk
    rw [isSome_find_setRec]
    rcases hk with hk | hk
    · simp [ht k hk]
    · simp [hk]
  | wIncGet id t all d todo acc =>
    simp only [stepTh]
    cases hf : find (h d) s.chunks with
    | none =>
      -- dead branch without a collector: the record seen by `exists` is still there
      have := ht.2
      rw [hf] at this; cases this
    | some r => exact ⟨hl, ht.1, fun _ x => x⟩
  | wIncPut id t all d todo acc r =>
    simp only [stepTh]
    refine ⟨LiveP_chunks hl (mono_setRec s _ _), ?_, mono_setRec s _ _⟩
    intro k hk
    simp only [List.mem_append, List.mem_singleton] at hk
    rw [isSome_find_setRec]
    rcases hk with hk | hk
    · simp [ht k hk]
    · simp [hk]
  | dGetMeta id =>
    simp only [stepTh]
    split <;> exact ⟨hl, trivial, fun _ x => x⟩
  | dDecGet id todo =>
    cases todo with
    | nil =>
      simp only [stepTh]
      exact ⟨fun p hp k hk => hl p (List.mem_filter.mp hp).1 k hk, trivial, fun _ x => x⟩
    | cons k todo =>
      simp only [stepTh]
      split <;> exact ⟨hl, trivial, fun _ x => x⟩
  | dDecPut id k todo r =>
    simp only [stepTh]
    exact ⟨LiveP_chunks hl (mono_setRec s _ _), trivial, mono_setRec s _ _⟩
  | tGetMeta id =>
    simp only [stepTh]
    cases hf : find id s.arts with
    | none => exact ⟨hl, trivial, fun _ x => x⟩
    | some a => exact ⟨hl, fun k hk => hl (id, a) (find_some_mem hf) k hk, fun _ x => x⟩
  | tPutMeta id a =>
    simp only [stepTh]
    refine ⟨?_, trivial, fun _ x => x⟩
    intro p hp k hk
    rcases mem_setRec hp with hp | hp
    · exact hl p hp k hk
    · subst hp; exact ht k hk
  | gScan _ _ => exact absurd ht (by simp [ThOk])
  | gGet _ _ => exact absurd ht (by simp [ThOk])
  | gDel _ _ _ => exact absurd ht (by simp [ThOk])
  | fScanMeta _ _ => exact absurd ht (by simp [ThOk])
  | fGetMeta _ _ _ => exact absurd ht (by simp [ThOk])
  | fScanChunks _ _ => exact absurd ht (by simp [ThOk])
  | fGet _ _ => exact absurd ht (by simp [ThOk])
  | fDel _ _ _ => exact absurd ht (by simp [ThOk])

theorem runSched_safe (sched : List Nat) {s : State K} {ths : List (Th K)} (hl : LiveP s)
    (ht : ∀ th ∈ ths, ThOk h s th) :
    LiveP (runSched h s ths sched).1 ∧
    ∀ th ∈ (runSched h s ths sched).2, ThOk h (runSched h s ths sched).1 th := by
  induction sched generalizing s ths with
  | nil => exact ⟨hl, ht⟩
  | cons i sc ih =>
    rw [runSched]
    apply ih
    · unfold stepAt
      cases hg : ths[i]? with
      | none => exact hl
      | some th => exact (stepTh_safe h hl (ht th (List.mem_of_getElem? hg))).1
    · unfold stepAt
      cases hg : ths[i]? with
      | none => exact ht
      | some th =>
        obtain ⟨_, h2, h3⟩ := stepTh_safe h hl (ht th (List.mem_of_getElem? hg))
        intro th' hth'
        rcases List.mem_or_eq_of_mem_set hth' with e | e
        · exact ThOk_mono h h3 (ht th' e)
        · rw [e]; exact h2

end
end Neumann.Blob
