import NeumannModel.Common.Proto
import NeumannModel.Blob.Model
import NeumannModel.Blob.Conc
/-
  Line-protocol driver for the blob-store model (C19).  Keys are the chunk
  bytes themselves (`h = id`); artifact ids are `a<n>` in creation order.

    reset <chunkSize> <maxSize|->            → ok
    put <t> <hex>                            → ok a<n> | err empty_data | err too_large
    stream <t> <hex,hex,..>                  → ok a<n>          (pieces; `-` = empty piece; `.` = no piece)
    abandon <t> <hex,hex,..>                 → ok
    wopen <w> | wwrite <w> <t> <hex> | wfinish <w> <t> | wdrop <w>
    get a<n> | delete a<n> | verify a<n>
    gc <now> <minAge> | fullgc | repair
    corrupt <keyhex> <datahex> | drop <keyhex>
    image                                    → canonical dump of the whole store
    chunks <c> <hex>                         → pure chunker
    sched <t> <thread;thread;..> <i,i,..>    → concurrent step machines under a schedule
-/
open Neumann Neumann.Proto Neumann.Blob

abbrev Key := List Nat

structure DState where
  cfg : Cfg
  st : State Key
  writers : List (Nat × Writer Key)

def hid : List Nat → Key := id

def showErr : Err → String
  | .notFound => "err not_found" | .chunkMissing => "err chunk_missing"
  | .emptyData => "err empty_data" | .tooLarge => "err too_large"

def parseArt (s : String) : Option Nat :=
  match s.toList with
  | 'a' :: rest => (String.ofList rest).toNat?
  | _ => none

def parsePieces (s : String) : Option (List (List Nat)) :=
  if s = "." then some [] else (s.splitOn ",").mapM unhex

def sortStrs (l : List String) : List String := l.mergeSort (fun a b => !decide (b < a))

def showImage (s : State Key) : String :=
  let arts := s.arts.map fun a =>
    let g := match get s a.1 with | .ok d => "ok:" ++ hex d | .error e => showErr e
    let v := match verify hid s a.1 with | .ok b => toString b | .error e => showErr e
    s!"a{a.1}={g}/{v}/{a.2.size}/{a.2.chunks.length}"
  let cs := s.chunks.map fun p => s!"{hex p.1}={hex p.2.data}:{p.2.refs}:{p.2.created}"
  "arts [" ++ " ".intercalate arts ++ "] chunks [" ++ " ".intercalate (sortStrs cs) ++ "]"

def showStats (r : Nat × Nat) : String := s!"ok {r.1} {r.2}"

def parseThread (t : Nat) (s : String) : Option (Th Key) :=
  match s.splitOn ":" with
  | ["w", id, pcs] => match id.toNat?, parsePieces pcs with
      | some i, some cds => some (Th.writer i t cds) | _, _ => none
  | ["d", id] => id.toNat?.map Th.deleter
  | ["g", mc] => mc.toNat?.map Th.gc
  | ["f"] => some Th.fullGc
  | _ => none

def blobStep (ds : DState) (line : String) : DState × String :=
  let bad := (ds, "bad-op")
  let s := ds.st
  match words line with
  | ["reset", c, m] =>
      match c.toNat?, (if m = "-" then some none else m.toNat?.map some) with
      | some c, some m => ({ cfg := ⟨c, m⟩, st := State.init, writers := [] }, "ok")
      | _, _ => bad
  | ["put", t, d] => match t.toNat?, unhex d with
      | some t, some d =>
        let r := put hid ds.cfg t s d
        ({ ds with st := r.1 }, match r.2 with | .ok id => s!"ok a{id}" | .error e => showErr e)
      | _, _ => bad
  | ["stream", t, ps] => match t.toNat?, parsePieces ps with
      | some t, some ps =>
        let r := stream hid ds.cfg t s ps
        ({ ds with st := r.1 }, s!"ok a{r.2}")
      | _, _ => bad
  | ["abandon", t, ps] => match t.toNat?, parsePieces ps with
      | some t, some ps => ({ ds with st := streamAbandon hid ds.cfg t s ps }, "ok")
      | _, _ => bad
  | ["wopen", w] => match w.toNat? with
      | some w => ({ ds with writers := (w, Writer.new) :: erase w ds.writers }, "ok")
      | none => bad
  | ["wwrite", w, t, d] => match w.toNat?, t.toNat?, unhex d with
      | some w, some t, some d =>
        (match find w ds.writers with
         | none => bad
         | some wr =>
           let r := wWrite hid ds.cfg.chunkSize t s wr d
           ({ ds with st := r.1, writers := (w, r.2) :: erase w ds.writers },
            s!"ok {r.2.chunks.length} {r.2.total}"))
      | _, _, _ => bad
  | ["wfinish", w, t] => match w.toNat?, t.toNat? with
      | some w, some t =>
        (match find w ds.writers with
         | none => bad
         | some wr =>
           let r := wFinish hid t s wr
           ({ ds with st := r.1, writers := erase w ds.writers }, s!"ok a{r.2}"))
      | _, _ => bad
  | ["wdrop", w] => match w.toNat? with
      | some w => ({ ds with writers := erase w ds.writers }, "ok")
      | none => bad
  | ["get", a] => match parseArt a with
      | some id => (ds, match get s id with | .ok d => "ok " ++ hex d | .error e => showErr e)
      | none => bad
  | ["delete", a] => match parseArt a with
      | some id =>
        let r := delete s id
        ({ ds with st := r.1 }, match r.2 with | .ok _ => "ok" | .error e => showErr e)
      | none => bad
  | ["verify", a] => match parseArt a with
      | some id => (ds, match verify hid s id with | .ok b => s!"ok {b}" | .error e => showErr e)
      | none => bad
  | ["gc", now, age] => match now.toNat?, age.toNat? with
      | some now, some age =>
        let r := gc now age s
        ({ ds with st := r.1 }, showStats r.2)
      | _, _ => bad
  | ["fullgc"] =>
      let r := fullGc s
      ({ ds with st := r.1 }, showStats r.2)
  | ["repair"] =>
      let r := repair s
      ({ ds with st := r.1 },
       s!"ok {r.2.artifactsChecked} {r.2.chunksVerified} {r.2.refsFixed} {r.2.orphansDeleted}")
  | ["corrupt", k, d] => match unhex k, unhex d with
      | some k, some d => ({ ds with st := corrupt s k d }, "ok")
      | _, _ => bad
  | ["drop", k] => match unhex k with
      | some k => ({ ds with st := dropChunk s k }, "ok")
      | none => bad
  | ["image"] => (ds, showImage s)
  | ["chunks", c, d] => match c.toNat?, unhex d with
      | some c, some d => (ds, ",".intercalate ((chunks c d).map hex) ++ ";")
      | _, _ => bad
  | ["sched", t, ths, sc] => match t.toNat?.bind (fun t => (ths.splitOn ";").mapM (parseThread t)), parseNats sc with
      | some ths, some sc =>
        let r := runSched hid s ths sc
        ({ ds with st := r.1 }, s!"ok {(r.2.filter Th.isDone).length}/{r.2.length} " ++ (if liveIntact r.1 then "intact" else "broken"))
      | _, _ => bad
  | _ => bad

def main : IO Unit := run blobStep { cfg := ⟨4, none⟩, st := State.init, writers := [] }
