import NeumannModel.Common.Proto
import NeumannModel.Blob.Model
import NeumannModel.Blob.Conc
import NeumannModel.Blob.Writers
import NeumannModel.Blob.Aging
/-
  Line-protocol driver for the blob-store model (C19).  Keys are the chunk
  bytes themselves (`h = id`); artifact ids are `a<n>` in creation order.

    reset <chunkSize> <maxSize|->            → ok
    put <t> <hex>                            → ok a<n> | err empty_data | err too_large
    stream <t> <hex,hex,..>                  → ok a<n>          (pieces; `-` = empty piece; `.` = no piece)
    abandon <t> <hex,hex,..>                 → ok
    wopen <w> | wwrite <w> <t> <hex> | wfinish <w> <t> | wdrop <w>
    get a<n> | delete a<n> | verify a<n>
    gc <now> <minAge> | fullgc | repair
    corrupt <keyhex> <datahex> | drop <keyhex>
    image                                    → canonical dump of the whole store
    ! <any op>                               → `<answer>\t<image after the op>`
    chunks <c> <hex>                         → pure chunker
    sched <t> <thread;thread;..> <i,i,..>    → concurrent step machines under a schedule
    calls <t> <thread;thread;..> <i,i,..>    → the same at call level (one entry = one TensorStore call):
                                               `ok <done>/<n> <intact|broken> <call,call,..>`; the store is updated
        threads: w:<id>:<chunk,chunk,..> | wd:<id>:<datahex> | d:<id> | t:<id> (metadata update) | g:<minCreated>[:<ordhex,..>] | f[:<ordIds>:<ordhex,..>]
    exists a<n> | stats | vchunk <keyhex> | cexist a<n> | orphans | touch a<n>
    gcsel <minCreated> <keyhex,..>           → gc_cycle that looked only at these keys (batch_size < chunk count)
    ropen <r> a<n> | rnext <r> | rread <r> <n> | rall <r> | rverify <r> | rdrop <r>   (streaming reader)
    clock <now> <minAge>                     → ok        (a long-lived store: wall clock in seconds, the store's min_age)
    c <op without its times>                 → the operation of `Aging.lean` (`applyC`), the clock filled in:
        c put <hex> | c stream <pcs> | c abandon <pcs> | c wopen <w> | c wwrite <w> <hex> | c wfinish <w> | c wdrop <w>
        c delete a<n> | c get a<n> | c verify a<n> | c gc | c gcsel <keyhex,..> | c fullgc | c repair | c tick <n>
-/
open Neumann Neumann.Proto Neumann.Blob

abbrev Key := List Nat

structure DState where
  cfg : Cfg
  st : State Key
  writers : List (Nat × Writer Key)
  readers : List (Nat × Reader Key) := []
  /-- the wall clock and the `min_age` of the long-lived store (`clock`, `c ...`) -/
  now : Nat := 0
  minAge : Nat := 0

def hid : List Nat → Key := id

def showErr : Err → String
  | .notFound => "err not_found" | .chunkMissing => "err chunk_missing"
  | .emptyData => "err empty_data" | .tooLarge => "err too_large"

def parseArt (s : String) : Option Nat :=
  match s.toList with
  | 'a' :: rest => (String.ofList rest).toNat?
  | _ => none

def parsePieces (s : String) : Option (List (List Nat)) :=
  if s = "." then some [] else (s.splitOn ",").mapM unhex

def sortStrs (l : List String) : List String := l.mergeSort (fun a b => !decide (b < a))

def showImage (s : State Key) : String :=
  -- concurrent writers finish in schedule order: list the artifacts by id
  let arts := (s.arts.mergeSort (fun a b => decide (a.1 ≤ b.1))).map fun a =>
    let g := match get s a.1 with | .ok d => "ok:" ++ hex d | .error e => showErr e
    let v := match verify hid s a.1 with | .ok b => toString b | .error e => showErr e
    s!"a{a.1}={g}/{v}/{a.2.size}/{a.2.chunks.length}"
  let cs := s.chunks.map fun p => s!"{hex p.1}={hex p.2.data}:{p.2.refs}:{p.2.created}"
  "arts [" ++ " ".intercalate arts ++ "] chunks [" ++ " ".intercalate (sortStrs cs) ++ "]"

def showStats (r : Nat × Nat) : String := s!"ok {r.1} {r.2}"

def parseNatsDot (s : String) : Option (List Nat) := if s = "." then some [] else parseNats s

def parseThread (c t : Nat) (s : String) : Option (Th Key) :=
  match s.splitOn ":" with
  | ["w", id, pcs] => match id.toNat?, parsePieces pcs with
      | some i, some cds => some (Th.writer i t cds) | _, _ => none
  | ["wd", id, d] => match id.toNat?, unhex d with
      | some i, some d => some (Th.writer i t (chunks c d)) | _, _ => none
  | ["d", id] => id.toNat?.map Th.deleter
  | ["t", id] => id.toNat?.map Th.toucher
  | ["g", mc] => mc.toNat?.map Th.gc
  | ["g", mc, ord] => match mc.toNat?, parsePieces ord with
      | some mc, some ord => some (.gScan mc ord) | _, _ => none
  | ["f"] => some Th.fullGc
  | ["f", oi, ok] => match parseNatsDot oi, parsePieces ok with
      | some oi, some ok => some (.fScanMeta oi ok) | _, _ => none
  | _ => none

def showCall : Option (Call Key) → String
  | none => "-"
  | some (.existsC k) => "e:" ++ hex k
  | some (.getC k) => "g:" ++ hex k
  | some (.putC k) => "p:" ++ hex k
  | some (.delC k) => "d:" ++ hex k
  | some (.getM id) => s!"gm:{id}"
  | some (.putM id) => s!"pm:{id}"
  | some (.delM id) => s!"dm:{id}"
  | some .scanC => "sc"
  | some .scanM => "sm"

def showOptHex : Option (List Nat) → String
  | none => "eof"
  | some d => hex d

def showR {α : Type} (f : α → String) : Except Err α → String
  | .ok a => "ok " ++ f a
  | .error e => showErr e

/-- the open-writer operations run the very function the theorems of `WritersLemmas` / `Props` are about -/
def wstep (ds : DState) (op : WOp) : DState :=
  let x := applyW hid ds.cfg ⟨ds.st, ds.writers⟩ op
  { ds with st := x.st, writers := x.writers }

def blobStep (ds : DState) (line : String) : DState × String :=
  let bad := (ds, "bad-op")
  let s := ds.st
  match words line with
  | ["reset", c, m] =>
      match c.toNat?, (if m = "-" then some none else m.toNat?.map some) with
      | some c, some m => ({ cfg := ⟨c, m⟩, st := State.init, writers := [], readers := [] }, "ok")
      | _, _ => bad
  | ["put", t, d] => match t.toNat?, unhex d with
      | some t, some d =>
        let r := put hid ds.cfg t s d
        ({ ds with st := r.1 }, match r.2 with | .ok id => s!"ok a{id}" | .error e => showErr e)
      | _, _ => bad
  | ["stream", t, ps] => match t.toNat?, parsePieces ps with
      | some t, some ps =>
        let r := stream hid ds.cfg t s ps
        ({ ds with st := r.1 }, s!"ok a{r.2}")
      | _, _ => bad
  | ["abandon", t, ps] => match t.toNat?, parsePieces ps with
      | some t, some ps => ({ ds with st := streamAbandon hid ds.cfg t s ps }, "ok")
      | _, _ => bad
  | ["wopen", w] => match w.toNat? with
      | some w => (wstep ds (.wopen w), "ok")
      | none => bad
  | ["wwrite", w, t, d] => match w.toNat?, t.toNat?, unhex d with
      | some w, some t, some d =>
        (match find w ds.writers with
         | none => bad
         | some _ =>
           let ds' := wstep ds (.wwrite w t d)
           (ds', match find w ds'.writers with
                 | some wr => s!"ok {wr.chunks.length} {wr.total}"
                 | none => "bad-op"))
      | _, _, _ => bad
  | ["wfinish", w, t] => match w.toNat?, t.toNat? with
      | some w, some t =>
        (match find w ds.writers with
         | none => bad
         | some _ => (wstep ds (.wfinish w t), s!"ok a{s.next}"))
      | _, _ => bad
  | ["wdrop", w] => match w.toNat? with
      | some w => (wstep ds (.wdrop w), "ok")
      | none => bad
  | ["get", a] => match parseArt a with
      | some id => (ds, match get s id with | .ok d => "ok " ++ hex d | .error e => showErr e)
      | none => bad
  | ["delete", a] => match parseArt a with
      | some id =>
        let r := delete s id
        ({ ds with st := r.1 }, match r.2 with | .ok _ => "ok" | .error e => showErr e)
      | none => bad
  | ["verify", a] => match parseArt a with
      | some id => (ds, match verify hid s id with | .ok b => s!"ok {b}" | .error e => showErr e)
      | none => bad
  | ["gc", now, age] => match now.toNat?, age.toNat? with
      | some now, some age =>
        let r := gc now age s
        ({ ds with st := r.1 }, showStats r.2)
      | _, _ => bad
  | ["fullgc"] =>
      let r := fullGc s
      ({ ds with st := r.1 }, showStats r.2)
  | ["repair"] =>
      let r := repair s
      ({ ds with st := r.1 },
       s!"ok {r.2.artifactsChecked} {r.2.chunksVerified} {r.2.refsFixed} {r.2.orphansDeleted}")
  | ["corrupt", k, d] => match unhex k, unhex d with
      | some k, some d => ({ ds with st := corrupt s k d }, "ok")
      | _, _ => bad
  | ["drop", k] => match unhex k with
      | some k => ({ ds with st := dropChunk s k }, "ok")
      | none => bad
  | ["clock", now, age] => match now.toNat?, age.toNat? with
      | some now, some age => ({ ds with now := now, minAge := age }, "ok")
      | _, _ => bad
  | ["image"] => (ds, showImage s)
  | ["chunks", c, d] => match c.toNat?, unhex d with
      | some c, some d => (ds, ",".intercalate ((chunks c d).map hex) ++ ";")
      | _, _ => bad
  | ["sched", t, ths, sc] => match t.toNat?.bind (fun t => (ths.splitOn ";").mapM (parseThread ds.cfg.chunkSize t)), parseNats sc with
      | some ths, some sc =>
        let r := runSched hid s ths sc
        ({ ds with st := r.1 }, s!"ok {(r.2.filter Th.isDone).length}/{r.2.length} " ++ (if liveIntact r.1 then "intact" else "broken"))
      | _, _ => bad
  | ["calls", t, ths, sc] => match t.toNat?.bind (fun t => (ths.splitOn ";").mapM (parseThread ds.cfg.chunkSize t)), parseNats sc with
      | some ths, some sc =>
        let ths := ths.map settle
        let r := runCalls hid s ths sc
        let tr := callTrace hid s ths sc
        ({ ds with st := r.1 }, s!"ok {(r.2.filter Th.isDone).length}/{r.2.length} " ++ (if liveIntact r.1 then "intact" else "broken")
            ++ " " ++ (if tr.isEmpty then "." else ",".intercalate (tr.map showCall)))
      | _, _ => bad
  | ["exists", a] => match parseArt a with
      | some id => (ds, s!"ok {existsArt s id}")
      | none => bad
  | ["touch", a] => match parseArt a with
      | some id => (ds, if existsArt s id then "ok" else showErr .notFound)
      | none => bad
  | ["stats"] =>
      let r := stats s
      (ds, s!"ok {r.artifactCount} {r.chunkCount} {r.totalBytes} {r.uniqueBytes} {r.orphaned}")
  | ["vchunk", k] => match unhex k with
      | some k => (ds, showR (fun b : Bool => toString b) (verifyChunk hid s k))
      | none => bad
  | ["cexist", a] => match parseArt a with
      | some id => (ds, showR (fun l : List Key => if l.isEmpty then "." else ",".intercalate (l.map hex)) (checkChunksExist s id))
      | none => bad
  | ["orphans"] =>
      let l := sortStrs ((findOrphaned s).map hex)
      (ds, "ok " ++ (if l.isEmpty then "." else ",".intercalate l))
  | ["gcsel", mc, ks] => match mc.toNat?, parsePieces ks with
      | some mc, some ks =>
        let r := gcSel mc (fun k => ks.contains k) s
        ({ ds with st := r.1 }, showStats r.2)
      | _, _ => bad
  | ["ropen", r, a] => match r.toNat?, parseArt a with
      | some r, some id =>
        (match rOpen s id with
         | .error e => (ds, showErr e)
         | .ok rd => ({ ds with readers := (r, rd) :: erase r ds.readers }, s!"ok {rd.chunks.length} {rd.total}"))
      | _, _ => bad
  | ["rnext", r] => match r.toNat?.bind (fun r => (find r ds.readers).map (fun rd => (r, rd))) with
      | some (r, rd) =>
        let x := rNext s.chunks rd
        ({ ds with readers := (r, x.2) :: erase r ds.readers }, showR showOptHex x.1 ++ s!" {x.2.bytesRead}")
      | none => bad
  | ["rread", r, n] => match r.toNat?.bind (fun r => (find r ds.readers).map (fun rd => (r, rd))), n.toNat? with
      | some (r, rd), some n =>
        let x := rRead s.chunks rd n
        ({ ds with readers := (r, x.2) :: erase r ds.readers }, showR hex x.1 ++ s!" {x.2.bytesRead}")
      | _, _ => bad
  | ["rall", r] => match r.toNat?.bind (fun r => (find r ds.readers).map (fun rd => (r, rd))) with
      | some (r, rd) =>
        let x := rAll s.chunks rd
        ({ ds with readers := (r, x.2) :: erase r ds.readers }, showR hex x.1 ++ s!" {x.2.bytesRead}")
      | none => bad
  | ["rverify", r] => match r.toNat?.bind (fun r => (find r ds.readers).map (fun rd => (r, rd))) with
      | some (r, rd) =>
        let x := rVerify hid s.chunks rd
        ({ ds with readers := (r, x.2) :: erase r ds.readers }, showR (fun b : Bool => toString b) x.1 ++ s!" {x.2.bytesRead}")
      | none => bad
  | ["rdrop", r] => match r.toNat? with
      | some r => ({ ds with readers := erase r ds.readers }, "ok")
      | none => bad
  | _ => bad

/-- an untimed operation line as a `COp` (`gcsel` names the keys the cycle looked at: their scan positions) -/
def parseCOp (s : State Key) (ws : List String) : Option COp :=
  match ws with
  | ["put", d] => (unhex d).map COp.put
  | ["stream", ps] => (parsePieces ps).map COp.stream
  | ["abandon", ps] => (parsePieces ps).map COp.abandon
  | ["wopen", w] => w.toNat?.map COp.wopen
  | ["wwrite", w, d] => match w.toNat?, unhex d with
      | some w, some d => some (.wwrite w d) | _, _ => none
  | ["wfinish", w] => w.toNat?.map COp.wfinish
  | ["wdrop", w] => w.toNat?.map COp.wdrop
  | ["delete", a] => (parseArt a).map COp.delete
  | ["get", a] => (parseArt a).map COp.get
  | ["verify", a] => (parseArt a).map COp.verify
  | ["gc"] => some .gc
  | ["gcsel", ks] => (parsePieces ks).map fun ks =>
      .gcBatch ((List.range s.chunks.length).filter fun i => match (s.chunks.map (·.1))[i]? with
        | some k => ks.contains k | none => false)
  | ["fullgc"] => some .fullGc
  | ["repair"] => some .repair
  | ["tick", n] => n.toNat?.map COp.tick
  | _ => none

/-- the line of a stamped operation (the answer is computed by `blobStep` on it) -/
def showWOp (s : State Key) : WOp → String
  | .base (.put t d) => s!"put {t} {hex d}"
  | .base (.stream t ps) => s!"stream {t} " ++ (if ps.isEmpty then "." else ",".intercalate (ps.map fun p => if p.isEmpty then "-" else hex p))
  | .base (.abandon t ps) => s!"abandon {t} " ++ (if ps.isEmpty then "." else ",".intercalate (ps.map fun p => if p.isEmpty then "-" else hex p))
  | .base (.delete id) => s!"delete a{id}"
  | .base (.gc mc batch) =>
      let ks := batch.filterMap fun i => (s.chunks.map (·.1))[i]?
      s!"gcsel {mc} " ++ (if ks.isEmpty then "." else ",".intercalate (ks.map hex))
  | .base (.gcAll now age) => s!"gc {now} {age}"
  | .base .fullGc => "fullgc"
  | .base .repair => "repair"
  | .base (.verify id) => s!"verify a{id}"
  | .base (.get id) => s!"get a{id}"
  | .wopen w => s!"wopen {w}"
  | .wwrite w t d => s!"wwrite {w} {t} {hex d}"
  | .wfinish w t => s!"wfinish {w} {t}"
  | .wdrop w => s!"wdrop {w}"

/-- `c <op>`: the state moves by `applyC` (the function the theorems of `Props2` are about); the answer is the
    answer of the operation with the clock filled in (`COp.stamp`) -/
def cstep (ds : DState) (ws : List String) : DState × String :=
  match parseCOp ds.st ws with
  | none => (ds, "bad-op")
  | some op =>
    let c := applyC hid ds.cfg ds.minAge ⟨⟨ds.st, ds.writers⟩, ds.now⟩ op
    let ds' := { ds with st := c.x.st, writers := c.x.writers, now := c.now }
    match op.stamp ds.minAge ds.now with
    | none => (ds', s!"ok {c.now}")
    | some w =>
      let ans := (blobStep ds (showWOp ds.st w)).2
      (if ans = "bad-op" then ds else ds', ans)

/-- `! <op>` answers `<answer of op>\t<image after op>` in one round trip -/
def blobStepImg (ds : DState) (line : String) : DState × String :=
  match line.toList with
  | '!' :: ' ' :: rest =>
      let r := match rest with
        | 'c' :: ' ' :: rest' => cstep ds (words (String.ofList rest'))
        | _ => blobStep ds (String.ofList rest)
      (r.1, r.2 ++ "\t" ++ showImage r.1.st)
  | 'c' :: ' ' :: rest => cstep ds (words (String.ofList rest))
  | _ => blobStep ds line

def main : IO Unit := run blobStepImg { cfg := ⟨4, none⟩, st := State.init, writers := [] }
