import NeumannModel.Blob.Lemmas
/- C19 — the sequential invariant and its preservation by every operation. -/
namespace Neumann.Blob
section
variable {K : Type} [DecidableEq K] (h : List Nat → K)

/-- what every state reachable by store operations satisfies -/
structure WF (s : State K) : Prop where
  nodup : (keys s.chunks).Nodup
  addr : Addressed h s.chunks
  refs : ∀ k, occ k s.arts ≤ refsOf k s.chunks
  idsLt : ∀ p ∈ s.arts, p.1 < s.next
  idsNodup : (keys s.arts).Nodup
  intact : ∀ p ∈ s.arts, ∃ d, readChunks s.chunks p.2.chunks = .ok d ∧ p.2.checksum = h d ∧ p.2.size = d.length

theorem WF_init : WF h (State.init : State K) :=
  ⟨by simp [State.init], by intro p hp; simp [State.init] at hp, by intro k; simp [State.init, occ],
   by intro p hp; simp [State.init] at hp, by simp [State.init], by intro p hp; simp [State.init] at hp⟩

/-- a change of the chunk table that keeps keys unique, content-addressed, refcounts above the
    occurrences and the data of every listed key: invariant kept, every artifact reads the same -/
theorem table_change {s : State K} (hw : WF h s) {tbl' : List (K × CRec)}
    (hn : (keys tbl').Nodup) (ha : Addressed h tbl') (hr : ∀ k, occ k s.arts ≤ refsOf k tbl')
    (hd : ∀ k, 0 < occ k s.arts → dataOf k tbl' = dataOf k s.chunks) :
    WF h { s with chunks := tbl' } ∧
    (∀ p ∈ s.arts, readChunks tbl' p.2.chunks = readChunks s.chunks p.2.chunks) := by
  have hk : ∀ p ∈ s.arts, readChunks tbl' p.2.chunks = readChunks s.chunks p.2.chunks := by
    intro p hp
    exact readChunks_congr (fun k hk => hd k (occ_pos_of_mem hp hk))
  refine ⟨⟨hn, ha, hr, hw.idsLt, hw.idsNodup, ?_⟩, hk⟩
  intro p hp
  obtain ⟨d, h1, h2, h3⟩ := hw.intact p hp
  exact ⟨d, by rw [hk p hp]; exact h1, h2, h3⟩

theorem get_table_change {s : State K} {tbl' : List (K × CRec)}
    (hk : ∀ p ∈ s.arts, readChunks tbl' p.2.chunks = readChunks s.chunks p.2.chunks) (id : Nat) :
    get { s with chunks := tbl' } id = get s id := by
  unfold get
  cases hf : find id s.arts with
  | none => rfl
  | some a => exact hk (id, a) (find_some_mem hf)

/-- storing chunks (a writer's `write` calls, finished or not) -/
theorem storeAll_change {s : State K} (hw : WF h s) (t : Nat) (cds : List (List Nat)) :
    WF h { s with chunks := cds.foldl (storeChunk h t) s.chunks } ∧
    (∀ p ∈ s.arts, readChunks (cds.foldl (storeChunk h t) s.chunks) p.2.chunks = readChunks s.chunks p.2.chunks) := by
  apply table_change h hw (storeAll_keys_nodup h t cds hw.nodup) (storeAll_addressed h t cds hw.addr)
  · intro k; rw [refsOf_storeAll]; have := hw.refs k; omega
  · intro k hk
    have : 0 < refsOf k s.chunks := by have := hw.refs k; omega
    exact dataOf_storeAll_present h t cds (refsOf_pos_isSome this)

theorem fresh_id {s : State K} (hw : WF h s) : find s.next s.arts = none := by
  rw [find_none_iff]
  intro hm
  obtain ⟨p, hp, he⟩ := List.mem_map.mp hm
  have := hw.idsLt p hp
  omega

/-- a finished writer: chunks stored, metadata appended under a fresh id -/
theorem stream_step (hi : HashInj h) {s : State K} (hw : WF h s) (cfg : Cfg) (t : Nat) (ps : List (List Nat)) :
    WF h (stream h cfg t s ps).1 ∧
    (∀ id, (find id s.arts).isSome → get (stream h cfg t s ps).1 id = get s id) ∧
    get (stream h cfg t s ps).1 (stream h cfg t s ps).2 = .ok ps.flatten := by
  rw [stream_eq]
  generalize hcds : streamChunks cfg.chunkSize ps = cds
  have hfl : cds.flatten = ps.flatten := by rw [← hcds]; exact streamChunks_flatten _ _
  obtain ⟨hw1, hk1⟩ := storeAll_change h hw t cds
  have hnew : readChunks (cds.foldl (storeChunk h t) s.chunks) (cds.map h) = .ok ps.flatten := by
    rw [← hfl]; exact readChunks_storeAll h hi t cds hw.addr
  have hfresh := fresh_id h hw
  refine ⟨⟨hw1.nodup, hw1.addr, ?_, ?_, ?_, ?_⟩, ?_, ?_⟩
  · intro k
    simp only [occ_append, occ_cons, occ_nil, Nat.add_zero]
    rw [refsOf_storeAll]
    have := hw.refs k; omega
  · intro p hp
    simp only [List.mem_append, List.mem_singleton] at hp
    rcases hp with hp | hp
    · have := hw.idsLt p hp; simp only; omega
    · subst hp; simp
  · simp only [keys, List.map_append, List.map_cons, List.map_nil]
    refine List.nodup_append.mpr ⟨hw.idsNodup, by simp, ?_⟩
    intro a ha b hb
    simp at hb; subst hb
    intro e; subst e
    exact (find_none_iff _ _).mp hfresh ha
  · intro p hp
    simp only [List.mem_append, List.mem_singleton] at hp
    rcases hp with hp | hp
    · obtain ⟨d, h1, h2, h3⟩ := hw.intact p hp
      exact ⟨d, by simp only; rw [hk1 p hp]; exact h1, h2, h3⟩
    · subst hp
      exact ⟨ps.flatten, hnew, rfl, rfl⟩
  · intro id hid
    unfold get
    simp only [find_append]
    cases hf : find id s.arts with
    | none => simp [hf] at hid
    | some a => simp only; exact hk1 (id, a) (find_some_mem hf)
  · unfold get
    simp only [find_append, hfresh, find_cons, if_true]
    exact hnew

theorem abandon_step {s : State K} (hw : WF h s) (cfg : Cfg) (t : Nat) (ps : List (List Nat)) :
    WF h (streamAbandon h cfg t s ps) ∧ (∀ id, get (streamAbandon h cfg t s ps) id = get s id) := by
  rw [abandon_eq]
  obtain ⟨hw1, hk1⟩ := storeAll_change h hw t (emit cfg.chunkSize [] ps).1
  exact ⟨hw1, get_table_change hk1⟩

/-- `delete`: other artifacts read the same (no invariant needed) -/
theorem get_delete_other (s : State K) (id id' : Nat) (hne : id' ≠ id) :
    get (delete s id).1 id' = get s id' := by
  unfold delete
  cases hf : find id s.arts with
  | none => rfl
  | some a =>
    unfold get
    simp only [find_erase, hne, if_false]
    cases find id' s.arts with
    | none => rfl
    | some b => exact readChunks_congr (fun k _ => dataOf_decAll a.chunks s.chunks k)

theorem delete_step {s : State K} (hw : WF h s) (id : Nat) : WF h (delete s id).1 := by
  unfold delete
  cases hf : find id s.arts with
  | none => exact hw
  | some a =>
    have hsub : ∀ p ∈ erase id s.arts, p ∈ s.arts := fun p hp => (List.mem_filter.mp hp).1
    refine ⟨by simp only [keys_decAll]; exact hw.nodup, addressed_decAll h a.chunks hw.addr, ?_, ?_, ?_, ?_⟩
    · intro k
      simp only [refsOf_decAll]
      have h1 := @occ_erase_le _ _ k _ _ _ hf
      have h2 := hw.refs k
      omega
    · intro p hp; exact hw.idsLt p (hsub p hp)
    · exact keys_filter_nodup _ hw.idsNodup
    · intro p hp
      obtain ⟨d, h1, h2, h3⟩ := hw.intact p (hsub p hp)
      refine ⟨d, ?_, h2, h3⟩
      simp only
      rw [readChunks_congr (fun k _ => dataOf_decAll a.chunks s.chunks k)]
      exact h1

/-- removing records none of which is listed by an artifact -/
theorem filter_change {s : State K} (hw : WF h s) (p : K × CRec → Bool)
    (hp : ∀ q ∈ s.chunks, p q = false → occ q.1 s.arts = 0) :
    WF h { s with chunks := s.chunks.filter p } ∧
    (∀ a ∈ s.arts, readChunks (s.chunks.filter p) a.2.chunks = readChunks s.chunks a.2.chunks) := by
  have hfind : ∀ k, 0 < occ k s.arts → find k (s.chunks.filter p) = find k s.chunks := by
    intro k hk
    rw [find_filter p hw.nodup]
    cases hf : find k s.chunks with
    | none => rfl
    | some r =>
      simp only [Option.bind_some]
      by_cases hpk : p (k, r) = true
      · simp [hpk]
      · have := hp (k, r) (find_some_mem hf) (by simpa using hpk)
        simp only at this; omega
  apply table_change h hw (keys_filter_nodup p hw.nodup) (fun q hq => hw.addr q (List.mem_filter.mp hq).1)
  · intro k
    by_cases hk : 0 < occ k s.arts
    · unfold refsOf; rw [hfind k hk]; exact hw.refs k
    · omega
  · intro k hk; unfold dataOf; rw [hfind k hk]

theorem gcSel_step {s : State K} (hw : WF h s) (mc : Nat) (sel : K → Bool) :
    WF h (gcSel mc sel s).1 ∧ (∀ id, get (gcSel mc sel s).1 id = get s id) := by
  have := filter_change h hw (fun q => !gcDead mc sel q) (by
    intro q hq hdead
    have hd : gcDead mc sel q = true := by simpa using hdead
    simp only [gcDead, Bool.and_eq_true, decide_eq_true_eq] at hd
    have hf := mem_find hw.nodup (show (q.1, q.2) ∈ s.chunks from hq)
    have := hw.refs q.1
    unfold refsOf at this; rw [hf] at this
    simp only at this
    have h0 := hd.1.2
    omega)
  exact ⟨this.1, get_table_change this.2⟩

theorem fullGc_step {s : State K} (hw : WF h s) :
    WF h (fullGc s).1 ∧ (∀ id, get (fullGc s).1 id = get s id) := by
  have := filter_change h hw (fun q => (referenced s.arts).contains q.1) (by
    intro q _ hq
    rw [contains_referenced] at hq
    simpa using hq)
  exact ⟨this.1, get_table_change this.2⟩

theorem fixRefs_eq (arts : List (Nat × Art K)) (p : K × CRec) :
    fixRefs arts p = (p.1, { p.2 with refs := occ p.1 arts }) := by
  unfold fixRefs
  by_cases e : p.2.refs = occ p.1 arts
  · simp only [ne_eq, e, not_true_eq_false, if_false]
    cases p with | mk k r => cases r; simp_all
  · simp [e]

theorem repair_step {s : State K} (hw : WF h s) :
    WF h (repair s).1 ∧ (∀ id, get (repair s).1 id = get s id) := by
  obtain ⟨hw1, hk1⟩ := filter_change h hw (fun q => decide (occ q.1 s.arts ≠ 0)) (by
    intro q _ hq; simpa using hq)
  have hmap : (s.chunks.filter (fun q => decide (occ q.1 s.arts ≠ 0))).map (fixRefs s.arts)
      = (s.chunks.filter (fun q => decide (occ q.1 s.arts ≠ 0))).map
          (fun p => (p.1, (fun q : K × CRec => { q.2 with refs := occ q.1 s.arts }) p)) := by
    apply List.map_congr_left; intro p _; exact fixRefs_eq _ _
  generalize hft : s.chunks.filter (fun q => decide (occ q.1 s.arts ≠ 0)) = ft at *
  have hs1 : ({ s with chunks := ft } : State K).arts = s.arts := rfl
  have := table_change h hw1
    (tbl' := ft.map (fun p => (p.1, (fun q : K × CRec => { q.2 with refs := occ q.1 s.arts }) p)))
    (by rw [keys_map_val]; exact hw1.nodup)
    (by
      intro p hp
      obtain ⟨q, hq, rfl⟩ := List.mem_map.mp hp
      exact hw1.addr q hq)
    (by
      intro k
      unfold refsOf
      rw [find_map_val]
      by_cases hk : 0 < occ k s.arts
      · have := hw1.refs k
        have hpos : (find k ft).isSome := refsOf_pos_isSome (by simp only at this; omega)
        cases hf : find k ft with
        | none => simp [hf] at hpos
        | some r => simp
      · simp only; omega)
    (by
      intro k _
      unfold dataOf
      rw [find_map_val]
      cases find k ft <;> rfl)
  unfold repair
  simp only [hft, hmap]
  refine ⟨this.1, fun id => ?_⟩
  have e1 := get_table_change (s := { s with chunks := ft }) this.2 id
  have e2 := get_table_change hk1 id
  simp only at e1 e2
  rw [← e2, ← e1]

/-! ### operation sequences -/

theorem put_cases (cfg : Cfg) (t : Nat) (s : State K) (d : List Nat) :
    ((put h cfg t s d).1 = s ∧ ∃ e, (put h cfg t s d).2 = .error e) ∨
    (put h cfg t s d = ((stream h cfg t s [d]).1, .ok (stream h cfg t s [d]).2)) := by
  unfold put
  by_cases hd : d = []
  · left; simp [hd]
  · by_cases hm : tooLarge cfg d.length = true
    · left; rw [if_neg hd, if_pos hm]; exact ⟨rfl, _, rfl⟩
    · right; rw [if_neg hd, if_neg hm]

/-- every operation keeps the invariant, keeps every artifact it does not delete, and every such
    artifact reads the same afterwards -/
theorem applyOp_step (hi : HashInj h) (cfg : Cfg) {s : State K} (hw : WF h s) (op : Op) :
    WF h (applyOp h cfg s op) ∧
    ∀ id, (find id s.arts).isSome → op ≠ .delete id →
      (find id (applyOp h cfg s op).arts).isSome ∧ get (applyOp h cfg s op) id = get s id := by
  have hstream : ∀ t ps, WF h (stream h cfg t s ps).1 ∧ ∀ id, (find id s.arts).isSome →
      (find id (stream h cfg t s ps).1.arts).isSome ∧ get (stream h cfg t s ps).1 id = get s id := by
    intro t ps
    obtain ⟨h1, h2, _⟩ := stream_step h hi hw cfg t ps
    refine ⟨h1, fun id hid => ⟨?_, h2 id hid⟩⟩
    rw [stream_eq]; simp only [find_append]
    cases hf : find id s.arts with
    | none => simp [hf] at hid
    | some a => rfl
  cases op with
  | put t d =>
    simp only [applyOp]
    rcases put_cases h cfg t s d with ⟨e, _⟩ | e
    · rw [e]; exact ⟨hw, fun id hid _ => ⟨hid, rfl⟩⟩
    · rw [e]; exact ⟨(hstream t [d]).1, fun id hid _ => (hstream t [d]).2 id hid⟩
  | stream t ps => exact ⟨(hstream t ps).1, fun id hid _ => (hstream t ps).2 id hid⟩
  | abandon t ps =>
    obtain ⟨h1, h2⟩ := abandon_step h hw cfg t ps
    refine ⟨h1, fun id hid _ => ⟨?_, h2 id⟩⟩
    simp only [applyOp]; rw [abandon_eq]; exact hid
  | delete id' =>
    refine ⟨delete_step h hw id', fun id hid hne => ⟨?_, get_delete_other s id' id (fun e => hne (by rw [e]))⟩⟩
    simp only [applyOp, delete]
    cases hf : find id' s.arts with
    | none => exact hid
    | some a =>
      simp only [find_erase]
      have : ¬ id = id' := fun e => hne (by rw [e])
      simp [this, hid]
  | gc mc batch =>
    obtain ⟨h1, h2⟩ := gcSel_step h hw mc
      (fun k => batch.any (fun i => decide ((s.chunks.map (·.1))[i]? = some k)))
    exact ⟨h1, fun id hid _ => ⟨hid, h2 id⟩⟩
  | gcAll now age =>
    obtain ⟨h1, h2⟩ := gcSel_step h hw (now - age) (fun _ => true)
    exact ⟨h1, fun id hid _ => ⟨hid, h2 id⟩⟩
  | fullGc =>
    obtain ⟨h1, h2⟩ := fullGc_step h hw
    exact ⟨h1, fun id hid _ => ⟨hid, h2 id⟩⟩
  | verify _ => exact ⟨hw, fun id hid _ => ⟨hid, rfl⟩⟩
  | get _ => exact ⟨hw, fun id hid _ => ⟨hid, rfl⟩⟩
  | repair =>
    obtain ⟨h1, h2⟩ := repair_step h hw
    exact ⟨h1, fun id hid _ => ⟨hid, h2 id⟩⟩

theorem run_step (hi : HashInj h) (cfg : Cfg) (ops : List Op) {s : State K} (hw : WF h s) :
    WF h (run h cfg s ops) ∧
    ∀ id, (find id s.arts).isSome → (∀ op ∈ ops, op ≠ .delete id) → get (run h cfg s ops) id = get s id := by
  induction ops generalizing s with
  | nil => exact ⟨hw, fun _ _ _ => rfl⟩
  | cons op ops ih =>
    obtain ⟨h1, h2⟩ := applyOp_step h hi cfg hw op
    obtain ⟨h3, h4⟩ := ih h1
    refine ⟨h3, fun id hid hnd => ?_⟩
    obtain ⟨h5, h6⟩ := h2 id hid (hnd op (by simp))
    have := h4 id h5 (fun o ho => hnd o (by simp [ho]))
    simp only [run, List.foldl_cons] at this ⊢
    rw [this, h6]

theorem WF_reach (hi : HashInj h) (cfg : Cfg) (ops : List Op) : WF h (run h cfg (State.init : State K) ops) :=
  (run_step h hi cfg ops (WF_init h)).1

/-- delete every artifact currently listed -/
def deleteAll (s : State K) : State K := (keys s.arts).foldl (fun s id => (delete s id).1) s

theorem deleteList_arts_nil (ids : List Nat) (s : State K) (hc : ∀ p ∈ s.arts, p.1 ∈ ids) :
    (ids.foldl (fun s id => (delete s id).1) s).arts = [] := by
  induction ids generalizing s with
  | nil =>
    cases hs : s.arts with
    | nil => simpa using hs
    | cons p l => have := hc p (by simp [hs]); simp at this
  | cons id ids ih =>
    rw [List.foldl_cons]
    apply ih
    intro p hp
    unfold delete at hp
    cases hf : find id s.arts with
    | none =>
      simp only [hf] at hp
      have hne : p.1 ≠ id := by
        intro e
        have := (find_none_iff id s.arts).mp hf
        exact this (e ▸ List.mem_map.mpr ⟨p, hp, rfl⟩)
      have := hc p hp
      simp only [List.mem_cons] at this
      rcases this with e | e
      · exact absurd e hne
      · exact e
    | some a =>
      simp only [hf, erase, List.mem_filter, decide_eq_true_eq] at hp
      have := hc p hp.1
      simp only [List.mem_cons] at this
      rcases this with e | e
      · exact absurd e hp.2
      · exact e

theorem storeAll_keys_of_present (t : Nat) (cds : List (List Nat)) (tbl : List (K × CRec))
    (hp : ∀ d ∈ cds, (find (h d) tbl).isSome) : keys (cds.foldl (storeChunk h t) tbl) = keys tbl := by
  induction cds generalizing tbl with
  | nil => rfl
  | cons d cds ih =>
    rw [List.foldl_cons, ih]
    · unfold storeChunk
      have := hp d (by simp)
      cases hf : find (h d) tbl with
      | none => simp [hf] at this
      | some r => simp only [keys_modify]
    · intro d' hd'
      rw [isSome_storeChunk]
      simp [hp d' (by simp [hd'])]

/-! ### equality of refcounts and occurrences when no writer is abandoned -/

def RefsEq (s : State K) : Prop := ∀ k, refsOf k s.chunks = occ k s.arts

def Op.isAbandon : Op → Bool
  | .abandon _ _ => true
  | _ => false

theorem refsEq_filter {s : State K} (hw : WF h s) (he : RefsEq s) (p : K × CRec → Bool)
    (hp : ∀ q ∈ s.chunks, p q = false → occ q.1 s.arts = 0) (k : K) :
    refsOf k (s.chunks.filter p) = occ k s.arts := by
  have := he k
  unfold refsOf at this ⊢
  rw [find_filter p hw.nodup]
  cases hf : find k s.chunks with
  | none => rw [hf] at this; simpa using this
  | some r =>
    rw [hf] at this
    simp only [Option.bind_some]
    by_cases hpk : p (k, r) = true
    · simpa [hpk] using this
    · have h0 := hp (k, r) (find_some_mem hf) (by simpa using hpk)
      simp only at h0
      simp [hpk, h0]

theorem refsEq_applyOp (hi : HashInj h) (cfg : Cfg) {s : State K} (hw : WF h s) (he : RefsEq s) (op : Op)
    (hna : op.isAbandon = false) : RefsEq (applyOp h cfg s op) := by
  have hstream : ∀ t ps, RefsEq (stream h cfg t s ps).1 := by
    intro t ps k
    rw [stream_eq]
    simp only [occ_append, occ_cons, occ_nil, Nat.add_zero, refsOf_storeAll, he k]
  cases op with
  | put t d =>
    simp only [applyOp]
    rcases put_cases h cfg t s d with ⟨e, _⟩ | e
    · rw [e]; exact he
    · rw [e]; exact hstream t [d]
  | stream t ps => exact hstream t ps
  | abandon t ps => simp [Op.isAbandon] at hna
  | delete id =>
    simp only [applyOp, delete]
    cases hf : find id s.arts with
    | none => exact he
    | some a =>
      intro k
      simp only [refsOf_decAll, he k]
      have := @occ_erase_eq _ _ k _ _ _ hw.idsNodup hf
      omega
  | gc mc batch =>
    intro k
    simp only [applyOp, gcSel]
    refine refsEq_filter h hw he _ ?_ k
    intro q hq hdead
    have hd : gcDead mc (fun k => batch.any (fun i => decide ((s.chunks.map (·.1))[i]? = some k))) q = true := by
      simpa using hdead
    simp only [gcDead, Bool.and_eq_true, decide_eq_true_eq] at hd
    have hf := mem_find hw.nodup (show (q.1, q.2) ∈ s.chunks from hq)
    have := hw.refs q.1
    unfold refsOf at this; rw [hf] at this
    simp only at this
    have h0 := hd.1.2
    omega
  | gcAll now age =>
    intro k
    simp only [applyOp, gc, gcSel]
    refine refsEq_filter h hw he _ ?_ k
    intro q hq hdead
    have hd : gcDead (now - age) (fun _ => true) q = true := by simpa using hdead
    simp only [gcDead, Bool.and_eq_true, decide_eq_true_eq] at hd
    have hf := mem_find hw.nodup (show (q.1, q.2) ∈ s.chunks from hq)
    have := hw.refs q.1
    unfold refsOf at this; rw [hf] at this
    simp only at this
    have h0 := hd.1.2
    omega
  | fullGc =>
    intro k
    simp only [applyOp, fullGc]
    refine refsEq_filter h hw he _ ?_ k
    intro q _ hq
    rw [contains_referenced] at hq
    simpa using hq
  | verify _ => exact he
  | get _ => exact he
  | repair =>
    intro k
    simp only [applyOp, repair]
    have hflt := refsEq_filter h hw he (fun q => decide (occ q.1 s.arts ≠ 0)) (by intro q _ hq; simpa using hq) k
    have hmap : (s.chunks.filter (fun q => decide (occ q.1 s.arts ≠ 0))).map (fixRefs s.arts)
        = (s.chunks.filter (fun q => decide (occ q.1 s.arts ≠ 0))).map
            (fun p => (p.1, (fun q : K × CRec => { q.2 with refs := occ q.1 s.arts }) p)) := by
      apply List.map_congr_left; intro p _; exact fixRefs_eq _ _
    rw [hmap]
    unfold refsOf at hflt ⊢
    rw [find_map_val]
    cases hf : find k (s.chunks.filter (fun q => decide (occ q.1 s.arts ≠ 0))) with
    | none => rw [hf] at hflt; simpa using hflt
    | some r => simp

theorem refsEq_run (hi : HashInj h) (cfg : Cfg) (ops : List Op) {s : State K} (hw : WF h s) (he : RefsEq s)
    (hna : ∀ op ∈ ops, op.isAbandon = false) : RefsEq (run h cfg s ops) := by
  induction ops generalizing s with
  | nil => exact he
  | cons op ops ih =>
    simp only [run, List.foldl_cons]
    exact ih (applyOp_step h hi cfg hw op).1 (refsEq_applyOp h hi cfg hw he op (hna op (by simp)))
      (fun o ho => hna o (by simp [ho]))

end
end Neumann.Blob
