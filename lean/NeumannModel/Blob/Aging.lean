import NeumannModel.Blob.Writers
/-
  C19 — a LONG-LIVED `BlobStore` under the wall clock.  Import-free (core Lean + Model + Writers), total, computable.

  One `BlobStore` value (`lib.rs`: `store`, `config`, `gc: Arc<GarbageCollector>`) serves every call of a history:
  `put / writer / delete / gc() / full_gc() / repair()` and the ticks of the background task (`start()`) all go
  through the same `GarbageCollector`, whose `min_age` is fixed when the store is built.  No call names a time:
  `store_chunk` stamps a NEW record with `current_timestamp()` (whole seconds), `gc_cycle` compares
  `_created < current_timestamp() - min_age`.  `CState` is the store with its open writers plus the clock;
  `COp.tick n` lets `n` seconds pass; `applyC` fills the clock into the operations of `Writers.lean`
  (`COp.stamp`), so a clocked history is literally a `WOp` history (`stampAll`, AgingLemmas: `runC_eq_runW`).

  `gc.rs` as it is: `GarbageCollector` has the fields `store`, `config`, `shutdown_tx` — a cycle carries NOTHING
  over from an earlier cycle; what it removes is decided on the records as they are when it runs (`gcSel`).
  `CycleSpec` states just that about one cycle of ANY collector, stateless or not.

  `gcRemembering` is NOT the current code: the variant whose collector remembers the zero-reference records an
  earlier cycle found too young (`young_orphans: (key, created, size)`) and deletes them in a later cycle once
  their remembered age has passed `min_age`, WITHOUT reading the record again — kept here for the witness that it
  removes a chunk that was referenced again in between (Props2: `remembered_young_orphans_collect_rereferenced_chunk_witness`).
-/
namespace Neumann.Blob

/-- operations of a long-lived store; none of them names a time -/
inductive COp
  | put (d : List Nat)
  | stream (pieces : List (List Nat))
  | abandon (pieces : List (List Nat))
  | wopen (w : Nat)
  | wwrite (w : Nat) (piece : List Nat)
  | wfinish (w : Nat)
  | wdrop (w : Nat)
  | delete (id : Nat)
  /-- `BlobStore::gc()` or one tick of the background task, `batch_size` at least the number of chunks -/
  | gc
  /-- the same with a smaller `batch_size`: `batch` = positions of the scan the cycle looked at -/
  | gcBatch (batch : List Nat)
  | fullGc
  | repair
  | get (id : Nat)
  | verify (id : Nat)
  /-- `n` seconds pass -/
  | tick (n : Nat)
  deriving DecidableEq, Repr

/-- the operation with the clock filled in (`min_age` is the store's configuration); `none` for `tick` -/
def COp.stamp (minAge now : Nat) : COp → Option WOp
  | .put d => some (.base (.put now d))
  | .stream ps => some (.base (.stream now ps))
  | .abandon ps => some (.base (.abandon now ps))
  | .wopen w => some (.wopen w)
  | .wwrite w piece => some (.wwrite w now piece)
  | .wfinish w => some (.wfinish w now)
  | .wdrop w => some (.wdrop w)
  | .delete id => some (.base (.delete id))
  | .gc => some (.base (.gcAll now minAge))
  | .gcBatch batch => some (.base (.gc (now - minAge) batch))
  | .fullGc => some (.base .fullGc)
  | .repair => some (.base .repair)
  | .get id => some (.base (.get id))
  | .verify id => some (.base (.verify id))
  | .tick _ => none

def COp.secs : COp → Nat
  | .tick n => n
  | _ => 0

/-- the store, its open writers and the wall clock (seconds) -/
structure CState (K : Type) where
  x : WState K
  now : Nat
  deriving DecidableEq, Repr

def CState.init {K : Type} (now : Nat) : CState K := ⟨WState.init, now⟩

/-- the `WOp` history a clocked history is, the clock starting at `now` -/
def stampAll (minAge : Nat) : Nat → List COp → List WOp
  | _, [] => []
  | now, op :: ops =>
    match op.stamp minAge now with
    | some w => w :: stampAll minAge now ops
    | none => stampAll minAge (now + op.secs) ops

/-- the clock after a history -/
def clockAfter (now : Nat) (ops : List COp) : Nat := ops.foldl (fun t op => t + op.secs) now

section
variable {K : Type} [DecidableEq K] (h : List Nat → K)

def applyC (cfg : Cfg) (minAge : Nat) (c : CState K) (op : COp) : CState K :=
  match op.stamp minAge c.now with
  | some w => { c with x := applyW h cfg c.x w }
  | none => { c with now := c.now + op.secs }

def runC (cfg : Cfg) (minAge : Nat) (c : CState K) (ops : List COp) : CState K :=
  ops.foldl (applyC h cfg minAge) c

end

/-! ## what one collection cycle may do -/

/-- One cycle of an incremental collector took the store from `s` to `s'`: artifacts untouched, records only
    removed (never altered, never added), and every removed record had `_refs = 0` IN `s` — in the store as it
    was when the cycle ran, whatever the collector had seen or remembered before. -/
def CycleSpec {K : Type} (s s' : State K) : Prop :=
  s'.arts = s.arts ∧ s'.next = s.next ∧
  ∃ keep : K × CRec → Bool, s'.chunks = s.chunks.filter keep ∧ ∀ q ∈ s.chunks, keep q = false → q.2.refs = 0

/-! ## the remembering variant (NOT the current code) -/

/-- what the variant's collector keeps between cycles: `(key, created, size)` of zero-reference records that
    were too young -/
abbrev Remembered (K : Type) := List (K × Nat × Nat)

section
variable {K : Type} [DecidableEq K]

/-- first loop of the variant's cycle: every remembered entry whose REMEMBERED `created` is old enough by now is
    deleted by key (`store.delete(key).is_ok()` counts it; an absent key is an error and is not counted) and
    forgotten; the record is not read -/
def reclaimRemembered (minCreated : Nat) : Remembered K → List (K × CRec) × Nat × Nat → List (K × CRec) × Nat × Nat
  | [], acc => acc
  | (k, created, size) :: rest, (tbl, n, freed) =>
    if created ≥ minCreated then reclaimRemembered minCreated rest (tbl, n, freed)
    else if (find k tbl).isSome then reclaimRemembered minCreated rest (erase k tbl, n + 1, freed + size)
    else reclaimRemembered minCreated rest (tbl, n, freed)

/-- second loop of the variant's cycle, one scanned record: zero references and too young ⇒ remembered (once) -/
def rememberYoung (minCreated : Nat) (young : Remembered K) (p : K × CRec) : Remembered K :=
  if p.2.refs = 0 ∧ p.2.created ≥ minCreated ∧ ¬ young.any (fun e => decide (e.1 = p.1))
  then young ++ [(p.1, p.2.created, p.2.size)] else young

/-- `gc_cycle` of the variant (whole scan): reclaim the remembered entries that have aged, then scan as the
    current code does, remembering the zero-reference records that are too young -/
def gcRemembering (now minAge : Nat) (young : Remembered K) (s : State K) : Remembered K × State K × Nat × Nat :=
  let mc := now - minAge
  let r := reclaimRemembered mc young (s.chunks, 0, 0)
  let kept := young.filter (fun e => decide (e.2.1 ≥ mc))
  let g := gcSel mc (fun _ => true) { s with chunks := r.1 }
  (r.1.foldl (rememberYoung mc) kept, g.1, r.2.1 + g.2.1, r.2.2 + g.2.2)

end

end Neumann.Blob
