import NeumannModel.Blob.ConcProofs
/- C19 — the call-level scheduler (`runCalls`, what the yield-point trace of the real threads is compared
   with) is a refinement of the step-level one (`runSched`, what the theorems quantify over). -/
namespace Neumann.Blob
section
variable {K : Type} [DecidableEq K] (h : List Nat → K)

theorem runSched_append (s : State K) (ths : List (Th K)) (a b : List Nat) :
    runSched h s ths (a ++ b) = runSched h (runSched h s ths a).1 (runSched h s ths a).2 b := by
  induction a generalizing s ths with
  | nil => rfl
  | cons i a ih => simp only [List.cons_append, runSched]; exact ih _ _

/-- `n` steps of one thread -/
def iterTh : Nat → State K × Th K → State K × Th K
  | 0, p => p
  | n + 1, p => iterTh n (stepTh h p.1 p.2)

theorem runSched_replicate (n : Nat) (s : State K) (ths : List (Th K)) (i : Nat) (hi : i < ths.length) (th : Th K) :
    runSched h s (ths.set i th) (List.replicate n i) =
      ((iterTh h n (s, th)).1, ths.set i (iterTh h n (s, th)).2) := by
  induction n generalizing s th with
  | zero => rfl
  | succ n ih =>
    simp only [List.replicate_succ, runSched, iterTh]
    have hget : (ths.set i th)[i]? = some th := by
      rw [List.getElem?_set_self (by simpa using hi)]
    have hstep : stepAt h s (ths.set i th) i = ((stepTh h s th).1, ths.set i (stepTh h s th).2) := by
      unfold stepAt; rw [hget]; simp only [List.set_set]
    rw [hstep]
    exact ih _ _

theorem settle_fGet_reach (s : State K) (refd todo : List K) :
    ∃ n, iterTh h n (s, Th.fGet refd todo) = (s, settle (Th.fGet refd todo)) := by
  induction todo with
  | nil => exact ⟨1, rfl⟩
  | cons k todo ih =>
    by_cases hc : refd.contains k = true
    · obtain ⟨n, hn⟩ := ih
      refine ⟨n + 1, ?_⟩
      have h1 : stepTh h s (Th.fGet refd (k :: todo)) = (s, Th.fGet refd todo) := by
        simp only [stepTh, hc, if_true]
      have h2 : settle (Th.fGet refd (k :: todo)) = settle (Th.fGet refd todo) := by
        simp only [settle, List.dropWhile_cons, hc, if_true]
      rw [iterTh, h1, h2]; exact hn
    · refine ⟨0, ?_⟩
      simp only [iterTh, settle, List.dropWhile_cons, hc]
      rfl

/-- the silent transitions `settle` runs are steps of the thread that leave the store alone -/
theorem settle_reach (s : State K) (th : Th K) : ∃ n, iterTh h n (s, th) = (s, settle th) := by
  cases th with
  | gGet mc todo =>
    cases todo with
    | nil => exact ⟨1, rfl⟩
    | cons k todo => exact ⟨0, rfl⟩
  | fGetMeta ids refd ordK =>
    cases ids with
    | nil => exact ⟨1, rfl⟩
    | cons id ids => exact ⟨0, rfl⟩
  | fGet refd todo => exact settle_fGet_reach h s refd todo
  | _ => exact ⟨0, rfl⟩

/-- every call-level run is a step-level run (of a longer schedule): whatever holds for all `runSched`
    schedules holds for the runs compared with the real threads -/
theorem runCalls_refines_aux (sched : List Nat) (s : State K) (ths : List (Th K)) :
    ∃ sched', runSched h s ths sched' = runCalls h s ths sched := by
  induction sched generalizing s ths with
  | nil => exact ⟨[], rfl⟩
  | cons i sc ih =>
    rw [runCalls]
    cases hg : ths[i]? with
    | none =>
      have : callAt h s ths i = (s, ths) := by unfold callAt; rw [hg]
      rw [this]; exact ih s ths
    | some th =>
      have hi : i < ths.length := by
        rcases Nat.lt_or_ge i ths.length with hlt | hge
        · exact hlt
        · rw [List.getElem?_eq_none hge] at hg; cases hg
      have hc : callAt h s ths i = ((stepTh h s th).1, ths.set i (settle (stepTh h s th).2)) := by
        unfold callAt; rw [hg]
      have hs : stepAt h s ths i = ((stepTh h s th).1, ths.set i (stepTh h s th).2) := by
        unfold stepAt; rw [hg]
      obtain ⟨n, hn⟩ := settle_reach h (stepTh h s th).1 (stepTh h s th).2
      obtain ⟨sc', hsc'⟩ := ih (stepTh h s th).1 (ths.set i (settle (stepTh h s th).2))
      refine ⟨i :: (List.replicate n i ++ sc'), ?_⟩
      rw [runSched, hs, runSched_append, runSched_replicate h n _ ths i hi, hn, hc]
      exact hsc'

end
end Neumann.Blob
