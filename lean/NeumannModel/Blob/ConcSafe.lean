import NeumannModel.Blob.ConcCalls
/-
  C19 — deleters of pairwise different artifacts, `gc_cycle`s and `full_gc`s, interleaved at the level of
  single `TensorStore` calls (no writer running): no artifact that is not being deleted loses a chunk or a byte.

  Accounting.  `C` is the (ghost) set of artifact ids some deleter has read the metadata of.  For a key `k`
      rhs k = (occurrences of k in the artifacts not in C) + (decrements of k the deleters in flight still owe)
  never increases, every `_refs` value in the store AND every stale `_refs` value a deleter is about to write
  back is at least `rhs k`, a `gc_cycle` only deletes a key after reading `_refs == 0` (so `rhs k = 0` from then
  on), and `full_gc`'s `referenced` set covers every artifact that still exists when it starts deleting.
-/
namespace Neumann.Blob

section assoc
variable {α β : Type} [DecidableEq α]

theorem find_setRec (k k' : α) (v : β) (l : List (α × β)) :
    find k' (setRec k v l) = if k' = k then some v else find k' l := by
  unfold setRec
  cases hf : find k l with
  | some r =>
    simp only [find_modify]
    by_cases e : k' = k
    · subst e; simp [hf]
    · simp [e]
  | none =>
    simp only [find_append, find_cons]
    by_cases e : k' = k
    · subst e; simp [hf]
    · have : ¬ k = k' := fun x => e x.symm
      cases find k' l <;> simp [e, this]

theorem sum_map_zero {γ : Type} (l : List γ) (f : γ → Nat) (hz : ∀ p ∈ l, f p = 0) : (l.map f).sum = 0 := by
  induction l with
  | nil => rfl
  | cons p l ih =>
    simp only [List.map_cons, List.sum_cons]
    rw [hz p (by simp), ih (fun q hq => hz q (by simp [hq]))]

theorem le_sum_map {γ : Type} (l : List γ) (f : γ → Nat) {p : γ} (hp : p ∈ l) : f p ≤ (l.map f).sum := by
  induction l with
  | nil => simp at hp
  | cons q l ih =>
    simp only [List.map_cons, List.sum_cons]
    rcases List.mem_cons.mp hp with e | e
    · subst e; omega
    · have := ih e; omega

theorem sum_map_set {γ : Type} (l : List γ) (f : γ → Nat) (i : Nat) (x y : γ) (hx : l[i]? = some x) :
    ((l.set i y).map f).sum + f x = (l.map f).sum + f y := by
  induction l generalizing i with
  | nil => simp at hx
  | cons q l ih =>
    cases i with
    | zero =>
      simp only [List.getElem?_cons_zero, Option.some.injEq] at hx
      subst hx
      simp only [List.set_cons_zero, List.map_cons, List.sum_cons]; omega
    | succ i =>
      simp only [List.getElem?_cons_succ] at hx
      simp only [List.set_cons_succ, List.map_cons, List.sum_cons]
      have := ih i hx; omega

theorem mem_orderBy {k : α} {ord ks : List α} (hk : k ∈ ks) : k ∈ orderBy ord ks := by
  unfold orderBy
  rw [List.mem_append]
  by_cases ho : k ∈ ord
  · left; exact List.mem_filter.mpr ⟨ho, by simpa using hk⟩
  · right; exact List.mem_filter.mpr ⟨hk, by simpa using ho⟩

end assoc

section
variable {K : Type} [DecidableEq K] (h : List Nat → K)

/-- decrements of `k` a deleter still owes -/
def owes (k : K) : Th K → Nat
  | .dDecGet _ todo => todo.count k
  | .dDecPut _ k' todo _ => todo.count k + (if k' = k then 1 else 0)
  | _ => 0

/-- the artifact whose metadata a deleter has read -/
def claim : Th K → Option Nat
  | .dDecGet id _ => some id
  | .dDecPut id _ _ _ => some id
  | _ => none

/-- the artifact a deleter is after -/
def target : Th K → Option Nat
  | .dGetMeta id => some id
  | .dDecGet id _ => some id
  | .dDecPut id _ _ _ => some id
  | _ => none

/-- not a writer -/
def NoW : Th K → Prop
  | .wExists _ _ _ _ _ => False
  | .wPutNew _ _ _ _ _ _ => False
  | .wIncGet _ _ _ _ _ _ => False
  | .wIncPut _ _ _ _ _ _ _ => False
  | .tGetMeta _ => False
  | .tPutMeta _ _ => False
  | _ => True

/-- `referenced` set of a `full_gc` that has finished reading the metadata -/
def lateRefd : Th K → Option (List K)
  | .fScanChunks refd _ => some refd
  | .fGet refd _ => some refd
  | .fDel _ refd _ => some refd
  | _ => none

def occF (k : K) (C : List Nat) (arts : List (Nat × Art K)) : Nat :=
  (arts.map (fun a => if a.1 ∈ C then 0 else a.2.chunks.count k)).sum

def owed (k : K) (ths : List (Th K)) : Nat := (ths.map (owes k)).sum

def rhs (k : K) (C : List Nat) (s : State K) (ths : List (Th K)) : Nat := occF k C s.arts + owed k ths

/-- `k` is listed by an artifact no deleter is after -/
def Prot (s0 : State K) (T : List Nat) (k : K) : Prop :=
  ∃ id a, id ∉ T ∧ find id s0.arts = some a ∧ k ∈ a.chunks

def Distinct (ths : List (Th K)) : Prop :=
  ∀ (i j : Nat) (thi thj : Th K) (id : Nat), i ≠ j → ths[i]? = some thi → ths[j]? = some thj → target thi = some id → target thj ≠ some id

structure CInv (s0 : State K) (T C : List Nat) (s : State K) (ths : List (Th K)) : Prop where
  noW : ∀ th ∈ ths, NoW th
  nodup : (keys s.arts).Nodup
  artsB : ∀ id, id ∉ T → find id s.arts = find id s0.arts
  cT : ∀ id ∈ C, id ∈ T
  tT : ∀ th ∈ ths, ∀ id, target th = some id → id ∈ T
  dist : Distinct ths
  kInv : ∀ th ∈ ths, ∀ id, th = .dGetMeta id → id ∉ C
  mInv : ∀ th ∈ ths, ∀ id, claim th = some id → id ∈ C
  nInv : ∀ th ∈ ths, ∀ id, claim th = some id → ∃ a, find id s.arts = some a ∧ ∀ k, 0 < owes k th → k ∈ a.chunks
  refsD : ∀ k, rhs k C s ths ≤ refsOf k s.chunks
  staleE : ∀ th ∈ ths, ∀ id k todo r, th = .dDecPut id k todo r → rhs k C s ths ≤ r.refs
  gdelF : ∀ th ∈ ths, ∀ mc k todo, th = .gDel mc k todo → rhs k C s ths = 0
  fMeta : ∀ th ∈ ths, ∀ ids refd ordK, th = .fGetMeta ids refd ordK →
    ∀ p ∈ s.arts, p.1 ∈ ids ∨ ∀ k ∈ p.2.chunks, k ∈ refd
  fLate : ∀ th ∈ ths, ∀ refd, lateRefd th = some refd → ∀ p ∈ s.arts, ∀ k ∈ p.2.chunks, k ∈ refd
  fDelC : ∀ th ∈ ths, ∀ k refd todo, th = .fDel k refd todo → refd.contains k = false
  dataJ : ∀ k, Prot s0 T k → dataOf k s.chunks = dataOf k s0.chunks
  staleJ : ∀ th ∈ ths, ∀ id k todo r, th = .dDecPut id k todo r → Prot s0 T k → some r.data = dataOf k s0.chunks

/-! ### accounting lemmas -/

theorem owed_set (k : K) (ths : List (Th K)) (i : Nat) (th th' : Th K) (hi : ths[i]? = some th) :
    owed k (ths.set i th') + owes k th = owed k ths + owes k th' :=
  sum_map_set ths (owes k) i th th' hi

theorem rhs_set_le (k : K) (C : List Nat) (s : State K) (ths : List (Th K)) (i : Nat) (th th' : Th K)
    (hi : ths[i]? = some th) (hle : owes k th' ≤ owes k th) :
    rhs k C s (ths.set i th') ≤ rhs k C s ths := by
  have := owed_set k ths i th th' hi
  unfold rhs; omega

theorem mem_of_getElem?' {ths : List (Th K)} {i : Nat} {th : Th K} (hi : ths[i]? = some th) : th ∈ ths :=
  List.mem_of_getElem? hi

theorem owes_le_owed (k : K) {ths : List (Th K)} {th : Th K} (hm : th ∈ ths) : owes k th ≤ owed k ths :=
  le_sum_map ths (owes k) hm

/-- claiming: the artifact's occurrences move from "free" to "owed" -/
theorem occF_claim (k : K) (C : List Nat) (arts : List (Nat × Art K)) (id : Nat) (a : Art K)
    (hn : (keys arts).Nodup) (hf : find id arts = some a) (hc : id ∉ C) :
    occF k (id :: C) arts + a.chunks.count k = occF k C arts := by
  induction arts with
  | nil => simp at hf
  | cons q arts ih =>
    simp only [keys_cons, List.nodup_cons] at hn
    rw [find_cons] at hf
    unfold occF at ih ⊢
    simp only [List.map_cons, List.sum_cons]
    by_cases hq : q.1 = id
    · simp only [hq, if_true, Option.some.injEq] at hf
      have hnot : id ∉ keys arts := hq ▸ hn.1
      have hrest : (arts.map (fun a => if a.1 ∈ id :: C then 0 else a.2.chunks.count k)).sum
          = (arts.map (fun a => if a.1 ∈ C then 0 else a.2.chunks.count k)).sum := by
        congr 1
        apply List.map_congr_left
        intro p hp
        have : p.1 ≠ id := fun e => hnot (e ▸ List.mem_map.mpr ⟨p, hp, rfl⟩)
        simp [this]
      rw [hrest, hq, hf]
      simp only [List.mem_cons, true_or, if_true, hc, if_false]
      omega
    · simp only [hq, if_false] at hf
      have := ih hn.2 hf
      have hqq : (q.1 ∈ id :: C) ↔ q.1 ∈ C := by simp [hq]
      simp only [hqq]
      omega

/-- erasing a claimed artifact changes nothing -/
theorem occF_erase (k : K) (C : List Nat) (arts : List (Nat × Art K)) (id : Nat) (hc : id ∈ C) :
    occF k C (erase id arts) = occF k C arts := by
  induction arts with
  | nil => rfl
  | cons q arts ih =>
    unfold occF at ih ⊢
    simp only [erase] at ih ⊢
    by_cases hq : q.1 = id
    · rw [List.filter_cons_of_neg (by simp [hq])]
      simp only [List.map_cons, List.sum_cons]
      have : q.1 ∈ C := by rw [hq]; exact hc
      rw [ih]; simp [this]
    · rw [List.filter_cons_of_pos (by simp [hq])]
      simp only [List.map_cons, List.sum_cons]
      rw [ih]

theorem occF_zero (k : K) (C : List Nat) (arts : List (Nat × Art K)) (hz : ∀ p ∈ arts, k ∉ p.2.chunks) :
    occF k C arts = 0 := by
  apply sum_map_zero
  intro p hp
  have := List.count_eq_zero.mpr (hz p hp)
  by_cases hc : p.1 ∈ C <;> simp [hc, this]

theorem occF_pos (k : K) (C : List Nat) (arts : List (Nat × Art K)) {p : Nat × Art K} (hp : p ∈ arts)
    (hc : p.1 ∉ C) (hk : k ∈ p.2.chunks) : 0 < occF k C arts := by
  have h1 := le_sum_map arts (fun a => if a.1 ∈ C then 0 else a.2.chunks.count k) hp
  simp only [hc, if_false] at h1
  have h2 : 0 < p.2.chunks.count k := List.count_pos_iff.mpr hk
  unfold occF; omega

theorem prot_mem {s0 s : State K} {T : List Nat} (hB : ∀ id, id ∉ T → find id s.arts = find id s0.arts) {k : K}
    (hp : Prot s0 T k) : ∃ p ∈ s.arts, p.1 ∉ T ∧ k ∈ p.2.chunks := by
  obtain ⟨id, a, hid, hf, hk⟩ := hp
  have := hB id hid
  rw [hf] at this
  exact ⟨(id, a), find_some_mem this, hid, hk⟩

theorem prot_rhs_pos {s0 : State K} {T C : List Nat} {s : State K} {ths : List (Th K)}
    (hB : ∀ id, id ∉ T → find id s.arts = find id s0.arts) (hcT : ∀ id ∈ C, id ∈ T) {k : K}
    (hp : Prot s0 T k) : 0 < rhs k C s ths := by
  obtain ⟨p, hp1, hp2, hp3⟩ := prot_mem hB hp
  have := occF_pos k C s.arts hp1 (fun hc => hp2 (hcT _ hc)) hp3
  unfold rhs; omega

/-! ### frame lemmas -/

theorem mem_set_index {α : Type} {l : List α} {i : Nat} {a x : α} (hx : x ∈ l.set i a) :
    x = a ∨ ∃ j, j ≠ i ∧ l[j]? = some x := by
  obtain ⟨j, hj⟩ := List.mem_iff_getElem?.mp hx
  by_cases e : i = j
  · subst e
    rw [List.getElem?_set] at hj
    simp only [if_true] at hj
    split at hj
    · left; exact (Option.some.inj hj).symm
    · cases hj
  · right
    rw [List.getElem?_set_ne e] at hj
    exact ⟨j, fun x => e x.symm, hj⟩

theorem distinct_set {ths : List (Th K)} {i : Nat} {th th' : Th K} (hd : Distinct ths) (hi : ths[i]? = some th)
    (ht : ∀ id, target th' = some id → target th = some id) : Distinct (ths.set i th') := by
  have hlt : i < ths.length := by
    rcases Nat.lt_or_ge i ths.length with hlt | hge
    · exact hlt
    · rw [List.getElem?_eq_none hge] at hi; cases hi
  intro a b tha thb id hab ha hb hta
  by_cases ea : i = a
  · subst ea
    rw [List.getElem?_set_self hlt] at ha
    rw [List.getElem?_set_ne hab] at hb
    cases ha
    exact hd i b th thb id hab hi hb (ht id hta)
  · rw [List.getElem?_set_ne ea] at ha
    by_cases eb : i = b
    · subst eb
      rw [List.getElem?_set_self hlt] at hb
      cases hb
      intro htb
      exact hd a i tha th id hab ha hi hta (ht id htb)
    · rw [List.getElem?_set_ne eb] at hb
      exact hd a b tha thb id hab ha hb hta

/-- one thread moves, the artifacts stay, the ghost set may grow, the chunk table may change -/
theorem CInv_frame {s0 : State K} {T C C' : List Nat} {s : State K} {ths : List (Th K)} (hinv : CInv s0 T C s ths)
    {i : Nat} {th th' : Th K} (hi : ths[i]? = some th) (tbl' : List (K × CRec))
    (hW : NoW th')
    (hT : ∀ id, target th' = some id → target th = some id)
    (hCsub : ∀ id ∈ C, id ∈ C') (hCT : ∀ id ∈ C', id ∈ T)
    (hK : ∀ x ∈ ths.set i th', ∀ id, x = .dGetMeta id → id ∉ C')
    (hCl : ∀ id, claim th' = some id → id ∈ C' ∧ ∃ a, find id s.arts = some a ∧ ∀ k, 0 < owes k th' → k ∈ a.chunks)
    (hrhs : ∀ k, rhs k C' { s with chunks := tbl' } (ths.set i th') ≤ rhs k C s ths)
    (hD : ∀ k, rhs k C' { s with chunks := tbl' } (ths.set i th') ≤ refsOf k tbl')
    (hJd : ∀ k, Prot s0 T k → dataOf k tbl' = dataOf k s0.chunks)
    (hE : ∀ id k todo r, th' = .dDecPut id k todo r → rhs k C s ths ≤ r.refs)
    (hF : ∀ mc k todo, th' = .gDel mc k todo → rhs k C s ths = 0)
    (hM : ∀ ids refd ordK, th' = .fGetMeta ids refd ordK → ∀ p ∈ s.arts, p.1 ∈ ids ∨ ∀ k ∈ p.2.chunks, k ∈ refd)
    (hL : ∀ refd, lateRefd th' = some refd → ∀ p ∈ s.arts, ∀ k ∈ p.2.chunks, k ∈ refd)
    (hDc : ∀ k refd todo, th' = .fDel k refd todo → refd.contains k = false)
    (hJs : ∀ id k todo r, th' = .dDecPut id k todo r → Prot s0 T k → some r.data = dataOf k s0.chunks) :
    CInv s0 T C' { s with chunks := tbl' } (ths.set i th') := by
  have old : ∀ x ∈ ths.set i th', x = th' ∨ x ∈ ths := by
    intro x hx
    rcases List.mem_or_eq_of_mem_set hx with e | e
    · right; exact e
    · left; exact e
  refine ⟨?_, hinv.nodup, hinv.artsB, hCT, ?_, distinct_set hinv.dist hi hT, hK, ?_, ?_, hD, ?_, ?_, ?_, ?_, ?_, hJd, ?_⟩
  · intro x hx
    rcases old x hx with e | e
    · rw [e]; exact hW
    · exact hinv.noW x e
  · intro x hx id hid
    rcases old x hx with e | e
    · rw [e] at hid; exact hinv.tT th (List.mem_of_getElem? hi) id (hT id hid)
    · exact hinv.tT x e id hid
  · intro x hx id hid
    rcases old x hx with e | e
    · rw [e] at hid; exact (hCl id hid).1
    · exact hCsub id (hinv.mInv x e id hid)
  · intro x hx id hid
    rcases old x hx with e | e
    · rw [e] at hid ⊢; exact (hCl id hid).2
    · exact hinv.nInv x e id hid
  · intro x hx id k todo r hxe
    rcases old x hx with e | e
    · exact Nat.le_trans (hrhs k) (hE id k todo r (e ▸ hxe))
    · exact Nat.le_trans (hrhs k) (hinv.staleE x e id k todo r hxe)
  · intro x hx mc k todo hxe
    have h0 : rhs k C s ths = 0 := by
      rcases old x hx with e | e
      · exact hF mc k todo (e ▸ hxe)
      · exact hinv.gdelF x e mc k todo hxe
    have := hrhs k; omega
  · intro x hx ids refd ordK hxe
    rcases old x hx with e | e
    · exact hM ids refd ordK (e ▸ hxe)
    · exact hinv.fMeta x e ids refd ordK hxe
  · intro x hx refd hxe
    rcases old x hx with e | e
    · exact hL refd (e ▸ hxe)
    · exact hinv.fLate x e refd hxe
  · intro x hx k refd todo hxe
    rcases old x hx with e | e
    · exact hDc k refd todo (e ▸ hxe)
    · exact hinv.fDelC x e k refd todo hxe
  · intro x hx id k todo r hxe
    rcases old x hx with e | e
    · exact hJs id k todo r (e ▸ hxe)
    · exact hinv.staleJ x e id k todo r hxe

/-- the common case: the store is not touched, the thread owes no more than before and claims nothing new -/
theorem CInv_quiet {s0 : State K} {T C : List Nat} {s : State K} {ths : List (Th K)} (hinv : CInv s0 T C s ths)
    {i : Nat} {th th' : Th K} (hi : ths[i]? = some th)
    (hW : NoW th')
    (hT : ∀ id, target th' = some id → target th = some id)
    (hG : ∀ id, th' ≠ .dGetMeta id)
    (hCl : ∀ id, claim th' = some id → claim th = some id)
    (hO : ∀ k, owes k th' ≤ owes k th)
    (hE : ∀ id k todo r, th' = .dDecPut id k todo r → rhs k C s ths ≤ r.refs)
    (hF : ∀ mc k todo, th' = .gDel mc k todo → rhs k C s ths = 0)
    (hM : ∀ ids refd ordK, th' = .fGetMeta ids refd ordK → ∀ p ∈ s.arts, p.1 ∈ ids ∨ ∀ k ∈ p.2.chunks, k ∈ refd)
    (hL : ∀ refd, lateRefd th' = some refd → ∀ p ∈ s.arts, ∀ k ∈ p.2.chunks, k ∈ refd)
    (hDc : ∀ k refd todo, th' = .fDel k refd todo → refd.contains k = false)
    (hJs : ∀ id k todo r, th' = .dDecPut id k todo r → Prot s0 T k → some r.data = dataOf k s0.chunks) :
    CInv s0 T C s (ths.set i th') := by
  have hm := List.mem_of_getElem? hi
  have hr : ∀ k, rhs k C { s with chunks := s.chunks } (ths.set i th') ≤ rhs k C s ths :=
    fun k => rhs_set_le k C s ths i th th' hi (hO k)
  have := CInv_frame hinv hi s.chunks hW hT (fun _ x => x) hinv.cT
    (by
      intro x hx id hxe
      rcases List.mem_or_eq_of_mem_set hx with e | e
      · exact hinv.kInv x e id hxe
      · exact absurd (e ▸ hxe) (hG id))
    (by
      intro id hid
      have hc := hCl id hid
      obtain ⟨a, ha1, ha2⟩ := hinv.nInv th hm id hc
      exact ⟨hinv.mInv th hm id hc, a, ha1, fun k hk => ha2 k (by have := hO k; omega)⟩)
    hr (fun k => Nat.le_trans (hr k) (hinv.refsD k)) hinv.dataJ hE hF hM hL hDc hJs
  exact this

/-! ### one step of one thread -/

theorem claim_target {th : Th K} {id : Nat} (hc : claim th = some id) : target th = some id := by
  cases th <;> simp_all [claim, target]

theorem owes_pos_claim {th : Th K} {k : K} (hp : 0 < owes k th) : ∃ id, claim th = some id := by
  cases th <;> simp_all [claim, owes]

theorem refsOf_erase (k k' : K) (tbl : List (K × CRec)) :
    refsOf k' (erase k tbl) = if k' = k then 0 else refsOf k' tbl := by
  unfold refsOf; rw [find_erase]
  by_cases e : k' = k <;> simp [e]

theorem dataOf_erase_ne {k k' : K} (tbl : List (K × CRec)) (hne : k' ≠ k) :
    dataOf k' (erase k tbl) = dataOf k' tbl := by
  unfold dataOf; rw [find_erase]; simp [hne]

/-- a key no existing artifact lists and no deleter in flight owes: `rhs` is 0 -/
theorem rhs_zero_of_unlisted {s0 : State K} {T C : List Nat} {s : State K} {ths : List (Th K)}
    (hinv : CInv s0 T C s ths) {k : K} (hz : ∀ p ∈ s.arts, k ∉ p.2.chunks) : rhs k C s ths = 0 := by
  have h1 := occF_zero k C s.arts hz
  have h2 : owed k ths = 0 := by
    apply sum_map_zero
    intro x hx
    rcases Nat.eq_zero_or_pos (owes k x) with e | e
    · exact e
    · obtain ⟨id, hid⟩ := owes_pos_claim e
      obtain ⟨a, ha1, ha2⟩ := hinv.nInv x hx id hid
      exact absurd (ha2 k e) (hz (id, a) (find_some_mem ha1))
  unfold rhs; omega

theorem step_CInv {s0 : State K} {T C : List Nat} {s : State K} {ths : List (Th K)} (hinv : CInv s0 T C s ths)
    {i : Nat} {th : Th K} (hi : ths[i]? = some th) :
    ∃ C', CInv s0 T C' (stepTh h s th).1 (ths.set i (stepTh h s th).2) := by
  have hm := List.mem_of_getElem? hi
  cases th with
  | done =>
    refine ⟨C, ?_⟩
    simp only [stepTh]
    exact CInv_quiet hinv hi trivial (fun _ e => by cases e) (fun _ e => by cases e) (fun _ e => by cases e)
      (fun _ => Nat.le_refl _) (fun _ _ _ _ e => by cases e) (fun _ _ _ e => by cases e)
      (fun _ _ _ e => by cases e) (fun _ e => by cases e) (fun _ _ _ e => by cases e) (fun _ _ _ _ e => by cases e)
  | wExists id t all todo acc => exact absurd (hinv.noW _ hm) (by simp [NoW])
  | wPutNew id t all d todo acc => exact absurd (hinv.noW _ hm) (by simp [NoW])
  | wIncGet id t all d todo acc => exact absurd (hinv.noW _ hm) (by simp [NoW])
  | wIncPut id t all d todo acc r => exact absurd (hinv.noW _ hm) (by simp [NoW])
  | tGetMeta id => exact absurd (hinv.noW _ hm) (by simp [NoW])
  | tPutMeta id a => exact absurd (hinv.noW _ hm) (by simp [NoW])
  | dGetMeta id =>
    simp only [stepTh]
    cases hf : find id s.arts with
    | none =>
      refine ⟨C, ?_⟩
      simp only
      exact CInv_quiet hinv hi trivial (fun _ e => by cases e) (fun _ e => by cases e) (fun _ e => by cases e)
        (fun _ => Nat.zero_le _) (fun _ _ _ _ e => by cases e) (fun _ _ _ e => by cases e)
        (fun _ _ _ e => by cases e) (fun _ e => by cases e) (fun _ _ _ e => by cases e) (fun _ _ _ _ e => by cases e)
    | some a =>
      refine ⟨id :: C, ?_⟩
      simp only
      have hidC : id ∉ C := hinv.kInv _ hm id rfl
      have hrhs : ∀ k, rhs k (id :: C) { s with chunks := s.chunks } (ths.set i (.dDecGet id a.chunks)) = rhs k C s ths := by
        intro k
        have h1 := occF_claim k C s.arts id a hinv.nodup hf hidC
        have h2 := owed_set k ths i (.dGetMeta id) (.dDecGet id a.chunks) hi
        simp only [owes] at h2
        unfold rhs; omega
      exact CInv_frame hinv hi s.chunks trivial (fun id' e => by simpa [target] using e)
        (fun id' h' => List.mem_cons_of_mem _ h')
        (by
          intro id' h'
          rcases List.mem_cons.mp h' with e | e
          · rw [e]; exact hinv.tT _ hm id rfl
          · exact hinv.cT id' e)
        (by
          intro x hx id' hxe
          rcases mem_set_index hx with e | ⟨j, hj, hxj⟩
          · rw [e] at hxe; cases hxe
          · subst hxe
            intro hmem
            rcases List.mem_cons.mp hmem with e | e
            · exact hinv.dist j i _ _ id' hj hxj hi rfl (by rw [e]; rfl)
            · exact hinv.kInv _ (List.mem_of_getElem? hxj) id' rfl e)
        (by
          intro id' hc
          simp only [claim, Option.some.injEq] at hc
          subst hc
          exact ⟨List.mem_cons_self, a, hf, fun k hk => List.count_pos_iff.mp (by simpa [owes] using hk)⟩)
        (fun k => Nat.le_of_eq (hrhs k)) (fun k => by rw [hrhs k]; exact hinv.refsD k) hinv.dataJ
        (fun _ _ _ _ e => by cases e) (fun _ _ _ e => by cases e)
        (fun _ _ _ e => by cases e) (fun _ e => by cases e) (fun _ _ _ e => by cases e) (fun _ _ _ _ e => by cases e)
  | dDecGet id todo =>
    cases todo with
    | nil =>
      refine ⟨C, ?_⟩
      simp only [stepTh]
      have hidT : id ∈ T := hinv.tT _ hm id rfl
      have hidC : id ∈ C := hinv.mInv _ hm id rfl
      have hsub : ∀ p ∈ erase id s.arts, p ∈ s.arts := fun p hp => (List.mem_filter.mp hp).1
      have hrhs : ∀ k, rhs k C { s with arts := erase id s.arts } (ths.set i .done) = rhs k C s ths := by
        intro k
        have h1 := occF_erase k C s.arts id hidC
        have h2 := owed_set k ths i (.dDecGet id []) .done hi
        simp only [owes, List.count_nil] at h2
        unfold rhs; simp only; omega
      have old : ∀ x ∈ ths.set i Th.done, x = .done ∨ x ∈ ths := by
        intro x hx
        rcases List.mem_or_eq_of_mem_set hx with e | e
        · right; exact e
        · left; exact e
      refine ⟨?_, keys_filter_nodup _ hinv.nodup, ?_, hinv.cT, ?_,
        distinct_set hinv.dist hi (fun _ e => by cases e), ?_, ?_, ?_, ?_, ?_, ?_, ?_, ?_, ?_, hinv.dataJ, ?_⟩
      · intro x hx
        rcases old x hx with e | e
        · rw [e]; trivial
        · exact hinv.noW x e
      · intro id' hid'
        have : ¬ id' = id := fun e => hid' (e ▸ hidT)
        simp only [find_erase, this, if_false]
        exact hinv.artsB id' hid'
      · intro x hx id' hid'
        rcases old x hx with e | e
        · rw [e] at hid'; cases hid'
        · exact hinv.tT x e id' hid'
      · intro x hx id' hxe
        rcases old x hx with e | e
        · rw [e] at hxe; cases hxe
        · exact hinv.kInv x e id' hxe
      · intro x hx id' hid'
        rcases old x hx with e | e
        · rw [e] at hid'; cases hid'
        · exact hinv.mInv x e id' hid'
      · intro x hx id' hid'
        rcases mem_set_index hx with e | ⟨j, hj, hxj⟩
        · rw [e] at hid'; cases hid'
        · obtain ⟨a, ha1, ha2⟩ := hinv.nInv x (List.mem_of_getElem? hxj) id' hid'
          have hne : ¬ id' = id := by
            intro e
            exact hinv.dist j i x _ id' hj hxj hi (claim_target hid') (by rw [e]; rfl)
          refine ⟨a, ?_, ha2⟩
          simp only [find_erase, hne, if_false]
          exact ha1
      · intro k; rw [hrhs k]; exact hinv.refsD k
      · intro x hx id' k todo r hxe
        rcases old x hx with e | e
        · rw [e] at hxe; cases hxe
        · rw [hrhs k]; exact hinv.staleE x e id' k todo r hxe
      · intro x hx mc k todo hxe
        rcases old x hx with e | e
        · rw [e] at hxe; cases hxe
        · rw [hrhs k]; exact hinv.gdelF x e mc k todo hxe
      · intro x hx ids refd ordK hxe p hp
        rcases old x hx with e | e
        · rw [e] at hxe; cases hxe
        · exact hinv.fMeta x e ids refd ordK hxe p (hsub p hp)
      · intro x hx refd hxe p hp
        rcases old x hx with e | e
        · rw [e] at hxe; cases hxe
        · exact hinv.fLate x e refd hxe p (hsub p hp)
      · intro x hx k refd todo hxe
        rcases old x hx with e | e
        · rw [e] at hxe; cases hxe
        · exact hinv.fDelC x e k refd todo hxe
      · intro x hx id' k todo r hxe
        rcases old x hx with e | e
        · rw [e] at hxe; cases hxe
        · exact hinv.staleJ x e id' k todo r hxe
    | cons k todo =>
      refine ⟨C, ?_⟩
      simp only [stepTh]
      cases hf : find k s.chunks with
      | none =>
        simp only
        exact CInv_quiet hinv hi trivial (fun id' e => by simpa [target] using e) (fun _ e => by cases e)
          (fun id' e => by simpa [claim] using e)
          (fun k' => by simp only [owes, List.count_cons]; omega)
          (fun _ _ _ _ e => by cases e) (fun _ _ _ e => by cases e)
          (fun _ _ _ e => by cases e) (fun _ e => by cases e) (fun _ _ _ e => by cases e) (fun _ _ _ _ e => by cases e)
      | some r =>
        simp only
        have hrefs : refsOf k s.chunks = r.refs := by unfold refsOf; rw [hf]
        have hdata : dataOf k s.chunks = some r.data := by unfold dataOf; rw [hf]; rfl
        exact CInv_quiet hinv hi trivial (fun id' e => by simpa [target] using e) (fun _ e => by cases e)
          (fun id' e => by simpa [claim] using e)
          (fun k' => by
            simp only [owes, List.count_cons, beq_iff_eq]
            by_cases e : k = k' <;> simp [e])
          (fun id' k' todo' r' e => by
            cases e
            rw [← hrefs]; exact hinv.refsD k)
          (fun _ _ _ e => by cases e)
          (fun _ _ _ e => by cases e) (fun _ e => by cases e) (fun _ _ _ e => by cases e)
          (fun id' k' todo' r' e hp => by
            cases e
            rw [← hinv.dataJ k hp, hdata])
  | dDecPut id k todo r =>
    refine ⟨C, ?_⟩
    simp only [stepTh]
    have hown : ∀ k', owes k' (Th.dDecGet id todo : Th K) ≤ owes k' (Th.dDecPut id k todo r) := by
      intro k'; simp only [owes]; omega
    have hrhs : ∀ k', rhs k' C { s with chunks := setRec k { r with refs := r.refs - 1 } s.chunks }
        (ths.set i (.dDecGet id todo)) ≤ rhs k' C s ths :=
      fun k' => rhs_set_le k' C s ths i _ _ hi (hown k')
    exact CInv_frame hinv hi _ trivial (fun id' e => by simpa [target] using e) (fun _ x => x) hinv.cT
      (by
        intro x hx id' hxe
        rcases List.mem_or_eq_of_mem_set hx with e | e
        · exact hinv.kInv x e id' hxe
        · rw [e] at hxe; cases hxe)
      (by
        intro id' hc
        simp only [claim, Option.some.injEq] at hc
        subst hc
        obtain ⟨a, ha1, ha2⟩ := hinv.nInv _ hm id rfl
        exact ⟨hinv.mInv _ hm id rfl, a, ha1, fun k' hk' => ha2 k' (by have := hown k'; omega)⟩)
      hrhs
      (by
        intro k'
        by_cases e : k' = k
        · subst e
          have h1 : refsOf k' (setRec k' { r with refs := r.refs - 1 } s.chunks) = r.refs - 1 := by
            unfold refsOf; rw [find_setRec]; simp
          have h2 := owed_set k' ths i (.dDecPut id k' todo r) (.dDecGet id todo) hi
          simp only [owes, if_true] at h2
          have h3 := hinv.staleE _ hm id k' todo r rfl
          rw [h1]
          unfold rhs at h3 ⊢
          simp only at h3 ⊢
          omega
        · have h1 : refsOf k' (setRec k { r with refs := r.refs - 1 } s.chunks) = refsOf k' s.chunks := by
            unfold refsOf; rw [find_setRec]; simp [e]
          rw [h1]
          exact Nat.le_trans (hrhs k') (hinv.refsD k'))
      (by
        intro k' hp
        by_cases e : k' = k
        · subst e
          have : dataOf k' (setRec k' { r with refs := r.refs - 1 } s.chunks) = some r.data := by
            unfold dataOf; rw [find_setRec]; simp
          rw [this]
          exact hinv.staleJ _ hm id k' todo r rfl hp
        · have : dataOf k' (setRec k { r with refs := r.refs - 1 } s.chunks) = dataOf k' s.chunks := by
            unfold dataOf; rw [find_setRec]; simp [e]
          rw [this]
          exact hinv.dataJ k' hp)
      (fun _ _ _ _ e => by cases e) (fun _ _ _ e => by cases e)
      (fun _ _ _ e => by cases e) (fun _ e => by cases e) (fun _ _ _ e => by cases e) (fun _ _ _ _ e => by cases e)
  | gScan mc ord =>
    refine ⟨C, ?_⟩
    simp only [stepTh]
    exact CInv_quiet hinv hi trivial (fun _ e => by cases e) (fun _ e => by cases e) (fun _ e => by cases e)
      (fun _ => Nat.le_refl _) (fun _ _ _ _ e => by cases e) (fun _ _ _ e => by cases e)
      (fun _ _ _ e => by cases e) (fun _ e => by cases e) (fun _ _ _ e => by cases e) (fun _ _ _ _ e => by cases e)
  | gGet mc todo =>
    refine ⟨C, ?_⟩
    cases todo with
    | nil =>
      simp only [stepTh]
      exact CInv_quiet hinv hi trivial (fun _ e => by cases e) (fun _ e => by cases e) (fun _ e => by cases e)
        (fun _ => Nat.le_refl _) (fun _ _ _ _ e => by cases e) (fun _ _ _ e => by cases e)
        (fun _ _ _ e => by cases e) (fun _ e => by cases e) (fun _ _ _ e => by cases e) (fun _ _ _ _ e => by cases e)
    | cons k todo =>
      simp only [stepTh]
      cases hf : find k s.chunks with
      | none =>
        simp only
        exact CInv_quiet hinv hi trivial (fun _ e => by cases e) (fun _ e => by cases e) (fun _ e => by cases e)
          (fun _ => Nat.le_refl _) (fun _ _ _ _ e => by cases e) (fun _ _ _ e => by cases e)
          (fun _ _ _ e => by cases e) (fun _ e => by cases e) (fun _ _ _ e => by cases e) (fun _ _ _ _ e => by cases e)
      | some r =>
        simp only
        by_cases hc : r.refs = 0 ∧ r.created < mc
        · simp only [hc, and_self, if_true]
          have hrefs : refsOf k s.chunks = 0 := by unfold refsOf; rw [hf]; exact hc.1
          exact CInv_quiet hinv hi trivial (fun _ e => by cases e) (fun _ e => by cases e) (fun _ e => by cases e)
            (fun _ => Nat.le_refl _) (fun _ _ _ _ e => by cases e)
            (fun mc' k' todo' e => by
              cases e
              have := hinv.refsD k; omega)
            (fun _ _ _ e => by cases e) (fun _ e => by cases e) (fun _ _ _ e => by cases e) (fun _ _ _ _ e => by cases e)
        · simp only [hc, if_false]
          exact CInv_quiet hinv hi trivial (fun _ e => by cases e) (fun _ e => by cases e) (fun _ e => by cases e)
            (fun _ => Nat.le_refl _) (fun _ _ _ _ e => by cases e) (fun _ _ _ e => by cases e)
            (fun _ _ _ e => by cases e) (fun _ e => by cases e) (fun _ _ _ e => by cases e) (fun _ _ _ _ e => by cases e)
  | gDel mc k todo =>
    refine ⟨C, ?_⟩
    simp only [stepTh]
    have h0 : rhs k C s ths = 0 := hinv.gdelF _ hm mc k todo rfl
    have hrhs : ∀ k', rhs k' C { s with chunks := erase k s.chunks } (ths.set i (.gGet mc todo)) ≤ rhs k' C s ths :=
      fun k' => rhs_set_le k' C s ths i _ _ hi (Nat.le_refl _)
    exact CInv_frame hinv hi _ trivial (fun _ e => by cases e) (fun _ x => x) hinv.cT
      (by
        intro x hx id' hxe
        rcases List.mem_or_eq_of_mem_set hx with e | e
        · exact hinv.kInv x e id' hxe
        · rw [e] at hxe; cases hxe)
      (fun _ e => by cases e)
      hrhs
      (by
        intro k'
        rw [refsOf_erase]
        by_cases e : k' = k
        · subst e; have := hrhs k'; simp only [if_true]; omega
        · simp only [e, if_false]; exact Nat.le_trans (hrhs k') (hinv.refsD k'))
      (by
        intro k' hp
        by_cases e : k' = k
        · subst e
          have := prot_rhs_pos (C := C) (s := s) (ths := ths) hinv.artsB hinv.cT hp
          omega
        · rw [dataOf_erase_ne _ e]; exact hinv.dataJ k' hp)
      (fun _ _ _ _ e => by cases e) (fun _ _ _ e => by cases e)
      (fun _ _ _ e => by cases e) (fun _ e => by cases e) (fun _ _ _ e => by cases e) (fun _ _ _ _ e => by cases e)
  | fScanMeta ordI ordK =>
    refine ⟨C, ?_⟩
    simp only [stepTh]
    exact CInv_quiet hinv hi trivial (fun _ e => by cases e) (fun _ e => by cases e) (fun _ e => by cases e)
      (fun _ => Nat.le_refl _) (fun _ _ _ _ e => by cases e) (fun _ _ _ e => by cases e)
      (fun ids refd ok e p hp => by
        cases e
        left
        exact mem_orderBy (List.mem_map.mpr ⟨p, hp, rfl⟩))
      (fun _ e => by cases e) (fun _ _ _ e => by cases e) (fun _ _ _ _ e => by cases e)
  | fGetMeta ids refd ordK =>
    refine ⟨C, ?_⟩
    have hold := hinv.fMeta _ hm ids refd ordK rfl
    cases ids with
    | nil =>
      simp only [stepTh]
      exact CInv_quiet hinv hi trivial (fun _ e => by cases e) (fun _ e => by cases e) (fun _ e => by cases e)
        (fun _ => Nat.le_refl _) (fun _ _ _ _ e => by cases e) (fun _ _ _ e => by cases e)
        (fun _ _ _ e => by cases e)
        (fun refd' e p hp k hk => by
          simp only [lateRefd, Option.some.injEq] at e
          subst e
          rcases hold p hp with h1 | h1
          · simp at h1
          · exact h1 k hk)
        (fun _ _ _ e => by cases e) (fun _ _ _ _ e => by cases e)
    | cons id ids =>
      simp only [stepTh]
      cases hf : find id s.arts with
      | none =>
        simp only
        exact CInv_quiet hinv hi trivial (fun _ e => by cases e) (fun _ e => by cases e) (fun _ e => by cases e)
          (fun _ => Nat.le_refl _) (fun _ _ _ _ e => by cases e) (fun _ _ _ e => by cases e)
          (fun ids' refd' ok' e p hp => by
            cases e
            rcases hold p hp with h1 | h1
            · rcases List.mem_cons.mp h1 with e1 | e1
              · have := (find_none_iff id s.arts).mp hf
                exact absurd (List.mem_map.mpr ⟨p, hp, e1⟩) this
              · left; exact e1
            · right; exact h1)
          (fun _ e => by cases e) (fun _ _ _ e => by cases e) (fun _ _ _ _ e => by cases e)
      | some a =>
        simp only
        exact CInv_quiet hinv hi trivial (fun _ e => by cases e) (fun _ e => by cases e) (fun _ e => by cases e)
          (fun _ => Nat.le_refl _) (fun _ _ _ _ e => by cases e) (fun _ _ _ e => by cases e)
          (fun ids' refd' ok' e p hp => by
            cases e
            rcases hold p hp with h1 | h1
            · rcases List.mem_cons.mp h1 with e1 | e1
              · right
                intro k hk
                have hpa : find p.1 s.arts = some p.2 := mem_find hinv.nodup (show (p.1, p.2) ∈ s.arts from hp)
                rw [e1, hf] at hpa
                simp only [Option.some.injEq] at hpa
                rw [hpa]
                exact List.mem_append_right _ hk
              · left; exact e1
            · right; intro k hk; exact List.mem_append_left _ (h1 k hk))
          (fun _ e => by cases e) (fun _ _ _ e => by cases e) (fun _ _ _ _ e => by cases e)
  | fScanChunks refd ordK =>
    refine ⟨C, ?_⟩
    simp only [stepTh]
    have hold := hinv.fLate _ hm refd rfl
    exact CInv_quiet hinv hi trivial (fun _ e => by cases e) (fun _ e => by cases e) (fun _ e => by cases e)
      (fun _ => Nat.le_refl _) (fun _ _ _ _ e => by cases e) (fun _ _ _ e => by cases e)
      (fun _ _ _ e => by cases e)
      (fun refd' e => by
        simp only [lateRefd, Option.some.injEq] at e
        subst e; exact hold)
      (fun _ _ _ e => by cases e) (fun _ _ _ _ e => by cases e)
  | fGet refd todo =>
    refine ⟨C, ?_⟩
    have hold := hinv.fLate _ hm refd rfl
    have quiet : ∀ todo', CInv s0 T C s (ths.set i (.fGet refd todo')) := by
      intro todo'
      exact CInv_quiet hinv hi trivial (fun _ e => by cases e) (fun _ e => by cases e) (fun _ e => by cases e)
        (fun _ => Nat.le_refl _) (fun _ _ _ _ e => by cases e) (fun _ _ _ e => by cases e)
        (fun _ _ _ e => by cases e)
        (fun refd' e => by
          simp only [lateRefd, Option.some.injEq] at e
          subst e; exact hold)
        (fun _ _ _ e => by cases e) (fun _ _ _ _ e => by cases e)
    cases todo with
    | nil =>
      simp only [stepTh]
      exact CInv_quiet hinv hi trivial (fun _ e => by cases e) (fun _ e => by cases e) (fun _ e => by cases e)
        (fun _ => Nat.le_refl _) (fun _ _ _ _ e => by cases e) (fun _ _ _ e => by cases e)
        (fun _ _ _ e => by cases e) (fun _ e => by cases e) (fun _ _ _ e => by cases e) (fun _ _ _ _ e => by cases e)
    | cons k todo =>
      simp only [stepTh]
      by_cases hc : refd.contains k = true
      · simp only [hc, if_true]; exact quiet todo
      · have hc' : refd.contains k = false := by simpa using hc
        simp only [hc', Bool.false_eq_true, if_false]
        cases hf : find k s.chunks with
        | none => simp only; exact quiet todo
        | some r =>
          simp only
          exact CInv_quiet hinv hi trivial (fun _ e => by cases e) (fun _ e => by cases e) (fun _ e => by cases e)
            (fun _ => Nat.le_refl _) (fun _ _ _ _ e => by cases e) (fun _ _ _ e => by cases e)
            (fun _ _ _ e => by cases e)
            (fun refd' e => by
              simp only [lateRefd, Option.some.injEq] at e
              subst e; exact hold)
            (fun k' refd' todo' e => by
              cases e
              exact hc')
            (fun _ _ _ _ e => by cases e)
  | fDel k refd todo =>
    refine ⟨C, ?_⟩
    simp only [stepTh]
    have hold := hinv.fLate _ hm refd rfl
    have hnc : refd.contains k = false := hinv.fDelC _ hm k refd todo rfl
    have hnot : k ∉ refd := by simpa using hnc
    have h0 : rhs k C s ths = 0 := rhs_zero_of_unlisted hinv (fun p hp hk => hnot (hold p hp k hk))
    have hrhs : ∀ k', rhs k' C { s with chunks := erase k s.chunks } (ths.set i (.fGet refd todo)) ≤ rhs k' C s ths :=
      fun k' => rhs_set_le k' C s ths i _ _ hi (Nat.le_refl _)
    exact CInv_frame hinv hi _ trivial (fun _ e => by cases e) (fun _ x => x) hinv.cT
      (by
        intro x hx id' hxe
        rcases List.mem_or_eq_of_mem_set hx with e | e
        · exact hinv.kInv x e id' hxe
        · rw [e] at hxe; cases hxe)
      (fun _ e => by cases e)
      hrhs
      (by
        intro k'
        rw [refsOf_erase]
        by_cases e : k' = k
        · subst e; have := hrhs k'; simp only [if_true]; omega
        · simp only [e, if_false]; exact Nat.le_trans (hrhs k') (hinv.refsD k'))
      (by
        intro k' hp
        by_cases e : k' = k
        · subst e
          have := prot_rhs_pos (C := C) (s := s) (ths := ths) hinv.artsB hinv.cT hp
          omega
        · rw [dataOf_erase_ne _ e]; exact hinv.dataJ k' hp)
      (fun _ _ _ _ e => by cases e) (fun _ _ _ e => by cases e)
      (fun _ _ _ e => by cases e)
      (fun refd' e => by
        simp only [lateRefd, Option.some.injEq] at e
        subst e; exact hold)
      (fun _ _ _ e => by cases e) (fun _ _ _ _ e => by cases e)

/-! ### every schedule -/

theorem runSched_CInv (sched : List Nat) {s0 : State K} {T C : List Nat} {s : State K} {ths : List (Th K)}
    (hinv : CInv s0 T C s ths) :
    ∃ C', CInv s0 T C' (runSched h s ths sched).1 (runSched h s ths sched).2 := by
  induction sched generalizing C s ths with
  | nil => exact ⟨C, hinv⟩
  | cons i sc ih =>
    rw [runSched]
    unfold stepAt
    cases hg : ths[i]? with
    | none => exact ih hinv
    | some th =>
      obtain ⟨C', h'⟩ := step_CInv h hinv hg
      exact ih h'

/-- a deleter, a `gc_cycle` or a `full_gc` that has not taken a step yet -/
def Th.isFreshNonWriter : Th K → Bool
  | .dGetMeta _ => true
  | .gScan _ _ => true
  | .fScanMeta _ _ => true
  | _ => false

theorem distinct_of_nodup (ths : List (Th K)) (hn : (ths.filterMap target).Nodup) : Distinct ths := by
  induction ths with
  | nil => intro i j thi thj id _ hi; simp at hi
  | cons x l ih =>
    have hsub : (l.filterMap target).Nodup := by
      rw [List.filterMap_cons] at hn
      cases hx : target x with
      | none => rw [hx] at hn; exact hn
      | some y => rw [hx] at hn; exact (List.nodup_cons.mp hn).2
    have hhead : ∀ id, target x = some id → ∀ th ∈ l, target th ≠ some id := by
      intro id hx th hth hte
      rw [List.filterMap_cons, hx] at hn
      exact (List.nodup_cons.mp hn).1 (List.mem_filterMap.mpr ⟨th, hth, hte⟩)
    intro i j thi thj id hij hi hj hti htj
    cases i with
    | zero =>
      cases j with
      | zero => exact hij rfl
      | succ j =>
        simp only [List.getElem?_cons_zero, Option.some.injEq] at hi
        simp only [List.getElem?_cons_succ] at hj
        subst hi
        exact hhead id hti thj (List.mem_of_getElem? hj) htj
    | succ i =>
      cases j with
      | zero =>
        simp only [List.getElem?_cons_zero, Option.some.injEq] at hj
        simp only [List.getElem?_cons_succ] at hi
        subst hj
        exact hhead id htj thi (List.mem_of_getElem? hi) hti
      | succ j =>
        simp only [List.getElem?_cons_succ] at hi hj
        exact ih hsub i j thi thj id (fun e => hij (by rw [e])) hi hj hti htj

theorem occF_nil (k : K) (arts : List (Nat × Art K)) : occF k [] arts = occ k arts := by
  unfold occF occ
  simp

theorem CInv_init {s : State K} (hn : (keys s.arts).Nodup) (hr : ∀ k, occ k s.arts ≤ refsOf k s.chunks)
    {ths : List (Th K)} (hst : ∀ th ∈ ths, th.isFreshNonWriter = true) (hd : (ths.filterMap target).Nodup) :
    CInv s (ths.filterMap target) [] s ths := by
  have hown : ∀ th ∈ ths, ∀ k, owes k th = 0 := by
    intro th hth k
    have := hst th hth
    cases th <;> simp_all [Th.isFreshNonWriter, owes]
  have hrhs : ∀ k, rhs k [] s ths = occ k s.arts := by
    intro k
    have h1 : owed k ths = 0 := sum_map_zero ths (owes k) (fun x hx => hown x hx k)
    unfold rhs; rw [occF_nil, h1]; rfl
  refine ⟨?_, hn, fun _ _ => rfl, fun id hid => by simp at hid, ?_, distinct_of_nodup ths hd,
    fun _ _ _ _ => by simp, ?_, ?_, fun k => by rw [hrhs k]; exact hr k, ?_, ?_, ?_, ?_, ?_, fun _ _ => rfl, ?_⟩
  · intro th hth
    have := hst th hth
    cases th <;> simp_all [Th.isFreshNonWriter, NoW]
  · intro th hth id hid
    exact List.mem_filterMap.mpr ⟨th, hth, hid⟩
  · intro th hth id hid
    have := hst th hth
    cases th <;> simp_all [Th.isFreshNonWriter, claim]
  · intro th hth id hid
    have := hst th hth
    cases th <;> simp_all [Th.isFreshNonWriter, claim]
  · intro th hth id k todo r e
    have := hst th hth
    rw [e] at this; simp [Th.isFreshNonWriter] at this
  · intro th hth mc k todo e
    have := hst th hth
    rw [e] at this; simp [Th.isFreshNonWriter] at this
  · intro th hth ids refd ordK e
    have := hst th hth
    rw [e] at this; simp [Th.isFreshNonWriter] at this
  · intro th hth refd e
    have := hst th hth
    cases th <;> simp_all [Th.isFreshNonWriter, lateRefd]
  · intro th hth k refd todo e
    have := hst th hth
    rw [e] at this; simp [Th.isFreshNonWriter] at this
  · intro th hth id k todo r e
    have := hst th hth
    rw [e] at this; simp [Th.isFreshNonWriter] at this

/-- Deleters of pairwise different artifacts, `gc_cycle`s and `full_gc`s, freshly started on a store whose
    refcounts dominate the occurrences, under EVERY schedule of their `TensorStore` calls and every scan order:
    an artifact no deleter is after reads back exactly as before. -/
theorem deleters_collectors_safe {s : State K} (hn : (keys s.arts).Nodup) (hr : ∀ k, occ k s.arts ≤ refsOf k s.chunks)
    (ths : List (Th K)) (sched : List Nat) (hst : ∀ th ∈ ths, th.isFreshNonWriter = true)
    (hd : (ths.filterMap target).Nodup) (id : Nat) (hid : ∀ th ∈ ths, target th ≠ some id) :
    get (runSched h s ths sched).1 id = get s id := by
  obtain ⟨C', hinv⟩ := runSched_CInv h sched (CInv_init hn hr hst hd)
  have hidT : id ∉ ths.filterMap target := by
    intro hm
    obtain ⟨th, hth, hte⟩ := List.mem_filterMap.mp hm
    exact hid th hth hte
  unfold get
  rw [hinv.artsB id hidT]
  cases hf : find id s.arts with
  | none => rfl
  | some a =>
    simp only
    exact readChunks_congr (fun k hk => hinv.dataJ k ⟨id, a, hidT, hf, hk⟩)

end
end Neumann.Blob
