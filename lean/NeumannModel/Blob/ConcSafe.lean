import NeumannModel.Blob.ConcCalls
/-
  C19 — deleters of pairwise different artifacts, `gc_cycle`s and `full_gc`s, interleaved at the level of
  single `TensorStore` calls (no writer running): no artifact that is not being deleted loses a chunk or a byte.

  Accounting.  `C` is the (ghost) set of artifact ids some deleter has read the metadata of.  For a key `k`
      rhs k = (occurrences of k in the artifacts not in C) + (decrements of k the deleters in flight still owe)
  never increases, every `_refs` value in the store AND every stale `_refs` value a deleter is about to write
  back is at least `rhs k`, a `gc_cycle` only deletes a key after reading `_refs == 0` (so `rhs k = 0` from then
  on), and `full_gc`'s `referenced` set covers every artifact that still exists when it starts deleting.
-/
namespace Neumann.Blob

section assoc
variable {α β : Type} [DecidableEq α]

theorem find_setRec (k k' : α) (v : β) (l : List (α × β)) :
    find k' (setRec k v l) = if k' = k then some v else find k' l := by
  unfold setRec
  cases hf : find k l with
  | some r =>
    simp only [find_modify]
    by_cases e : k' = k
    · subst e; simp [hf]
    · simp [e]
  | none =>
    simp only [find_append, find_cons]
    by_cases e : k' = k
    · subst e; simp [hf]
    · have : ¬ k = k' := fun x => e x.symm
      cases find k' l <;> simp [e, this]

theorem sum_map_zero {γ : Type} (l : List γ) (f : γ → Nat) (hz : ∀ p ∈ l, f p = 0) : (l.map f).sum = 0 := by
  induction l with
  | nil => rfl
  | cons p l ih =>
    simp only [List.map_cons, List.sum_cons]
    rw [hz p (by simp), ih (fun q hq => hz q (by simp [hq]))]

theorem le_sum_map {γ : Type} (l : List γ) (f : γ → Nat) {p : γ} (hp : p ∈ l) : f p ≤ (l.map f).sum := by
  induction l with
  | nil => simp at hp
  | cons q l ih =>
    simp only [List.map_cons, List.sum_cons]
    rcases List.mem_cons.mp hp with e | e
    · subst e; omega
    · have := ih e; omega

theorem sum_map_set {γ : Type} (l : List γ) (f : γ → Nat) (i : Nat) (x y : γ) (hx : l[i]? = some x) :
    ((l.set i y).map f).sum + f x = (l.map f).sum + f y := by
  induction l generalizing i with
  | nil => simp at hx
  | cons q l ih =>
    cases i with
    | zero =>
      simp only [List.getElem?_cons_zero, Option.some.injEq] at hx
      subst hx
      simp only [List.set_cons_zero, List.map_cons, List.sum_cons]; omega
    | succ i =>
      simp only [List.getElem?_cons_succ] at hx
      simp only [List.set_cons_succ, List.map_cons, List.sum_cons]
      have := ih i hx; omega

theorem mem_orderBy {k : α} {ord ks : List α} (hk : k ∈ ks) : k ∈ orderBy ord ks := by
  unfold orderBy
  rw [List.mem_append]
  by_cases ho : k ∈ ord
  · left; exact List.mem_filter.mpr ⟨ho, by simpa using hk⟩
  · right; exact List.mem_filter.mpr ⟨hk, by simpa using ho⟩

end assoc

section
variable {K : Type} [DecidableEq K] (h : List Nat → K)

/-- decrements of `k` a deleter still owes -/
def owes (k : K) : Th K → Nat
  | .dDecGet _ todo => todo.count k
  | .dDecPut _ k' todo _ => todo.count k + (if k' = k then 1 else 0)
  | _ => 0

/-- the artifact whose metadata a deleter has read -/
def claim : Th K → Option Nat
  | .dDecGet id _ => some id
  | .dDecPut id _ _ _ => some id
  | _ => none

/-- the artifact a deleter is after -/
def target : Th K → Option Nat
  | .dGetMeta id => some id
  | .dDecGet id _ => some id
  | .dDecPut id _ _ _ => some id
  | _ => none

/-- not a writer -/
def NoW : Th K → Prop
  | .wExists _ _ _ _ _ => False
  | .wPutNew _ _ _ _ _ _ => False
  | .wIncGet _ _ _ _ _ _ => False
  | .wIncPut _ _ _ _ _ _ _ => False
  | _ => True

/-- `referenced` set of a `full_gc` that has finished reading the metadata -/
def lateRefd : Th K → Option (List K)
  | .fScanChunks refd _ => some refd
  | .fGet refd _ => some refd
  | .fDel _ refd _ => some refd
  | _ => none

def occF (k : K) (C : List Nat) (arts : List (Nat × Art K)) : Nat :=
  (arts.map (fun a => if C.contains a.1 then 0 else a.2.chunks.count k)).sum

def owed (k : K) (ths : List (Th K)) : Nat := (ths.map (owes k)).sum

def rhs (k : K) (C : List Nat) (s : State K) (ths : List (Th K)) : Nat := occF k C s.arts + owed k ths

/-- `k` is listed by an artifact no deleter is after -/
def Prot (s0 : State K) (T : List Nat) (k : K) : Prop :=
  ∃ id a, id ∉ T ∧ find id s0.arts = some a ∧ k ∈ a.chunks

def Distinct (ths : List (Th K)) : Prop :=
  ∀ i j thi thj id, i ≠ j → ths[i]? = some thi → ths[j]? = some thj → target thi = some id → target thj ≠ some id

structure CInv (s0 : State K) (T C : List Nat) (s : State K) (ths : List (Th K)) : Prop where
  noW : ∀ th ∈ ths, NoW th
  nodup : (keys s.arts).Nodup
  artsB : ∀ id, id ∉ T → find id s.arts = find id s0.arts
  cT : ∀ id ∈ C, id ∈ T
  tT : ∀ th ∈ ths, ∀ id, target th = some id → id ∈ T
  dist : Distinct ths
  kInv : ∀ th ∈ ths, ∀ id, th = .dGetMeta id → id ∉ C
  mInv : ∀ th ∈ ths, ∀ id, claim th = some id → id ∈ C
  nInv : ∀ th ∈ ths, ∀ id, claim th = some id → ∃ a, find id s.arts = some a ∧ ∀ k, 0 < owes k th → k ∈ a.chunks
  refsD : ∀ k, rhs k C s ths ≤ refsOf k s.chunks
  staleE : ∀ th ∈ ths, ∀ id k todo r, th = .dDecPut id k todo r → rhs k C s ths ≤ r.refs
  gdelF : ∀ th ∈ ths, ∀ mc k todo, th = .gDel mc k todo → rhs k C s ths = 0
  fMeta : ∀ th ∈ ths, ∀ ids refd ordK, th = .fGetMeta ids refd ordK →
    ∀ p ∈ s.arts, p.1 ∈ ids ∨ ∀ k ∈ p.2.chunks, k ∈ refd
  fLate : ∀ th ∈ ths, ∀ refd, lateRefd th = some refd → ∀ p ∈ s.arts, ∀ k ∈ p.2.chunks, k ∈ refd
  fDelC : ∀ th ∈ ths, ∀ k refd todo, th = .fDel k refd todo → refd.contains k = false
  dataJ : ∀ k, Prot s0 T k → dataOf k s.chunks = dataOf k s0.chunks
  staleJ : ∀ th ∈ ths, ∀ id k todo r, th = .dDecPut id k todo r → Prot s0 T k → some r.data = dataOf k s0.chunks

/-! ### accounting lemmas -/

theorem owed_set (k : K) (ths : List (Th K)) (i : Nat) (th th' : Th K) (hi : ths[i]? = some th) :
    owed k (ths.set i th') + owes k th = owed k ths + owes k th' :=
  sum_map_set ths (owes k) i th th' hi

theorem rhs_set_le (k : K) (C : List Nat) (s : State K) (ths : List (Th K)) (i : Nat) (th th' : Th K)
    (hi : ths[i]? = some th) (hle : owes k th' ≤ owes k th) :
    rhs k C s (ths.set i th') ≤ rhs k C s ths := by
  have := owed_set k ths i th th' hi
  unfold rhs; omega

theorem mem_of_getElem?' {ths : List (Th K)} {i : Nat} {th : Th K} (hi : ths[i]? = some th) : th ∈ ths :=
  List.mem_of_getElem? hi

theorem owes_le_owed (k : K) {ths : List (Th K)} {th : Th K} (hm : th ∈ ths) : owes k th ≤ owed k ths :=
  le_sum_map ths (owes k) hm

/-- claiming: the artifact's occurrences move from "free" to "owed" -/
theorem occF_claim (k : K) (C : List Nat) (arts : List (Nat × Art K)) (id : Nat) (a : Art K)
    (hn : (keys arts).Nodup) (hf : find id arts = some a) (hc : id ∉ C) :
    occF k (id :: C) arts + a.chunks.count k = occF k C arts := by
  induction arts with
  | nil => simp at hf
  | cons q arts ih =>
    simp only [keys_cons, List.nodup_cons] at hn
    rw [find_cons] at hf
    unfold occF at ih ⊢
    simp only [List.map_cons, List.sum_cons]
    by_cases hq : q.1 = id
    · simp only [hq, if_true, Option.some.injEq] at hf
      have hnot : id ∉ keys arts := hq ▸ hn.1
      have hrest : (arts.map (fun a => if (id :: C).contains a.1 then 0 else a.2.chunks.count k)).sum
          = (arts.map (fun a => if C.contains a.1 then 0 else a.2.chunks.count k)).sum := by
        congr 1
        apply List.map_congr_left
        intro p hp
        have : p.1 ≠ id := fun e => hnot (e ▸ List.mem_map.mpr ⟨p, hp, rfl⟩)
        simp [this]
      have hcc : C.contains id = false := by simpa using hc
      rw [hrest, hq, hf]
      simp [hcc]
    · simp only [hq, if_false] at hf
      have := ih hn.2 hf
      have hqq : (id :: C).contains q.1 = C.contains q.1 := by simp [hq]
      rw [hqq]
      omega

/-- erasing a claimed artifact changes nothing -/
theorem occF_erase (k : K) (C : List Nat) (arts : List (Nat × Art K)) (id : Nat) (hc : id ∈ C) :
    occF k C (erase id arts) = occF k C arts := by
  induction arts with
  | nil => rfl
  | cons q arts ih =>
    unfold occF at ih ⊢
    simp only [erase] at ih ⊢
    by_cases hq : q.1 = id
    · rw [List.filter_cons_of_neg (by simp [hq])]
      simp only [List.map_cons, List.sum_cons]
      have : C.contains q.1 = true := by rw [hq]; simpa using hc
      rw [ih]; simp [this]
    · rw [List.filter_cons_of_pos (by simp [hq])]
      simp only [List.map_cons, List.sum_cons]
      rw [ih]

theorem occF_zero (k : K) (C : List Nat) (arts : List (Nat × Art K)) (hz : ∀ p ∈ arts, k ∉ p.2.chunks) :
    occF k C arts = 0 := by
  apply sum_map_zero
  intro p hp
  have := hz p hp
  by_cases hc : C.contains p.1 = true
  · simp [hc]
  · simp only [hc]; exact List.count_eq_zero.mpr this

theorem occF_pos (k : K) (C : List Nat) (arts : List (Nat × Art K)) {p : Nat × Art K} (hp : p ∈ arts)
    (hc : p.1 ∉ C) (hk : k ∈ p.2.chunks) : 0 < occF k C arts := by
  have := le_sum_map arts (fun a => if C.contains a.1 then 0 else a.2.chunks.count k) hp
  have hcc : C.contains p.1 = false := by simpa using hc
  simp only [hcc] at this
  have := List.count_pos_iff.mpr hk
  unfold occF; omega

theorem prot_mem {s0 s : State K} {T : List Nat} (hB : ∀ id, id ∉ T → find id s.arts = find id s0.arts) {k : K}
    (hp : Prot s0 T k) : ∃ p ∈ s.arts, p.1 ∉ T ∧ k ∈ p.2.chunks := by
  obtain ⟨id, a, hid, hf, hk⟩ := hp
  have := hB id hid
  rw [hf] at this
  exact ⟨(id, a), find_some_mem this, hid, hk⟩

theorem prot_rhs_pos {s0 : State K} {T C : List Nat} {s : State K} {ths : List (Th K)}
    (hB : ∀ id, id ∉ T → find id s.arts = find id s0.arts) (hcT : ∀ id ∈ C, id ∈ T) {k : K}
    (hp : Prot s0 T k) : 0 < rhs k C s ths := by
  obtain ⟨p, hp1, hp2, hp3⟩ := prot_mem hB hp
  have := occF_pos k C s.arts hp1 (fun hc => hp2 (hcT _ hc)) hp3
  unfold rhs; omega

end
end Neumann.Blob
