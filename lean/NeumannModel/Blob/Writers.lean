import NeumannModel.Blob.Model
/-
  C19 — sequential histories with OPEN streaming writers.  Import-free (core Lean + Model), total, computable.

  `BlobStore::writer()` hands out a `BlobWriter` that stays open across any number of other operations of
  the same store (one thread: `writer(); write(); delete(other); gc(); write(); finish()`).  `WState` is the
  store plus the table of open writers (what the harness keeps in `Real::writers`, the driver in
  `DState.writers`); `WOp` adds `wopen / wwrite / wfinish / wdrop` to the operations of `Model.Op`.

  Mirrors `streaming.rs` as it is: `BlobWriter::store_chunk` takes the reference on an already existing
  chunk AT WRITE TIME (`increment_chunk_refs` inside `store_chunk`, `storeChunk` of Model.lean), so a chunk an
  open writer has stored carries one reference per occurrence in the writer's list from that moment on.

  `storeChunkDeferredRefs` / `wWriteDeferredRefs` / `wFinishDeferredRefs` are NOT the current code: they are the
  variant that only remembers deduplicated keys in a `shared` list and takes those references in `finish()`,
  kept here for the witness that this variant loses a chunk (Props: `deferred_refs_writer_loses_chunk_witness`).
-/
namespace Neumann.Blob

/-- the store and its open writers (writer ids are the harness's handles) -/
structure WState (K : Type) where
  st : State K
  writers : List (Nat × Writer K)
  deriving DecidableEq, Repr

def WState.init {K : Type} : WState K := ⟨State.init, []⟩

inductive WOp
  | base (op : Op)
  | wopen (w : Nat)
  | wwrite (w t : Nat) (piece : List Nat)
  | wfinish (w t : Nat)
  | wdrop (w : Nat)
  deriving DecidableEq, Repr

/-- `full_gc` / `repair`: the collectors that recount from the metadata records and ignore open writers
    (known findings `tensor_blob.full_gc/live_chunk_collected`, `tensor_blob.repair/live_chunk_collected`) -/
def WOp.isFullCollector : WOp → Bool
  | .base .fullGc => true
  | .base .repair => true
  | _ => false

section
variable {K : Type} [DecidableEq K] (h : List Nat → K)

/-- one operation of a history with open writers; `wwrite` / `wfinish` on a handle that is not open do nothing
    (the driver answers `bad-op`) -/
def applyW (cfg : Cfg) (x : WState K) : WOp → WState K
  | .base op => { x with st := applyOp h cfg x.st op }
  | .wopen w => { x with writers := (w, Writer.new) :: erase w x.writers }
  | .wwrite w t piece =>
    match find w x.writers with
    | none => x
    | some wr =>
      ⟨(wWrite h cfg.chunkSize t x.st wr piece).1, (w, (wWrite h cfg.chunkSize t x.st wr piece).2) :: erase w x.writers⟩
  | .wfinish w t =>
    match find w x.writers with
    | none => x
    | some wr => ⟨(wFinish h t x.st wr).1, erase w x.writers⟩
  | .wdrop w => { x with writers := erase w x.writers }

def runW (cfg : Cfg) (x : WState K) (ops : List WOp) : WState K := ops.foldl (applyW h cfg) x

/-- `full_gc` / `repair` run only at moments when no writer is open (everything else is unrestricted) -/
def collectorsQuiet (cfg : Cfg) (x : WState K) : List WOp → Bool
  | [] => true
  | op :: ops => (!op.isFullCollector || x.writers.isEmpty) && collectorsQuiet cfg (applyW h cfg x op) ops

/-- number of references open writers hold on key `k`: one per occurrence in a writer's chunk list -/
def holds (k : K) (ws : List (Nat × Writer K)) : Nat := (ws.map (fun w => w.2.chunks.count k)).sum

end

/-- the bytes handed to writer `w` since it was last opened (`acc`: what it had been handed before `ops`) -/
def writtenGo (w : Nat) (acc : List Nat) : List WOp → List Nat
  | [] => acc
  | .wopen w' :: ops => writtenGo w (if w' = w then [] else acc) ops
  | .wwrite w' _ piece :: ops => writtenGo w (if w' = w then acc ++ piece else acc) ops
  | .wfinish w' _ :: ops => writtenGo w (if w' = w then [] else acc) ops
  | .wdrop w' :: ops => writtenGo w (if w' = w then [] else acc) ops
  | .base _ :: ops => writtenGo w acc ops

def writtenTo (w : Nat) (ops : List WOp) : List Nat := writtenGo w [] ops

/-! ## the deferred-increment variant (NOT the current code) -/

/-- a writer that also remembers the deduplicated keys whose reference it has not taken yet -/
structure DWriter (K : Type) where
  w : Writer K
  shared : List K
  deriving DecidableEq, Repr

def DWriter.new {K : Type} : DWriter K := ⟨Writer.new, []⟩

section
variable {K : Type} [DecidableEq K] (h : List Nat → K)

/-- `store_chunk` of the variant: an existing key is only remembered in `shared` (no `increment_chunk_refs`),
    a new one is stored with `_refs = 1` as before -/
def storeChunkDeferredRefs (t : Nat) (acc : List (K × CRec) × List K) (d : List Nat) : List (K × CRec) × List K :=
  match find (h d) acc.1 with
  | some _ => (acc.1, acc.2 ++ [h d])
  | none => (acc.1 ++ [(h d, { data := d, size := d.length, refs := 1, created := t })], acc.2)

def wWriteDeferredRefs (c t : Nat) (s : State K) (w : DWriter K) (piece : List Nat) : State K × DWriter K :=
  if piece = [] then (s, w)
  else
    let r := splitFull c (w.w.buffer ++ piece)
    let st := r.1.foldl (storeChunkDeferredRefs h t) (s.chunks, w.shared)
    ({ s with chunks := st.1 },
     ⟨{ chunks := w.w.chunks ++ r.1.map h, total := w.w.total + piece.length,
        hashed := w.w.hashed ++ piece, buffer := r.2 }, st.2⟩)

/-- `increment_chunk_refs`: silently nothing on a missing record -/
def incRef (tbl : List (K × CRec)) (k : K) : List (K × CRec) :=
  modify k (fun r => { r with refs := r.refs + 1 }) tbl

/-- `finish` of the variant: flush the buffer, take the remembered references, put the metadata -/
def wFinishDeferredRefs (t : Nat) (s : State K) (w : DWriter K) : State K × Nat :=
  let last : List (List Nat) := if w.w.buffer = [] then [] else [w.w.buffer]
  let st := last.foldl (storeChunkDeferredRefs h t) (s.chunks, w.shared)
  ({ chunks := st.2.foldl incRef st.1,
     arts := s.arts ++ [(s.next, { chunks := w.w.chunks ++ last.map h, size := w.w.total, checksum := h w.w.hashed })],
     next := s.next + 1 }, s.next)

end

end Neumann.Blob
