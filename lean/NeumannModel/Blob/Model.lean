/-
  C19 — model of `tensor_blob` (content-addressed chunked blob store).
  Import-free, total, computable.  Mirrors, branch by branch,

    * `chunker.rs`    `Chunker::chunk`            ↦ `chunks`
    * `streaming.rs`  `BlobWriter::{write,store_chunk,finish}` ↦ `wWrite`, `storeChunk`, `wFinish`
                      `BlobReader::{new,next_chunk,read_all}` ↦ `get`
    * `lib.rs`        `BlobStore::{put,get,delete,gc,full_gc,verify,repair}`
    * `gc.rs`         `gc_cycle`, `full_gc`, `{increment,decrement}_chunk_refs`
    * `integrity.rs`  `verify_artifact`, `repair`, `delete_artifact`

  The content hash (SHA-256) is an opaque function `h : List Nat → K`; the
  theorems that need it assume `HashInj h`.  The driver instantiates `K` with
  the chunk bytes themselves (`h = id`).

  Not modelled: secondary indexes / tags / links / embeddings (never read by
  any operation below), `chunk_size = 0` (rejected by `BlobConfig::validate`),
  the background GC task (it only calls `gc_cycle` periodically).
-/
namespace Neumann.Blob

/-! ## association lists (the `TensorStore` key space, one list per key prefix) -/

/-- `store.get(key)`: first entry with that key -/
def find {α β : Type} [DecidableEq α] (k : α) : List (α × β) → Option β
  | [] => none
  | p :: l => if p.1 = k then some p.2 else find k l

/-- `store.delete(key)` -/
def erase {α β : Type} [DecidableEq α] (k : α) (l : List (α × β)) : List (α × β) :=
  l.filter (fun p => decide (p.1 ≠ k))

/-- `if let Ok(mut t) = store.get(key) { t.set(..); store.put(key, t) }` — a no-op on an absent key -/
def modify {α β : Type} [DecidableEq α] (k : α) (f : β → β) (l : List (α × β)) : List (α × β) :=
  l.map (fun p => if p.1 = k then (p.1, f p.2) else p)

/-! ## records -/

/-- tensor under `_blob:chunk:<hash>`: `_data`, `_size`, `_refs`, `_created` -/
structure CRec where
  data : List Nat
  size : Nat
  refs : Nat
  created : Nat
  deriving DecidableEq, Repr

/-- tensor under `_blob:meta:<id>`: `_chunks` (ordered key list, repeats allowed), `_size`, `_checksum` -/
structure Art (K : Type) where
  chunks : List K
  size : Nat
  checksum : K
  deriving DecidableEq, Repr

structure State (K : Type) where
  chunks : List (K × CRec)
  arts : List (Nat × Art K)
  /-- next fresh artifact id (stands for the fresh uuid) -/
  next : Nat
  deriving DecidableEq, Repr

def State.init {K : Type} : State K := ⟨[], [], 0⟩

structure Cfg where
  chunkSize : Nat
  maxSize : Option Nat
  deriving DecidableEq, Repr

inductive Err | notFound | chunkMissing | emptyData | tooLarge
  deriving DecidableEq, Repr

deriving instance DecidableEq for Except

/-- number of times key `k` is listed by live artifacts (what `repair` calls `true_refs`) -/
def occ {K : Type} [DecidableEq K] (k : K) (arts : List (Nat × Art K)) : Nat :=
  (arts.map (fun a => a.2.chunks.count k)).sum

/-! ## chunker -/

def chunksGo (c : Nat) : Nat → List Nat → List (List Nat)
  | 0, _ => []
  | fuel + 1, d => if c = 0 ∨ d = [] then [] else d.take c :: chunksGo c fuel (d.drop c)

/-- `data.chunks(c)`: consecutive pieces of `c` bytes, the last one shorter; none for empty data
    (the loop runs at most `d.length` times) -/
def chunks (c : Nat) (d : List Nat) : List (List Nat) := chunksGo c d.length d

def splitGo (c : Nat) : Nat → List Nat → List (List Nat) × List Nat
  | 0, buf => ([], buf)
  | fuel + 1, buf =>
    if c = 0 ∨ buf.length < c then ([], buf)
    else ((buf.take c) :: (splitGo c fuel (buf.drop c)).1, (splitGo c fuel (buf.drop c)).2)

/-- the writer's `while buffer.len() >= chunk_size { drain(..chunk_size) }` loop:
    the full chunks cut off the front of the buffer, and what stays buffered
    (the loop runs at most `buf.length` times) -/
def splitFull (c : Nat) (buf : List Nat) : List (List Nat) × List Nat := splitGo c buf.length buf

section
variable {K : Type} [DecidableEq K] (h : List Nat → K)

/-! ## writer (`streaming.rs`) -/

/-- `BlobWriter::store_chunk`: existing key ⇒ `increment_chunk_refs`, else a new record with `_refs = 1` -/
def storeChunk (t : Nat) (tbl : List (K × CRec)) (d : List Nat) : List (K × CRec) :=
  match find (h d) tbl with
  | some _ => modify (h d) (fun r => { r with refs := r.refs + 1 }) tbl
  | none => tbl ++ [(h d, { data := d, size := d.length, refs := 1, created := t })]

/-- `BlobWriter` fields: `chunks`, `total_size`, the running hasher (all bytes so far), `buffer` -/
structure Writer (K : Type) where
  chunks : List K
  total : Nat
  hashed : List Nat
  buffer : List Nat
  deriving DecidableEq, Repr

def Writer.new {K : Type} : Writer K := ⟨[], 0, [], []⟩

/-- `BlobWriter::write(piece)` at time `t` -/
def wWrite (c t : Nat) (s : State K) (w : Writer K) (piece : List Nat) : State K × Writer K :=
  if piece = [] then (s, w)
  else
    let r := splitFull c (w.buffer ++ piece)
    ({ s with chunks := r.1.foldl (storeChunk h t) s.chunks },
     { chunks := w.chunks ++ r.1.map h, total := w.total + piece.length,
       hashed := w.hashed ++ piece, buffer := r.2 })

/-- `BlobWriter::finish`: flush the buffer as a last (short) chunk, then put the metadata -/
def wFinish (t : Nat) (s : State K) (w : Writer K) : State K × Nat :=
  let last : List (List Nat) := if w.buffer = [] then [] else [w.buffer]
  ({ chunks := last.foldl (storeChunk h t) s.chunks,
     arts := s.arts ++ [(s.next, { chunks := w.chunks ++ last.map h, size := w.total, checksum := h w.hashed })],
     next := s.next + 1 }, s.next)

def writeAll (c t : Nat) (s : State K) (w : Writer K) (pieces : List (List Nat)) : State K × Writer K :=
  pieces.foldl (fun sw p => wWrite h c t sw.1 sw.2 p) (s, w)

/-- a writer that is fed `pieces` and finished -/
def stream (cfg : Cfg) (t : Nat) (s : State K) (pieces : List (List Nat)) : State K × Nat :=
  let sw := writeAll h cfg.chunkSize t s Writer.new pieces
  wFinish h t sw.1 sw.2

/-- a writer that is fed `pieces` and dropped without `finish` (its increments stay behind) -/
def streamAbandon (cfg : Cfg) (t : Nat) (s : State K) (pieces : List (List Nat)) : State K :=
  (writeAll h cfg.chunkSize t s Writer.new pieces).1

/-- `if let Some(max) = max_artifact_size { if data.len() > max { Err } }` -/
def tooLarge (cfg : Cfg) (n : Nat) : Bool :=
  match cfg.maxSize with | some m => decide (n > m) | none => false

/-- `BlobStore::put` -/
def put (cfg : Cfg) (t : Nat) (s : State K) (d : List Nat) : State K × Except Err Nat :=
  if d = [] then (s, .error .emptyData)
  else if tooLarge cfg d.length then (s, .error .tooLarge)
  else
    let r := stream h cfg t s [d]
    (r.1, .ok r.2)

/-! ## reader -/

/-- `BlobReader::read_all`: the first absent key aborts with `ChunkMissing` -/
def readChunks (tbl : List (K × CRec)) : List K → Except Err (List Nat)
  | [] => .ok []
  | k :: ks =>
    match find k tbl with
    | none => .error .chunkMissing
    | some r =>
      match readChunks tbl ks with
      | .error e => .error e
      | .ok rest => .ok (r.data ++ rest)

/-- `BlobStore::get` -/
def get (s : State K) (id : Nat) : Except Err (List Nat) :=
  match find id s.arts with
  | none => .error .notFound
  | some a => readChunks s.chunks a.chunks

/-- `integrity::verify_artifact`: re-hash the concatenated chunk data against `_checksum` -/
def verify (s : State K) (id : Nat) : Except Err Bool :=
  match find id s.arts with
  | none => .error .notFound
  | some a =>
    match readChunks s.chunks a.chunks with
    | .error e => .error e
    | .ok d => .ok (decide (h d = a.checksum))

/-! ## delete / gc / repair -/

/-- `decrement_chunk_refs`: `(refs - 1).max(0)` on an existing record -/
def decRef (tbl : List (K × CRec)) (k : K) : List (K × CRec) :=
  modify k (fun r => { r with refs := r.refs - 1 }) tbl

/-- `integrity::delete_artifact`: one decrement per listed key (repeats included), then drop the metadata.
    Chunk records are never removed here. -/
def delete (s : State K) (id : Nat) : State K × Except Err Unit :=
  match find id s.arts with
  | none => (s, .error .notFound)
  | some a => ({ s with chunks := a.chunks.foldl decRef s.chunks, arts := erase id s.arts }, .ok ())

def gcDead (minCreated : Nat) (sel : K → Bool) (p : K × CRec) : Bool :=
  sel p.1 && decide (p.2.refs = 0) && decide (p.2.created < minCreated)

/-- `GarbageCollector::gc_cycle` restricted to the keys `sel` the scan handed it (`take(batch_size)`):
    a record goes iff `_refs == 0 && _created < now - min_age`.  Each iteration touches only its own key. -/
def gcSel (minCreated : Nat) (sel : K → Bool) (s : State K) : State K × Nat × Nat :=
  let dead := s.chunks.filter (gcDead minCreated sel)
  ({ s with chunks := s.chunks.filter (fun p => !gcDead minCreated sel p) },
   dead.length, (dead.map (fun p => p.2.size)).sum)

/-- `gc_cycle` with `batch_size ≥` number of chunks; `min_created = now.saturating_sub(min_age)` -/
def gc (now minAge : Nat) (s : State K) : State K × Nat × Nat :=
  gcSel (now - minAge) (fun _ => true) s

/-- the `referenced` set of `full_gc` -/
def referenced (arts : List (Nat × Art K)) : List K := arts.flatMap (fun a => a.2.chunks)

/-- `GarbageCollector::full_gc`: ignores `_refs` and `_created`; keeps exactly the keys listed by some metadata record -/
def fullGc (s : State K) : State K × Nat × Nat :=
  let dead := s.chunks.filter (fun p => !(referenced s.arts).contains p.1)
  ({ s with chunks := s.chunks.filter (fun p => (referenced s.arts).contains p.1) },
   dead.length, (dead.map (fun p => p.2.size)).sum)

structure RepairStats where
  artifactsChecked : Nat
  chunksVerified : Nat
  refsFixed : Nat
  orphansDeleted : Nat
  deriving DecidableEq, Repr

/-- phase 2 of `integrity::repair` for one chunk record: `if current_refs != expected_refs { set; put }` -/
def fixRefs (arts : List (Nat × Art K)) (p : K × CRec) : K × CRec :=
  if p.2.refs ≠ occ p.1 arts then (p.1, { p.2 with refs := occ p.1 arts }) else p

/-- `integrity::repair`: reset every `_refs` to the true count (phase 2), delete the records whose
    true count is 0 (phase 3).  Each iteration touches only its own key. -/
def repair (s : State K) : State K × RepairStats :=
  ({ s with chunks := (s.chunks.filter (fun p => decide (occ p.1 s.arts ≠ 0))).map (fixRefs s.arts) },
   { artifactsChecked := s.arts.length, chunksVerified := s.chunks.length,
     refsFixed := (s.chunks.filter (fun p => decide (p.2.refs ≠ occ p.1 s.arts))).length,
     orphansDeleted := (s.chunks.filter (fun p => decide (occ p.1 s.arts = 0))).length })

/-! ## environment damage (used by the verify oracle, never by the store itself) -/

def corrupt (s : State K) (k : K) (d : List Nat) : State K :=
  { s with chunks := modify k (fun r => { r with data := d }) s.chunks }

def dropChunk (s : State K) (k : K) : State K :=
  { s with chunks := erase k s.chunks }

/-- "time passes": the harness rewrites `_created` of every chunk it has not stamped yet -/
def restamp (s : State K) (k : K) (t : Nat) : State K :=
  { s with chunks := modify k (fun r => { r with created := t }) s.chunks }

/-! ## streaming reader (`streaming.rs` `BlobReader`) -/

/-- `BlobReader` fields: the chunk-key list copied from the metadata when the reader was opened,
    `current_chunk`, `current_data`, `current_offset`, `total_size`, `bytes_read`, `checksum` -/
structure Reader (K : Type) where
  chunks : List K
  cur : Nat
  data : Option (List Nat)
  off : Nat
  total : Nat
  bytesRead : Nat
  checksum : K
  deriving DecidableEq, Repr

/-- `BlobStore::reader` / `BlobReader::new`: only the metadata record is read -/
def rOpen (s : State K) (id : Nat) : Except Err (Reader K) :=
  match find id s.arts with
  | none => .error .notFound
  | some a => .ok ⟨a.chunks, 0, none, 0, a.size, 0, a.checksum⟩

/-- `BlobReader::next_chunk`: `None` past the last key; a missing record is `ChunkMissing` and leaves the
    position where it was -/
def rNext (tbl : List (K × CRec)) (r : Reader K) : Except Err (Option (List Nat)) × Reader K :=
  match r.chunks[r.cur]? with
  | none => (.ok none, r)
  | some k =>
    match find k tbl with
    | none => (.error .chunkMissing, r)
    | some c => (.ok (some c.data), { r with cur := r.cur + 1, bytesRead := r.bytesRead + c.data.length })

/-- the chunk `read` can still copy from: `current_data` unless absent or used up (`current_offset >= len`) -/
def Reader.loaded {K : Type} (r : Reader K) : Option (List Nat) :=
  match r.data with
  | none => none
  | some d => if r.off ≥ d.length then none else some d

/-- `BlobReader::read(buf)` with `buf.len() = n`: the bytes copied into the buffer.  A new chunk is loaded
    when none is loaded or the loaded one is used up; at most the rest of ONE chunk is returned. -/
def rRead (tbl : List (K × CRec)) (r : Reader K) (n : Nat) : Except Err (List Nat) × Reader K :=
  match r.loaded with
  | some d => (.ok ((d.drop r.off).take n), { r with off := r.off + ((d.drop r.off).take n).length })
  | none =>
    match rNext tbl r with
    | (.error e, r') => (.error e, r')
    | (.ok none, r') => (.ok [], r')
    | (.ok (some d), r') => (.ok (d.take n), { r' with data := some d, off := (d.take n).length })

def rAllGo (tbl : List (K × CRec)) : Nat → Reader K → Except Err (List Nat) × Reader K
  | 0, r => (.ok [], r)
  | fuel + 1, r =>
    match rNext tbl r with
    | (.error e, r') => (.error e, r')
    | (.ok none, r') => (.ok [], r')
    | (.ok (some d), r') =>
      match rAllGo tbl fuel r' with
      | (.error e, r'') => (.error e, r'')
      | (.ok rest, r'') => (.ok (d ++ rest), r'')

/-- `BlobReader::read_all`: `next_chunk` until `None` (at most `len - cur + 1` calls), from the current
    chunk position — bytes of a chunk partly consumed by `read` are not part of it -/
def rAll (tbl : List (K × CRec)) (r : Reader K) : Except Err (List Nat) × Reader K :=
  rAllGo tbl (r.chunks.length - r.cur + 1) r

/-- `BlobReader::verify`: rewind to the first chunk, re-hash everything against `_checksum` -/
def rVerify (tbl : List (K × CRec)) (r : Reader K) : Except Err Bool × Reader K :=
  match rAll tbl { r with cur := 0, bytesRead := 0 } with
  | (.error e, r') => (.error e, r')
  | (.ok d, r') => (.ok (decide (h d = r.checksum)), r')

/-! ## queries (`lib.rs` `exists`, `stats`; `integrity.rs` `verify_chunk`, `check_chunks_exist`,
    `find_orphaned_chunks`; `gc.rs` `count_orphans`) -/

/-- `BlobStore::exists` -/
def existsArt (s : State K) (id : Nat) : Bool := (find id s.arts).isSome

structure Stats where
  artifactCount : Nat
  chunkCount : Nat
  totalBytes : Nat
  uniqueBytes : Nat
  orphaned : Nat
  deriving DecidableEq, Repr

/-- `BlobStore::stats` (the float `dedup_ratio` is `1 - unique/total`, not modelled);
    `orphaned` is also `GarbageCollector::count_orphans`: records whose `_refs` is 0 -/
def stats (s : State K) : Stats :=
  { artifactCount := s.arts.length, chunkCount := s.chunks.length,
    totalBytes := (s.arts.map (fun a => a.2.size)).sum,
    uniqueBytes := (s.chunks.map (fun p => p.2.size)).sum,
    orphaned := (s.chunks.filter (fun p => decide (p.2.refs = 0))).length }

/-- `integrity::verify_chunk`: the record's data must hash to its own key -/
def verifyChunk (s : State K) (k : K) : Except Err Bool :=
  match find k s.chunks with
  | none => .error .chunkMissing
  | some r => .ok (decide (h r.data = k))

/-- `integrity::check_chunks_exist`: the listed keys (repeats included) that are absent -/
def checkChunksExist (s : State K) (id : Nat) : Except Err (List K) :=
  match find id s.arts with
  | none => .error .notFound
  | some a => .ok (a.chunks.filter (fun k => !(find k s.chunks).isSome))

/-- `integrity::find_orphaned_chunks`: chunk keys no metadata record lists (`_refs` is not consulted) -/
def findOrphaned (s : State K) : List K :=
  (s.chunks.filter (fun p => !(referenced s.arts).contains p.1)).map (·.1)

/-! ## operation sequences (the quantifier of the sequential theorems) -/

inductive Op
  | put (t : Nat) (d : List Nat)
  | stream (t : Nat) (pieces : List (List Nat))
  | abandon (t : Nat) (pieces : List (List Nat))
  | delete (id : Nat)
  | gc (minCreated : Nat) (batch : List Nat)   -- `batch`: positions of the scan the cycle looked at
  | gcAll (now minAge : Nat)
  | fullGc
  | verify (id : Nat)
  | get (id : Nat)
  | repair
  deriving DecidableEq, Repr

def applyOp (cfg : Cfg) (s : State K) : Op → State K
  | .put t d => (put h cfg t s d).1
  | .stream t ps => (stream h cfg t s ps).1
  | .abandon t ps => streamAbandon h cfg t s ps
  | .delete id => (delete s id).1
  | .gc mc batch =>
      (gcSel mc (fun k => batch.any (fun i => decide ((s.chunks.map (·.1))[i]? = some k))) s).1
  | .gcAll now age => (gc now age s).1
  | .fullGc => (fullGc s).1
  | .verify _ => s
  | .get _ => s
  | .repair => (repair s).1

def run (cfg : Cfg) (s : State K) (ops : List Op) : State K := ops.foldl (applyOp h cfg) s

end

end Neumann.Blob
