import NeumannModel.Blob.Invariant
/- C19 — streaming reader, per-chunk verification, orphan / statistics queries (helper lemmas). -/
namespace Neumann.Blob
section
variable {K : Type} [DecidableEq K] (h : List Nat → K)

/-! ### chunk records never hold empty data -/

def NE (tbl : List (K × CRec)) : Prop := ∀ p ∈ tbl, p.2.data ≠ []

theorem NE_modify_refs {tbl : List (K × CRec)} (k : K) (f : CRec → CRec) (hf : ∀ r, (f r).data = r.data)
    (hn : NE tbl) : NE (modify k f tbl) := by
  intro p hp
  simp only [modify, List.mem_map] at hp
  obtain ⟨q, hq, rfl⟩ := hp
  have := hn q hq
  by_cases e : q.1 = k <;> simp [e, hf, this]

theorem NE_filter {tbl : List (K × CRec)} (p : K × CRec → Bool) (hn : NE tbl) : NE (tbl.filter p) :=
  fun q hq => hn q (List.mem_filter.mp hq).1

theorem NE_storeChunk (t : Nat) {tbl : List (K × CRec)} {d : List Nat} (hd : d ≠ []) (hn : NE tbl) :
    NE (storeChunk h t tbl d) := by
  unfold storeChunk
  cases find (h d) tbl with
  | some r => exact NE_modify_refs _ _ (fun _ => rfl) hn
  | none =>
    intro p hp
    simp only [List.mem_append, List.mem_singleton] at hp
    rcases hp with hp | hp
    · exact hn p hp
    · subst hp; exact hd

theorem NE_storeAll (t : Nat) (cds : List (List Nat)) {tbl : List (K × CRec)} (hd : ∀ d ∈ cds, d ≠ [])
    (hn : NE tbl) : NE (cds.foldl (storeChunk h t) tbl) := by
  induction cds generalizing tbl with
  | nil => exact hn
  | cons d cds ih =>
    exact ih (fun d' hd' => hd d' (by simp [hd'])) (NE_storeChunk h t (hd d (by simp)) hn)

theorem NE_decAll (ks : List K) {tbl : List (K × CRec)} (hn : NE tbl) : NE (ks.foldl decRef tbl) := by
  induction ks generalizing tbl with
  | nil => exact hn
  | cons k ks ih => exact ih (NE_modify_refs _ _ (fun _ => rfl) hn)

theorem splitGo_nonempty (c fuel : Nat) (buf : List Nat) : ∀ d ∈ (splitGo c fuel buf).1, d ≠ [] := by
  induction fuel generalizing buf with
  | zero => simp [splitGo]
  | succ fuel ih =>
    rw [splitGo]
    by_cases hc : c = 0 ∨ buf.length < c
    · simp [hc]
    · simp only [hc, if_false, List.mem_cons]
      intro d hd
      rcases hd with e | e
      · subst e
        intro he
        have h1 : (buf.take c).length = 0 := by rw [he]; rfl
        rw [List.length_take] at h1
        omega
      · exact ih _ d e

theorem emit_nonempty (c : Nat) (buf : List Nat) (ps : List (List Nat)) : ∀ d ∈ (emit c buf ps).1, d ≠ [] := by
  induction ps generalizing buf with
  | nil => simp [emit]
  | cons p ps ih =>
    rw [emit]
    by_cases hp : p = []
    · simp only [hp, if_true]; exact ih buf
    · simp only [hp, if_false, List.mem_append]
      intro d hd
      rcases hd with e | e
      · exact splitGo_nonempty c _ _ d e
      · exact ih _ d e

theorem streamChunks_nonempty (c : Nat) (ps : List (List Nat)) : ∀ d ∈ streamChunks c ps, d ≠ [] := by
  unfold streamChunks
  intro d hd
  simp only [List.mem_append] at hd
  rcases hd with e | e
  · exact emit_nonempty c [] ps d e
  · by_cases he : (emit c [] ps).2 = []
    · simp [he] at e
    · simp only [he, if_false, List.mem_singleton] at e
      subst e; exact he

theorem NE_applyOp (cfg : Cfg) {s : State K} (hn : NE s.chunks) (op : Op) : NE (applyOp h cfg s op).chunks := by
  have hstream : ∀ t ps, NE (stream h cfg t s ps).1.chunks := by
    intro t ps; rw [stream_eq]; exact NE_storeAll h t _ (streamChunks_nonempty _ _) hn
  cases op with
  | put t d =>
    simp only [applyOp]
    rcases put_cases h cfg t s d with ⟨e, _⟩ | e
    · rw [e]; exact hn
    · rw [e]; exact hstream t [d]
  | stream t ps => exact hstream t ps
  | abandon t ps =>
    simp only [applyOp]; rw [abandon_eq]; exact NE_storeAll h t _ (emit_nonempty _ _ _) hn
  | delete id =>
    simp only [applyOp, delete]
    cases find id s.arts with
    | none => exact hn
    | some a => exact NE_decAll _ hn
  | gc mc batch => exact NE_filter _ hn
  | gcAll now age => exact NE_filter _ hn
  | fullGc => exact NE_filter _ hn
  | verify _ => exact hn
  | get _ => exact hn
  | repair =>
    simp only [applyOp, repair]
    intro p hp
    obtain ⟨q, hq, rfl⟩ := List.mem_map.mp hp
    have := hn q (List.mem_filter.mp hq).1
    unfold fixRefs
    by_cases e : q.2.refs ≠ occ q.1 s.arts <;> simp [e, this]

theorem NE_run (cfg : Cfg) (ops : List Op) {s : State K} (hn : NE s.chunks) : NE (run h cfg s ops).chunks := by
  induction ops generalizing s with
  | nil => exact hn
  | cons op ops ih => simp only [run, List.foldl_cons]; exact ih (NE_applyOp h cfg hn op)

theorem NE_reach (cfg : Cfg) (ops : List Op) : NE (run h cfg (State.init : State K) ops).chunks :=
  NE_run h cfg ops (by intro p hp; simp [State.init] at hp)

/-! ### an artifact that is not deleted keeps its metadata record and the data of its chunks -/

theorem applyOp_find_art (cfg : Cfg) {s : State K} (hw : WF h s) {id : Nat} {a : Art K}
    (hf : find id s.arts = some a) (op : Op) (hne : op ≠ .delete id) :
    find id (applyOp h cfg s op).arts = some a := by
  have hstream : ∀ t ps, find id (stream h cfg t s ps).1.arts = some a := by
    intro t ps; rw [stream_eq]; simp only [find_append, hf]
  cases op with
  | put t d =>
    simp only [applyOp]
    rcases put_cases h cfg t s d with ⟨e, _⟩ | e
    · rw [e]; exact hf
    · rw [e]; exact hstream t [d]
  | stream t ps => exact hstream t ps
  | abandon t ps => simp only [applyOp]; rw [abandon_eq]; exact hf
  | delete id' =>
    simp only [applyOp, delete]
    cases hf' : find id' s.arts with
    | none => exact hf
    | some a' =>
      simp only [find_erase]
      have : ¬ id = id' := fun e => hne (by rw [e])
      simp [this, hf]
  | gc mc batch => exact hf
  | gcAll now age => exact hf
  | fullGc => exact hf
  | verify _ => exact hf
  | get _ => exact hf
  | repair => exact hf

/-- no operation changes the data of a chunk some artifact lists (not even the delete of that artifact:
    chunk records are only removed by the collectors, and only unlisted ones) -/
theorem applyOp_dataOf (cfg : Cfg) {s : State K} (hw : WF h s) (op : Op) {k : K} (hk : 0 < occ k s.arts) :
    dataOf k (applyOp h cfg s op).chunks = dataOf k s.chunks := by
  have hpres : (find k s.chunks).isSome := refsOf_pos_isSome (by have := hw.refs k; omega)
  have hstream : ∀ t ps, dataOf k (stream h cfg t s ps).1.chunks = dataOf k s.chunks := by
    intro t ps; rw [stream_eq]; exact dataOf_storeAll_present h t _ hpres
  have hfilter : ∀ p : K × CRec → Bool, (∀ q ∈ s.chunks, p q = false → occ q.1 s.arts = 0) →
      dataOf k (s.chunks.filter p) = dataOf k s.chunks := by
    intro p hp
    unfold dataOf
    rw [find_filter p hw.nodup]
    cases hf : find k s.chunks with
    | none => rfl
    | some r =>
      simp only [Option.bind_some]
      by_cases hpk : p (k, r) = true
      · simp [hpk]
      · have := hp (k, r) (find_some_mem hf) (by simpa using hpk)
        simp only at this; omega
  have hgc : ∀ mc sel, dataOf k (gcSel mc sel s).1.chunks = dataOf k s.chunks := by
    intro mc sel
    apply hfilter
    intro q hq hdead
    have hd : gcDead mc sel q = true := by simpa using hdead
    simp only [gcDead, Bool.and_eq_true, decide_eq_true_eq] at hd
    have hf := mem_find hw.nodup (show (q.1, q.2) ∈ s.chunks from hq)
    have := hw.refs q.1
    unfold refsOf at this; rw [hf] at this
    simp only at this
    have h0 := hd.1.2
    omega
  cases op with
  | put t d =>
    simp only [applyOp]
    rcases put_cases h cfg t s d with ⟨e, _⟩ | e
    · rw [e]
    · rw [e]; exact hstream t [d]
  | stream t ps => exact hstream t ps
  | abandon t ps => simp only [applyOp]; rw [abandon_eq]; exact dataOf_storeAll_present h t _ hpres
  | delete id =>
    simp only [applyOp, delete]
    cases find id s.arts with
    | none => rfl
    | some a => exact dataOf_decAll _ _ _
  | gc mc batch => exact hgc mc _
  | gcAll now age => exact hgc _ _
  | fullGc =>
    apply hfilter
    intro q _ hq
    rw [contains_referenced] at hq
    simpa using hq
  | verify _ => rfl
  | get _ => rfl
  | repair =>
    simp only [applyOp, repair]
    have h1 := hfilter (fun q => decide (occ q.1 s.arts ≠ 0)) (by intro q _ hq; simpa using hq)
    have hmap : (s.chunks.filter (fun q => decide (occ q.1 s.arts ≠ 0))).map (fixRefs s.arts)
        = (s.chunks.filter (fun q => decide (occ q.1 s.arts ≠ 0))).map
            (fun p => (p.1, (fun q : K × CRec => { q.2 with refs := occ q.1 s.arts }) p)) := by
      apply List.map_congr_left; intro p _; exact fixRefs_eq _ _
    rw [hmap, ← h1]
    unfold dataOf
    rw [find_map_val]
    cases find k (s.chunks.filter (fun q => decide (occ q.1 s.arts ≠ 0))) <;> rfl

theorem run_keeps_artifact (hi : HashInj h) (cfg : Cfg) (ops : List Op) {s : State K} (hw : WF h s)
    {id : Nat} {a : Art K} (hf : find id s.arts = some a) (hnd : ∀ op ∈ ops, op ≠ .delete id) :
    find id (run h cfg s ops).arts = some a ∧ ∀ k ∈ a.chunks, dataOf k (run h cfg s ops).chunks = dataOf k s.chunks := by
  induction ops generalizing s with
  | nil => exact ⟨hf, fun _ _ => rfl⟩
  | cons op ops ih =>
    have hne := hnd op (by simp)
    have hw1 := (applyOp_step h hi cfg hw op).1
    have hf1 := applyOp_find_art h cfg hw hf op hne
    obtain ⟨h1, h2⟩ := ih hw1 hf1 (fun o ho => hnd o (by simp [ho]))
    simp only [run, List.foldl_cons] at h1 h2 ⊢
    refine ⟨h1, fun k hk => ?_⟩
    rw [h2 k hk]
    exact applyOp_dataOf h cfg hw op (occ_pos_of_mem (find_some_mem hf) hk)

/-! ### the reader -/

/-- bytes of the loaded chunk not handed out yet -/
def pendingChunk (r : Reader K) : List Nat :=
  match r.data with
  | none => []
  | some d => d.drop r.off

/-- what a reader has still to deliver from table `tbl`: the rest of the loaded chunk, then the chunks not fetched yet -/
def remaining (tbl : List (K × CRec)) (r : Reader K) : List Nat :=
  pendingChunk r ++ (match readChunks tbl (r.chunks.drop r.cur) with | .ok D => D | .error _ => [])

/-- `out` has been delivered, and what is left to deliver completes it to `d` -/
def ReaderOk (tbl : List (K × CRec)) (r : Reader K) (d out : List Nat) : Prop :=
  ∃ D, readChunks tbl (r.chunks.drop r.cur) = .ok D ∧ out ++ pendingChunk r ++ D = d

theorem ReaderOk_remaining {tbl : List (K × CRec)} {r : Reader K} {d out : List Nat} (hr : ReaderOk tbl r d out) :
    out ++ remaining tbl r = d := by
  obtain ⟨D, h1, h2⟩ := hr
  unfold remaining
  rw [h1]; simp only; rw [← List.append_assoc]; exact h2

theorem take_append_drop_length (n : Nat) (l : List Nat) : l.take n ++ l.drop (l.take n).length = l := by
  rw [List.length_take]
  by_cases hn : n ≤ l.length
  · rw [Nat.min_eq_left hn]; exact List.take_append_drop n l
  · have : l.length ≤ n := by omega
    rw [Nat.min_eq_right this, List.take_of_length_le this, List.drop_length, List.append_nil]

theorem drop_cur_cons {r : Reader K} {k : K} (hk : r.chunks[r.cur]? = some k) :
    r.chunks.drop r.cur = k :: r.chunks.drop (r.cur + 1) := by
  have hlt : r.cur < r.chunks.length := by
    rcases Nat.lt_or_ge r.cur r.chunks.length with hlt | hge
    · exact hlt
    · rw [List.getElem?_eq_none hge] at hk; cases hk
  rw [List.getElem?_eq_getElem hlt] at hk
  simp only [Option.some.injEq] at hk
  rw [← hk]
  exact List.drop_eq_getElem_cons hlt

theorem drop_cur_nil {r : Reader K} (hk : r.chunks[r.cur]? = none) : r.chunks.drop r.cur = [] := by
  rcases Nat.lt_or_ge r.cur r.chunks.length with hlt | hge
  · rw [List.getElem?_eq_getElem hlt] at hk; cases hk
  · exact List.drop_of_length_le hge

theorem rNext_none {tbl : List (K × CRec)} {r : Reader K} (hk : r.chunks[r.cur]? = none) :
    rNext tbl r = (.ok none, r) := by
  unfold rNext; rw [hk]

theorem rNext_some {tbl : List (K × CRec)} {r : Reader K} {k : K} {c : CRec} (hk : r.chunks[r.cur]? = some k)
    (hf : find k tbl = some c) :
    rNext tbl r = (.ok (some c.data), { r with cur := r.cur + 1, bytesRead := r.bytesRead + c.data.length }) := by
  unfold rNext; rw [hk]; simp only [hf]

theorem rNext_missing {tbl : List (K × CRec)} {r : Reader K} {k : K} (hk : r.chunks[r.cur]? = some k)
    (hf : find k tbl = none) : rNext tbl r = (.error .chunkMissing, r) := by
  unfold rNext; rw [hk]; simp only [hf]

theorem loaded_some {r : Reader K} {d0 : List Nat} (hl : r.loaded = some d0) :
    r.data = some d0 ∧ r.off < d0.length := by
  unfold Reader.loaded at hl
  cases hd : r.data with
  | none => simp [hd] at hl
  | some d =>
    simp only [hd] at hl
    by_cases hoff : r.off ≥ d.length
    · simp [hoff] at hl
    · simp only [hoff, if_false, Option.some.injEq] at hl
      subst hl; exact ⟨rfl, by omega⟩

theorem loaded_none {r : Reader K} (hl : r.loaded = none) : pendingChunk r = [] := by
  unfold Reader.loaded at hl
  unfold pendingChunk
  cases hd : r.data with
  | none => rfl
  | some d =>
    simp only [hd] at hl ⊢
    by_cases hoff : r.off ≥ d.length
    · exact List.drop_of_length_le hoff
    · simp [hoff] at hl

/-- the first listed key not fetched yet, its record, and the rest -/
theorem readChunks_drop_cur {tbl : List (K × CRec)} {r : Reader K} {D : List Nat}
    (h1 : readChunks tbl (r.chunks.drop r.cur) = .ok D) :
    (r.chunks[r.cur]? = none ∧ D = []) ∨
    ∃ k c rest, r.chunks[r.cur]? = some k ∧ find k tbl = some c ∧
      readChunks tbl (r.chunks.drop (r.cur + 1)) = .ok rest ∧ D = c.data ++ rest := by
  cases hk : r.chunks[r.cur]? with
  | none => left; rw [drop_cur_nil hk, readChunks] at h1; cases h1; exact ⟨rfl, rfl⟩
  | some k =>
    right
    rw [drop_cur_cons hk, readChunks] at h1
    cases hfk : find k tbl with
    | none => simp [hfk] at h1
    | some c =>
      simp only [hfk] at h1
      cases hrest : readChunks tbl (r.chunks.drop (r.cur + 1)) with
      | error e => simp [hrest] at h1
      | ok rest =>
        simp only [hrest, Except.ok.injEq] at h1
        exact ⟨k, c, rest, rfl, hfk, rfl, h1.symm⟩

/-- one `read(buf)`: never an error, and the invariant moves the returned bytes from "left" to "delivered" -/
theorem rRead_ok {tbl : List (K × CRec)} {r : Reader K} {d out : List Nat} (hr : ReaderOk tbl r d out) (n : Nat) :
    ∃ bs, (rRead tbl r n).1 = .ok bs ∧ (rRead tbl r n).2.chunks = r.chunks ∧
      ReaderOk tbl (rRead tbl r n).2 d (out ++ bs) := by
  obtain ⟨D, h1, h2⟩ := hr
  cases hl : r.loaded with
  | some d0 =>
    obtain ⟨hd, _⟩ := loaded_some hl
    have e : rRead tbl r n = (.ok ((d0.drop r.off).take n), { r with off := r.off + ((d0.drop r.off).take n).length }) := by
      unfold rRead; rw [hl]
    rw [e]
    refine ⟨(d0.drop r.off).take n, rfl, rfl, D, h1, ?_⟩
    simp only [pendingChunk, hd] at h2 ⊢
    rw [← h2, List.append_assoc out, ← List.drop_drop, take_append_drop_length]
  | none =>
    have hp := loaded_none hl
    rcases readChunks_drop_cur h1 with ⟨hk, hD⟩ | ⟨k, c, rest, hk, hfk, hrest, hD⟩
    · have e : rRead tbl r n = (.ok [], r) := by
        unfold rRead; rw [hl, rNext_none hk]
      rw [e]
      exact ⟨[], rfl, rfl, D, h1, by simpa using h2⟩
    · have e : rRead tbl r n = (.ok (c.data.take n),
          { r with cur := r.cur + 1, bytesRead := r.bytesRead + c.data.length, data := some c.data,
                   off := (c.data.take n).length }) := by
        unfold rRead; rw [hl, rNext_some hk hfk]
      rw [e]
      refine ⟨c.data.take n, rfl, rfl, rest, hrest, ?_⟩
      simp only [pendingChunk]
      rw [List.append_assoc out, take_append_drop_length, ← h2, hp, hD]
      simp

/-- with a non-empty buffer, `read` returns no bytes only when nothing is left -/
theorem rRead_eof {tbl : List (K × CRec)} (hn : NE tbl) {r : Reader K} {d out : List Nat}
    (hr : ReaderOk tbl r d out) {n : Nat} (hpos : 0 < n) (he : (rRead tbl r n).1 = .ok []) : out = d := by
  obtain ⟨D, h1, h2⟩ := hr
  cases hl : r.loaded with
  | some d0 =>
    obtain ⟨hd, hoff⟩ := loaded_some hl
    have e : rRead tbl r n = (.ok ((d0.drop r.off).take n), { r with off := r.off + ((d0.drop r.off).take n).length }) := by
      unfold rRead; rw [hl]
    rw [e] at he
    simp only [Except.ok.injEq] at he
    have hlen : ((d0.drop r.off).take n).length = 0 := by rw [he]; rfl
    rw [List.length_take, List.length_drop] at hlen
    omega
  | none =>
    have hp := loaded_none hl
    rcases readChunks_drop_cur h1 with ⟨hk, hD⟩ | ⟨k, c, rest, hk, hfk, hrest, hD⟩
    · rw [hp, hD] at h2; simpa using h2
    · have e : rRead tbl r n = (.ok (c.data.take n),
          { r with cur := r.cur + 1, bytesRead := r.bytesRead + c.data.length, data := some c.data,
                   off := (c.data.take n).length }) := by
        unfold rRead; rw [hl, rNext_some hk hfk]
      rw [e] at he
      simp only [Except.ok.injEq] at he
      have hc := hn (k, c) (find_some_mem hfk)
      have hlen : (c.data.take n).length = 0 := by rw [he]; rfl
      rw [List.length_take] at hlen
      have : 0 < c.data.length := List.length_pos_iff.mpr hc
      omega

theorem ReaderOk_congr {tbl tbl' : List (K × CRec)} {r : Reader K} {d out : List Nat}
    (hd : ∀ k ∈ r.chunks, dataOf k tbl' = dataOf k tbl) (hr : ReaderOk tbl r d out) : ReaderOk tbl' r d out := by
  obtain ⟨D, h1, h2⟩ := hr
  refine ⟨D, ?_, h2⟩
  rw [readChunks_congr (fun k hk => hd k (List.mem_of_mem_drop hk))]
  exact h1

/-- a read session: before each `read(buf)` call (buffer size `n`) an arbitrary batch of store operations
    runs; the result is the final store, the reader and all bytes delivered, or the first error -/
def session (cfg : Cfg) : State K → Reader K → List (List Op × Nat) → Except Err (State K × Reader K × List Nat)
  | s, r, [] => .ok (s, r, [])
  | s, r, ev :: evs =>
    match rRead (run h cfg s ev.1).chunks r ev.2 with
    | (.error e, _) => .error e
    | (.ok bs, r') =>
      match session cfg (run h cfg s ev.1) r' evs with
      | .error e => .error e
      | .ok x => .ok (x.1, x.2.1, bs ++ x.2.2)

theorem session_ok (hi : HashInj h) (cfg : Cfg) (evs : List (List Op × Nat)) {s : State K} (hw : WF h s)
    {id : Nat} {a : Art K} (hf : find id s.arts = some a) {r : Reader K} (hc : r.chunks = a.chunks)
    {d out : List Nat} (hr : ReaderOk s.chunks r d out)
    (hnd : ∀ ev ∈ evs, ∀ op ∈ ev.1, op ≠ .delete id) :
    ∃ s' r' bs, session h cfg s r evs = .ok (s', r', bs) ∧ WF h s' ∧ find id s'.arts = some a ∧
      r'.chunks = a.chunks ∧ ReaderOk s'.chunks r' d (out ++ bs) := by
  induction evs generalizing s r out with
  | nil => exact ⟨s, r, [], rfl, hw, hf, hc, by simpa using hr⟩
  | cons ev evs ih =>
    have hnd1 := hnd ev (by simp)
    have hw1 := (run_step h hi cfg ev.1 hw).1
    obtain ⟨hf1, hdata⟩ := run_keeps_artifact h hi cfg ev.1 hw hf hnd1
    have hr1 : ReaderOk (run h cfg s ev.1).chunks r d out :=
      ReaderOk_congr (fun k hk => hdata k (hc ▸ hk)) hr
    obtain ⟨bs, hb1, hb2, hb3⟩ := rRead_ok hr1 ev.2
    obtain ⟨s', r', bs', h1, h2, h3, h4, h5⟩ :=
      ih hw1 hf1 (hb2.trans hc) hb3 (fun e he => hnd e (by simp [he]))
    refine ⟨s', r', bs ++ bs', ?_, h2, h3, h4, by rw [← List.append_assoc]; exact h5⟩
    rw [session]
    cases hrr : rRead (run h cfg s ev.1).chunks r ev.2 with
    | mk res rd =>
      rw [hrr] at hb1 h1
      simp only at hb1 h1
      subst hb1
      simp only [h1]

theorem session_NE (cfg : Cfg) (evs : List (List Op × Nat)) {s : State K} (hn : NE s.chunks) {r : Reader K}
    {s' : State K} {r' : Reader K} {out : List Nat} (hs : session h cfg s r evs = .ok (s', r', out)) : NE s'.chunks := by
  induction evs generalizing s r out with
  | nil =>
    simp only [session, Except.ok.injEq, Prod.mk.injEq] at hs
    obtain ⟨rfl, _, _⟩ := hs
    exact hn
  | cons ev evs ih =>
    rw [session] at hs
    cases hrr : rRead (run h cfg s ev.1).chunks r ev.2 with
    | mk res rd =>
      rw [hrr] at hs
      cases res with
      | error e => simp at hs
      | ok bs =>
        simp only at hs
        cases hss : session h cfg (run h cfg s ev.1) rd evs with
        | error e => rw [hss] at hs; simp at hs
        | ok x =>
          rw [hss] at hs
          simp only [Except.ok.injEq, Prod.mk.injEq] at hs
          obtain ⟨e1, e2, _⟩ := hs
          obtain ⟨x1, x2, x3⟩ := x
          simp only at e1 e2
          subst e1 e2
          exact ih (NE_run h cfg ev.1 hn) hss

theorem rOpen_ok {s : State K} {id : Nat} {a : Art K} (hf : find id s.arts = some a) {d : List Nat}
    (hg : readChunks s.chunks a.chunks = .ok d) :
    ∃ r, rOpen s id = .ok r ∧ r.chunks = a.chunks ∧ ReaderOk s.chunks r d [] := by
  refine ⟨⟨a.chunks, 0, none, 0, a.size, 0, a.checksum⟩, by simp [rOpen, hf], rfl, d, by simpa using hg, ?_⟩
  simp [pendingChunk]

/-! ### `read_all` from a fresh reader is `get` -/

theorem rAllGo_eq (tbl : List (K × CRec)) (fuel : Nat) (r : Reader K) (hfuel : r.chunks.length - r.cur < fuel) :
    (rAllGo tbl fuel r).1 = readChunks tbl (r.chunks.drop r.cur) := by
  induction fuel generalizing r with
  | zero => omega
  | succ fuel ih =>
    rw [rAllGo]
    cases hk : r.chunks[r.cur]? with
    | none => rw [rNext_none hk, drop_cur_nil hk]; rfl
    | some k =>
      rw [drop_cur_cons hk, readChunks]
      have hlt : r.cur < r.chunks.length := by
        rcases Nat.lt_or_ge r.cur r.chunks.length with hlt | hge
        · exact hlt
        · rw [List.getElem?_eq_none hge] at hk; cases hk
      cases hfk : find k tbl with
      | none => rw [rNext_missing hk hfk]
      | some c =>
        rw [rNext_some hk hfk]
        simp only
        have := ih { r with cur := r.cur + 1, bytesRead := r.bytesRead + c.data.length } (by simp only; omega)
        simp only at this
        rw [← this]
        cases rAllGo tbl fuel { r with cur := r.cur + 1, bytesRead := r.bytesRead + c.data.length } with
        | mk res rd => cases res <;> rfl

theorem rAll_fresh_eq_get (s : State K) (id : Nat) :
    (match rOpen s id with | .error e => .error e | .ok r => (rAll s.chunks r).1) = get s id := by
  unfold rOpen get
  cases find id s.arts with
  | none => rfl
  | some a =>
    simp only
    unfold rAll
    rw [rAllGo_eq _ _ _ (by simp)]
    simp

/-- `BlobReader::verify` rewinds: wherever the reader stands, it re-reads the whole key list -/
theorem rVerify_eq (tbl : List (K × CRec)) (r : Reader K) :
    (rVerify h tbl r).1 =
      match readChunks tbl r.chunks with
      | .error e => .error e
      | .ok d => .ok (decide (h d = r.checksum)) := by
  have key : (rAll tbl { r with cur := 0, bytesRead := 0 }).1 = readChunks tbl r.chunks := by
    unfold rAll
    rw [rAllGo_eq tbl _ { r with cur := 0, bytesRead := 0 } (by simp)]
    simp
  unfold rVerify
  cases hgo : rAll tbl { r with cur := 0, bytesRead := 0 } with
  | mk res rd =>
    rw [hgo] at key
    simp only at key
    rw [← key]
    cases res <;> rfl

end
end Neumann.Blob
