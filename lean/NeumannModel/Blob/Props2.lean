import NeumannModel.Blob.Props
import NeumannModel.Blob.AgingLemmas
/-
  C19 — property theorems for a LONG-LIVED blob store under the wall clock (`Aging.lean`): one `BlobStore`, one
  `GarbageCollector` with a fixed `min_age`, every call of the history goes through them, seconds pass between
  the calls (`COp.tick`).  `runC h cfg minAge (CState.init now₀) ops` is the state after an arbitrary clocked
  history; `stampAll minAge now₀ ops` is the same history with the clock filled in.  As in `Props.lean`,
  `full_gc` / `repair` run only while no writer is open (`collectorsQuiet`, the known findings).
-/
namespace Neumann.Blob.Props
open Neumann.Blob

section
variable {K : Type} [DecidableEq K] (h : List Nat → K)

/-! ### incremental collection on a long-lived store -/

/-- After ANY clocked history on a long-lived store (any `min_age`, any number of seconds between any two calls,
    any number of earlier gc cycles — whatever they saw), a chunk's refcount covers its listings by finished
    artifacts plus one reference per occurrence in every open writer's list. -/
theorem long_lived_store_refs_cover_references (hi : HashInj h) (cfg : Cfg) (minAge now₀ : Nat) (ops : List COp)
    (hq : collectorsQuiet h cfg WState.init (stampAll minAge now₀ ops) = true) (k : K) :
    occ k (runC h cfg minAge (CState.init now₀) ops).x.st.arts + holds k (runC h cfg minAge (CState.init now₀) ops).x.writers
      ≤ refsOf k (runC h cfg minAge (CState.init now₀) ops).x.st.chunks := by
  rw [(runC_init h cfg minAge now₀ ops).1]
  exact (WFW_reach h hi cfg _ hq).refsW k

/-- A gc cycle decides on the records AS THEY ARE WHEN IT RUNS: after any clocked history (earlier cycles that
    found a record unreferenced and too young included), whenever a cycle (any threshold — any clock, any
    `min_age` — and any batch) removes a record, that record has `_refs = 0` at that moment, no finished
    artifact lists it and no open writer has written it.  In particular a chunk that was unreferenced during an
    earlier cycle and has been referenced again since is not removed, however old it has become. -/
theorem gc_cycle_removes_only_records_unreferenced_when_it_runs (hi : HashInj h) (cfg : Cfg) (minAge now₀ : Nat)
    (ops : List COp) (hq : collectorsQuiet h cfg WState.init (stampAll minAge now₀ ops) = true)
    (mc : Nat) (sel : K → Bool) (k : K)
    (hgone : find k (gcSel mc sel (runC h cfg minAge (CState.init now₀) ops).x.st).1.chunks = none)
    (hwas : (find k (runC h cfg minAge (CState.init now₀) ops).x.st.chunks).isSome) :
    refsOf k (runC h cfg minAge (CState.init now₀) ops).x.st.chunks = 0 ∧
    occ k (runC h cfg minAge (CState.init now₀) ops).x.st.arts = 0 ∧
    holds k (runC h cfg minAge (CState.init now₀) ops).x.writers = 0 := by
  have hx := WFW_reach h hi cfg _ hq
  rw [← (runC_init h cfg minAge now₀ ops).1] at hx
  generalize (runC h cfg minAge (CState.init now₀) ops).x = x at *
  have h0 : refsOf k x.st.chunks = 0 := by
    by_cases hp : 0 < refsOf k x.st.chunks
    · rw [find_gcSel_of_refs hx.base.nodup mc sel hp] at hgone
      rw [hgone] at hwas; simp at hwas
    · omega
  have := hx.refsW k
  omega

/-- On a long-lived store every artifact that a further clocked history (any ticks, any gc cycles, full
    collections, repairs, other writers) does not delete reads back exactly as before it. -/
theorem long_lived_store_keeps_every_artifact (hi : HashInj h) (cfg : Cfg) (minAge now₀ : Nat) (ops₁ ops₂ : List COp)
    (hq : collectorsQuiet h cfg WState.init (stampAll minAge now₀ (ops₁ ++ ops₂)) = true) (id : Nat)
    (hex : (find id (runC h cfg minAge (CState.init now₀) ops₁).x.st.arts).isSome)
    (hnd : ∀ op ∈ ops₂, op ≠ COp.delete id) :
    get (runC h cfg minAge (CState.init now₀) (ops₁ ++ ops₂)).x.st id
      = get (runC h cfg minAge (CState.init now₀) ops₁).x.st id := by
  rw [stampAll_append, collectorsQuiet_append] at hq
  obtain ⟨hq1, hq2⟩ := hq
  have hx := WFW_reach h hi cfg _ hq1
  have e1 := runC_init (K := K) h cfg minAge now₀ ops₁
  rw [runC_append, (runC_eq_runW h cfg minAge ops₂ _).1, e1.2]
  rw [← e1.1] at hx hq2
  exact (runW_step h hi cfg _ hx hq2).2 id hex (stampAll_no_delete hnd)

/-- `put` on a long-lived store at any moment of any clocked history — in particular content whose chunks lost
    their last reference earlier and were seen, too young, by a gc cycle — then any further clocked history that
    does not delete the new artifact (seconds passing, gc cycles at every later age): `get` returns exactly the
    bytes written. -/
theorem put_reads_back_on_long_lived_store (hi : HashInj h) (cfg : Cfg) (minAge now₀ : Nat) (ops₁ ops₂ : List COp)
    (d : List Nat) (id : Nat)
    (hq : collectorsQuiet h cfg WState.init (stampAll minAge now₀ ((ops₁ ++ [.put d]) ++ ops₂)) = true)
    (hput : (put h cfg (clockAfter now₀ ops₁) (runC h cfg minAge (CState.init now₀) ops₁).x.st d).2 = .ok id)
    (hnd : ∀ op ∈ ops₂, op ≠ COp.delete id) :
    get (runC h cfg minAge (CState.init now₀) ((ops₁ ++ [.put d]) ++ ops₂)).x.st id = .ok d := by
  have hq' := hq
  rw [stampAll_append, collectorsQuiet_append] at hq'
  have hq1 := hq'.1
  rw [stampAll_append, collectorsQuiet_append] at hq1
  have hx := WFW_reach h hi cfg _ hq1.1
  have e1 := runC_init (K := K) h cfg minAge now₀ ops₁
  -- the state right after the put
  have hstate : (runC h cfg minAge (CState.init now₀) (ops₁ ++ [.put d])).x.st
      = (put h cfg (clockAfter now₀ ops₁) (runC h cfg minAge (CState.init now₀) ops₁).x.st d).1 := by
    rw [runC_append]
    have hnow := e1.2
    simp only [runC] at hnow ⊢
    simp only [List.foldl_cons, List.foldl_nil, applyC, COp.stamp, applyW, applyOp]
    rw [hnow]
  rw [← e1.1] at hx
  generalize (runC h cfg minAge (CState.init now₀) ops₁).x = x₁ at *
  have hgetnew : get (put h cfg (clockAfter now₀ ops₁) x₁.st d).1 id = .ok d ∧
      (find id (put h cfg (clockAfter now₀ ops₁) x₁.st d).1.arts).isSome := by
    rcases put_cases h cfg (clockAfter now₀ ops₁) x₁.st d with ⟨_, e, he⟩ | e
    · rw [he] at hput; cases hput
    · rw [e] at hput ⊢
      simp only [Except.ok.injEq] at hput
      obtain ⟨_, _, hget⟩ := stream_step h hi hx.base cfg (clockAfter now₀ ops₁) [d]
      rw [hput] at hget
      have hg : get (stream h cfg (clockAfter now₀ ops₁) x₁.st [d]).1 id = .ok d := by rw [hget]; simp
      refine ⟨hg, ?_⟩
      unfold get at hg
      cases hf : find id (stream h cfg (clockAfter now₀ ops₁) x₁.st [d]).1.arts with
      | none => simp [hf] at hg
      | some a => rfl
  rw [long_lived_store_keeps_every_artifact h hi cfg minAge now₀ (ops₁ ++ [COp.put d]) ops₂ hq id
    (by rw [hstate]; exact hgetnew.2) hnd, hstate]
  exact hgetnew.1

/-! ### any collector, whatever it remembers between cycles -/

omit [DecidableEq K] in
/-- `gc_cycle` as it is (any threshold, any batch, any store) meets `CycleSpec`: it only removes records, and
    only records whose `_refs` is 0 in the store it runs on. -/
theorem gc_cycle_meets_cycle_spec (mc : Nat) (sel : K → Bool) (s : State K) : CycleSpec s (gcSel mc sel s).1 :=
  gcSel_cycleSpec mc sel s

/-- `CycleSpec` is all that safety needs, for ANY incremental collector — stateless like the current one, or one
    that carries candidates, cursors or statistics from cycle to cycle: in every state reachable by a sequential
    history with open writers, a cycle that only removes records whose `_refs` is 0 when it runs leaves every
    artifact reading the same, every open writer's list reading the same, and the refcounts covering all
    references.  (The harness evaluates `CycleSpec` on the real store's images around every `gc()`.) -/
theorem cycle_removing_only_currently_unreferenced_records_is_safe (hi : HashInj h) (cfg : Cfg) (ops : List WOp)
    (hq : collectorsQuiet h cfg WState.init ops = true) (s' : State K)
    (hs : CycleSpec (runW h cfg WState.init ops).st s') :
    (∀ id, get s' id = get (runW h cfg WState.init ops).st id) ∧
    (∀ k, occ k s'.arts + holds k (runW h cfg WState.init ops).writers ≤ refsOf k s'.chunks) ∧
    (∀ p ∈ (runW h cfg WState.init ops).writers,
      readChunks s'.chunks p.2.chunks = readChunks (runW h cfg WState.init ops).st.chunks p.2.chunks) := by
  have hx := WFW_reach h hi cfg ops hq
  obtain ⟨h1, h2, h3⟩ := cycleSpec_step h hx hs
  refine ⟨h2, h1.refsW, fun p hp => ?_⟩
  exact readChunks_congr (fun k hk => by unfold dataOf; rw [h3 k (hx.writer_refs_pos h hp hk)])

/-- The remembering variant with nothing remembered IS the current cycle (same store, same statistics): the two
    differ only on a collector that has lived through an earlier cycle — a collector built afresh for every
    `gc()` call cannot tell them apart. -/
theorem remembering_collector_with_empty_memory_is_gc_cycle (now minAge : Nat) (s : State K) :
    (gcRemembering now minAge [] s).2 = gc now minAge s := by
  simp only [gcRemembering, reclaimRemembered, gc, Nat.zero_add]

end

/-! ### witnesses and non-vacuity (keys = chunk bytes, `h = id`, as in the driver) -/

/-- The remembering variant (`gcRemembering`: zero-reference records that are too young are remembered as
    `(key, created, size)` and deleted by a later cycle of the same collector once the remembered age has passed
    `min_age`, without reading the record again) is NOT safe on the history of seeded change C19_3, `min_age` 0,
    chunk size 2: second 5: put [1,2,3] (a0), delete a0, gc (records [1,2] and [3] have no reference and are too
    young: kept, remembered), put [1,2,3] again (a1, deduplicated onto both records: `_refs` 1 again); a second
    passes; gc.  The variant's second cycle removes both records although their `_refs` is 1 when it runs — it
    does not meet `CycleSpec` — and a1 no longer reads back; `gc_cycle` as it is removes nothing and a1 reads
    back and verifies. -/
theorem remembered_young_orphans_collect_rereferenced_chunk_witness :
    let s1 := (delete (put hid cfg2 5 State.init [1, 2, 3]).1 0).1
    -- the variant: the same collector (its memory) lives through both cycles
    let v1 := gcRemembering 5 0 [] s1
    let v2 := (put hid cfg2 5 v1.2.1 [1, 2, 3]).1
    let v3 := gcRemembering 6 0 v1.1 v2
    -- the current code
    let c1 := gc 5 0 s1
    let c2 := (put hid cfg2 5 c1.1 [1, 2, 3]).1
    let c3 := gc 6 0 c2
    v1.2.2 = (0, 0) ∧ v1.1 = [([1, 2], 5, 2), ([3], 5, 1)] ∧ v1.2 = c1 ∧ v2 = c2 ∧
    refsOf [1, 2] v2.chunks = 1 ∧ occ [1, 2] v2.arts = 1 ∧
    v3.2.2 = (2, 3) ∧ find [1, 2] v3.2.1.chunks = none ∧ find [3] v3.2.1.chunks = none ∧
    get v3.2.1 1 = .error .chunkMissing ∧ verify hid v3.2.1 1 = .error .chunkMissing ∧
    ¬ CycleSpec v2 v3.2.1 ∧
    c3.2 = (0, 0) ∧ get c3.1 1 = .ok [1, 2, 3] ∧ verify hid c3.1 1 = .ok true := by
  refine ⟨by decide, by decide, by decide, by decide, by decide, by decide, by decide, by decide, by decide,
    by decide, by decide, fun hs => ?_, by decide, by decide, by decide⟩
  have := hs.find_of_refs (k := [1, 2]) (by decide) (by decide)
  revert this
  decide

/-- controls for `remembered_young_orphans_collect_rereferenced_chunk_witness`: (1) the same history WITHOUT the
    second put — the remembered records are still unreferenced when their age has passed: the variant and the
    current code remove the same two records and report the same statistics; (2) the same history with both
    cycles in the same second — nothing has aged: neither removes anything; (3) the history with the early cycle
    left out — the variant has nothing remembered and keeps the re-referenced records.  Only a cycle that saw the
    records unreferenced and too young, a new reference, and a later cycle of the SAME collector after the
    records have aged tell the two apart. -/
example :
    let s1 := (delete (put hid cfg2 5 State.init [1, 2, 3]).1 0).1
    let v1 := gcRemembering 5 0 [] s1
    (gcRemembering 6 0 v1.1 v1.2.1).2 = gc 6 0 (gc 5 0 s1).1 ∧ (gc 6 0 (gc 5 0 s1).1).2 = (2, 3) ∧
    (let v2 := (put hid cfg2 5 v1.2.1 [1, 2, 3]).1
     (gcRemembering 5 0 v1.1 v2).2 = gc 5 0 v2 ∧ (gc 5 0 v2).2 = (0, 0) ∧ get (gc 5 0 v2).1 1 = .ok [1, 2, 3]) ∧
    (let w2 := (put hid cfg2 5 s1 [1, 2, 3]).1
     (gcRemembering 6 0 [] w2).2 = gc 6 0 w2 ∧ get (gcRemembering 6 0 [] w2).2.1 1 = .ok [1, 2, 3]) := by decide

/-- the history of the witness as a clocked history: the clock starts at second 5, `min_age` 0 -/
abbrev opsAging : List COp := [.put [1, 2, 3], .delete 0, .gc, .put [1, 2, 3], .tick 1, .gc]

-- it is the `WOp` history with the clock filled in; the second cycle runs one second later
example : stampAll 0 5 opsAging =
    [.base (.put 5 [1, 2, 3]), .base (.delete 0), .base (.gcAll 5 0), .base (.put 5 [1, 2, 3]), .base (.gcAll 6 0)] := by
  decide
example : (runC hid cfg2 0 (CState.init 5) opsAging).now = 6 := by decide
example : collectorsQuiet hid cfg2 WState.init (stampAll 0 5 opsAging) = true := by decide
-- the first cycle really saw the two records unreferenced and too young, the second one sees them aged
example : let c := runC hid cfg2 0 (CState.init 5) [.put [1, 2, 3], .delete 0, .gc]
    refsOf [1, 2] c.x.st.chunks = 0 ∧ (find [1, 2] c.x.st.chunks).isSome = true ∧
    (find [3] c.x.st.chunks).isSome = true := by decide
example : let c := runC hid cfg2 0 (CState.init 5) [.put [1, 2, 3], .delete 0, .gc, .put [1, 2, 3], .tick 1]
    (find [1, 2] c.x.st.chunks).map (·.created) = some 5 ∧ c.now - 0 = 6 ∧ refsOf [1, 2] c.x.st.chunks = 1 := by decide
-- the theorems on it
example : get (runC hid cfg2 0 (CState.init 5) opsAging).x.st 1 = .ok [1, 2, 3] :=
  put_reads_back_on_long_lived_store hid hid_inj cfg2 0 5 [.put [1, 2, 3], .delete 0, .gc] [.tick 1, .gc] [1, 2, 3] 1
    (by decide) (by decide) (by decide)
example : occ [1, 2] (runC hid cfg2 0 (CState.init 5) opsAging).x.st.arts + holds [1, 2] (runC hid cfg2 0 (CState.init 5) opsAging).x.writers
    ≤ refsOf [1, 2] (runC hid cfg2 0 (CState.init 5) opsAging).x.st.chunks :=
  long_lived_store_refs_cover_references hid hid_inj cfg2 0 5 opsAging (by decide) [1, 2]
-- `gc_cycle_removes_only_records_unreferenced_when_it_runs` is not vacuous: without the second put the later
-- cycle does remove the aged records, and they are unreferenced then
example : let c := runC hid cfg2 0 (CState.init 5) [.put [1, 2, 3], .delete 0, .gc, .tick 1]
    find [1, 2] (gcSel (c.now - 0) (fun _ => true) c.x.st).1.chunks = none ∧ (find [1, 2] c.x.st.chunks).isSome = true := by
  decide
example : CycleSpec (runW hid cfg2 WState.init (stampAll 0 5 opsAging)).st
    (gcSel 100 (fun _ => true) (runW hid cfg2 WState.init (stampAll 0 5 opsAging)).st).1 :=
  gc_cycle_meets_cycle_spec _ _ _

end Neumann.Blob.Props
