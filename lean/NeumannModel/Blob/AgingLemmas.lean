import NeumannModel.Blob.WritersLemmas
import NeumannModel.Blob.Aging
/- C19 — a long-lived store under the wall clock (`Aging.lean`): a clocked history is a `WOp` history, and any
   collection cycle that meets `CycleSpec` keeps the invariant of histories with open writers. -/
namespace Neumann.Blob

section
variable {K : Type} [DecidableEq K] (h : List Nat → K)

/-! ### clocked histories are `WOp` histories -/

theorem runC_cons (cfg : Cfg) (minAge : Nat) (c : CState K) (op : COp) (ops : List COp) :
    runC h cfg minAge c (op :: ops) = runC h cfg minAge (applyC h cfg minAge c op) ops := rfl

theorem runC_append (cfg : Cfg) (minAge : Nat) (c : CState K) (ops₁ ops₂ : List COp) :
    runC h cfg minAge c (ops₁ ++ ops₂) = runC h cfg minAge (runC h cfg minAge c ops₁) ops₂ := by
  simp [runC, List.foldl_append]

/-- the store after a clocked history is the store after the `WOp` history with the clock filled in, and the
    clock has advanced by the seconds of its ticks -/
theorem runC_eq_runW (cfg : Cfg) (minAge : Nat) (ops : List COp) (c : CState K) :
    (runC h cfg minAge c ops).x = runW h cfg c.x (stampAll minAge c.now ops) ∧
    (runC h cfg minAge c ops).now = clockAfter c.now ops := by
  induction ops generalizing c with
  | nil => exact ⟨rfl, rfl⟩
  | cons op ops ih =>
    rw [runC_cons]
    unfold applyC
    cases hs : op.stamp minAge c.now with
    | some w =>
      have hsec : op.secs = 0 := by cases op <;> simp_all [COp.stamp, COp.secs]
      obtain ⟨h1, h2⟩ := ih { c with x := applyW h cfg c.x w }
      refine ⟨?_, ?_⟩
      · rw [h1]; simp only [stampAll, hs]; rfl
      · rw [h2]; simp [clockAfter, List.foldl_cons, hsec]
    | none =>
      obtain ⟨h1, h2⟩ := ih { c with now := c.now + op.secs }
      refine ⟨?_, ?_⟩
      · rw [h1]; simp only [stampAll, hs]
      · rw [h2]; simp [clockAfter, List.foldl_cons]

theorem runC_init (cfg : Cfg) (minAge now₀ : Nat) (ops : List COp) :
    (runC h cfg minAge (CState.init now₀ : CState K) ops).x = runW h cfg WState.init (stampAll minAge now₀ ops) ∧
    (runC h cfg minAge (CState.init now₀ : CState K) ops).now = clockAfter now₀ ops :=
  runC_eq_runW h cfg minAge ops (CState.init now₀)

theorem stampAll_append (minAge now : Nat) (ops₁ ops₂ : List COp) :
    stampAll minAge now (ops₁ ++ ops₂) = stampAll minAge now ops₁ ++ stampAll minAge (clockAfter now ops₁) ops₂ := by
  induction ops₁ generalizing now with
  | nil => rfl
  | cons op ops ih =>
    simp only [List.cons_append, stampAll]
    cases hs : op.stamp minAge now with
    | some w =>
      have hsec : op.secs = 0 := by cases op <;> simp_all [COp.stamp, COp.secs]
      simp only [List.cons_append, ih, clockAfter, List.foldl_cons, hsec, Nat.add_zero]
    | none => simp only [ih, clockAfter, List.foldl_cons]

/-! ### a cycle that removes only records unreferenced when it runs -/

/-- a filter that drops only records whose refcount is 0 leaves every record with a reference where it is -/
theorem find_filter_of_refs {tbl : List (K × CRec)} (hn : (keys tbl).Nodup) (keep : K × CRec → Bool)
    (hk : ∀ q ∈ tbl, keep q = false → q.2.refs = 0) {k : K} (hp : 0 < refsOf k tbl) :
    find k (tbl.filter keep) = find k tbl := by
  rw [find_filter keep hn]
  unfold refsOf at hp
  cases hf : find k tbl with
  | none => rfl
  | some r =>
    rw [hf] at hp
    simp only at hp
    simp only [Option.bind_some]
    by_cases hkp : keep (k, r) = true
    · simp [hkp]
    · have := hk (k, r) (find_some_mem hf) (by simpa using hkp)
      simp only at this; omega

theorem refsOf_filter_of_refs {tbl : List (K × CRec)} (hn : (keys tbl).Nodup) (keep : K × CRec → Bool)
    (hk : ∀ q ∈ tbl, keep q = false → q.2.refs = 0) (k : K) :
    refsOf k (tbl.filter keep) = refsOf k tbl := by
  by_cases hp : 0 < refsOf k tbl
  · unfold refsOf; rw [find_filter_of_refs hn keep hk hp]
  · have h0 : refsOf k tbl = 0 := by omega
    rw [h0]
    unfold refsOf at h0 ⊢
    rw [find_filter keep hn]
    cases hf : find k tbl with
    | none => rfl
    | some r =>
      rw [hf] at h0
      simp only at h0
      simp only [Option.bind_some]
      by_cases hd : keep (k, r) = true
      · simp [hd, h0]
      · simp [hd]

/-- ANY cycle that meets `CycleSpec` (whatever state the collector keeps between cycles) preserves the invariant
    of histories with open writers, every artifact reads the same and every open writer's list reads the same -/
theorem cycleSpec_step {x : WState K} (hw : WFW h x) {s' : State K} (hs : CycleSpec x.st s') :
    WFW h ⟨s', x.writers⟩ ∧ (∀ id, get s' id = get x.st id) ∧
    (∀ k, 0 < refsOf k x.st.chunks → find k s'.chunks = find k x.st.chunks) := by
  obtain ⟨ha, hnx, keep, hc, hk⟩ := hs
  have hs' : s' = { x.st with chunks := x.st.chunks.filter keep } := by
    cases s'; cases hx : x.st; simp_all
  have hfind : ∀ k, 0 < refsOf k x.st.chunks → find k (x.st.chunks.filter keep) = find k x.st.chunks :=
    fun k hp => find_filter_of_refs hw.base.nodup keep hk hp
  have hbase := filter_change h hw.base keep (by
    intro q hq hf
    have hr := hk q hq hf
    have hfq := mem_find hw.base.nodup (show (q.1, q.2) ∈ x.st.chunks from hq)
    have := hw.base.refs q.1
    unfold refsOf at this; rw [hfq] at this
    simp only at this
    omega)
  subst hs'
  refine ⟨⟨hbase.1, fun k => ?_, fun p hp => ?_⟩, get_table_change hbase.2, hfind⟩
  · simp only
    rw [refsOf_filter_of_refs hw.base.nodup keep hk k]
    exact hw.refsW k
  · obtain ⟨d, h1, h2, h3⟩ := hw.wr p hp
    refine ⟨d, ?_, h2, h3⟩
    have hc : readChunks (x.st.chunks.filter keep) p.2.chunks = readChunks x.st.chunks p.2.chunks :=
      readChunks_congr (fun k hk' => by unfold dataOf; rw [hfind k (hw.writer_refs_pos h hp hk')])
    simp only
    rw [hc]
    exact h1

omit [DecidableEq K] in
/-- `gc_cycle` as it is (any threshold, any batch) meets the specification -/
theorem gcSel_cycleSpec (mc : Nat) (sel : K → Bool) (s : State K) : CycleSpec s (gcSel mc sel s).1 := by
  refine ⟨rfl, rfl, fun q => !gcDead mc sel q, rfl, fun q _ hq => ?_⟩
  have hd : gcDead mc sel q = true := by simpa using hq
  simp only [gcDead, Bool.and_eq_true, decide_eq_true_eq] at hd
  exact hd.1.2

/-- under `CycleSpec` a record with a reference is where it was -/
theorem CycleSpec.find_of_refs {s s' : State K} (hs : CycleSpec s s') (hn : (keys s.chunks).Nodup) {k : K}
    (hp : 0 < refsOf k s.chunks) : find k s'.chunks = find k s.chunks := by
  obtain ⟨_, _, keep, hc, hk⟩ := hs
  rw [hc]
  exact find_filter_of_refs hn keep hk hp

/-! ### deletes in a stamped history -/

theorem stamp_delete {minAge now : Nat} {op : COp} {id : Nat}
    (hs : op.stamp minAge now = some (.base (.delete id))) : op = .delete id := by
  cases op <;> simp_all [COp.stamp]

theorem mem_stampAll {minAge : Nat} {ops : List COp} {now : Nat} {w : WOp} (hm : w ∈ stampAll minAge now ops) :
    ∃ op ∈ ops, ∃ t, op.stamp minAge t = some w := by
  induction ops generalizing now with
  | nil => simp [stampAll] at hm
  | cons op ops ih =>
    simp only [stampAll] at hm
    cases hs : op.stamp minAge now with
    | some w' =>
      rw [hs] at hm
      simp only [List.mem_cons] at hm
      rcases hm with e | hm
      · exact ⟨op, by simp, now, by rw [hs, e]⟩
      · obtain ⟨o, ho, t, ht⟩ := ih hm
        exact ⟨o, by simp [ho], t, ht⟩
    | none =>
      rw [hs] at hm
      obtain ⟨o, ho, t, ht⟩ := ih hm
      exact ⟨o, by simp [ho], t, ht⟩

/-- a clocked history without `delete id` is a `WOp` history without it -/
theorem stampAll_no_delete {minAge now : Nat} {ops : List COp} {id : Nat} (hnd : ∀ op ∈ ops, op ≠ COp.delete id) :
    ∀ w ∈ stampAll minAge now ops, w ≠ WOp.base (.delete id) := by
  intro w hm e
  obtain ⟨op, ho, t, ht⟩ := mem_stampAll hm
  rw [e] at ht
  exact hnd op ho (stamp_delete ht)

/-! ### the remembering variant with nothing remembered -/

omit [DecidableEq K] in
theorem gcSel_self_chunks (mc : Nat) (sel : K → Bool) (s : State K) :
    gcSel mc sel { s with chunks := s.chunks } = gcSel mc sel s := rfl

end

end Neumann.Blob
