import NeumannModel.Blob.Conc
/- Helper lemmas for the blob-store properties (C19). Core Lean only. -/
namespace Neumann.Blob

/-! ### association lists -/
section assoc
variable {α β : Type} [DecidableEq α]

def keys (l : List (α × β)) : List α := l.map (·.1)

@[simp] theorem keys_nil : keys ([] : List (α × β)) = [] := rfl
@[simp] theorem keys_cons (p : α × β) (l : List (α × β)) : keys (p :: l) = p.1 :: keys l := rfl
@[simp] theorem find_nil (k : α) : find k ([] : List (α × β)) = none := rfl
theorem find_cons (k : α) (p : α × β) (l : List (α × β)) :
    find k (p :: l) = if p.1 = k then some p.2 else find k l := rfl

theorem find_none_iff (k : α) (l : List (α × β)) : find k l = none ↔ k ∉ keys l := by
  induction l with
  | nil => simp
  | cons p l ih =>
    rw [find_cons]
    by_cases hp : p.1 = k
    · simp [hp]
    · simp only [hp, if_false, ih, keys_cons, List.mem_cons, not_or]
      exact ⟨fun h => ⟨fun e => hp e.symm, h⟩, fun h => h.2⟩

theorem find_some_mem {k : α} {v : β} {l : List (α × β)} (h : find k l = some v) : (k, v) ∈ l := by
  induction l with
  | nil => simp at h
  | cons p l ih =>
    rw [find_cons] at h
    by_cases hp : p.1 = k
    · simp only [hp, if_true, Option.some.injEq] at h
      have : p = (k, v) := by cases p; simp_all
      simp [this]
    · simp only [hp, if_false] at h
      exact List.mem_cons_of_mem _ (ih h)

theorem find_isSome_iff (k : α) (l : List (α × β)) : (find k l).isSome ↔ k ∈ keys l := by
  have := find_none_iff k l
  cases hf : find k l with
  | none => simp [hf] at this; simp [this]
  | some v =>
    simp only [Option.isSome_some, true_iff]
    have := find_some_mem hf
    exact List.mem_map.mpr ⟨(k, v), this, rfl⟩

theorem mem_find {k : α} {v : β} {l : List (α × β)} (hn : (keys l).Nodup) (h : (k, v) ∈ l) :
    find k l = some v := by
  induction l with
  | nil => simp at h
  | cons p l ih =>
    rw [find_cons]
    simp only [keys_cons, List.nodup_cons] at hn
    rcases List.mem_cons.mp h with h | h
    · subst h; simp
    · have hk : k ∈ keys l := List.mem_map.mpr ⟨(k, v), h, rfl⟩
      have hp : ¬ p.1 = k := fun e => hn.1 (e ▸ hk)
      simp only [hp, if_false]
      exact ih hn.2 h

theorem find_append (k : α) (l l' : List (α × β)) :
    find k (l ++ l') = match find k l with | some v => some v | none => find k l' := by
  induction l with
  | nil => simp
  | cons p l ih =>
    rw [List.cons_append, find_cons, find_cons]
    by_cases hp : p.1 = k <;> simp [hp, ih]

theorem keys_modify (k : α) (f : β → β) (l : List (α × β)) : keys (modify k f l) = keys l := by
  induction l with
  | nil => rfl
  | cons p l ih =>
    simp only [modify, List.map_cons, keys_cons] at *
    rw [ih]; by_cases hp : p.1 = k <;> simp [hp]

theorem find_modify (k k' : α) (f : β → β) (l : List (α × β)) :
    find k' (modify k f l) = if k' = k then (find k' l).map f else find k' l := by
  induction l with
  | nil => simp [modify]
  | cons p l ih =>
    simp only [modify, List.map_cons] at *
    rw [find_cons, find_cons, ih]
    by_cases hp : p.1 = k
    · by_cases hk : k' = k
      · subst hk; simp [hp]
      · have : ¬ p.1 = k' := fun e => hk (e ▸ hp)
        have hk' : ¬ k = k' := fun e => hk e.symm
        simp [hp, hk, hk']
    · by_cases hk : k' = k
      · subst hk; simp [hp]
      · by_cases h2 : p.1 = k' <;> simp [hp, hk, h2]

theorem find_erase (k k' : α) (l : List (α × β)) :
    find k' (erase k l) = if k' = k then none else find k' l := by
  induction l with
  | nil => simp [erase]
  | cons p l ih =>
    simp only [erase] at *
    by_cases hp : p.1 = k
    · have : decide (p.1 ≠ k) = false := by simp [hp]
      rw [List.filter_cons_of_neg (by simp [hp]), ih, find_cons]
      by_cases hk : k' = k
      · simp [hk]
      · have : ¬ p.1 = k' := fun e => hk (e ▸ hp)
        simp [hk, this]
    · rw [List.filter_cons_of_pos (by simp [hp]), find_cons, find_cons, ih]
      by_cases hk : k' = k
      · subst hk; simp [hp]
      · simp [hk]

theorem keys_filter_sublist (p : α × β → Bool) (l : List (α × β)) :
    (keys (l.filter p)).Sublist (keys l) := (List.filter_sublist).map _

theorem keys_filter_nodup (p : α × β → Bool) {l : List (α × β)} (hn : (keys l).Nodup) :
    (keys (l.filter p)).Nodup := hn.sublist (keys_filter_sublist p l)

theorem find_filter (p : α × β → Bool) {l : List (α × β)} (hn : (keys l).Nodup) (k : α) :
    find k (l.filter p) = (find k l).bind (fun v => if p (k, v) then some v else none) := by
  induction l with
  | nil => simp
  | cons q l ih =>
    simp only [keys_cons, List.nodup_cons] at hn
    rw [find_cons]
    by_cases hq : q.1 = k
    · have hqq : q = (k, q.2) := by cases q; simp_all
      simp only [hq, if_true, Option.bind_some]
      by_cases hp : p q = true
      · rw [List.filter_cons_of_pos hp, find_cons]
        rw [hqq] at hp
        simp [hq, hp]
      · rw [List.filter_cons_of_neg hp]
        have hk : k ∉ keys (l.filter p) := fun hm => hn.1 (hq ▸ (keys_filter_sublist p l).subset hm)
        rw [(find_none_iff _ _).mpr hk]
        rw [hqq] at hp
        simp [hp]
    · simp only [hq, if_false]
      by_cases hp : p q = true
      · rw [List.filter_cons_of_pos hp, find_cons]; simp [hq, ih hn.2]
      · rw [List.filter_cons_of_neg hp]; exact ih hn.2

theorem keys_map_val (g : α × β → β) (l : List (α × β)) :
    keys (l.map (fun p => (p.1, g p))) = keys l := by
  induction l with
  | nil => rfl
  | cons p l ih => simp only [List.map_cons, keys_cons, ih]

theorem find_map_val (g : α × β → β) (k : α) (l : List (α × β)) :
    find k (l.map (fun p => (p.1, g p))) = (find k l).map (fun v => g (k, v)) := by
  induction l with
  | nil => rfl
  | cons p l ih =>
    rw [List.map_cons, find_cons, find_cons, ih]
    by_cases hp : p.1 = k
    · have : p = (k, p.2) := by cases p; simp_all
      simp only [hp, if_true, Option.map_some]; rw [← this]
    · simp [hp]

end assoc

/-! ### chunker -/

theorem chunksGo_flatten (c : Nat) (hc : 0 < c) (fuel : Nat) (d : List Nat) (hf : d.length ≤ fuel) :
    (chunksGo c fuel d).flatten = d := by
  induction fuel generalizing d with
  | zero =>
    have : d = [] := List.length_eq_zero_iff.mp (by omega)
    simp [chunksGo, this]
  | succ fuel ih =>
    rw [chunksGo]
    by_cases hd : d = []
    · simp [hd]
    · have hpos : 0 < d.length := List.length_pos_iff.mpr hd
      have hc0 : ¬ c = 0 := by omega
      simp only [hc0, hd, or_self, if_false, List.flatten_cons]
      rw [ih _ (by simp only [List.length_drop]; omega), List.take_append_drop]

theorem chunks_flatten (c : Nat) (hc : 0 < c) (d : List Nat) : (chunks c d).flatten = d :=
  chunksGo_flatten c hc _ d (Nat.le_refl _)

/-! ### chunk table views -/
section tbl
variable {K : Type} [DecidableEq K] (h : List Nat → K)

/-- the content hash is collision-free (on the values that occur) -/
def HashInj : Prop := ∀ a b, h a = h b → a = b

def refsOf (k : K) (tbl : List (K × CRec)) : Nat :=
  match find k tbl with | some r => r.refs | none => 0

def dataOf (k : K) (tbl : List (K × CRec)) : Option (List Nat) := (find k tbl).map (·.data)

/-- every record is stored under the hash of its data -/
def Addressed (tbl : List (K × CRec)) : Prop := ∀ p ∈ tbl, h p.2.data = p.1

theorem dataOf_isSome (k : K) (tbl : List (K × CRec)) : (dataOf k tbl).isSome = (find k tbl).isSome := by
  simp [dataOf]

theorem refsOf_pos_isSome {k : K} {tbl : List (K × CRec)} (hp : 0 < refsOf k tbl) : (find k tbl).isSome := by
  unfold refsOf at hp
  cases hf : find k tbl with
  | none => simp [hf] at hp
  | some r => rfl

/-! #### reader -/

theorem readChunks_cons (tbl : List (K × CRec)) (k : K) (ks : List K) :
    readChunks tbl (k :: ks) =
      match dataOf k tbl with
      | none => .error .chunkMissing
      | some d => match readChunks tbl ks with
        | .error e => .error e
        | .ok rest => .ok (d ++ rest) := by
  rw [readChunks, dataOf]
  cases find k tbl <;> rfl

theorem readChunks_congr {tbl tbl' : List (K × CRec)} {ks : List K}
    (hd : ∀ k ∈ ks, dataOf k tbl' = dataOf k tbl) : readChunks tbl' ks = readChunks tbl ks := by
  induction ks with
  | nil => rfl
  | cons k ks ih =>
    rw [readChunks_cons, readChunks_cons, hd k (by simp), ih (fun k hk => hd k (by simp [hk]))]

theorem readChunks_ok_present {tbl : List (K × CRec)} {ks : List K} {d : List Nat}
    (hr : readChunks tbl ks = .ok d) : ∀ k ∈ ks, (find k tbl).isSome := by
  induction ks generalizing d with
  | nil => simp
  | cons k ks ih =>
    rw [readChunks] at hr
    cases hf : find k tbl with
    | none => simp [hf] at hr
    | some r =>
      simp only [hf] at hr
      cases hr2 : readChunks tbl ks with
      | error e => simp [hr2] at hr
      | ok rest =>
        intro k' hk'
        rcases List.mem_cons.mp hk' with e | e
        · subst e; simp [hf]
        · exact ih hr2 k' e

/-! #### `store_chunk` -/

theorem storeChunk_keys_nodup (t : Nat) {tbl : List (K × CRec)} (d : List Nat) (hn : (keys tbl).Nodup) :
    (keys (storeChunk h t tbl d)).Nodup := by
  unfold storeChunk
  cases hf : find (h d) tbl with
  | some r => simp only [keys_modify]; exact hn
  | none =>
    have hk := (find_none_iff _ _).mp hf
    simp only [keys, List.map_append, List.map_cons, List.map_nil] at *
    exact List.nodup_append.mpr ⟨hn, by simp, by
      intro a ha b hb; simp at hb; subst hb; intro e; exact hk (e ▸ ha)⟩

theorem storeChunk_addressed (t : Nat) {tbl : List (K × CRec)} (d : List Nat) (ha : Addressed h tbl) :
    Addressed h (storeChunk h t tbl d) := by
  unfold storeChunk
  cases hf : find (h d) tbl with
  | some r =>
    intro p hp
    simp only [modify, List.mem_map] at hp
    obtain ⟨q, hq, rfl⟩ := hp
    have := ha q hq
    by_cases e : q.1 = h d <;> simp [e, this]
  | none =>
    intro p hp
    simp only [List.mem_append, List.mem_singleton] at hp
    rcases hp with hp | hp
    · exact ha p hp
    · subst hp; rfl

theorem find_storeChunk (t : Nat) (tbl : List (K × CRec)) (d : List Nat) (k : K) :
    find k (storeChunk h t tbl d) =
      match find k tbl with
      | some r => some (if k = h d then { r with refs := r.refs + 1 } else r)
      | none => if k = h d then some { data := d, size := d.length, refs := 1, created := t } else none := by
  unfold storeChunk
  cases hf : find (h d) tbl with
  | some r0 =>
    simp only [find_modify]
    by_cases hk : k = h d
    · subst hk; simp [hf]
    · simp only [hk, if_false]; cases find k tbl <;> rfl
  | none =>
    simp only [find_append]
    by_cases hk : k = h d
    · subst hk; simp [hf, find_cons]
    · cases hk2 : find k tbl with
      | some r => simp [hk]
      | none =>
        have : ¬ h d = k := fun e => hk e.symm
        simp [find_cons, this, hk]

theorem refsOf_storeChunk (t : Nat) (tbl : List (K × CRec)) (d : List Nat) (k : K) :
    refsOf k (storeChunk h t tbl d) = refsOf k tbl + (if h d = k then 1 else 0) := by
  unfold refsOf
  rw [find_storeChunk]
  by_cases hk : k = h d
  · subst hk; cases find (h d) tbl <;> simp
  · have : ¬ h d = k := fun e => hk e.symm
    cases find k tbl <;> simp [hk, this]

theorem isSome_storeChunk (t : Nat) (tbl : List (K × CRec)) (d : List Nat) (k : K) :
    (find k (storeChunk h t tbl d)).isSome = ((find k tbl).isSome || decide (k = h d)) := by
  rw [find_storeChunk]
  by_cases hk : k = h d
  · subst hk; cases find (h d) tbl <;> simp
  · cases find k tbl <;> simp [hk]

theorem dataOf_storeChunk_present (t : Nat) {tbl : List (K × CRec)} (d : List Nat) {k : K}
    (hp : (find k tbl).isSome) : dataOf k (storeChunk h t tbl d) = dataOf k tbl := by
  unfold dataOf
  rw [find_storeChunk]
  cases hf : find k tbl with
  | none => simp [hf] at hp
  | some r => by_cases hk : k = h d <;> simp [hk]

theorem dataOf_storeChunk_self (hi : HashInj h) (t : Nat) {tbl : List (K × CRec)} (d : List Nat)
    (ha : Addressed h tbl) : dataOf (h d) (storeChunk h t tbl d) = some d := by
  unfold dataOf
  rw [find_storeChunk]
  cases hf : find (h d) tbl with
  | none => simp
  | some r =>
    have := ha _ (find_some_mem hf)
    simp only [if_true, Option.map_some]
    exact congrArg some (hi _ _ this)

/-! #### a whole list of chunks -/

theorem storeAll_keys_nodup (t : Nat) (cds : List (List Nat)) {tbl : List (K × CRec)} (hn : (keys tbl).Nodup) :
    (keys (cds.foldl (storeChunk h t) tbl)).Nodup := by
  induction cds generalizing tbl with
  | nil => exact hn
  | cons d cds ih => exact ih (storeChunk_keys_nodup h t d hn)

theorem storeAll_addressed (t : Nat) (cds : List (List Nat)) {tbl : List (K × CRec)} (ha : Addressed h tbl) :
    Addressed h (cds.foldl (storeChunk h t) tbl) := by
  induction cds generalizing tbl with
  | nil => exact ha
  | cons d cds ih => exact ih (storeChunk_addressed h t d ha)

theorem refsOf_storeAll (t : Nat) (cds : List (List Nat)) (tbl : List (K × CRec)) (k : K) :
    refsOf k (cds.foldl (storeChunk h t) tbl) = refsOf k tbl + (cds.map h).count k := by
  induction cds generalizing tbl with
  | nil => simp
  | cons d cds ih =>
    rw [List.foldl_cons, ih, refsOf_storeChunk, List.map_cons, List.count_cons]
    by_cases e : h d = k <;> simp [e] <;> omega

theorem isSome_storeAll_mono (t : Nat) (cds : List (List Nat)) {tbl : List (K × CRec)} {k : K}
    (hp : (find k tbl).isSome) : (find k (cds.foldl (storeChunk h t) tbl)).isSome := by
  induction cds generalizing tbl with
  | nil => exact hp
  | cons d cds ih => exact ih (by rw [isSome_storeChunk]; simp [hp])

theorem dataOf_storeAll_present (t : Nat) (cds : List (List Nat)) {tbl : List (K × CRec)} {k : K}
    (hp : (find k tbl).isSome) : dataOf k (cds.foldl (storeChunk h t) tbl) = dataOf k tbl := by
  induction cds generalizing tbl with
  | nil => rfl
  | cons d cds ih =>
    rw [List.foldl_cons, ih (by rw [isSome_storeChunk]; simp [hp]), dataOf_storeChunk_present h t d hp]

theorem isSome_storeAll_new (t : Nat) (cds : List (List Nat)) (tbl : List (K × CRec)) :
    ∀ d ∈ cds, (find (h d) (cds.foldl (storeChunk h t) tbl)).isSome := by
  induction cds generalizing tbl with
  | nil => simp
  | cons d0 cds ih =>
    intro d hd
    rcases List.mem_cons.mp hd with e | e
    · subst e; exact isSome_storeAll_mono h t cds (by rw [isSome_storeChunk]; simp)
    · exact ih _ d e

theorem readChunks_storeAll (hi : HashInj h) (t : Nat) (cds : List (List Nat)) {tbl : List (K × CRec)}
    (ha : Addressed h tbl) : readChunks (cds.foldl (storeChunk h t) tbl) (cds.map h) = .ok cds.flatten := by
  induction cds generalizing tbl with
  | nil => rfl
  | cons d cds ih =>
    rw [List.map_cons, readChunks_cons, List.foldl_cons]
    have h1 : dataOf (h d) (cds.foldl (storeChunk h t) (storeChunk h t tbl d)) = some d := by
      rw [dataOf_storeAll_present h t cds (by rw [isSome_storeChunk]; simp)]
      exact dataOf_storeChunk_self h hi t d ha
    rw [h1, ih (storeChunk_addressed h t d ha)]
    rfl

/-! #### `decrement_chunk_refs` -/

theorem keys_decRef (tbl : List (K × CRec)) (k : K) : keys (decRef tbl k) = keys tbl := keys_modify _ _ _

theorem find_decRef (tbl : List (K × CRec)) (k k' : K) :
    find k' (decRef tbl k) = if k' = k then (find k' tbl).map (fun r => { r with refs := r.refs - 1 }) else find k' tbl :=
  find_modify _ _ _ _

theorem refsOf_decRef (tbl : List (K × CRec)) (k k' : K) :
    refsOf k' (decRef tbl k) = if k' = k then refsOf k' tbl - 1 else refsOf k' tbl := by
  unfold refsOf; rw [find_decRef]
  by_cases e : k' = k
  · simp only [e, if_true]; cases find k tbl <;> simp
  · simp [e]

theorem dataOf_decRef (tbl : List (K × CRec)) (k k' : K) : dataOf k' (decRef tbl k) = dataOf k' tbl := by
  unfold dataOf; rw [find_decRef]
  by_cases e : k' = k
  · simp only [e, if_true]; cases find k tbl <;> simp
  · simp [e]

theorem addressed_decRef {tbl : List (K × CRec)} (k : K) (ha : Addressed h tbl) : Addressed h (decRef tbl k) := by
  intro p hp
  simp only [decRef, modify, List.mem_map] at hp
  obtain ⟨q, hq, rfl⟩ := hp
  have := ha q hq
  by_cases e : q.1 = k <;> simp [e, this]

theorem keys_decAll (ks : List K) (tbl : List (K × CRec)) : keys (ks.foldl decRef tbl) = keys tbl := by
  induction ks generalizing tbl with
  | nil => rfl
  | cons k ks ih => rw [List.foldl_cons, ih, keys_decRef]

theorem addressed_decAll (ks : List K) {tbl : List (K × CRec)} (ha : Addressed h tbl) :
    Addressed h (ks.foldl decRef tbl) := by
  induction ks generalizing tbl with
  | nil => exact ha
  | cons k ks ih => exact ih (addressed_decRef h k ha)

theorem dataOf_decAll (ks : List K) (tbl : List (K × CRec)) (k' : K) :
    dataOf k' (ks.foldl decRef tbl) = dataOf k' tbl := by
  induction ks generalizing tbl with
  | nil => rfl
  | cons k ks ih => rw [List.foldl_cons, ih, dataOf_decRef]

theorem refsOf_decAll (ks : List K) (tbl : List (K × CRec)) (k' : K) :
    refsOf k' (ks.foldl decRef tbl) = refsOf k' tbl - ks.count k' := by
  induction ks generalizing tbl with
  | nil => simp
  | cons k ks ih =>
    rw [List.foldl_cons, ih, refsOf_decRef, List.count_cons]
    by_cases e : k' = k
    · subst e; simp; omega
    · have : ¬ k = k' := fun x => e x.symm
      simp [e, this]

end tbl

/-! ### the writer's buffer logic -/

theorem splitGo_flatten (c fuel : Nat) (buf : List Nat) :
    (splitGo c fuel buf).1.flatten ++ (splitGo c fuel buf).2 = buf := by
  induction fuel generalizing buf with
  | zero => simp [splitGo]
  | succ fuel ih =>
    rw [splitGo]
    by_cases hc : c = 0 ∨ buf.length < c
    · simp [hc]
    · simp only [hc, if_false, List.flatten_cons, List.append_assoc]
      rw [ih, List.take_append_drop]

theorem splitFull_flatten (c : Nat) (buf : List Nat) :
    (splitFull c buf).1.flatten ++ (splitFull c buf).2 = buf := splitGo_flatten c _ buf

/-- chunk datas a writer with buffer `buf` stores while being fed `ps`, and what stays buffered -/
def emit (c : Nat) : List Nat → List (List Nat) → List (List Nat) × List Nat
  | buf, [] => ([], buf)
  | buf, p :: ps =>
    if p = [] then emit c buf ps
    else ((splitFull c (buf ++ p)).1 ++ (emit c (splitFull c (buf ++ p)).2 ps).1,
          (emit c (splitFull c (buf ++ p)).2 ps).2)

/-- all chunk datas of a finished writer fed `ps` (the last one is the flushed buffer) -/
def streamChunks (c : Nat) (ps : List (List Nat)) : List (List Nat) :=
  (emit c [] ps).1 ++ (if (emit c [] ps).2 = [] then [] else [(emit c [] ps).2])

theorem emit_flatten (c : Nat) (buf : List Nat) (ps : List (List Nat)) :
    (emit c buf ps).1.flatten ++ (emit c buf ps).2 = buf ++ ps.flatten := by
  induction ps generalizing buf with
  | nil => simp [emit]
  | cons p ps ih =>
    rw [emit]
    by_cases hp : p = []
    · simp [hp, ih]
    · simp only [hp, if_false, List.flatten_append, List.append_assoc, ih, List.flatten_cons]
      rw [← List.append_assoc, splitFull_flatten, List.append_assoc]

theorem streamChunks_flatten (c : Nat) (ps : List (List Nat)) : (streamChunks c ps).flatten = ps.flatten := by
  have := emit_flatten c [] ps
  unfold streamChunks
  by_cases he : (emit c [] ps).2 = []
  · simp only [he, if_true, List.append_nil] at *; simpa using this
  · simp only [he, if_false, List.flatten_append, List.flatten_cons, List.flatten_nil, List.append_nil]
    simpa using this

section writer
variable {K : Type} [DecidableEq K] (h : List Nat → K)

theorem writeAll_eq (c t : Nat) (s : State K) (w : Writer K) (ps : List (List Nat)) :
    writeAll h c t s w ps =
      ({ s with chunks := (emit c w.buffer ps).1.foldl (storeChunk h t) s.chunks },
       { chunks := w.chunks ++ (emit c w.buffer ps).1.map h, total := w.total + ps.flatten.length,
         hashed := w.hashed ++ ps.flatten, buffer := (emit c w.buffer ps).2 }) := by
  induction ps generalizing s w with
  | nil => simp [writeAll, emit]
  | cons p ps ih =>
    have hstep : writeAll h c t s w (p :: ps) = writeAll h c t (wWrite h c t s w p).1 (wWrite h c t s w p).2 ps := by
      simp [writeAll]
    rw [hstep, ih, emit]
    by_cases hp : p = []
    · simp [wWrite, hp]
    · simp only [wWrite, hp, if_false, List.foldl_append, List.map_append, List.append_assoc,
        List.flatten_cons, List.length_append, Nat.add_assoc]

theorem stream_eq (cfg : Cfg) (t : Nat) (s : State K) (ps : List (List Nat)) :
    stream h cfg t s ps =
      ({ chunks := (streamChunks cfg.chunkSize ps).foldl (storeChunk h t) s.chunks,
         arts := s.arts ++ [(s.next, { chunks := (streamChunks cfg.chunkSize ps).map h,
                                       size := ps.flatten.length, checksum := h ps.flatten })],
         next := s.next + 1 }, s.next) := by
  unfold stream
  rw [writeAll_eq]
  simp only [wFinish, Writer.new, streamChunks, List.nil_append, Nat.zero_add, List.foldl_append, List.map_append]
  by_cases he : (emit cfg.chunkSize [] ps).2 = [] <;> simp [he]

theorem abandon_eq (cfg : Cfg) (t : Nat) (s : State K) (ps : List (List Nat)) :
    streamAbandon h cfg t s ps =
      { s with chunks := (emit cfg.chunkSize [] ps).1.foldl (storeChunk h t) s.chunks } := by
  unfold streamAbandon
  rw [writeAll_eq]
  rfl

end writer

/-! ### occurrences -/
section occs
variable {K : Type} [DecidableEq K]

theorem occ_nil (k : K) : occ k ([] : List (Nat × Art K)) = 0 := rfl

theorem occ_cons (k : K) (p : Nat × Art K) (arts : List (Nat × Art K)) :
    occ k (p :: arts) = p.2.chunks.count k + occ k arts := by simp [occ]

theorem occ_append (k : K) (arts arts' : List (Nat × Art K)) : occ k (arts ++ arts') = occ k arts + occ k arts' := by
  simp [occ]

theorem occ_pos_of_mem {k : K} {arts : List (Nat × Art K)} {p : Nat × Art K} (hp : p ∈ arts) (hk : k ∈ p.2.chunks) :
    0 < occ k arts := by
  induction arts with
  | nil => simp at hp
  | cons q arts ih =>
    rw [occ_cons]
    rcases List.mem_cons.mp hp with e | e
    · subst e
      have := List.count_pos_iff.mpr hk
      omega
    · have := ih e; omega

theorem occ_erase_le {k : K} {arts : List (Nat × Art K)} {id : Nat} {a : Art K} (hf : find id arts = some a) :
    occ k (erase id arts) + a.chunks.count k ≤ occ k arts := by
  induction arts with
  | nil => simp at hf
  | cons q arts ih =>
    rw [find_cons] at hf
    by_cases hq : q.1 = id
    · simp only [hq, if_true, Option.some.injEq] at hf
      have hle : occ k (erase id arts) ≤ occ k arts := by
        clear ih hf
        induction arts with
        | nil => simp [erase]
        | cons r arts ih2 =>
          simp only [erase] at *
          by_cases hr : r.1 = id
          · rw [List.filter_cons_of_neg (by simp [hr]), occ_cons]; omega
          · rw [List.filter_cons_of_pos (by simp [hr]), occ_cons, occ_cons]; omega
      have : erase id (q :: arts) = erase id arts := by
        simp only [erase]; rw [List.filter_cons_of_neg (by simp [hq])]
      rw [this, occ_cons, hf]; omega
    · simp only [hq, if_false] at hf
      have : erase id (q :: arts) = q :: erase id arts := by
        simp only [erase]; rw [List.filter_cons_of_pos (by simp [hq])]
      rw [this, occ_cons, occ_cons]
      have := ih hf; omega

theorem occ_erase_eq {k : K} {arts : List (Nat × Art K)} {id : Nat} {a : Art K} (hn : (keys arts).Nodup)
    (hf : find id arts = some a) : occ k (erase id arts) + a.chunks.count k = occ k arts := by
  induction arts with
  | nil => simp at hf
  | cons q arts ih =>
    simp only [keys_cons, List.nodup_cons] at hn
    rw [find_cons] at hf
    by_cases hq : q.1 = id
    · simp only [hq, if_true, Option.some.injEq] at hf
      have hnot : id ∉ keys arts := hq ▸ hn.1
      have he : erase id arts = arts := by
        simp only [erase]
        apply List.filter_eq_self.mpr
        intro r hr
        have : r.1 ∈ keys arts := List.mem_map.mpr ⟨r, hr, rfl⟩
        have : r.1 ≠ id := fun e => hnot (e ▸ this)
        simp [this]
      have : erase id (q :: arts) = erase id arts := by
        simp only [erase]; rw [List.filter_cons_of_neg (by simp [hq])]
      rw [this, he, occ_cons, hf]; omega
    · simp only [hq, if_false] at hf
      have : erase id (q :: arts) = q :: erase id arts := by
        simp only [erase]; rw [List.filter_cons_of_pos (by simp [hq])]
      rw [this, occ_cons, occ_cons]
      have := ih hn.2 hf; omega

theorem contains_referenced (k : K) (arts : List (Nat × Art K)) :
    (referenced arts).contains k = decide (0 < occ k arts) := by
  induction arts with
  | nil => simp [referenced, occ]
  | cons q arts ih =>
    have : referenced (q :: arts) = q.2.chunks ++ referenced arts := by simp [referenced]
    rw [this, occ_cons]
    have h1 : 0 < q.2.chunks.count k ↔ k ∈ q.2.chunks := List.count_pos_iff
    by_cases hm : k ∈ q.2.chunks
    · have := h1.mpr hm
      simp [hm]; omega
    · have : q.2.chunks.count k = 0 := by
        have := (not_congr h1).mpr hm; omega
      rw [List.contains_eq_mem] at ih ⊢
      simp only [List.mem_append, hm, false_or, this, Nat.zero_add]
      exact ih

end occs

end Neumann.Blob
