import NeumannModel.Blob.Conc
/- Helper lemmas for the blob-store properties (C19). Core Lean only. -/
namespace Neumann.Blob

/-! ### chunker -/

theorem chunks_flatten (c : Nat) (hc : 0 < c) (d : List Nat) : (chunks c d).flatten = d := by
  fun_induction chunks c d with
  | case1 d h =>
    rcases h with h | h
    · omega
    · simp [h]
  | case2 d h ih =>
    simp only [List.flatten_cons, ih, List.take_append_drop]

end Neumann.Blob
