import NeumannModel.Blob.Invariant
import NeumannModel.Blob.Writers
/- C19 — the invariant of sequential histories with OPEN streaming writers (`Writers.lean`) and its
   preservation by every `applyW` step. -/
namespace Neumann.Blob

/-! ### the writer table -/
section wtable
variable {K : Type} [DecidableEq K]

theorem holds_nil (k : K) : holds k ([] : List (Nat × Writer K)) = 0 := rfl

theorem holds_cons (k : K) (p : Nat × Writer K) (ws : List (Nat × Writer K)) :
    holds k (p :: ws) = p.2.chunks.count k + holds k ws := by simp [holds]

theorem mem_of_mem_erase {α β : Type} [DecidableEq α] {k : α} {l : List (α × β)} {p : α × β}
    (hp : p ∈ erase k l) : p ∈ l := (List.mem_filter.mp hp).1

theorem erase_cons_eq {α β : Type} [DecidableEq α] (k : α) (p : α × β) (l : List (α × β)) :
    erase k (p :: l) = if p.1 = k then erase k l else p :: erase k l := by
  simp only [erase]
  by_cases hp : p.1 = k
  · rw [List.filter_cons_of_neg (by simp [hp])]; simp [hp]
  · rw [List.filter_cons_of_pos (by simp [hp])]; simp [hp]

theorem holds_erase_le (k : K) (w : Nat) (ws : List (Nat × Writer K)) : holds k (erase w ws) ≤ holds k ws := by
  induction ws with
  | nil => simp [erase]
  | cons p ws ih =>
    rw [erase_cons_eq]
    by_cases hp : p.1 = w
    · simp only [hp, if_true, holds_cons]; omega
    · simp only [hp, if_false, holds_cons]; omega

/-- the writer found under `w` accounts for its own occurrences (no uniqueness of handles needed) -/
theorem holds_erase_find {k : K} {w : Nat} {ws : List (Nat × Writer K)} {wr : Writer K}
    (hf : find w ws = some wr) : holds k (erase w ws) + wr.chunks.count k ≤ holds k ws := by
  induction ws with
  | nil => simp at hf
  | cons p ws ih =>
    rw [find_cons] at hf
    rw [erase_cons_eq]
    by_cases hp : p.1 = w
    · simp only [hp, if_true, Option.some.injEq] at hf
      have := holds_erase_le k w ws
      simp only [hp, if_true, holds_cons, hf]; omega
    · simp only [hp, if_false] at hf
      have := ih hf
      simp only [hp, if_false, holds_cons]; omega

theorem holds_pos_of_mem {k : K} {ws : List (Nat × Writer K)} {p : Nat × Writer K} (hp : p ∈ ws)
    (hk : k ∈ p.2.chunks) : 0 < holds k ws := by
  induction ws with
  | nil => simp at hp
  | cons q ws ih =>
    rw [holds_cons]
    rcases List.mem_cons.mp hp with e | e
    · subst e
      have := List.count_pos_iff.mpr hk
      omega
    · have := ih e; omega

theorem readChunks_append (tbl : List (K × CRec)) (ks ks' : List K) :
    readChunks tbl (ks ++ ks') =
      match readChunks tbl ks with
      | .error e => .error e
      | .ok d => match readChunks tbl ks' with
        | .error e => .error e
        | .ok d' => .ok (d ++ d') := by
  induction ks with
  | nil =>
    simp only [List.nil_append, readChunks]
    cases readChunks tbl ks' <;> simp
  | cons k ks ih =>
    rw [List.cons_append, readChunks_cons, readChunks_cons, ih]
    cases dataOf k tbl with
    | none => rfl
    | some d0 =>
      cases readChunks tbl ks with
      | error e => rfl
      | ok d =>
        cases readChunks tbl ks' with
        | error e => rfl
        | ok d' => simp

end wtable

section
variable {K : Type} [DecidableEq K] (h : List Nat → K)

/-! ### `gc_cycle` never touches a record with a reference -/

theorem find_gcSel_of_refs {s : State K} (hn : (keys s.chunks).Nodup) (mc : Nat) (sel : K → Bool) {k : K}
    (hp : 0 < refsOf k s.chunks) : find k (gcSel mc sel s).1.chunks = find k s.chunks := by
  simp only [gcSel]
  rw [find_filter _ hn]
  unfold refsOf at hp
  cases hf : find k s.chunks with
  | none => rfl
  | some r =>
    rw [hf] at hp
    simp only at hp
    have : gcDead mc sel (k, r) = false := by
      simp only [gcDead, Bool.and_eq_false_iff, decide_eq_false_iff_not]
      left; right; omega
    simp [this]

theorem refsOf_gcSel {s : State K} (hn : (keys s.chunks).Nodup) (mc : Nat) (sel : K → Bool) (k : K) :
    refsOf k (gcSel mc sel s).1.chunks = refsOf k s.chunks := by
  by_cases hp : 0 < refsOf k s.chunks
  · unfold refsOf; rw [find_gcSel_of_refs hn mc sel hp]
  · have h0 : refsOf k s.chunks = 0 := by omega
    rw [h0]
    simp only [gcSel]
    unfold refsOf at h0 ⊢
    rw [find_filter _ hn]
    cases hf : find k s.chunks with
    | none => rfl
    | some r =>
      rw [hf] at h0
      simp only at h0
      simp only [Option.bind_some]
      by_cases hd : (!gcDead mc sel (k, r)) = true
      · simp [hd, h0]
      · simp [hd]

/-! ### what a non-recounting operation does to the chunk table -/

/-- every operation except `full_gc` / `repair`: the slack `refs - occurrences` of no key shrinks, and a record
    with a reference keeps its data -/
theorem applyOp_table (cfg : Cfg) {s : State K} (hw : WF h s) (op : Op)
    (hq : (WOp.base op).isFullCollector = false) :
    (∀ k, refsOf k s.chunks + occ k (applyOp h cfg s op).arts ≤ refsOf k (applyOp h cfg s op).chunks + occ k s.arts) ∧
    (∀ k, 0 < refsOf k s.chunks → dataOf k (applyOp h cfg s op).chunks = dataOf k s.chunks) := by
  have hstream : ∀ t ps,
      (∀ k, refsOf k s.chunks + occ k (stream h cfg t s ps).1.arts ≤ refsOf k (stream h cfg t s ps).1.chunks + occ k s.arts) ∧
      (∀ k, 0 < refsOf k s.chunks → dataOf k (stream h cfg t s ps).1.chunks = dataOf k s.chunks) := by
    intro t ps
    rw [stream_eq]
    refine ⟨fun k => ?_, fun k hk => dataOf_storeAll_present h t _ (refsOf_pos_isSome hk)⟩
    simp only [occ_append, occ_cons, occ_nil, Nat.add_zero, refsOf_storeAll]
    omega
  have hgc : ∀ mc sel,
      (∀ k, refsOf k s.chunks + occ k (gcSel mc sel s).1.arts ≤ refsOf k (gcSel mc sel s).1.chunks + occ k s.arts) ∧
      (∀ k, 0 < refsOf k s.chunks → dataOf k (gcSel mc sel s).1.chunks = dataOf k s.chunks) := by
    intro mc sel
    refine ⟨fun k => ?_, fun k hk => ?_⟩
    · rw [refsOf_gcSel hw.nodup]; simp only [gcSel]; omega
    · unfold dataOf; rw [find_gcSel_of_refs hw.nodup mc sel hk]
  cases op with
  | put t d =>
    simp only [applyOp]
    rcases put_cases h cfg t s d with ⟨e, _⟩ | e
    · rw [e]; exact ⟨fun k => by omega, fun k _ => rfl⟩
    · rw [e]; exact hstream t [d]
  | stream t ps => exact hstream t ps
  | abandon t ps =>
    simp only [applyOp]
    rw [abandon_eq]
    refine ⟨fun k => ?_, fun k hk => dataOf_storeAll_present h t _ (refsOf_pos_isSome hk)⟩
    simp only [refsOf_storeAll]; omega
  | delete id =>
    simp only [applyOp, delete]
    cases hf : find id s.arts with
    | none => exact ⟨fun k => by simp only; omega, fun k _ => rfl⟩
    | some a =>
      refine ⟨fun k => ?_, fun k _ => dataOf_decAll a.chunks s.chunks k⟩
      simp only [refsOf_decAll]
      have h1 := @occ_erase_le _ _ k _ _ _ hf
      have h2 := hw.refs k
      omega
  | gc mc batch => exact hgc mc _
  | gcAll now age => exact hgc (now - age) _
  | fullGc => simp [WOp.isFullCollector] at hq
  | verify _ => exact ⟨fun k => by simp only [applyOp]; omega, fun k _ => rfl⟩
  | get _ => exact ⟨fun k => by simp only [applyOp]; omega, fun k _ => rfl⟩
  | repair => simp [WOp.isFullCollector] at hq

/-! ### the invariant -/

/-- what every state reachable by a sequential history with open writers satisfies (`full_gc` / `repair` only
    while no writer is open): the store invariant, refcounts cover artifact listings PLUS open writers' lists,
    and every open writer's list reads back as the bytes it has stored so far -/
structure WFW (x : WState K) : Prop where
  base : WF h x.st
  refsW : ∀ k, occ k x.st.arts + holds k x.writers ≤ refsOf k x.st.chunks
  wr : ∀ p ∈ x.writers, ∃ d, readChunks x.st.chunks p.2.chunks = .ok d ∧ d ++ p.2.buffer = p.2.hashed ∧
    p.2.total = p.2.hashed.length

theorem WFW_init : WFW h (WState.init : WState K) :=
  ⟨WF_init h, by intro k; simp [WState.init, State.init, occ, holds], by intro p hp; simp [WState.init] at hp⟩

/-- a key an open writer lists has a reference, hence a record -/
theorem WFW.writer_refs_pos {x : WState K} (hw : WFW h x) {p : Nat × Writer K} (hp : p ∈ x.writers) {k : K}
    (hk : k ∈ p.2.chunks) : 0 < refsOf k x.st.chunks := by
  have := hw.refsW k
  have := holds_pos_of_mem hp hk
  omega

/-! ### the steps -/

/-- `.base op` for an operation that does not recount from the metadata records -/
theorem base_step (hi : HashInj h) (cfg : Cfg) {x : WState K} (hw : WFW h x) (op : Op)
    (hq : (WOp.base op).isFullCollector = false) : WFW h { x with st := applyOp h cfg x.st op } := by
  obtain ⟨hr, hd⟩ := applyOp_table h cfg hw.base op hq
  refine ⟨(applyOp_step h hi cfg hw.base op).1, fun k => ?_, fun p hp => ?_⟩
  · have h1 := hr k
    have h2 := hw.refsW k
    simp only at h1 ⊢
    omega
  · obtain ⟨d, h1, h2, h3⟩ := hw.wr p hp
    refine ⟨d, ?_, h2, h3⟩
    simp only
    rw [readChunks_congr (fun k hk => hd k (hw.writer_refs_pos h hp hk))]
    exact h1

/-- `full_gc` / `repair` (any operation, in fact) while no writer is open -/
theorem base_step_quiet (hi : HashInj h) (cfg : Cfg) {x : WState K} (hw : WFW h x) (op : Op)
    (hq : x.writers = []) : WFW h { x with st := applyOp h cfg x.st op } := by
  have hb := (applyOp_step h hi cfg hw.base op).1
  refine ⟨hb, fun k => ?_, fun p hp => ?_⟩
  · simp only [hq, holds_nil, Nat.add_zero]; exact hb.refs k
  · simp only [hq] at hp; simp at hp

theorem wopen_step {x : WState K} (hw : WFW h x) (w : Nat) :
    WFW h { x with writers := (w, Writer.new) :: erase w x.writers } := by
  refine ⟨hw.base, fun k => ?_, fun p hp => ?_⟩
  · have h1 := hw.refsW k
    have h2 := holds_erase_le k w x.writers
    simp only [holds_cons, Writer.new, List.count_nil] at h1 ⊢
    omega
  · rcases List.mem_cons.mp hp with e | e
    · subst e; exact ⟨[], rfl, rfl, rfl⟩
    · exact hw.wr p (mem_of_mem_erase e)

theorem wdrop_step {x : WState K} (hw : WFW h x) (w : Nat) :
    WFW h { x with writers := erase w x.writers } := by
  refine ⟨hw.base, fun k => ?_, fun p hp => hw.wr p (mem_of_mem_erase hp)⟩
  have h1 := hw.refsW k
  have h2 := holds_erase_le k w x.writers
  simp only at h1 ⊢
  omega

/-- the shape of one `write` call: some full chunks are stored, the rest stays buffered -/
theorem wWrite_eq (c t : Nat) (s : State K) (w : Writer K) (piece : List Nat) :
    ∃ (cds : List (List Nat)) (buf : List Nat), cds.flatten ++ buf = w.buffer ++ piece ∧
      wWrite h c t s w piece =
        ({ s with chunks := cds.foldl (storeChunk h t) s.chunks },
         { chunks := w.chunks ++ cds.map h, total := w.total + piece.length,
           hashed := w.hashed ++ piece, buffer := buf }) := by
  by_cases hp : piece = []
  · refine ⟨[], w.buffer, by simp [hp], ?_⟩
    simp [wWrite, hp]
  · refine ⟨(splitFull c (w.buffer ++ piece)).1, (splitFull c (w.buffer ++ piece)).2, splitFull_flatten _ _, ?_⟩
    simp [wWrite, hp]

theorem wwrite_core (hi : HashInj h) {x : WState K} (hw : WFW h x) {w : Nat} {wr : Writer K}
    (hf : find w x.writers = some wr) (t : Nat) (cds : List (List Nat)) (buf piece : List Nat)
    (hfl : cds.flatten ++ buf = wr.buffer ++ piece) :
    WFW h ⟨{ x.st with chunks := cds.foldl (storeChunk h t) x.st.chunks },
           (w, { chunks := wr.chunks ++ cds.map h, total := wr.total + piece.length,
                 hashed := wr.hashed ++ piece, buffer := buf }) :: erase w x.writers⟩ ∧
    ∀ id, get { x.st with chunks := cds.foldl (storeChunk h t) x.st.chunks } id = get x.st id := by
  obtain ⟨hw1, hk1⟩ := storeAll_change h hw.base t cds
  have hkeep : ∀ p ∈ x.writers, readChunks (cds.foldl (storeChunk h t) x.st.chunks) p.2.chunks
      = readChunks x.st.chunks p.2.chunks := by
    intro p hp
    exact readChunks_congr (fun k hk =>
      dataOf_storeAll_present h t cds (refsOf_pos_isSome (hw.writer_refs_pos h hp hk)))
  refine ⟨⟨hw1, fun k => ?_, fun p hp => ?_⟩, get_table_change hk1⟩
  · have h1 := hw.refsW k
    have h2 := @holds_erase_find _ _ k _ _ _ hf
    simp only [holds_cons, List.count_append, refsOf_storeAll]
    omega
  · rcases List.mem_cons.mp hp with e | e
    · subst e
      obtain ⟨d, h1, h2, h3⟩ := hw.wr (w, wr) (find_some_mem hf)
      refine ⟨d ++ cds.flatten, ?_, ?_, ?_⟩
      · simp only
        rw [readChunks_append, hkeep (w, wr) (find_some_mem hf), h1, readChunks_storeAll h hi t cds hw.base.addr]
      · simp only at h2 ⊢
        rw [List.append_assoc, hfl, ← List.append_assoc, h2]
      · simp only at h3 ⊢
        rw [h3, List.length_append]
    · have hm := mem_of_mem_erase e
      obtain ⟨d, h1, h2, h3⟩ := hw.wr p hm
      exact ⟨d, by simp only; rw [hkeep p hm]; exact h1, h2, h3⟩

theorem wwrite_step (hi : HashInj h) (cfg : Cfg) {x : WState K} (hw : WFW h x) {w : Nat} {wr : Writer K}
    (hf : find w x.writers = some wr) (t : Nat) (piece : List Nat) :
    WFW h ⟨(wWrite h cfg.chunkSize t x.st wr piece).1,
           (w, (wWrite h cfg.chunkSize t x.st wr piece).2) :: erase w x.writers⟩ ∧
    (wWrite h cfg.chunkSize t x.st wr piece).1.arts = x.st.arts ∧
    ∀ id, get (wWrite h cfg.chunkSize t x.st wr piece).1 id = get x.st id := by
  obtain ⟨cds, buf, hfl, he⟩ := wWrite_eq h cfg.chunkSize t x.st wr piece
  rw [he]
  obtain ⟨h1, h2⟩ := wwrite_core h hi hw hf t cds buf piece hfl
  exact ⟨h1, rfl, h2⟩

/-- `finish` of an open writer: the invariant is kept, every artifact reads the same, and the new artifact
    (under the fresh id) reads back as everything the writer was handed -/
theorem wfinish_step (hi : HashInj h) {x : WState K} (hw : WFW h x) {w : Nat} {wr : Writer K}
    (hf : find w x.writers = some wr) (t : Nat) :
    WFW h ⟨(wFinish h t x.st wr).1, erase w x.writers⟩ ∧
    (∀ id, (find id x.st.arts).isSome →
      (find id (wFinish h t x.st wr).1.arts).isSome ∧ get (wFinish h t x.st wr).1 id = get x.st id) ∧
    (find x.st.next (wFinish h t x.st wr).1.arts).isSome ∧
    get (wFinish h t x.st wr).1 x.st.next = .ok wr.hashed := by
  obtain ⟨d, hr, hb, htot⟩ := hw.wr (w, wr) (find_some_mem hf)
  simp only at hr hb htot
  simp only [wFinish]
  generalize hlast : (if wr.buffer = [] then [] else [wr.buffer] : List (List Nat)) = last
  have hlfl : last.flatten = wr.buffer := by
    rw [← hlast]; by_cases hbf : wr.buffer = [] <;> simp [hbf]
  obtain ⟨hw1, hk1⟩ := storeAll_change h hw.base t last
  have hkeep : ∀ p ∈ x.writers, readChunks (last.foldl (storeChunk h t) x.st.chunks) p.2.chunks
      = readChunks x.st.chunks p.2.chunks := by
    intro p hp
    exact readChunks_congr (fun k hk =>
      dataOf_storeAll_present h t last (refsOf_pos_isSome (hw.writer_refs_pos h hp hk)))
  have hnew : readChunks (last.foldl (storeChunk h t) x.st.chunks) (wr.chunks ++ last.map h) = .ok wr.hashed := by
    rw [readChunks_append, hkeep (w, wr) (find_some_mem hf), hr, readChunks_storeAll h hi t last hw.base.addr]
    simp only [hlfl, hb]
  have hfresh := fresh_id h hw.base
  have hrefs : ∀ k, occ k (x.st.arts ++ [(x.st.next,
        ({ chunks := wr.chunks ++ last.map h, size := wr.total, checksum := h wr.hashed } : Art K))])
      + holds k (erase w x.writers) ≤ refsOf k (last.foldl (storeChunk h t) x.st.chunks) := by
    intro k
    have h1 := hw.refsW k
    have h2 := @holds_erase_find _ _ k _ _ _ hf
    simp only [occ_append, occ_cons, occ_nil, Nat.add_zero, List.count_append, refsOf_storeAll]
    omega
  refine ⟨⟨⟨hw1.nodup, hw1.addr, fun k => by have := hrefs k; simp only at this ⊢; omega, ?_, ?_, ?_⟩, hrefs, ?_⟩,
    ?_, ?_, ?_⟩
  · intro p hp
    simp only [List.mem_append, List.mem_singleton] at hp
    rcases hp with hp | hp
    · have := hw.base.idsLt p hp; simp only; omega
    · subst hp; simp
  · simp only [keys, List.map_append, List.map_cons, List.map_nil]
    refine List.nodup_append.mpr ⟨hw.base.idsNodup, by simp, ?_⟩
    intro a ha b hb'
    simp at hb'; subst hb'
    intro e; subst e
    exact (find_none_iff _ _).mp hfresh ha
  · intro p hp
    simp only [List.mem_append, List.mem_singleton] at hp
    rcases hp with hp | hp
    · obtain ⟨d', h1, h2, h3⟩ := hw.base.intact p hp
      exact ⟨d', by simp only; rw [hk1 p hp]; exact h1, h2, h3⟩
    · subst hp
      exact ⟨wr.hashed, hnew, rfl, htot⟩
  · intro p hp
    have hm := mem_of_mem_erase hp
    obtain ⟨d', h1, h2, h3⟩ := hw.wr p hm
    exact ⟨d', by simp only; rw [hkeep p hm]; exact h1, h2, h3⟩
  · intro id hid
    cases hfi : find id x.st.arts with
    | none => simp [hfi] at hid
    | some a =>
      refine ⟨by simp only [find_append, hfi]; rfl, ?_⟩
      unfold get
      simp only [find_append, hfi]
      exact hk1 (id, a) (find_some_mem hfi)
  · simp only [find_append, hfresh, find_cons, if_true]; rfl
  · unfold get
    simp only [find_append, hfresh, find_cons, if_true]
    exact hnew

/-- every step of a history with open writers (`full_gc` / `repair` only while no writer is open) keeps the
    invariant, keeps every artifact it does not delete, and every such artifact reads the same afterwards -/
theorem applyW_step (hi : HashInj h) (cfg : Cfg) {x : WState K} (hw : WFW h x) (op : WOp)
    (hq : op.isFullCollector = false ∨ x.writers = []) :
    WFW h (applyW h cfg x op) ∧
    ∀ id, (find id x.st.arts).isSome → op ≠ .base (.delete id) →
      (find id (applyW h cfg x op).st.arts).isSome ∧ get (applyW h cfg x op).st id = get x.st id := by
  cases op with
  | base op =>
    simp only [applyW]
    refine ⟨?_, fun id hid hne => (applyOp_step h hi cfg hw.base op).2 id hid (fun e => hne (by rw [e]))⟩
    rcases hq with hq | hq
    · exact base_step h hi cfg hw op hq
    · exact base_step_quiet h hi cfg hw op hq
  | wopen w => exact ⟨wopen_step h hw w, fun id hid _ => ⟨hid, rfl⟩⟩
  | wwrite w t piece =>
    simp only [applyW]
    cases hf : find w x.writers with
    | none => exact ⟨hw, fun id hid _ => ⟨hid, rfl⟩⟩
    | some wr =>
      obtain ⟨h1, h2, h3⟩ := wwrite_step h hi cfg hw hf t piece
      exact ⟨h1, fun id hid _ => ⟨by simp only [h2]; exact hid, h3 id⟩⟩
  | wfinish w t =>
    simp only [applyW]
    cases hf : find w x.writers with
    | none => exact ⟨hw, fun id hid _ => ⟨hid, rfl⟩⟩
    | some wr =>
      obtain ⟨h1, h2, _, _⟩ := wfinish_step h hi hw hf t
      exact ⟨h1, fun id hid _ => h2 id hid⟩
  | wdrop w => exact ⟨wdrop_step h hw w, fun id hid _ => ⟨hid, rfl⟩⟩

/-! ### histories -/

theorem runW_cons (cfg : Cfg) (x : WState K) (op : WOp) (ops : List WOp) :
    runW h cfg x (op :: ops) = runW h cfg (applyW h cfg x op) ops := rfl

theorem runW_append (cfg : Cfg) (x : WState K) (ops₁ ops₂ : List WOp) :
    runW h cfg x (ops₁ ++ ops₂) = runW h cfg (runW h cfg x ops₁) ops₂ := by
  simp [runW, List.foldl_append]

theorem collectorsQuiet_cons (cfg : Cfg) (x : WState K) (op : WOp) (ops : List WOp) :
    collectorsQuiet h cfg x (op :: ops) = true ↔
      (op.isFullCollector = false ∨ x.writers = []) ∧ collectorsQuiet h cfg (applyW h cfg x op) ops = true := by
  rw [collectorsQuiet]
  simp only [Bool.and_eq_true, Bool.or_eq_true, Bool.not_eq_true', List.isEmpty_iff]

theorem collectorsQuiet_append (cfg : Cfg) (x : WState K) (ops₁ ops₂ : List WOp) :
    collectorsQuiet h cfg x (ops₁ ++ ops₂) = true ↔
      collectorsQuiet h cfg x ops₁ = true ∧ collectorsQuiet h cfg (runW h cfg x ops₁) ops₂ = true := by
  induction ops₁ generalizing x with
  | nil => simp [collectorsQuiet, runW]
  | cons op ops ih =>
    rw [List.cons_append, collectorsQuiet_cons, collectorsQuiet_cons, ih, runW_cons, and_assoc]

theorem runW_step (hi : HashInj h) (cfg : Cfg) (ops : List WOp) {x : WState K} (hw : WFW h x)
    (hq : collectorsQuiet h cfg x ops = true) :
    WFW h (runW h cfg x ops) ∧
    ∀ id, (find id x.st.arts).isSome → (∀ op ∈ ops, op ≠ .base (.delete id)) →
      get (runW h cfg x ops).st id = get x.st id := by
  induction ops generalizing x with
  | nil => exact ⟨hw, fun _ _ _ => rfl⟩
  | cons op ops ih =>
    obtain ⟨hq1, hq2⟩ := (collectorsQuiet_cons h cfg x op ops).mp hq
    obtain ⟨h1, h2⟩ := applyW_step h hi cfg hw op hq1
    obtain ⟨h3, h4⟩ := ih h1 hq2
    refine ⟨h3, fun id hid hnd => ?_⟩
    obtain ⟨h5, h6⟩ := h2 id hid (hnd op (by simp))
    rw [runW_cons, h4 id h5 (fun o ho => hnd o (by simp [ho])), h6]

theorem WFW_reach (hi : HashInj h) (cfg : Cfg) (ops : List WOp)
    (hq : collectorsQuiet h cfg (WState.init : WState K) ops = true) : WFW h (runW h cfg WState.init ops) :=
  (runW_step h hi cfg ops (WFW_init h) hq).1

/-! ### what an open writer has been handed -/

theorem wWrite_hashed (c t : Nat) (s : State K) (w : Writer K) (piece : List Nat) :
    (wWrite h c t s w piece).2.hashed = w.hashed ++ piece := by
  by_cases hp : piece = []
  · simp [wWrite, hp]
  · simp [wWrite, hp]

/-- the running hash input of an open writer is exactly the bytes handed to it since it was opened -/
theorem hashed_runW (cfg : Cfg) (w : Nat) (ops : List WOp) (x : WState K) (acc : List Nat)
    (hx : ∀ wr, find w x.writers = some wr → wr.hashed = acc) :
    ∀ wr', find w (runW h cfg x ops).writers = some wr' → wr'.hashed = writtenGo w acc ops := by
  induction ops generalizing x acc with
  | nil => exact hx
  | cons op ops ih =>
    rw [runW_cons]
    cases op with
    | base op => exact ih _ _ hx
    | wopen w' =>
      apply ih
      intro wr hwr
      simp only [applyW, find_cons] at hwr
      by_cases e : w' = w
      · simp only [e, if_true, Option.some.injEq] at hwr
        simp [e, ← hwr, Writer.new]
      · have e' : ¬ w = w' := fun q => e q.symm
        simp only [e, if_false, find_erase, e'] at hwr
        simp only [e, if_false]; exact hx wr hwr
    | wwrite w' t piece =>
      apply ih
      intro wr hwr
      simp only [applyW] at hwr
      cases hf : find w' x.writers with
      | none =>
        simp only [hf] at hwr
        by_cases e : w' = w
        · rw [e] at hf; rw [hf] at hwr; cases hwr
        · simp only [e, if_false]; exact hx wr hwr
      | some wr0 =>
        simp only [hf, find_cons] at hwr
        by_cases e : w' = w
        · simp only [e, if_true, Option.some.injEq] at hwr
          rw [e] at hf
          simp only [e, if_true, ← hwr, wWrite_hashed, hx wr0 hf]
        · have e' : ¬ w = w' := fun q => e q.symm
          simp only [e, if_false, find_erase, e'] at hwr
          simp only [e, if_false]; exact hx wr hwr
    | wfinish w' t =>
      apply ih
      intro wr hwr
      simp only [applyW] at hwr
      cases hf : find w' x.writers with
      | none =>
        simp only [hf] at hwr
        by_cases e : w' = w
        · rw [e] at hf; rw [hf] at hwr; cases hwr
        · simp only [e, if_false]; exact hx wr hwr
      | some wr0 =>
        simp only [hf, find_erase] at hwr
        by_cases e : w' = w
        · simp [e] at hwr
        · have e' : ¬ w = w' := fun q => e q.symm
          simp only [e', if_false] at hwr
          simp only [e, if_false]; exact hx wr hwr
    | wdrop w' =>
      apply ih
      intro wr hwr
      simp only [applyW, find_erase] at hwr
      by_cases e : w' = w
      · simp [e] at hwr
      · have e' : ¬ w = w' := fun q => e q.symm
        simp only [e', if_false] at hwr
        simp only [e, if_false]; exact hx wr hwr

theorem hashed_reach (cfg : Cfg) (w : Nat) (ops : List WOp) (wr : Writer K)
    (hf : find w (runW h cfg (WState.init : WState K) ops).writers = some wr) : wr.hashed = writtenTo w ops :=
  hashed_runW h cfg w ops WState.init [] (by intro wr hwr; simp [WState.init] at hwr) wr hf

end
end Neumann.Blob
