import NeumannModel.Blob.Model
/-
  C19 — concurrent part.  Every public operation is a small state machine whose
  transitions are the individual `TensorStore` calls it makes (`exists`, `get`,
  `put`, `delete`, `scan`): one transition = one atomic store step.  Local
  variables of the operation (the stale record it read, the key list a scan
  returned, the `referenced` set of `full_gc`) live in the thread state.  A
  schedule is a list of thread indices; `runSched` performs the interleaving.

  Mirrors: `BlobWriter::store_chunk` (exists → put | exists → get → put),
  `finish` (put meta), `delete_artifact` (get meta → (get → put)* → delete meta),
  `gc_cycle` (scan → (get → delete?)*), `full_gc` (scan meta → get* → scan chunks → (get → delete)*),
  the metadata updaters `set_meta` / `update_metadata` / `tag` / `link` (get meta → put meta; chunk list untouched).
  `TensorStore::scan` collects the keys through a randomly seeded hash set, so the order of a scan result
  is arbitrary: every scanning thread carries an order hint `ord` and sees `orderBy ord keys` (the hinted
  keys that are present, in hint order, then the remaining keys in table order).  The theorems quantify over
  all hints; the correspondence run passes the order the real scan produced.
  A few transitions make no store call (`silent`: loop exits, keys `full_gc` skips because they are
  referenced); `runCalls` is the call-level scheduler — one schedule entry = one `TensorStore` call, the
  granularity of the yield-point hook — and `runCalls_refines` shows each of its runs is a `runSched` run.
  Not modelled: preemption inside a single `TensorStore` call, `repair` as a thread, the secondary-index
  keys (`_blob:idx:*`) a writer / deleter also touches (no operation of the property reads them).
-/
namespace Neumann.Blob

/-- `store.put(key, tensor)`: replace or create -/
def setRec {α β : Type} [DecidableEq α] (k : α) (v : β) (l : List (α × β)) : List (α × β) :=
  match find k l with
  | some _ => modify k (fun _ => v) l
  | none => l ++ [(k, v)]

/-- result order of a `scan`: hinted keys that are present first (hint order), then the rest (table order) -/
def orderBy {α : Type} [DecidableEq α] (ord ks : List α) : List α :=
  ord.filter (fun k => ks.contains k) ++ ks.filter (fun k => !ord.contains k)

inductive Th (K : Type)
  | done
  -- writer (artifact id, timestamp, all bytes, [current chunk,] remaining chunks, keys pushed so far)
  | wExists (id t : Nat) (all : List Nat) (todo : List (List Nat)) (acc : List K)
  | wPutNew (id t : Nat) (all d : List Nat) (todo : List (List Nat)) (acc : List K)
  | wIncGet (id t : Nat) (all d : List Nat) (todo : List (List Nat)) (acc : List K)
  | wIncPut (id t : Nat) (all d : List Nat) (todo : List (List Nat)) (acc : List K) (r : CRec)
  -- deleter
  | dGetMeta (id : Nat)
  | dDecGet (id : Nat) (todo : List K)
  | dDecPut (id : Nat) (k : K) (todo : List K) (r : CRec)
  -- metadata updater (`set_meta`, `update_metadata`, ..: get meta → put the whole record back)
  | tGetMeta (id : Nat)
  | tPutMeta (id : Nat) (a : Art K)
  -- gc_cycle
  | gScan (mc : Nat) (ord : List K)
  | gGet (mc : Nat) (todo : List K)
  | gDel (mc : Nat) (k : K) (todo : List K)
  -- full_gc
  | fScanMeta (ordI : List Nat) (ordK : List K)
  | fGetMeta (ids : List Nat) (refd : List K) (ordK : List K)
  | fScanChunks (refd : List K) (ordK : List K)
  | fGet (refd : List K) (todo : List K)
  | fDel (k : K) (refd : List K) (todo : List K)
  deriving DecidableEq, Repr

def Th.isDone {K : Type} : Th K → Bool
  | .done => true
  | _ => false

/-- a thread that has not taken a step yet -/
def Th.isStart {K : Type} [DecidableEq K] : Th K → Bool
  | .wExists _ _ all todo [] => decide (all = todo.flatten)
  | .dGetMeta _ => true
  | .tGetMeta _ => true
  | .gScan _ _ => true
  | .fScanMeta _ _ => true
  | _ => false

section
variable {K : Type} [DecidableEq K] (h : List Nat → K)

/-- a writer of the chunk datas `cds` (already cut by the writer's buffer logic) -/
def Th.writer (id t : Nat) (cds : List (List Nat)) : Th K := .wExists id t cds.flatten cds []
def Th.deleter (id : Nat) : Th K := .dGetMeta id
def Th.toucher (id : Nat) : Th K := .tGetMeta id
def Th.gc (minCreated : Nat) : Th K := .gScan minCreated []
def Th.fullGc : Th K := .fScanMeta [] []

/-- one atomic store step of one thread -/
def stepTh (s : State K) : Th K → State K × Th K
  | .done => (s, .done)
  | .wExists id _ all [] acc =>
      ({ s with arts := setRec id ⟨acc, all.length, h all⟩ s.arts, next := max s.next (id + 1) }, .done)
  | .wExists id t all (d :: todo) acc =>
      if (find (h d) s.chunks).isSome then (s, .wIncGet id t all d todo acc)
      else (s, .wPutNew id t all d todo acc)
  | .wPutNew id t all d todo acc =>
      ({ s with chunks := setRec (h d) ⟨d, d.length, 1, t⟩ s.chunks }, .wExists id t all todo (acc ++ [h d]))
  | .wIncGet id t all d todo acc =>
      match find (h d) s.chunks with
      | none => (s, .wExists id t all todo (acc ++ [h d]))      -- `if let Ok(..)` fails silently
      | some r => (s, .wIncPut id t all d todo acc r)
  | .wIncPut id t all d todo acc r =>
      ({ s with chunks := setRec (h d) { r with refs := r.refs + 1 } s.chunks },
       .wExists id t all todo (acc ++ [h d]))
  | .dGetMeta id =>
      match find id s.arts with
      | none => (s, .done)
      | some a => (s, .dDecGet id a.chunks)
  | .dDecGet id [] => ({ s with arts := erase id s.arts }, .done)
  | .dDecGet id (k :: todo) =>
      match find k s.chunks with
      | none => (s, .dDecGet id todo)
      | some r => (s, .dDecPut id k todo r)
  | .dDecPut id k todo r =>
      ({ s with chunks := setRec k { r with refs := r.refs - 1 } s.chunks }, .dDecGet id todo)
  | .tGetMeta id =>
      match find id s.arts with
      | none => (s, .done)                                       -- `NotFound`
      | some a => (s, .tPutMeta id a)
  | .tPutMeta id a => ({ s with arts := setRec id a s.arts }, .done)   -- re-creates the record if it was deleted meanwhile
  | .gScan mc ord => (s, .gGet mc (orderBy ord (s.chunks.map (·.1))))
  | .gGet _ [] => (s, .done)
  | .gGet mc (k :: todo) =>
      match find k s.chunks with
      | none => (s, .gGet mc todo)
      | some r => if r.refs = 0 ∧ r.created < mc then (s, .gDel mc k todo) else (s, .gGet mc todo)
  | .gDel mc k todo => ({ s with chunks := erase k s.chunks }, .gGet mc todo)
  | .fScanMeta ordI ordK => (s, .fGetMeta (orderBy ordI (s.arts.map (·.1))) [] ordK)
  | .fGetMeta [] refd ordK => (s, .fScanChunks refd ordK)
  | .fGetMeta (id :: ids) refd ordK =>
      match find id s.arts with
      | none => (s, .fGetMeta ids refd ordK)
      | some a => (s, .fGetMeta ids (refd ++ a.chunks) ordK)
  | .fScanChunks refd ordK => (s, .fGet refd (orderBy ordK (s.chunks.map (·.1))))
  | .fGet _ [] => (s, .done)
  | .fGet refd (k :: todo) =>
      if refd.contains k then (s, .fGet refd todo)
      else match find k s.chunks with
        | none => (s, .fGet refd todo)
        | some _ => (s, .fDel k refd todo)
  | .fDel k refd todo => ({ s with chunks := erase k s.chunks }, .fGet refd todo)

def stepAt (s : State K) (ths : List (Th K)) (i : Nat) : State K × List (Th K) :=
  match ths[i]? with
  | none => (s, ths)
  | some th => ((stepTh h s th).1, ths.set i (stepTh h s th).2)

/-- run the interleaving `sched` (a list of thread indices) -/
def runSched (s : State K) (ths : List (Th K)) : List Nat → State K × List (Th K)
  | [] => (s, ths)
  | i :: sc => runSched (stepAt h s ths i).1 (stepAt h s ths i).2 sc

/-! ### call-level view: one schedule entry = one `TensorStore` call -/

/-- the `TensorStore` call a thread is about to make -/
inductive Call (K : Type)
  | existsC (k : K) | getC (k : K) | putC (k : K) | delC (k : K)
  | getM (id : Nat) | putM (id : Nat) | delM (id : Nat)
  | scanC | scanM
  deriving DecidableEq, Repr

/-- `none`: finished, or the next transition is silent (no store call) -/
def Th.call : Th K → Option (Call K)
  | .done => none
  | .wExists id _ _ [] _ => some (.putM id)
  | .wExists _ _ _ (d :: _) _ => some (.existsC (h d))
  | .wPutNew _ _ _ d _ _ => some (.putC (h d))
  | .wIncGet _ _ _ d _ _ => some (.getC (h d))
  | .wIncPut _ _ _ d _ _ _ => some (.putC (h d))
  | .dGetMeta id => some (.getM id)
  | .dDecGet id [] => some (.delM id)
  | .dDecGet _ (k :: _) => some (.getC k)
  | .dDecPut _ k _ _ => some (.putC k)
  | .tGetMeta id => some (.getM id)
  | .tPutMeta id _ => some (.putM id)
  | .gScan _ _ => some .scanC
  | .gGet _ [] => none
  | .gGet _ (k :: _) => some (.getC k)
  | .gDel _ k _ => some (.delC k)
  | .fScanMeta _ _ => some .scanM
  | .fGetMeta [] _ _ => none
  | .fGetMeta (id :: _) _ _ => some (.getM id)
  | .fScanChunks _ _ => some .scanC
  | .fGet _ [] => none
  | .fGet refd (k :: _) => if refd.contains k then none else some (.getC k)
  | .fDel k _ _ => some (.delC k)

/-- run the silent transitions (loop exits; keys `full_gc` skips because they are referenced) -/
def settle : Th K → Th K
  | .gGet _ [] => .done
  | .fGetMeta [] refd ordK => .fScanChunks refd ordK
  | .fGet refd todo =>
      match todo.dropWhile (fun k => refd.contains k) with
      | [] => .done
      | l => .fGet refd l
  | th => th

/-- thread `i` makes its next store call, then runs on to the entry of the following one -/
def callAt (s : State K) (ths : List (Th K)) (i : Nat) : State K × List (Th K) :=
  match ths[i]? with
  | none => (s, ths)
  | some th => ((stepTh h s th).1, ths.set i (settle (stepTh h s th).2))

/-- the call-level scheduler; the threads are expected settled (`ths.map settle`) -/
def runCalls (s : State K) (ths : List (Th K)) : List Nat → State K × List (Th K)
  | [] => (s, ths)
  | i :: sc => runCalls (callAt h s ths i).1 (callAt h s ths i).2 sc

/-- the calls a call-level run makes, in order (what the yield-point trace of the real threads shows) -/
def callTrace (s : State K) (ths : List (Th K)) : List Nat → List (Option (Call K))
  | [] => []
  | i :: sc => ((ths[i]?).bind (Th.call h)) :: callTrace (callAt h s ths i).1 (callAt h s ths i).2 sc

end

/-- every chunk listed by an existing artifact is present in the chunk table -/
def liveIntact {K : Type} [DecidableEq K] (s : State K) : Bool :=
  s.arts.all (fun a => a.2.chunks.all (fun k => (find k s.chunks).isSome))

end Neumann.Blob
