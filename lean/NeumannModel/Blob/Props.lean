import NeumannModel.Blob.ConcSafe
import NeumannModel.Blob.ReaderLemmas
import NeumannModel.Blob.WritersLemmas
/-
  C19 — property theorems for the blob store.  ONLY property statements and their
  non-vacuity examples live here; helpers are in `Lemmas.lean` / `Invariant.lean`.

  `h` is the (opaque) content hash, `HashInj h` its collision freedom.  `run h cfg State.init ops`
  is the state after an arbitrary operation sequence (`put / stream / abandoned stream / delete /
  gc (any batch, any age) / fullGc / verify / get / repair`) from the empty store.
-/
namespace Neumann.Blob.Props
open Neumann.Blob

section
variable {K : Type} [DecidableEq K] (h : List Nat → K)

/-! ### reading returns what was written -/

/-- the chunker is a partition of the data, for every data size and every chunk size > 0
    (0, 1, c-1, c, c+1, many chunks are instances) -/
theorem chunks_concat (c : Nat) (hc : 0 < c) (d : List Nat) : (chunks c d).flatten = d :=
  chunks_flatten c hc d

/-- whatever sizes the pieces handed to a streaming writer have (empty pieces included), the chunks it
    stores concatenate to the concatenation of the pieces; holds for every chunk size -/
theorem stream_chunks_concat (c : Nat) (ps : List (List Nat)) : (streamChunks c ps).flatten = ps.flatten :=
  streamChunks_flatten c ps

/-- `put` then ANY operation sequence that does not delete that artifact, after ANY history:
    `get` returns exactly the bytes written -/
theorem read_returns_written (hi : HashInj h) (cfg : Cfg) (ops₁ ops₂ : List Op) (t : Nat) (d : List Nat) (id : Nat)
    (hput : (put h cfg t (run h cfg State.init ops₁) d).2 = .ok id)
    (hnd : ∀ op ∈ ops₂, op ≠ .delete id) :
    get (run h cfg (put h cfg t (run h cfg State.init ops₁) d).1 ops₂) id = .ok d := by
  have hw := WF_reach h hi cfg ops₁
  rcases put_cases h cfg t (run h cfg State.init ops₁) d with ⟨_, e, he⟩ | e
  · rw [he] at hput; cases hput
  · rw [e] at hput ⊢
    simp only [Except.ok.injEq] at hput
    obtain ⟨hw1, _, hget⟩ := stream_step h hi hw cfg t [d]
    rw [hput] at hget
    have hsome : (find id (stream h cfg t (run h cfg State.init ops₁) [d]).1.arts).isSome := by
      unfold get at hget
      cases hf : find id (stream h cfg t (run h cfg State.init ops₁) [d]).1.arts with
      | none => simp [hf] at hget
      | some a => rfl
    rw [(run_step h hi cfg ops₂ hw1).2 id hsome hnd, hget]
    simp

/-- the same for an artifact streamed in arbitrary pieces -/
theorem read_returns_streamed (hi : HashInj h) (cfg : Cfg) (ops₁ ops₂ : List Op) (t : Nat) (ps : List (List Nat))
    (hnd : ∀ op ∈ ops₂, op ≠ .delete (stream h cfg t (run h cfg State.init ops₁) ps).2) :
    get (run h cfg (stream h cfg t (run h cfg State.init ops₁) ps).1 ops₂)
        (stream h cfg t (run h cfg State.init ops₁) ps).2 = .ok ps.flatten := by
  have hw := WF_reach h hi cfg ops₁
  obtain ⟨hw1, _, hget⟩ := stream_step h hi hw cfg t ps
  have hsome : (find (stream h cfg t (run h cfg State.init ops₁) ps).2
      (stream h cfg t (run h cfg State.init ops₁) ps).1.arts).isSome := by
    unfold get at hget
    cases hf : find (stream h cfg t (run h cfg State.init ops₁) ps).2
        (stream h cfg t (run h cfg State.init ops₁) ps).1.arts with
    | none => simp [hf] at hget
    | some a => rfl
  rw [(run_step h hi cfg ops₂ hw1).2 _ hsome hnd, hget]

/-! ### reference counts -/

/-- in every reachable state every chunk's refcount is at least the number of times live artifacts list it
    (abandoned writers only add slack) -/
theorem refs_invariant (hi : HashInj h) (cfg : Cfg) (ops : List Op) (k : K) :
    occ k (run h cfg State.init ops).arts ≤ refsOf k (run h cfg State.init ops).chunks :=
  (WF_reach h hi cfg ops).refs k

/-- with equality for every history in which no writer is abandoned (dropped before `finish`) -/
theorem refs_eq_occurrences (hi : HashInj h) (cfg : Cfg) (ops : List Op)
    (hna : ∀ op ∈ ops, op.isAbandon = false) (k : K) :
    refsOf k (run h cfg State.init ops).chunks = occ k (run h cfg State.init ops).arts :=
  refsEq_run h hi cfg ops (WF_init h) (by intro k; simp [State.init, refsOf, occ]) hna k

/-- hence every chunk a live artifact lists is present -/
theorem live_chunks_present (hi : HashInj h) (cfg : Cfg) (ops : List Op) (p : Nat × Art K)
    (hp : p ∈ (run h cfg State.init ops).arts) (k : K) (hk : k ∈ p.2.chunks) :
    (find k (run h cfg State.init ops).chunks).isSome := by
  have := refs_invariant h hi cfg ops k
  exact refsOf_pos_isSome (by have := occ_pos_of_mem hp hk; omega)

/-! ### identical content is stored once -/

/-- no two chunk records hold the same content -/
theorem dedup_once (hi : HashInj h) (cfg : Cfg) (ops : List Op) :
    ((run h cfg State.init ops).chunks.map (·.2.data)).Nodup := by
  have hw := WF_reach h hi cfg ops
  have hk : keys (run h cfg State.init ops).chunks = ((run h cfg State.init ops).chunks.map (·.2.data)).map h := by
    rw [List.map_map]
    apply List.map_congr_left
    intro p hp
    exact (hw.addr p hp).symm
  have := hw.nodup
  rw [hk] at this
  exact List.Pairwise.of_map h (fun a b hne e => hne (congrArg h e)) this

/-- writing content whose chunks are all stored already adds no chunk record -/
theorem dedup_rewrite_adds_nothing (cfg : Cfg) (t : Nat) (s : State K) (ps : List (List Nat))
    (hp : ∀ d ∈ streamChunks cfg.chunkSize ps, (find (h d) s.chunks).isSome) :
    keys (stream h cfg t s ps).1.chunks = keys s.chunks := by
  rw [stream_eq]
  exact storeAll_keys_of_present h t _ _ hp

/-! ### delete and the collectors never damage another artifact -/

/-- for ANY state: deleting one artifact leaves every other artifact's bytes (or error) unchanged -/
theorem delete_preserves_others (s : State K) (id id' : Nat) (hne : id' ≠ id) :
    get (delete s id).1 id' = get s id' :=
  get_delete_other s id id' hne

/-- `gc_cycle`, for every age threshold and every batch the scan hands it, removes only records that no
    existing artifact lists -/
theorem gc_only_unreferenced (hi : HashInj h) (cfg : Cfg) (ops : List Op) (mc : Nat) (sel : K → Bool) (k : K)
    (hpre : (find k (run h cfg State.init ops).chunks).isSome)
    (hgone : find k (gcSel mc sel (run h cfg State.init ops)).1.chunks = none) :
    occ k (run h cfg State.init ops).arts = 0 := by
  have hw := WF_reach h hi cfg ops
  generalize run h cfg State.init ops = s at *
  simp only [gcSel] at hgone
  rw [find_filter _ hw.nodup] at hgone
  cases hf : find k s.chunks with
  | none => simp [hf] at hpre
  | some r =>
    simp only [hf, Option.bind_some] at hgone
    by_cases hd : gcDead mc sel (k, r) = true
    · simp only [gcDead, Bool.and_eq_true, decide_eq_true_eq] at hd
      have := hw.refs k
      unfold refsOf at this; rw [hf] at this
      simp only at this
      have := hd.1.2
      omega
    · simp [hd] at hgone

/-- `full_gc` (any state with unique keys) removes only records that no existing artifact lists -/
theorem full_gc_only_unreferenced (s : State K) (hn : (keys s.chunks).Nodup) (k : K)
    (hpre : (find k s.chunks).isSome) (hgone : find k (fullGc s).1.chunks = none) : occ k s.arts = 0 := by
  simp only [fullGc] at hgone
  rw [find_filter _ hn] at hgone
  cases hf : find k s.chunks with
  | none => simp [hf] at hpre
  | some r =>
    simp only [hf, Option.bind_some, contains_referenced] at hgone
    by_cases hd : 0 < occ k s.arts
    · simp [hd] at hgone
    · omega

/-- every collector (gc with any threshold/batch, full gc, repair) leaves every artifact's bytes unchanged -/
theorem collectors_keep_every_artifact (hi : HashInj h) (cfg : Cfg) (ops : List Op) (mc : Nat) (sel : K → Bool) (id : Nat) :
    get (gcSel mc sel (run h cfg State.init ops)).1 id = get (run h cfg State.init ops) id ∧
    get (fullGc (run h cfg State.init ops)).1 id = get (run h cfg State.init ops) id ∧
    get (repair (run h cfg State.init ops)).1 id = get (run h cfg State.init ops) id := by
  have hw := WF_reach h hi cfg ops
  exact ⟨(gcSel_step h hw mc sel).2 id, (fullGc_step h hw).2 id, (repair_step h hw).2 id⟩

/-- for ANY state: delete every artifact, then one full collection: no artifact and no chunk is left -/
theorem full_gc_after_delete_all_empty (s : State K) :
    (fullGc (deleteAll s)).1.chunks = [] ∧ (fullGc (deleteAll s)).1.arts = [] := by
  have ha : (deleteAll s).arts = [] :=
    deleteList_arts_nil (keys s.arts) s (fun p hp => List.mem_map.mpr ⟨p, hp, rfl⟩)
  constructor
  · simp only [fullGc, ha, referenced, List.flatMap_nil]
    apply List.filter_eq_nil_iff.mpr
    intro p _; simp
  · simp only [fullGc]; exact ha

/-! ### integrity verification -/

/-- undamaged artifacts verify, in every reachable state -/
theorem verify_ok_on_undamaged (hi : HashInj h) (cfg : Cfg) (ops : List Op) (id : Nat) (a : Art K)
    (hf : find id (run h cfg State.init ops).arts = some a) :
    verify h (run h cfg State.init ops) id = .ok true := by
  have hw := WF_reach h hi cfg ops
  obtain ⟨d, h1, h2, _⟩ := hw.intact (id, a) (find_some_mem hf)
  have h1' : readChunks (run h cfg State.init ops).chunks a.chunks = .ok d := h1
  have h2' : a.checksum = h d := h2
  unfold verify
  simp only [hf, h1', h2', decide_true]

/-- take any reachable state and replace its chunk table by ANYTHING (chunks altered, missing, added):
    `verify` answers `Ok(true)` exactly when the artifact still reads back as the original bytes -/
theorem verify_detects_alteration (hi : HashInj h) (cfg : Cfg) (ops : List Op) (id : Nat) (a : Art K)
    (tbl' : List (K × CRec))
    (hf : find id (run h cfg State.init ops).arts = some a) :
    verify h { run h cfg State.init ops with chunks := tbl' } id = .ok true ↔
      get { run h cfg State.init ops with chunks := tbl' } id = get (run h cfg State.init ops) id := by
  have hw := WF_reach h hi cfg ops
  generalize run h cfg State.init ops = s at *
  obtain ⟨d, h1, h2, _⟩ := hw.intact (id, a) (find_some_mem hf)
  have h1' : readChunks s.chunks a.chunks = .ok d := h1
  have h2' : a.checksum = h d := h2
  unfold verify get
  simp only [hf, h1']
  cases hr : readChunks tbl' a.chunks with
  | error e => simp
  | ok d' =>
    simp only [Except.ok.injEq, decide_eq_true_eq, h2']
    exact ⟨fun e => hi _ _ e, fun e => by rw [e]⟩

/-- in particular a missing chunk is reported as an error, never as `Ok(true)` -/
theorem verify_reports_missing_chunk (s : State K) (id : Nat) (a : Art K) (k : K)
    (hf : find id s.arts = some a) (hk : k ∈ a.chunks) (hm : find k s.chunks = none) :
    verify h s id = .error .chunkMissing := by
  unfold verify
  simp only [hf]
  have : readChunks s.chunks a.chunks = .error .chunkMissing := by
    generalize a.chunks = ks at hk
    induction ks with
    | nil => simp at hk
    | cons k0 ks ih =>
      rw [readChunks]
      cases hf0 : find k0 s.chunks with
      | none => rfl
      | some r =>
        simp only
        have hk' : k ∈ ks := by
          rcases List.mem_cons.mp hk with e | e
          · subst e; rw [hm] at hf0; cases hf0
          · exact e
        rw [ih hk']
  rw [this]

/-! ### per-chunk verification, existence checks, orphans, statistics -/

/-- `verify_chunk` accepts every record of every reachable state -/
theorem verify_chunk_ok_on_undamaged (hi : HashInj h) (cfg : Cfg) (ops : List Op) (k : K)
    (hp : (find k (run h cfg State.init ops).chunks).isSome) :
    verifyChunk h (run h cfg State.init ops) k = .ok true := by
  have hw := WF_reach h hi cfg ops
  unfold verifyChunk
  cases hf : find k (run h cfg State.init ops).chunks with
  | none => simp [hf] at hp
  | some r =>
    have := hw.addr (k, r) (find_some_mem hf)
    simp only at this
    simp [this]

/-- take any reachable state and replace its chunk table by ANYTHING: `verify_chunk` answers `Ok(true)` for a
    key of the original table exactly when the record still holds the original data — every altered chunk is
    reported (`Ok(false)`), every missing one too (`ChunkMissing`), also the boundary shift that the
    whole-artifact checksum cannot see (`verify_boundary_shift_undetected_witness`) -/
theorem verify_chunk_detects_alteration (hi : HashInj h) (cfg : Cfg) (ops : List Op) (k : K) (r0 : CRec)
    (tbl' : List (K × CRec)) (hf : find k (run h cfg State.init ops).chunks = some r0) :
    verifyChunk h { run h cfg State.init ops with chunks := tbl' } k = .ok true ↔ dataOf k tbl' = some r0.data := by
  have hw := WF_reach h hi cfg ops
  have ha : h r0.data = k := hw.addr (k, r0) (find_some_mem hf)
  unfold verifyChunk dataOf
  cases hf' : find k tbl' with
  | none => simp
  | some r' =>
    simp only [Except.ok.injEq, decide_eq_true_eq, Option.map_some, Option.some.injEq]
    constructor
    · intro e; exact hi _ _ (e.trans ha.symm)
    · intro e; rw [e]; exact ha

/-- hence an artifact all of whose listed chunks pass `verify_chunk` reads back exactly as before, whatever
    happened to the chunk table -/
theorem chunk_checks_imply_bytes_intact (hi : HashInj h) (cfg : Cfg) (ops : List Op) (id : Nat) (a : Art K)
    (tbl' : List (K × CRec)) (hf : find id (run h cfg State.init ops).arts = some a)
    (hv : ∀ k ∈ a.chunks, verifyChunk h { run h cfg State.init ops with chunks := tbl' } k = .ok true) :
    get { run h cfg State.init ops with chunks := tbl' } id = get (run h cfg State.init ops) id := by
  have hpres := live_chunks_present h hi cfg ops (id, a) (find_some_mem hf)
  unfold get
  simp only [hf]
  apply readChunks_congr
  intro k hk
  have hs := hpres k hk
  cases hfk : find k (run h cfg State.init ops).chunks with
  | none => simp [hfk] at hs
  | some r0 =>
    rw [(verify_chunk_detects_alteration h hi cfg ops k r0 tbl' hfk).mp (hv k hk)]
    simp [dataOf, hfk]

/-- `check_chunks_exist` reports nothing on any artifact of any reachable state -/
theorem check_chunks_exist_clean (hi : HashInj h) (cfg : Cfg) (ops : List Op) (id : Nat) (a : Art K)
    (hf : find id (run h cfg State.init ops).arts = some a) :
    checkChunksExist (run h cfg State.init ops) id = .ok [] := by
  have hpres := live_chunks_present h hi cfg ops (id, a) (find_some_mem hf)
  unfold checkChunksExist
  simp only [hf, Except.ok.injEq]
  apply List.filter_eq_nil_iff.mpr
  intro k hk
  simp [hpres k hk]

/-- and, in ANY state, it reports every listed key that is absent -/
theorem check_chunks_exist_reports_missing (s : State K) (id : Nat) (a : Art K) (k : K)
    (hf : find id s.arts = some a) (hk : k ∈ a.chunks) (hm : find k s.chunks = none) :
    ∃ l, checkChunksExist s id = .ok l ∧ k ∈ l := by
  unfold checkChunksExist
  simp only [hf]
  exact ⟨_, rfl, List.mem_filter.mpr ⟨hk, by simp [hm]⟩⟩

/-- `find_orphaned_chunks` (ANY state): exactly the stored keys no existing artifact lists -/
theorem find_orphaned_iff (s : State K) (k : K) :
    k ∈ findOrphaned s ↔ k ∈ keys s.chunks ∧ occ k s.arts = 0 := by
  unfold findOrphaned keys
  simp only [List.mem_map, List.mem_filter, contains_referenced]
  constructor
  · rintro ⟨p, ⟨hp, hd⟩, rfl⟩
    refine ⟨⟨p, hp, rfl⟩, ?_⟩
    simp only [Bool.not_eq_eq_eq_not, Bool.not_true, decide_eq_false_iff_not] at hd
    omega
  · rintro ⟨⟨p, hp, rfl⟩, h0⟩
    exact ⟨p, ⟨hp, by simp [h0]⟩, rfl⟩

/-- `full_gc` (ANY state) deletes exactly the orphans: its `deleted` count is their number, and none is left -/
theorem full_gc_removes_exactly_orphans (s : State K) :
    (fullGc s).2.1 = (findOrphaned s).length ∧ findOrphaned (fullGc s).1 = [] := by
  constructor
  · simp [fullGc, findOrphaned]
  · simp only [fullGc, findOrphaned, List.filter_filter, List.map_eq_nil_iff]
    apply List.filter_eq_nil_iff.mpr
    intro p _
    cases (referenced s.arts).contains p.1 <;> simp

/-- `stats().orphaned_chunks` / `count_orphans` count the records with `_refs == 0`; in every history without an
    abandoned writer these are exactly the orphans `find_orphaned_chunks` lists -/
theorem stats_orphaned_eq_unreferenced (hi : HashInj h) (cfg : Cfg) (ops : List Op)
    (hna : ∀ op ∈ ops, op.isAbandon = false) :
    (stats (run h cfg State.init ops)).orphaned = (findOrphaned (run h cfg State.init ops)).length := by
  have hw := WF_reach h hi cfg ops
  have he := refs_eq_occurrences h hi cfg ops hna
  generalize run h cfg State.init ops = s at *
  simp only [stats, findOrphaned, List.length_map]
  congr 1
  apply List.filter_congr
  intro p hp
  have hf := mem_find hw.nodup (show (p.1, p.2) ∈ s.chunks from hp)
  have := he p.1
  unfold refsOf at this; rw [hf] at this
  simp only at this
  rw [contains_referenced, this]
  by_cases h0 : occ p.1 s.arts = 0
  · simp [h0]
  · have : 0 < occ p.1 s.arts := by omega
    simp [h0, this]

/-- for ANY state: delete every artifact, run one full collection: every statistic is zero -/
theorem stats_zero_after_delete_all_full_gc (s : State K) :
    stats (fullGc (deleteAll s)).1 = ⟨0, 0, 0, 0, 0⟩ := by
  obtain ⟨h1, h2⟩ := full_gc_after_delete_all_empty s
  simp [stats, h1, h2]

/-- `exists` is true exactly for the artifacts that can be read, in every reachable state -/
theorem exists_iff_readable (hi : HashInj h) (cfg : Cfg) (ops : List Op) (id : Nat) :
    existsArt (run h cfg State.init ops) id = true ↔ ∃ d, get (run h cfg State.init ops) id = .ok d := by
  have hw := WF_reach h hi cfg ops
  unfold existsArt get
  cases hf : find id (run h cfg State.init ops).arts with
  | none => simp
  | some a =>
    obtain ⟨d, h1, _⟩ := hw.intact (id, a) (find_some_mem hf)
    simp only [Option.isSome_some, true_iff]
    exact ⟨d, h1⟩

/-! ### the streaming reader -/

/-- `reader()` + `read_all()` is `get()`, in ANY state -/
theorem reader_read_all_is_get (s : State K) (id : Nat) :
    (match rOpen s id with | .error e => .error e | .ok r => (rAll s.chunks r).1) = get s id :=
  rAll_fresh_eq_get s id

/-- `BlobReader::verify`, at whatever position the reader stands (it rewinds), is `verify()` of its artifact as
    long as the metadata record is the one it was opened on — in ANY state, damaged ones included -/
theorem reader_verify_is_verify (s : State K) (id : Nat) (a : Art K) (r : Reader K)
    (hf : find id s.arts = some a) (hc : r.chunks = a.chunks) (hk : r.checksum = a.checksum) :
    (rVerify h s.chunks r).1 = verify h s id := by
  rw [rVerify_eq, hc, hk]
  unfold verify
  simp only [hf]
  cases readChunks s.chunks a.chunks <;> rfl

/-- A reader opened on an artifact written as `d` (after any history), then used through `read(buf)` with ANY
    buffer sizes (0 included) while ANY operations that do not delete that artifact run between the reads
    (other artifacts sharing its content deleted, every collector, repair, new writes): no read fails, and the
    bytes delivered so far followed by what the reader has left are exactly `d`. -/
theorem reader_session_delivers_written (hi : HashInj h) (cfg : Cfg) (ops₀ : List Op) (id : Nat) (d : List Nat)
    (r : Reader K) (evs : List (List Op × Nat))
    (hg : get (run h cfg State.init ops₀) id = .ok d) (ho : rOpen (run h cfg State.init ops₀) id = .ok r)
    (hnd : ∀ ev ∈ evs, ∀ op ∈ ev.1, op ≠ .delete id) :
    ∃ s' r' out, session h cfg (run h cfg State.init ops₀) r evs = .ok (s', r', out) ∧
      out ++ remaining s'.chunks r' = d := by
  have hw := WF_reach h hi cfg ops₀
  unfold get at hg
  cases hf : find id (run h cfg State.init ops₀).arts with
  | none => simp [hf] at hg
  | some a =>
    simp only [hf] at hg
    obtain ⟨r0, h1, h2, h3⟩ := rOpen_ok hf hg
    rw [h1] at ho
    simp only [Except.ok.injEq] at ho
    subst ho
    obtain ⟨s', r', bs, e1, _, _, _, e5⟩ := session_ok h hi cfg evs hw hf h2 h3 hnd
    refine ⟨s', r', bs, e1, ?_⟩
    have := ReaderOk_remaining e5
    simpa using this

/-- ... and a `read` with a non-empty buffer returns 0 bytes only at the true end: once that happens, the bytes
    delivered are exactly the bytes written (the loop `while read(buf) > 0` reads the whole artifact, for every
    buffer size, chunk size and data size) -/
theorem reader_eof_means_all_delivered (hi : HashInj h) (cfg : Cfg) (ops₀ : List Op) (id : Nat) (d : List Nat)
    (r : Reader K) (evs : List (List Op × Nat)) (s' : State K) (r' : Reader K) (out : List Nat) (n : Nat)
    (hg : get (run h cfg State.init ops₀) id = .ok d) (ho : rOpen (run h cfg State.init ops₀) id = .ok r)
    (hnd : ∀ ev ∈ evs, ∀ op ∈ ev.1, op ≠ .delete id)
    (hs : session h cfg (run h cfg State.init ops₀) r evs = .ok (s', r', out))
    (hpos : 0 < n) (heof : (rRead s'.chunks r' n).1 = .ok []) : out = d := by
  have hw := WF_reach h hi cfg ops₀
  unfold get at hg
  cases hf : find id (run h cfg State.init ops₀).arts with
  | none => simp [hf] at hg
  | some a =>
    simp only [hf] at hg
    obtain ⟨r0, h1, h2, h3⟩ := rOpen_ok hf hg
    rw [h1] at ho
    simp only [Except.ok.injEq] at ho
    subst ho
    obtain ⟨s2, r2, bs, e1, _, _, _, e5⟩ := session_ok h hi cfg evs hw hf h2 h3 hnd
    rw [e1] at hs
    simp only [Except.ok.injEq, Prod.mk.injEq] at hs
    obtain ⟨rfl, rfl, rfl⟩ := hs
    have hne : NE s2.chunks := by
      -- the final store of the session is reachable: it is `run` of the concatenated batches
      exact session_NE h cfg evs (NE_reach h cfg ops₀) e1
    have := rRead_eof hne e5 hpos heof
    simpa using this

/-! ### open streaming writers: sequential histories with writers that stay open across deletes and gc cycles -/

/-- In every state reachable by a sequential history with open writers (any operations, writers opened / written /
    finished / dropped in any order and left open across anything; `full_gc` / `repair` only while no writer is
    open — the known findings), a chunk's refcount covers its listings by finished artifacts PLUS one reference per
    occurrence in every open writer's chunk list: the reference is taken when the chunk is written. -/
theorem refs_cover_open_writers (hi : HashInj h) (cfg : Cfg) (ops : List WOp)
    (hq : collectorsQuiet h cfg WState.init ops = true) (k : K) :
    occ k (runW h cfg WState.init ops).st.arts + holds k (runW h cfg WState.init ops).writers
      ≤ refsOf k (runW h cfg WState.init ops).st.chunks :=
  (WFW_reach h hi cfg ops hq).refsW k

/-- A chunk an open writer has written is never removed by `gc_cycle` (any age threshold, any batch), whatever
    was deleted meanwhile: after ANY such history, for every open writer, every key of its list survives the
    cycle and the list still reads back as the bytes the writer has stored so far. -/
theorem open_writer_chunks_survive_gc (hi : HashInj h) (cfg : Cfg) (ops : List WOp)
    (hq : collectorsQuiet h cfg WState.init ops = true) (w : Nat) (wr : Writer K)
    (hw : find w (runW h cfg WState.init ops).writers = some wr) (mc : Nat) (sel : K → Bool) :
    (∀ k ∈ wr.chunks, (find k (gcSel mc sel (runW h cfg WState.init ops).st).1.chunks).isSome) ∧
    ∃ d, readChunks (gcSel mc sel (runW h cfg WState.init ops).st).1.chunks wr.chunks = .ok d ∧
      d ++ wr.buffer = writtenTo w ops := by
  have hx := WFW_reach h hi cfg ops hq
  have hh := hashed_reach h cfg w ops wr hw
  have hm := find_some_mem hw
  generalize runW h cfg WState.init ops = x at *
  obtain ⟨d, h1, h2, _⟩ := hx.wr (w, wr) hm
  have hfind : ∀ k ∈ wr.chunks, find k (gcSel mc sel x.st).1.chunks = find k x.st.chunks :=
    fun k hk => find_gcSel_of_refs hx.base.nodup mc sel (hx.writer_refs_pos h hm hk)
  refine ⟨fun k hk => ?_, d, ?_, ?_⟩
  · rw [hfind k hk]
    exact refsOf_pos_isSome (hx.writer_refs_pos h hm hk)
  · have hc : readChunks (gcSel mc sel x.st).1.chunks wr.chunks = readChunks x.st.chunks wr.chunks :=
      readChunks_congr (fun k hk => by unfold dataOf; rw [hfind k hk])
    rw [hc]; exact h1
  · rw [← hh]; exact h2

/-- A writer left open across ANY sequential history (deletes of the artifacts it shares chunks with, gc cycles,
    other writers, ...), then finished, then ANY further history that does not delete the new artifact:
    `get` returns exactly the bytes handed to the writer. -/
theorem finished_artifact_readable_after_any_sequential_history (hi : HashInj h) (cfg : Cfg)
    (ops₁ ops₂ : List WOp) (w t : Nat) (wr : Writer K)
    (hq : collectorsQuiet h cfg WState.init (ops₁ ++ .wfinish w t :: ops₂) = true)
    (hw : find w (runW h cfg WState.init ops₁).writers = some wr)
    (hnd : ∀ op ∈ ops₂, op ≠ .base (.delete (runW h cfg WState.init ops₁).st.next)) :
    get (runW h cfg WState.init (ops₁ ++ .wfinish w t :: ops₂)).st (runW h cfg WState.init ops₁).st.next
      = .ok (writtenTo w ops₁) := by
  obtain ⟨hq1, hq2⟩ := (collectorsQuiet_append h cfg WState.init ops₁ _).mp hq
  obtain ⟨_, hq3⟩ := (collectorsQuiet_cons h cfg _ _ ops₂).mp hq2
  have hx := WFW_reach h hi cfg ops₁ hq1
  have hh := hashed_reach h cfg w ops₁ wr hw
  rw [runW_append, runW_cons]
  generalize runW h cfg WState.init ops₁ = x at *
  have hstep : applyW h cfg x (.wfinish w t) = ⟨(wFinish h t x.st wr).1, erase w x.writers⟩ := by
    simp only [applyW, hw]
  rw [hstep] at hq3 ⊢
  obtain ⟨h1, _, h3, h4⟩ := wfinish_step h hi hx hw t
  rw [(runW_step h hi cfg ops₂ h1 hq3).2 x.st.next h3 hnd, h4, hh]

end

/-! ### witnesses and non-vacuity (keys = chunk bytes, `h = id`, as in the driver) -/

abbrev cfg2 : Cfg := ⟨2, none⟩
def hid : List Nat → List Nat := id
theorem hid_inj : HashInj hid := fun _ _ e => e

/-- `verify` hashes the concatenation only: moving a chunk boundary inside the store (two records altered
    at once, bytes of the artifact unchanged) is not reported.  The artifact still reads back correctly. -/
theorem verify_boundary_shift_undetected_witness :
    let s := (put hid cfg2 0 State.init [1, 2, 3, 4]).1
    let s' := corrupt (corrupt s [1, 2] [1]) [3, 4] [2, 3, 4]
    verify hid s' 0 = .ok true ∧ get s' 0 = .ok [1, 2, 3, 4] ∧ s'.chunks ≠ s.chunks := by decide

/-- API-level interleaving on one thread: a streaming writer has stored chunks but not yet its metadata;
    `full_gc` runs; the writer finishes successfully; the artifact cannot be read. -/
theorem open_writer_full_gc_witness :
    let s1 := wWrite hid 2 0 State.init Writer.new [1, 2, 3]
    let s2 := (fullGc s1.1).1
    let s3 := wFinish hid 0 s2 s1.2
    get s3.1 s3.2 = .error .chunkMissing := by decide

/-- the same with `repair` -/
theorem open_writer_repair_witness :
    let s1 := wWrite hid 2 0 State.init Writer.new [1, 2, 3]
    let s2 := (repair s1.1).1
    let s3 := wFinish hid 0 s2 s1.2
    get s3.1 s3.2 = .error .chunkMissing := by decide

/-- The full concurrent statement: for every interleaving of the store steps of any set of writers,
    deleters, `gc_cycle`s and `full_gc`s started on a reachable store, every existing artifact keeps all
    its chunks. -/
def ConcurrentNoLiveCollect : Prop :=
  ∀ (cfg : Cfg) (ops : List Op) (ths : List (Th (List Nat))) (sched : List Nat),
    (∀ th ∈ ths, th.isStart = true) →
    liveIntact (runSched hid (run hid cfg State.init ops) ths sched).1 = true

/-- it is FALSE of the current code: writer ∥ full_gc from the empty store -/
theorem concurrent_full_gc_vs_writer_witness : ¬ ConcurrentNoLiveCollect := by
  intro hc
  have := hc cfg2 [] [Th.writer 0 0 [[1]], Th.fullGc] [0, 0, 1, 1, 1, 1, 1, 1, 0] (by decide)
  revert this
  decide

/-- and no collector needs to overlap anything: two writers of the same content interleave their
    `exists`/`put` steps (refcount 1 for two references), one artifact is deleted, and a `gc_cycle` that
    starts after everybody else has finished removes the chunk of the surviving artifact -/
theorem concurrent_lost_update_witness :
    let ths : List (Th (List Nat)) := [Th.writer 0 0 [[1]], Th.writer 1 0 [[1]], Th.deleter 0, Th.gc 5]
    let before := runSched hid State.init ths [0, 1, 0, 1, 0, 1, 2, 2, 2, 2]
    let after := runSched hid before.1 before.2 [3, 3, 3, 3]
    (before.2.take 3).all Th.isDone = true ∧ liveIntact before.1 = true ∧
    refsOf [1] before.1.chunks = 0 ∧ occ [1] before.1.arts = 1 ∧
    after.2.all Th.isDone = true ∧ liveIntact after.1 = false := by decide

/-- Collectors against deleters are safe.  Any number of deleters of pairwise DIFFERENT artifacts, `gc_cycle`s
    (any age threshold) and `full_gc`s, freshly started on any reachable store, under EVERY interleaving of their
    individual `TensorStore` calls and EVERY order the scans may return: an artifact that no deleter is after
    reads back exactly the same bytes afterwards (so none of its chunks was collected or altered, whatever
    stale refcounts the deleters wrote back over each other).  With two deleters of the SAME artifact it is
    false (`concurrent_double_delete_witness`); with a writer next to a collector it is false
    (`calls_full_gc_vs_writer_witness`, `calls_gc_vs_writer_on_orphan_witness`, `calls_lost_update_witness`). -/
theorem concurrent_deleters_collectors_safe {K : Type} [DecidableEq K] (h : List Nat → K) (hi : HashInj h)
    (cfg : Cfg) (ops : List Op) (ths : List (Th K)) (sched : List Nat)
    (hst : ∀ th ∈ ths, th.isFreshNonWriter = true) (hd : (ths.filterMap target).Nodup)
    (id : Nat) (hid : ∀ th ∈ ths, target th ≠ some id) :
    get (runSched h (run h cfg State.init ops) ths sched).1 id = get (run h cfg State.init ops) id :=
  deleters_collectors_safe h (WF_reach h hi cfg ops).idsNodup (WF_reach h hi cfg ops).refs ths sched hst hd id hid

/-- ... and the same for the call-level runs the scheduled real threads are compared with -/
theorem calls_deleters_collectors_safe {K : Type} [DecidableEq K] (h : List Nat → K) (hi : HashInj h)
    (cfg : Cfg) (ops : List Op) (ths : List (Th K)) (sched : List Nat)
    (hst : ∀ th ∈ ths, th.isFreshNonWriter = true) (hd : (ths.filterMap target).Nodup)
    (id : Nat) (hid : ∀ th ∈ ths, target th ≠ some id) :
    get (runCalls h (run h cfg State.init ops) ths sched).1 id = get (run h cfg State.init ops) id := by
  obtain ⟨sched', e⟩ := runCalls_refines_aux h sched (run h cfg State.init ops) ths
  rw [← e]
  exact concurrent_deleters_collectors_safe h hi cfg ops ths sched' hst hd id hid

/-- PARTIAL (what is missing: collector threads next to WRITERS — that part is false of the current code, see
    the witnesses above; collectors next to deleters only are covered by `concurrent_deleters_collectors_safe`).
    For EVERY interleaving of the store steps of any number
    of writers, deleters and metadata updaters (`set_meta`, `update_metadata`, `tag`, `link`: get the record, put
    it back) — overlapping content, in any phase (`ThOk`: no `gc`/`full_gc` thread, keys a
    writer already pushed are present; freshly started threads qualify) — every existing artifact keeps all
    its chunks: without a collector no step ever removes a chunk record.  (Refcounts may still be lost,
    see `concurrent_lost_update_witness`; the damage needs a later collector.) -/
theorem concurrent_no_collector_partial {K : Type} [DecidableEq K] (h : List Nat → K)
    (s : State K) (ths : List (Th K)) (sched : List Nat)
    (hl : liveIntact s = true) (hth : ∀ th ∈ ths, ThOk h s th) :
    liveIntact (runSched h s ths sched).1 = true :=
  (liveIntact_iff _).mpr (runSched_safe h sched ((liveIntact_iff s).mp hl) hth).1

/-! ### call level: the runs compared with the real threads -/

/-- every call-level run (one schedule entry = one `TensorStore` call, the granularity of the yield-point hook;
    its call trace and final image are what the scheduled real threads are compared with) is a step-level run:
    what holds for all `runSched` schedules holds for it -/
theorem runCalls_refines {K : Type} [DecidableEq K] (h : List Nat → K) (s : State K) (ths : List (Th K))
    (sched : List Nat) : ∃ sched', runSched h s ths sched' = runCalls h s ths sched :=
  runCalls_refines_aux h sched s ths

abbrev cfg1 : Cfg := ⟨1, none⟩

/-- replayed on the real store (`conc.directed` lost-update-then-gc): two writers of the same content interleave
    `exists` / `put`; refcount 1 for two references; delete one artifact, `gc_cycle`: the other is unreadable -/
theorem calls_lost_update_witness :
    let ths : List (Th (List Nat)) := [Th.writer 0 900 [[1]], Th.writer 1 900 [[1]]]
    let r := runCalls hid State.init ths [0, 1, 0, 1, 0, 1]
    let s2 := (gcSel 1000 (fun _ => true) (delete r.1 0).1).1
    callTrace hid State.init ths [0, 1, 0, 1, 0, 1] =
      [some (.existsC [1]), some (.existsC [1]), some (.putC [1]), some (.putC [1]), some (.putM 0), some (.putM 1)] ∧
    r.2.all Th.isDone = true ∧ refsOf [1] r.1.chunks = 1 ∧ occ [1] r.1.arts = 2 ∧
    get s2 1 = .error .chunkMissing := by decide

/-- replayed on the real store (`conc.directed` full-gc-vs-writer) -/
theorem calls_full_gc_vs_writer_witness :
    let ths : List (Th (List Nat)) := [Th.writer 0 900 [[1]], Th.fullGc]
    let r := runCalls hid State.init ths [0, 0, 1, 1, 1, 1, 0]
    callTrace hid State.init ths [0, 0, 1, 1, 1, 1, 0] =
      [some (.existsC [1]), some (.putC [1]), some .scanM, some .scanC, some (.getC [1]), some (.delC [1]), some (.putM 0)] ∧
    r.2.all Th.isDone = true ∧ get r.1 0 = .error .chunkMissing := by decide

/-- replayed on the real store (`conc.directed` gc-vs-writer-on-orphan): `gc_cycle` has read `_refs == 0` on an
    old orphan, the writer re-references it, `gc_cycle` deletes it, the writer's artifact is unreadable -/
theorem calls_gc_vs_writer_on_orphan_witness :
    let s0 := run hid cfg1 State.init [.put 1 [1], .delete 0]
    let ths : List (Th (List Nat)) := [Th.writer 1 900 [[1]], Th.gc 500]
    let r := runCalls hid s0 ths [1, 1, 0, 0, 0, 1, 0]
    callTrace hid s0 ths [1, 1, 0, 0, 0, 1, 0] =
      [some .scanC, some (.getC [1]), some (.existsC [1]), some (.getC [1]), some (.putC [1]), some (.delC [1]), some (.putM 1)] ∧
    r.2.all Th.isDone = true ∧ get r.1 1 = .error .chunkMissing := by decide

/-- two deleters of the SAME artifact (no writer, no lost update): both read the metadata, both decrement every
    chunk; the chunk shared with another artifact drops to 0 references while that artifact exists, and a later
    `gc_cycle` removes it.  Replayed on the real store first on every run (`conc.directed` double-delete-then-gc) and
    reported as the known finding `tensor_blob.delete/double_decrement`; the harness files a failure under that
    class only for chunks whose `putC` appears for two deleter threads of the same artifact in the observed call
    trace (here: `putC [1]` by thread 0 and by thread 1).  Run one after the other the same two deleters are
    harmless (the `example` below; `conc.directed` double-delete-serial). -/
theorem concurrent_double_delete_witness :
    let s0 := run hid cfg1 State.init [.put 1 [1], .put 2 [1]]
    let ths : List (Th (List Nat)) := [Th.deleter 0, Th.deleter 0]
    let r := runCalls hid s0 ths [0, 1, 0, 0, 1, 1, 0, 1]
    let s2 := (gcSel 1000 (fun _ => true) r.1).1
    callTrace hid s0 ths [0, 1, 0, 0, 1, 1, 0, 1] =
      [some (.getM 0), some (.getM 0), some (.getC [1]), some (.putC [1]), some (.getC [1]), some (.putC [1]),
       some (.delM 0), some (.delM 0)] ∧
    refsOf [1] s0.chunks = 2 ∧ r.2.all Th.isDone = true ∧ refsOf [1] r.1.chunks = 0 ∧ occ [1] r.1.arts = 1 ∧
    get r.1 1 = .ok [1] ∧ get s2 1 = .error .chunkMissing := by decide

/-- control for `concurrent_double_delete_witness`: the second deleter starts after the first has removed the
    metadata record, reads nothing and decrements nothing; a1 survives the collection -/
example :
    let s0 := run hid cfg1 State.init [.put 1 [1], .put 2 [1]]
    let ths : List (Th (List Nat)) := [Th.deleter 0, Th.deleter 0]
    let r := runCalls hid s0 ths [0, 0, 0, 0, 1]
    let s2 := (gcSel 1000 (fun _ => true) r.1).1
    r.2.all Th.isDone = true ∧ refsOf [1] r.1.chunks = 1 ∧ get s2 1 = .ok [1] := by decide

/-- OUTSIDE the property's quantifier (it names writers and deleters), recorded because the consequence is a
    collected live chunk: a metadata update (`set_meta`: get the record, put it back) that overlaps a `delete` of
    the same artifact re-creates the metadata record after the deleter has decremented its chunks; the artifact
    exists again, its chunks have 0 references, the next `gc_cycle` removes them.  Replayed on the real store
    (`conc.directed` update-resurrects-deleted). -/
theorem concurrent_update_resurrects_deleted_witness :
    let s0 := run hid cfg1 State.init [.put 1 [1]]
    let ths : List (Th (List Nat)) := [Th.toucher 0, Th.deleter 0]
    let r := runCalls hid s0 ths [0, 1, 1, 1, 1, 0]
    let s2 := (gcSel 1000 (fun _ => true) r.1).1
    callTrace hid s0 ths [0, 1, 1, 1, 1, 0] =
      [some (.getM 0), some (.getM 0), some (.getC [1]), some (.putC [1]), some (.delM 0), some (.putM 0)] ∧
    r.2.all Th.isDone = true ∧ existsArt r.1 0 = true ∧ refsOf [1] r.1.chunks = 0 ∧ get r.1 0 = .ok [1] ∧
    existsArt s2 0 = true ∧ get s2 0 = .error .chunkMissing := by decide

/-! non-vacuity -/
-- two deleters of different artifacts, a gc_cycle and a full_gc on a store with shared chunks and an orphan
example : let ths : List (Th (List Nat)) := [Th.deleter 0, Th.deleter 1, Th.gc 5, Th.fullGc]
    (∀ th ∈ ths, th.isFreshNonWriter = true) ∧ (ths.filterMap target).Nodup ∧ (∀ th ∈ ths, target th ≠ some 2) := by decide
example : let s := run hid cfg1 State.init [.put 1 [1, 2], .put 1 [2, 3], .put 1 [3, 1], .abandon 1 [[9]]]
    let r := runSched hid s [Th.deleter 0, Th.deleter 1, Th.gc 5, Th.fullGc]
      [0, 1, 2, 3, 0, 1, 2, 3, 0, 1, 2, 3, 0, 1, 2, 3, 0, 1, 2, 3, 0, 1, 2, 3, 2, 3, 2, 3, 3, 3, 2, 2, 2, 3, 3, 3,
       2, 3, 2, 3, 2, 3, 2, 3]
    r.2.all Th.isDone = true ∧ get r.1 2 = .ok [3, 1] ∧ find [9] r.1.chunks = none ∧ r.1.arts.length = 1 := by decide
-- per-chunk verification: a stored record, and the boundary shift the whole-artifact checksum misses
example : find [1, 2] (run hid cfg2 State.init [.put 0 [1, 2, 3]]).chunks = some ⟨[1, 2], 2, 1, 0⟩ := by decide
example : let s := (put hid cfg2 0 State.init [1, 2, 3, 4]).1
    let s' := corrupt (corrupt s [1, 2] [1]) [3, 4] [2, 3, 4]
    verify hid s' 0 = .ok true ∧ verifyChunk hid s' [1, 2] = .ok false ∧ verifyChunk hid s' [3, 4] = .ok false ∧
    verifyChunk hid (dropChunk s [1, 2]) [1, 2] = .error .chunkMissing := by decide
example : let s := run hid cfg2 State.init [.put 0 [1, 2, 3]]
    ∀ k ∈ [[1, 2], [3]], verifyChunk hid { s with chunks := s.chunks } k = .ok true := by decide
example : let s := run hid cfg2 State.init [.put 0 [1, 2, 3], .put 0 [1, 2], .delete 0, .abandon 0 [[7, 7]]]
    findOrphaned s = [[3], [7, 7]] ∧ (stats s).orphaned = 1 ∧ stats s = ⟨1, 3, 2, 5, 1⟩ ∧
    (fullGc s).2.1 = 2 ∧ existsArt s 1 = true ∧ existsArt s 0 = false ∧
    checkChunksExist (dropChunk s [1, 2]) 1 = .ok [[1, 2]] := by decide
-- a read session: buffers 1, 3, 5, 2, 1 with deletes of a sharing artifact and every collector in between
example : let s := run hid cfg2 State.init [.put 0 [1, 2, 3, 4, 5], .put 0 [1, 2, 9]]
    let r : Reader (List Nat) := ⟨[[1, 2], [3, 4], [5]], 0, none, 0, 5, 0, [1, 2, 3, 4, 5]⟩
    rOpen s 0 = .ok r ∧ get s 0 = .ok [1, 2, 3, 4, 5] ∧
    (session hid cfg2 s r [([.delete 1, .gcAll 9 0], 1), ([.fullGc], 3), ([], 5), ([.repair], 2)]).map (·.2.2)
      = .ok [1, 2, 3, 4, 5] := by decide
example : let s := run hid cfg2 State.init [.put 0 [1, 2, 3]]
    let r : Reader (List Nat) := ⟨[[1, 2], [3]], 2, some [3], 1, 3, 3, [1, 2, 3]⟩
    (rRead s.chunks r 4).1 = .ok [] ∧ (rVerify hid s.chunks r).1 = .ok true ∧
    (rVerify hid (corrupt s [3] [4]).chunks r).1 = .ok false := by decide
example : ∀ th ∈ [Th.writer 0 0 [[1], [1]], Th.writer 1 0 [[1]], Th.deleter 0, Th.toucher 0],
    ThOk hid (State.init : State (List Nat)) th := by
  intro th hth
  simp only [List.mem_cons, List.not_mem_nil, or_false] at hth
  rcases hth with e | e | e | e <;> subst e <;> simp [Th.writer, Th.deleter, Th.toucher, ThOk]
example : HashInj hid := hid_inj
-- an abandoned writer leaves slack (refs 1, no artifact): `gc_cycle` never takes the record, `full_gc` does
example : let s := run hid cfg2 State.init [.abandon 0 [[1, 2, 3]]]
    refsOf [1, 2] s.chunks = 1 ∧ occ [1, 2] s.arts = 0 ∧
    (gcSel 100 (fun _ => true) s).1.chunks = s.chunks ∧ (fullGc s).1.chunks = [] := by decide
example : ∀ op ∈ [Op.put 0 [1, 2, 3], .stream 1 [[1], [2, 3, 4]], .delete 0, .gcAll 9 0, .repair], op.isAbandon = false := by decide
example : get (run hid cfg2 (put hid cfg2 0 (run hid cfg2 State.init [.put 0 [9, 9, 9]]) [1, 2, 3]).1
    [.delete 0, .gcAll 10 1, .fullGc, .repair]) 1 = .ok [1, 2, 3] :=
  read_returns_written hid hid_inj cfg2 [.put 0 [9, 9, 9]] [.delete 0, .gcAll 10 1, .fullGc, .repair] 0 [1, 2, 3] 1
    (by decide) (by decide)
example : (put hid cfg2 0 (run hid cfg2 State.init [.put 0 [9, 9, 9]]) [1, 2, 3]).2 = .ok 1 := by decide
example : (find [1, 2] (run hid cfg2 State.init [.put 0 [1, 2, 3], .delete 0]).chunks).isSome = true ∧
    find [1, 2] (gcSel 5 (fun _ => true) (run hid cfg2 State.init [.put 0 [1, 2, 3], .delete 0])).1.chunks = none := by decide
example : find 0 (run hid cfg2 State.init [.put 0 [1, 2, 3]]).arts = some ⟨[[1, 2], [3]], 3, [1, 2, 3]⟩ := by decide
example : (fullGc (deleteAll (run hid cfg2 State.init [.put 0 [1, 2, 3], .abandon 0 [[7, 7, 7]], .put 0 [1, 2]]))).1.chunks = [] := by decide

/-! ### open streaming writers: the deferred-increment variant, and non-vacuity of the open-writer theorems -/

/-- The deferred-increment variant (`storeChunkDeferredRefs`: an already existing chunk is only remembered and its
    reference taken in `finish()`) is NOT safe on the history of seeded change C19_2: artifact a0 = [1,2,3,4,5]
    (chunks [1,2] [3,4] [5]); a writer stores [1,2] [3,4] (both deduplicated) and stays open; a0 is deleted; a
    `gc_cycle` runs; the writer writes [5] and finishes successfully; the new artifact lists chunks that are
    gone. The current code (`wWrite`/`wFinish`, reference taken at write time) reads the same history back. -/
theorem deferred_refs_writer_loses_chunk_witness :
    let s0 := (put hid cfg2 1 State.init [1, 2, 3, 4, 5]).1
    -- the variant
    let v1 := wWriteDeferredRefs hid 2 2 s0 DWriter.new [1, 2, 3, 4]
    let v2 := (gcSel 100 (fun _ => true) (delete v1.1 0).1).1
    let v3 := wWriteDeferredRefs hid 2 5 v2 v1.2 [5]
    let v4 := wFinishDeferredRefs hid 6 v3.1 v3.2
    -- the current code
    let c1 := wWrite hid 2 2 s0 Writer.new [1, 2, 3, 4]
    let c2 := (gcSel 100 (fun _ => true) (delete c1.1 0).1).1
    let c3 := wWrite hid 2 5 c2 c1.2 [5]
    let c4 := wFinish hid 6 c3.1 c3.2
    refsOf [1, 2] v1.1.chunks = 1 ∧ refsOf [1, 2] c1.1.chunks = 2 ∧
    find [1, 2] v2.chunks = none ∧ (find [1, 2] c2.chunks).isSome = true ∧
    get v4.1 v4.2 = .error .chunkMissing ∧ verify hid v4.1 v4.2 = .error .chunkMissing ∧
    checkChunksExist v4.1 v4.2 = .ok [[1, 2], [3, 4]] ∧
    get c4.1 c4.2 = .ok [1, 2, 3, 4, 5] ∧ verify hid c4.1 c4.2 = .ok true := by decide

/-- control for `deferred_refs_writer_loses_chunk_witness`: the same history WITHOUT the `gc_cycle` — the variant
    reads back fine and ends in exactly the state of the current code (same records, same refcounts): only a
    collection that falls between the deduplicated write and `finish()` tells the two apart -/
example :
    let s0 := (put hid cfg2 1 State.init [1, 2, 3, 4, 5]).1
    let v1 := wWriteDeferredRefs hid 2 2 s0 DWriter.new [1, 2, 3, 4]
    let v3 := wWriteDeferredRefs hid 2 5 (delete v1.1 0).1 v1.2 [5]
    let v4 := wFinishDeferredRefs hid 6 v3.1 v3.2
    let c1 := wWrite hid 2 2 s0 Writer.new [1, 2, 3, 4]
    let c3 := wWrite hid 2 5 (delete c1.1 0).1 c1.2 [5]
    let c4 := wFinish hid 6 c3.1 c3.2
    get v4.1 v4.2 = .ok [1, 2, 3, 4, 5] ∧ verify hid v4.1 v4.2 = .ok true ∧ v4 = c4 ∧
    refsOf [1, 2] v4.1.chunks = 1 ∧ refsOf [3, 4] v4.1.chunks = 1 ∧ refsOf [5] v4.1.chunks = 1 := by decide

/-- the history of the witness as a `WOp` list: a writer open across the delete of the artifact it shares its
    chunks with and a `gc_cycle` -/
abbrev opsOpenWriter : List WOp :=
  [.base (.put 1 [1, 2, 3, 4, 5]), .wopen 0, .wwrite 0 2 [1, 2, 3, 4], .base (.delete 0), .base (.gcAll 100 0),
   .wwrite 0 5 [5]]

-- the hypotheses of the open-writer theorems hold on it; the writer's references are the only ones left
example : collectorsQuiet hid cfg2 WState.init opsOpenWriter = true := by decide
example : find 0 (runW hid cfg2 WState.init opsOpenWriter).writers = some ⟨[[1, 2], [3, 4]], 5, [1, 2, 3, 4, 5], [5]⟩ := by
  decide
example : writtenTo 0 opsOpenWriter = [1, 2, 3, 4, 5] := by decide
example : holds [1, 2] (runW hid cfg2 WState.init opsOpenWriter).writers = 1 ∧
    refsOf [1, 2] (runW hid cfg2 WState.init opsOpenWriter).st.chunks = 1 ∧
    occ [1, 2] (runW hid cfg2 WState.init opsOpenWriter).st.arts = 0 := by decide
-- `refs_cover_open_writers` / `open_writer_chunks_survive_gc` on it (one more gc_cycle over everything)
example : occ [1, 2] (runW hid cfg2 WState.init opsOpenWriter).st.arts + holds [1, 2] (runW hid cfg2 WState.init opsOpenWriter).writers
    ≤ refsOf [1, 2] (runW hid cfg2 WState.init opsOpenWriter).st.chunks :=
  refs_cover_open_writers hid hid_inj cfg2 opsOpenWriter (by decide) [1, 2]
example : ∃ d, readChunks (gcSel 1000 (fun _ => true) (runW hid cfg2 WState.init opsOpenWriter).st).1.chunks [[1, 2], [3, 4]] = .ok d ∧
    d ++ [5] = writtenTo 0 opsOpenWriter :=
  (open_writer_chunks_survive_gc hid hid_inj cfg2 opsOpenWriter (by decide) 0 ⟨[[1, 2], [3, 4]], 5, [1, 2, 3, 4, 5], [5]⟩
    (by decide) 1000 (fun _ => true)).2
-- finish, then another gc_cycle, a full_gc and a repair (no writer is open any more): the artifact reads back
example : get (runW hid cfg2 WState.init
      (opsOpenWriter ++ .wfinish 0 6 :: [.base (.gcAll 200 0), .base .fullGc, .base .repair])).st
    (runW hid cfg2 WState.init opsOpenWriter).st.next = .ok (writtenTo 0 opsOpenWriter) :=
  finished_artifact_readable_after_any_sequential_history hid hid_inj cfg2 opsOpenWriter
    [.base (.gcAll 200 0), .base .fullGc, .base .repair] 0 6 ⟨[[1, 2], [3, 4]], 5, [1, 2, 3, 4, 5], [5]⟩
    (by decide) (by decide) (by decide)
example : (runW hid cfg2 WState.init opsOpenWriter).st.next = 1 ∧
    get (runW hid cfg2 WState.init
      (opsOpenWriter ++ .wfinish 0 6 :: [.base (.gcAll 200 0), .base .fullGc, .base .repair])).st 1
      = .ok [1, 2, 3, 4, 5] := by decide
-- the hypothesis really excludes the known `full_gc` finding (`open_writer_full_gc_witness`): a `full_gc` /
-- `repair` while a writer is open is not a quiet history; after the writer has finished or been dropped it is
example : collectorsQuiet hid cfg2 WState.init [.wopen 0, .wwrite 0 0 [1, 2, 3], .base .fullGc] = false := by decide
example : collectorsQuiet hid cfg2 WState.init [.wopen 0, .wwrite 0 0 [1, 2, 3], .base .repair] = false := by decide
example : collectorsQuiet hid cfg2 WState.init
    [.wopen 0, .wwrite 0 0 [1, 2, 3], .wfinish 0 0, .base .fullGc, .wopen 1, .wdrop 1, .base .repair] = true := by decide

end Neumann.Blob.Props
