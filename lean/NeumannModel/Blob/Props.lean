import NeumannModel.Blob.Lemmas
namespace Neumann.Blob.Props
open Neumann.Blob

theorem chunks_concat (c : Nat) (hc : 0 < c) (d : List Nat) : (chunks c d).flatten = d :=
  chunks_flatten c hc d

end Neumann.Blob.Props
