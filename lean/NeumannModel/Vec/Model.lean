/-
  C06 — model of `vector_engine` similarity search (brute-force path, HNSW cache
  handling, named collections, metadata filters, metadata updates, batch stores,
  pagination, post-filtering of an index answer) and of the dense/sparse storage
  representation of `tensor_store::SparseVector`.  The approximate index itself
  (`tensor_store::HNSWIndex`) is modelled in `HnswModel.lean`.

  Import-free, total, computable.  Mirrors the Rust code branch by branch
  (file/line references are to /repo/vector_engine/src/lib.rs unless noted):
  the model describes the code that exists, including the places where it does
  not do what the property asks (post-filter search).  The unsuffixed definitions
  (`step`, `searchCore`, `searchCollFiltered`, ...) are the code with the fixes
  a71cd63e (every mutation invalidates the cached index), B1 (the cached index is
  consulted only for a query of the indexed dimension) and B2 (the collection
  pre-filter scores with the collection's metric); the code before those fixes is
  kept as `stepOld`, `searchCoreOld`, `searchCollFilteredOld`, ... for the
  regression witnesses.  `searchWithHnsw` is the explicit-index path with 733b279c (the query's
  dimension is checked against the index), `searchWithHnswOld` the code before it.  The
  storage-key layer (key prefixes, cache slot names; fix 4fa63773) is in `NsModel.lean`.

  Vectors are lists of `Int`: the correspondence harness drives the real engine
  with small integer-valued `f32` vectors, on which every `f32` product/sum the
  engine performs is exact, so the engine's ranking is a function of the exact
  integers below.  The storage representation (`fromDense`/`toDense`) is generic
  in the element type so that the same functions are also run on raw `f32` bit
  patterns (`bitsOps`).
-/
namespace Neumann.Vec

/-! ## 1. Storage representation (`SparseVector::from_dense` / `to_dense`) -/

/-- What the representation code needs to know about an element. -/
structure ElemOps (α : Type) where
  /-- the value `to_dense` fills absent positions with (`0.0`) -/
  zero : α
  /-- `val != 0.0` is false (sparse_vector.rs:225) -/
  isZero : α → Bool
  /-- `val.abs() > 1e-6` (lib.rs:1880, `should_use_sparse_with_threshold`) -/
  counts : α → Bool

/-- integer-valued elements -/
def intOps : ElemOps Int :=
  { zero := 0, isZero := fun x => x == 0, counts := fun x => x != 0 }

/-- raw IEEE-754 binary32 bit patterns (`Nat < 2^32`): `±0` are the only values with
    `val != 0.0` false; NaN is *kept* (`NaN != 0.0`), and `NaN.abs() > 1e-6` is false.
    `897988541 = 0x358637BD = bits(1e-6f32)`, `2139095040 = 0x7F800000 = bits(+inf)`. -/
def bitsOps : ElemOps Nat :=
  { zero := 0
    isZero := fun b => b % 2147483648 == 0
    counts := fun b => decide (897988541 < b % 2147483648) && decide (b % 2147483648 ≤ 2139095040) }

/-- `TensorValue::Vector(v)` or `TensorValue::Sparse(SparseVector{dimension, positions, values})`
    (the parallel arrays `positions`/`values` are kept zipped). -/
inductive Stored (α : Type) where
  | dense (v : List α)
  | sparse (dim : Nat) (entries : List (Nat × α))
  deriving DecidableEq

/-- sparse_vector.rs:224-229: keep `(i, val)` for every `val != 0.0`, in index order -/
def sparseEntries {α : Type} (ops : ElemOps α) : Nat → List α → List (Nat × α)
  | _, [] => []
  | i, x :: xs =>
    if ops.isZero x then sparseEntries ops (i + 1) xs
    else (i, x) :: sparseEntries ops (i + 1) xs

def fromDense {α : Type} (ops : ElemOps α) (v : List α) : Stored α :=
  .sparse v.length (sparseEntries ops 0 v)

/-- sparse_vector.rs:400-406: `vec![0.0; dimension]` then `dense[pos] = val` for each entry -/
def toDense {α : Type} (ops : ElemOps α) : Stored α → List α
  | .dense v => v
  | .sparse dim es => es.foldl (fun d e => d.set e.1 e.2) (List.replicate dim ops.zero)

def nnz {α : Type} (ops : ElemOps α) (v : List α) : Nat := (v.filter ops.counts).length

/-- lib.rs:1876-1885 with the default `sparse_threshold = 0.5`:
    `1.0 - nnz/len >= 0.5`, i.e. `2*nnz ≤ len` (exact in f32 for `len < 2^22`). -/
def shouldUseSparse {α : Type} (ops : ElemOps α) (v : List α) : Bool :=
  !v.isEmpty && decide (2 * nnz ops v ≤ v.length)

/-- the representation `store_embedding` chooses (lib.rs:1858-1862) -/
def mkRepr {α : Type} (ops : ElemOps α) (v : List α) : Stored α :=
  if shouldUseSparse ops v then fromDense ops v else .dense v

/-! ## 2. Scores and ranking -/

inductive Metric where
  | cosine | euclid | dot
  deriving DecidableEq

/-- Exact ingredients of a score.
    cosine: `p = q·v`, `r = |v|²` (score `p / (|q|·|v|)`, `0` when `r = 0`);
    dot:    `p = q·v`, `r = 0`;
    euclid: `p = |q - v|²`, `r = 0` (score `1/(1+√p)`). -/
structure Score where
  p : Int
  r : Int
  deriving DecidableEq

def dotI : List Int → List Int → Int
  | a :: as, b :: bs => a * b + dotI as bs
  | _, _ => 0

def normSq (v : List Int) : Int := dotI v v

def sqDist : List Int → List Int → Int
  | a :: as, b :: bs => (a - b) * (a - b) + sqDist as bs
  | _, _ => 0

/-- `compute_score` (lib.rs:2231-2246) -/
def score : Metric → List Int → List Int → Score
  | .cosine, q, v => ⟨dotI q v, normSq v⟩
  | .dot, q, v => ⟨dotI q v, 0⟩
  | .euclid, q, v => ⟨sqDist q v, 0⟩

/-- The ranking key as a fraction `keyNum / keyDen` with `keyDen > 0`; larger is better.
    cosine: `sign(p)·p²/r` (a strictly monotone function of `p/√r`; `|q|` is common to all
    candidates of one search and positive), `0` for a zero stored vector (lib.rs:2261). -/
def keyNum : Metric → Score → Int
  | .cosine, s => if s.r ≤ 0 then 0 else s.p * (s.p.natAbs : Int)
  | .dot, s => s.p
  | .euclid, s => - s.p

def keyDen : Metric → Score → Int
  | .cosine, s => if s.r ≤ 0 then 1 else s.r
  | .dot, _ => 1
  | .euclid, _ => 1

/-- `a` is at least as good as `b` (the engine sorts by `b.score.partial_cmp(&a.score)`) -/
def better (m : Metric) (a b : Score) : Bool :=
  decide (keyNum m b * keyDen m a ≤ keyNum m a * keyDen m b)

/-- stable insertion: `x` came before everything in the list, so it goes first among equals -/
def insBy {α : Type} (ge : α → α → Bool) (x : α) : List α → List α
  | [] => [x]
  | y :: ys => if ge x y then x :: y :: ys else y :: insBy ge x ys

/-- stable sort, best first (`results.sort_by(..)`, a stable sort; the order of the input is
    the store's scan order, which is unspecified — the harness compares tie classes) -/
def sortBy {α : Type} (ge : α → α → Bool) : List α → List α
  | [] => []
  | x :: xs => insBy ge x (sortBy ge xs)

/-! ## 3. Metadata filters (`evaluate_filter`, lib.rs:3592-3630; integer-valued fields only) -/

inductive Cmp where
  | eq | ne | lt | le | gt | ge
  deriving DecidableEq

inductive Filter where
  | tt
  | cmp (c : Cmp) (field : String) (v : Int)
  | ex (field : String)
  | isin (field : String) (vs : List Int)
  | and (a b : Filter)
  | or (a b : Filter)

def alGet {β : Type} (m : List (String × β)) (k : String) : Option β :=
  (m.find? (fun e => e.1 == k)).map (·.2)

def alHas {β : Type} (m : List (String × β)) (k : String) : Bool := m.any (fun e => e.1 == k)

/-- replace in place, or append -/
def alPut {β : Type} (m : List (String × β)) (k : String) (v : β) : List (String × β) :=
  if alHas m k then m.map (fun e => if e.1 == k then (k, v) else e) else m ++ [(k, v)]

def alDel {β : Type} (m : List (String × β)) (k : String) : List (String × β) :=
  m.filter (fun e => !(e.1 == k))

/-- change the value stored under `k` in place (read, modify, put back) -/
def alModify {β : Type} (m : List (String × β)) (k : String) (f : β → β) : List (String × β) :=
  m.map (fun e => if e.1 == k then (e.1, f e.2) else e)

def cmpHolds : Cmp → Int → Int → Bool
  | .eq, a, b => a == b
  | .ne, a, b => a != b
  | .lt, a, b => decide (a < b)
  | .le, a, b => decide (a ≤ b)
  | .gt, a, b => decide (a > b)
  | .ge, a, b => decide (a ≥ b)

def evalFilter (md : List (String × Int)) : Filter → Bool
  | .tt => true
  | .cmp c f v => match alGet md f with
      | some x => cmpHolds c x v
      | none => false
  | .ex f => alHas md f
  | .isin f vs => match alGet md f with
      | some x => vs.any (fun v => x == v)
      | none => false
  | .and a b => evalFilter md a && evalFilter md b
  | .or a b => evalFilter md a || evalFilter md b

def Filter.isTrue : Filter → Bool
  | .tt => true
  | _ => false

/-! ## 4. Engine state -/

structure Item where
  repr : Stored Int
  md : List (String × Int)

/-- what `get_embedding` / `extract_vector` read back -/
def vecOf (it : Item) : List Int := toDense intOps it.repr

def mkItem (v : List Int) (md : List (String × Int)) : Item := ⟨mkRepr intOps v, md⟩

abbrev Items := List (String × Item)

/-- the data an HNSW index was built from: node id `i` ↦ `(key, vector)` -/
abbrev Snap := List (String × List Int)

def snapOf (items : Items) : Snap := items.map (fun e => (e.1, vecOf e.2))

structure Coll where
  items : Items
  /-- `hnsw_cache[collection]` -/
  cache : Option Snap

def Coll.empty : Coll := ⟨[], none⟩

/-- `VectorCollectionConfig` (dimension, distance_metric) -/
structure Config where
  dim : Option Nat
  metric : Metric

structure State where
  /-- `emb:` keys, cache entry `_default` -/
  dflt : Coll
  /-- `coll:<name>:emb:` keys, cache entry `<name>`; data exists independently of a config -/
  named : List (String × Coll)
  /-- `collections` map -/
  configs : List (String × Config)

def State.init : State := ⟨Coll.empty, [], []⟩

def collOf (st : State) (c : String) : Coll := (alGet st.named c).getD Coll.empty

def setColl (st : State) (c : String) (x : Coll) : State := { st with named := alPut st.named c x }

inductive Err where
  | emptyVector | invalidTopK | dimMismatch | notFound | collExists | collNotFound | unsupported
  /-- `BatchValidationError` (an input of `batch_store_embeddings` has an empty vector) -/
  | batchValidation
  deriving DecidableEq

/-- `for (field, value) in metadata { tensor.set(meta:field, value) }` -/
def mergeMeta (old new : List (String × Int)) : List (String × Int) :=
  new.foldl (fun acc e => alPut acc e.1 e.2) old

/-- state-changing operations -/
inductive Op where
  /-- `store_embedding` -/
  | store (key : String) (v : List Int)
  /-- `store_embedding_with_metadata` -/
  | storeMeta (key : String) (v : List Int) (md : List (String × Int))
  /-- `delete_embedding` -/
  | delete (key : String)
  /-- `batch_delete_embeddings` -/
  | batchDelete (keys : List String)
  /-- `clear` -/
  | clear
  /-- `build_and_cache_index` -/
  | build
  /-- `create_collection` -/
  | createColl (c : String) (cfg : Config)
  /-- `delete_collection` -/
  | dropColl (c : String)
  /-- `store_in_collection_with_metadata` -/
  | cstore (c : String) (key : String) (v : List Int) (md : List (String × Int))
  /-- `delete_from_collection` -/
  | cdelete (c : String) (key : String)
  /-- build an HNSW index over the collection's current vectors and `cache_hnsw_index(c, ..)` -/
  | cbuild (c : String)
  /-- `invalidate_hnsw_cache("_default")` (`none`) / `invalidate_hnsw_cache(c)` -/
  | invalidate (c : Option String)
  /-- `update_metadata` (merge the given fields into the stored metadata) -/
  | updateMeta (key : String) (md : List (String × Int))
  /-- `remove_metadata_field` -/
  | removeMetaField (key : String) (field : String)
  /-- `batch_store_embeddings` (below `batch_parallel_threshold`: stored one after the other) -/
  | batchStore (inputs : List (String × List Int))

inductive Resp where
  | ok
  | okRepr (r : Stored Int)
  | okN (n : Nat)
  | err (e : Err)

/-- the collection's configured metric, cosine when there is no config (lib.rs:1614-1616) -/
def cfgMetric (st : State) (c : String) : Metric :=
  match alGet st.configs c with
  | some cfg => cfg.metric
  | none => .cosine

def sameDims (items : Items) : Bool :=
  match items with
  | [] => true
  | e :: rest => rest.all (fun x => (vecOf x.2).length == (vecOf e.2).length)

def step (st : State) : Op → State × Resp
  | .store key vec =>
    -- lib.rs:1840-1868
    if vec.isEmpty then (st, .err .emptyVector)
    else
      let it := mkItem vec []
      ({ st with dflt := ⟨alPut st.dflt.items key it, none⟩ }, .okRepr it.repr)
  | .storeMeta key vec md =>
    -- lib.rs:3272-3317: `invalidate_hnsw_cache("_default")` after the put
    if vec.isEmpty then (st, .err .emptyVector)
    else
      let it := mkItem vec md
      ({ st with dflt := ⟨alPut st.dflt.items key it, none⟩ }, .okRepr it.repr)
  | .delete key =>
    -- lib.rs:1915-1925
    if alHas st.dflt.items key then
      ({ st with dflt := ⟨alDel st.dflt.items key, none⟩ }, .ok)
    else (st, .err .notFound)
  | .batchDelete keys =>
    -- lib.rs:2927-2947: `if deleted > 0 { invalidate_hnsw_cache("_default") }`
    let present := (keys.eraseDups.filter (fun k => alHas st.dflt.items k)).length
    ({ st with dflt := ⟨keys.foldl alDel st.dflt.items, if present = 0 then st.dflt.cache else none⟩ },
      .okN present)
  | .clear =>
    -- lib.rs:2341-2357: `if count > 0 { invalidate_hnsw_cache("_default") }`
    ({ st with dflt := ⟨[], if st.dflt.items.length = 0 then st.dflt.cache else none⟩ },
      .okN st.dflt.items.length)
  | .build =>
    -- lib.rs:1330-1334, 2423-2470: all vectors must have the first one's dimension
    if sameDims st.dflt.items then
      ({ st with dflt := ⟨st.dflt.items, some (snapOf st.dflt.items)⟩ }, .okN st.dflt.items.length)
    else (st, .err .dimMismatch)
  | .createColl c cfg =>
    -- lib.rs:1369-1377
    if alHas st.configs c then (st, .err .collExists)
    else ({ st with configs := alPut st.configs c cfg }, .ok)
  | .dropColl c =>
    -- lib.rs:1385-1403: removes config and data, then `invalidate_hnsw_cache(c)`
    if alHas st.configs c then
      ({ setColl st c ⟨[], none⟩ with configs := alDel st.configs c }, .ok)
    else (st, .err .collNotFound)
  | .cstore c key vec md =>
    -- lib.rs:1447-1499
    if vec.isEmpty then (st, .err .emptyVector)
    else
      let dimOk := match alGet st.configs c with
        | some cfg => (match cfg.dim with
            | some d => vec.length == d
            | none => true)
        | none => true
      if dimOk then
        let it := mkItem vec md
        (setColl st c ⟨alPut (collOf st c).items key it, none⟩, .okRepr it.repr)
      else (st, .err .dimMismatch)
  | .cdelete c key =>
    -- lib.rs:1526-1534
    if alHas (collOf st c).items key then
      (setColl st c ⟨alDel (collOf st c).items key, none⟩, .ok)
    else (st, .err .notFound)
  | .cbuild c =>
    -- harness-level operation (there is no engine API that builds a collection index): only
    -- issued for collections whose metric is cosine, the metric of a default `HNSWConfig`
    let x := collOf st c
    if cfgMetric st c != .cosine then (st, .err .unsupported)
    else if sameDims x.items then
      (setColl st c ⟨x.items, some (snapOf x.items)⟩, .okN x.items.length)
    else (st, .err .dimMismatch)
  | .invalidate none =>
    -- lib.rs:1321-1323
    ({ st with dflt := ⟨st.dflt.items, none⟩ }, .ok)
  | .invalidate (some c) =>
    (setColl st c ⟨(collOf st c).items, none⟩, .ok)
  | .updateMeta key md =>
    -- lib.rs:3361-3380: read the tensor, set every given `meta:` field, put it back.  The vector
    -- is untouched and the cached index is NOT invalidated (it holds vectors only; filters are
    -- always evaluated on the store).
    if alHas st.dflt.items key then
      ({ st with dflt := ⟨alModify st.dflt.items key (fun it => ⟨it.repr, mergeMeta it.md md⟩), st.dflt.cache⟩ }, .ok)
    else (st, .err .notFound)
  | .removeMetaField key field =>
    -- lib.rs:3388-3398: `tensor.remove(meta:field)` (absent field: no change), put back; no invalidation
    if alHas st.dflt.items key then
      ({ st with dflt := ⟨alModify st.dflt.items key (fun it => ⟨it.repr, alDel it.md field⟩), st.dflt.cache⟩ }, .ok)
    else (st, .err .notFound)
  | .batchStore inputs =>
    -- lib.rs:2876-2924: empty batch: nothing; every input is validated BEFORE anything is stored;
    -- then `store_embedding` for each input in order (each one invalidates the cached index)
    if inputs.isEmpty then (st, .okN 0)
    else if inputs.any (fun e => e.2.isEmpty) then (st, .err .batchValidation)
    else
      ({ st with dflt := ⟨inputs.foldl (fun items e => alPut items e.1 (mkItem e.2 [])) st.dflt.items, none⟩ },
        .okN inputs.length)

def run : State → List Op → State
  | st, [] => st
  | st, op :: ops => run (step st op).1 ops

/-- The code BEFORE a71cd63e: `store_embedding_with_metadata`, `batch_delete_embeddings`, `clear`
    and `delete_collection` changed the data without invalidating the cached index; every other
    operation is unchanged. -/
def stepOld (st : State) : Op → State × Resp
  | .storeMeta key vec md =>
    if vec.isEmpty then (st, .err .emptyVector)
    else
      let it := mkItem vec md
      ({ st with dflt := ⟨alPut st.dflt.items key it, st.dflt.cache⟩ }, .okRepr it.repr)
  | .batchDelete keys =>
    let present := (keys.eraseDups.filter (fun k => alHas st.dflt.items k)).length
    ({ st with dflt := ⟨keys.foldl alDel st.dflt.items, st.dflt.cache⟩ }, .okN present)
  | .clear =>
    ({ st with dflt := ⟨[], st.dflt.cache⟩ }, .okN st.dflt.items.length)
  | .dropColl c =>
    if alHas st.configs c then
      ({ setColl st c ⟨[], (collOf st c).cache⟩ with configs := alDel st.configs c }, .ok)
    else (st, .err .collNotFound)
  | op => step st op

def runOld : State → List Op → State
  | st, [] => st
  | st, op :: ops => runOld (stepOld st op).1 ops

/-! ## 5. Searches (read-only) -/

/-- one scored candidate; `pass` = the metadata filter accepts it (true when unfiltered) -/
structure Cand where
  key : String
  score : Score
  pass : Bool
  deriving DecidableEq

def candBetter (m : Metric) (a b : Cand) : Bool := better m a.score b.score

/-- brute-force candidate list: stored vectors of the query's dimension (lib.rs:2126, 1665) -/
def passes (md : List (String × Int)) : Option Filter → Bool
  | none => true
  | some f => evalFilter md f

def candidates (items : Items) (m : Metric) (q : List Int) (f : Option Filter) : List Cand :=
  items.filterMap fun e =>
    if (vecOf e.2).length = q.length then some ⟨e.1, score m q (vecOf e.2), passes e.2.md f⟩
    else none

def rank (m : Metric) (cs : List Cand) : List Cand := sortBy (candBetter m) cs

inductive SearchOut where
  | err (e : Err)
  /-- zero-magnitude query: `Ok(vec![])` -/
  | zeroQuery
  /-- brute force. `ranked` = every candidate, best first; the answer is
      `((ranked.take cut).filter pass).take k` (`cut = k` and all `pass` unless post-filtering) -/
  | ranked (m : Metric) (rs : List Cand) (cut k : Nat)
  /-- the cached HNSW index was consulted: the answer is some approximate selection from
      `snap`; `rs` = every indexed vector of the query's dimension with its true cosine score
      (the index is built with the default `HNSWDistanceMetric::Cosine`), best first -/
  | viaIndex (snap : Snap) (rs : List Cand) (cut k : Nat)
  /-- ONLY produced by the pre-B1 code (`searchCoreOld`): the cached index was consulted with a
      query of another dimension than the indexed vectors: `index.search` was handed the query
      unchecked and either panicked (shorter query) or scored a prefix of the query against
      vectors of the wrong dimension (longer query).  The outcome is left unspecified. -/
  | indexDimMismatch (snap : Snap)
  deriving DecidableEq

def SearchOut.answer : SearchOut → List Cand
  | .ranked _ rs cut k => ((rs.take cut).filter (·.pass)).take k
  | _ => []

/-- candidates of an index snapshot, with the filter evaluated on the *current* store
    (`evaluate_filter_for_key`: false for a key that no longer exists) -/
def snapCands (snap : Snap) (cur : Items) (q : List Int) (f : Option Filter) : List Cand :=
  snap.filterMap fun e =>
    if e.2.length = q.length then
      some ⟨e.1, score .cosine q e.2, match f with
        | none => true
        | some f => (match alGet cur e.1 with
            | some it => evalFilter it.md f
            | none => false)⟩
    else none

/-- the guard in front of `index.search` (lib.rs:1627-1629, 1983-1985 with B1):
    `!mapping.is_empty() && index.get_vector(0).is_some_and(|v| v.len() == query.len())` -/
def indexUsable (s : Snap) (q : List Int) : Bool :=
  match s with
  | [] => false
  | e :: _ => e.2.length == q.length

/-- the part shared by `search_similar` (lib.rs:1978-2040) and `search_in_collection`
    (lib.rs:1623-1690) after the argument checks: the cached index when there is one, it is not
    empty and it indexes vectors of the query's dimension; brute force otherwise -/
def searchCore (x : Coll) (m : Metric) (q : List Int) (f : Option Filter) (cut k : Nat) : SearchOut :=
  match x.cache with
  | some s =>
    if indexUsable s q then .viaIndex s (rank .cosine (snapCands s x.items q f)) cut k
    else .ranked m (rank m (candidates x.items m q f)) cut k
  | none => .ranked m (rank m (candidates x.items m q f)) cut k

/-- the same BEFORE B1: only `!mapping.is_empty()` was checked -/
def searchCoreOld (x : Coll) (m : Metric) (q : List Int) (f : Option Filter) (cut k : Nat) : SearchOut :=
  match x.cache with
  | some s =>
    if s.isEmpty then .ranked m (rank m (candidates x.items m q f)) cut k
    else if s.any (fun e => e.2.length != q.length) then .indexDimMismatch s
    else .viaIndex s (rank .cosine (snapCands s x.items q f)) cut k
  | none => .ranked m (rank m (candidates x.items m q f)) cut k

/-- `search_similar` (cosine, cache-aware) -/
def searchDefault (st : State) (q : List Int) (k : Nat) : SearchOut :=
  if q.isEmpty then .err .emptyVector
  else if k = 0 then .err .invalidTopK
  else if normSq q = 0 then .zeroQuery
  else searchCore st.dflt .cosine q none k k

/-- `search_similar` before B1 -/
def searchDefaultOld (st : State) (q : List Int) (k : Nat) : SearchOut :=
  if q.isEmpty then .err .emptyVector
  else if k = 0 then .err .invalidTopK
  else if normSq q = 0 then .zeroQuery
  else searchCoreOld st.dflt .cosine q none k k

/-- `total_needed.min(top_k)` with `total_needed = skip + limit.unwrap_or(top_k)` (lib.rs:3009-3012;
    the additions saturate at `usize::MAX`, far above any value here) -/
def pagedK (k skip : Nat) (limit : Option Nat) : Nat := min (skip + limit.getD k) k

/-- `results.into_iter().skip(skip)` then `.take(limit)` when a limit is given (lib.rs:3020-3025) -/
def pageOf {α : Type} (skip : Nat) (limit : Option Nat) (l : List α) : List α :=
  match limit with
  | some n => (l.drop skip).take n
  | none => l.drop skip

/-- `search_similar_paginated` (lib.rs:3002-3033): the inner `search_similar(query, pagedK ..)`;
    the page handed out is `pageOf skip limit` of its answer (`skip + limit = 0` makes the inner
    `top_k` zero: `InvalidTopK`) -/
def searchPaged (st : State) (q : List Int) (k skip : Nat) (limit : Option Nat) : SearchOut :=
  searchDefault st q (pagedK k skip limit)

/-- `search_similar_with_metric` (never consults the cache; lib.rs:2049-2101) -/
def searchMetric (st : State) (m : Metric) (q : List Int) (k : Nat) : SearchOut :=
  if q.isEmpty then .err .emptyVector
  else if k = 0 then .err .invalidTopK
  else if normSq q = 0 && m != .euclid then .zeroQuery
  else .ranked m (rank m (candidates st.dflt.items m q none)) k k

inductive Strategy where
  | auto | pre | post
  deriving DecidableEq

/-- selectivity sample (first `min 100 n` keys in scan order) against the default threshold 0.1:
    `matches/sample < 0.1` ⇔ `10·matches < sample` -/
def sampleSaysPre (items : Items) (f : Filter) : Bool :=
  let n := min 100 items.length
  decide (10 * ((items.take n).filter (fun e => evalFilter e.2.md f)).length < n)

/-- `choose_filter_strategy` (lib.rs:3480-3511) -/
def chooseDefault (items : Items) (f : Filter) : Strategy :=
  if f.isTrue then .post
  else if items.length = 0 then .post
  else if sampleSaysPre items f then .pre else .post

def oversampleK (k os : Nat) : Nat := max (k * os) k

/-- `search_similar_filtered` (lib.rs:3429-3579) -/
def searchFiltered (st : State) (q : List Int) (k : Nat) (f : Filter) (strat : Strategy) (os : Nat) :
    SearchOut :=
  if q.isEmpty then .err .emptyVector
  else if k = 0 then .err .invalidTopK
  else
    let s := match strat with
      | .auto => chooseDefault st.dflt.items f
      | other => other
    match s with
    | .post =>
      -- `search_similar(query, oversample_k)` then filter, then `.take(top_k)`
      if normSq q = 0 then .zeroQuery
      else searchCore st.dflt .cosine q (some f) (oversampleK k os) k
    | _ =>
      -- pre-filter: cosine over the matching keys only
      if normSq q = 0 then .zeroQuery
      else .ranked .cosine (rank .cosine ((candidates st.dflt.items .cosine q (some f)).filter (·.pass))) k k

def cfgDimOk (st : State) (c : String) (q : List Int) : Bool :=
  match alGet st.configs c with
  | some cfg => (match cfg.dim with
      | some d => q.length == d
      | none => true)
  | none => true

/-- `search_in_collection` (lib.rs:1585-1689) -/
def searchColl (st : State) (c : String) (q : List Int) (k : Nat) : SearchOut :=
  if q.isEmpty then .err .emptyVector
  else if k = 0 then .err .invalidTopK
  else if !cfgDimOk st c q then .err .dimMismatch
  else if normSq q = 0 && cfgMetric st c == .cosine then .zeroQuery
  else searchCore (collOf st c) (cfgMetric st c) q none k k

/-- `search_filtered_in_collection` (lib.rs:1699-1833 with B2).  Auto has no special case for
    `True`; a zero query answers nothing only under cosine; the pre-filter branch scores with the
    collection's configured metric (`compute_score`); the post-filter branch goes through
    `search_in_collection` (collection metric, cache-aware). -/
def searchCollFiltered (st : State) (c : String) (q : List Int) (k : Nat) (f : Filter)
    (strat : Strategy) (os : Nat) : SearchOut :=
  if q.isEmpty then .err .emptyVector
  else if k = 0 then .err .invalidTopK
  else if !cfgDimOk st c q then .err .dimMismatch
  else if normSq q = 0 && cfgMetric st c == .cosine then .zeroQuery
  else
    let x := collOf st c
    let m := cfgMetric st c
    let s := match strat with
      | .auto => if x.items.length = 0 then Strategy.post
                 else if sampleSaysPre x.items f then Strategy.pre else Strategy.post
      | other => other
    match s with
    | .post => searchCore x m q (some f) (oversampleK k os) k
    | _ => .ranked m (rank m ((candidates x.items m q (some f)).filter (·.pass))) k k

/-- the same BEFORE B2 (and B1): a zero query answered nothing for every metric and the
    pre-filter branch scored with cosine whatever the collection's metric was -/
def searchCollFilteredOld (st : State) (c : String) (q : List Int) (k : Nat) (f : Filter)
    (strat : Strategy) (os : Nat) : SearchOut :=
  if q.isEmpty then .err .emptyVector
  else if k = 0 then .err .invalidTopK
  else if !cfgDimOk st c q then .err .dimMismatch
  else if normSq q = 0 then .zeroQuery
  else
    let x := collOf st c
    let s := match strat with
      | .auto => if x.items.length = 0 then Strategy.post
                 else if sampleSaysPre x.items f then Strategy.pre else Strategy.post
      | other => other
    match s with
    | .post => searchCoreOld x (cfgMetric st c) q (some f) (oversampleK k os) k
    | _ => .ranked .cosine (rank .cosine ((candidates x.items .cosine q (some f)).filter (·.pass))) k k

/-! ### the Auto strategy of `search_filtered_in_collection` with the store scan made explicit

  `store.scan(prefix)` returns the collection's keys in an order the engine does not control
  (hash order).  The Auto arm looks at the first `min 100 n` of them; the pre-filter arm then
  scans the prefix AGAIN and walks every key.  `scan` below is the key list of the first scan,
  any list at all; `cap` is the sample size (the code: `sampleCap`). -/

/-- `100.min(keys.len())` -/
def sampleCap : Nat := 100

/-- the decision of the Auto arm (lib.rs:1743-1776) on the key list `scan`:
    `sample_size = min cap scan.length`, `matches` = sampled keys whose current entry satisfies the
    filter (`store.get(k).map(evaluate_filter).unwrap_or(false)`), pre-filter iff
    `matches / sample_size < 0.1` (f32; on these ranges ⇔ `10·matches < sample_size`) -/
def autoStrategyOn (cap : Nat) (items : Items) (scan : List String) (f : Filter) : Strategy :=
  let n := min cap scan.length
  if n = 0 then .post
  else
    let hits := ((scan.take n).filter fun key =>
      match alGet items key with
      | some it => evalFilter it.md f
      | none => false).length
    if 10 * hits < n then .pre else .post

/-- `search_filtered_in_collection` (lib.rs:1699-1833) as a function of the key list `scan` its
    selectivity estimate saw.  Only the DECISION reads `scan`; the pre-filter arm walks a fresh
    scan of the prefix, i.e. every stored item of the collection. -/
def searchCollFilteredOn (cap : Nat) (scan : List String) (st : State) (c : String) (q : List Int)
    (k : Nat) (f : Filter) (strat : Strategy) (os : Nat) : SearchOut :=
  if q.isEmpty then .err .emptyVector
  else if k = 0 then .err .invalidTopK
  else if !cfgDimOk st c q then .err .dimMismatch
  else if normSq q = 0 && cfgMetric st c == .cosine then .zeroQuery
  else
    let x := collOf st c
    let m := cfgMetric st c
    let s := match strat with
      | .auto => autoStrategyOn cap x.items scan f
      | other => other
    match s with
    | .post => searchCore x m q (some f) (oversampleK k os) k
    | _ => .ranked m (rank m ((candidates x.items m q (some f)).filter (·.pass))) k k

/-- the items a key list names, in that order (what walking `scan` with `store.get` sees) -/
def itemsOfKeys (items : Items) (keys : List String) : Items :=
  keys.filterMap fun key => (alGet items key).map fun it => (key, it)

/-- VARIANT (not the code): the key list of the estimate is truncated to the sample and the
    pre-filter arm chosen by Auto reuses it instead of scanning the prefix again — it scores the
    sampled keys only.  Explicit strategies and Auto choosing post-filter are as in the code. -/
def searchCollFilteredPreFilterOnSampleOnly (cap : Nat) (scan : List String) (st : State) (c : String)
    (q : List Int) (k : Nat) (f : Filter) (strat : Strategy) (os : Nat) : SearchOut :=
  if q.isEmpty then .err .emptyVector
  else if k = 0 then .err .invalidTopK
  else if !cfgDimOk st c q then .err .dimMismatch
  else if normSq q = 0 && cfgMetric st c == .cosine then .zeroQuery
  else
    let x := collOf st c
    let m := cfgMetric st c
    match strat with
    | .post => searchCore x m q (some f) (oversampleK k os) k
    | .pre => .ranked m (rank m ((candidates x.items m q (some f)).filter (·.pass))) k k
    | .auto =>
      match autoStrategyOn cap x.items scan f with
      | .post => searchCore x m q (some f) (oversampleK k os) k
      | _ =>
        let sampled := itemsOfKeys x.items (scan.take (min cap scan.length))
        .ranked m (rank m ((candidates sampled m q (some f)).filter (·.pass))) k k

/-- The engine's post-processing of what `index.search(query, k)` returned (lib.rs:1981-1998):
    node ids are mapped through the key list (`filter_map(mapping.get(idx))`), sorted by score,
    truncated.  `ann` = the raw `(node id, score)` pairs, whatever the index produced. -/
def postProcessAnn (snap : Snap) (ann : List (Nat × Score)) (k : Nat) : List Cand :=
  (rank .cosine (ann.filterMap fun a => (snap[a.1]?).map fun e => ⟨e.1, a.2, true⟩)).take k

/-- the same with the index contract "the score reported for node `i` is the true cosine score
    of vector `i`" built in: only the ids come from the index -/
def annWithTrueScores (snap : Snap) (q : List Int) (ids : List Nat) : List (Nat × Score) :=
  ids.filterMap fun i => (snap[i]?).map fun e => (i, score .cosine q e.2)

/-- `search_with_post_filter` when `search_similar(query, oversample_k)` answered from the cached
    index (lib.rs:3575-3594): the post-processed index answer (`cut` = `oversample_k` entries at
    most), each entry flagged with `evaluate_filter_for_key` on the CURRENT store ... -/
def postFilterCands (snap : Snap) (cur : Items) (ann : List (Nat × Score)) (cut : Nat) (f : Filter) :
    List Cand :=
  (postProcessAnn snap ann cut).map fun c =>
    { c with pass := match alGet cur c.key with
        | some it => evalFilter it.md f
        | none => false }

/-- ... `.filter(..).take(top_k)` -/
def postFilterAnn (snap : Snap) (cur : Items) (ann : List (Nat × Score)) (cut k : Nat) (f : Filter) :
    List Cand :=
  ((postFilterCands snap cur ann cut f).filter (·.pass)).take k

/-! ## 5b. The explicit-index entry points -/

/-- `build_hnsw_index` (lib.rs:2392-2484): all vectors must have the first one's dimension; node
    id `i` ↦ `(key_mapping[i], vector)`.  Nothing is cached. -/
def buildIndex (st : State) : Option Snap :=
  if sameDims st.dflt.items then some (snapOf st.dflt.items) else none

/-- `search_with_hnsw(index, key_mapping, query, top_k)` (lib.rs:2530-2575, with 733b279c) for an
    index over `snap`: the query is compared with `index.get_vector(0)` and refused with
    `DimensionMismatch` when the lengths differ; otherwise `index.search` is consulted and its
    node ids mapped through `key_mapping`.  (There is no zero-query shortcut on this path.)
    `search_with_hnsw_and_metric` (lib.rs:2585-2653) has the same argument checks and the same
    guard in front of `index.search`; its re-ranking under an `ExtendedDistanceMetric` is not
    modelled. -/
def searchWithHnsw (snap : Snap) (q : List Int) (k : Nat) : SearchOut :=
  if q.isEmpty then .err .emptyVector
  else if k = 0 then .err .invalidTopK
  else
    match snap with
    | e :: _ =>
      if e.2.length != q.length then .err .dimMismatch
      else .viaIndex snap (rank .cosine (snapCands snap [] q none)) k k
    | [] => .viaIndex [] [] k k

/-- the same BEFORE 733b279c: the query went to `index.search` unchecked -/
def searchWithHnswOld (snap : Snap) (q : List Int) (k : Nat) : SearchOut :=
  if q.isEmpty then .err .emptyVector
  else if k = 0 then .err .invalidTopK
  else if snap.any (fun e => e.2.length != q.length) then .indexDimMismatch snap
  else .viaIndex snap (rank .cosine (snapCands snap [] q none)) k k

/-! ## 6. Reads -/

def getDefault (st : State) (key : String) : Option (List Int) := (alGet st.dflt.items key).map vecOf

def getColl (st : State) (c key : String) : Option (List Int) :=
  (alGet (collOf st c).items key).map vecOf

end Neumann.Vec
