import NeumannModel.Vec.HnswModel
import NeumannModel.Vec.Lemmas
/- Helper lemmas for the HNSW index properties (C06, `HnswProps.lean`). -/
namespace Neumann.Vec.Hnsw
open Neumann.Vec

/-- Well-formed graph: every neighbour id is a node that has the layer it is linked on; the
    entry point is present iff the graph is non-empty, is a node, and has every layer up to
    `maxLayer`; every node has at least layer 0. -/
def WF (g : Graph) : Prop :=
  (∀ id layer x, x ∈ g.nbrs id layer → x < g.size ∧ layer < g.layersOf x) ∧
  (∀ e, g.entry = some e → e < g.size ∧ g.maxLayer < g.layersOf e) ∧
  (g.entry = none → g.size = 0) ∧
  (∀ id, id < g.size → 0 < g.layersOf id)

/-! ### 1. the binary heaps -/

theorem swap_perm {α : Type} (l : List α) (i j : Nat) : (swap l i j).Perm l := by
  unfold swap
  split
  · rename_i h; exact List.set_set_perm h.1 h.2
  · exact List.Perm.refl _

theorem swap_length {α : Type} (l : List α) (i j : Nat) : (swap l i j).length = l.length :=
  (swap_perm l i j).length_eq

theorem siftUpF_perm {α : Type} (le : α → α → Bool) (fuel : Nat) (l : List α) (pos : Nat) :
    (siftUpF le fuel l pos).Perm l := by
  induction fuel generalizing l pos with
  | zero => exact List.Perm.refl _
  | succ n ih =>
    rw [siftUpF]
    split
    · exact List.Perm.refl _
    · split
      · split
        · exact List.Perm.refl _
        · exact (ih _ _).trans (swap_perm _ _ _)
      · exact List.Perm.refl _

theorem siftDownF_perm {α : Type} (le : α → α → Bool) (endn fuel : Nat) (l : List α) (pos : Nat) :
    (siftDownF le endn fuel l pos).1.Perm l := by
  induction fuel generalizing l pos with
  | zero => exact List.Perm.refl _
  | succ n ih =>
    rw [siftDownF]
    split
    · exact (ih _ _).trans (swap_perm _ _ _)
    · split
      · exact swap_perm _ _ _
      · exact List.Perm.refl _

theorem hpush_perm {α : Type} (le : α → α → Bool) (l : List α) (x : α) : (hpush le l x).Perm (x :: l) := by
  unfold hpush siftUp
  exact (siftUpF_perm _ _ _ _).trans (List.perm_append_comm.trans (List.Perm.refl _))

theorem hpop_perm {α : Type} (le : α → α → Bool) (l : List α) (t : α) (r : List α)
    (h : hpop le l = some (t, r)) : (t :: r).Perm l := by
  unfold hpop at h
  split at h
  · cases h
  · rename_i item hlast
    obtain ⟨ys, rfl⟩ := List.getLast?_eq_some_iff.mp hlast
    rw [List.dropLast_concat] at h
    split at h
    · simp only [Option.some.injEq, Prod.mk.injEq] at h
      obtain ⟨rfl, rfl⟩ := h
      exact List.Perm.refl _
    · rename_i top rest
      simp only [Option.some.injEq, Prod.mk.injEq] at h
      obtain ⟨rfl, rfl⟩ := h
      refine List.Perm.cons _ ?_
      unfold siftUp siftDown
      refine (siftUpF_perm _ _ _ _).trans ((siftDownF_perm _ _ _ _ _).trans ?_)
      exact (List.perm_append_comm (l₁ := [item]) (l₂ := rest))

theorem hpop_none_iff {α : Type} (le : α → α → Bool) (l : List α) : hpop le l = none ↔ l = [] := by
  constructor
  · intro h
    unfold hpop at h
    split at h
    · rename_i hl; exact List.getLast?_eq_none_iff.mp hl
    · split at h <;> cases h
  · rintro rfl; rfl

theorem hpop_length {α : Type} (le : α → α → Bool) (l : List α) (t : α) (r : List α)
    (h : hpop le l = some (t, r)) : r.length + 1 = l.length := by
  have := (hpop_perm le l t r h).length_eq
  simpa using this

theorem hpush_length {α : Type} (le : α → α → Bool) (l : List α) (x : α) :
    (hpush le l x).length = l.length + 1 := by
  have := (hpush_perm le l x).length_eq
  simpa using this

/-! fuel irrelevance -/
theorem siftUpF_fuel {α : Type} (le : α → α → Bool) (f1 f2 : Nat) (l : List α) (pos : Nat)
    (h1 : pos < f1) (h2 : pos < f2) : siftUpF le f1 l pos = siftUpF le f2 l pos := by
  induction f1 generalizing f2 l pos with
  | zero => omega
  | succ n ih =>
    cases f2 with
    | zero => omega
    | succ m =>
      rw [siftUpF, siftUpF]
      split
      · rfl
      · split
        · split
          · rfl
          · exact ih _ _ _ (by omega) (by omega)
        · rfl

theorem siftDownF_fuel {α : Type} (le : α → α → Bool) (endn f1 f2 : Nat) (l : List α) (pos : Nat)
    (h1 : endn ≤ pos + f1) (h2 : endn ≤ pos + f2) :
    siftDownF le endn f1 l pos = siftDownF le endn f2 l pos := by
  induction f1 generalizing f2 l pos with
  | zero =>
    cases f2 with
    | zero => rfl
    | succ m =>
      rw [siftDownF, siftDownF]
      rw [if_neg (by omega), if_neg (by omega)]
  | succ n ih =>
    cases f2 with
    | zero =>
      rw [siftDownF, siftDownF]
      rw [if_neg (by omega), if_neg (by omega)]
    | succ m =>
      rw [siftDownF, siftDownF]
      split
      · have := pickChild_ge le l (2 * pos + 1)
        exact ih _ _ _ (by omega) (by omega)
      · rfl

/-! ### 2. greedy descent -/

theorem greedyF_fuel (g : Graph) (dist : Nat → Nat) (layer f1 f2 cur curD : Nat)
    (h1 : curD < f1) (h2 : curD < f2) :
    greedyF g dist layer f1 cur curD = greedyF g dist layer f2 cur curD := by
  induction f1 generalizing f2 cur curD with
  | zero => omega
  | succ n ih =>
    cases f2 with
    | zero => omega
    | succ m =>
      rw [greedyF, greedyF]
      split
      · exact ih _ _ _ (by omega) (by omega)
      · rfl

/-- `x` is a node of `g` that has layer `L` -/
def Usable (g : Graph) (x L : Nat) : Prop := x < g.size ∧ L < g.layersOf x

theorem Usable.mono {g : Graph} {x L L' : Nat} (h : Usable g x L) (hl : L' ≤ L) : Usable g x L' :=
  ⟨h.1, Nat.lt_of_le_of_lt hl h.2⟩

theorem greedyPass_fst (dist : Nat → Nat) (nbrs : List Nat) (cur curD : Nat) :
    (greedyPass dist nbrs cur curD).1 = cur ∨ (greedyPass dist nbrs cur curD).1 ∈ nbrs := by
  unfold greedyPass
  generalize hacc : (cur, curD) = acc
  have : cur = acc.1 := by rw [← hacc]
  rw [this]
  clear this hacc
  induction nbrs generalizing acc with
  | nil => exact Or.inl rfl
  | cons nb rest ih =>
    rw [List.foldl_cons]
    rcases ih (if dist nb < acc.2 then (nb, dist nb) else acc) with h | h
    · rw [h]
      split
      · exact Or.inr (List.mem_cons_self ..)
      · exact Or.inl rfl
    · exact Or.inr (List.mem_cons_of_mem _ h)

theorem greedyF_usable (g : Graph) (hg : WF g) (dist : Nat → Nat) (layer fuel cur curD : Nat)
    (h : Usable g cur layer) : Usable g (greedyF g dist layer fuel cur curD) layer := by
  induction fuel generalizing cur curD with
  | zero => exact h
  | succ n ih =>
    rw [greedyF]
    split
    · apply ih
      rcases greedyPass_fst dist (g.nbrs cur layer) cur curD with h1 | h1
      · rw [h1]; exact h
      · exact hg.1 _ _ _ h1
    · exact h

theorem layersDesc_mem {lo hi l : Nat} (h : l ∈ layersDesc lo hi) : lo ≤ l ∧ l ≤ hi := by
  unfold layersDesc at h
  rw [List.mem_reverse, List.mem_range'_1] at h
  omega

theorem layersDesc_pairwise (lo hi : Nat) : (layersDesc lo hi).Pairwise (fun a b => b < a) := by
  unfold layersDesc
  rw [List.pairwise_reverse]
  exact List.pairwise_lt_range'

theorem descend_fold_usable (g : Graph) (hg : WF g) (dist : Nat → Nat) (ls : List Nat) (cur m : Nat)
    (hp : ls.Pairwise (fun a b => b < a)) (hm : ∀ l ∈ ls, m ≤ l)
    (hu : ∀ l ∈ ls, Usable g cur l) (hum : Usable g cur m) :
    Usable g (ls.foldl (fun c layer => greedy g dist layer c (dist c)) cur) m := by
  induction ls generalizing cur with
  | nil => exact hum
  | cons L rest ih =>
    rw [List.foldl_cons]
    have hp' := List.pairwise_cons.mp hp
    have h1 : Usable g (greedy g dist L cur (dist cur)) L :=
      greedyF_usable g hg dist L _ cur _ (hu L (List.mem_cons_self ..))
    apply ih _ hp'.2
    · intro l hl; exact hm l (List.mem_cons_of_mem _ hl)
    · intro l hl; exact h1.mono (Nat.le_of_lt (hp'.1 l hl))
    · exact h1.mono (hm L (List.mem_cons_self ..))

theorem descend_usable (g : Graph) (hg : WF g) (dist : Nat → Nat) (cur lo hi : Nat)
    (h : Usable g cur hi) : Usable g (descend g dist cur lo hi) (min lo hi) := by
  unfold descend
  apply descend_fold_usable g hg dist _ cur _ (layersDesc_pairwise lo hi)
  · intro l hl; have := layersDesc_mem hl; omega
  · intro l hl; exact h.mono (layersDesc_mem hl).2
  · exact h.mono (Nat.min_le_right ..)

/-! ### the layer search -/

theorem trim_sub (ef fuel : Nat) (r : List Nb) : ∃ d, (d ++ trim ef fuel r).Perm r := by
  induction fuel generalizing r with
  | zero => exact ⟨[], List.Perm.refl _⟩
  | succ n ih =>
    rw [trim]
    split
    · split
      · rename_i t r' hp
        obtain ⟨d, hd⟩ := ih r'
        refine ⟨t :: d, ?_⟩
        exact (List.Perm.cons t hd).trans (hpop_perm _ _ _ _ hp)
      · exact ⟨[], List.Perm.refl _⟩
    · exact ⟨[], List.Perm.refl _⟩

theorem trim_subset (ef fuel : Nat) (r : List Nb) : trim ef fuel r ⊆ r := by
  obtain ⟨d, hd⟩ := trim_sub ef fuel r
  intro x hx
  exact hd.subset (List.mem_append_right _ hx)

theorem trim_nodup (ef fuel : Nat) (r : List Nb) (h : (r.map (·.1)).Nodup) :
    ((trim ef fuel r).map (·.1)).Nodup := by
  obtain ⟨d, hd⟩ := trim_sub ef fuel r
  have h2 := (hd.map (·.1)).nodup_iff.mpr h
  rw [List.map_append] at h2
  exact (List.nodup_append.mp h2).2.1

theorem trim_ne_nil (ef fuel : Nat) (r : List Nb) (hef : 0 < ef) (h : r ≠ []) : trim ef fuel r ≠ [] := by
  induction fuel generalizing r with
  | zero => exact h
  | succ n ih =>
    rw [trim]
    split
    · split
      · rename_i t r' hp
        apply ih
        have := hpop_length _ _ _ _ hp
        intro h0
        rw [h0] at this
        simp only [List.length_nil] at this
        omega
      · exact h
    · exact h

structure LInv (g : Graph) (dist : Nat → Nat) (ef layer : Nat) (s : LState) : Prop where
  vnodup : s.visited.Nodup
  vus : ∀ x ∈ s.visited, Usable g x layer
  res : ∀ x ∈ s.results, x.1 ∈ s.visited ∧ x.2 = dist x.1
  cand : ∀ x ∈ s.cands, x.1 ∈ s.visited ∧ x.2 = dist x.1
  rnodup : (s.results.map (·.1)).Nodup
  rne : 0 < ef → s.results ≠ []

/-- the termination measure of `layerLoop` -/
def mu (g : Graph) (s : LState) : Nat := s.cands.length + (g.size - s.visited.length)

theorem nodup_bound (l : List Nat) (n : Nat) (hn : l.Nodup) (hb : ∀ x ∈ l, x < n) : l.length ≤ n := by
  have := List.Nodup.length_le_of_subset hn (l₂ := List.range n) (by
    intro x hx; exact List.mem_range.mpr (hb x hx))
  simpa using this

theorem ite_bool_prop {α : Type} {P : α → Prop} (c : Bool) (a b : α) (ha : P a) (hb : P b) :
    P (if c = true then a else b) := by
  cases c
  · exact hb
  · exact ha

theorem ite_bool_some {α : Type} (c : Bool) (a b : Option α) (x : α)
    (h : (if c = true then a else b) = some x) : a = some x ∨ b = some x := by
  cases c
  · exact Or.inr h
  · exact Or.inl h

theorem visit_inv (g : Graph) (dist : Nat → Nat) (ef layer : Nat) (s : LState) (nb : Nat)
    (hs : LInv g dist ef layer s) (hnb : Usable g nb layer) :
    LInv g dist ef layer (visit dist ef s nb) ∧ mu g (visit dist ef s nb) ≤ mu g s := by
  unfold visit
  split
  · exact ⟨hs, Nat.le_refl _⟩
  · rename_i hc
    have hnv : nb ∉ s.visited := by
      intro hm; exact hc (List.contains_iff_mem.mpr hm)
    have hnd : (nb :: s.visited).Nodup := List.nodup_cons.mpr ⟨hnv, hs.vnodup⟩
    have hvu : ∀ x ∈ nb :: s.visited, Usable g x layer := by
      intro x hx
      rcases List.mem_cons.mp hx with rfl | hx
      · exact hnb
      · exact hs.vus x hx
    have hlen : s.visited.length + 1 ≤ g.size := by
      have := nodup_bound (nb :: s.visited) g.size hnd (fun x hx => (hvu x hx).1)
      simpa using this
    dsimp only
    refine ite_bool_prop (P := fun t => LInv g dist ef layer t ∧ mu g t ≤ mu g s) _ _ _ ?_ ?_
    · refine ⟨⟨hnd, hvu, ?_, ?_, ?_, ?_⟩, ?_⟩
      · intro x hx
        have hx1 := trim_subset _ _ _ hx
        have hx2 := (hpush_perm leMax s.results (nb, dist nb)).subset hx1
        rcases List.mem_cons.mp hx2 with rfl | hx2
        · exact ⟨List.mem_cons_self .., rfl⟩
        · exact ⟨List.mem_cons_of_mem _ (hs.res x hx2).1, (hs.res x hx2).2⟩
      · intro x hx
        have hx2 := (hpush_perm leMin s.cands (nb, dist nb)).subset hx
        rcases List.mem_cons.mp hx2 with rfl | hx2
        · exact ⟨List.mem_cons_self .., rfl⟩
        · exact ⟨List.mem_cons_of_mem _ (hs.cand x hx2).1, (hs.cand x hx2).2⟩
      · apply trim_nodup
        refine ((hpush_perm leMax s.results (nb, dist nb)).map (·.1)).nodup_iff.mpr ?_
        rw [List.map_cons]
        refine List.nodup_cons.mpr ⟨?_, hs.rnodup⟩
        intro hm
        obtain ⟨y, hy, hy1⟩ := List.mem_map.mp hm
        have hy2 : y.1 = nb := hy1
        exact hnv (hy2 ▸ (hs.res y hy).1)
      · intro hef
        apply trim_ne_nil _ _ _ hef
        intro h0
        have := hpush_length leMax s.results (nb, dist nb)
        rw [h0] at this
        simp at this
      · unfold mu
        simp only [hpush_length, List.length_cons]
        omega
    · refine ⟨⟨hnd, hvu, ?_, ?_, hs.rnodup, hs.rne⟩, ?_⟩
      · intro x hx; exact ⟨List.mem_cons_of_mem _ (hs.res x hx).1, (hs.res x hx).2⟩
      · intro x hx; exact ⟨List.mem_cons_of_mem _ (hs.cand x hx).1, (hs.cand x hx).2⟩
      · unfold mu
        simp only [List.length_cons]
        omega

theorem fold_visit_inv (g : Graph) (dist : Nat → Nat) (ef layer : Nat) (nbrs : List Nat) (s : LState)
    (hs : LInv g dist ef layer s) (hnb : ∀ x ∈ nbrs, Usable g x layer) :
    LInv g dist ef layer (nbrs.foldl (visit dist ef) s) ∧ mu g (nbrs.foldl (visit dist ef) s) ≤ mu g s := by
  induction nbrs generalizing s with
  | nil => exact ⟨hs, Nat.le_refl _⟩
  | cons nb rest ih =>
    rw [List.foldl_cons]
    have h1 := visit_inv g dist ef layer s nb hs (hnb nb (List.mem_cons_self ..))
    have h2 := ih _ h1.1 (fun x hx => hnb x (List.mem_cons_of_mem _ hx))
    exact ⟨h2.1, Nat.le_trans h2.2 h1.2⟩

theorem pop_inv (g : Graph) (dist : Nat → Nat) (ef layer : Nat) (s : LState) (cur : Nb) (cands' : List Nb)
    (hs : LInv g dist ef layer s) (hp : hpop leMin s.cands = some (cur, cands')) :
    LInv g dist ef layer { s with cands := cands' } ∧ mu g { s with cands := cands' } + 1 = mu g s := by
  refine ⟨⟨hs.vnodup, hs.vus, hs.res, ?_, hs.rnodup, hs.rne⟩, ?_⟩
  · intro x hx
    exact hs.cand x ((hpop_perm _ _ _ _ hp).subset (List.mem_cons_of_mem _ hx))
  · have := hpop_length _ _ _ _ hp
    unfold mu
    simp only
    omega

theorem layerLoop_inv (g : Graph) (hg : WF g) (dist : Nat → Nat) (ef layer fuel : Nat) (s s' : LState)
    (hs : LInv g dist ef layer s) (h : layerLoop g dist ef layer fuel s = some s') :
    LInv g dist ef layer s' := by
  induction fuel generalizing s with
  | zero => simp [layerLoop] at h
  | succ n ih =>
    rw [layerLoop] at h
    split at h
    · cases h; exact hs
    · rename_i cur cands' hp
      have hpi := pop_inv g dist ef layer s cur cands' hs hp
      dsimp only at h
      rcases ite_bool_some _ _ _ _ h with h | h
      · cases h; exact hpi.1
      · exact ih _ (fold_visit_inv g dist ef layer _ _ hpi.1 (fun x hx => hg.1 _ _ _ hx)).1 h

theorem layerLoop_some (g : Graph) (hg : WF g) (dist : Nat → Nat) (ef layer fuel : Nat) (s : LState)
    (hs : LInv g dist ef layer s) (hf : mu g s + 1 ≤ fuel) :
    (layerLoop g dist ef layer fuel s).isSome = true := by
  induction fuel generalizing s with
  | zero => omega
  | succ n ih =>
    rw [layerLoop]
    split
    · rfl
    · rename_i cur cands' hp
      have hpi := pop_inv g dist ef layer s cur cands' hs hp
      dsimp only
      refine ite_bool_prop (P := fun (t : Option LState) => t.isSome = true) _ _ _ rfl ?_
      have hf2 := fold_visit_inv g dist ef layer (g.nbrs cur.1 layer) _ hpi.1 (fun x hx => hg.1 _ _ _ hx)
      exact ih _ hf2.1 (by omega)

theorem init_inv (g : Graph) (dist : Nat → Nat) (ef layer entry : Nat) (he : Usable g entry layer) :
    LInv g dist ef layer ⟨[entry], [(entry, dist entry)], [(entry, dist entry)]⟩ := by
  refine ⟨by simp, ?_, ?_, ?_, by simp, by simp⟩
  · intro x hx; simp only [List.mem_singleton] at hx; subst hx; exact he
  · intro x hx; simp only [List.mem_singleton] at hx; subst hx; exact ⟨List.mem_singleton.mpr rfl, rfl⟩
  · intro x hx; simp only [List.mem_singleton] at hx; subst hx; exact ⟨List.mem_singleton.mpr rfl, rfl⟩

theorem layerLoop_terminates_usable (g : Graph) (h : WF g) (dist : Nat → Nat) (entry ef layer : Nat)
    (he : Usable g entry layer) :
    (layerLoop g dist ef layer (g.size + 1)
      ⟨[entry], [(entry, dist entry)], [(entry, dist entry)]⟩).isSome = true := by
  apply layerLoop_some g h dist ef layer _ _ (init_inv g dist ef layer entry he)
  have := he.1
  unfold mu
  simp only [List.length_cons, List.length_nil]
  omega

theorem byDist_total (a b : Nb) : byDist a b = true ∨ byDist b a = true := by
  unfold byDist; simp only [decide_eq_true_eq]; omega

theorem byDist_trans (a b c : Nb) (h1 : byDist a b = true) (h2 : byDist b c = true) : byDist a c = true := by
  unfold byDist at *; simp only [decide_eq_true_eq] at *; omega

theorem searchLayer_spec (g : Graph) (hg : WF g) (dist : Nat → Nat) (entry ef layer : Nat)
    (he : Usable g entry layer) :
    ((searchLayer g dist entry ef layer).map (·.1)).Nodup ∧
    (∀ x ∈ searchLayer g dist entry ef layer, Usable g x.1 layer ∧ x.2 = dist x.1) ∧
    (searchLayer g dist entry ef layer).Pairwise (fun a b => a.2 ≤ b.2) ∧
    (0 < ef → searchLayer g dist entry ef layer ≠ []) := by
  have ht := layerLoop_terminates_usable g hg dist entry ef layer he
  unfold searchLayer
  cases hl : layerLoop g dist ef layer (g.size + 1)
      ⟨[entry], [(entry, dist entry)], [(entry, dist entry)]⟩ with
  | none => rw [hl] at ht; cases ht
  | some s =>
    have hs := layerLoop_inv g hg dist ef layer _ _ s (init_inv g dist ef layer entry he) hl
    have hperm := sortBy_perm byDist s.results
    dsimp only
    refine ⟨?_, ?_, ?_, ?_⟩
    · exact ((hperm.map (·.1)).nodup_iff).mpr hs.rnodup
    · intro x hx
      have hx' := hperm.subset hx
      exact ⟨hs.vus _ (hs.res x hx').1, (hs.res x hx').2⟩
    · have := sortBy_sorted byDist byDist_total byDist_trans s.results
      refine this.imp ?_
      intro a b hab
      unfold byDist at hab
      simpa using hab
    · intro hef h0
      have := hperm.length_eq
      rw [h0] at this
      have h1 := hs.rne hef
      cases hr : s.results with
      | nil => exact h1 hr
      | cons a b => rw [hr] at this; simp at this


/-! ### 3. graph updates -/

/-- `g'` has the same nodes-with-layers skeleton, entry point and top layer as `g` -/
def Same (g g' : Graph) : Prop :=
  g'.size = g.size ∧ (∀ x, g'.layersOf x = g.layersOf x) ∧ g'.entry = g.entry ∧ g'.maxLayer = g.maxLayer

theorem Same.refl (g : Graph) : Same g g := ⟨rfl, fun _ => rfl, rfl, rfl⟩

theorem Same.trans {a b c : Graph} (h1 : Same a b) (h2 : Same b c) : Same a c :=
  ⟨h2.1.trans h1.1, fun x => (h2.2.1 x).trans (h1.2.1 x), h2.2.2.1.trans h1.2.2.1, h2.2.2.2.trans h1.2.2.2⟩

theorem Same.usable {a b : Graph} (h : Same a b) {x L : Nat} (hu : Usable a x L) : Usable b x L := by
  unfold Usable at *
  rw [h.1, h.2.1 x]
  exact hu

theorem sortNat_mem (l : List Nat) (x : Nat) : x ∈ sortNat l ↔ x ∈ l :=
  (sortBy_perm _ l).mem_iff

theorem setNbrs_same (g : Graph) (id layer : Nat) (ids : List Nat) : Same g (setNbrs g id layer ids) := by
  refine ⟨?_, ?_, rfl, rfl⟩
  · simp only [setNbrs, Graph.size, List.length_modify]
  · intro x
    simp only [setNbrs, Graph.layersOf, List.getD_eq_getElem?_getD, List.getElem?_modify]
    cases g.nodes[x]? with
    | none => rfl
    | some ls =>
      simp only [Option.map_eq_map, Option.map_some, Option.getD_some]
      split
      · exact List.length_set
      · rfl

theorem mem_setNbrs_nbrs (g : Graph) (id layer : Nat) (ids : List Nat) (id' layer' x : Nat)
    (h : x ∈ (setNbrs g id layer ids).nbrs id' layer') :
    x ∈ g.nbrs id' layer' ∨ (layer' = layer ∧ x ∈ ids) := by
  simp only [setNbrs, Graph.nbrs, List.getD_eq_getElem?_getD, List.getElem?_modify] at h ⊢
  cases hn : g.nodes[id']? with
  | none => rw [hn] at h; simp at h
  | some ls =>
    rw [hn] at h
    simp only [Option.map_eq_map, Option.map_some, Option.getD_some] at h ⊢
    split at h
    · rw [List.getElem?_set] at h
      split at h
      · rename_i hl
        split at h
        · simp only [Option.getD_some] at h
          exact Or.inr ⟨hl.symm, (sortNat_mem _ _).mp h⟩
        · simp at h
      · exact Or.inl h
    · exact Or.inl h

theorem setNbrs_wf (g : Graph) (id layer : Nat) (ids : List Nat) (hg : WF g)
    (hids : ∀ x ∈ ids, Usable g x layer) : WF (setNbrs g id layer ids) := by
  have hs := setNbrs_same g id layer ids
  refine ⟨?_, ?_, ?_, ?_⟩
  · intro id' layer' x hx
    apply hs.usable
    rcases mem_setNbrs_nbrs g id layer ids id' layer' x hx with h | ⟨rfl, h⟩
    · exact hg.1 _ _ _ h
    · exact hids x h
  · intro e he
    rw [hs.2.2.1] at he
    rw [hs.1, hs.2.2.2, hs.2.1]
    exact hg.2.1 e he
  · intro he
    rw [hs.2.2.1] at he
    rw [hs.1]
    exact hg.2.2.1 he
  · intro x hx
    rw [hs.1] at hx
    rw [hs.2.1]
    exact hg.2.2.2 x hx

theorem prune_mem (pd : Nat → Nat → Nat) (m nb : Nat) (ids : List Nat) (x : Nat)
    (h : x ∈ prune pd m nb ids) : x ∈ ids := by
  unfold prune at h
  obtain ⟨y, hy, rfl⟩ := List.mem_map.mp h
  have h1 := (sortBy_perm byDist _).subset (List.mem_of_mem_take hy)
  obtain ⟨z, hz, rfl⟩ := List.mem_map.mp h1
  exact hz

theorem linkBack_wf (pd : Nat → Nat → Nat) (m layer newId : Nat) (g : Graph) (nb : Nat) (hg : WF g)
    (hn : Usable g newId layer) :
    WF (linkBack pd m layer newId g nb) ∧ Same g (linkBack pd m layer newId g nb) := by
  have hids : ∀ x ∈ sortNat (g.nbrs nb layer ++ [newId]), Usable g x layer := by
    intro x hx
    rcases List.mem_append.mp ((sortNat_mem _ _).mp hx) with h | h
    · exact hg.1 _ _ _ h
    · rw [List.mem_singleton.mp h]; exact hn
  unfold linkBack
  dsimp only
  split
  · exact ⟨setNbrs_wf _ _ _ _ hg (fun x hx => hids x (prune_mem _ _ _ _ _ hx)), setNbrs_same _ _ _ _⟩
  · exact ⟨setNbrs_wf _ _ _ _ hg hids, setNbrs_same _ _ _ _⟩

theorem fold_linkBack_wf (pd : Nat → Nat → Nat) (m layer newId : Nat) (sel : List Nat) (g : Graph)
    (hg : WF g) (hn : Usable g newId layer) :
    WF (sel.foldl (linkBack pd m layer newId) g) ∧ Same g (sel.foldl (linkBack pd m layer newId) g) := by
  induction sel generalizing g with
  | nil => exact ⟨hg, Same.refl g⟩
  | cons nb rest ih =>
    rw [List.foldl_cons]
    have h1 := linkBack_wf pd m layer newId g nb hg hn
    have h2 := ih _ h1.1 (h1.2.usable hn)
    exact ⟨h2.1, h1.2.trans h2.2⟩

theorem connectLayer_wf (cfg : Cfg) (pd : Nat → Nat → Nat) (dist : Nat → Nat) (newId : Nat)
    (acc : Graph × Nat) (layer : Nat) (hg : WF acc.1) (hc : Usable acc.1 acc.2 layer)
    (hn : Usable acc.1 newId layer) :
    WF (connectLayer cfg pd dist newId acc layer).1 ∧
    Same acc.1 (connectLayer cfg pd dist newId acc layer).1 ∧
    Usable (connectLayer cfg pd dist newId acc layer).1 (connectLayer cfg pd dist newId acc layer).2 layer := by
  have hsp := searchLayer_spec acc.1 hg dist acc.2 cfg.efc layer hc
  generalize hnb : searchLayer acc.1 dist acc.2 cfg.efc layer = neighbors at hsp
  generalize hm : (if layer = 0 then cfg.m0 else cfg.m) = m
  have hsel : ∀ x ∈ (neighbors.take m).map (·.1), Usable acc.1 x layer := by
    intro x hx
    obtain ⟨y, hy, rfl⟩ := List.mem_map.mp hx
    exact (hsp.2.1 y (List.mem_of_mem_take hy)).1
  have hg1 : WF (setNbrs acc.1 newId layer (acc.1.nbrs newId layer ++ (neighbors.take m).map (·.1))) := by
    apply setNbrs_wf _ _ _ _ hg
    intro x hx
    rcases List.mem_append.mp hx with h | h
    · exact hg.1 _ _ _ h
    · exact hsel x h
  have hs1 := setNbrs_same acc.1 newId layer (acc.1.nbrs newId layer ++ (neighbors.take m).map (·.1))
  have h2 := fold_linkBack_wf pd m layer newId ((neighbors.take m).map (·.1)) _ hg1 (hs1.usable hn)
  have hsame := hs1.trans h2.2
  unfold connectLayer
  dsimp only
  rw [hnb, hm]
  refine ⟨h2.1, hsame, ?_⟩
  apply hsame.usable
  split
  · rename_i n hhead
    exact (hsp.2.1 n (List.mem_of_mem_head? hhead)).1
  · exact hc

theorem fold_connect_wf (cfg : Cfg) (pd : Nat → Nat → Nat) (dist : Nat → Nat) (newId : Nat)
    (layers : List Nat) (acc : Graph × Nat) (hg : WF acc.1)
    (hu : ∀ l ∈ layers, Usable acc.1 acc.2 l ∧ Usable acc.1 newId l)
    (hp : layers.Pairwise (fun a b => b < a)) :
    WF (layers.foldl (connectLayer cfg pd dist newId) acc).1 ∧
    Same acc.1 (layers.foldl (connectLayer cfg pd dist newId) acc).1 := by
  induction layers generalizing acc with
  | nil => exact ⟨hg, Same.refl _⟩
  | cons L rest ih =>
    rw [List.foldl_cons]
    have hL := hu L (List.mem_cons_self ..)
    have hp' := List.pairwise_cons.mp hp
    have h1 := connectLayer_wf cfg pd dist newId acc L hg hL.1 hL.2
    have h2 := ih (connectLayer cfg pd dist newId acc L) h1.1 (by
      intro l hl
      refine ⟨h1.2.2.mono (Nat.le_of_lt (hp'.1 l hl)), ?_⟩
      exact h1.2.1.usable (hu l (List.mem_cons_of_mem _ hl)).2) hp'.2
    exact ⟨h2.1, h1.2.1.trans h2.2⟩

/-! ### 4. insert / build -/

theorem wf_empty : WF Graph.empty := by
  refine ⟨?_, ?_, ?_, ?_⟩
  · intro id layer x hx
    simp [Graph.empty, Graph.nbrs] at hx
  · intro e he; cases he
  · intro _; rfl
  · intro id hid; simp [Graph.empty, Graph.size] at hid

/-- the graph with the new (unlinked) node appended -/
def pushNode (g : Graph) (level : Nat) : Graph :=
  { g with nodes := g.nodes ++ [List.replicate (level + 1) []] }

theorem pushNode_size (g : Graph) (level : Nat) : (pushNode g level).size = g.size + 1 := by
  simp [pushNode, Graph.size]

theorem pushNode_layersOf_old (g : Graph) (level x : Nat) (hx : x < g.size) :
    (pushNode g level).layersOf x = g.layersOf x := by
  unfold Graph.size at hx
  simp only [pushNode, Graph.layersOf, List.getD_eq_getElem?_getD]
  rw [List.getElem?_append_left hx]

theorem pushNode_layersOf_new (g : Graph) (level : Nat) :
    (pushNode g level).layersOf g.size = level + 1 := by
  simp [pushNode, Graph.layersOf, Graph.size, List.getD_eq_getElem?_getD]

theorem pushNode_nbrs (g : Graph) (level id layer x : Nat) (h : x ∈ (pushNode g level).nbrs id layer) :
    x ∈ g.nbrs id layer := by
  simp only [pushNode, Graph.nbrs, List.getD_eq_getElem?_getD] at h ⊢
  by_cases hid : id < g.nodes.length
  · rw [List.getElem?_append_left hid] at h; exact h
  · rw [List.getElem?_append_right (by omega)] at h
    by_cases h0 : id - g.nodes.length = 0
    · rw [h0] at h
      simp only [List.getElem?_cons_zero, Option.getD_some] at h
      rw [List.getElem?_replicate] at h
      split at h <;> simp at h
    · obtain ⟨k, hk⟩ := Nat.exists_eq_succ_of_ne_zero h0
      rw [hk] at h
      simp at h

theorem pushNode_core (g : Graph) (level : Nat) (hg : WF g) :
    (∀ id layer x, x ∈ (pushNode g level).nbrs id layer → Usable (pushNode g level) x layer) ∧
    (∀ id, id < (pushNode g level).size → 0 < (pushNode g level).layersOf id) := by
  constructor
  · intro id layer x hx
    have h1 := hg.1 _ _ _ (pushNode_nbrs g level id layer x hx)
    refine ⟨?_, ?_⟩
    · rw [pushNode_size]; omega
    · rw [pushNode_layersOf_old g level x h1.1]; exact h1.2
  · intro id hid
    rw [pushNode_size] at hid
    by_cases h : id < g.size
    · rw [pushNode_layersOf_old g level id h]; exact hg.2.2.2 id h
    · have : id = g.size := by omega
      rw [this, pushNode_layersOf_new]; omega

theorem insert_eq (cfg : Cfg) (pd : Nat → Nat → Nat) (g : Graph) (level : Nat) :
    insert cfg pd g level =
      match g.entry with
      | none => { pushNode g level with entry := some g.size, maxLayer := level }
      | some e =>
        if g.maxLayer < level then
          { ((layersDesc 0 (min level g.maxLayer)).foldl (connectLayer cfg pd (fun x => pd x g.size) g.size)
              (pushNode g level, descend (pushNode g level) (fun x => pd x g.size) e (level + 1) g.maxLayer)).1
            with entry := some g.size, maxLayer := level }
        else ((layersDesc 0 (min level g.maxLayer)).foldl (connectLayer cfg pd (fun x => pd x g.size) g.size)
              (pushNode g level, descend (pushNode g level) (fun x => pd x g.size) e (level + 1) g.maxLayer)).1 := rfl

theorem insert_wf_size (cfg : Cfg) (pd : Nat → Nat → Nat) (g : Graph) (level : Nat) (h : WF g) :
    WF (insert cfg pd g level) ∧ (insert cfg pd g level).size = g.size + 1 := by
  have hcore := pushNode_core g level h
  have hsz := pushNode_size g level
  have hnew := pushNode_layersOf_new g level
  rw [insert_eq]
  cases he : g.entry with
  | none =>
    dsimp only
    refine ⟨⟨hcore.1, ?_, ?_, hcore.2⟩, hsz⟩
    · intro e he'
      have : e = g.size := by
        have : some g.size = some e := he'
        exact (Option.some.inj this).symm
      subst this
      refine ⟨?_, ?_⟩
      · show g.size < (pushNode g level).size
        omega
      · show level < (pushNode g level).layersOf g.size
        omega
    · intro he'; cases he'
  | some e =>
    dsimp only
    have hentry := h.2.1 e he
    have hg0 : WF (pushNode g level) := by
      refine ⟨hcore.1, ?_, ?_, hcore.2⟩
      · intro e' he'
        have : e' = e := by
          have h1 : g.entry = some e' := he'
          rw [he] at h1
          exact (Option.some.inj h1).symm
        subst this
        refine ⟨by omega, ?_⟩
        rw [pushNode_layersOf_old g level e' hentry.1]
        exact hentry.2
      · intro he'
        have h1 : g.entry = none := he'
        rw [he] at h1; cases h1
    have hue : Usable (pushNode g level) e g.maxLayer :=
      ⟨by omega, by rw [pushNode_layersOf_old g level e hentry.1]; exact hentry.2⟩
    have hcur := descend_usable (pushNode g level) hg0 (fun x => pd x g.size) e (level + 1) g.maxLayer hue
    have hfold := fold_connect_wf cfg pd (fun x => pd x g.size) g.size (layersDesc 0 (min level g.maxLayer))
      (pushNode g level, descend (pushNode g level) (fun x => pd x g.size) e (level + 1) g.maxLayer) hg0
      (by
        intro l hl
        have hl' := (layersDesc_mem hl).2
        refine ⟨hcur.mono (by omega), ?_, ?_⟩
        · show g.size < (pushNode g level).size
          omega
        · rw [hnew]; omega)
      (layersDesc_pairwise _ _)
    generalize hr : (layersDesc 0 (min level g.maxLayer)).foldl
      (connectLayer cfg pd (fun x => pd x g.size) g.size)
      (pushNode g level, descend (pushNode g level) (fun x => pd x g.size) e (level + 1) g.maxLayer) = r at hfold
    obtain ⟨hw, hs⟩ := hfold
    have hs1 : r.1.size = g.size + 1 := hs.1.trans hsz
    split
    · refine ⟨⟨hw.1, ?_, ?_, hw.2.2.2⟩, hs1⟩
      · intro e' he'
        have : e' = g.size := by
          have : some g.size = some e' := he'
          exact (Option.some.inj this).symm
        subst this
        refine ⟨?_, ?_⟩
        · show g.size < r.1.size
          omega
        · show level < r.1.layersOf g.size
          rw [hs.2.1, hnew]; omega
      · intro he'; cases he'
    · exact ⟨hw, hs1⟩

theorem foldl_insert_wf (cfg : Cfg) (pd : Nat → Nat → Nat) (levels : List Nat) (g : Graph) (hg : WF g) :
    WF (levels.foldl (insert cfg pd) g) ∧ (levels.foldl (insert cfg pd) g).size = g.size + levels.length := by
  induction levels generalizing g with
  | nil => exact ⟨hg, rfl⟩
  | cons l rest ih =>
    rw [List.foldl_cons]
    have h1 := insert_wf_size cfg pd g l hg
    have h2 := ih _ h1.1
    refine ⟨h2.1, ?_⟩
    rw [h2.2, h1.2, List.length_cons]; omega

theorem build_wf_size (cfg : Cfg) (pd : Nat → Nat → Nat) (levels : List Nat) :
    WF (build cfg pd levels) ∧ (build cfg pd levels).size = levels.length := by
  have := foldl_insert_wf cfg pd levels Graph.empty wf_empty
  refine ⟨this.1, ?_⟩
  have h2 := this.2
  unfold build
  rw [h2]
  simp [Graph.empty, Graph.size]

theorem build_entry_ne_none (cfg : Cfg) (pd : Nat → Nat → Nat) (levels : List Nat) (h : levels ≠ []) :
    (build cfg pd levels).entry ≠ none := by
  have hw := build_wf_size cfg pd levels
  intro hn
  have := hw.1.2.2.1 hn
  rw [hw.2] at this
  exact h (List.length_eq_zero_iff.mp this)

/-! ### 5. the search contract -/

theorem layerLoop_terminates (g : Graph) (h : WF g) (dist : Nat → Nat) (entry ef layer : Nat)
    (he : entry < g.size) :
    (layerLoop g dist ef layer (g.size + 1)
      ⟨[entry], [(entry, dist entry)], [(entry, dist entry)]⟩).isSome = true := by
  -- only `x < g.size` is needed of the visited ids: run the invariant at layer 0, where
  -- every node is usable
  have hinit : LInv g dist ef 0 ⟨[entry], [(entry, dist entry)], [(entry, dist entry)]⟩ :=
    init_inv g dist ef 0 entry ⟨he, h.2.2.2 entry he⟩
  have key : ∀ fuel s, LInv g dist ef 0 s → mu g s + 1 ≤ fuel →
      (layerLoop g dist ef layer fuel s).isSome = true := by
    intro fuel
    induction fuel with
    | zero => intro s _ hf; omega
    | succ n ih =>
      intro s hs hf
      rw [layerLoop]
      split
      · rfl
      · rename_i cur cands' hp
        have hpi := pop_inv g dist ef 0 s cur cands' hs hp
        dsimp only
        refine ite_bool_prop (P := fun (t : Option LState) => t.isSome = true) _ _ _ rfl ?_
        have hf2 := fold_visit_inv g dist ef 0 (g.nbrs cur.1 layer) _ hpi.1 (fun x hx => by
          have hx' := (h.1 _ _ _ hx).1
          exact ⟨hx', h.2.2.2 x hx'⟩)
        exact ih _ hf2.1 (by omega)
  apply key _ _ hinit
  unfold mu
  simp only [List.length_cons, List.length_nil]
  omega

theorem searchEf_contract (g : Graph) (h : WF g) (dist : Nat → Nat) (k ef : Nat) :
    (searchEf g dist k ef).length ≤ k ∧
    ((searchEf g dist k ef).map (·.1)).Nodup ∧
    (∀ x ∈ searchEf g dist k ef, x.1 < g.size ∧ x.2 = dist x.1) ∧
    (searchEf g dist k ef).Pairwise (fun a b => a.2 ≤ b.2) ∧
    (g.entry ≠ none → 0 < k → searchEf g dist k ef ≠ []) := by
  unfold searchEf
  cases he : g.entry with
  | none =>
    dsimp only
    refine ⟨Nat.zero_le _, List.nodup_nil, ?_, List.Pairwise.nil, ?_⟩
    · intro x hx; cases hx
    · intro hne; exact absurd rfl hne
  | some e =>
    dsimp only
    have hentry := h.2.1 e he
    have hcur := (descend_usable g h dist e 1 g.maxLayer ⟨hentry.1, hentry.2⟩).mono (Nat.zero_le _)
    have hsp := searchLayer_spec g h dist (descend g dist e 1 g.maxLayer) (max ef k) 0 hcur
    generalize searchLayer g dist (descend g dist e 1 g.maxLayer) (max ef k) 0 = r at hsp
    refine ⟨?_, ?_, ?_, ?_, ?_⟩
    · rw [List.length_take]; exact Nat.min_le_left ..
    · exact hsp.1.sublist ((List.take_sublist k r).map _)
    · intro x hx
      have := hsp.2.1 x (List.mem_of_mem_take hx)
      exact ⟨this.1.1, this.2⟩
    · exact hsp.2.2.1.sublist (List.take_sublist k r)
    · intro _ hk h0
      have hr := hsp.2.2.2 (by omega)
      cases r with
      | nil => exact hr rfl
      | cons a b =>
        cases k with
        | zero => omega
        | succ k' => simp at h0

theorem filterMap_all_some_length {α β : Type} (f : α → Option β) (l : List α)
    (h : ∀ x ∈ l, (f x).isSome = true) : (l.filterMap f).length = l.length := by
  induction l with
  | nil => rfl
  | cons a rest ih =>
    have ha := h a (List.mem_cons_self ..)
    cases hfa : f a with
    | none => rw [hfa] at ha; cases ha
    | some b =>
      rw [List.filterMap_cons_some hfa, List.length_cons, List.length_cons,
        ih (fun x hx => h x (List.mem_cons_of_mem _ hx))]

theorem filterMap_ids_sublist {β : Type} (snap : Snap) (sc : List Int → Score) (l : List (Nat × β)) :
    ((l.filterMap fun x => (snap[x.1]?).map fun e => (x.1, sc e.2)).map (·.1)).Sublist (l.map (·.1)) := by
  induction l with
  | nil => exact List.Sublist.refl _
  | cons a rest ih =>
    cases ha : snap[a.1]? with
    | none =>
      rw [List.filterMap_cons_none (by simp [ha]), List.map_cons]
      exact List.Sublist.cons _ ih
    | some e =>
      rw [List.filterMap_cons_some (b := (a.1, sc e.2)) (by simp [ha]), List.map_cons, List.map_cons]
      exact List.Sublist.cons_cons _ ih

theorem index_answer_shape_core (snap : Snap) (hn : (snap.map (·.1)).Nodup)
    (cfg : Cfg) (pd : Nat → Nat → Nat) (levels : List Nat) (hl : levels.length = snap.length)
    (q : List Int) (dist : Nat → Nat) (k ef : Nat) :
    let ann := (searchEf (build cfg pd levels) dist k ef).filterMap fun x =>
      (snap[x.1]?).map fun e => (x.1, score .cosine q e.2)
    (postProcessAnn snap ann k).length ≤ k ∧
    (postProcessAnn snap ann k).Pairwise (fun a b => candBetter .cosine a b = true) ∧
    ((postProcessAnn snap ann k).map (·.key)).Nodup ∧
    (∀ c ∈ postProcessAnn snap ann k, ∃ vec, (c.key, vec) ∈ snap ∧ c.score = score .cosine q vec) ∧
    ann.length = (searchEf (build cfg pd levels) dist k ef).length := by
  intro ann
  have hw := build_wf_size cfg pd levels
  have hc := searchEf_contract (build cfg pd levels) hw.1 dist k ef
  have hperm := sortBy_perm (candBetter .cosine)
    (ann.filterMap fun a => (snap[a.1]?).map fun e => (⟨e.1, a.2, true⟩ : Cand))
  have hmem := mem_postProcessAnn snap ann k
  have hids : (ann.map (·.1)).Nodup :=
    hc.2.1.sublist (filterMap_ids_sublist snap (score .cosine q) _)
  have htrue : ∀ a ∈ ann, ∀ e, snap[a.1]? = some e → a.2 = score .cosine q e.2 := by
    intro a ha e he
    obtain ⟨x, _, hx⟩ := List.mem_filterMap.mp ha
    cases hx' : snap[x.1]? with
    | none => rw [hx'] at hx; cases hx
    | some e' =>
      rw [hx'] at hx
      simp only [Option.map_some, Option.some.injEq] at hx
      subst hx
      simp only at he ⊢
      rw [hx'] at he
      cases he
      rfl
  refine ⟨?_, ?_, ?_, ?_, ?_⟩
  · simp only [postProcessAnn, List.length_take]; omega
  · exact (sortBy_sorted _ (candBetter_total _) (candBetter_trans _) _).sublist (List.take_sublist k _)
  · have h1 := mapped_keys_nodup snap hn ann hids
    have h2 : ((rank .cosine (ann.filterMap fun a => (snap[a.1]?).map fun e =>
        (⟨e.1, a.2, true⟩ : Cand))).map (·.key)).Nodup := (hperm.map _).nodup_iff.mpr h1
    exact h2.sublist ((List.take_sublist k _).map _)
  · intro c hcm
    obtain ⟨a, ha, e, he, rfl⟩ := hmem c hcm
    exact ⟨e.2, List.mem_of_getElem? he, htrue a ha e he⟩
  · apply filterMap_all_some_length
    intro x hx
    have hlt := (hc.2.2.1 x hx).1
    rw [hw.2, hl] at hlt
    rw [List.getElem?_eq_getElem hlt]
    rfl


/-- the fuel `trim` is given (the length) is never the reason it stops: afterwards the heap holds
    at most `ef` elements, as after `while results.len() > ef { results.pop(); }` -/
theorem trim_length_le (ef fuel : Nat) (r : List Nb) (h : r.length ≤ ef + fuel) :
    (trim ef fuel r).length ≤ ef := by
  induction fuel generalizing r with
  | zero => rw [trim]; omega
  | succ n ih =>
    rw [trim]
    split
    · split
      · rename_i t r' hp
        have := hpop_length leMax r t r' hp
        exact ih r' (by omega)
      · rename_i hp
        have := (hpop_none_iff leMax r).mp hp
        subst this
        simp
    · omega

/-! ### 6. a complete layer is searched exhaustively -/

/-- layer 0 is complete: every node is linked to every other node -/
def Complete0 (g : Graph) : Prop := ∀ i j, i < g.size → j < g.size → i ≠ j → j ∈ g.nbrs i 0

theorem hpop_singleton {α : Type} (le : α → α → Bool) (x : α) : hpop le [x] = some (x, []) := rfl

theorem layerLoop_first (g : Graph) (dist : Nat → Nat) (ef layer fuel e d : Nat) :
    layerLoop g dist ef layer (fuel + 1) ⟨[e], [(e, d)], [(e, d)]⟩ =
      layerLoop g dist ef layer fuel ((g.nbrs e layer).foldl (visit dist ef) ⟨[e], [], [(e, d)]⟩) := by
  rw [layerLoop]
  simp only [hpop_singleton, List.head?_cons, Nat.lt_irrefl, decide_false, Bool.and_false,
    Bool.false_eq_true, if_false]

theorem trim_noop (ef fuel : Nat) (r : List Nb) (h : r.length ≤ ef) : trim ef fuel r = r := by
  cases fuel with
  | zero => rfl
  | succ n => rw [trim, if_neg (by omega)]

theorem visit_id (dist : Nat → Nat) (ef : Nat) (s : LState) (nb : Nat) (h : nb ∈ s.visited) :
    visit dist ef s nb = s := by
  unfold visit
  rw [if_pos (List.contains_iff_mem.mpr h)]

theorem fold_visit_id (dist : Nat → Nat) (ef : Nat) (l : List Nat) (s : LState)
    (h : ∀ x ∈ l, x ∈ s.visited) : l.foldl (visit dist ef) s = s := by
  induction l with
  | nil => rfl
  | cons nb rest ih =>
    rw [List.foldl_cons, visit_id dist ef s nb (h nb (List.mem_cons_self ..))]
    exact ih (fun x hx => h x (List.mem_cons_of_mem _ hx))

theorem visit_visited (dist : Nat → Nat) (ef : Nat) (s : LState) (nb : Nat) :
    (visit dist ef s nb).visited = s.visited ∨ (visit dist ef s nb).visited = nb :: s.visited := by
  unfold visit
  split
  · exact Or.inl rfl
  · dsimp only
    exact ite_bool_prop (P := fun (t : LState) => t.visited = s.visited ∨ t.visited = nb :: s.visited)
      _ _ _ (Or.inr rfl) (Or.inr rfl)

theorem visit_visited_mem (dist : Nat → Nat) (ef : Nat) (s : LState) (nb x : Nat)
    (h : x ∈ s.visited ∨ x = nb) : x ∈ (visit dist ef s nb).visited := by
  by_cases hc : nb ∈ s.visited
  · rw [visit_id dist ef s nb hc]
    rcases h with h | rfl
    · exact h
    · exact hc
  · have hv : (visit dist ef s nb).visited = nb :: s.visited := by
      unfold visit
      rw [if_neg (by intro hh; exact hc (List.contains_iff_mem.mp hh))]
      dsimp only
      exact ite_bool_prop (P := fun (t : LState) => t.visited = nb :: s.visited) _ _ _ rfl rfl
    rw [hv]
    rcases h with h | rfl
    · exact List.mem_cons_of_mem _ h
    · exact List.mem_cons_self ..

theorem fold_visit_visited_mem (dist : Nat → Nat) (ef : Nat) (l : List Nat) (s : LState) (x : Nat)
    (h : x ∈ s.visited ∨ x ∈ l) : x ∈ (l.foldl (visit dist ef) s).visited := by
  induction l generalizing s with
  | nil =>
    rcases h with h | h
    · exact h
    · cases h
  | cons nb rest ih =>
    rw [List.foldl_cons]
    apply ih
    rcases h with h | h
    · exact Or.inl (visit_visited_mem dist ef s nb x (Or.inl h))
    · rcases List.mem_cons.mp h with rfl | h
      · exact Or.inl (visit_visited_mem dist ef s x x (Or.inr rfl))
      · exact Or.inr h

theorem fold_visit_vlt (dist : Nat → Nat) (ef n : Nat) (l : List Nat) (s : LState)
    (hs : ∀ x ∈ s.visited, x < n) (hl : ∀ x ∈ l, x < n) :
    ∀ x ∈ (l.foldl (visit dist ef) s).visited, x < n := by
  induction l generalizing s with
  | nil => exact hs
  | cons nb rest ih =>
    rw [List.foldl_cons]
    apply ih _ _ (fun x hx => hl x (List.mem_cons_of_mem _ hx))
    intro x hx
    rcases visit_visited dist ef s nb with h | h
    · rw [h] at hx; exact hs x hx
    · rw [h] at hx
      rcases List.mem_cons.mp hx with rfl | hx
      · exact hl x (List.mem_cons_self ..)
      · exact hs x hx

theorem layerLoop_vlt (g : Graph) (dist : Nat → Nat) (ef layer n fuel : Nat) (s s' : LState)
    (hlt : ∀ id x, x ∈ g.nbrs id layer → x < n)
    (hs : ∀ x ∈ s.visited, x < n) (h : layerLoop g dist ef layer fuel s = some s') :
    ∀ x ∈ s'.visited, x < n := by
  induction fuel generalizing s with
  | zero => simp [layerLoop] at h
  | succ m ih =>
    rw [layerLoop] at h
    split at h
    · cases h; exact hs
    · rename_i cur cands' hp
      dsimp only at h
      rcases ite_bool_some _ _ _ _ h with h | h
      · cases h; exact hs
      · exact ih _ (fold_visit_vlt dist ef n (g.nbrs cur.1 layer)
          { s with cands := cands' } hs (fun x hx => hlt _ _ hx)) h

/-- every id the layer search returns is below `n` when the entry and every list of the layer are -/
theorem searchLayer_lt (g : Graph) (hg : WF g) (dist : Nat → Nat) (e ef layer n : Nat)
    (he : Usable g e layer) (hen : e < n) (hlt : ∀ id x, x ∈ g.nbrs id layer → x < n) :
    ∀ x ∈ searchLayer g dist e ef layer, x.1 < n := by
  intro x hx
  unfold searchLayer at hx
  cases hl : layerLoop g dist ef layer (g.size + 1) ⟨[e], [(e, dist e)], [(e, dist e)]⟩ with
  | none => rw [hl] at hx; cases hx
  | some s =>
    rw [hl] at hx
    dsimp only at hx
    have hs := layerLoop_inv g hg dist ef layer _ _ s (init_inv g dist ef layer e he) hl
    have hv := layerLoop_vlt g dist ef layer n _ _ s hlt (by
      intro y hy; rw [List.mem_singleton.mp hy]; exact hen) hl
    exact hv _ (hs.res x ((sortBy_perm byDist s.results).subset hx)).1

/-- while the visited set still fits in the beam, every visited node is in `results` -/
structure CInv (n : Nat) (s : LState) : Prop where
  vlt : ∀ x ∈ s.visited, x < n
  vres : ∀ x ∈ s.visited, x ∈ s.results.map (·.1)

theorem ite_or_pos {α : Type} {P : α → Prop} (p : Prop) [Decidable p] (c : Bool) (a b : α) (hp : p)
    (ha : P a) : P (if (decide p || c) = true then a else b) := by
  rw [if_pos (by simp [hp])]
  exact ha

theorem visit_cinv (g : Graph) (dist : Nat → Nat) (ef layer n : Nat) (s : LState) (nb : Nat)
    (hs : LInv g dist ef layer s) (hc : CInv n s) (hn : n ≤ ef) (hnb : nb < n) :
    CInv n (visit dist ef s nb) := by
  by_cases hv : nb ∈ s.visited
  · rw [visit_id dist ef s nb hv]; exact hc
  · have hnd : (nb :: s.visited).Nodup := List.nodup_cons.mpr ⟨hv, hs.vnodup⟩
    have hlen : s.visited.length + 1 ≤ n := by
      have := nodup_bound (nb :: s.visited) n hnd (by
        intro x hx
        rcases List.mem_cons.mp hx with rfl | hx
        · exact hnb
        · exact hc.vlt x hx)
      simpa using this
    have hrl : s.results.length ≤ s.visited.length := by
      have := List.Nodup.length_le_of_subset hs.rnodup (l₂ := s.visited) (by
        intro x hx
        obtain ⟨y, hy, rfl⟩ := List.mem_map.mp hx
        exact (hs.res y hy).1)
      simpa using this
    unfold visit
    rw [if_neg (by intro hh; exact hv (List.contains_iff_mem.mp hh))]
    dsimp only
    refine ite_or_pos (P := fun (t : LState) => CInv n t) _ _ _ _ (by omega) ?_
    rw [trim_noop _ _ _ (by rw [hpush_length]; omega)]
    refine ⟨?_, ?_⟩
    · intro x hx
      rcases List.mem_cons.mp hx with rfl | hx
      · exact hnb
      · exact hc.vlt x hx
    · intro x hx
      have hp := ((hpush_perm leMax s.results (nb, dist nb)).map (·.1)).symm
      apply hp.subset
      rw [List.map_cons]
      rcases List.mem_cons.mp hx with rfl | hx
      · exact List.mem_cons_self ..
      · exact List.mem_cons_of_mem _ (hc.vres x hx)

theorem fold_visit_cinv (g : Graph) (dist : Nat → Nat) (ef layer n : Nat) (l : List Nat) (s : LState)
    (hs : LInv g dist ef layer s) (hc : CInv n s) (hn : n ≤ ef)
    (hl : ∀ x ∈ l, x < n ∧ Usable g x layer) :
    CInv n (l.foldl (visit dist ef) s) := by
  induction l generalizing s with
  | nil => exact hc
  | cons nb rest ih =>
    rw [List.foldl_cons]
    have hnb := hl nb (List.mem_cons_self ..)
    exact ih _ (visit_inv g dist ef layer s nb hs hnb.2).1 (visit_cinv g dist ef layer n s nb hs hc hn hnb.1)
      (fun x hx => hl x (List.mem_cons_of_mem _ hx))

theorem layerLoop_results_const (g : Graph) (dist : Nat → Nat) (ef layer n fuel : Nat) (s s' : LState)
    (hlt : ∀ id x, x ∈ g.nbrs id layer → x < n) (hall : ∀ j, j < n → j ∈ s.visited)
    (h : layerLoop g dist ef layer fuel s = some s') : s'.results = s.results := by
  induction fuel generalizing s with
  | zero => simp [layerLoop] at h
  | succ m ih =>
    rw [layerLoop] at h
    split at h
    · cases h; rfl
    · rename_i cur cands' hp
      dsimp only at h
      rcases ite_bool_some _ _ _ _ h with h | h
      · cases h; rfl
      · rw [fold_visit_id dist ef (g.nbrs cur.1 layer) { s with cands := cands' }
          (fun x hx => hall x (hlt _ _ hx))] at h
        exact ih { s with cands := cands' } hall h

/-- **A star is searched exhaustively.**  If the entry is linked (on this layer) to every other id
    below `n`, the lists of the layer hold only ids below `n`, and the beam is at least `n`:
    the layer search returns every id below `n`. -/
theorem searchLayer_complete (g : Graph) (hg : WF g) (dist : Nat → Nat) (e ef layer n : Nat)
    (he : Usable g e layer) (hen : e < n) (hn : n ≤ ef)
    (hstar : ∀ j, j < n → j ≠ e → j ∈ g.nbrs e layer)
    (hlt : ∀ id x, x ∈ g.nbrs id layer → x < n) :
    ∀ j, j < n → j ∈ (searchLayer g dist e ef layer).map (·.1) := by
  intro j hj
  have ht := layerLoop_terminates_usable g hg dist e ef layer he
  have hi0 := init_inv g dist ef layer e he
  have hpi := (pop_inv g dist ef layer _ (e, dist e) [] hi0 (hpop_singleton leMin _)).1
  have hc0 : CInv n ⟨[e], [], [(e, dist e)]⟩ := by
    refine ⟨?_, ?_⟩
    · intro x hx; rw [List.mem_singleton.mp hx]; exact hen
    · intro x hx; rw [List.mem_singleton.mp hx]; exact List.mem_singleton.mpr rfl
  have hnbrs : ∀ x ∈ g.nbrs e layer, x < n ∧ Usable g x layer :=
    fun x hx => ⟨hlt _ _ hx, hg.1 _ _ _ hx⟩
  have hc1 := fold_visit_cinv g dist ef layer n _ _ hpi hc0 hn hnbrs
  have hall : ∀ i, i < n → i ∈ ((g.nbrs e layer).foldl (visit dist ef) ⟨[e], [], [(e, dist e)]⟩).visited := by
    intro i hi
    apply fold_visit_visited_mem
    by_cases hie : i = e
    · exact Or.inl (by rw [hie]; exact List.mem_singleton.mpr rfl)
    · exact Or.inr (hstar i hi hie)
  unfold searchLayer
  rw [layerLoop_first] at ht ⊢
  cases hl : layerLoop g dist ef layer g.size
      ((g.nbrs e layer).foldl (visit dist ef) ⟨[e], [], [(e, dist e)]⟩) with
  | none => rw [hl] at ht; cases ht
  | some s' =>
    dsimp only
    have hr := layerLoop_results_const g dist ef layer n _ _ s' hlt hall hl
    rw [hr]
    exact ((sortBy_perm byDist _).map (·.1)).symm.subset (hc1.vres j (hall j hj))

theorem searchLayer_complete_length (g : Graph) (hg : WF g) (dist : Nat → Nat) (e ef layer n : Nat)
    (he : Usable g e layer) (hen : e < n) (hn : n ≤ ef)
    (hstar : ∀ j, j < n → j ≠ e → j ∈ g.nbrs e layer)
    (hlt : ∀ id x, x ∈ g.nbrs id layer → x < n) :
    (searchLayer g dist e ef layer).length = n := by
  have h1 := searchLayer_complete g hg dist e ef layer n he hen hn hstar hlt
  have h2 := searchLayer_lt g hg dist e ef layer n he hen hlt
  have h3 := (searchLayer_spec g hg dist e ef layer he).1
  have ha := List.Nodup.length_le_of_subset h3 (l₂ := List.range n) (by
    intro x hx
    obtain ⟨y, hy, rfl⟩ := List.mem_map.mp hx
    exact List.mem_range.mpr (h2 y hy))
  have hb := List.Nodup.length_le_of_subset (List.nodup_range (n := n))
    (l₂ := (searchLayer g dist e ef layer).map (·.1)) (by
    intro x hx; exact h1 x (List.mem_range.mp hx))
  simp only [List.length_map, List.length_range] at ha hb
  omega

theorem searchEf_exact_of_complete (g : Graph) (h : WF g) (hc : Complete0 g) (dist : Nat → Nat) (k ef : Nat)
    (hef : g.size ≤ max ef k) :
    (searchEf g dist k ef).length = min k g.size ∧
    ∀ x ∈ searchEf g dist k ef, ∀ j, j < g.size → j ∉ (searchEf g dist k ef).map (·.1) → x.2 ≤ dist j := by
  unfold searchEf
  cases he : g.entry with
  | none =>
    dsimp only
    have := h.2.2.1 he
    refine ⟨by rw [this]; simp, ?_⟩
    intro x hx; cases hx
  | some e =>
    dsimp only
    have hentry := h.2.1 e he
    have hcur := (descend_usable g h dist e 1 g.maxLayer ⟨hentry.1, hentry.2⟩).mono (Nat.zero_le _)
    have hstar : ∀ j, j < g.size → j ≠ descend g dist e 1 g.maxLayer →
        j ∈ g.nbrs (descend g dist e 1 g.maxLayer) 0 :=
      fun j hj hne => hc _ j hcur.1 hj (Ne.symm hne)
    have hlt : ∀ id x, x ∈ g.nbrs id 0 → x < g.size := fun id x hx => (h.1 _ _ _ hx).1
    have hsp := searchLayer_spec g h dist (descend g dist e 1 g.maxLayer) (max ef k) 0 hcur
    have hall := searchLayer_complete g h dist _ (max ef k) 0 g.size hcur hcur.1 hef hstar hlt
    have hlen := searchLayer_complete_length g h dist _ (max ef k) 0 g.size hcur hcur.1 hef hstar hlt
    generalize searchLayer g dist (descend g dist e 1 g.maxLayer) (max ef k) 0 = r at hsp hall hlen
    refine ⟨by rw [List.length_take, hlen], ?_⟩
    intro x hx j hj hnot
    obtain ⟨y, hy, hyj⟩ := List.mem_map.mp (hall j hj)
    have hsorted : (r.take k ++ r.drop k).Pairwise (fun a b => a.2 ≤ b.2) := by
      rw [List.take_append_drop]; exact hsp.2.2.1
    rw [← List.take_append_drop k r] at hy
    rcases List.mem_append.mp hy with hy | hy
    · exact absurd (List.mem_map.mpr ⟨y, hy, hyj⟩) hnot
    · have := (List.pairwise_append.mp hsorted).2.2 x hx y hy
      rw [(hsp.2.1 y (List.mem_of_mem_drop hy)).2, hyj] at this
      exact this

/-! ### 7. a small index is complete on layer 0 -/

theorem setNbrs_nbrs_of_ne (g : Graph) (id layer : Nat) (ids : List Nat) (id' layer' : Nat)
    (h : id' ≠ id ∨ layer' ≠ layer) : (setNbrs g id layer ids).nbrs id' layer' = g.nbrs id' layer' := by
  simp only [setNbrs, Graph.nbrs, List.getD_eq_getElem?_getD, List.getElem?_modify]
  cases hn : g.nodes[id']? with
  | none => rfl
  | some ls =>
    simp only [Option.map_eq_map, Option.map_some, Option.getD_some]
    split
    · rename_i hid
      rcases h with h | h
      · exact absurd hid.symm h
      · rw [List.getElem?_set_ne (Ne.symm h)]
    · rfl

theorem setNbrs_nbrs_self (g : Graph) (id layer : Nat) (ids : List Nat)
    (hid : id < g.size) (hl : layer < g.layersOf id) :
    (setNbrs g id layer ids).nbrs id layer = sortNat ids := by
  unfold Graph.size at hid
  simp only [Graph.layersOf, List.getD_eq_getElem?_getD, List.getElem?_eq_getElem hid,
    Option.getD_some] at hl
  simp only [setNbrs, Graph.nbrs, List.getD_eq_getElem?_getD, List.getElem?_modify,
    List.getElem?_eq_getElem hid, Option.map_eq_map, Option.map_some, Option.getD_some, if_true]
  rw [List.getElem?_set_self hl]
  rfl

theorem linkBack_same (pd : Nat → Nat → Nat) (m layer newId : Nat) (g : Graph) (nb : Nat) :
    Same g (linkBack pd m layer newId g nb) := by
  unfold linkBack
  dsimp only
  split <;> exact setNbrs_same _ _ _ _

theorem linkBack_nbrs_of_ne (pd : Nat → Nat → Nat) (m layer newId : Nat) (g : Graph) (nb id' layer' : Nat)
    (h : id' ≠ nb ∨ layer' ≠ layer) :
    (linkBack pd m layer newId g nb).nbrs id' layer' = g.nbrs id' layer' := by
  unfold linkBack
  dsimp only
  split <;> exact setNbrs_nbrs_of_ne _ _ _ _ _ _ h

theorem fold_linkBack_nbrs_layer_ne (pd : Nat → Nat → Nat) (m layer newId : Nat) (sel : List Nat)
    (g : Graph) (id' layer' : Nat) (h : layer' ≠ layer) :
    (sel.foldl (linkBack pd m layer newId) g).nbrs id' layer' = g.nbrs id' layer' := by
  induction sel generalizing g with
  | nil => rfl
  | cons nb rest ih =>
    rw [List.foldl_cons, ih, linkBack_nbrs_of_ne _ _ _ _ _ _ _ _ (Or.inr h)]

theorem connectLayer_nbrs_layer_ne (cfg : Cfg) (pd : Nat → Nat → Nat) (dist : Nat → Nat) (newId : Nat)
    (acc : Graph × Nat) (layer id' layer' : Nat) (h : layer' ≠ layer) :
    (connectLayer cfg pd dist newId acc layer).1.nbrs id' layer' = acc.1.nbrs id' layer' := by
  unfold connectLayer
  dsimp only
  rw [fold_linkBack_nbrs_layer_ne _ _ _ _ _ _ _ _ h, setNbrs_nbrs_of_ne _ _ _ _ _ _ (Or.inr h)]

theorem linkBack_nbrs_self_noprune (pd : Nat → Nat → Nat) (m layer newId : Nat) (g : Graph) (nb : Nat)
    (hnb : nb < g.size) (hl : layer < g.layersOf nb) (hlen : (g.nbrs nb layer).length + 1 ≤ m) :
    ((linkBack pd m layer newId g nb).nbrs nb layer).Perm (newId :: g.nbrs nb layer) := by
  have hp : (sortNat (g.nbrs nb layer ++ [newId])).Perm (newId :: g.nbrs nb layer) :=
    (sortBy_perm _ _).trans List.perm_append_comm
  unfold linkBack
  dsimp only
  rw [if_neg (by rw [hp.length_eq, List.length_cons]; omega), setNbrs_nbrs_self g nb layer _ hnb hl]
  exact (sortBy_perm _ _).trans hp

theorem fold_linkBack_nbrs (pd : Nat → Nat → Nat) (m layer newId : Nat) (l : List Nat) (H : Graph)
    (hl : l.Nodup)
    (hc : ∀ nb ∈ l, nb < H.size ∧ layer < H.layersOf nb ∧ (H.nbrs nb layer).length + 1 ≤ m) :
    (∀ i, i ∉ l → (l.foldl (linkBack pd m layer newId) H).nbrs i layer = H.nbrs i layer) ∧
    (∀ i ∈ l, ((l.foldl (linkBack pd m layer newId) H).nbrs i layer).Perm (newId :: H.nbrs i layer)) := by
  induction l generalizing H with
  | nil =>
    refine ⟨fun _ _ => rfl, ?_⟩
    intro i hi; cases hi
  | cons nb rest ih =>
    rw [List.foldl_cons]
    have hnd := List.nodup_cons.mp hl
    have hsame := linkBack_same pd m layer newId H nb
    have hother : ∀ i, i ≠ nb → (linkBack pd m layer newId H nb).nbrs i layer = H.nbrs i layer :=
      fun i hi => linkBack_nbrs_of_ne _ _ _ _ _ _ _ _ (Or.inl hi)
    have hrest : ∀ x ∈ rest, x ≠ nb := fun x hx hxe => hnd.1 (hxe ▸ hx)
    have h2 := ih (linkBack pd m layer newId H nb) hnd.2 (by
      intro x hx
      have := hc x (List.mem_cons_of_mem _ hx)
      rw [hsame.1, hsame.2.1, hother x (hrest x hx)]
      exact this)
    have hnbc := hc nb (List.mem_cons_self ..)
    refine ⟨?_, ?_⟩
    · intro i hi
      have hi1 : i ≠ nb := fun h => hi (h ▸ List.mem_cons_self ..)
      have hi2 : i ∉ rest := fun h => hi (List.mem_cons_of_mem _ h)
      rw [h2.1 i hi2, hother i hi1]
    · intro i hi
      rcases List.mem_cons.mp hi with rfl | hi
      · rw [h2.1 i hnd.1]
        exact linkBack_nbrs_self_noprune pd m layer newId H i hnbc.1 hnbc.2.1 hnbc.2.2
      · have := h2.2 i hi
        rw [hother i (hrest i hi)] at this
        exact this

theorem greedyF_lt (g : Graph) (dist : Nat → Nat) (layer n fuel cur curD : Nat)
    (hlt : ∀ id x, x ∈ g.nbrs id layer → x < n) (h : cur < n) :
    greedyF g dist layer fuel cur curD < n := by
  induction fuel generalizing cur curD with
  | zero => exact h
  | succ k ih =>
    rw [greedyF]
    split
    · apply ih
      rcases greedyPass_fst dist (g.nbrs cur layer) cur curD with h1 | h1
      · rw [h1]; exact h
      · exact hlt _ _ h1
    · exact h

theorem descend_lt (g : Graph) (dist : Nat → Nat) (n cur lo hi : Nat)
    (hlt : ∀ layer id x, x ∈ g.nbrs id layer → x < n) (h : cur < n) :
    descend g dist cur lo hi < n := by
  unfold descend
  generalize layersDesc lo hi = ls
  induction ls generalizing cur with
  | nil => exact h
  | cons L rest ih =>
    rw [List.foldl_cons]
    exact ih _ (greedyF_lt g dist L n _ cur _ (hlt L) h)

theorem pushNode_nbrs_eq (g : Graph) (level id layer : Nat) :
    (pushNode g level).nbrs id layer = g.nbrs id layer := by
  simp only [pushNode, Graph.nbrs, List.getD_eq_getElem?_getD]
  by_cases hid : id < g.nodes.length
  · rw [List.getElem?_append_left hid]
  · rw [List.getElem?_append_right (by omega), List.getElem?_eq_none (l := g.nodes) (by omega)]
    by_cases h0 : id - g.nodes.length = 0
    · rw [h0]
      simp only [List.getElem?_cons_zero, Option.getD_some, Option.getD_none, List.getElem?_replicate,
        List.getElem?_nil]
      split <;> rfl
    · obtain ⟨k, hk⟩ := Nat.exists_eq_succ_of_ne_zero h0
      rw [hk]
      simp

theorem pushNode_wf (g : Graph) (level : Nat) (hg : WF g) (hne : g.entry ≠ none) : WF (pushNode g level) := by
  have hcore := pushNode_core g level hg
  refine ⟨hcore.1, ?_, ?_, hcore.2⟩
  · intro e he
    have he' : g.entry = some e := he
    have hentry := hg.2.1 e he'
    refine ⟨by rw [pushNode_size]; omega, ?_⟩
    rw [pushNode_layersOf_old g level e hentry.1]
    exact hentry.2
  · intro he; exact absurd he hne

theorem connectLayer_zero_fst (cfg : Cfg) (pd : Nat → Nat → Nat) (dist : Nat → Nat) (newId : Nat)
    (acc : Graph × Nat) :
    (connectLayer cfg pd dist newId acc 0).1 =
      (((searchLayer acc.1 dist acc.2 cfg.efc 0).take cfg.m0).map (·.1)).foldl
        (linkBack pd cfg.m0 0 newId)
        (setNbrs acc.1 newId 0
          (acc.1.nbrs newId 0 ++ ((searchLayer acc.1 dist acc.2 cfg.efc 0).take cfg.m0).map (·.1))) := rfl

/-- linking the new node `s` on layer 0 of a graph whose old nodes `0..s-1` form a complete layer 0 -/
theorem connectLayer0_complete (cfg : Cfg) (pd : Nat → Nat → Nat) (dist : Nat → Nat)
    (G : Graph) (cur s : Nat) (hw : WF G) (hsz : G.size = s + 1) (hcur : cur < s)
    (hold : ∀ i j, i < s → j < s → i ≠ j → j ∈ G.nbrs i 0)
    (hlt : ∀ i x, x ∈ G.nbrs i 0 → x < s)
    (hnd : ∀ i, (G.nbrs i 0).Nodup)
    (hsnil : G.nbrs s 0 = [])
    (hm : s + 1 ≤ cfg.m0) (he : s ≤ cfg.efc) :
    Complete0 (connectLayer cfg pd dist s (G, cur) 0).1 ∧
    ∀ i, ((connectLayer cfg pd dist s (G, cur) 0).1.nbrs i 0).Nodup := by
  have hucur : Usable G cur 0 := ⟨by omega, hw.2.2.2 cur (by omega)⟩
  have hus : Usable G s 0 := ⟨by omega, hw.2.2.2 s (by omega)⟩
  have hsame := (connectLayer_wf cfg pd dist s (G, cur) 0 hw hucur hus).2.1
  have hstar : ∀ j, j < s → j ≠ cur → j ∈ G.nbrs cur 0 := fun j hj hne => hold cur j hcur hj (Ne.symm hne)
  have hall := searchLayer_complete G hw dist cur cfg.efc 0 s hucur hcur he hstar hlt
  have hlts := searchLayer_lt G hw dist cur cfg.efc 0 s hucur hcur hlt
  have hlen := searchLayer_complete_length G hw dist cur cfg.efc 0 s hucur hcur he hstar hlt
  have hnodup := (searchLayer_spec G hw dist cur cfg.efc 0 hucur).1
  rw [connectLayer_zero_fst] at hsame ⊢
  dsimp only at hsame ⊢
  rw [List.take_of_length_le (by omega), hsnil, List.nil_append] at hsame ⊢
  generalize hsel : (searchLayer G dist cur cfg.efc 0).map (·.1) = sel at hsame hall hnodup ⊢
  have hselmem : ∀ j, j ∈ sel ↔ j < s := by
    intro j
    constructor
    · intro hj
      rw [← hsel] at hj
      obtain ⟨y, hy, rfl⟩ := List.mem_map.mp hj
      exact hlts y hy
    · exact hall j
  have hs1 := setNbrs_same G s 0 sel
  have hg1s : (setNbrs G s 0 sel).nbrs s 0 = sortNat sel := setNbrs_nbrs_self G s 0 sel hus.1 hus.2
  have hg1o : ∀ i, i ≠ s → (setNbrs G s 0 sel).nbrs i 0 = G.nbrs i 0 :=
    fun i hi => setNbrs_nbrs_of_ne G s 0 sel i 0 (Or.inl hi)
  have hfold := fold_linkBack_nbrs pd cfg.m0 0 s sel (setNbrs G s 0 sel) hnodup (by
    intro nb hnb
    have hnbs := (hselmem nb).mp hnb
    rw [hs1.1, hs1.2.1, hg1o nb (by omega)]
    refine ⟨by omega, hw.2.2.2 nb (by omega), ?_⟩
    have := nodup_bound (G.nbrs nb 0) s (hnd nb) (hlt nb)
    omega)
  generalize sel.foldl (linkBack pd cfg.m0 0 s) (setNbrs G s 0 sel) = G2 at hsame hfold ⊢
  have hold2 : ∀ i, i < s → (G2.nbrs i 0).Perm (s :: G.nbrs i 0) := by
    intro i hi
    have := hfold.2 i ((hselmem i).mpr hi)
    rw [hg1o i (by omega)] at this
    exact this
  have hnew2 : G2.nbrs s 0 = sortNat sel := by
    rw [hfold.1 s (fun h => by have := (hselmem s).mp h; omega), hg1s]
  refine ⟨?_, ?_⟩
  · intro i j hi hj hij
    rw [hsame.1, hsz] at hi hj
    by_cases his : i < s
    · apply (hold2 i his).symm.subset
      by_cases hjs : j < s
      · exact List.mem_cons_of_mem _ (hold i j his hjs hij)
      · have : j = s := by omega
        rw [this]; exact List.mem_cons_self ..
    · have : i = s := by omega
      subst this
      rw [hnew2]
      exact (sortNat_mem _ _).mpr ((hselmem j).mpr (by omega))
  · intro i
    by_cases his : i < s
    · refine (hold2 i his).nodup_iff.mpr (List.nodup_cons.mpr ⟨?_, hnd i⟩)
      intro hmem
      have := hlt i s hmem
      omega
    · by_cases hieq : i = s
      · rw [hieq, hnew2]
        exact (sortBy_perm _ sel).nodup_iff.mpr hnodup
      · rw [hfold.1 i (fun h => his ((hselmem i).mp h)), hg1o i hieq]
        exact hnd i

theorem connectLayer_snd (cfg : Cfg) (pd : Nat → Nat → Nat) (dist : Nat → Nat) (newId : Nat)
    (acc : Graph × Nat) (layer : Nat) :
    (connectLayer cfg pd dist newId acc layer).2 =
      match (searchLayer acc.1 dist acc.2 cfg.efc layer).head? with
      | some n => n.1
      | none => acc.2 := rfl

theorem fold_connect_complete (cfg : Cfg) (pd : Nat → Nat → Nat) (dist : Nat → Nat) (g : Graph) (s : Nat)
    (hgs : g.size = s) (hg : WF g) (hc : Complete0 g) (hnd : ∀ i, (g.nbrs i 0).Nodup)
    (hm : s + 1 ≤ cfg.m0) (he : s ≤ cfg.efc)
    (ls : List Nat) (acc : Graph × Nat)
    (hw : WF acc.1) (hsz : acc.1.size = s + 1) (hnew : ∀ l ∈ ls, l < acc.1.layersOf s)
    (hcur : acc.2 < s) (hu : ∀ l ∈ ls, Usable acc.1 acc.2 l)
    (heq : ∀ l ∈ ls, ∀ i, acc.1.nbrs i l = g.nbrs i l)
    (hp : ls.Pairwise (fun a b => b < a)) (h0 : 0 ∈ ls) :
    Complete0 (ls.foldl (connectLayer cfg pd dist s) acc).1 ∧
    ∀ i, ((ls.foldl (connectLayer cfg pd dist s) acc).1.nbrs i 0).Nodup := by
  induction ls generalizing acc with
  | nil => cases h0
  | cons L rest ih =>
    rw [List.foldl_cons]
    have hp' := List.pairwise_cons.mp hp
    by_cases hL : L = 0
    · subst hL
      have hrest : rest = [] := by
        cases rest with
        | nil => rfl
        | cons a b => have := hp'.1 a (List.mem_cons_self ..); omega
      subst hrest
      rw [List.foldl_nil]
      have heq0 := heq 0 (List.mem_cons_self ..)
      have := connectLayer0_complete cfg pd dist acc.1 acc.2 s hw hsz hcur
        (by intro i j hi hj hij; rw [heq0 i]; exact hc i j (by omega) (by omega) hij)
        (by intro i x hx; rw [heq0 i] at hx; have := (hg.1 _ _ _ hx).1; omega)
        (by intro i; rw [heq0 i]; exact hnd i)
        (by
          rw [heq0 s]
          unfold Graph.nbrs
          unfold Graph.size at hgs
          have hnone : g.nodes[s]? = none := List.getElem?_eq_none (by omega)
          simp only [List.getD_eq_getElem?_getD, hnone, Option.getD_none, List.getElem?_nil])
        hm he
      exact this
    · have hLmem := List.mem_cons_self (a := L) (l := rest)
      have h0' : 0 ∈ rest := by
        rcases List.mem_cons.mp h0 with h | h
        · exact absurd h.symm hL
        · exact h
      have hus : Usable acc.1 s L := ⟨by omega, hnew L hLmem⟩
      have hstep := connectLayer_wf cfg pd dist s acc L hw (hu L hLmem) hus
      apply ih (connectLayer cfg pd dist s acc L) hstep.1
      · rw [hstep.2.1.1]; exact hsz
      · intro l hl
        rw [hstep.2.1.2.1]
        exact hnew l (List.mem_cons_of_mem _ hl)
      · rw [connectLayer_snd]
        split
        · rename_i n hhead
          exact searchLayer_lt acc.1 hw dist acc.2 cfg.efc L s (hu L hLmem) hcur
            (by intro id x hx; rw [heq L hLmem id] at hx; have := (hg.1 _ _ _ hx).1; omega)
            n (List.mem_of_mem_head? hhead)
        · exact hcur
      · intro l hl
        exact hstep.2.2.mono (Nat.le_of_lt (hp'.1 l hl))
      · intro l hl i
        rw [connectLayer_nbrs_layer_ne _ _ _ _ _ _ _ _ (by have := hp'.1 l hl; omega)]
        exact heq l (List.mem_cons_of_mem _ hl) i
      · exact hp'.2
      · exact h0'

theorem insert_complete (cfg : Cfg) (pd : Nat → Nat → Nat) (g : Graph) (level : Nat) (hg : WF g)
    (hc : Complete0 g) (hnd : ∀ i, (g.nbrs i 0).Nodup) (hm : g.size + 1 ≤ cfg.m0) (he : g.size ≤ cfg.efc) :
    Complete0 (insert cfg pd g level) ∧ ∀ i, ((insert cfg pd g level).nbrs i 0).Nodup := by
  rw [insert_eq]
  cases hent : g.entry with
  | none =>
    dsimp only
    have hs0 := hg.2.2.1 hent
    refine ⟨?_, ?_⟩
    · intro i j hi hj hij
      have hsz : (pushNode g level).size = g.size + 1 := pushNode_size g level
      have hi' : i < (pushNode g level).size := hi
      have hj' : j < (pushNode g level).size := hj
      omega
    · intro i
      show ((pushNode g level).nbrs i 0).Nodup
      rw [pushNode_nbrs_eq]; exact hnd i
  | some e =>
    dsimp only
    have hentry := hg.2.1 e hent
    have hg0 := pushNode_wf g level hg (by rw [hent]; intro h; cases h)
    have hsz := pushNode_size g level
    have hnew := pushNode_layersOf_new g level
    have hue : Usable (pushNode g level) e g.maxLayer :=
      ⟨by omega, by rw [pushNode_layersOf_old g level e hentry.1]; exact hentry.2⟩
    have hcur := descend_usable (pushNode g level) hg0 (fun x => pd x g.size) e (level + 1) g.maxLayer hue
    have hcurlt := descend_lt (pushNode g level) (fun x => pd x g.size) g.size e (level + 1) g.maxLayer
      (by intro layer id x hx; rw [pushNode_nbrs_eq] at hx; exact (hg.1 _ _ _ hx).1) hentry.1
    have hfold := fold_connect_complete cfg pd (fun x => pd x g.size) g g.size rfl hg hc hnd hm he
      (layersDesc 0 (min level g.maxLayer))
      (pushNode g level, descend (pushNode g level) (fun x => pd x g.size) e (level + 1) g.maxLayer)
      hg0 hsz
      (by intro l hl; have := (layersDesc_mem hl).2; rw [hnew]; omega)
      hcurlt
      (by intro l hl; have := (layersDesc_mem hl).2; exact hcur.mono (by omega))
      (by intro l _ i; exact pushNode_nbrs_eq g level i l)
      (layersDesc_pairwise _ _)
      (by unfold layersDesc; rw [List.mem_reverse, List.mem_range'_1]; omega)
    split
    · exact hfold
    · exact hfold

theorem foldl_insert_complete (cfg : Cfg) (pd : Nat → Nat → Nat) (levels : List Nat) (g : Graph)
    (hg : WF g) (hc : Complete0 g) (hnd : ∀ i, (g.nbrs i 0).Nodup)
    (hm : g.size + levels.length ≤ cfg.m0) (he : g.size + levels.length ≤ cfg.efc) :
    Complete0 (levels.foldl (insert cfg pd) g) := by
  induction levels generalizing g with
  | nil => exact hc
  | cons l rest ih =>
    rw [List.foldl_cons]
    rw [List.length_cons] at hm he
    have h1 := insert_wf_size cfg pd g l hg
    have h2 := insert_complete cfg pd g l hg hc hnd (by omega) (by omega)
    exact ih _ h1.1 h2.1 h2.2 (by rw [h1.2]; omega) (by rw [h1.2]; omega)

theorem build_complete (cfg : Cfg) (pd : Nat → Nat → Nat) (levels : List Nat)
    (hm : levels.length ≤ cfg.m0) (he : levels.length ≤ cfg.efc) : Complete0 (build cfg pd levels) := by
  unfold build
  apply foldl_insert_complete cfg pd levels Graph.empty wf_empty
  · intro i j hi; simp [Graph.empty, Graph.size] at hi
  · intro i; simp [Graph.empty, Graph.nbrs]
  · simpa [Graph.empty, Graph.size] using hm
  · simpa [Graph.empty, Graph.size] using he

theorem small_index_search_exact_core (cfg : Cfg) (pd : Nat → Nat → Nat) (levels : List Nat)
    (hm : levels.length ≤ cfg.m0) (he : levels.length ≤ cfg.efc) (dist : Nat → Nat) (k ef : Nat)
    (hef : levels.length ≤ max ef k) :
    let r := searchEf (build cfg pd levels) dist k ef
    r.length = min k levels.length ∧ (r.map (·.1)).Nodup ∧
    (∀ x ∈ r, x.1 < levels.length ∧ x.2 = dist x.1) ∧
    r.Pairwise (fun a b => a.2 ≤ b.2) ∧
    (∀ x ∈ r, ∀ j, j < levels.length → j ∉ r.map (·.1) → x.2 ≤ dist j) := by
  intro r
  have hw := build_wf_size cfg pd levels
  have hc := build_complete cfg pd levels hm he
  have h1 := searchEf_contract (build cfg pd levels) hw.1 dist k ef
  have h2 := searchEf_exact_of_complete (build cfg pd levels) hw.1 hc dist k ef (by rw [hw.2]; exact hef)
  rw [hw.2] at h2
  refine ⟨h2.1, h1.2.1, ?_, h1.2.2.2.1, h2.2⟩
  intro x hx
  have := h1.2.2.1 x hx
  rw [hw.2] at this
  exact this

end Neumann.Vec.Hnsw
