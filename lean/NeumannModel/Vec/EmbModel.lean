import NeumannModel.Vec.Model
/-
  C06 — model of `tensor_store::EmbeddingStorage` (tensor_store/src/hnsw.rs:564) for the node
  representations `HNSWIndex::insert` / `insert_auto` / `insert_sparse` produce (`Dense(Vec<f32>)`
  and `Sparse(SparseVector)`), of the PER-REPRESENTATION distance functions every search and every
  insert of the index goes through
    * `distance_dense(query, metric)` (:1157; `search`, `search_with_ef`, and `try_insert_embedding`,
      which searches with `nodes[new].embedding.to_dense()` as the query),
    * `distance_sparse(query, metric)` (:1175; `search_sparse`),
    * `try_distance_embeddings(a, b)` (:2417; pruning of over-full neighbour lists),
  of the `SparseVector` primitives under them (tensor_store/src/sparse_vector.rs: `dot_dense` :450,
  `dot_f64` :419, `magnitude_f64` :554, `euclidean_distance_squared_f64` :965, `to_dense` :400),
  and of the engine entry points that hand such an index to a search
  (`build_hnsw_index_with_options` + `search_with_hnsw`, vector_engine/src/lib.rs:2437 / :2530;
  `search_in_collection` answering from an index cached with `cache_hnsw_index`, :1627).

  Import-free (core Lean + the import-free `Vec.Model`), total, computable.

  Same exact-input domain as `Vec.Model`: vectors are lists of `Int` (the harness drives the real
  code with small integer-valued `f32` vectors, on which every product and sum — `f32` SIMD lanes
  in the dense arms, `f64` accumulators in the sparse arms — is exact), and a distance is its
  exact ingredients `Score` (`p`, `r`), from which the code's `f32` distance and the similarity it
  reports are one fixed function each (`1 - p/(√r·|q|)`, `√p`, `-p`; `to_similarity`).  The two
  representations therefore have to produce THE SAME ingredients, which is what `EmbProps.lean`
  proves of the functions below; the remaining representation-dependent part is the rounding of
  those last operations (`f64` in `SparseVector::cosine_distance_dense`, `f32` elsewhere), which the
  harness bounds by 1e-5.

  Quantised / product-quantised / binary / tensor-train nodes are lossy by design (their scores are
  those of the reconstruction, not of the inserted vector) and are not modelled; `Delta` nodes are
  refused by `try_insert_embedding`.
-/
namespace Neumann.Vec

/-! ## 1. Node representations -/

/-- how a vector gets into the index -/
inductive NodeStorage where
  /-- `HNSWIndex::insert` (`HNSWStorageStrategy::Dense`) -/
  | dense
  /-- `HNSWIndex::insert_auto` (`HNSWStorageStrategy::Auto`) -/
  | auto
  /-- `HNSWIndex::insert_sparse(SparseVector::from_dense(v))` -/
  | sparse
  deriving DecidableEq

/-- `insert_auto` (hnsw.rs:1671-1680) with the default `sparsity_threshold = 0.5`:
    `nnz = count(x != 0.0)`, `1.0 - nnz/len >= 0.5`, i.e. `2·nnz ≤ len` (the empty vector gives
    `0/0 = NaN`, every comparison with it is false: dense). -/
def insertAuto (v : List Int) : Stored Int :=
  if !v.isEmpty && decide (2 * (v.filter fun x => !intOps.isZero x).length ≤ v.length)
  then fromDense intOps v else .dense v

def nodeOf : NodeStorage → List Int → Stored Int
  | .dense, v => .dense v
  | .auto, v => insertAuto v
  | .sparse, v => fromDense intOps v

/-- `SparseVector`'s invariant (`positions` strictly increasing and below `dimension`), relative to
    a window `lo ≤ pos < hi` -/
def SpWF (lo hi : Nat) : List (Nat × Int) → Prop
  | [] => True
  | e :: es => lo ≤ e.1 ∧ e.1 < hi ∧ SpWF (e.1 + 1) hi es

def StoredWF : Stored Int → Prop
  | .dense _ => True
  | .sparse d es => SpWF 0 d es

/-- `EmbeddingStorage::dimension` -/
def embDim : Stored Int → Nat
  | .dense v => v.length
  | .sparse d _ => d

/-! ## 2. `SparseVector` primitives -/

/-- `dot_dense` (:450; also the dot product inside `cosine_distance_dense` :606):
    `Σ val · dense[pos]` over the stored entries.  (`dense[pos]` out of range would panic; it
    never is for a well-formed vector and a `dense` of its dimension — read as `0` here.) -/
def spDotDense : List (Nat × Int) → List Int → Int
  | [], _ => 0
  | e :: es, q => e.2 * q.getD e.1 0 + spDotDense es q

/-- `magnitude_f64` squared (:554): `Σ val²` over the stored entries -/
def spNormSq : List (Nat × Int) → Int
  | [] => 0
  | e :: es => e.2 * e.2 + spNormSq es

/-- `dot_f64` (:419): two-pointer merge over the position lists; only equal positions contribute.
    Structural on a fuel that is never exhausted (each iteration consumes an entry of one side;
    started with the two lengths + 1: `spDotF_fuel` in the lemmas). -/
def spDotF : Nat → List (Nat × Int) → List (Nat × Int) → Int
  | 0, _, _ => 0
  | _ + 1, [], _ => 0
  | _ + 1, _ :: _, [] => 0
  | fuel + 1, a :: as, b :: bs =>
    if a.1 = b.1 then a.2 * b.2 + spDotF fuel as bs
    else if a.1 < b.1 then spDotF fuel as (b :: bs)
    else spDotF fuel (a :: as) bs

def spDot (a b : List (Nat × Int)) : Int := spDotF (a.length + b.length + 1) a b

/-- `euclidean_distance_squared_f64` (:965): the merge runs until BOTH sides are exhausted; a
    position present on one side only contributes that value squared. -/
def spSqDistF : Nat → List (Nat × Int) → List (Nat × Int) → Int
  | 0, _, _ => 0
  | _ + 1, [], [] => 0
  | fuel + 1, [], b :: bs => b.2 * b.2 + spSqDistF fuel [] bs
  | fuel + 1, a :: as, [] => a.2 * a.2 + spSqDistF fuel as []
  | fuel + 1, a :: as, b :: bs =>
    if a.1 = b.1 then (a.2 - b.2) * (a.2 - b.2) + spSqDistF fuel as bs
    else if a.1 < b.1 then a.2 * a.2 + spSqDistF fuel as (b :: bs)
    else (-b.2) * (-b.2) + spSqDistF fuel (a :: as) bs

def spSqDist (a b : List (Nat × Int)) : Int := spSqDistF (a.length + b.length + 1) a b

/-! ## 3. `EmbeddingStorage`: distance to a dense query (`distance_dense`) -/

/-- `try_dot_with_dense` (:788): `simd::dot_product(v, query)` / `s.dot_dense(query)` -/
def embDotDense : Stored Int → List Int → Int
  | .dense v, q => dotI v q
  | .sparse _ es, q => spDotDense es q

/-- `try_magnitude` squared (:971): `simd::magnitude(v)` / `s.magnitude()` -/
def embNormSq : Stored Int → Int
  | .dense v => normSq v
  | .sparse _ es => spNormSq es

/-- `euclidean_distance_dense` squared (:1084): the sparse arm materialises the node
    (`s.to_dense()`) and takes `simd::euclidean_distance` over ALL positions -/
def embSqDistDense : Stored Int → List Int → Int
  | .dense v, q => sqDist v q
  | .sparse d es, q => sqDist (toDense intOps (.sparse d es)) q

/-- `distance_dense(query, metric)` as exact ingredients, in the convention of `Vec.Model.Score`
    (cosine: `p` = dot product, `r` = |node|², distance `1 - p/(√r·|q|)`, `1` when a magnitude is
    zero; Euclidean: `p` = squared distance; dot product: `p` = dot product, distance `-p`) -/
def distDense : Metric → Stored Int → List Int → Score
  | .cosine, s, q => ⟨embDotDense s q, embNormSq s⟩
  | .euclid, s, q => ⟨embSqDistDense s q, 0⟩
  | .dot, s, q => ⟨embDotDense s q, 0⟩

/-- NOT the code: a sparse arm of `euclidean_distance_dense` that walks the stored entries only
    (`Σ (val - query[pos])²` over the node's support, O(nnz)), dropping the query's components
    where the node is zero.  Kept for the witness `sparse_euclid_over_support_only_witness`. -/
def spSqDistSupport : List (Nat × Int) → List Int → Int
  | [], _ => 0
  | e :: es, q => (e.2 - q.getD e.1 0) * (e.2 - q.getD e.1 0) + spSqDistSupport es q

def embSqDistDenseSupport : Stored Int → List Int → Int
  | .dense v, q => sqDist v q
  | .sparse _ es, q => spSqDistSupport es q

def distDenseSupport : Metric → Stored Int → List Int → Score
  | .euclid, s, q => ⟨embSqDistDenseSupport s q, 0⟩
  | m, s, q => distDense m s q

/-! ## 4. Distance to a sparse query (`distance_sparse`) and between nodes (`try_distance_embeddings`) -/

/-- `try_dot_with_sparse` (:879): `query.dot_dense(v)` / `s.dot(query)` -/
def embDotSparse : Stored Int → List (Nat × Int) → Int
  | .dense v, qs => spDotDense qs v
  | .sparse _ es, qs => spDot es qs

/-- `euclidean_distance_sparse` squared (:1108): `simd::euclidean_distance(v, query.to_dense())` /
    `s.euclidean_distance(query)`; `d` = the query's `dimension` -/
def embSqDistSparse : Stored Int → Nat → List (Nat × Int) → Int
  | .dense v, d, qs => sqDist v (toDense intOps (.sparse d qs))
  | .sparse _ es, _, qs => spSqDist es qs

/-- `distance_sparse(query, metric)` -/
def distSparse : Metric → Stored Int → Nat → List (Nat × Int) → Score
  | .cosine, s, _, qs => ⟨embDotSparse s qs, embNormSq s⟩
  | .euclid, s, d, qs => ⟨embSqDistSparse s d qs, 0⟩
  | .dot, s, _, qs => ⟨embDotSparse s qs, 0⟩

/-- the dot product inside `try_cosine_distance` (:2437) / `try_dot_product_distance` (:2632) -/
def embDot : Stored Int → Stored Int → Int
  | .dense a, .dense b => dotI a b
  | .sparse _ a, .sparse _ b => spDot a b
  | .dense v, .sparse _ s => spDotDense s v
  | .sparse _ s, .dense v => spDotDense s v

/-- `try_euclidean_distance` squared (:2549) -/
def embSqDist : Stored Int → Stored Int → Int
  | .dense a, .dense b => sqDist a b
  | .sparse _ a, .sparse _ b => spSqDist a b
  | .dense v, .sparse d s => sqDist (toDense intOps (.sparse d s)) v
  | .sparse d s, .dense v => sqDist (toDense intOps (.sparse d s)) v

/-! ## 5. What an index over such nodes reports, and the engine entry points -/

/-- the nodes of an index built over `snap` with one storage strategy
    (`build_hnsw_index_with_options`: `insert_with_strategy` for every key in scan order) -/
def indexNodes (σ : NodeStorage) (snap : Snap) : List (Stored Int) := snap.map fun e => nodeOf σ e.2

/-- `index.search(query, k)` as its caller sees it: for the node ids the graph search selected,
    `(id, to_similarity(distance_dense(nodes[id], query)))` -/
def indexReport (m : Metric) (nodes : List (Stored Int)) (q : List Int) (ids : List Nat) : List (Nat × Score) :=
  ids.filterMap fun i => (nodes[i]?).map fun s => (i, distDense m s q)

/-- the same with the seeded shortcut in the sparse Euclidean arm -/
def indexReportSupport (m : Metric) (nodes : List (Stored Int)) (q : List Int) (ids : List Nat) :
    List (Nat × Score) :=
  ids.filterMap fun i => (nodes[i]?).map fun s => (i, distDenseSupport m s q)

/-- the engine's post-processing of an index answer (lib.rs:1634-1649, 2558-2567): node ids mapped
    through the key list, sorted by score (a no-op when the index's order is already the order of
    `m`), truncated -/
def postProcessAnnM (m : Metric) (snap : Snap) (ann : List (Nat × Score)) (k : Nat) : List Cand :=
  (rank m (ann.filterMap fun a => (snap[a.1]?).map fun e => ⟨e.1, a.2, true⟩)).take k

/-- every vector of the query's dimension with its TRUE score under `m` -/
def snapCandsM (m : Metric) (snap : Snap) (q : List Int) : List Cand :=
  snap.filterMap fun e => if e.2.length = q.length then some ⟨e.1, score m q e.2, true⟩ else none

/-- every node of the query's dimension with the score the index computes FROM THE NODE'S
    REPRESENTATION -/
def nodeCands (m : Metric) (nodes : List (String × Stored Int)) (q : List Int) : List Cand :=
  nodes.filterMap fun e =>
    if (toDense intOps e.2).length = q.length then some ⟨e.1, distDense m e.2 q, true⟩ else none

/-- `build_hnsw_index_with_options(storage σ, distance_metric m)` over `snap`, then
    `search_with_hnsw(index, key_mapping, query, top_k)`: the argument checks and the dimension
    guard of `searchWithHnsw` (`index.get_vector(0)` = node 0 made dense), then `index.search`.
    `viaIndex snap rs ..`: `rs` = every indexed key with the score the index reports for it. -/
def searchWithHnswM (m : Metric) (σ : NodeStorage) (snap : Snap) (q : List Int) (k : Nat) : SearchOut :=
  if q.isEmpty then .err .emptyVector
  else if k = 0 then .err .invalidTopK
  else
    match snap with
    | e :: _ =>
      if (toDense intOps (nodeOf σ e.2)).length != q.length then .err .dimMismatch
      else .viaIndex snap (rank m (nodeCands m (snap.map fun x => (x.1, nodeOf σ x.2)) q)) k k
    | [] => .viaIndex [] [] k k

/-! ## 6. One named collection with a caller-supplied index of ITS metric

  `cache_hnsw_index(c, index, keys)` takes whatever index the caller built.  The engine streams
  of `Vec.Model` cache cosine indexes over dense nodes; this machine is the other half: a collection
  configured with any metric whose owner indexes its current vectors with THAT metric
  (`HNSWConfig::default().with_distance_metric(m)`) and any node storage, and caches the index. -/

structure ECol where
  /-- `VectorCollectionConfig::distance_metric` (and the metric of every index cached here) -/
  metric : Metric
  /-- key ↦ vector as `get_from_collection` reads it (`reads_see_last_write`) -/
  items : Snap
  /-- `hnsw_cache[c]`: the key list zipped with the index's nodes -/
  cache : Option (List (String × Stored Int))

def ECol.init (m : Metric) : ECol := ⟨m, [], none⟩

inductive EOp where
  /-- `store_in_collection` -/
  | store (key : String) (v : List Int)
  /-- `delete_from_collection` -/
  | delete (key : String)
  /-- index the collection's current vectors with node storage `σ` and `cache_hnsw_index` -/
  | build (σ : NodeStorage)
  /-- `invalidate_hnsw_cache` -/
  | invalidate

def sameDimsV (snap : Snap) : Bool :=
  match snap with
  | [] => true
  | e :: rest => rest.all fun x => x.2.length == e.2.length

def ECol.step (x : ECol) : EOp → ECol
  | .store key v =>
    -- lib.rs:1447-1499: every successful store invalidates the collection's cached index
    if v.isEmpty then x else { x with items := alPut x.items key v, cache := none }
  | .delete key =>
    -- lib.rs:1526-1534
    if alHas x.items key then { x with items := alDel x.items key, cache := none } else x
  | .build σ =>
    if sameDimsV x.items then { x with cache := some (x.items.map fun e => (e.1, nodeOf σ e.2)) } else x
  | .invalidate => { x with cache := none }

def ECol.run : ECol → List EOp → ECol
  | x, [] => x
  | x, op :: ops => ECol.run (x.step op) ops

/-- `search_in_collection` on that collection (lib.rs:1589-1689; no dimension in the config): the
    cached index when there is one, it is not empty and node 0 has the query's dimension; the
    exhaustive scan with the collection's metric otherwise -/
def ECol.search (x : ECol) (q : List Int) (k : Nat) : SearchOut :=
  if q.isEmpty then .err .emptyVector
  else if k = 0 then .err .invalidTopK
  else if normSq q = 0 && x.metric == .cosine then .zeroQuery
  else
    match x.cache with
    | some (n0 :: ns) =>
      if (toDense intOps n0.2).length == q.length then
        .viaIndex ((n0 :: ns).map fun e => (e.1, toDense intOps e.2))
          (rank x.metric (nodeCands x.metric (n0 :: ns) q)) k k
      else .ranked x.metric (rank x.metric (snapCandsM x.metric x.items q)) k k
    | _ => .ranked x.metric (rank x.metric (snapCandsM x.metric x.items q)) k k

end Neumann.Vec
