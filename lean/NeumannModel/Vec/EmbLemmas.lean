import NeumannModel.Vec.EmbModel
import NeumannModel.Vec.Lemmas
import Mathlib.Tactic.Ring
/- Helper lemmas for the per-representation distance functions (C06, `EmbModel.lean`). -/
namespace Neumann.Vec

/-! ### dense arithmetic -/

theorem dotI_nil_left (b : List Int) : dotI [] b = 0 := by cases b <;> rfl
theorem dotI_nil_right (a : List Int) : dotI a [] = 0 := by cases a <;> rfl
theorem sqDist_nil_left (b : List Int) : sqDist [] b = 0 := by cases b <;> rfl
theorem sqDist_nil_right (a : List Int) : sqDist a [] = 0 := by cases a <;> rfl

theorem dotI_comm (a b : List Int) : dotI a b = dotI b a := by
  induction a generalizing b with
  | nil => rw [dotI_nil_left, dotI_nil_right]
  | cons x xs ih =>
    cases b with
    | nil => rfl
    | cons y ys => simp only [dotI]; rw [ih ys, Int.mul_comm]

theorem sqDist_comm (a b : List Int) : sqDist a b = sqDist b a := by
  induction a generalizing b with
  | nil => rw [sqDist_nil_left, sqDist_nil_right]
  | cons x xs ih =>
    cases b with
    | nil => rfl
    | cons y ys => simp only [sqDist]; rw [ih ys]; ring

/-- one step of a dot product against the tail of a list from position `i` on -/
theorem dotI_cons_drop (x : Int) (xs q : List Int) (i : Nat) :
    dotI (x :: xs) (q.drop i) = x * q.getD i 0 + dotI xs (q.drop (i + 1)) := by
  by_cases h : i < q.length
  · rw [List.drop_eq_getElem_cons h]
    simp only [dotI, List.getD_eq_getElem?_getD, List.getElem?_eq_getElem h, Option.getD_some]
  · have h1 : q.drop i = [] := List.drop_eq_nil_of_le (by omega)
    have h2 : q.drop (i + 1) = [] := List.drop_eq_nil_of_le (by omega)
    have h3 : q.getD i 0 = 0 := by
      simp only [List.getD_eq_getElem?_getD]
      rw [List.getElem?_eq_none (by omega)]; rfl
    rw [h1, h2, h3, dotI_nil_right, dotI_nil_right]; simp

/-! ### the dense image of a well-formed sparse vector, position by position -/

/-- the value a sparse entry list (positions ≥ `i`, increasing) has AT position `i` ... -/
def hdAt (i : Nat) : List (Nat × Int) → Int
  | [] => 0
  | e :: _ => if e.1 = i then e.2 else 0

/-- ... and the entries for the positions after `i` -/
def tlAt (i : Nat) : List (Nat × Int) → List (Nat × Int)
  | [] => []
  | e :: es => if e.1 = i then es else e :: es

/-- positions `i .. i+n-1` of the dense image -/
def denseFrom : Nat → Nat → List (Nat × Int) → List Int
  | _, 0, _ => []
  | i, n + 1, es => hdAt i es :: denseFrom (i + 1) n (tlAt i es)

theorem denseFrom_length (i n : Nat) (es : List (Nat × Int)) : (denseFrom i n es).length = n := by
  induction n generalizing i es with
  | zero => rfl
  | succ n ih => simp [denseFrom, ih]

theorem SpWF_tlAt {i hi : Nat} {es : List (Nat × Int)} (h : SpWF i hi es) : SpWF (i + 1) hi (tlAt i es) := by
  cases es with
  | nil => trivial
  | cons e es =>
    obtain ⟨h1, h2, h3⟩ := h
    simp only [tlAt]
    split
    · rename_i he; rw [he] at h3; exact h3
    · rename_i he; exact ⟨by omega, h2, h3⟩

theorem length_tlAt_le (i : Nat) (es : List (Nat × Int)) : (tlAt i es).length ≤ es.length := by
  cases es with
  | nil => simp [tlAt]
  | cons e es => simp only [tlAt]; split <;> simp

theorem SpWF_empty_window {lo : Nat} {es : List (Nat × Int)} (h : SpWF lo lo es) : es = [] := by
  cases es with
  | nil => rfl
  | cons e es => obtain ⟨h1, h2, _⟩ := h; omega

theorem denseFrom_nil (i n : Nat) : denseFrom i n [] = List.replicate n 0 := by
  induction n generalizing i with
  | zero => rfl
  | succ n ih => simp [denseFrom, hdAt, tlAt, ih, List.replicate_succ]

/-- `to_dense` (`vec![0.0; dimension]`, then `dense[pos] = val` for each entry) of a well-formed
    entry list, generalised to a prefix already written -/
theorem foldSet_denseFrom (n : Nat) : ∀ (pre : List Int) (es : List (Nat × Int)),
    SpWF pre.length (pre.length + n) es →
    foldSet (pre ++ List.replicate n 0) es = pre ++ denseFrom pre.length n es := by
  induction n with
  | zero =>
    intro pre es h
    have : es = [] := SpWF_empty_window (by simpa using h)
    subst this
    simp [foldSet, denseFrom]
  | succ n ih =>
    intro pre es h
    cases es with
    | nil => simp [foldSet, denseFrom_nil]
    | cons e es' =>
      obtain ⟨h1, h2, h3⟩ := h
      by_cases he : e.1 = pre.length
      · have hset : (pre ++ List.replicate (n + 1) 0).set e.1 e.2 = (pre ++ [e.2]) ++ List.replicate n 0 := by
          rw [he, List.replicate_succ, List.set_append_right _ _ (Nat.le_refl _)]
          simp
        have hlen : (pre ++ [e.2]).length = pre.length + 1 := by simp
        have hw : SpWF (pre ++ [e.2]).length ((pre ++ [e.2]).length + n) es' := by
          rw [hlen, ← he]
          have : e.1 + 1 + n = pre.length + (n + 1) := by omega
          rw [this]; exact h3
        have := ih (pre ++ [e.2]) es' hw
        simp only [foldSet, List.foldl_cons] at this ⊢
        rw [hset, this, hlen]
        simp [denseFrom, hdAt, tlAt, he]
      · have hlen : (pre ++ [(0 : Int)]).length = pre.length + 1 := by simp
        have hw : SpWF (pre ++ [(0 : Int)]).length ((pre ++ [(0 : Int)]).length + n) (e :: es') := by
          rw [hlen]
          refine ⟨by omega, ?_, ?_⟩
          · omega
          · have : pre.length + 1 + n = pre.length + (n + 1) := by omega
            rw [this]; exact h3
        have := ih (pre ++ [0]) (e :: es') hw
        have hsplit : pre ++ List.replicate (n + 1) (0 : Int) = (pre ++ [0]) ++ List.replicate n 0 := by
          rw [List.replicate_succ]; simp
        rw [hsplit, this, hlen]
        simp [denseFrom, hdAt, tlAt, he]

theorem toDense_sparse (d : Nat) (es : List (Nat × Int)) (h : SpWF 0 d es) :
    toDense intOps (.sparse d es) = denseFrom 0 d es := by
  have := foldSet_denseFrom d [] es (by simpa using h)
  simpa [toDense, foldSet, intOps] using this

theorem toDense_sparse_length (d : Nat) (es : List (Nat × Int)) (h : SpWF 0 d es) :
    (toDense intOps (.sparse d es)).length = d := by
  rw [toDense_sparse d es h, denseFrom_length]

/-! ### the sparse primitives compute on the dense image -/

theorem spDotDense_step (i hi : Nat) (es : List (Nat × Int)) (q : List Int) (h : SpWF i hi es) :
    spDotDense es q = hdAt i es * q.getD i 0 + spDotDense (tlAt i es) q := by
  cases es with
  | nil => simp [spDotDense, hdAt, tlAt]
  | cons e es =>
    simp only [hdAt, tlAt]
    split
    · rename_i he; simp [spDotDense, he]
    · simp

theorem spDotDense_denseFrom (n : Nat) : ∀ (i : Nat) (es : List (Nat × Int)) (q : List Int),
    SpWF i (i + n) es → spDotDense es q = dotI (denseFrom i n es) (q.drop i) := by
  induction n with
  | zero =>
    intro i es q h
    have : es = [] := SpWF_empty_window (by simpa using h)
    subst this
    simp [spDotDense, denseFrom, dotI_nil_left]
  | succ n ih =>
    intro i es q h
    have h' : SpWF (i + 1) (i + 1 + n) (tlAt i es) := by
      have : i + 1 + n = i + (n + 1) := by omega
      rw [this]; exact SpWF_tlAt h
    rw [denseFrom, dotI_cons_drop, ← ih (i + 1) (tlAt i es) q h']
    exact spDotDense_step i _ es q h

theorem spNormSq_step (i hi : Nat) (es : List (Nat × Int)) (h : SpWF i hi es) :
    spNormSq es = hdAt i es * hdAt i es + spNormSq (tlAt i es) := by
  cases es with
  | nil => simp [spNormSq, hdAt, tlAt]
  | cons e es =>
    simp only [hdAt, tlAt]
    split
    · simp [spNormSq]
    · simp

theorem spNormSq_denseFrom (n : Nat) : ∀ (i : Nat) (es : List (Nat × Int)),
    SpWF i (i + n) es → spNormSq es = normSq (denseFrom i n es) := by
  induction n with
  | zero =>
    intro i es h
    have : es = [] := SpWF_empty_window (by simpa using h)
    subst this
    simp [spNormSq, denseFrom, normSq, dotI]
  | succ n ih =>
    intro i es h
    have h' : SpWF (i + 1) (i + 1 + n) (tlAt i es) := by
      have : i + 1 + n = i + (n + 1) := by omega
      rw [this]; exact SpWF_tlAt h
    have := ih (i + 1) (tlAt i es) h'
    simp only [normSq] at this ⊢
    rw [denseFrom]
    simp only [dotI]
    rw [← this]
    exact spNormSq_step i _ es h

theorem spDotF_nil_left (fuel : Nat) (bs : List (Nat × Int)) : spDotF fuel [] bs = 0 := by
  cases fuel <;> simp [spDotF]

theorem spDotF_nil_right (fuel : Nat) (as : List (Nat × Int)) : spDotF fuel as [] = 0 := by
  cases fuel <;> cases as <;> simp [spDotF]

/-- one position of the merge: whatever the heads are, the merge started with adequate fuel is
    the product of the two values AT position `i` plus the merge of the entries after `i`, again
    with adequate fuel -/
theorem spDotF_step (i hi : Nat) (as bs : List (Nat × Int)) (fuel : Nat)
    (ha : SpWF i hi as) (hb : SpWF i hi bs) (hf : as.length + bs.length < fuel) :
    ∃ f', (tlAt i as).length + (tlAt i bs).length < f' ∧
      spDotF fuel as bs = hdAt i as * hdAt i bs + spDotF f' (tlAt i as) (tlAt i bs) := by
  cases fuel with
  | zero => omega
  | succ f =>
    cases as with
    | nil =>
      exact ⟨(tlAt i bs).length + 1, by simp [tlAt], by simp [spDotF_nil_left, hdAt, tlAt]⟩
    | cons a as' =>
      cases bs with
      | nil =>
        exact ⟨(tlAt i (a :: as')).length + 1, by simp [tlAt], by simp [spDotF_nil_right, hdAt, tlAt]⟩
      | cons b bs' =>
        obtain ⟨ha1, ha2, ha3⟩ := ha
        obtain ⟨hb1, hb2, hb3⟩ := hb
        simp only [List.length_cons] at hf
        by_cases hai : a.1 = i
        · by_cases hbi : b.1 = i
          · refine ⟨f, ?_, ?_⟩
            · simp only [tlAt, hai, hbi, if_true]; omega
            · have hab : a.1 = b.1 := by omega
              rw [spDotF, if_pos hab]
              simp only [hdAt, tlAt, if_pos hai, if_pos hbi]
          · refine ⟨f, ?_, ?_⟩
            · simp only [tlAt, hai, hbi, if_true, if_false, List.length_cons]; omega
            · have hne : ¬ a.1 = b.1 := by omega
              have hlt : a.1 < b.1 := by omega
              rw [spDotF, if_neg hne, if_pos hlt]
              simp only [hdAt, tlAt, if_pos hai, if_neg hbi]
              simp
        · by_cases hbi : b.1 = i
          · refine ⟨f, ?_, ?_⟩
            · simp only [tlAt, hai, hbi, if_true, if_false, List.length_cons]; omega
            · have hne : ¬ a.1 = b.1 := by omega
              have hlt : ¬ a.1 < b.1 := by omega
              rw [spDotF, if_neg hne, if_neg hlt]
              simp only [hdAt, tlAt, if_neg hai, if_pos hbi]
              simp
          · refine ⟨f + 1, ?_, ?_⟩
            · simp only [tlAt, hai, hbi, if_false, List.length_cons]; omega
            · simp only [hdAt, tlAt, if_neg hai, if_neg hbi]
              simp

theorem spDotF_denseFrom (n : Nat) : ∀ (i : Nat) (as bs : List (Nat × Int)) (fuel : Nat),
    SpWF i (i + n) as → SpWF i (i + n) bs → as.length + bs.length < fuel →
    spDotF fuel as bs = dotI (denseFrom i n as) (denseFrom i n bs) := by
  induction n with
  | zero =>
    intro i as bs fuel ha _ _
    have : as = [] := SpWF_empty_window (by simpa using ha)
    subst this
    simp [spDotF_nil_left, denseFrom, dotI]
  | succ n ih =>
    intro i as bs fuel ha hb hf
    have e : i + 1 + n = i + (n + 1) := by omega
    have ha' : SpWF (i + 1) (i + 1 + n) (tlAt i as) := by rw [e]; exact SpWF_tlAt ha
    have hb' : SpWF (i + 1) (i + 1 + n) (tlAt i bs) := by rw [e]; exact SpWF_tlAt hb
    obtain ⟨f', hf', hstep⟩ := spDotF_step i _ as bs fuel ha hb hf
    rw [hstep, ih (i + 1) _ _ f' ha' hb' hf']
    simp [denseFrom, dotI]

/-- the same for the squared-distance merge -/
theorem spSqDistF_step (i hi : Nat) (as bs : List (Nat × Int)) (fuel : Nat)
    (ha : SpWF i hi as) (hb : SpWF i hi bs) (hf : as.length + bs.length < fuel) :
    (as = [] ∧ bs = [] ∧ spSqDistF fuel as bs = 0) ∨
    ∃ f', (tlAt i as).length + (tlAt i bs).length < f' ∧
      spSqDistF fuel as bs = (hdAt i as - hdAt i bs) * (hdAt i as - hdAt i bs)
        + spSqDistF f' (tlAt i as) (tlAt i bs) := by
  cases fuel with
  | zero => omega
  | succ f =>
    cases as with
    | nil =>
      cases bs with
      | nil => left; exact ⟨rfl, rfl, by simp [spSqDistF]⟩
      | cons b bs' =>
        right
        obtain ⟨hb1, hb2, hb3⟩ := hb
        simp only [List.length_cons, List.length_nil] at hf
        by_cases hbi : b.1 = i
        · refine ⟨f, ?_, ?_⟩
          · simp only [tlAt, hbi, if_true, List.length_nil]; omega
          · rw [spSqDistF]; simp only [hdAt, tlAt, if_pos hbi]; ring
        · refine ⟨f + 1, ?_, ?_⟩
          · simp only [tlAt, hbi, if_false, List.length_cons, List.length_nil]; omega
          · simp only [hdAt, tlAt, if_neg hbi]; simp
    | cons a as' =>
      right
      cases bs with
      | nil =>
        obtain ⟨ha1, ha2, ha3⟩ := ha
        simp only [List.length_cons, List.length_nil] at hf
        by_cases hai : a.1 = i
        · refine ⟨f, ?_, ?_⟩
          · simp only [tlAt, hai, if_true, List.length_nil]; omega
          · rw [spSqDistF]; simp only [hdAt, tlAt, if_pos hai]; ring
        · refine ⟨f + 1, ?_, ?_⟩
          · simp only [tlAt, hai, if_false, List.length_cons, List.length_nil]; omega
          · simp only [hdAt, tlAt, if_neg hai]; simp
      | cons b bs' =>
        obtain ⟨ha1, ha2, ha3⟩ := ha
        obtain ⟨hb1, hb2, hb3⟩ := hb
        simp only [List.length_cons] at hf
        by_cases hai : a.1 = i
        · by_cases hbi : b.1 = i
          · refine ⟨f, ?_, ?_⟩
            · simp only [tlAt, hai, hbi, if_true]; omega
            · have hab : a.1 = b.1 := by omega
              rw [spSqDistF, if_pos hab]
              simp only [hdAt, tlAt, if_pos hai, if_pos hbi]
          · refine ⟨f, ?_, ?_⟩
            · simp only [tlAt, hai, hbi, if_true, if_false, List.length_cons]; omega
            · have hne : ¬ a.1 = b.1 := by omega
              have hlt : a.1 < b.1 := by omega
              rw [spSqDistF, if_neg hne, if_pos hlt]
              simp only [hdAt, tlAt, if_pos hai, if_neg hbi]
              ring
        · by_cases hbi : b.1 = i
          · refine ⟨f, ?_, ?_⟩
            · simp only [tlAt, hai, hbi, if_true, if_false, List.length_cons]; omega
            · have hne : ¬ a.1 = b.1 := by omega
              have hlt : ¬ a.1 < b.1 := by omega
              rw [spSqDistF, if_neg hne, if_neg hlt]
              simp only [hdAt, tlAt, if_neg hai, if_pos hbi]
              ring
          · refine ⟨f + 1, ?_, ?_⟩
            · simp only [tlAt, hai, hbi, if_false, List.length_cons]; omega
            · simp only [hdAt, tlAt, if_neg hai, if_neg hbi]
              simp

theorem sqDist_denseFrom_nil (n i : Nat) : sqDist (denseFrom i n []) (denseFrom i n []) = 0 := by
  induction n generalizing i with
  | zero => rfl
  | succ n ih => simp [denseFrom, sqDist, hdAt, tlAt, ih]

theorem spSqDistF_denseFrom (n : Nat) : ∀ (i : Nat) (as bs : List (Nat × Int)) (fuel : Nat),
    SpWF i (i + n) as → SpWF i (i + n) bs → as.length + bs.length < fuel →
    spSqDistF fuel as bs = sqDist (denseFrom i n as) (denseFrom i n bs) := by
  induction n with
  | zero =>
    intro i as bs fuel ha hb hf
    have h1 : as = [] := SpWF_empty_window (by simpa using ha)
    have h2 : bs = [] := SpWF_empty_window (by simpa using hb)
    subst h1; subst h2
    cases fuel with
    | zero => omega
    | succ f => simp [spSqDistF, denseFrom, sqDist]
  | succ n ih =>
    intro i as bs fuel ha hb hf
    have e : i + 1 + n = i + (n + 1) := by omega
    have ha' : SpWF (i + 1) (i + 1 + n) (tlAt i as) := by rw [e]; exact SpWF_tlAt ha
    have hb' : SpWF (i + 1) (i + 1 + n) (tlAt i bs) := by rw [e]; exact SpWF_tlAt hb
    rcases spSqDistF_step i _ as bs fuel ha hb hf with ⟨h1, h2, h0⟩ | ⟨f', hf', hstep⟩
    · subst h1; subst h2
      rw [h0, sqDist_denseFrom_nil]
    · rw [hstep, ih (i + 1) _ _ f' ha' hb' hf']
      simp [denseFrom, sqDist]

/-! ### statements on `toDense` -/

theorem spDotDense_eq (d : Nat) (es : List (Nat × Int)) (q : List Int) (h : SpWF 0 d es) :
    spDotDense es q = dotI (toDense intOps (.sparse d es)) q := by
  rw [toDense_sparse d es h]
  have := spDotDense_denseFrom d 0 es q (by simpa using h)
  simpa using this

theorem spNormSq_eq (d : Nat) (es : List (Nat × Int)) (h : SpWF 0 d es) :
    spNormSq es = normSq (toDense intOps (.sparse d es)) := by
  rw [toDense_sparse d es h]
  exact spNormSq_denseFrom d 0 es (by simpa using h)

theorem spDot_eq (d : Nat) (a b : List (Nat × Int)) (ha : SpWF 0 d a) (hb : SpWF 0 d b) :
    spDot a b = dotI (toDense intOps (.sparse d a)) (toDense intOps (.sparse d b)) := by
  rw [toDense_sparse d a ha, toDense_sparse d b hb]
  exact spDotF_denseFrom d 0 a b _ (by simpa using ha) (by simpa using hb) (by omega)

theorem spSqDist_eq (d : Nat) (a b : List (Nat × Int)) (ha : SpWF 0 d a) (hb : SpWF 0 d b) :
    spSqDist a b = sqDist (toDense intOps (.sparse d a)) (toDense intOps (.sparse d b)) := by
  rw [toDense_sparse d a ha, toDense_sparse d b hb]
  exact spSqDistF_denseFrom d 0 a b _ (by simpa using ha) (by simpa using hb) (by omega)

/-! ### nodes are well formed and read back as inserted -/

theorem sparseEntries_wf (v : List Int) : ∀ i, SpWF i (i + v.length) (sparseEntries intOps i v) := by
  induction v with
  | nil => intro i; trivial
  | cons x xs ih =>
    intro i
    have hmono : ∀ (lo lo' hi : Nat) (es : List (Nat × Int)), lo' ≤ lo → SpWF lo hi es → SpWF lo' hi es := by
      intro lo lo' hi es hle h
      cases es with
      | nil => trivial
      | cons e es => exact ⟨by have := h.1; omega, h.2.1, h.2.2⟩
    have e : i + 1 + xs.length = i + (x :: xs).length := by simp; omega
    simp only [sparseEntries]
    split
    · have := ih (i + 1)
      rw [e] at this
      exact hmono _ _ _ _ (by omega) this
    · refine ⟨Nat.le_refl _, by simp, ?_⟩
      have := ih (i + 1)
      rw [e] at this
      exact this

theorem fromDense_wf (v : List Int) : StoredWF (fromDense intOps v) := by
  have := sparseEntries_wf v 0
  simpa [StoredWF, fromDense] using this

theorem nodeOf_wf (σ : NodeStorage) (v : List Int) : StoredWF (nodeOf σ v) := by
  cases σ with
  | dense => trivial
  | auto => simp only [nodeOf, insertAuto]; split
            · exact fromDense_wf v
            · trivial
  | sparse => exact fromDense_wf v

theorem toDense_nodeOf (σ : NodeStorage) (v : List Int) : toDense intOps (nodeOf σ v) = v := by
  cases σ with
  | dense => rfl
  | auto => simp only [nodeOf, insertAuto]; split
            · rw [toDense_fromDense, normalise_int]
            · rfl
  | sparse => simp only [nodeOf]; rw [toDense_fromDense, normalise_int]

/-! ### representation independence -/

theorem distDense_eq (m : Metric) (s : Stored Int) (q : List Int) (h : StoredWF s) :
    distDense m s q = score m q (toDense intOps s) := by
  cases s with
  | dense v =>
    cases m <;> simp only [distDense, score, embDotDense, embNormSq, embSqDistDense, toDense]
    · rw [dotI_comm]
    · rw [sqDist_comm]
    · rw [dotI_comm]
  | sparse d es =>
    have hw : SpWF 0 d es := h
    cases m <;> simp only [distDense, score, embDotDense, embNormSq, embSqDistDense]
    · rw [spDotDense_eq d es q hw, spNormSq_eq d es hw, dotI_comm]
    · rw [sqDist_comm]
    · rw [spDotDense_eq d es q hw, dotI_comm]

theorem distDense_nodeOf (m : Metric) (σ : NodeStorage) (v q : List Int) :
    distDense m (nodeOf σ v) q = score m q v := by
  rw [distDense_eq m _ q (nodeOf_wf σ v), toDense_nodeOf]

theorem nodeCands_eq (m : Metric) (σ : NodeStorage) (snap : Snap) (q : List Int) :
    nodeCands m (snap.map fun x => (x.1, nodeOf σ x.2)) q = snapCandsM m snap q := by
  induction snap with
  | nil => rfl
  | cons e rest ih =>
    simp only [nodeCands, snapCandsM, List.map_cons, List.filterMap_cons] at ih ⊢
    rw [toDense_nodeOf, distDense_nodeOf]
    split <;> simp_all

/-! ### the collection machine: the cached index is always an index of the current vectors -/

def EFresh (x : ECol) : Prop :=
  ∀ nodes, x.cache = some nodes → ∃ σ, nodes = x.items.map fun e => (e.1, nodeOf σ e.2)

theorem efresh_init (m : Metric) : EFresh (ECol.init m) := by
  intro nodes h; cases h

theorem efresh_step (x : ECol) (op : EOp) (h : EFresh x) : EFresh (x.step op) := by
  cases op with
  | store key v =>
    simp only [ECol.step]
    split
    · exact h
    · intro nodes hn; cases hn
  | delete key =>
    simp only [ECol.step]
    split
    · intro nodes hn; cases hn
    · exact h
  | build σ =>
    simp only [ECol.step]
    split
    · intro nodes hn
      simp only [Option.some.injEq] at hn
      exact ⟨σ, hn.symm⟩
    · exact h
  | invalidate =>
    intro nodes hn; cases hn

theorem efresh_run (ops : List EOp) (x : ECol) (h : EFresh x) : EFresh (x.run ops) := by
  induction ops generalizing x with
  | nil => exact h
  | cons op ops ih => exact ih _ (efresh_step x op h)

theorem emetric_step (x : ECol) (op : EOp) : (x.step op).metric = x.metric := by
  cases op <;> simp only [ECol.step] <;> (try split) <;> rfl

theorem emetric_run (ops : List EOp) (x : ECol) : (x.run ops).metric = x.metric := by
  induction ops generalizing x with
  | nil => rfl
  | cons op ops ih => rw [ECol.run, ih, emetric_step]

theorem map_toDense_nodes (σ : NodeStorage) (snap : Snap) :
    ((snap.map fun e => (e.1, nodeOf σ e.2)).map fun e => (e.1, toDense intOps e.2)) = snap := by
  induction snap with
  | nil => rfl
  | cons e rest ih =>
    simp only [List.map_cons] at ih ⊢
    rw [ih, toDense_nodeOf]

/-- whenever `search_in_collection` answers from the cached index, the index is one over the
    CURRENT vectors and the score it computes from each node's representation is the true score
    of that key's current vector under the collection's metric -/
theorem ecol_search_viaIndex (x : ECol) (h : EFresh x) (q : List Int) (k : Nat)
    (snap : Snap) (rs : List Cand) (cut k' : Nat) (hs : x.search q k = .viaIndex snap rs cut k') :
    snap = x.items ∧ rs = rank x.metric (snapCandsM x.metric x.items q) := by
  simp only [ECol.search] at hs
  split at hs
  · cases hs
  · split at hs
    · cases hs
    · split at hs
      · cases hs
      · split at hs
        · rename_i n0 ns hc
          split at hs
          · obtain ⟨σ, hσ⟩ := h _ hc
            simp only [SearchOut.viaIndex.injEq] at hs
            obtain ⟨h1, h2, _, _⟩ := hs
            rw [hσ] at h1 h2
            rw [map_toDense_nodes] at h1
            rw [nodeCands_eq] at h2
            exact ⟨h1.symm, h2.symm⟩
          · cases hs
        · cases hs

end Neumann.Vec
