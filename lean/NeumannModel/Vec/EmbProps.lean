import NeumannModel.Vec.EmbLemmas
import NeumannModel.Vec.HnswLemmas
/-
  C06 — property theorems about the node REPRESENTATIONS of the approximate index
  (`tensor_store::EmbeddingStorage::{Dense, Sparse}`, modelled in `EmbModel.lean`): the score an
  index reports for a node does not depend on the representation the node is held in, for every
  metric the index can be configured with, so "every returned key is reported with its true
  score" and "stored vectors read back exactly as written, whichever internal representation was
  chosen" hold of `insert` / `insert_auto` / `insert_sparse` nodes alike.
  ONLY property statements and their non-vacuity examples live here.

  Reading guide.  `nodeOf σ v` is the `EmbeddingStorage` that storage strategy `σ` makes of the
  vector `v`; `toDense intOps s` is `s.to_dense()` (what `get_vector` returns); `distDense m s q`
  is `s.distance_dense(q, m)` as exact ingredients (`Score`, see `Vec.Model`), `score m q v` the
  ingredients of the TRUE score of `v` for the query `q` — the ones `compute_score` of the
  exhaustive search uses.  `SpWF 0 d es` / `StoredWF s` is `SparseVector`'s invariant (positions
  strictly increasing and below the dimension).
-/
namespace Neumann.Vec.EmbProps
open Neumann.Vec Neumann.Vec.Hnsw

/-! ### nodes read back exactly as inserted -/

/-- Whatever the storage strategy, the node made of `v` is well formed, has `v`'s dimension, and
    `get_vector` reads back exactly `v` (on the exact-input domain: `-0.0` is the only `f32` the
    sparse form does not keep, see `repr_roundtrip_bits`). -/
theorem node_reads_back_as_inserted (σ : NodeStorage) (v : List Int) :
    toDense intOps (nodeOf σ v) = v ∧ StoredWF (nodeOf σ v) ∧ embDim (nodeOf σ v) = v.length := by
  refine ⟨toDense_nodeOf σ v, nodeOf_wf σ v, ?_⟩
  cases σ with
  | dense => rfl
  | auto => simp only [nodeOf, insertAuto]; split <;> rfl
  | sparse => rfl

/-! ### the `SparseVector` primitives compute on the dense image -/

/-- For EVERY pair of well-formed sparse vectors of one dimension and every dense vector `q`:
    `dot_dense`, `magnitude²`, the two-pointer `dot` and the two-pointer
    `euclidean_distance_squared` are the dot product / squared norm / squared distance of the
    vectors `to_dense` produces — no position is dropped, none is counted twice. -/
theorem sparse_primitives_compute_on_dense_image (d : Nat) (a b : List (Nat × Int)) (q : List Int)
    (ha : SpWF 0 d a) (hb : SpWF 0 d b) :
    spDotDense a q = dotI (toDense intOps (.sparse d a)) q ∧
    spNormSq a = normSq (toDense intOps (.sparse d a)) ∧
    spDot a b = dotI (toDense intOps (.sparse d a)) (toDense intOps (.sparse d b)) ∧
    spSqDist a b = sqDist (toDense intOps (.sparse d a)) (toDense intOps (.sparse d b)) :=
  ⟨spDotDense_eq d a q ha, spNormSq_eq d a ha, spDot_eq d a b ha hb, spSqDist_eq d a b ha hb⟩

/-- The two merges are structural recursions on a fuel; the fuel is never the reason they stop:
    any two fuels above the number of entries give the same result. -/
theorem merge_fuels_are_adequate (d : Nat) (a b : List (Nat × Int)) (f1 f2 : Nat)
    (ha : SpWF 0 d a) (hb : SpWF 0 d b) (h1 : a.length + b.length < f1) (h2 : a.length + b.length < f2) :
    spDotF f1 a b = spDotF f2 a b ∧ spSqDistF f1 a b = spSqDistF f2 a b := by
  have ha' : SpWF 0 (0 + d) a := by simpa using ha
  have hb' : SpWF 0 (0 + d) b := by simpa using hb
  exact ⟨by rw [spDotF_denseFrom d 0 a b f1 ha' hb' h1, spDotF_denseFrom d 0 a b f2 ha' hb' h2],
         by rw [spSqDistF_denseFrom d 0 a b f1 ha' hb' h1, spSqDistF_denseFrom d 0 a b f2 ha' hb' h2]⟩

/-! ### representation independence of every distance the index computes -/

/-- **`distance_dense` is representation independent.**  For EVERY metric, every well-formed node
    (dense, or sparse with any entry list) and every query: the ingredients `distance_dense`
    computes from the node's representation are the ingredients of the true score of the node's
    dense image.  In particular the query's components at positions where a sparse node is zero
    are accounted for (Euclidean), and nothing outside the node's support contributes to a dot
    product. -/
theorem distance_dense_is_representation_independent (m : Metric) (s : Stored Int) (q : List Int)
    (h : StoredWF s) : distDense m s q = score m q (toDense intOps s) :=
  distDense_eq m s q h

/-- ... so a vector scores the same whichever way it was inserted: the node `insert_auto` /
    `insert_sparse` / `insert` makes of `v` is scored exactly like `v` (no hypothesis left). -/
theorem sparse_node_scores_as_its_dense_image (m : Metric) (σ : NodeStorage) (v q : List Int) :
    distDense m (nodeOf σ v) q = score m q v ∧
    distDense m (nodeOf σ v) q = distDense m (.dense v) q := by
  have h1 := distDense_nodeOf m σ v q
  have h2 := distDense_nodeOf m .dense v q
  exact ⟨h1, by rw [h1]; exact h2.symm⟩

/-- **`distance_sparse`** (`search_sparse`: the QUERY is a sparse vector of the node's dimension)
    is representation independent in both arguments. -/
theorem distance_sparse_query_is_representation_independent (m : Metric) (s : Stored Int) (d : Nat)
    (qs : List (Nat × Int)) (hs : StoredWF s) (hq : SpWF 0 d qs) (hd : embDim s = d) :
    distSparse m s d qs = score m (toDense intOps (.sparse d qs)) (toDense intOps s) := by
  cases s with
  | dense v =>
    cases m <;> simp only [distSparse, score, embDotSparse, embNormSq, embSqDistSparse, toDense]
    · rw [spDotDense_eq d qs v hq] <;> rfl
    · rw [sqDist_comm] <;> rfl
    · rw [spDotDense_eq d qs v hq] <;> rfl
  | sparse d' es =>
    have hd' : d' = d := hd
    subst hd'
    have hw : SpWF 0 d' es := hs
    cases m <;> simp only [distSparse, score, embDotSparse, embNormSq, embSqDistSparse]
    · rw [spDot_eq d' es qs hw hq, spNormSq_eq d' es hw, dotI_comm]
    · rw [spSqDist_eq d' es qs hw hq, sqDist_comm]
    · rw [spDot_eq d' es qs hw hq, dotI_comm]

/-- **Node-to-node distances** (`try_distance_embeddings`, used when an over-full neighbour list
    is pruned): dot product, squared distance and squared magnitude of two nodes of one dimension
    are those of their dense images, for all four combinations of representations. -/
theorem node_to_node_distance_is_representation_independent (a b : Stored Int)
    (ha : StoredWF a) (hb : StoredWF b) (hd : embDim a = embDim b) :
    embDot a b = dotI (toDense intOps a) (toDense intOps b) ∧
    embSqDist a b = sqDist (toDense intOps a) (toDense intOps b) ∧
    embNormSq a = normSq (toDense intOps a) := by
  cases a with
  | dense va =>
    cases b with
    | dense vb => exact ⟨rfl, rfl, rfl⟩
    | sparse db eb =>
      have hw : SpWF 0 db eb := hb
      refine ⟨?_, ?_, rfl⟩
      · simp only [embDot]; rw [spDotDense_eq db eb va hw, dotI_comm] <;> rfl
      · simp only [embSqDist]; rw [sqDist_comm] <;> rfl
  | sparse da ea =>
    have hwa : SpWF 0 da ea := ha
    cases b with
    | dense vb =>
      refine ⟨?_, rfl, spNormSq_eq da ea hwa⟩
      simp only [embDot]; rw [spDotDense_eq da ea vb hwa] <;> rfl
    | sparse db eb =>
      have hdd : da = db := hd
      subst hdd
      have hwb : SpWF 0 da eb := hb
      exact ⟨spDot_eq da ea eb hwa hwb, spSqDist_eq da ea eb hwa hwb, spNormSq_eq da ea hwa⟩

/-! ### what an index over such nodes reports -/

/-- For EVERY storage strategy, metric, data set, query and EVERY list of node ids the graph
    search may select: the `(node id, score)` pairs `index.search` hands back are the node ids
    with the TRUE scores of the indexed vectors — the same pairs an index over dense nodes
    reports. -/
theorem index_reports_true_scores_for_every_storage (m : Metric) (σ : NodeStorage) (snap : Snap)
    (q : List Int) (ids : List Nat) :
    indexReport m (indexNodes σ snap) q ids
      = ids.filterMap fun i => (snap[i]?).map fun e => (i, score m q e.2) := by
  simp only [indexReport, indexNodes]
  have hf : (fun (i : Nat) => ((snap.map fun (e : String × List Int) => nodeOf σ e.2)[i]?).map
        fun (s : Stored Int) => (i, distDense m s q))
      = fun (i : Nat) => (snap[i]?).map fun (e : String × List Int) => (i, score m q e.2) := by
    funext i
    rw [List.getElem?_map]
    cases snap[i]? with
    | none => rfl
    | some e => simp only [Option.map_some, distDense_nodeOf]
  rw [hf]

/-- **Answer taken from an index of any storage strategy and any metric, end to end.**  `snap` =
    the data the index was built from, the index = ANY graph inserts could have produced over it
    (any configuration, level sequence, rounding of the distances), its nodes held the way
    strategy `σ` holds them, its metric `m`.  Whatever the graph search selects, the engine's
    answer (`search_with_hnsw`, or `search_in_collection` / `search_similar` answering from the
    cached index: node ids mapped to keys, sorted, truncated) has at most `k` entries, is ordered
    best first under `m`, names only indexed keys, names no key twice, and reports for each key
    the TRUE score under `m` of that key's indexed vector. -/
theorem index_answer_true_scores_any_storage_any_metric (snap : Snap) (hn : (snap.map (·.1)).Nodup)
    (m : Metric) (σ : NodeStorage)
    (cfg : Cfg) (pd : Nat → Nat → Nat) (levels : List Nat)
    (q : List Int) (dist : Nat → Nat) (k ef : Nat) :
    let ids := (searchEf (build cfg pd levels) dist k ef).map (·.1)
    let ans := postProcessAnnM m snap (indexReport m (indexNodes σ snap) q ids) k
    ans.length ≤ k ∧
    ans.Pairwise (fun a b => candBetter m a b = true) ∧
    (ans.map (·.key)).Nodup ∧
    (∀ c ∈ ans, ∃ vec, (c.key, vec) ∈ snap ∧ c.score = score m q vec) := by
  intro ids ans
  have hw := build_wf_size cfg pd levels
  have hc := searchEf_contract (build cfg pd levels) hw.1 dist k ef
  have hrep := index_reports_true_scores_for_every_storage m σ snap q ids
  -- the reported pairs: distinct ids, each with the true score of its vector
  have hidsub : ((indexReport m (indexNodes σ snap) q ids).map (·.1)).Sublist ids := by
    rw [hrep]
    clear hrep
    induction ids with
    | nil => simp
    | cons i rest ih =>
      cases hi : snap[i]? with
      | none => rw [List.filterMap_cons_none (by simp [hi])]; exact ih.cons _
      | some e =>
        rw [List.filterMap_cons_some (b := (i, score m q e.2)) (by simp [hi])]
        exact ih.cons_cons _
  have hnod : ((indexReport m (indexNodes σ snap) q ids).map (·.1)).Nodup := hc.2.1.sublist hidsub
  have htrue : ∀ a ∈ indexReport m (indexNodes σ snap) q ids, ∀ e, snap[a.1]? = some e → a.2 = score m q e.2 := by
    intro a ha e he
    rw [hrep] at ha
    obtain ⟨i, _, hi⟩ := List.mem_filterMap.mp ha
    cases hx : snap[i]? with
    | none => rw [hx] at hi; cases hi
    | some e' =>
      rw [hx] at hi
      simp only [Option.map_some, Option.some.injEq] at hi
      subst hi
      simp only at he ⊢
      rw [hx] at he
      cases he
      rfl
  have hperm := sortBy_perm (candBetter m)
    ((indexReport m (indexNodes σ snap) q ids).filterMap fun a => (snap[a.1]?).map fun e => (⟨e.1, a.2, true⟩ : Cand))
  refine ⟨?_, ?_, ?_, ?_⟩
  · simp only [ans, postProcessAnnM, List.length_take]; omega
  · exact (sortBy_sorted _ (candBetter_total _) (candBetter_trans _) _).sublist (List.take_sublist k _)
  · have h1 := mapped_keys_nodup snap hn _ hnod
    have h2 : ((rank m ((indexReport m (indexNodes σ snap) q ids).filterMap fun a => (snap[a.1]?).map fun e =>
        (⟨e.1, a.2, true⟩ : Cand))).map (·.key)).Nodup := (hperm.map _).nodup_iff.mpr h1
    exact h2.sublist ((List.take_sublist k _).map _)
  · intro c hcm
    have h1 := hperm.subset (List.mem_of_mem_take hcm)
    obtain ⟨a, ha, hac⟩ := List.mem_filterMap.mp h1
    cases he : snap[a.1]? with
    | none => simp [he] at hac
    | some e =>
      simp only [he, Option.map_some, Option.some.injEq] at hac
      subst hac
      exact ⟨e.2, List.mem_of_getElem? he, htrue a ha e he⟩

/-! ### the engine entry points -/

/-- **`build_hnsw_index_with_options` + `search_with_hnsw`.**  For every metric and storage
    strategy the outcome is the one of an index over DENSE nodes: the same argument errors, the
    same dimension guard, and when the index is consulted every indexed key of the query's
    dimension carries its true score under `m`; with the default metric it is the explicit-index
    path of `Vec.Model` (`searchWithHnsw`), whose theorems therefore hold of every storage
    strategy. -/
theorem explicit_index_search_is_storage_independent (m : Metric) (σ : NodeStorage) (snap : Snap)
    (q : List Int) (k : Nat) :
    searchWithHnswM m σ snap q k = searchWithHnswM m .dense snap q k ∧
    (∀ s rs cut k', searchWithHnswM m σ snap q k = .viaIndex s rs cut k' →
      s = snap ∧ (snap ≠ [] → rs = rank m (snapCandsM m snap q))) ∧
    searchWithHnswM .cosine σ snap q k = searchWithHnsw snap q k := by
  have hgen : ∀ (m' : Metric) (σ' : NodeStorage), searchWithHnswM m' σ' snap q k =
      (if q.isEmpty then SearchOut.err .emptyVector
       else if k = 0 then .err .invalidTopK
       else match snap with
         | e :: _ => if e.2.length != q.length then .err .dimMismatch
                     else .viaIndex snap (rank m' (snapCandsM m' snap q)) k k
         | [] => .viaIndex [] [] k k) := by
    intro m' σ'
    simp only [searchWithHnswM]
    cases snap with
    | nil => rfl
    | cons e rest => simp only [toDense_nodeOf, nodeCands_eq]
  refine ⟨by rw [hgen m σ, hgen m .dense], ?_, ?_⟩
  · intro s rs cut k' h
    rw [hgen m σ] at h
    split at h
    · cases h
    · split at h
      · cases h
      · cases snap with
        | nil =>
          simp only [SearchOut.viaIndex.injEq] at h
          exact ⟨h.1.symm, fun hne => absurd rfl hne⟩
        | cons e rest =>
          simp only at h
          split at h
          · cases h
          · simp only [SearchOut.viaIndex.injEq] at h
            exact ⟨h.1.symm, fun _ => h.2.1.symm⟩
  · rw [hgen .cosine σ]
    simp only [searchWithHnsw]
    cases snap with
    | nil => rfl
    | cons e rest => rfl

/-- **`search_in_collection` answering from a cached index of the collection's metric.**  For
    EVERY metric and EVERY sequence of store / delete / index-with-any-storage-strategy /
    invalidate operations on the collection: whenever the search is answered from the cached
    index, that index is one over exactly the vectors stored NOW, and the candidates it scores
    from its nodes' representations are the current keys with their true scores under the
    collection's metric — the very list the exhaustive scan ranks. -/
theorem cached_index_of_collection_metric_reports_true_scores (m : Metric) (ops : List EOp)
    (q : List Int) (k : Nat) (snap : Snap) (rs : List Cand) (cut k' : Nat)
    (h : ((ECol.init m).run ops).search q k = .viaIndex snap rs cut k') :
    snap = ((ECol.init m).run ops).items ∧
    rs = rank m (snapCandsM m ((ECol.init m).run ops).items q) := by
  have hf := efresh_run ops (ECol.init m) (efresh_init m)
  have hm : ((ECol.init m).run ops).metric = m := by rw [emetric_run]; rfl
  have := ecol_search_viaIndex _ hf q k snap rs cut k' h
  rw [hm] at this
  exact this

/-! ### the shortcut that breaks it -/

/-- A sparse Euclidean arm that sums `(val - query[pos])²` over the node's stored entries only
    (`distDenseSupport`) is NOT representation independent: for the sparse-stored `a = [1,0,0,0]`
    and the query `[1,0,0,2]` it computes squared distance `0` where the truth is `4`; an index
    over `a`, `b = [0,0,0,3]` then ranks `a` before `b` although `b` is the nearer vector (true
    squared distances `4` and `2`), while the code's arm ranks `b` first. -/
theorem sparse_euclid_over_support_only_witness :
    distDenseSupport .euclid (nodeOf .auto [1, 0, 0, 0]) [1, 0, 0, 2] = ⟨0, 0⟩ ∧
    score .euclid [1, 0, 0, 2] [1, 0, 0, 0] = ⟨4, 0⟩ ∧
    (postProcessAnnM .euclid [("a", [1, 0, 0, 0]), ("b", [0, 0, 0, 3])]
      (indexReportSupport .euclid (indexNodes .auto [("a", [1, 0, 0, 0]), ("b", [0, 0, 0, 3])]) [1, 0, 0, 2] [0, 1]) 2).map
        (fun c => (c.key, c.score.p)) = [("a", 0), ("b", 1)] ∧
    (postProcessAnnM .euclid [("a", [1, 0, 0, 0]), ("b", [0, 0, 0, 3])]
      (indexReport .euclid (indexNodes .auto [("a", [1, 0, 0, 0]), ("b", [0, 0, 0, 3])]) [1, 0, 0, 2] [0, 1]) 2).map
        (fun c => (c.key, c.score.p)) = [("b", 2), ("a", 4)] := by decide

/-- ... and that shortcut differs from the code ONLY on sparse nodes under the Euclidean metric:
    dense nodes and the other two metrics are untouched (why an index over dense nodes, or a
    cosine index over sparse nodes, does not notice). -/
theorem support_only_shortcut_differs_only_on_sparse_euclid (m : Metric) (s : Stored Int) (q : List Int)
    (h : m ≠ .euclid ∨ ∃ v, s = .dense v) : distDenseSupport m s q = distDense m s q := by
  rcases h with h | ⟨v, rfl⟩
  · cases m <;> first | rfl | exact absurd rfl h
  · cases m <;> rfl

/-! ### Non-vacuity -/

-- a well-formed sparse node that `from_dense` would NOT produce (an explicit zero entry), and a
-- query with mass outside its support
example : StoredWF (.sparse 5 [(1, 2), (3, 0), (4, -1)]) := by simp [StoredWF, SpWF]
example : distDense .euclid (.sparse 5 [(1, 2), (3, 0), (4, -1)]) [7, 2, 0, 0, 0] = ⟨50, 0⟩ := by decide
example : distDense .cosine (.sparse 5 [(1, 2), (3, 0), (4, -1)]) [7, 2, 0, 0, 0] = ⟨4, 5⟩ := by decide
-- `insert_auto` really chooses both forms
example : nodeOf .auto [0, 0, 5, 0] = .sparse 4 [(2, 5)] := by decide
example : nodeOf .auto [1, 2, 0] = .dense [1, 2, 0] := by decide
-- the merges really skip and really count one-sided positions
example : spDot [(0, 2), (3, 5)] [(1, 7), (3, 4), (6, 1)] = 20 := by decide
example : spSqDist [(0, 2), (3, 5)] [(1, 7), (3, 4), (6, 1)] = 4 + 49 + 1 + 1 := by decide
example : embDim (.sparse 7 [(0, 2), (3, 5)]) = embDim (.sparse 7 [(1, 7), (3, 4), (6, 1)]) := rfl
-- an index really is consulted by the collection machine, after a rebuild with another storage
example : (match ((ECol.init .euclid).run [.store "a" [1, 0, 0, 0], .store "b" [0, 0, 0, 3], .build .dense,
      .store "c" [0, 2, 0, 0], .build .auto]).search [1, 0, 0, 2] 2 with
    | .viaIndex _ rs _ _ => rs.map (fun c => (c.key, c.score.p)) | _ => []) = [("b", 2), ("a", 4), ("c", 9)] := by decide
-- the explicit-index path under a non-default metric
example : (match searchWithHnswM .dot .sparse [("a", [1, 0, 0, 0]), ("b", [0, 0, 0, 3])] [1, 0, 0, 2] 1 with
    | .viaIndex _ rs _ _ => rs.map (fun c => (c.key, c.score.p)) | _ => []) = [("b", 6), ("a", 1)] := by decide

end Neumann.Vec.EmbProps
