import NeumannModel.Common.Proto
import NeumannModel.Vec.Model
import NeumannModel.Vec.NsModel
import NeumannModel.Vec.HnswModel
import NeumannModel.Vec.EmbModel
/- Line-protocol driver for the vector-search model (C06).  Stateful: one engine per process,
   `reset` starts a fresh one.  Vectors are comma separated integers, `-` = empty. -/
open Neumann Neumann.Proto Neumann.Vec

/-- the HNSW index of the `h*` commands: the graph, its configuration, and the distances between
    stored vectors as the harness measured them on the real index (row `i` = node `i` to nodes
    `0..i-1`; the real distance functions are symmetric bit for bit on dense vectors) -/
structure HState where
  cfg : Hnsw.Cfg
  g : Hnsw.Graph
  rows : List (List Nat)

def HState.init : HState := ⟨⟨16, 32, 200⟩, Hnsw.Graph.empty, []⟩

def HState.pd (h : HState) (a b : Nat) : Nat :=
  if a = b then 0 else ((h.rows.getD (max a b) []).getD (min a b) 0)

structure DState where
  st : State
  h : HState := HState.init
  /-- the storage-key layer of the `ns ..` commands (its own engine) -/
  fs : Flat := Flat.init
  /-- the collection of the `e ..` commands (`EmbModel.lean`: any metric, index of that metric
      with any node storage; its own engine) -/
  ec : ECol := ECol.init .cosine

def showErr : Err → String
  | .emptyVector => "empty_vector" | .invalidTopK => "invalid_top_k"
  | .dimMismatch => "dim_mismatch" | .notFound => "not_found"
  | .collExists => "coll_exists" | .collNotFound => "coll_not_found" | .unsupported => "unsupported"
  | .batchValidation => "batch_validation"

def showMetric : Metric → String
  | .cosine => "cosine" | .euclid => "euclid" | .dot => "dot"

def parseMetric : String → Option Metric
  | "cosine" => some .cosine | "euclid" => some .euclid | "dot" => some .dot | _ => none

def parseStorage : String → Option NodeStorage
  | "dense" => some .dense | "auto" => some .auto | "sparse" => some .sparse | _ => none

def parseStrategy : String → Option Strategy
  | "auto" => some .auto | "pre" => some .pre | "post" => some .post | _ => none

def showStored : Stored Int → String
  | .dense _ => "dense"
  | .sparse _ es => "sparse:" ++ showNats (es.map (·.1))

def showResp : Resp → String
  | .ok => "ok"
  | .okRepr r => "ok " ++ showStored r
  | .okN n => s!"ok {n}"
  | .err e => "err " ++ showErr e

def showCand (c : Cand) : String :=
  s!"{c.key}|{c.score.p}|{c.score.r}|{if c.pass then 1 else 0}"

def showCands (cs : List Cand) : String := " ".intercalate (cs.map showCand)

def showOut (q : List Int) : SearchOut → String
  | .err e => "err " ++ showErr e
  | .zeroQuery => "zero"
  | .ranked m rs cut k => s!"ranked m={showMetric m} A={normSq q} cut={cut} k={k} | {showCands rs}"
  | .viaIndex snap rs cut k => s!"index m=cosine A={normSq q} cut={cut} k={k} n={snap.length} | {showCands rs}"
  -- not produced by the current code (`cached_index_dimension_guard`); kept for totality
  | .indexDimMismatch snap => s!"index_dim_mismatch n={snap.length}"

/-- an answer taken from an index whose metric is `m` (`EmbModel.lean`) -/
def showOutM (m : Metric) (q : List Int) : SearchOut → String
  | .viaIndex snap rs cut k => s!"index m={showMetric m} A={normSq q} cut={cut} k={k} n={snap.length} | {showCands rs}"
  | other => showOut q other

/-- `-` or `f=1;g=-2` -/
def parseMeta (s : String) : Option (List (String × Int)) :=
  if s = "-" then some []
  else (s.splitOn ";").mapM fun kv =>
    match kv.splitOn "=" with
    | [k, v] => v.toInt?.map fun n => (k, n)
    | _ => none

def parseCmp : String → Option Cmp
  | "eq" => some .eq | "ne" => some .ne | "lt" => some .lt
  | "le" => some .le | "gt" => some .gt | "ge" => some .ge | _ => none

/-- postfix filter: tokens separated by `;` — `T`, `eq:f:1`, `ex:f`, `in:f:1|2`, `and`, `or` -/
def parseFilter (s : String) : Option Filter :=
  let step (acc : Option (List Filter)) (tok : String) : Option (List Filter) :=
    match acc with
    | none => none
    | some stack =>
      match tok.splitOn ":" with
      | ["T"] => some (.tt :: stack)
      | ["and"] => (match stack with
          | b :: a :: rest => some (.and a b :: rest)
          | _ => none)
      | ["or"] => (match stack with
          | b :: a :: rest => some (.or a b :: rest)
          | _ => none)
      | ["ex", f] => some (.ex f :: stack)
      | ["in", f, vs] => ((vs.splitOn "|").mapM String.toInt?).map fun l => .isin f l :: stack
      | [c, f, v] => (match parseCmp c, v.toInt? with
          | some c, some n => some (.cmp c f n :: stack)
          | _, _ => none)
      | _ => none
  match (s.splitOn ";").foldl step (some []) with
  | some [f] => some f
  | _ => none

def parseKeys (s : String) : List String := if s = "-" then [] else s.splitOn ","

/-- `-` or `a:1,2;b:-;c:3` (`-` after the colon = empty vector) -/
def parseBatch (s : String) : Option (List (String × List Int)) :=
  if s = "-" then some []
  else (s.splitOn ";").mapM fun kv =>
    -- the key may itself contain `:` (`emb:k3`): the vector is what follows the LAST one
    match (kv.splitOn ":").reverse with
    | v :: k :: ks => (parseInts v).map fun v => (":".intercalate (k :: ks).reverse, v)
    | _ => none

def parseLimit (s : String) : Option (Option Nat) :=
  if s = "-" then some none else s.toNat?.map some

def parseDim (s : String) : Option (Option Nat) :=
  if s = "-" then some none else s.toNat?.map some

def fresh (x : Coll) : String :=
  match x.cache with
  | none => "none"
  | some s => if s == snapOf x.items then s!"fresh {s.length}" else s!"stale {s.length}"

/-- node ids are alpha-renamed: the harness names the nodes the real index returned by their
    keys (its key list is in the store's scan order, the model's in insertion order) -/
def annAnswer (out : SearchOut) (q : List Int) (keys : List String) : String :=
  match out with
  | .viaIndex snap _ _ k =>
    let ids := keys.filterMap fun key => snap.findIdx? (fun e => e.1 == key)
    s!"ann m=cosine A={normSq q} cut={k} k={k} n={snap.length} | {showCands (postProcessAnn snap (annWithTrueScores snap q ids) k)}"
  | other => "noindex " ++ showOut q other

/-- the same for a post-filtered search: the harness names the nodes the real index returned for
    the inner `search_similar(query, oversample_k)` -/
def annAnswerF (out : SearchOut) (cur : Items) (q : List Int) (f : Filter) (keys : List String) : String :=
  match out with
  | .viaIndex snap _ cut k =>
    let ids := keys.filterMap fun key => snap.findIdx? (fun e => e.1 == key)
    s!"ann m=cosine A={normSq q} cut={cut} k={k} n={snap.length} | {showCands (postFilterCands snap cur (annWithTrueScores snap q ids) cut f)}"
  | other => "noindex " ++ showOut q other

def vecStep (d : DState) (line : String) : DState × String :=
  let bad := (d, "bad-op")
  let doOp (op : Op) : DState × String :=
    let (st', r) := step d.st op
    ({ d with st := st' }, showResp r)
  let doNs (op : FOp) : DState × String := ({ d with fs := fstep d.fs op }, "ok")
  let showOpt (o : Option (List Int)) : String := match o with
    | some v => "ok " ++ showInts v
    | none => "err not_found"
  match words line with
  | ["reset"] => ({ d with st := State.init }, "ok")
  -- the storage-key layer (`NsModel.lean`): arbitrary key / collection strings
  | ["ns", "reset"] => ({ d with fs := Flat.init }, "ok")
  | ["ns", "store", k, v] => match parseInts v with
      | some v => doNs (.store k v) | none => bad
  | ["ns", "del", k] => if alHas d.fs.store (embKey k) then doNs (.delete k) else (d, "err not_found")
  | ["ns", "cstore", c, k, v] => match parseInts v with
      | some v => doNs (.cstore c k v) | none => bad
  | ["ns", "cdel", c, k] =>
      if alHas d.fs.store (collKey c k) then doNs (.cdelete c k) else (d, "err not_found")
  | ["ns", "build"] => doNs .build
  | ["ns", "cbuild", c] => doNs (.cbuild c)
  | ["ns", "inval", slot] => doNs (.invalidate slot)
  | ["ns", "keys"] => (d, "ok " ++ ",".intercalate d.fs.listKeys)
  | ["ns", "ckeys", c] => (d, "ok " ++ ",".intercalate (d.fs.listCollKeys c))
  | ["ns", "get", k] => (d, showOpt (d.fs.getDefault k))
  | ["ns", "cget", c, k] => (d, showOpt (d.fs.getColl c k))
  | ["ns", "search", q, k] => match parseInts q, k.toNat? with
      | some q, some k => (d, showOut q (d.fs.searchDefault q k)) | _, _ => bad
  | ["ns", "csearch", c, q, k] => match parseInts q, k.toNat? with
      | some q, some k => (d, showOut q (d.fs.searchColl c q k)) | _, _ => bad
  -- build_hnsw_index + search_with_hnsw / search_with_hnsw_and_metric on the default collection
  | ["hwith", q, k] => match parseInts q, k.toNat? with
      | some q, some k => (match buildIndex d.st with
          | some snap => (d, showOut q (searchWithHnsw snap q k))
          | none => (d, "err build_dim_mismatch"))
      | _, _ => bad
  -- the node `insert` / `insert_auto` / `insert_sparse(from_dense ..)` makes of a vector, and what
  -- `get_vector` reads back
  | ["enode", sg, v] => match parseStorage sg, parseInts v with
      | some sg, some v => (d, s!"ok {showStored (nodeOf sg v)} {showInts (toDense intOps (nodeOf sg v))}")
      | _, _ => bad
  -- `distance_dense(query, metric)` of that node: the exact ingredients
  | ["edist", m, sg, v, q] => match parseMetric m, parseStorage sg, parseInts v, parseInts q with
      | some m, some sg, some v, some q =>
        let s := distDense m (nodeOf sg v) q
        (d, s!"ok {s.p} {s.r}")
      | _, _, _, _ => bad
  -- `distance_sparse(SparseVector::from_dense(query), metric)` of that node
  | ["edists", m, sg, v, q] => match parseMetric m, parseStorage sg, parseInts v, parseInts q with
      | some m, some sg, some v, some q =>
        let s := match fromDense intOps q with
          | .sparse dim qs => distSparse m (nodeOf sg v) dim qs
          | .dense _ => ⟨0, 0⟩
        (d, s!"ok {s.p} {s.r}")
      | _, _, _, _ => bad
  -- build_hnsw_index_with_options(storage, distance_metric) + search_with_hnsw on the default collection
  | ["hwithm", m, sg, q, k] => match parseMetric m, parseStorage sg, parseInts q, k.toNat? with
      | some m, some sg, some q, some k => (match buildIndex d.st with
          | some snap => (d, showOutM m q (searchWithHnswM m sg snap q k))
          | none => (d, "err build_dim_mismatch"))
      | _, _, _, _ => bad
  -- one collection configured with a metric, indexed by its owner with that metric (`ECol`)
  | ["e", "new", m] => match parseMetric m with
      | some m => ({ d with ec := ECol.init m }, "ok") | none => bad
  | ["e", "store", k, v] => match parseInts v with
      | some v => if v.isEmpty then (d, "err empty_vector") else ({ d with ec := d.ec.step (.store k v) }, "ok")
      | none => bad
  | ["e", "del", k] =>
      if alHas d.ec.items k then ({ d with ec := d.ec.step (.delete k) }, "ok") else (d, "err not_found")
  | ["e", "build", sg] => match parseStorage sg with
      | some sg =>
        if sameDimsV d.ec.items then ({ d with ec := d.ec.step (.build sg) }, s!"ok {d.ec.items.length}")
        else (d, "err dim_mismatch")
      | none => bad
  | ["e", "inval"] => ({ d with ec := d.ec.step .invalidate }, "ok")
  | ["e", "get", k] => (d, showOpt (alGet d.ec.items k))
  | ["e", "search", q, k] => match parseInts q, k.toNat? with
      | some q, some k => (d, showOutM d.ec.metric q (d.ec.search q k)) | _, _ => bad
  -- HNSWIndex::with_config(HNSWConfig { m, m0, ef_construction, .. })
  | ["hnew", m, m0, efc] => match m.toNat?, m0.toNat?, efc.toNat? with
      | some m, some m0, some efc => ({ d with h := ⟨⟨m, m0, efc⟩, Hnsw.Graph.empty, []⟩ }, "ok")
      | _, _, _ => bad
  -- insert: the level random_level() drew, and the distances to the nodes already there
  | ["hins", lvl, ds] => match lvl.toNat?, parseNats ds with
      | some lvl, some ds =>
        if ds.length ≠ d.h.g.size then bad
        else
          let h1 : HState := { d.h with rows := d.h.rows ++ [ds] }
          let g' := Hnsw.insert h1.cfg h1.pd h1.g lvl
          ({ d with h := { h1 with g := g' } },
            s!"ok {g'.size - 1} entry={(g'.entry.map toString).getD "-"} max={g'.maxLayer}")
      | _, _ => bad
  -- search_with_ef(query, k, ef): the distances from the query to every node
  | ["hsearch", k, ef, ds] => match k.toNat?, ef.toNat?, parseNats ds with
      | some k, some ef, some ds =>
        if ds.length ≠ d.h.g.size then bad
        else
          let r := Hnsw.searchEf d.h.g (fun i => ds.getD i 0) k ef
          (d, "ok " ++ (if r.isEmpty then "-" else ",".intercalate (r.map fun x => s!"{x.1}:{x.2}")))
      | _, _, _ => bad
  | ["hdump"] =>
      (d, "ok " ++ " | ".intercalate (d.h.g.nodes.map fun ls => ";".intercalate (ls.map showNats)))
  | ["store", k, v] => match parseInts v with
      | some v => doOp (.store k v) | none => bad
  | ["storem", k, v, md] => match parseInts v, parseMeta md with
      | some v, some md => doOp (.storeMeta k v md) | _, _ => bad
  | ["del", k] => doOp (.delete k)
  | ["bdel", ks] => doOp (.batchDelete (parseKeys ks))
  | ["clear"] => doOp .clear
  | ["build"] => doOp .build
  | ["create", c, dim, m] => match parseDim dim, parseMetric m with
      | some dim, some m => doOp (.createColl c ⟨dim, m⟩) | _, _ => bad
  | ["drop", c] => doOp (.dropColl c)
  | ["cstore", c, k, v, md] => match parseInts v, parseMeta md with
      | some v, some md => doOp (.cstore c k v md) | _, _ => bad
  | ["cdel", c, k] => doOp (.cdelete c k)
  | ["cbuild", c] => doOp (.cbuild c)
  | ["inval", c] => doOp (.invalidate (if c = "-" then none else some c))
  | ["updm", k, md] => match parseMeta md with
      | some md => doOp (.updateMeta k md) | none => bad
  | ["rmf", k, f] => doOp (.removeMetaField k f)
  | ["bstore", b] => match parseBatch b with
      | some b => doOp (.batchStore b) | none => bad
  | ["searchp", q, k, skip, limit] => match parseInts q, k.toNat?, skip.toNat?, parseLimit limit with
      | some q, some k, some skip, some limit => (d, showOut q (searchPaged d.st q k skip limit))
      | _, _, _, _ => bad
  | ["searchp_ann", q, k, skip, limit, ids] => match parseInts q, k.toNat?, skip.toNat?, parseLimit limit with
      | some q, some k, some skip, some limit =>
        (d, annAnswer (searchPaged d.st q k skip limit) q (parseKeys ids))
      | _, _, _, _ => bad
  | ["get", k] => match getDefault d.st k with
      | some v => (d, "ok " ++ showInts v) | none => (d, "err not_found")
  | ["cget", c, k] => match getColl d.st c k with
      | some v => (d, "ok " ++ showInts v) | none => (d, "err not_found")
  | ["keys"] => (d, "ok " ++ ",".intercalate (d.st.dflt.items.map (·.1)))
  | ["cache"] => (d, fresh d.st.dflt)
  | ["ccache", c] => (d, fresh (collOf d.st c))
  | ["search", q, k] => match parseInts q, k.toNat? with
      | some q, some k => (d, showOut q (searchDefault d.st q k)) | _, _ => bad
  | ["search_ann", q, k, ids] => match parseInts q, k.toNat? with
      | some q, some k => (d, annAnswer (searchDefault d.st q k) q (parseKeys ids)) | _, _ => bad
  | ["searchm", m, q, k] => match parseMetric m, parseInts q, k.toNat? with
      | some m, some q, some k => (d, showOut q (searchMetric d.st m q k)) | _, _, _ => bad
  | ["searchf", q, k, strat, os, f] =>
      match parseInts q, k.toNat?, parseStrategy strat, os.toNat?, parseFilter f with
      | some q, some k, some s, some os, some f => (d, showOut q (searchFiltered d.st q k f s os))
      | _, _, _, _, _ => bad
  | ["searchf_ann", q, k, strat, os, f, ids] =>
      match parseInts q, k.toNat?, parseStrategy strat, os.toNat?, parseFilter f with
      | some q, some k, some s, some os, some f =>
        (d, annAnswerF (searchFiltered d.st q k f s os) d.st.dflt.items q f (parseKeys ids))
      | _, _, _, _, _ => bad
  | ["csearch", c, q, k] => match parseInts q, k.toNat? with
      | some q, some k => (d, showOut q (searchColl d.st c q k)) | _, _ => bad
  | ["csearch_ann", c, q, k, ids] => match parseInts q, k.toNat? with
      | some q, some k => (d, annAnswer (searchColl d.st c q k) q (parseKeys ids)) | _, _ => bad
  | ["csearchf", c, q, k, strat, os, f] =>
      match parseInts q, k.toNat?, parseStrategy strat, os.toNat?, parseFilter f with
      | some q, some k, some s, some os, some f => (d, showOut q (searchCollFiltered d.st c q k f s os))
      | _, _, _, _, _ => bad
  -- the same as a function of the key list `scan` the Auto estimate saw (not observable on the real
  -- engine: the store scan iterates a fresh HashSet per call; used by hand and by replays)
  | ["csearchf_scan", c, q, k, strat, os, f, scan] =>
      match parseInts q, k.toNat?, parseStrategy strat, os.toNat?, parseFilter f with
      | some q, some k, some s, some os, some f =>
        (d, showOut q (searchCollFilteredOn sampleCap (parseKeys scan) d.st c q k f s os))
      | _, _, _, _, _ => bad
  | ["bits", v] => match parseNats v with
      | some v =>
        let r := mkRepr bitsOps v
        let tag := match r with
          | .dense _ => "dense"
          | .sparse _ es => "sparse:" ++ showNats (es.map Prod.fst)
        (d, s!"ok {tag} {showNats (toDense bitsOps r)}")
      | none => bad
  | _ => bad

def main : IO Unit := run vecStep { st := State.init }
