import NeumannModel.Vec.HnswLemmas
/-
  C06 — property theorems about the approximate index itself (`tensor_store::HNSWIndex`, modelled
  in `HnswModel.lean`).  ONLY property statements and their non-vacuity examples live here.

  Reading guide.  `build cfg pd levels` is the index after inserting `levels.length` vectors in
  order, for ANY configuration `cfg` (`m`, `m0`, `ef_construction`), ANY distance function `pd`
  between stored vectors (so: any metric, any rounding of the `f32` arithmetic) and ANY sequence
  of node levels (so: any outcome of the index's PRNG).  `searchEf g dist k ef` is
  `HNSWIndex::search_with_ef` for a query whose distance to node `i` is `dist i`; it returns
  `(node id, distance)` pairs (the Rust function reports `to_similarity(distance)`).
  Recall is NOT claimed: which nodes are returned depends on the graph.
-/
namespace Neumann.Vec.Hnsw.Props
open Neumann.Vec Neumann.Vec.Hnsw

/-! ### the two binary heaps lose nothing and invent nothing -/

/-- `BinaryHeap::push` / `pop` (sift-up, sift-down-to-bottom) permute the vector, for EVERY
    comparison function: nothing is dropped or duplicated, the popped element is one that was in
    the heap, the length goes up / down by exactly one. -/
theorem heap_push_pop_perm {α : Type} (le : α → α → Bool) (l : List α) (x : α) :
    (hpush le l x).Perm (x :: l) ∧
    (∀ t r, hpop le l = some (t, r) → (t :: r).Perm l) ∧
    (hpop le l = none ↔ l = []) := by
  exact ⟨hpush_perm le l x, fun t r h => hpop_perm le l t r h, hpop_none_iff le l⟩

/-- The three heap / descent loops of the model are structural recursions on a fuel; the fuel is
    never the reason they stop: any two fuels above the stated bound give the same result
    (`sift_up` from `pos`, `sift_down_to_bottom` on a vector of `endn` elements, the greedy descent
    from a node at distance `curD`), and `while results.len() > ef { pop }` really ends with at
    most `ef` results. -/
theorem loop_fuels_are_adequate {α : Type} (le : α → α → Bool) (l : List α) (pos endn f1 f2 : Nat)
    (g : Graph) (dist : Nat → Nat) (layer cur curD ef : Nat) (r : List Nb) :
    (pos < f1 → pos < f2 → siftUpF le f1 l pos = siftUpF le f2 l pos) ∧
    (endn ≤ pos + f1 → endn ≤ pos + f2 → siftDownF le endn f1 l pos = siftDownF le endn f2 l pos) ∧
    (curD < f1 → curD < f2 → greedyF g dist layer f1 cur curD = greedyF g dist layer f2 cur curD) ∧
    (trim ef r.length r).length ≤ ef :=
  ⟨siftUpF_fuel le f1 f2 l pos, siftDownF_fuel le endn f1 f2 l pos,
   greedyF_fuel g dist layer f1 f2 cur curD, trim_length_le ef r.length r (by omega)⟩

/-! ### every index that can be built is well formed -/

/-- For EVERY configuration, distance function and level sequence: the built graph has one node
    per inserted vector; every neighbour id is a node that has the layer it is linked on; the
    entry point (present iff the index is non-empty) is a node that has every layer up to
    `maxLayer`.  So no `nodes[id]` / `neighbors[layer]` access of insert or search is ever out
    of bounds. -/
theorem build_wf (cfg : Cfg) (pd : Nat → Nat → Nat) (levels : List Nat) :
    WF (build cfg pd levels) ∧ (build cfg pd levels).size = levels.length :=
  build_wf_size cfg pd levels

/-- ... and inserting into ANY well-formed graph keeps it well formed (one more node). -/
theorem insert_wf (cfg : Cfg) (pd : Nat → Nat → Nat) (g : Graph) (level : Nat) (h : WF g) :
    WF (insert cfg pd g level) ∧ (insert cfg pd g level).size = g.size + 1 :=
  insert_wf_size cfg pd g level h

/-! ### the layer search terminates -/

/-- On a well-formed graph the `while let Some(current) = candidates.pop()` loop ends by itself
    (empty candidate heap or the stop test) within `size + 1` iterations, for every entry node,
    `ef`, layer and distance function: the fuel the model gives it is never exhausted, so
    `searchLayer` is the Rust function and not a truncation of it. -/
theorem search_layer_terminates (g : Graph) (h : WF g) (dist : Nat → Nat) (entry ef layer : Nat)
    (he : entry < g.size) :
    (layerLoop g dist ef layer (g.size + 1)
      ⟨[entry], [(entry, dist entry)], [(entry, dist entry)]⟩).isSome = true :=
  layerLoop_terminates g h dist entry ef layer he

/-! ### what `search_with_ef` returns, for every graph -/

/-- **Contract of the approximate search.**  For EVERY well-formed graph (in particular every
    graph `build` produces), every query (distance function), `k` and `ef`: at most `k` results;
    no node id twice; every id is a node of the index; the distance reported for a node is THAT
    node's distance to the query; closest first; and a non-empty index asked for `k ≥ 1` results
    returns at least one. -/
theorem search_contract (g : Graph) (h : WF g) (dist : Nat → Nat) (k ef : Nat) :
    (searchEf g dist k ef).length ≤ k ∧
    ((searchEf g dist k ef).map (·.1)).Nodup ∧
    (∀ x ∈ searchEf g dist k ef, x.1 < g.size ∧ x.2 = dist x.1) ∧
    (searchEf g dist k ef).Pairwise (fun a b => a.2 ≤ b.2) ∧
    (g.entry ≠ none → 0 < k → searchEf g dist k ef ≠ []) :=
  searchEf_contract g h dist k ef

/-- ... in particular for every index built by inserts (no hypothesis left). -/
theorem search_contract_built (cfg : Cfg) (pd : Nat → Nat → Nat) (levels : List Nat)
    (dist : Nat → Nat) (k ef : Nat) :
    let r := searchEf (build cfg pd levels) dist k ef
    r.length ≤ k ∧ (r.map (·.1)).Nodup ∧
    (∀ x ∈ r, x.1 < levels.length ∧ x.2 = dist x.1) ∧
    r.Pairwise (fun a b => a.2 ≤ b.2) ∧
    (levels ≠ [] → 0 < k → r ≠ []) := by
  have hw := build_wf cfg pd levels
  have hc := search_contract (build cfg pd levels) hw.1 dist k ef
  refine ⟨hc.1, hc.2.1, ?_, hc.2.2.2.1, ?_⟩
  · intro x hx
    have := hc.2.2.1 x hx
    rw [hw.2] at this
    exact this
  · intro hne hk
    exact hc.2.2.2.2 (build_entry_ne_none cfg pd levels hne) hk

/-! ### the engine's answer when the cached index is consulted -/

/-- **Answer taken from a cached index, end to end.**  `snap` = the data the index was built
    from (node `i` ↦ key and vector), `g` = ANY index over it that inserts could have produced
    (any configuration, levels, rounding).  Whatever the index returns, the engine's answer
    (`postProcessAnn`: node ids mapped to keys, sorted, truncated) has at most `k` entries, is
    ordered best first, names only indexed keys, names no key twice, and reports for each key
    the true cosine score of that key's indexed vector.  With `no_stale_cache` (the index is only
    consulted while `snap` is the current data) these are current keys with the scores of their
    current vectors.  No assumption about the index is left. -/
theorem index_answer_shape (snap : Snap) (hn : (snap.map (·.1)).Nodup)
    (cfg : Cfg) (pd : Nat → Nat → Nat) (levels : List Nat) (hl : levels.length = snap.length)
    (q : List Int) (dist : Nat → Nat) (k ef : Nat) :
    let ann := (searchEf (build cfg pd levels) dist k ef).filterMap fun x =>
      (snap[x.1]?).map fun e => (x.1, score .cosine q e.2)
    (postProcessAnn snap ann k).length ≤ k ∧
    (postProcessAnn snap ann k).Pairwise (fun a b => candBetter .cosine a b = true) ∧
    ((postProcessAnn snap ann k).map (·.key)).Nodup ∧
    (∀ c ∈ postProcessAnn snap ann k, ∃ vec, (c.key, vec) ∈ snap ∧ c.score = score .cosine q vec) ∧
    ann.length = (searchEf (build cfg pd levels) dist k ef).length :=
  index_answer_shape_core snap hn cfg pd levels hl q dist k ef

/-- **Post-filtered answer taken from a cached index** (`search_similar_filtered` with the
    post-filter strategy while an index is cached: the index is asked for `cut` = the oversample
    pool, the engine keeps the results whose CURRENT metadata satisfies the filter, at most `k`).
    For ANY index inserts could have produced over `snap`: at most `k` results, best first, no key
    twice, each an indexed key with the true cosine score of its indexed vector, and each stored
    NOW with metadata that satisfies the filter (a key deleted since is never returned).
    Completeness is not claimed (the post-filter known finding applies to this path too). -/
theorem index_filtered_answer_sound (snap : Snap) (hn : (snap.map (·.1)).Nodup) (cur : Items)
    (cfg : Cfg) (pd : Nat → Nat → Nat) (levels : List Nat) (hl : levels.length = snap.length)
    (q : List Int) (dist : Nat → Nat) (cut k ef : Nat) (f : Filter) :
    let ann := (searchEf (build cfg pd levels) dist cut ef).filterMap fun x =>
      (snap[x.1]?).map fun e => (x.1, score .cosine q e.2)
    (postFilterAnn snap cur ann cut k f).length ≤ k ∧
    (postFilterAnn snap cur ann cut k f).Pairwise (fun a b => candBetter .cosine a b = true) ∧
    ((postFilterAnn snap cur ann cut k f).map (·.key)).Nodup ∧
    (∀ c ∈ postFilterAnn snap cur ann cut k f,
      (∃ vec, (c.key, vec) ∈ snap ∧ c.score = score .cosine q vec) ∧
      ∃ it, alGet cur c.key = some it ∧ evalFilter it.md f = true) := by
  intro ann
  have base := index_answer_shape snap hn cfg pd levels hl q dist cut ef
  simp only at base
  obtain ⟨_, hsorted, hnodup, htrue, _⟩ := base
  -- the flagged list has the keys and scores of the post-processed index answer
  have hkeys : (postFilterCands snap cur ann cut f).map (·.key) = (postProcessAnn snap ann cut).map (·.key) := by
    simp only [postFilterCands, List.map_map]; rfl
  have hsub : (postFilterAnn snap cur ann cut k f).Sublist (postFilterCands snap cur ann cut f) :=
    (List.take_sublist k _).trans List.filter_sublist
  have hsorted' : (postFilterCands snap cur ann cut f).Pairwise (fun a b => candBetter .cosine a b = true) := by
    simp only [postFilterCands]
    exact (List.pairwise_map.mpr hsorted)
  refine ⟨?_, hsorted'.sublist hsub, ?_, ?_⟩
  · simp only [postFilterAnn, List.length_take]; omega
  · have : ((postFilterCands snap cur ann cut f).map (·.key)).Nodup := by rw [hkeys]; exact hnodup
    exact this.sublist (hsub.map _)
  · intro c hc
    have hc1 : c ∈ (postFilterCands snap cur ann cut f).filter (·.pass) := List.mem_of_mem_take hc
    obtain ⟨hc2, hpass⟩ := List.mem_filter.mp hc1
    simp only [postFilterCands, List.mem_map] at hc2
    obtain ⟨c0, hc0, rfl⟩ := hc2
    refine ⟨htrue c0 hc0, ?_⟩
    simp only at hpass ⊢
    cases hg : alGet cur c0.key with
    | none => rw [hg] at hpass; cases hpass
    | some it => rw [hg] at hpass; exact ⟨it, rfl, hpass⟩

/-! ### a small index is exact -/

/-- For EVERY distance function and level sequence: while no more than `m0` vectors are indexed and
    `ef_construction` is at least their number, every insert finds and links ALL earlier nodes on
    layer 0 and no list is ever pruned: layer 0 is the complete graph. -/
theorem small_index_is_complete (cfg : Cfg) (pd : Nat → Nat → Nat) (levels : List Nat)
    (hm : levels.length ≤ cfg.m0) (he : levels.length ≤ cfg.efc) :
    Complete0 (build cfg pd levels) :=
  build_complete cfg pd levels hm he

/-- On a well-formed graph whose layer 0 is complete, a search whose beam `max ef k` is at least
    the number of nodes is EXACT: it returns `min k size` nodes and no node left out is closer
    than a returned one (with `search_contract`: distinct ids, true distances, closest first —
    the exact `k` nearest). -/
theorem search_exact_of_complete (g : Graph) (h : WF g) (hc : Complete0 g) (dist : Nat → Nat) (k ef : Nat)
    (hef : g.size ≤ max ef k) :
    (searchEf g dist k ef).length = min k g.size ∧
    ∀ x ∈ searchEf g dist k ef, ∀ j, j < g.size → j ∉ (searchEf g dist k ef).map (·.1) → x.2 ≤ dist j :=
  searchEf_exact_of_complete g h hc dist k ef hef

/-- ... so: an index over at most `m0` vectors built with `ef_construction ≥` their number,
    searched with `max ef k ≥` their number, returns the exact `k` nearest (default configuration:
    `m0 = 32`, `ef_construction = 200`, `ef_search = 50`: every index of up to 32 vectors). -/
theorem small_index_search_is_exact (cfg : Cfg) (pd : Nat → Nat → Nat) (levels : List Nat)
    (hm : levels.length ≤ cfg.m0) (he : levels.length ≤ cfg.efc) (dist : Nat → Nat) (k ef : Nat)
    (hef : levels.length ≤ max ef k) :
    let r := searchEf (build cfg pd levels) dist k ef
    r.length = min k levels.length ∧ (r.map (·.1)).Nodup ∧
    (∀ x ∈ r, x.1 < levels.length ∧ x.2 = dist x.1) ∧
    r.Pairwise (fun a b => a.2 ≤ b.2) ∧
    (∀ x ∈ r, ∀ j, j < levels.length → j ∉ r.map (·.1) → x.2 ≤ dist j) :=
  small_index_search_exact_core cfg pd levels hm he dist k ef hef

/-! ### Non-vacuity -/

def exPd (a b : Nat) : Nat := if a ≤ b then (b - a) * 7 % 5 + a else (a - b) * 7 % 5 + b

-- a three-layer index over 9 nodes with m = m0 = 2 (lists are pruned): well formed, and a
-- truncated beam (ef = 2) answers with 2 distinct in-range nodes, closest first
example : (build ⟨2, 2, 2⟩ exPd [0, 2, 0, 1, 0, 0, 1, 0, 0]).maxLayer = 2 := by decide
example : searchEf (build ⟨2, 2, 2⟩ exPd [0, 2, 0, 1, 0, 0, 1, 0, 0]) (fun i => (i * 5 + 3) % 9) 2 2
    = [(3, 0), (5, 1)] := by decide
-- ... and is approximate: node 7 (distance 2) is closer than node 0 (distance 3) but is not found
example : searchEf (build ⟨2, 2, 2⟩ exPd [0, 2, 0, 1, 0, 0, 1, 0, 0]) (fun i => (i * 5 + 3) % 9) 3 1
    = [(3, 0), (5, 1), (0, 3)] := by decide
-- the filtered index answer: node 1 is the best match but its key was deleted since, node 0 fails the filter
example : (postFilterAnn [("a", [1, 0]), ("b", [1, 1]), ("c", [0, 1])]
      [("a", ⟨.dense [1, 0], [("f", 0)]⟩), ("c", ⟨.dense [0, 1], [("f", 1)]⟩)]
      (annWithTrueScores [("a", [1, 0]), ("b", [1, 1]), ("c", [0, 1])] [1, 1] [1, 0, 2]) 3 2 (.cmp .eq "f" 1)).map (·.key)
    = ["c"] := by decide
-- the heaps really reorder: pushing onto a max-heap moves the larger key to the root
example : hpush leMax [(0, 1), (1, 0)] (2, 5) = [(2, 5), (1, 0), (0, 1)] := by decide
example : hpop leMax [(2, 5), (1, 0), (0, 1)] = some ((2, 5), [(0, 1), (1, 0)]) := by decide
-- a small index (5 ≤ m0 = 32 vectors, levels 0,1,0,0,2) is complete on layer 0 and searched exactly
example : (build ⟨16, 32, 200⟩ exPd [0, 1, 0, 0, 2]).nbrs 3 0 = [0, 1, 2, 4] := by decide
example : searchEf (build ⟨16, 32, 200⟩ exPd [0, 1, 0, 0, 2]) (fun i => (i * 3 + 2) % 5) 3 50
    = [(1, 0), (3, 1), (0, 2)] := by decide

end Neumann.Vec.Hnsw.Props
