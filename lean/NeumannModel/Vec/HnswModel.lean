import NeumannModel.Vec.Model
/-
  C06 — model of `tensor_store::HNSWIndex` (tensor_store/src/hnsw.rs): graph construction
  (`try_insert_embedding`, :1936) and the layered greedy search (`search_with_ef` :2069,
  `search_layer_greedy` :2170, `search_layer` :2276), including the two `std` binary heaps the
  layer search keeps (`alloc::collections::BinaryHeap::{push,pop}` with their `sift_up` /
  `sift_down_to_bottom`, because the order in which equal distances leave a heap decides which
  nodes are explored and returned).

  Import-free (core Lean + the import-free `Vec.Model` for `sortBy`), total, computable.

  Distances are abstract: every function takes the distance as a FUNCTION into `Nat`
  (`dist : node id → key` for a query, `pd : id → id → key` between stored vectors).  The keys
  stand for the `f32` distances the real code computes (`EmbeddingStorage::distance_dense`,
  `distance_embeddings`); the correspondence harness obtains them from the real code's public
  distance functions and maps them order-isomorphically to `Nat` (never NaN on its inputs), so
  the model makes exactly the comparisons the code makes, whatever the rounding.  The theorems
  hold for EVERY distance function, level sequence and configuration.

  The level of a new node (`random_level`, an xorshift PRNG seeded with 42 pushed through
  `floor(-ln(u)·ml)`) is an INPUT of `insert`: the theorems quantify over all level sequences.
-/
namespace Neumann.Vec.Hnsw
open Neumann.Vec

/-! ## 1. `BinaryHeap<T>`: `data: Vec<T>`, max-heap for `le a b` = Rust `a <= b` -/

/-- `Hole::move_to` pairs are modelled as swaps: sifting with a hole and sifting by swaps leave
    the same vector (the element in the hole is the one that would be swapped along) -/
def swap {α : Type} (l : List α) (i j : Nat) : List α :=
  if h : i < l.length ∧ j < l.length then (l.set i l[j]).set j l[i] else l

/-- `sift_up(0, pos)`: `while pos > 0 { parent = (pos-1)/2; if elt <= data[parent] {break}; move }`.
    Structural on a fuel that is never exhausted: the position strictly decreases and the
    function is started with `pos + 1` (`siftUpF_fuel` in the lemmas). -/
def siftUpF {α : Type} (le : α → α → Bool) : Nat → List α → Nat → List α
  | 0, l, _ => l
  | fuel + 1, l, pos =>
    if pos = 0 then l
    else if h : pos < l.length then
      if le l[pos] (l[(pos - 1) / 2]'(by omega)) then l
      else siftUpF le fuel (swap l pos ((pos - 1) / 2)) ((pos - 1) / 2)
    else l

def siftUp {α : Type} (le : α → α → Bool) (l : List α) (pos : Nat) : List α :=
  siftUpF le (pos + 1) l pos

/-- the larger child (`child += (data[child] <= data[child+1]) as usize`) -/
def pickChild {α : Type} (le : α → α → Bool) (l : List α) (child : Nat) : Nat :=
  match l[child]?, l[child + 1]? with
  | some a, some b => if le a b then child + 1 else child
  | _, _ => child

theorem pickChild_ge {α : Type} (le : α → α → Bool) (l : List α) (child : Nat) :
    child ≤ pickChild le l child := by
  unfold pickChild; split
  · split <;> omega
  · omega

theorem pickChild_le {α : Type} (le : α → α → Bool) (l : List α) (child : Nat) :
    pickChild le l child ≤ child + 1 := by
  unfold pickChild; split
  · split <;> omega
  · omega

/-- the loop of `sift_down_to_bottom(0)` (`endn` = `self.len()`, read once): walk the hole down
    along the larger child to the bottom; returns the vector and the final position.
    Structural on a fuel that is never exhausted (`pos` at least doubles; started with `endn`). -/
def siftDownF {α : Type} (le : α → α → Bool) (endn : Nat) : Nat → List α → Nat → List α × Nat
  | 0, l, pos => (l, pos)
  | fuel + 1, l, pos =>
    if 2 * pos + 1 + 2 ≤ endn then
      siftDownF le endn fuel (swap l pos (pickChild le l (2 * pos + 1))) (pickChild le l (2 * pos + 1))
    else if 2 * pos + 1 + 1 = endn then (swap l pos (2 * pos + 1), 2 * pos + 1)
    else (l, pos)

def siftDown {α : Type} (le : α → α → Bool) (endn : Nat) (l : List α) (pos : Nat) : List α × Nat :=
  siftDownF le endn endn l pos

/-- `BinaryHeap::push` -/
def hpush {α : Type} (le : α → α → Bool) (l : List α) (x : α) : List α :=
  siftUp le (l ++ [x]) l.length

/-- `BinaryHeap::pop`: take the last element, put it at the root, sift it down to the bottom,
    then up again -/
def hpop {α : Type} (le : α → α → Bool) (l : List α) : Option (α × List α) :=
  match l.getLast? with
  | none => none
  | some item =>
    match l.dropLast with
    | [] => some (item, [])
    | top :: rest =>
      let d := item :: rest
      let r := siftDown le d.length d 0
      some (top, siftUp le r.1 r.2)

/-! ## 2. The graph -/

/-- a search candidate: `Neighbor { id, distance }` -/
abbrev Nb := Nat × Nat

/-- `Neighbor: Ord` is reversed (`other.distance.partial_cmp(self.distance)`): `a <= b` iff
    `b.distance <= a.distance`; `BinaryHeap<Neighbor>` pops the closest -/
def leMin (a b : Nb) : Bool := decide (b.2 ≤ a.2)

/-- `MaxNeighbor: Ord` is by distance: `BinaryHeap<MaxNeighbor>` pops / peeks the furthest -/
def leMax (a b : Nb) : Bool := decide (a.2 ≤ b.2)

structure Graph where
  /-- `nodes[id].neighbors[layer]`: sorted ids (`CompressedNeighbors` keeps them sorted);
      `nodes[id].neighbors.len() = level(id) + 1` -/
  nodes : List (List (List Nat))
  /-- `entry_point` (`usize::MAX` = `none`) -/
  entry : Option Nat
  maxLayer : Nat

def Graph.empty : Graph := ⟨[], none, 0⟩

def Graph.size (g : Graph) : Nat := g.nodes.length

/-- `nodes[id].neighbors[layer].read().get()` (out of range = the Rust code would panic;
    `insert_wf` shows it never is) -/
def Graph.nbrs (g : Graph) (id layer : Nat) : List Nat := (g.nodes.getD id []).getD layer []

/-- number of layers node `id` has (`level + 1`) -/
def Graph.layersOf (g : Graph) (id : Nat) : Nat := (g.nodes.getD id []).length

/-! ## 3. `search_layer_greedy` -/

/-- the `for neighbor_id in neighbor_ids` loop: move to every neighbour that is strictly closer
    than the best so far -/
def greedyPass (dist : Nat → Nat) (nbrs : List Nat) (cur curD : Nat) : Nat × Nat :=
  nbrs.foldl (fun (acc : Nat × Nat) nb => if dist nb < acc.2 then (nb, dist nb) else acc) (cur, curD)

/-- `loop { ...; if !changed { break } }`: `changed` iff the best distance went down.
    Structural on a fuel that is never exhausted: the best distance strictly decreases and the
    function is started with `curD + 1`. -/
def greedyF (g : Graph) (dist : Nat → Nat) (layer : Nat) : Nat → Nat → Nat → Nat
  | 0, cur, _ => cur
  | fuel + 1, cur, curD =>
    if (greedyPass dist (g.nbrs cur layer) cur curD).2 < curD then
      greedyF g dist layer fuel (greedyPass dist (g.nbrs cur layer) cur curD).1
        (greedyPass dist (g.nbrs cur layer) cur curD).2
    else cur

def greedy (g : Graph) (dist : Nat → Nat) (layer : Nat) (cur curD : Nat) : Nat :=
  greedyF g dist layer (curD + 1) cur curD

/-- `for layer in (lo..=hi).rev() { current = search_layer_greedy(current, layer) }` -/
def layersDesc (lo hi : Nat) : List Nat := (List.range' lo (hi + 1 - lo)).reverse

def descend (g : Graph) (dist : Nat → Nat) (cur lo hi : Nat) : Nat :=
  (layersDesc lo hi).foldl (fun c layer => greedy g dist layer c (dist c)) cur

/-! ## 4. `search_layer` -/

structure LState where
  /-- `visited: HashSet<usize>` (only membership is used) -/
  visited : List Nat
  /-- `candidates: BinaryHeap<Neighbor>` -/
  cands : List Nb
  /-- `results: BinaryHeap<MaxNeighbor>` -/
  results : List Nb

/-- `while results.len() > ef { results.pop(); }` (`fuel` = the length: each pop removes one) -/
def trim (ef : Nat) : Nat → List Nb → List Nb
  | 0, r => r
  | fuel + 1, r =>
    if ef < r.length then
      match hpop leMax r with
      | some (_, r') => trim ef fuel r'
      | none => r
    else r

/-- the body of `for neighbor_id in neighbor_ids` -/
def visit (dist : Nat → Nat) (ef : Nat) (s : LState) (nb : Nat) : LState :=
  if s.visited.contains nb then s
  else
    let add := decide (s.results.length < ef) ||
      (match s.results.head? with
       | none => true
       | some w => decide (dist nb < w.2))
    if add then
      let r := hpush leMax s.results (nb, dist nb)
      { visited := nb :: s.visited
        cands := hpush leMin s.cands (nb, dist nb)
        results := trim ef r.length r }
    else { s with visited := nb :: s.visited }

/-- `while let Some(current) = candidates.pop() { ... }`; `none` = out of fuel
    (`searchLayer_terminates`: never with the fuel `searchLayer` gives it) -/
def layerLoop (g : Graph) (dist : Nat → Nat) (ef layer : Nat) : Nat → LState → Option LState
  | 0, _ => none
  | fuel + 1, s =>
    match hpop leMin s.cands with
    | none => some s
    | some (cur, cands') =>
      let stop := decide (ef ≤ s.results.length) &&
        (match s.results.head? with
         | some w => decide (w.2 < cur.2)
         | none => false)
      if stop then some { s with cands := cands' }
      else layerLoop g dist ef layer fuel
        ((g.nbrs cur.1 layer).foldl (visit dist ef) { s with cands := cands' })

/-- ascending distance, stable (`result_vec.sort_by(|a, b| a.distance.partial_cmp(&b.distance))`
    over `results.into_iter()`, i.e. the heap's vector order) -/
def byDist (a b : Nb) : Bool := decide (a.2 ≤ b.2)

def searchLayer (g : Graph) (dist : Nat → Nat) (entry ef layer : Nat) : List Nb :=
  match layerLoop g dist ef layer (g.size + 1)
      ⟨[entry], [(entry, dist entry)], [(entry, dist entry)]⟩ with
  | some s => sortBy byDist s.results
  | none => []

/-! ## 5. `search_with_ef` -/

/-- node ids with their distance keys, closest first (the Rust function maps the distance
    through `metric.to_similarity`, a function of the distance alone) -/
def searchEf (g : Graph) (dist : Nat → Nat) (k ef : Nat) : List Nb :=
  match g.entry with
  | none => []
  | some e => (searchLayer g dist (descend g dist e 1 g.maxLayer) (max ef k) 0).take k

/-! ## 6. `try_insert_embedding` -/

/-- `HNSWConfig { m, m0, ef_construction }` -/
structure Cfg where
  m : Nat
  m0 : Nat
  efc : Nat

/-- `sorted.sort_unstable()` on ids -/
def sortNat (l : List Nat) : List Nat := sortBy (fun a b => decide (a ≤ b)) l

/-- `nodes[id].neighbors[layer].write().set(ids)` -/
def setNbrs (g : Graph) (id layer : Nat) (ids : List Nat) : Graph :=
  { g with nodes := g.nodes.modify id (fun ls => ls.set layer (sortNat ids)) }

/-- keep the `m` neighbours closest to `nb` (stable sort of the id-sorted list by distance) -/
def prune (pd : Nat → Nat → Nat) (m nb : Nat) (ids : List Nat) : List Nat :=
  ((sortBy byDist (ids.map fun id => (id, pd nb id))).take m).map (·.1)

/-- `neighbor_neighbors.push(node_id); if len > m { prune }` -/
def linkBack (pd : Nat → Nat → Nat) (m layer newId : Nat) (g : Graph) (nb : Nat) : Graph :=
  let ids := sortNat (g.nbrs nb layer ++ [newId])
  if m < ids.length then setNbrs g nb layer (prune pd m nb ids) else setNbrs g nb layer ids

/-- one iteration of `for layer in (0..=connect_from).rev()` -/
def connectLayer (cfg : Cfg) (pd : Nat → Nat → Nat) (dist : Nat → Nat) (newId : Nat)
    (acc : Graph × Nat) (layer : Nat) : Graph × Nat :=
  let neighbors := searchLayer acc.1 dist acc.2 cfg.efc layer
  let m := if layer = 0 then cfg.m0 else cfg.m
  let selected := (neighbors.take m).map (·.1)
  let g1 := setNbrs acc.1 newId layer (acc.1.nbrs newId layer ++ selected)
  let g2 := selected.foldl (linkBack pd m layer newId) g1
  (g2, match neighbors.head? with
       | some n => n.1
       | none => acc.2)

/-- insert a node of level `level`; `pd a b` = distance between stored vectors `a` and `b`
    (the new node has id `g.size`) -/
def insert (cfg : Cfg) (pd : Nat → Nat → Nat) (g : Graph) (level : Nat) : Graph :=
  let newId := g.size
  let g0 : Graph := { g with nodes := g.nodes ++ [List.replicate (level + 1) []] }
  match g.entry with
  | none => { g0 with entry := some newId, maxLayer := level }
  | some e =>
    let dist := fun x => pd x newId
    let cur := descend g0 dist e (level + 1) g.maxLayer
    let r := (layersDesc 0 (min level g.maxLayer)).foldl (connectLayer cfg pd dist newId) (g0, cur)
    if g.maxLayer < level then { r.1 with entry := some newId, maxLayer := level } else r.1

/-- the graph after inserting nodes with the given levels, in order -/
def build (cfg : Cfg) (pd : Nat → Nat → Nat) (levels : List Nat) : Graph :=
  levels.foldl (insert cfg pd) Graph.empty

end Neumann.Vec.Hnsw
