import NeumannModel.Vec.Props

/-!
  C06 — filter strategies of `search_filtered_in_collection` (named collections with metadata
  filters), with the store scan the Auto arm samples made explicit (`searchCollFilteredOn`).

  The strategy (Auto / PreFilter / PostFilter), the scan order and the sample only ever SELECT
  between the two arms `Props.lean` proves things about; they never change what an arm walks.
  In particular, whenever the pre-filter arm runs — requested, or chosen by Auto from ANY sample
  of ANY key list — the answer is the exact top-`k` of ALL stored vectors of the collection that
  satisfy the filter, however many there are and wherever they come in scan order.  The variant
  in which the pre-filter arm reuses the truncated sample list is refuted by a witness.
-/

namespace Neumann.Vec.StratProps
open Neumann.Vec Neumann.Vec.Props

/-- For EVERY strategy setting, sample size and key list the estimate saw: the answer is the
    answer of the explicit pre-filter arm or of the explicit post-filter arm on the same state —
    the scan only selects the arm. -/
theorem coll_filtered_is_pre_or_post_for_every_scan (cap : Nat) (scan : List String) (st : State)
    (c : String) (q : List Int) (k : Nat) (f : Filter) (strat : Strategy) (os : Nat) :
    searchCollFilteredOn cap scan st c q k f strat os = searchCollFiltered st c q k f .pre os ∨
    searchCollFilteredOn cap scan st c q k f strat os = searchCollFiltered st c q k f .post os := by
  simp only [searchCollFilteredOn, searchCollFiltered]
  cases strat with
  | pre => left; rfl
  | post => right; rfl
  | auto =>
    cases hs : autoStrategyOn cap (collOf st c).items scan f with
    | pre => left; simp only []
    | post => right; simp only []
    | auto => left; simp only []

/-- Explicit strategies do not read the scan at all. -/
theorem coll_filtered_explicit_strategy_ignores_scan (cap : Nat) (scan : List String) (st : State)
    (c : String) (q : List Int) (k : Nat) (f : Filter) (os : Nat) :
    searchCollFilteredOn cap scan st c q k f .pre os = searchCollFiltered st c q k f .pre os ∧
    searchCollFilteredOn cap scan st c q k f .post os = searchCollFiltered st c q k f .post os :=
  ⟨rfl, rfl⟩

/-- The Auto decision never answers `auto`. -/
theorem autoStrategyOn_pre_or_post (cap : Nat) (items : Items) (scan : List String) (f : Filter) :
    autoStrategyOn cap items scan f = .pre ∨ autoStrategyOn cap items scan f = .post := by
  simp only [autoStrategyOn]
  split
  · right; rfl
  · split
    · left; rfl
    · right; rfl

/-- **Auto choosing the pre-filter arm is exact, for every sample.**  After EVERY operation
    sequence, for every sample size `cap`, every key list `scan` the estimate may have seen (any
    order, any length — in particular a collection with more keys than the sample), every query,
    `k`, filter and oversample factor: if the estimate says pre-filter, the answer is the exact
    top-`k` of ALL stored vectors of the collection that satisfy the filter, under the
    collection's metric, each with its true score. -/
theorem coll_filtered_auto_prefilter_is_topk_for_every_scan (ops : List Op) (cap : Nat)
    (scan : List String) (c : String) (q : List Int) (k : Nat) (f : Filter) (os : Nat)
    (m' : Metric) (rs : List Cand) (cut k' : Nat)
    (hpre : autoStrategyOn cap (collOf (run State.init ops) c).items scan f = .pre)
    (h : searchCollFilteredOn cap scan (run State.init ops) c q k f .auto os = .ranked m' rs cut k') :
    IsTopK (collOf (run State.init ops) c).items (cfgMetric (run State.init ops) c) q (some f) k
      (SearchOut.answer (.ranked m' rs cut k')) := by
  have e : searchCollFilteredOn cap scan (run State.init ops) c q k f .auto os
      = searchCollFiltered (run State.init ops) c q k f .pre os := by
    simp only [searchCollFilteredOn, searchCollFiltered, hpre]
  rw [e] at h
  exact search_filtered_coll_pre_is_topk ops c q k f os m' rs cut k' h

/-- The same for every strategy setting: whenever the arm that runs is not post-filter, the
    answer is the exact filtered top-`k`. -/
theorem coll_filtered_prefilter_arm_is_topk_for_every_strategy (ops : List Op) (cap : Nat)
    (scan : List String) (c : String) (q : List Int) (k : Nat) (f : Filter) (strat : Strategy) (os : Nat)
    (m' : Metric) (rs : List Cand) (cut k' : Nat)
    (harm : strat = .pre ∨
      (strat = .auto ∧ autoStrategyOn cap (collOf (run State.init ops) c).items scan f = .pre))
    (h : searchCollFilteredOn cap scan (run State.init ops) c q k f strat os = .ranked m' rs cut k') :
    IsTopK (collOf (run State.init ops) c).items (cfgMetric (run State.init ops) c) q (some f) k
      (SearchOut.answer (.ranked m' rs cut k')) := by
  rcases harm with rfl | ⟨rfl, hpre⟩
  · exact search_filtered_coll_pre_is_topk ops c q k f os m' rs cut k' h
  · exact coll_filtered_auto_prefilter_is_topk_for_every_scan ops cap scan c q k f os m' rs cut k' hpre h

/-! ### the variant that reuses the truncated sample -/

/-- three vectors in collection `c`; only `z` carries `f = 1` -/
def sOps : List Op :=
  [.cstore "c" "x" [4, 1] [("f", 0)], .cstore "c" "y" [4, 2] [("f", 0)], .cstore "c" "z" [4, 0] [("f", 1)]]

/-- non-vacuity of the hypotheses above: a sample of 2 of the 3 keys, none matching, says
    pre-filter, and the code's answer names the vector OUTSIDE the sample -/
example :
    autoStrategyOn 2 (collOf (run State.init sOps) "c").items ["x", "y", "z"] (.cmp .eq "f" 1) = .pre ∧
    (searchCollFilteredOn 2 ["x", "y", "z"] (run State.init sOps) "c" [1, 0] 1 (.cmp .eq "f" 1) .auto 3).answer.map
      (·.key) = ["z"] := by decide

/-- VARIANT WITNESS.  With the pre-filter pass walking the sampled keys only, a matching vector
    whose key comes after the sample in scan order is silently dropped: sample of 2 out of 3 keys,
    `z` (the only vector with `f = 1`, and the nearest one) is third — the variant answers nothing,
    the code answers `z`; with `z` inside the sample (second in scan order) the variant finds it too, and
    the explicit pre-filter strategy is unaffected. -/
theorem coll_prefilter_on_sample_only_witness :
    (searchCollFilteredPreFilterOnSampleOnly 2 ["x", "y", "z"] (run State.init sOps) "c" [1, 0] 1
      (.cmp .eq "f" 1) .auto 3).answer.map (·.key) = [] ∧
    (searchCollFilteredOn 2 ["x", "y", "z"] (run State.init sOps) "c" [1, 0] 1
      (.cmp .eq "f" 1) .auto 3).answer.map (·.key) = ["z"] ∧
    (searchCollFilteredPreFilterOnSampleOnly 2 ["x", "z", "y"] (run State.init sOps) "c" [1, 0] 1
      (.cmp .eq "f" 1) .auto 20).answer.map (·.key) = ["z"] ∧
    (searchCollFilteredPreFilterOnSampleOnly 2 ["z", "x", "y"] (run State.init sOps) "c" [1, 0] 1
      (.cmp .eq "f" 1) .pre 3).answer.map (·.key) = ["z"] := by
  decide

/-- 100 vectors without the tag followed by the one tagged vector `z` (the nearest to the query) -/
def bigOps : List Op :=
  (List.range 100).map (fun i => Op.cstore "c" (toString i) [4, 1] [("f", 0)]) ++
    [.cstore "c" "z" [4, 0] [("f", 1)]]

def bigScan : List String := (List.range 100).map toString ++ ["z"]

set_option maxRecDepth 100000 in
/-- VARIANT WITNESS at the code's sample size (`sampleCap` = 100): a collection of 101 vectors,
    the only matching one 101st in scan order — the variant answers nothing, the code answers `z`. -/
theorem coll_prefilter_on_sample_only_witness_at_100 :
    (searchCollFilteredPreFilterOnSampleOnly sampleCap bigScan (run State.init bigOps) "c" [1, 0] 1
      (.cmp .eq "f" 1) .auto 3).answer.map (·.key) = [] ∧
    (searchCollFilteredOn sampleCap bigScan (run State.init bigOps) "c" [1, 0] 1
      (.cmp .eq "f" 1) .auto 3).answer.map (·.key) = ["z"] := by
  decide

end Neumann.Vec.StratProps
