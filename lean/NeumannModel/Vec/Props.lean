import NeumannModel.Vec.Lemmas
/-
  C06 — property theorems for similarity search.  ONLY property statements and their
  non-vacuity examples live here; helpers are in `Lemmas.lean`.

  Reading guide.  `run v State.init ops` is the engine state after ANY sequence of
  store / overwrite / delete / batch-delete / clear / build-index / collection operations
  (`Op`), for the code variant `v` (`Variant.current` = /repo as it is).  The search functions
  return `SearchOut.ranked ..` exactly when the answer is computed by brute force (no index
  consulted) and `SearchOut.viaIndex snap ..` exactly when the cached index built from `snap`
  is consulted.
-/
namespace Neumann.Vec.Props
open Neumann.Vec

/-! ### repr_roundtrip — stored vectors read back as written -/

/-- For EVERY element type, every vector: `to_dense (from_dense v)` has the length of `v` and each
    element is the one written, or was a zero (`val != 0.0` false: `+0.0`/`-0.0`) and reads back
    as the canonical zero — i.e. equal under IEEE `==`.  NaN, ±inf, denormals are kept bit for bit. -/
theorem repr_roundtrip {α : Type} (ops : ElemOps α) (v : List α) :
    (toDense ops (fromDense ops v)).length = v.length ∧
    ∀ (i : Nat) (h : i < v.length) (h' : i < (toDense ops (fromDense ops v)).length),
      (toDense ops (fromDense ops v))[i] = v[i] ∨
      (ops.isZero v[i] = true ∧ (toDense ops (fromDense ops v))[i] = ops.zero) := by
  rw [toDense_fromDense]
  refine ⟨by simp [normalise], ?_⟩
  intro i h h'
  simp only [normalise, List.getElem_map]
  by_cases hz : ops.isZero v[i] = true
  · right; simp [hz]
  · left; simp [hz]

/-- whichever representation `store_embedding` chooses (dense, or sparse when at least half of
    the elements are below `1e-6`), an integer-valued vector reads back exactly -/
theorem repr_roundtrip_int (v : List Int) : toDense intOps (mkRepr intOps v) = v := by
  rw [toDense_mkRepr, normalise_int]; simp

/-- ... and an arbitrary f32 bit pattern vector reads back bit for bit, except that `-0.0`
    (`0x80000000`) reads back as `+0.0` when the sparse form was chosen -/
theorem repr_roundtrip_bits (v : List Nat) :
    toDense bitsOps (mkRepr bitsOps v) = v ∨
    toDense bitsOps (mkRepr bitsOps v) = v.map (fun b => if b % 2147483648 = 0 then 0 else b) := by
  rw [toDense_mkRepr]
  split
  · right
    simp only [normalise, bitsOps, beq_iff_eq]
  · left; rfl

/-- `get` after `store` returns the vector just written (overwriting included) -/
theorem store_then_get (v : Variant) (st : State) (key : String) (vec : List Int) (h : vec ≠ []) :
    getDefault (step v st (.store key vec)).1 key = some vec := by
  have : vec.isEmpty = false := by cases vec <;> simp_all
  simp [step, this, getDefault, alGet_alPut_self, vecOf_mkItem]

/-- a deleted key is gone -/
theorem delete_then_absent (v : Variant) (st : State) (key : String)
    (h : alHas st.dflt.items key = true) :
    getDefault (step v st (.delete key)).1 key = none := by
  simp [step, h, getDefault, alGet_alDel_self]

/-! ### search_is_topk — brute-force search returns the true nearest stored vectors -/

/-- ranking is generic: for ANY total preorder `ge` on candidates, sort-then-truncate returns
    `min k n` of them, best first, and no candidate left out beats a returned one -/
theorem topk_any_preorder {α : Type} (ge : α → α → Bool)
    (total : ∀ a b, ge a b = true ∨ ge b a = true)
    (trans : ∀ a b c, ge a b = true → ge b c = true → ge a c = true)
    (l : List α) (k : Nat) :
    ((sortBy ge l).take k).length = min k l.length ∧
    ((sortBy ge l).take k).Pairwise (fun a b => ge a b = true) ∧
    ((sortBy ge l).take k ++ (sortBy ge l).drop k).Perm l ∧
    (∀ x ∈ (sortBy ge l).take k, ∀ y ∈ (sortBy ge l).drop k, ge x y = true) :=
  topk_generic ge total trans l k

/-- each metric's comparison (cosine through cross-multiplied signed squares, dot and squared
    Euclid as integers) IS a total preorder, so `topk_any_preorder` applies to all of them -/
theorem score_order_is_total_preorder (m : Metric) :
    (∀ a b, better m a b = true ∨ better m b a = true) ∧
    (∀ a b c, better m a b = true → better m b c = true → better m a c = true) :=
  ⟨better_total m, better_trans m⟩

/-- **Similarity search without an index returns the true nearest stored vectors.**
    After EVERY operation sequence (either code variant), for every metric, query and `k`:
    whenever `search_similar_with_metric`, `search_similar` or `search_in_collection` answers by
    brute force, the answer is exactly the top-`k` (`IsTopK`) of what is stored now, under the
    requested / cosine / the collection's configured metric respectively. -/
theorem search_is_topk (v : Variant) (ops : List Op) (q : List Int) (k : Nat) :
    (∀ m m' rs cut k', searchMetric (run v State.init ops) m q k = .ranked m' rs cut k' →
      IsTopK (run v State.init ops).dflt.items m q none k (SearchOut.answer (.ranked m' rs cut k'))) ∧
    (∀ m' rs cut k', searchDefault (run v State.init ops) q k = .ranked m' rs cut k' →
      IsTopK (run v State.init ops).dflt.items .cosine q none k (SearchOut.answer (.ranked m' rs cut k'))) ∧
    (∀ c m' rs cut k', searchColl (run v State.init ops) c q k = .ranked m' rs cut k' →
      IsTopK (collOf (run v State.init ops) c).items (cfgMetric (run v State.init ops) c) q none k
        (SearchOut.answer (.ranked m' rs cut k'))) := by
  have hk := keysOK_run v ops State.init keysOK_init
  refine ⟨?_, ?_, ?_⟩
  · intro m m' rs cut k' h
    simp only [searchMetric] at h
    split at h
    · cases h
    · split at h
      · cases h
      · split at h
        · cases h
        · injection h with h1 h2 h3 h4
          subst h1 h2 h3 h4
          exact unfiltered_answer _ hk.1 _ q _
  · intro m' rs cut k' h
    simp only [searchDefault] at h
    split at h
    · cases h
    · split at h
      · cases h
      · split at h
        · cases h
        · obtain ⟨h1, h2, h3, h4⟩ := searchCore_ranked _ _ _ _ _ _ _ _ _ _ h
          subst h1 h2 h3 h4
          exact unfiltered_answer _ hk.1 .cosine q _
  · intro c m' rs cut k' h
    simp only [searchColl] at h
    split at h
    · cases h
    · split at h
      · cases h
      · split at h
        · cases h
        · split at h
          · cases h
          · obtain ⟨h1, h2, h3, h4⟩ := searchCore_ranked _ _ _ _ _ _ _ _ _ _ h
            subst h1 h2 h3 h4
            exact unfiltered_answer _ (keysOK_collOf _ c hk) _ q _

/-- Filtered search, pre-filter strategy (default collection: cosine): exact top-`k` of the
    stored vectors that satisfy the metadata filter, after every operation sequence. -/
theorem search_filtered_pre_is_topk (v : Variant) (ops : List Op) (q : List Int) (k : Nat) (f : Filter)
    (os : Nat) (m' : Metric) (rs : List Cand) (cut k' : Nat)
    (h : searchFiltered (run v State.init ops) q k f .pre os = .ranked m' rs cut k') :
    IsTopK (run v State.init ops).dflt.items .cosine q (some f) k (SearchOut.answer (.ranked m' rs cut k')) := by
  have hk := keysOK_run v ops State.init keysOK_init
  simp only [searchFiltered] at h
  split at h
  · cases h
  · split at h
    · cases h
    · split at h
      · cases h
      · injection h with h1 h2 h3 h4
        subst h1 h2 h3 h4
        exact prefilter_answer _ hk.1 .cosine q f _

/-- PARTIAL for named collections: the pre-filter branch of `search_filtered_in_collection` is an
    exact top-`k` **under cosine**, whatever metric the collection is configured with (what is
    missing: the configured metric — see `coll_prefilter_ignores_metric_witness`). -/
theorem search_filtered_coll_pre_is_topk_partial (v : Variant) (ops : List Op) (c : String) (q : List Int)
    (k : Nat) (f : Filter) (os : Nat) (m' : Metric) (rs : List Cand) (cut k' : Nat)
    (h : searchCollFiltered (run v State.init ops) c q k f .pre os = .ranked m' rs cut k') :
    IsTopK (collOf (run v State.init ops) c).items .cosine q (some f) k
      (SearchOut.answer (.ranked m' rs cut k')) := by
  have hk := keysOK_run v ops State.init keysOK_init
  simp only [searchCollFiltered] at h
  split at h
  · cases h
  · split at h
    · cases h
    · split at h
      · cases h
      · split at h
        · cases h
        · injection h with h1 h2 h3 h4
          subst h1 h2 h3 h4
          exact prefilter_answer _ (keysOK_collOf _ c hk) .cosine q f _

/-! ### no_stale_cache — an index is never consulted after its data changed -/

/-- **With /verif/proposed/C06-invalidate-hnsw-cache.diff applied** (`Variant.fixed`): after EVERY
    operation sequence, in the default and in every named collection, a cached index — if there
    is one — was built from exactly the current data, and every search that consults an index
    consults one built from the current data. -/
theorem no_stale_cache (ops : List Op) : NoStaleUse (run Variant.fixed State.init ops) :=
  noStaleUse_of_inv _ (inv_run Variant.fixed ops State.init inv_init (Or.inl rfl))

/-- PARTIAL, the code as it is (`Variant.current`): the same, for every sequence of operations that
    does not contain `store_embedding_with_metadata`, `batch_delete_embeddings`, `clear` or
    `delete_collection`.  What is missing: those four (see `stale_cache_witness`). -/
theorem no_stale_cache_partial (ops : List Op) (h : ∀ op ∈ ops, op.invalidates = true) :
    NoStaleUse (run Variant.current State.init ops) :=
  noStaleUse_of_inv _ (inv_run Variant.current ops State.init inv_init (Or.inr h))

def staleOps : List Op :=
  [.store "a" [1, 0, 0], .store "b" [0, 1, 0], .build, .batchDelete ["a"]]

/-- The code as it is does NOT have the property: after store, store, build-index, batch-delete
    the index built from the old data is still consulted, and it still contains the deleted key. -/
theorem stale_cache_witness :
    getDefault (run Variant.current State.init staleOps) "a" = none ∧
    (match searchDefault (run Variant.current State.init staleOps) [1, 0, 0] 5 with
      | .viaIndex snap _ _ _ => snap.map (·.1)
      | _ => []) = ["a", "b"] := by
  decide

/-- the same sequence on the fixed variant answers by brute force from the current data -/
theorem stale_cache_fixed_witness :
    (match searchDefault (run Variant.fixed State.init staleOps) [1, 0, 0] 5 with
      | .ranked _ rs _ _ => rs.map (·.key)
      | _ => ["?"]) = ["b"] := by
  decide

/-! ### cached_result_shape — what holds when the index is consulted (recall is not claimed) -/

/-- **Shape of an answer taken from the index.**  Whatever node ids and scores the index
    returns (`ann`), the engine's post-processing yields at most `k` results, ordered best
    first, each a key of the indexed set.  If the index honours its contract — distinct node
    ids, and the score reported for a node is the true cosine score of that node's vector —
    there are no duplicate keys and every result carries the true score of an indexed vector. -/
theorem cached_result_shape (snap : Snap) (q : List Int) (ann : List (Nat × Score)) (k : Nat) :
    (postProcessAnn snap ann k).length ≤ k ∧
    (postProcessAnn snap ann k).Pairwise (fun a b => candBetter .cosine a b = true) ∧
    (∀ c ∈ postProcessAnn snap ann k, c.key ∈ snap.map (·.1)) ∧
    ((snap.map (·.1)).Nodup → (ann.map (·.1)).Nodup →
      ((postProcessAnn snap ann k).map (·.key)).Nodup) ∧
    ((∀ a ∈ ann, ∀ e, snap[a.1]? = some e → a.2 = score .cosine q e.2) →
      ∀ c ∈ postProcessAnn snap ann k, ∃ vec, (c.key, vec) ∈ snap ∧ c.score = score .cosine q vec) := by
  have hperm := sortBy_perm (candBetter .cosine)
    (ann.filterMap fun a => (snap[a.1]?).map fun e => (⟨e.1, a.2, true⟩ : Cand))
  have hmem : ∀ c ∈ postProcessAnn snap ann k,
      ∃ a ∈ ann, ∃ e, snap[a.1]? = some e ∧ c = ⟨e.1, a.2, true⟩ := by
    intro c hc
    have h1 := hperm.subset (List.mem_of_mem_take hc)
    obtain ⟨a, ha, hac⟩ := List.mem_filterMap.mp h1
    cases he : snap[a.1]? with
    | none => simp [he] at hac
    | some e =>
      simp only [he, Option.map_some, Option.some.injEq] at hac
      exact ⟨a, ha, e, he, hac.symm⟩
  refine ⟨?_, ?_, ?_, ?_, ?_⟩
  · simp only [postProcessAnn, List.length_take]; omega
  · exact (sortBy_sorted _ (candBetter_total _) (candBetter_trans _) _).sublist (List.take_sublist k _)
  · intro c hc
    obtain ⟨a, _, e, he, rfl⟩ := hmem c hc
    exact List.mem_map.mpr ⟨e, List.mem_of_getElem? he, rfl⟩
  · intro hn hids
    have h1 := mapped_keys_nodup snap hn ann hids
    have h2 : ((rank .cosine (ann.filterMap fun a => (snap[a.1]?).map fun e =>
        (⟨e.1, a.2, true⟩ : Cand))).map (·.key)).Nodup := (hperm.map _).nodup_iff.mpr h1
    exact h2.sublist ((List.take_sublist k _).map _)
  · intro htrue c hc
    obtain ⟨a, ha, e, he, rfl⟩ := hmem c hc
    exact ⟨e.2, List.mem_of_getElem? he, htrue a ha e he⟩

/-- ... and when the index is fresh (`no_stale_cache`), "a key of the indexed set with its true
    score" means: a key stored NOW, with the score of its CURRENT vector -/
theorem cached_result_is_current (items : Items) (hn : (items.map (·.1)).Nodup) (q : List Int)
    (key : String) (vec : List Int) (sc : Score)
    (h : (key, vec) ∈ snapOf items) (hs : sc = score .cosine q vec) :
    ∃ it, alGet items key = some it ∧ sc = score .cosine q (vecOf it) := by
  simp only [snapOf, List.mem_map] at h
  obtain ⟨e, he, heq⟩ := h
  simp only [Prod.mk.injEq] at heq
  obtain ⟨rfl, rfl⟩ := heq
  exact ⟨e.2, alGet_of_mem_nodup items e.1 e.2 hn he, hs⟩

/-! ### what the current code does NOT satisfy (kept as regression witnesses) -/

def pfItems : List Op :=
  [.storeMeta "a" [4, 0] [("f", 0)], .storeMeta "b" [4, 1] [("f", 0)], .storeMeta "c" [4, 2] [("f", 0)],
   .storeMeta "d" [4, 3] [("f", 0)], .storeMeta "e" [0, 1] [("f", 1)]]

/-- Post-filter strategy (chosen by `Auto` when ≥ 10 % of the sample matches): oversample `3k`
    by similarity, THEN filter — the only vector satisfying `f = 1` is not among the 3 nearest, so
    the answer is empty although a qualifying vector is stored.  The pre-filter answer finds it. -/
theorem post_filter_not_topk_witness :
    (searchFiltered (run Variant.current State.init pfItems) [1, 0] 1 (.cmp .eq "f" 1) .auto 3).answer.map (·.key) = [] ∧
    (searchFiltered (run Variant.current State.init pfItems) [1, 0] 1 (.cmp .eq "f" 1) .pre 3).answer.map (·.key) = ["e"] := by
  decide

def cpOps : List Op :=
  [.createColl "c" ⟨some 2, .euclid⟩, .cstore "c" "near" [1, 1] [("f", 1)], .cstore "c" "far" [60, 0] [("f", 1)]]

/-- A collection configured with the Euclidean metric: unfiltered search ranks `near` first
    (Euclid), the pre-filter branch of the filtered search ranks `far` first (cosine). -/
theorem coll_prefilter_ignores_metric_witness :
    (searchColl (run Variant.current State.init cpOps) "c" [2, 0] 1).answer.map (·.key) = ["near"] ∧
    (searchCollFiltered (run Variant.current State.init cpOps) "c" [2, 0] 1 (.ex "f") .pre 3).answer.map (·.key) = ["far"] := by
  decide

/-! ### Non-vacuity: concrete non-trivial states / inputs meet the hypotheses -/

-- a sequence made only of invalidating operations, with an index built and then invalidated
example : ∀ op ∈ ([.store "a" [1, 2], .build, .store "a" [2, 1], .cstore "c" "x" [1] [], .cbuild "c"] : List Op),
    op.invalidates = true := by decide
-- an index really is consulted in reachable states (the `viaIndex` hypotheses are satisfiable)
example : (match searchDefault (run Variant.fixed State.init [.store "a" [1, 2], .store "b" [2, 1], .build]) [1, 2] 1 with
    | .viaIndex snap _ _ _ => snap.length | _ => 0) = 2 := by decide
-- brute force really answers (the `ranked` hypotheses are satisfiable), with ties and mixed dimensions
example : (searchMetric (run Variant.current State.init
      [.store "a" [1, 2], .store "b" [2, 4], .store "c" [1, 2, 3], .store "z" [0, 0]]) .cosine [3, 6] 2).answer.map (·.key)
    = ["a", "b"] := by decide
-- the index contract hypotheses of `cached_result_shape` are satisfiable with a non-trivial answer
example : (postProcessAnn [("a", [1, 0]), ("b", [0, 1])] (annWithTrueScores [("a", [1, 0]), ("b", [0, 1])] [1, 1] [1, 0, 7]) 5).map (·.key)
    = ["b", "a"] := by decide
-- sparse representation really is chosen and normalises -0.0 only
example : toDense bitsOps (mkRepr bitsOps [2147483648, 0, 0, 1065353216]) = [0, 0, 0, 1065353216] := by decide
example : toDense intOps (mkRepr intOps [0, 0, 5, 0]) = [0, 0, 5, 0] := repr_roundtrip_int _
example : alHas (run Variant.current State.init [.store "a" [1]]).dflt.items "a" = true := by decide

end Neumann.Vec.Props
