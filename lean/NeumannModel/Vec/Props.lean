import NeumannModel.Vec.Lemmas
/-
  C06 — property theorems for similarity search.  ONLY property statements and their
  non-vacuity examples live here; helpers are in `Lemmas.lean`.

  Reading guide.  `run State.init ops` is the engine state after ANY sequence of
  store / overwrite / delete / batch-delete / clear / build-index / collection operations
  (`Op`) of the code as it is (with the fixes a71cd63e, B1, B2).  The search functions
  return `SearchOut.ranked ..` exactly when the answer is computed by brute force (no index
  consulted) and `SearchOut.viaIndex snap ..` exactly when the cached index built from `snap`
  is consulted.  `runOld`, `searchDefaultOld`, `searchCollFilteredOld` are the code before those
  fixes; they appear only in the `_witness` theorems, which record on a concrete input what the
  old code did and what the current code does instead.  `searchWithHnsw` is the explicit-index
  entry point with 733b279c, `searchWithHnswOld` the code before it.  The theorems about storage
  keys and cache slots (4fa63773, the two namespace findings) are in `NsProps.lean`.
-/
namespace Neumann.Vec.Props
open Neumann.Vec

/-! ### repr_roundtrip — stored vectors read back as written -/

/-- For EVERY element type, every vector: `to_dense (from_dense v)` has the length of `v` and each
    element is the one written, or was a zero (`val != 0.0` false: `+0.0`/`-0.0`) and reads back
    as the canonical zero — i.e. equal under IEEE `==`.  NaN, ±inf, denormals are kept bit for bit. -/
theorem repr_roundtrip {α : Type} (ops : ElemOps α) (v : List α) :
    (toDense ops (fromDense ops v)).length = v.length ∧
    ∀ (i : Nat) (h : i < v.length) (h' : i < (toDense ops (fromDense ops v)).length),
      (toDense ops (fromDense ops v))[i] = v[i] ∨
      (ops.isZero v[i] = true ∧ (toDense ops (fromDense ops v))[i] = ops.zero) := by
  rw [toDense_fromDense]
  refine ⟨by simp [normalise], ?_⟩
  intro i h h'
  simp only [normalise, List.getElem_map]
  by_cases hz : ops.isZero v[i] = true
  · right; simp [hz]
  · left; simp [hz]

/-- whichever representation `store_embedding` chooses (dense, or sparse when at least half of
    the elements are below `1e-6`), an integer-valued vector reads back exactly -/
theorem repr_roundtrip_int (v : List Int) : toDense intOps (mkRepr intOps v) = v := by
  rw [toDense_mkRepr, normalise_int]; simp

/-- ... and an arbitrary f32 bit pattern vector reads back bit for bit, except that `-0.0`
    (`0x80000000`) reads back as `+0.0` when the sparse form was chosen -/
theorem repr_roundtrip_bits (v : List Nat) :
    toDense bitsOps (mkRepr bitsOps v) = v ∨
    toDense bitsOps (mkRepr bitsOps v) = v.map (fun b => if b % 2147483648 = 0 then 0 else b) := by
  rw [toDense_mkRepr]
  split
  · right
    simp only [normalise, bitsOps, beq_iff_eq]
  · left; rfl

/-- `get` after `store` returns the vector just written (overwriting included) -/
theorem store_then_get (st : State) (key : String) (vec : List Int) (h : vec ≠ []) :
    getDefault (step st (.store key vec)).1 key = some vec := by
  have : vec.isEmpty = false := by cases vec <;> simp_all
  simp [step, this, getDefault, alGet_alPut_self, vecOf_mkItem]

/-- a deleted key is gone -/
theorem delete_then_absent (st : State) (key : String)
    (h : alHas st.dflt.items key = true) :
    getDefault (step st (.delete key)).1 key = none := by
  simp [step, h, getDefault, alGet_alDel_self]

/-- **Reads see exactly the last write.**  For EVERY operation sequence, `get_embedding` reads
    the default collection as the map the operations describe (`specStep`): a key reads back the
    vector of the last successful store / batch store of that key (whatever representation was
    chosen), unless a later delete / batch delete / clear removed it; metadata updates, index
    builds, cache invalidations and everything done to named collections change nothing. -/
theorem reads_see_last_write (ops : List Op) :
    getDefault (run State.init ops) = ops.foldl specStep (fun _ => none) := by
  rw [view_run]
  rfl

/-! ### search_is_topk — brute-force search returns the true nearest stored vectors -/

/-- ranking is generic: for ANY total preorder `ge` on candidates, sort-then-truncate returns
    `min k n` of them, best first, and no candidate left out beats a returned one -/
theorem topk_any_preorder {α : Type} (ge : α → α → Bool)
    (total : ∀ a b, ge a b = true ∨ ge b a = true)
    (trans : ∀ a b c, ge a b = true → ge b c = true → ge a c = true)
    (l : List α) (k : Nat) :
    ((sortBy ge l).take k).length = min k l.length ∧
    ((sortBy ge l).take k).Pairwise (fun a b => ge a b = true) ∧
    ((sortBy ge l).take k ++ (sortBy ge l).drop k).Perm l ∧
    (∀ x ∈ (sortBy ge l).take k, ∀ y ∈ (sortBy ge l).drop k, ge x y = true) :=
  topk_generic ge total trans l k

/-- each metric's comparison (cosine through cross-multiplied signed squares, dot and squared
    Euclid as integers) IS a total preorder, so `topk_any_preorder` applies to all of them -/
theorem score_order_is_total_preorder (m : Metric) :
    (∀ a b, better m a b = true ∨ better m b a = true) ∧
    (∀ a b c, better m a b = true → better m b c = true → better m a c = true) :=
  ⟨better_total m, better_trans m⟩

/-- **Similarity search without an index returns the true nearest stored vectors.**
    After EVERY operation sequence, for every metric, query and `k`:
    whenever `search_similar_with_metric`, `search_similar` or `search_in_collection` answers by
    brute force, the answer is exactly the top-`k` (`IsTopK`) of what is stored now, under the
    requested / cosine / the collection's configured metric respectively. -/
theorem search_is_topk (ops : List Op) (q : List Int) (k : Nat) :
    (∀ m m' rs cut k', searchMetric (run State.init ops) m q k = .ranked m' rs cut k' →
      IsTopK (run State.init ops).dflt.items m q none k (SearchOut.answer (.ranked m' rs cut k'))) ∧
    (∀ m' rs cut k', searchDefault (run State.init ops) q k = .ranked m' rs cut k' →
      IsTopK (run State.init ops).dflt.items .cosine q none k (SearchOut.answer (.ranked m' rs cut k'))) ∧
    (∀ c m' rs cut k', searchColl (run State.init ops) c q k = .ranked m' rs cut k' →
      IsTopK (collOf (run State.init ops) c).items (cfgMetric (run State.init ops) c) q none k
        (SearchOut.answer (.ranked m' rs cut k'))) := by
  have hk := keysOK_run ops State.init keysOK_init
  refine ⟨?_, ?_, ?_⟩
  · intro m m' rs cut k' h
    simp only [searchMetric] at h
    split at h
    · cases h
    · split at h
      · cases h
      · split at h
        · cases h
        · injection h with h1 h2 h3 h4
          subst h1 h2 h3 h4
          exact unfiltered_answer _ hk.1 _ q _
  · intro m' rs cut k' h
    simp only [searchDefault] at h
    split at h
    · cases h
    · split at h
      · cases h
      · split at h
        · cases h
        · obtain ⟨h1, h2, h3, h4⟩ := searchCore_ranked _ _ _ _ _ _ _ _ _ _ h
          subst h1 h2 h3 h4
          exact unfiltered_answer _ hk.1 .cosine q _
  · intro c m' rs cut k' h
    simp only [searchColl] at h
    split at h
    · cases h
    · split at h
      · cases h
      · split at h
        · cases h
        · split at h
          · cases h
          · obtain ⟨h1, h2, h3, h4⟩ := searchCore_ranked _ _ _ _ _ _ _ _ _ _ h
            subst h1 h2 h3 h4
            exact unfiltered_answer _ (keysOK_collOf _ c hk) _ q _

/-- Filtered search, pre-filter strategy (default collection: cosine): exact top-`k` of the
    stored vectors that satisfy the metadata filter, after every operation sequence. -/
theorem search_filtered_pre_is_topk (ops : List Op) (q : List Int) (k : Nat) (f : Filter)
    (os : Nat) (m' : Metric) (rs : List Cand) (cut k' : Nat)
    (h : searchFiltered (run State.init ops) q k f .pre os = .ranked m' rs cut k') :
    IsTopK (run State.init ops).dflt.items .cosine q (some f) k (SearchOut.answer (.ranked m' rs cut k')) := by
  have hk := keysOK_run ops State.init keysOK_init
  simp only [searchFiltered] at h
  split at h
  · cases h
  · split at h
    · cases h
    · split at h
      · cases h
      · injection h with h1 h2 h3 h4
        subst h1 h2 h3 h4
        exact prefilter_answer _ hk.1 .cosine q f _

/-- Filtered search in a named collection, pre-filter strategy: exact top-`k` of the collection's
    stored vectors that satisfy the metadata filter **under the collection's configured metric**
    (cosine, Euclidean or dot product), after every operation sequence. -/
theorem search_filtered_coll_pre_is_topk (ops : List Op) (c : String) (q : List Int)
    (k : Nat) (f : Filter) (os : Nat) (m' : Metric) (rs : List Cand) (cut k' : Nat)
    (h : searchCollFiltered (run State.init ops) c q k f .pre os = .ranked m' rs cut k') :
    IsTopK (collOf (run State.init ops) c).items (cfgMetric (run State.init ops) c) q (some f) k
      (SearchOut.answer (.ranked m' rs cut k')) := by
  have hk := keysOK_run ops State.init keysOK_init
  simp only [searchCollFiltered] at h
  split at h
  · cases h
  · split at h
    · cases h
    · split at h
      · cases h
      · split at h
        · cases h
        · injection h with h1 h2 h3 h4
          subst h1 h2 h3 h4
          exact prefilter_answer _ (keysOK_collOf _ c hk) _ q f _

/-! ### no_stale_cache — an index is never consulted after its data changed -/

/-- After EVERY operation sequence, in the default and in every named collection, a cached index
    — if there is one — was built from exactly the current data, and every search that consults
    an index (`search_similar`, `search_similar_filtered`, `search_in_collection`,
    `search_filtered_in_collection`) consults one built from the current data. -/
theorem no_stale_cache (ops : List Op) : NoStaleUse (run State.init ops) :=
  noStaleUse_of_inv _ (inv_run ops State.init inv_init)

def staleOps : List Op :=
  [.store "a" [1, 0, 0], .store "b" [0, 1, 0], .build, .batchDelete ["a"]]

/-- Regression witness (code before a71cd63e): after store, store, build-index, batch-delete the
    index built from the old data was still consulted, and it still contained the deleted key.
    The current code answers the same sequence by brute force from the current data. -/
theorem stale_cache_witness :
    getDefault (runOld State.init staleOps) "a" = none ∧
    (match searchDefaultOld (runOld State.init staleOps) [1, 0, 0] 5 with
      | .viaIndex snap _ _ _ => snap.map (·.1)
      | _ => []) = ["a", "b"] ∧
    (match searchDefault (run State.init staleOps) [1, 0, 0] 5 with
      | .ranked _ rs _ _ => rs.map (·.key)
      | _ => ["?"]) = ["b"] := by
  decide

/-! ### cached_index_dimension_guard — an index only sees queries of its own dimension -/

/-- After EVERY operation sequence, for every entry point, query and `k`: if a cached index is
    consulted then every indexed vector has the query's dimension; the unspecified outcome of the
    old code (`indexDimMismatch`: index searched with a query of another dimension — a panic or
    scores against vectors of the wrong length) never occurs.  A query of another dimension is
    answered by brute force over the stored vectors of the query's dimension (`search_is_topk`). -/
theorem cached_index_dimension_guard (ops : List Op) : DimGuarded (run State.init ops) :=
  dimGuarded_of_inv _ (inv_run ops State.init inv_init)

/-- ... so every result taken from the index has the query's dimension: whatever node ids and
    scores the index returns (`ann`), each key the engine answers with is stored NOW and its
    CURRENT vector has the query's dimension (default collection and named collections). -/
theorem cached_result_has_query_dimension (ops : List Op) (q : List Int) (k : Nat)
    (ann : List (Nat × Score)) :
    (∀ snap rs cut k', searchDefault (run State.init ops) q k = .viaIndex snap rs cut k' →
      ∀ r ∈ postProcessAnn snap ann k', ∃ it,
        alGet (run State.init ops).dflt.items r.key = some it ∧ (vecOf it).length = q.length) ∧
    (∀ c snap rs cut k', searchColl (run State.init ops) c q k = .viaIndex snap rs cut k' →
      ∀ r ∈ postProcessAnn snap ann k', ∃ it,
        alGet (collOf (run State.init ops) c).items r.key = some it ∧ (vecOf it).length = q.length) := by
  have hk := keysOK_run ops State.init keysOK_init
  have hs := no_stale_cache ops
  have hd := cached_index_dimension_guard ops
  have core : ∀ (items : Items), (items.map (·.1)).Nodup → ∀ (snap : Snap) (k' : Nat),
      snap = snapOf items → (∀ e ∈ snap, e.2.length = q.length) →
      ∀ r ∈ postProcessAnn snap ann k', ∃ it, alGet items r.key = some it ∧ (vecOf it).length = q.length := by
    intro items hn snap k' hsnap hdim r hr
    obtain ⟨a, _, e, he, rfl⟩ := mem_postProcessAnn snap ann k' r hr
    have hmem : e ∈ snap := List.mem_of_getElem? he
    have hmem' : (e.1, e.2) ∈ snapOf items := by rw [← hsnap]; exact hmem
    obtain ⟨it, hit, hv⟩ := current_of_mem_snapOf items hn e.1 e.2 hmem'
    exact ⟨it, hit, by rw [hv]; exact hdim e hmem⟩
  refine ⟨?_, ?_⟩
  · intro snap rs cut k' h
    have h1 := hs.2.1 q k snap rs cut k' h
    have h2 := hd.1 q k
    rw [h] at h2
    exact core _ hk.1 snap k' h1 h2
  · intro c snap rs cut k' h
    have h1 := hs.2.2.2.1 c q k snap rs cut k' h
    have h2 := hd.2.2.2.1 c q k
    rw [h] at h2
    exact core _ (keysOK_collOf _ c hk) snap k' h1 h2

def dimOps : List Op := [.store "a" [1, 0, 0], .store "b" [0, 1, 0], .build]

/-- Regression witness (code before B1): with an index over dimension-3 vectors cached, a
    dimension-4 (or dimension-2) query was handed to the index unchecked.  The current code
    answers it by brute force: no stored vector has that dimension, so the answer is empty;
    a dimension-3 query still goes to the index. -/
theorem index_dim_unchecked_witness :
    searchDefaultOld (runOld State.init dimOps) [1, 0, 0, 5] 5
      = .indexDimMismatch [("a", [1, 0, 0]), ("b", [0, 1, 0])] ∧
    searchDefaultOld (runOld State.init dimOps) [1, 0] 5
      = .indexDimMismatch [("a", [1, 0, 0]), ("b", [0, 1, 0])] ∧
    searchDefault (run State.init dimOps) [1, 0, 0, 5] 5 = .ranked .cosine [] 5 5 ∧
    searchDefault (run State.init dimOps) [1, 0] 5 = .ranked .cosine [] 5 5 ∧
    (match searchDefault (run State.init dimOps) [0, 0, 1] 5 with
      | .viaIndex snap _ _ _ => snap.length
      | _ => 0) = 2 := by
  decide

/-! ### explicit_index_dimension_guard — `search_with_hnsw` hands the index only queries of its dimension -/

/-- For EVERY data set that passes the build-time dimension check of `build_hnsw_index`, every
    query and `k`: `search_with_hnsw` / `search_with_hnsw_and_metric` on the index built from it
    consult the index only when every indexed vector has the query's dimension (the unspecified
    outcome of the code before 733b279c — a panic on a shorter query, scores on a prefix of a
    longer one — never occurs), and a non-empty query of any other dimension with `k > 0` is
    refused with `DimensionMismatch`. -/
theorem explicit_index_dimension_guard (items : Items) (hd : sameDims items = true)
    (q : List Int) (k : Nat) :
    (searchWithHnsw (snapOf items) q k).dimOK q ∧
    ((∃ e ∈ snapOf items, e.2.length ≠ q.length) → q ≠ [] → k ≠ 0 →
      searchWithHnsw (snapOf items) q k = .err .dimMismatch) := by
  cases items with
  | nil =>
    refine ⟨?_, fun ⟨e, he, _⟩ => by cases he⟩
    simp only [searchWithHnsw, snapOf, List.map_nil]
    split
    · trivial
    · split
      · trivial
      · intro e he; cases he
  | cons e0 rest =>
    by_cases hlen : (vecOf e0.2).length = q.length
    · have hu : indexUsable (snapOf (e0 :: rest)) q = true := by
        simp only [snapOf, List.map_cons, indexUsable, beq_iff_eq]; exact hlen
      have hall := snap_dims (e0 :: rest) hd q hu
      refine ⟨?_, fun ⟨e, he, hne⟩ => absurd (hall e he) hne⟩
      simp only [searchWithHnsw, snapOf, List.map_cons]
      split
      · trivial
      · split
        · trivial
        · simp only [bne_iff_ne, ne_eq, hlen, not_true_eq_false, if_false]
          intro e he
          exact hall e (by simpa only [snapOf, List.map_cons] using he)
    · have hbne : ((vecOf e0.2).length != q.length) = true := by simpa using hlen
      refine ⟨?_, ?_⟩
      · simp only [searchWithHnsw, snapOf, List.map_cons]
        split
        · trivial
        · split
          · trivial
          · trivial
      · intro _ hq hk
        have hq' : q.isEmpty = false := by cases q <;> simp_all
        simp only [searchWithHnsw, snapOf, List.map_cons, hq', hk, hbne, if_true, if_false,
          Bool.false_eq_true]

/-- ... in particular after EVERY operation sequence, for the index `build_hnsw_index` returns. -/
theorem explicit_index_dimension_guard_run (ops : List Op) (snap : Snap)
    (h : buildIndex (run State.init ops) = some snap) (q : List Int) (k : Nat) :
    (searchWithHnsw snap q k).dimOK q := by
  simp only [buildIndex] at h
  split at h
  · rename_i hd
    cases h
    exact (explicit_index_dimension_guard _ hd q k).1
  · cases h

/-- Regression witness (code before 733b279c): an index over dimension-3 vectors built with
    `build_hnsw_index`; `search_with_hnsw` handed a dimension-4 and a dimension-2 query to the
    index unchecked.  The current code refuses both and still answers a dimension-3 query from
    the index. -/
theorem explicit_index_dim_unchecked_witness :
    buildIndex (run State.init dimOps) = some [("a", [1, 0, 0]), ("b", [0, 1, 0])] ∧
    searchWithHnswOld [("a", [1, 0, 0]), ("b", [0, 1, 0])] [1, 0, 0, 5] 2
      = .indexDimMismatch [("a", [1, 0, 0]), ("b", [0, 1, 0])] ∧
    searchWithHnswOld [("a", [1, 0, 0]), ("b", [0, 1, 0])] [1, 0] 2
      = .indexDimMismatch [("a", [1, 0, 0]), ("b", [0, 1, 0])] ∧
    searchWithHnsw [("a", [1, 0, 0]), ("b", [0, 1, 0])] [1, 0, 0, 5] 2 = .err .dimMismatch ∧
    searchWithHnsw [("a", [1, 0, 0]), ("b", [0, 1, 0])] [1, 0] 2 = .err .dimMismatch ∧
    (match searchWithHnsw [("a", [1, 0, 0]), ("b", [0, 1, 0])] [1, 0, 0] 2 with
      | .viaIndex _ rs _ _ => rs.map (·.key)
      | _ => []) = ["a", "b"] := by
  decide

/-! ### cached_result_shape — what holds when the index is consulted (recall is not claimed) -/

/-- **Shape of an answer taken from the index.**  Whatever node ids and scores the index
    returns (`ann`), the engine's post-processing yields at most `k` results, ordered best
    first, each a key of the indexed set.  If the index honours its contract — distinct node
    ids, and the score reported for a node is the true cosine score of that node's vector —
    there are no duplicate keys and every result carries the true score of an indexed vector. -/
theorem cached_result_shape (snap : Snap) (q : List Int) (ann : List (Nat × Score)) (k : Nat) :
    (postProcessAnn snap ann k).length ≤ k ∧
    (postProcessAnn snap ann k).Pairwise (fun a b => candBetter .cosine a b = true) ∧
    (∀ c ∈ postProcessAnn snap ann k, c.key ∈ snap.map (·.1)) ∧
    ((snap.map (·.1)).Nodup → (ann.map (·.1)).Nodup →
      ((postProcessAnn snap ann k).map (·.key)).Nodup) ∧
    ((∀ a ∈ ann, ∀ e, snap[a.1]? = some e → a.2 = score .cosine q e.2) →
      ∀ c ∈ postProcessAnn snap ann k, ∃ vec, (c.key, vec) ∈ snap ∧ c.score = score .cosine q vec) := by
  have hperm := sortBy_perm (candBetter .cosine)
    (ann.filterMap fun a => (snap[a.1]?).map fun e => (⟨e.1, a.2, true⟩ : Cand))
  have hmem := mem_postProcessAnn snap ann k
  refine ⟨?_, ?_, ?_, ?_, ?_⟩
  · simp only [postProcessAnn, List.length_take]; omega
  · exact (sortBy_sorted _ (candBetter_total _) (candBetter_trans _) _).sublist (List.take_sublist k _)
  · intro c hc
    obtain ⟨a, _, e, he, rfl⟩ := hmem c hc
    exact List.mem_map.mpr ⟨e, List.mem_of_getElem? he, rfl⟩
  · intro hn hids
    have h1 := mapped_keys_nodup snap hn ann hids
    have h2 : ((rank .cosine (ann.filterMap fun a => (snap[a.1]?).map fun e =>
        (⟨e.1, a.2, true⟩ : Cand))).map (·.key)).Nodup := (hperm.map _).nodup_iff.mpr h1
    exact h2.sublist ((List.take_sublist k _).map _)
  · intro htrue c hc
    obtain ⟨a, ha, e, he, rfl⟩ := hmem c hc
    exact ⟨e.2, List.mem_of_getElem? he, htrue a ha e he⟩

/-- ... and when the index is fresh (`no_stale_cache`), "a key of the indexed set with its true
    score" means: a key stored NOW, with the score of its CURRENT vector -/
theorem cached_result_is_current (items : Items) (hn : (items.map (·.1)).Nodup) (q : List Int)
    (key : String) (vec : List Int) (sc : Score)
    (h : (key, vec) ∈ snapOf items) (hs : sc = score .cosine q vec) :
    ∃ it, alGet items key = some it ∧ sc = score .cosine q (vecOf it) := by
  simp only [snapOf, List.mem_map] at h
  obtain ⟨e, he, heq⟩ := h
  simp only [Prod.mk.injEq] at heq
  obtain ⟨rfl, rfl⟩ := heq
  exact ⟨e.2, alGet_of_mem_nodup items e.1 e.2 hn he, hs⟩

/-! ### post-filter search: always sound, exact when the oversample pool covers the candidates -/

/-- **What the post-filter strategy does guarantee** (`search_similar_filtered` with
    `PostFilter`, or `Auto` choosing it, answered by brute force), after EVERY operation sequence:
    the answer is a sub-list, in order, of the exact filtered ranking — so at most `k` results,
    best first, no key twice, each a key stored NOW whose current vector has the query's
    dimension, with its true score, and whose current metadata satisfies the filter.  What it
    does not guarantee is completeness (`post_filter_not_topk_witness`) ... -/
theorem post_filter_sound (ops : List Op) (q : List Int) (k : Nat) (f : Filter) (os : Nat)
    (m' : Metric) (rs : List Cand) (cut k' : Nat)
    (h : searchFiltered (run State.init ops) q k f .post os = .ranked m' rs cut k') :
    (SearchOut.answer (.ranked m' rs cut k')).Sublist
        (filteredRanking (run State.init ops).dflt.items .cosine q f) ∧
    (SearchOut.answer (.ranked m' rs cut k')).length ≤ k ∧
    (SearchOut.answer (.ranked m' rs cut k')).Pairwise (fun a b => candBetter .cosine a b = true) ∧
    ((SearchOut.answer (.ranked m' rs cut k')).map (·.key)).Nodup ∧
    (∀ c ∈ SearchOut.answer (.ranked m' rs cut k'), ∃ it,
      alGet (run State.init ops).dflt.items c.key = some it ∧ (vecOf it).length = q.length ∧
      c.score = score .cosine q (vecOf it) ∧ evalFilter it.md f = true) := by
  have hk := keysOK_run ops State.init keysOK_init
  simp only [searchFiltered] at h
  split at h
  · cases h
  · split at h
    · cases h
    · split at h
      · cases h
      · obtain ⟨h1, h2, h3, h4⟩ := searchCore_ranked _ _ _ _ _ _ _ _ _ _ h
        subst h1 h2 h3 h4
        have hsub := postfilter_answer_sublist (run State.init ops).dflt.items .cosine q f (oversampleK k' os) k'
        refine ⟨hsub, ?_, (filteredRanking_sorted _ _ _ _).sublist hsub,
          (filteredRanking_keys_nodup _ hk.1 _ _ _).sublist (hsub.map _), ?_⟩
        · simp only [SearchOut.answer, List.length_take]; omega
        · intro c hc
          exact mem_filteredRanking _ hk.1 _ _ _ c (hsub.subset hc)

/-- ... unless the oversample pool (`max (k·oversample) k`) is at least as large as the number
    of stored vectors of the query's dimension: then nothing is cut off and the post-filter answer
    IS the exact top-`k` of the vectors satisfying the filter. -/
theorem post_filter_exact_when_pool_covers (ops : List Op) (q : List Int) (k : Nat) (f : Filter)
    (os : Nat) (m' : Metric) (rs : List Cand) (cut k' : Nat)
    (h : searchFiltered (run State.init ops) q k f .post os = .ranked m' rs cut k')
    (hpool : (candidates (run State.init ops).dflt.items .cosine q (some f)).length ≤ oversampleK k os) :
    IsTopK (run State.init ops).dflt.items .cosine q (some f) k (SearchOut.answer (.ranked m' rs cut k')) := by
  have hk := keysOK_run ops State.init keysOK_init
  simp only [searchFiltered] at h
  split at h
  · cases h
  · split at h
    · cases h
    · split at h
      · cases h
      · obtain ⟨h1, h2, h3, h4⟩ := searchCore_ranked _ _ _ _ _ _ _ _ _ _ h
        subst h1 h2 h3 h4
        exact postfilter_exact _ hk.1 _ _ _ _ _ hpool

/-- the same two facts in a named collection, under the collection's configured metric -/
theorem coll_post_filter_sound_and_exact (ops : List Op) (c : String) (q : List Int) (k : Nat)
    (f : Filter) (os : Nat) (m' : Metric) (rs : List Cand) (cut k' : Nat)
    (h : searchCollFiltered (run State.init ops) c q k f .post os = .ranked m' rs cut k') :
    (SearchOut.answer (.ranked m' rs cut k')).Sublist
        (filteredRanking (collOf (run State.init ops) c).items (cfgMetric (run State.init ops) c) q f) ∧
    ((candidates (collOf (run State.init ops) c).items (cfgMetric (run State.init ops) c) q (some f)).length
        ≤ oversampleK k os →
      IsTopK (collOf (run State.init ops) c).items (cfgMetric (run State.init ops) c) q (some f) k
        (SearchOut.answer (.ranked m' rs cut k'))) := by
  have hk := keysOK_run ops State.init keysOK_init
  simp only [searchCollFiltered] at h
  split at h
  · cases h
  · split at h
    · cases h
    · split at h
      · cases h
      · split at h
        · cases h
        · obtain ⟨h1, h2, h3, h4⟩ := searchCore_ranked _ _ _ _ _ _ _ _ _ _ h
          subst h1 h2 h3 h4
          exact ⟨postfilter_answer_sublist _ _ _ _ _ _,
            fun hpool => postfilter_exact _ (keysOK_collOf _ c hk) _ _ _ _ _ hpool⟩

/-- `Auto` is one of the two strategies, chosen by the selectivity sample (so each `Auto`
    answer is covered by the pre-filter or by the post-filter theorems) -/
theorem auto_strategy_is_pre_or_post (st : State) (q : List Int) (k : Nat) (f : Filter) (os : Nat) :
    searchFiltered st q k f .auto os = searchFiltered st q k f (chooseDefault st.dflt.items f) os ∧
    (chooseDefault st.dflt.items f = .pre ∨ chooseDefault st.dflt.items f = .post) := by
  have hch : chooseDefault st.dflt.items f = .pre ∨ chooseDefault st.dflt.items f = .post := by
    simp only [chooseDefault]
    split
    · right; rfl
    · split
      · right; rfl
      · split
        · left; rfl
        · right; rfl
  refine ⟨?_, hch⟩
  rcases hch with h | h <;> simp [searchFiltered, h]

/-! ### metadata updates, batch stores, pagination -/

/-- `update_metadata` / `remove_metadata_field` change no key, no stored vector and not the cached
    index: the data the index was built from is still the current data (which is why these two
    operations need not, and do not, invalidate it — `no_stale_cache` covers them). -/
theorem metadata_ops_keep_vectors (st : State) (key field : String) (md : List (String × Int)) :
    snapOf (step st (.updateMeta key md)).1.dflt.items = snapOf st.dflt.items ∧
    (step st (.updateMeta key md)).1.dflt.cache = st.dflt.cache ∧
    snapOf (step st (.removeMetaField key field)).1.dflt.items = snapOf st.dflt.items ∧
    (step st (.removeMetaField key field)).1.dflt.cache = st.dflt.cache := by
  refine ⟨?_, ?_, ?_, ?_⟩
  · simp only [step]; split
    · exact snapOf_alModify st.dflt.items key (fun it => ⟨it.repr, mergeMeta it.md md⟩) (fun _ => rfl)
    · rfl
  · simp only [step]; split <;> rfl
  · simp only [step]; split
    · exact snapOf_alModify st.dflt.items key (fun it => ⟨it.repr, alDel it.md field⟩) (fun _ => rfl)
    · rfl
  · simp only [step]; split <;> rfl

/-- what filters see after `update_metadata`: a field given in the update has the new value,
    every other field keeps its old one (the update is a map: field names are distinct) -/
theorem update_metadata_merges (old new : List (String × Int)) (hn : (new.map (·.1)).Nodup) (f : String) :
    alGet (mergeMeta old new) f = (alGet new f).or (alGet old f) :=
  alGet_mergeMeta old new hn f

/-- `batch_store_embeddings` is all-or-nothing on validation (one empty vector: nothing is
    stored, the cached index stays) and otherwise IS the sequence of single stores, in order -/
theorem batch_store_is_sequential (st : State) (inputs : List (String × List Int)) :
    ((∃ e ∈ inputs, e.2 = []) → (step st (.batchStore inputs)).1 = st) ∧
    ((∀ e ∈ inputs, e.2 ≠ []) →
      (step st (.batchStore inputs)).1 = run st (inputs.map fun e => .store e.1 e.2)) := by
  refine ⟨?_, ?_⟩
  · rintro ⟨e, he, hemp⟩
    simp only [step]
    split
    · rfl
    · have : inputs.any (fun e => e.2.isEmpty) = true :=
        List.any_eq_true.mpr ⟨e, he, by simp [hemp]⟩
      simp [this]
  · intro hall
    cases inputs with
    | nil => simp [step, run]
    | cons e0 rest =>
      have hany : (e0 :: rest).any (fun e => e.2.isEmpty) = false := by
        rw [List.any_eq_false]
        intro e he
        have := hall e he
        cases h : e.2 with
        | nil => exact absurd h this
        | cons _ _ => simp
      simp only [step, List.isEmpty_cons, Bool.false_eq_true, ite_false, hany]
      -- sequential stores: the items are folded in order, the cache ends up empty
      have key : ∀ (l : List (String × List Int)) (s : State), (∀ e ∈ l, e.2 ≠ []) → l ≠ [] →
          run s (l.map fun e => Op.store e.1 e.2)
            = { s with dflt := ⟨l.foldl (fun items e => alPut items e.1 (mkItem e.2 [])) s.dflt.items, none⟩ } := by
        intro l
        induction l with
        | nil => intro s _ hne; exact absurd rfl hne
        | cons e es ih =>
          intro s hl _
          have he : e.2.isEmpty = false := by
            have := hl e (by simp)
            cases h : e.2 with
            | nil => exact absurd h this
            | cons _ _ => rfl
          simp only [List.map_cons, run, step, he, Bool.false_eq_true, ite_false, List.foldl_cons]
          cases es with
          | nil => simp [run]
          | cons e1 es1 =>
            rw [ih _ (fun x hx => hl x (by simp [hx])) (by simp)]
      rw [key (e0 :: rest) st hall (by simp)]

/-- **Pagination hands out slices of the one top-`k` answer.**  After EVERY operation sequence:
    whenever `search_similar_paginated(q, k, skip, limit)` is answered by brute force, the page is
    `pageOf skip limit T` where `T` is the exact top-`k` (`IsTopK`) — the same `T` for every
    page, so consecutive pages neither overlap nor skip a result. -/
theorem paginated_is_slice_of_topk (ops : List Op) (q : List Int) (k skip : Nat) (limit : Option Nat)
    (m' : Metric) (rs : List Cand) (cut k' : Nat)
    (h : searchPaged (run State.init ops) q k skip limit = .ranked m' rs cut k') :
    IsTopK (run State.init ops).dflt.items .cosine q none k (rs.take k) ∧
    pageOf skip limit (SearchOut.answer (.ranked m' rs cut k')) = pageOf skip limit (rs.take k) := by
  have hk := keysOK_run ops State.init keysOK_init
  simp only [searchPaged, searchDefault] at h
  split at h
  · cases h
  · split at h
    · cases h
    · split at h
      · cases h
      · obtain ⟨h1, h2, h3, h4⟩ := searchCore_ranked _ _ _ _ _ _ _ _ _ _ h
        subst h1 h2 h3 h4
        have hall : ∀ c ∈ rank .cosine (candidates (run State.init ops).dflt.items .cosine q none), c.pass = true :=
          fun c hc => unfiltered_pass _ _ _ c ((sortBy_perm _ _).subset hc)
        refine ⟨?_, ?_⟩
        · have := unfiltered_answer (run State.init ops).dflt.items hk.1 .cosine q k
          rw [answer_allpass _ _ _ hall] at this
          exact this
        · rw [answer_allpass _ _ _ hall]
          exact pageOf_take _ _ k skip limit

/-! ### what the current code does NOT satisfy (known findings), and regression witnesses -/

def pfItems : List Op :=
  [.storeMeta "a" [4, 0] [("f", 0)], .storeMeta "b" [4, 1] [("f", 0)], .storeMeta "c" [4, 2] [("f", 0)],
   .storeMeta "d" [4, 3] [("f", 0)], .storeMeta "e" [0, 1] [("f", 1)]]

/-- KNOWN FINDING (current code), `search_similar_filtered`.  Post-filter strategy (chosen by
    `Auto` when ≥ 10 % of the sample matches): oversample `3k` by similarity, THEN filter — the
    only vector satisfying `f = 1` is not among the 3 nearest, so the answer is empty although a
    qualifying vector is stored.  The pre-filter answer finds it. -/
theorem post_filter_not_topk_witness :
    (searchFiltered (run State.init pfItems) [1, 0] 1 (.cmp .eq "f" 1) .auto 3).answer.map (·.key) = [] ∧
    (searchFiltered (run State.init pfItems) [1, 0] 1 (.cmp .eq "f" 1) .pre 3).answer.map (·.key) = ["e"] := by
  decide

def cpfItems : List Op :=
  [.cstore "c" "a" [4, 0] [("f", 0)], .cstore "c" "b" [4, 1] [("f", 0)], .cstore "c" "c" [4, 2] [("f", 0)],
   .cstore "c" "d" [4, 3] [("f", 0)], .cstore "c" "e" [0, 1] [("f", 1)]]

/-- KNOWN FINDING (current code), `search_filtered_in_collection`: the same through a named
    collection, post-filter strategy requested or chosen by `Auto`. -/
theorem coll_post_filter_not_topk_witness :
    (searchCollFiltered (run State.init cpfItems) "c" [1, 0] 1 (.cmp .eq "f" 1) .post 3).answer.map (·.key) = [] ∧
    (searchCollFiltered (run State.init cpfItems) "c" [1, 0] 1 (.cmp .eq "f" 1) .auto 3).answer.map (·.key) = [] ∧
    (searchCollFiltered (run State.init cpfItems) "c" [1, 0] 1 (.cmp .eq "f" 1) .pre 3).answer.map (·.key) = ["e"] := by
  decide

def cpOps : List Op :=
  [.createColl "c" ⟨some 2, .euclid⟩, .cstore "c" "near" [1, 1] [("f", 1)], .cstore "c" "far" [60, 0] [("f", 1)]]

/-- Regression witness (code before B2).  A collection configured with the Euclidean metric:
    unfiltered search ranks `near` first (Euclid); the pre-filter branch of the filtered search
    ranked `far` first (cosine) and answered nothing for the zero query.  The current code ranks
    `near` first and answers the zero query (Euclidean distance to the origin is meaningful). -/
theorem coll_prefilter_ignores_metric_witness :
    (searchColl (run State.init cpOps) "c" [2, 0] 1).answer.map (·.key) = ["near"] ∧
    (searchCollFilteredOld (runOld State.init cpOps) "c" [2, 0] 1 (.ex "f") .pre 3).answer.map (·.key) = ["far"] ∧
    searchCollFilteredOld (runOld State.init cpOps) "c" [0, 0] 1 (.ex "f") .pre 3 = .zeroQuery ∧
    (searchCollFiltered (run State.init cpOps) "c" [2, 0] 1 (.ex "f") .pre 3).answer.map (·.key) = ["near"] ∧
    (searchCollFiltered (run State.init cpOps) "c" [0, 0] 1 (.ex "f") .pre 3).answer.map (·.key) = ["near"] := by
  decide

/-! ### Non-vacuity: concrete non-trivial states / inputs meet the hypotheses -/

-- an index really is consulted in reachable states (the `viaIndex` hypotheses are satisfiable) ...
example : (match searchDefault (run State.init [.store "a" [1, 2], .store "b" [2, 1], .build]) [1, 2] 1 with
    | .viaIndex snap _ _ _ => snap.length | _ => 0) = 2 := by decide
-- ... also through a named collection, and after a batch delete that deleted nothing
example : (match searchColl (run State.init [.cstore "c" "x" [1, 2] [], .cstore "c" "y" [2, 1] [], .cbuild "c"]) "c" [1, 2] 1 with
    | .viaIndex snap _ _ _ => snap.length | _ => 0) = 2 := by decide
example : (match searchDefault (run State.init [.store "a" [1, 2], .build, .batchDelete ["zz"]]) [1, 2] 1 with
    | .viaIndex snap _ _ _ => snap.length | _ => 0) = 1 := by decide
-- `invalidate_hnsw_cache` is one of the operations: afterwards the search is brute force again
example : (match searchDefault (run State.init [.store "a" [1, 2], .build, .invalidate none]) [1, 2] 1 with
    | .ranked _ rs _ _ => rs.map (·.key) | _ => []) = ["a"] := by decide
-- brute force really answers (the `ranked` hypotheses are satisfiable), with ties and mixed dimensions
example : (searchMetric (run State.init
      [.store "a" [1, 2], .store "b" [2, 4], .store "c" [1, 2, 3], .store "z" [0, 0]]) .cosine [3, 6] 2).answer.map (·.key)
    = ["a", "b"] := by decide
-- the pre-filter hypothesis of `search_filtered_coll_pre_is_topk` is satisfiable under a non-cosine metric
example : (match searchCollFiltered (run State.init cpOps) "c" [2, 0] 2 (.ex "f") .pre 3 with
    | .ranked m rs _ _ => (m, rs.map (·.key)) | _ => (.cosine, [])) = (.euclid, ["near", "far"]) := by decide
-- the index contract hypotheses of `cached_result_shape` are satisfiable with a non-trivial answer
example : (postProcessAnn [("a", [1, 0]), ("b", [0, 1])] (annWithTrueScores [("a", [1, 0]), ("b", [0, 1])] [1, 1] [1, 0, 7]) 5).map (·.key)
    = ["b", "a"] := by decide
-- sparse representation really is chosen and normalises -0.0 only
example : toDense bitsOps (mkRepr bitsOps [2147483648, 0, 0, 1065353216]) = [0, 0, 0, 1065353216] := by decide
example : toDense intOps (mkRepr intOps [0, 0, 5, 0]) = [0, 0, 5, 0] := repr_roundtrip_int _
example : alHas (run State.init [.store "a" [1]]).dflt.items "a" = true := by decide
-- overwrite, delete and a batch in one sequence: the reader sees the last write of each key
example : (getDefault (run State.init [.store "a" [1], .store "b" [2], .store "a" [0, 0, 3], .delete "b",
      .batchStore [("c", [4]), ("c", [5])], .updateMeta "a" [("f", 1)]]) "a",
    getDefault (run State.init [.store "a" [1], .store "b" [2], .store "a" [0, 0, 3], .delete "b",
      .batchStore [("c", [4]), ("c", [5])], .updateMeta "a" [("f", 1)]]) "b",
    getDefault (run State.init [.store "a" [1], .store "b" [2], .store "a" [0, 0, 3], .delete "b",
      .batchStore [("c", [4]), ("c", [5])], .updateMeta "a" [("f", 1)]]) "c")
    = (some [0, 0, 3], none, some [5]) := by decide
-- metadata updates are seen by filters and leave a cached index in use (the vectors did not change)
example : (searchFiltered (run State.init [.storeMeta "a" [1, 0] [("f", 0)], .storeMeta "b" [0, 1] [("f", 0)],
      .updateMeta "b" [("f", 1)]]) [1, 1] 5 (.cmp .eq "f" 1) .pre 3).answer.map (·.key) = ["b"] := by decide
example : (match searchDefault (run State.init [.store "a" [1, 2], .build, .updateMeta "a" [("f", 1)],
      .removeMetaField "a" "f"]) [1, 2] 1 with
    | .viaIndex snap _ _ _ => snap.length | _ => 0) = 1 := by decide
-- a batch with an empty vector stores nothing; a valid one stores everything, last write of a key wins
example : getDefault (step State.init (.batchStore [("a", [1]), ("b", [])])).1 "a" = none := by decide
example : getDefault (step State.init (.batchStore [("a", [1]), ("b", [2]), ("a", [3])])).1 "a" = some [3] := by decide
-- pages 1 and 2 (limit 2) of a top-5 search over three vectors
example : (pageOf 0 (some 2) (searchPaged (run State.init [.store "a" [3, 0], .store "b" [2, 1], .store "c" [0, 1]])
      [1, 0] 5 0 (some 2)).answer).map (·.key) = ["a", "b"] := by decide
example : (pageOf 2 (some 2) (searchPaged (run State.init [.store "a" [3, 0], .store "b" [2, 1], .store "c" [0, 1]])
      [1, 0] 5 2 (some 2)).answer).map (·.key) = ["c"] := by decide
-- the post-filter hypotheses are satisfiable; with a pool that covers the data the answer is exact
example : (searchFiltered (run State.init pfItems) [1, 0] 1 (.cmp .eq "f" 1) .post 5).answer.map (·.key) = ["e"] := by decide
-- explicit_index_dimension_guard: data that passes the build check, a query the index is consulted for
example : sameDims (run State.init dimOps).dflt.items = true ∧
    (match searchWithHnsw (snapOf (run State.init dimOps).dflt.items) [0, 0, 1] 2 with
      | .viaIndex snap _ _ _ => snap.length
      | _ => 0) = 2 := by decide

end Neumann.Vec.Props
