import NeumannModel.Vec.NsModel
import NeumannModel.Vec.Lemmas
/- Helper lemmas for the storage-key layer of the vector engine (C06). -/
namespace Neumann.Vec

/-! ### prefixes of strings -/

theorem hasPrefix_iff (p s : String) : hasPrefix p s = true ↔ ∃ k, s = p ++ k := by
  simp only [hasPrefix, List.isPrefixOf_iff_prefix]
  constructor
  · rintro ⟨t, ht⟩
    refine ⟨String.ofList t, ?_⟩
    rw [String.ext_iff, String.toList_append, String.toList_ofList, ht]
  · rintro ⟨k, rfl⟩
    exact ⟨k.toList, by rw [String.toList_append]⟩

theorem hasPrefix_append (p k : String) : hasPrefix p (p ++ k) = true :=
  (hasPrefix_iff _ _).2 ⟨k, rfl⟩

theorem stripPrefix?_append (p k : String) : stripPrefix? p (p ++ k) = some k := by
  simp only [stripPrefix?, hasPrefix_append, if_true, String.toList_append, List.drop_left,
    String.ofList_toList]

theorem stripPrefix?_eq_some (p s k : String) : stripPrefix? p s = some k ↔ s = p ++ k := by
  constructor
  · intro h
    simp only [stripPrefix?] at h
    split at h
    · rename_i hp
      obtain ⟨k', rfl⟩ := (hasPrefix_iff _ _).1 hp
      simp only [String.toList_append, List.drop_left, String.ofList_toList, Option.some.injEq] at h
      rw [h]
    · cases h
  · rintro rfl
    exact stripPrefix?_append p k

theorem stripOr_append (p k : String) : stripOr p (p ++ k) = k := by
  simp only [stripOr, stripPrefix?_append, Option.getD_some]

theorem stripOr_embKey (key : String) : stripOr embPrefix (embKey key) = key :=
  stripOr_append _ _

theorem stripOr_collKey (c key : String) : stripOr (collPrefix c) (collKey c key) = key :=
  stripOr_append _ _

theorem append_left_cancel_str (p a b : String) (h : p ++ a = p ++ b) : a = b := by
  rw [String.ext_iff, String.toList_append, String.toList_append] at h
  exact String.ext_iff.2 (List.append_cancel_left h)

theorem embKey_inj (a b : String) (h : embKey a = embKey b) : a = b :=
  append_left_cancel_str _ _ _ h

theorem collKey_inj_key (c a b : String) (h : collKey c a = collKey c b) : a = b :=
  append_left_cancel_str _ _ _ h

/-! ### the separator -/

/-- two strings without `:` that are each followed by a `:` and of which one is a prefix of the
    other are equal -/
theorem sep_prefix_eq (a b x y : List Char) (ha : ':' ∉ a) (hb : ':' ∉ b)
    (h : (a ++ ':' :: x) <+: (b ++ ':' :: y)) : a = b := by
  induction a generalizing b with
  | nil =>
    cases b with
    | nil => rfl
    | cons d b' =>
      obtain ⟨t, ht⟩ := h
      simp only [List.nil_append, List.cons_append, List.cons.injEq] at ht
      exact absurd (ht.1 ▸ List.mem_cons_self) hb
  | cons ch a' ih =>
    cases b with
    | nil =>
      obtain ⟨t, ht⟩ := h
      simp only [List.nil_append, List.cons_append, List.cons.injEq] at ht
      exact absurd (ht.1 ▸ List.mem_cons_self) ha
    | cons d b' =>
      obtain ⟨t, ht⟩ := h
      simp only [List.cons_append, List.cons.injEq] at ht
      obtain ⟨rfl, ht⟩ := ht
      have := ih b' (fun hm => ha (List.mem_cons_of_mem _ hm)) (fun hm => hb (List.mem_cons_of_mem _ hm)) ⟨t, ht⟩
      rw [this]

/-! ### the view of a prefix -/

def viewL (p : String) (l : List (String × Item)) : Items :=
  l.filterMap fun e => (stripPrefix? p e.1).map fun k => (k, e.2)

theorem stripPrefix?_none_of_not_hasPrefix (p s : String) (h : hasPrefix p s = false) :
    stripPrefix? p s = none := by
  simp only [stripPrefix?, h, Bool.false_eq_true, if_false]

theorem view_eq_viewL (fs : Flat) (p : String) : fs.view p = viewL p fs.store := by
  simp only [Flat.view, Flat.scan, viewL]
  induction fs.store with
  | nil => rfl
  | cons e es ih =>
    simp only [List.filter_cons]
    cases hp : hasPrefix p e.1
    · simp only [Bool.false_eq_true, if_false, List.filterMap_cons,
        stripPrefix?_none_of_not_hasPrefix p e.1 hp, Option.map_none]
      exact ih
    · simp only [if_true, List.filterMap_cons]
      rw [ih]

theorem viewL_cons_in (p k : String) (it : Item) (es : List (String × Item)) :
    viewL p ((p ++ k, it) :: es) = (k, it) :: viewL p es := by
  simp only [viewL, List.filterMap_cons, stripPrefix?_append, Option.map_some]

theorem viewL_cons_out (p : String) (e : String × Item) (es : List (String × Item))
    (h : hasPrefix p e.1 = false) : viewL p (e :: es) = viewL p es := by
  simp only [viewL, List.filterMap_cons, stripPrefix?_none_of_not_hasPrefix p e.1 h, Option.map_none]

theorem ne_of_not_hasPrefix (p s k : String) (h : hasPrefix p s = false) : s ≠ p ++ k := by
  rintro rfl
  rw [hasPrefix_append] at h
  cases h

theorem beq_append_iff (p a b : String) : ((p ++ a) == (p ++ b)) = (a == b) := by
  by_cases h : a = b
  · subst h; simp
  · have : p ++ a ≠ p ++ b := fun h' => h (append_left_cancel_str p a b h')
    simp [h, this]

theorem alHas_viewL (p k : String) (l : List (String × Item)) :
    alHas (viewL p l) k = alHas l (p ++ k) := by
  induction l with
  | nil => rfl
  | cons e es ih =>
    cases hp : hasPrefix p e.1
    · rw [viewL_cons_out p e es hp, ih]
      have : (e.1 == p ++ k) = false := by simpa using ne_of_not_hasPrefix p e.1 k hp
      simp only [alHas, List.any_cons, this, Bool.false_or]
    · obtain ⟨k', hk'⟩ := (hasPrefix_iff _ _).1 hp
      obtain ⟨e1, e2⟩ := e
      simp only at hk'
      subst hk'
      rw [viewL_cons_in]
      simp only [alHas, List.any_cons, beq_append_iff] at ih ⊢
      rw [ih]

theorem alGet_viewL (p k : String) (l : List (String × Item)) :
    alGet (viewL p l) k = alGet l (p ++ k) := by
  induction l with
  | nil => rfl
  | cons e es ih =>
    cases hp : hasPrefix p e.1
    · rw [viewL_cons_out p e es hp, ih]
      have : (e.1 == p ++ k) = false := by simpa using ne_of_not_hasPrefix p e.1 k hp
      simp only [alGet, List.find?_cons, this]
    · obtain ⟨k', hk'⟩ := (hasPrefix_iff _ _).1 hp
      obtain ⟨e1, e2⟩ := e
      simp only at hk'
      subst hk'
      rw [viewL_cons_in]
      simp only [alGet, List.find?_cons, beq_append_iff] at ih ⊢
      cases k' == k
      · simp only; exact ih
      · rfl

theorem viewL_replace (p k : String) (v : Item) (l : List (String × Item)) :
    viewL p (l.map fun e => if e.1 == p ++ k then (p ++ k, v) else e)
      = (viewL p l).map fun e => if e.1 == k then (k, v) else e := by
  induction l with
  | nil => rfl
  | cons e es ih =>
    cases hp : hasPrefix p e.1
    · have hne : (e.1 == p ++ k) = false := by simpa using ne_of_not_hasPrefix p e.1 k hp
      simp only [List.map_cons, hne, Bool.false_eq_true, if_false]
      rw [viewL_cons_out p e _ hp, viewL_cons_out p e _ hp]
      exact ih
    · obtain ⟨k', hk'⟩ := (hasPrefix_iff _ _).1 hp
      obtain ⟨e1, e2⟩ := e
      simp only at hk'
      subst hk'
      simp only [List.map_cons, beq_append_iff]
      by_cases hk : k' = k
      · subst hk
        simp only [beq_self_eq_true, if_true]
        rw [viewL_cons_in, viewL_cons_in]
        simp only [List.map_cons, beq_self_eq_true, if_true]
        rw [← ih]
      · have : (k' == k) = false := by simpa using hk
        simp only [this, Bool.false_eq_true, if_false]
        rw [viewL_cons_in, viewL_cons_in]
        simp only [List.map_cons, this, Bool.false_eq_true, if_false]
        rw [← ih]

theorem viewL_append (p : String) (a b : List (String × Item)) :
    viewL p (a ++ b) = viewL p a ++ viewL p b := by
  simp only [viewL, List.filterMap_append]

theorem viewL_alPut_in (p k : String) (v : Item) (l : List (String × Item)) :
    viewL p (alPut l (p ++ k) v) = alPut (viewL p l) k v := by
  simp only [alPut, alHas_viewL]
  split
  · exact viewL_replace p k v l
  · rw [viewL_append, viewL_cons_in]
    rfl

theorem viewL_alDel_in (p k : String) (l : List (String × Item)) :
    viewL p (alDel l (p ++ k)) = alDel (viewL p l) k := by
  induction l with
  | nil => rfl
  | cons e es ih =>
    cases hp : hasPrefix p e.1
    · have hne : (e.1 == p ++ k) = false := by simpa using ne_of_not_hasPrefix p e.1 k hp
      simp only [alDel, List.filter_cons, hne, Bool.not_false, if_true]
      rw [viewL_cons_out p e _ hp, viewL_cons_out p e _ hp]
      exact ih
    · obtain ⟨k', hk'⟩ := (hasPrefix_iff _ _).1 hp
      obtain ⟨e1, e2⟩ := e
      simp only at hk'
      subst hk'
      simp only [alDel, List.filter_cons, beq_append_iff] at ih ⊢
      by_cases hk : k' = k
      · subst hk
        simp only [beq_self_eq_true, Bool.not_true, Bool.false_eq_true, if_false]
        rw [viewL_cons_in]
        simp only [List.filter_cons, beq_self_eq_true, Bool.not_true, Bool.false_eq_true, if_false]
        exact ih
      · have : (k' == k) = false := by simpa using hk
        simp only [this, Bool.not_false, if_true]
        rw [viewL_cons_in, viewL_cons_in]
        simp only [List.filter_cons, this, Bool.not_false, if_true]
        rw [ih]

theorem viewL_replace_out (p sk : String) (v : Item) (l : List (String × Item))
    (h : hasPrefix p sk = false) :
    viewL p (l.map fun e => if e.1 == sk then (sk, v) else e) = viewL p l := by
  induction l with
  | nil => rfl
  | cons e es ih =>
    simp only [List.map_cons]
    by_cases he : e.1 = sk
    · have : (e.1 == sk) = true := by simpa using he
      simp only [this, if_true]
      rw [viewL_cons_out p (sk, v) _ h, viewL_cons_out p e _ (by rw [he]; exact h)]
      exact ih
    · have : (e.1 == sk) = false := by simpa using he
      simp only [this, Bool.false_eq_true, if_false]
      simp only [viewL, List.filterMap_cons] at ih ⊢
      rw [ih]

/-- writes outside the prefix do not change the view -/
theorem viewL_alPut_out (p sk : String) (v : Item) (l : List (String × Item))
    (h : hasPrefix p sk = false) : viewL p (alPut l sk v) = viewL p l := by
  simp only [alPut]
  split
  · exact viewL_replace_out p sk v l h
  · rw [viewL_append, viewL_cons_out p (sk, v) [] h]
    simp [viewL]

theorem viewL_alDel_out (p sk : String) (l : List (String × Item))
    (h : hasPrefix p sk = false) : viewL p (alDel l sk) = viewL p l := by
  induction l with
  | nil => rfl
  | cons e es ih =>
    simp only [alDel, List.filter_cons] at ih ⊢
    by_cases he : e.1 = sk
    · have : (e.1 == sk) = true := by simpa using he
      simp only [this, Bool.not_true, Bool.false_eq_true, if_false]
      rw [viewL_cons_out p e _ (by rw [he]; exact h)]
      exact ih
    · have : (e.1 == sk) = false := by simpa using he
      simp only [this, Bool.not_false, if_true]
      simp only [viewL, List.filterMap_cons] at ih ⊢
      rw [ih]


/-! ### build_hnsw_index at the flat layer indexes the view -/

theorem mem_viewL (p : String) (l : List (String × Item)) (k : String) (it : Item)
    (h : (k, it) ∈ viewL p l) : (p ++ k, it) ∈ l := by
  simp only [viewL, List.mem_filterMap, Option.map_eq_some_iff] at h
  obtain ⟨e, he, k', hk', heq⟩ := h
  simp only [Prod.mk.injEq] at heq
  obtain ⟨rfl, rfl⟩ := heq
  have := (stripPrefix?_eq_some p e.1 k').1 hk'
  rw [← this]
  exact he

theorem filterMap_eq_map_of {α β : Type} (l : List α) (g : α → Option β) (f : α → β)
    (h : ∀ x ∈ l, g x = some (f x)) : l.filterMap g = l.map f := by
  induction l with
  | nil => rfl
  | cons x xs ih =>
    simp only [List.filterMap_cons, h x List.mem_cons_self, List.map_cons]
    rw [ih (fun y hy => h y (List.mem_cons_of_mem _ hy))]

theorem buildSnap_eq (fs : Flat) (hn : (fs.store.map (·.1)).Nodup) :
    fs.buildSnap = snapOf (fs.view embPrefix) := by
  simp only [Flat.buildSnap, Flat.listKeys, snapOf, List.filterMap_map]
  apply filterMap_eq_map_of
  intro e he
  rw [view_eq_viewL] at he
  have hm := mem_viewL embPrefix fs.store e.1 e.2 he
  have hg : alGet fs.store (embKey e.1) = some e.2 := alGet_of_mem_nodup _ _ _ hn hm
  simp only [Function.comp, Flat.getDefault, hg, Option.map_some]

theorem snapSameDims_snapOf (items : Items) : snapSameDims (snapOf items) = sameDims items := by
  cases items with
  | nil => rfl
  | cons e rest =>
    simp only [snapOf, List.map_cons, snapSameDims, sameDims, List.all_map]
    rfl

theorem reportSnap_embKey (s : Snap) :
    reportSnap embPrefix (s.map fun e => (embKey e.1, e.2)) = s := by
  simp only [reportSnap, List.map_map]
  conv => rhs; rw [← List.map_id s]
  apply List.map_congr_left
  intro e _
  simp only [Function.comp, stripOr_embKey, id]

theorem indexUsable_reportSnap (p : String) (s : Snap) (q : List Int) :
    indexUsable (reportSnap p s) q = indexUsable s q := by
  cases s <;> rfl

theorem snapCands_none_cur (s : Snap) (cur cur' : Items) (q : List Int) :
    snapCands s cur q none = snapCands s cur' q none := rfl

theorem not_hasPrefix_emb_collKey (c key : String) : hasPrefix embPrefix (collKey c key) = false := by
  simp only [hasPrefix, collKey, collPrefix, embPrefix, String.toList_append]
  have e1 : "coll:".toList = ['c', 'o', 'l', 'l', ':'] := by decide
  have e2 : "emb:".toList = ['e', 'm', 'b', ':'] := by decide
  rw [e1, e2]
  simp [List.isPrefixOf]

/-! ### the default collection of the flat layer is the default collection of `Vec.Model` -/

/-- what ties a flat state to a `Vec.Model` state as far as the default collection goes -/
def DefaultRel (fs : Flat) (st : State) : Prop :=
  fs.view embPrefix = st.dflt.items ∧
  (alGet fs.slots defaultSlot).map (reportSnap embPrefix) = st.dflt.cache ∧
  (fs.store.map (·.1)).Nodup

def stepProj (st : State) (op : FOp) : State :=
  match op.toOp? with
  | some o => (step st o).1
  | none => st

theorem defaultRel_step (fs : Flat) (st : State) (op : FOp) (h : DefaultRel fs st)
    (ha : op.avoidsDefaultSlot = true) : DefaultRel (fstep fs op) (stepProj st op) := by
  obtain ⟨hv, hc, hn⟩ := h
  rw [view_eq_viewL] at hv
  cases op with
  | store key v =>
    simp only [fstep, fstepWith, stepProj, FOp.toOp?, step]
    split
    · exact ⟨by rw [view_eq_viewL]; exact hv, hc, hn⟩
    · refine ⟨?_, ?_, alPut_nodup _ _ _ hn⟩
      · rw [view_eq_viewL]
        simp only [embKey]
        rw [viewL_alPut_in, hv]
      · simp only [alGet_alDel_self, Option.map_none]
  | delete key =>
    simp only [fstep, fstepWith, stepProj, FOp.toOp?, step]
    have hh : alHas fs.store (embKey key) = alHas st.dflt.items key := by
      rw [← hv, alHas_viewL]; rfl
    rw [hh]
    split
    · refine ⟨?_, ?_, alDel_nodup _ _ hn⟩
      · rw [view_eq_viewL]
        simp only [embKey]
        rw [viewL_alDel_in, hv]
      · simp only [alGet_alDel_self, Option.map_none]
    · exact ⟨by rw [view_eq_viewL]; exact hv, hc, hn⟩
  | cstore c key v =>
    simp only [FOp.avoidsDefaultSlot, bne_iff_ne, ne_eq] at ha
    simp only [fstep, fstepWith, stepProj, FOp.toOp?]
    split
    · exact ⟨by rw [view_eq_viewL]; exact hv, hc, hn⟩
    · refine ⟨?_, ?_, alPut_nodup _ _ _ hn⟩
      · rw [view_eq_viewL]
        simp only
        rw [viewL_alPut_out _ _ _ _ (not_hasPrefix_emb_collKey c key), hv]
      · simp only
        rw [alGet_alDel_ne _ _ _ (Ne.symm ha)]
        exact hc
  | cdelete c key =>
    simp only [FOp.avoidsDefaultSlot, bne_iff_ne, ne_eq] at ha
    simp only [fstep, fstepWith, stepProj, FOp.toOp?]
    split
    · refine ⟨?_, ?_, alDel_nodup _ _ hn⟩
      · rw [view_eq_viewL]
        simp only
        rw [viewL_alDel_out _ _ _ (not_hasPrefix_emb_collKey c key), hv]
      · simp only
        rw [alGet_alDel_ne _ _ _ (Ne.symm ha)]
        exact hc
    · exact ⟨by rw [view_eq_viewL]; exact hv, hc, hn⟩
  | build =>
    have hb : fs.buildSnap = snapOf st.dflt.items := by
      rw [buildSnap_eq fs hn, view_eq_viewL, hv]
    simp only [fstep, fstepWith, stepProj, FOp.toOp?, step, Flat.build, hb, snapSameDims_snapOf]
    split
    · refine ⟨by rw [view_eq_viewL]; exact hv, ?_, hn⟩
      simp only [alGet_alPut_self, Option.map_some, reportSnap_embKey]
    · exact ⟨by rw [view_eq_viewL]; exact hv, hc, hn⟩
  | cbuild c =>
    simp only [FOp.avoidsDefaultSlot, bne_iff_ne, ne_eq] at ha
    simp only [fstep, fstepWith, stepProj, FOp.toOp?]
    split
    · refine ⟨by rw [view_eq_viewL]; exact hv, ?_, hn⟩
      simp only
      rw [alGet_alPut_ne _ _ _ _ (Ne.symm ha)]
      exact hc
    · exact ⟨by rw [view_eq_viewL]; exact hv, hc, hn⟩
  | invalidate slot =>
    simp only [fstep, fstepWith, stepProj, FOp.toOp?]
    by_cases hs : slot = defaultSlot
    · subst hs
      simp only [if_true, step]
      exact ⟨by rw [view_eq_viewL]; exact hv, by simp only [alGet_alDel_self, Option.map_none], hn⟩
    · simp only [hs, if_false]
      refine ⟨by rw [view_eq_viewL]; exact hv, ?_, hn⟩
      simp only
      rw [alGet_alDel_ne _ _ _ (Ne.symm hs)]
      exact hc

theorem run_filterMap_proj (ops : List FOp) (st : State) :
    run st (ops.filterMap FOp.toOp?) = ops.foldl stepProj st := by
  induction ops generalizing st with
  | nil => rfl
  | cons op ops ih =>
    simp only [List.filterMap_cons, List.foldl_cons, stepProj]
    cases h : op.toOp? with
    | none => simp only; exact ih st
    | some o => simp only [run]; exact ih _

theorem frun_eq_foldl (ops : List FOp) (fs : Flat) : frun fs ops = ops.foldl fstep fs := by
  induction ops generalizing fs with
  | nil => rfl
  | cons op ops ih => simp only [frun, List.foldl_cons]; exact ih _

theorem defaultRel_run (ops : List FOp) (fs : Flat) (st : State) (h : DefaultRel fs st)
    (ha : ∀ op ∈ ops, op.avoidsDefaultSlot = true) :
    DefaultRel (frun fs ops) (run st (ops.filterMap FOp.toOp?)) := by
  rw [run_filterMap_proj, frun_eq_foldl]
  induction ops generalizing fs st with
  | nil => exact h
  | cons op ops ih =>
    simp only [List.foldl_cons]
    exact ih _ _ (defaultRel_step fs st op h (ha op List.mem_cons_self))
      (fun o ho => ha o (List.mem_cons_of_mem _ ho))

theorem defaultRel_init : DefaultRel Flat.init State.init :=
  ⟨rfl, rfl, List.nodup_nil⟩

theorem searchDefault_of_rel (fs : Flat) (st : State) (h : DefaultRel fs st) (q : List Int) (k : Nat) :
    fs.searchDefault q k = searchDefault st q k := by
  obtain ⟨hv, hc, _⟩ := h
  simp only [Flat.searchDefault, Flat.searchSlot, searchDefault, searchCore, hv, ← hc]
  split
  · rfl
  · split
    · rfl
    · split
      · rfl
      · cases alGet fs.slots defaultSlot with
        | none => rfl
        | some s =>
          simp only [Option.map_some, indexUsable_reportSnap]
          split
          · rfl
          · rfl


theorem getDefault_of_rel (fs : Flat) (st : State) (h : DefaultRel fs st) (key : String) :
    fs.getDefault key = getDefault st key := by
  obtain ⟨hv, _, _⟩ := h
  rw [view_eq_viewL] at hv
  simp only [Flat.getDefault, getDefault, ← hv, alGet_viewL]
  rfl

end Neumann.Vec
