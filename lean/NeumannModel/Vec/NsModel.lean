import NeumannModel.Vec.Model
/-
  C06 — the storage-key layer of `vector_engine` (import-free apart from `Vec.Model`).

  `Vec.Model` treats the default collection and every named collection as separate maps and the
  cached index of a collection as a snapshot of that map.  In the code all of them live in ONE
  flat `TensorStore`, told apart by key prefixes, and the cached indexes live in ONE map keyed by
  a slot name:

    default collection, key `k`        storage key `emb:k`            cache slot `_default`
    collection `c`,      key `k`        storage key `coll:c:emb:k`     cache slot `c`

  (lib.rs:1340-1359 `embedding_key`, `embedding_prefix`, `collection_embedding_key`,
  `collection_embedding_prefix`; 1311-1337 `cache_hnsw_index`, `build_and_cache_index`).  Keys and
  collection names are arbitrary strings, nothing is escaped.  This file models that layer as the
  code has it (`Flat`, `fstep`, `Flat.searchDefault`, `Flat.searchColl`) so that the places where
  the two-level picture of `Vec.Model` is NOT what the code does can be stated:

  * a cached key is reported as `key.strip_prefix(prefix).unwrap_or(key)` (lib.rs:1638, 1998).
    Before 4fa63773 `build_and_cache_index` cached BARE keys, so a key that itself starts with
    `emb:` lost its first segment (`Flat.buildOld`); since 4fa63773 it caches storage keys
    (`Flat.build`).
  * the slot of the default collection, `_default`, is a legal collection name
    (known finding `vector_engine.search_in_collection/default_cache_slot_shared`).
  * `coll:a:emb:` is a prefix of `coll:a:emb:b:emb:k`: collections `a` and `a:emb:b` overlap
    (known finding `vector_engine.search_in_collection/collection_prefix_overlap`).

  Collection configs (metric, dimension) are not part of this layer: every search here is the
  cosine search of an unconfigured collection.
-/
namespace Neumann.Vec

/-! ## Storage keys -/

/-- `embedding_prefix()` -/
def embPrefix : String := "emb:"

/-- `embedding_key(key)` = `format!("emb:{key}")` -/
def embKey (key : String) : String := embPrefix ++ key

/-- `collection_embedding_prefix(c)` = `format!("coll:{c}:emb:")` -/
def collPrefix (c : String) : String := "coll:" ++ c ++ ":emb:"

/-- `collection_embedding_key(c, key)` = `format!("coll:{c}:emb:{key}")` -/
def collKey (c key : String) : String := collPrefix c ++ key

/-- the cache slot `build_and_cache_index` writes and `search_similar` reads -/
def defaultSlot : String := "_default"

/-- `s.starts_with(p)` -/
def hasPrefix (p s : String) : Bool := p.toList.isPrefixOf s.toList

/-- `s.strip_prefix(p)` -/
def stripPrefix? (p s : String) : Option String :=
  if hasPrefix p s then some (String.ofList (s.toList.drop p.toList.length)) else none

/-- `key.strip_prefix(p).unwrap_or(key)` (lib.rs:1638, 1998) -/
def stripOr (p s : String) : String := (stripPrefix? p s).getD s

/-! ## The flat store and the cache slots -/

/-- `store`: storage key ↦ tensor; `slots`: `hnsw_cache`, slot name ↦ per node id the cached key
    string (the `mapping`) and the indexed vector -/
structure Flat where
  store : List (String × Item)
  slots : List (String × Snap)

def Flat.init : Flat := ⟨[], []⟩

/-- `store.scan(prefix)` -/
def Flat.scan (fs : Flat) (p : String) : List (String × Item) :=
  fs.store.filter fun e => hasPrefix p e.1

/-- the `(key, item)` pairs a scan of `p` hands out, keys with `p` stripped
    (`storage_key.strip_prefix(&prefix)?`) -/
def Flat.view (fs : Flat) (p : String) : Items :=
  (fs.scan p).filterMap fun e => (stripPrefix? p e.1).map fun k => (k, e.2)

/-- `list_keys()` (lib.rs:2323-2340) -/
def Flat.listKeys (fs : Flat) : List String := (fs.view embPrefix).map (·.1)

/-- `list_collection_keys(c)` (lib.rs:1547-1554) -/
def Flat.listCollKeys (fs : Flat) (c : String) : List String := (fs.view (collPrefix c)).map (·.1)

/-- `get_embedding(key)` -/
def Flat.getDefault (fs : Flat) (key : String) : Option (List Int) :=
  (alGet fs.store (embKey key)).map vecOf

/-- `get_from_collection(c, key)` -/
def Flat.getColl (fs : Flat) (c key : String) : Option (List Int) :=
  (alGet fs.store (collKey c key)).map vecOf

/-- `build_hnsw_index` (lib.rs:2437-2484): `list_keys()`, then `get_embedding(key)` for each
    key; node id `i` ↦ `(keys[i], vector)` -/
def Flat.buildSnap (fs : Flat) : Snap :=
  fs.listKeys.filterMap fun k => (fs.getDefault k).map fun v => (k, v)

def snapSameDims : Snap → Bool
  | [] => true
  | e :: rest => rest.all fun x => x.2.length == e.2.length

/-- operations of the flat layer -/
inductive FOp where
  /-- `store_embedding` -/
  | store (key : String) (v : List Int)
  /-- `delete_embedding` -/
  | delete (key : String)
  /-- `store_in_collection` -/
  | cstore (c key : String) (v : List Int)
  /-- `delete_from_collection` -/
  | cdelete (c key : String)
  /-- `build_and_cache_index` -/
  | build
  /-- what a user of `cache_hnsw_index(c, ..)` does (the engine's own test
      `search_in_collection_uses_cached_hnsw`, and the harness): index the vectors under
      `store.scan(coll:c:emb:)` and cache them under their STORAGE keys in slot `c` -/
  | cbuild (c : String)
  /-- `invalidate_hnsw_cache(slot)` -/
  | invalidate (slot : String)

/-- `build_and_cache_index` since 4fa63773: the mapping holds storage keys -/
def Flat.build (fs : Flat) : Flat :=
  if snapSameDims fs.buildSnap then
    { fs with slots := alPut fs.slots defaultSlot (fs.buildSnap.map fun e => (embKey e.1, e.2)) }
  else fs

/-- `build_and_cache_index` BEFORE 4fa63773: the mapping holds the bare keys of `list_keys()` -/
def Flat.buildOld (fs : Flat) : Flat :=
  if snapSameDims fs.buildSnap then { fs with slots := alPut fs.slots defaultSlot fs.buildSnap }
  else fs

def fstepWith (build : Flat → Flat) (fs : Flat) : FOp → Flat
  | .store key v =>
    -- lib.rs:1840-1877: put `emb:key`, `invalidate_hnsw_cache("_default")`
    if v.isEmpty then fs
    else ⟨alPut fs.store (embKey key) (mkItem v []), alDel fs.slots defaultSlot⟩
  | .delete key =>
    if alHas fs.store (embKey key) then ⟨alDel fs.store (embKey key), alDel fs.slots defaultSlot⟩
    else fs
  | .cstore c key v =>
    -- lib.rs:1447-1499: put `coll:c:emb:key`, `invalidate_hnsw_cache(c)`
    if v.isEmpty then fs
    else ⟨alPut fs.store (collKey c key) (mkItem v []), alDel fs.slots c⟩
  | .cdelete c key =>
    if alHas fs.store (collKey c key) then ⟨alDel fs.store (collKey c key), alDel fs.slots c⟩
    else fs
  | .build => build fs
  | .cbuild c =>
    let snap : Snap := (fs.scan (collPrefix c)).map fun e => (e.1, vecOf e.2)
    if snapSameDims snap then { fs with slots := alPut fs.slots c snap } else fs
  | .invalidate slot => { fs with slots := alDel fs.slots slot }

/-- the code as it is -/
def fstep : Flat → FOp → Flat := fstepWith Flat.build

/-- the code before 4fa63773 -/
def fstepOld : Flat → FOp → Flat := fstepWith Flat.buildOld

def frun : Flat → List FOp → Flat
  | fs, [] => fs
  | fs, op :: ops => frun (fstep fs op) ops

def frunOld : Flat → List FOp → Flat
  | fs, [] => fs
  | fs, op :: ops => frunOld (fstepOld fs op) ops

/-! ## Searches -/

/-- the snapshot as the search reports it: every cached key goes through
    `strip_prefix(prefix).unwrap_or(key)` -/
def reportSnap (p : String) (s : Snap) : Snap := s.map fun e => (stripOr p e.1, e.2)

/-- the part `search_similar` (lib.rs:1985-2040) and `search_in_collection` (lib.rs:1626-1694)
    share at this layer: slot `slot` when it is usable for the query, else a scan of `p` -/
def Flat.searchSlot (fs : Flat) (slot p : String) (q : List Int) (k : Nat) : SearchOut :=
  if q.isEmpty then .err .emptyVector
  else if k = 0 then .err .invalidTopK
  else if normSq q = 0 then .zeroQuery
  else
    match alGet fs.slots slot with
    | some s =>
      if indexUsable s q then
        .viaIndex (reportSnap p s) (rank .cosine (snapCands (reportSnap p s) [] q none)) k k
      else .ranked .cosine (rank .cosine (candidates (fs.view p) .cosine q none)) k k
    | none => .ranked .cosine (rank .cosine (candidates (fs.view p) .cosine q none)) k k

/-- `search_similar`: slot `_default`, prefix `emb:` -/
def Flat.searchDefault (fs : Flat) (q : List Int) (k : Nat) : SearchOut :=
  fs.searchSlot defaultSlot embPrefix q k

/-- `search_in_collection(c, ..)` of an unconfigured collection: slot `c` — whatever `c` is —
    and prefix `coll:c:emb:` -/
def Flat.searchColl (fs : Flat) (c : String) (q : List Int) (k : Nat) : SearchOut :=
  fs.searchSlot c (collPrefix c) q k

/-- the keys of a search answer, best first (every candidate, before the cut to `k`) -/
def SearchOut.keys : SearchOut → List String
  | .ranked _ rs _ _ => rs.map (·.key)
  | .viaIndex _ rs _ _ => rs.map (·.key)
  | _ => []

/-! ## The default collection, seen from `Vec.Model` -/

/-- the operation of `Vec.Model` an operation of this layer is for the DEFAULT collection
    (`none`: it is about a named collection or another cache slot) -/
def FOp.toOp? : FOp → Option Op
  | .store k v => some (.store k v)
  | .delete k => some (.delete k)
  | .build => some .build
  | .invalidate slot => if slot = defaultSlot then some (.invalidate none) else none
  | _ => none

/-- the operation does not name a collection `_default` (writing one drops the default
    collection's cached index, which `Vec.Model` does not know about; searching one is the
    known finding `default_cache_slot_shared`) -/
def FOp.avoidsDefaultSlot : FOp → Bool
  | .cstore c _ _ => c != defaultSlot
  | .cdelete c _ => c != defaultSlot
  | .cbuild c => c != defaultSlot
  | _ => true

end Neumann.Vec
