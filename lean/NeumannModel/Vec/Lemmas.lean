import NeumannModel.Vec.Model
import Mathlib.Tactic.Linarith
/- Helper lemmas for the vector-search properties (C06). -/
namespace Neumann.Vec

/-! ### stable insertion sort -/

theorem insBy_perm {α : Type} (ge : α → α → Bool) (x : α) (l : List α) :
    (insBy ge x l).Perm (x :: l) := by
  induction l with
  | nil => exact List.Perm.refl _
  | cons y ys ih =>
    simp only [insBy]
    split
    · exact List.Perm.refl _
    · exact (List.Perm.cons y ih).trans (List.Perm.swap x y ys)

theorem sortBy_perm {α : Type} (ge : α → α → Bool) (l : List α) : (sortBy ge l).Perm l := by
  induction l with
  | nil => exact List.Perm.refl _
  | cons x xs ih => exact (insBy_perm ge x (sortBy ge xs)).trans (List.Perm.cons x ih)

theorem insBy_sorted {α : Type} (ge : α → α → Bool)
    (total : ∀ a b, ge a b = true ∨ ge b a = true)
    (trans : ∀ a b c, ge a b = true → ge b c = true → ge a c = true)
    (x : α) (l : List α) (h : l.Pairwise (fun a b => ge a b = true)) :
    (insBy ge x l).Pairwise (fun a b => ge a b = true) := by
  induction l with
  | nil => simp [insBy]
  | cons y ys ih =>
    have hy := List.pairwise_cons.mp h
    simp only [insBy]
    split
    · rename_i hxy
      refine List.pairwise_cons.mpr ⟨?_, h⟩
      intro z hz
      rcases List.mem_cons.mp hz with rfl | hz
      · exact hxy
      · exact trans _ _ _ hxy (hy.1 z hz)
    · rename_i hxy
      have hyx : ge y x = true := by
        rcases total x y with h1 | h1
        · exact absurd h1 hxy
        · exact h1
      refine List.pairwise_cons.mpr ⟨?_, ih hy.2⟩
      intro z hz
      have hz' : z ∈ x :: ys := (insBy_perm ge x ys).subset hz
      rcases List.mem_cons.mp hz' with rfl | hz'
      · exact hyx
      · exact hy.1 z hz'

theorem sortBy_sorted {α : Type} (ge : α → α → Bool)
    (total : ∀ a b, ge a b = true ∨ ge b a = true)
    (trans : ∀ a b c, ge a b = true → ge b c = true → ge a c = true)
    (l : List α) : (sortBy ge l).Pairwise (fun a b => ge a b = true) := by
  induction l with
  | nil => simp [sortBy]
  | cons x xs ih => exact insBy_sorted ge total trans x _ ih

/-- the generic top-k statement: for ANY total preorder `ge`, `take k ∘ sort` returns
    `min k n` elements, best first, and nothing left behind beats anything returned -/
theorem topk_generic {α : Type} (ge : α → α → Bool)
    (total : ∀ a b, ge a b = true ∨ ge b a = true)
    (trans : ∀ a b c, ge a b = true → ge b c = true → ge a c = true)
    (l : List α) (k : Nat) :
    ((sortBy ge l).take k).length = min k l.length ∧
    ((sortBy ge l).take k).Pairwise (fun a b => ge a b = true) ∧
    ((sortBy ge l).take k ++ (sortBy ge l).drop k).Perm l ∧
    (∀ x ∈ (sortBy ge l).take k, ∀ y ∈ (sortBy ge l).drop k, ge x y = true) := by
  have hs := sortBy_sorted ge total trans l
  have hp := sortBy_perm ge l
  refine ⟨?_, ?_, ?_, ?_⟩
  · rw [List.length_take, hp.length_eq]
  · exact hs.sublist (List.take_sublist k _)
  · rw [List.take_append_drop]; exact hp
  · have h2 : ((sortBy ge l).take k ++ (sortBy ge l).drop k).Pairwise (fun a b => ge a b = true) := by
      rw [List.take_append_drop]; exact hs
    exact (List.pairwise_append.mp h2).2.2

/-! ### the score preorder -/

theorem keyDen_pos (m : Metric) (s : Score) : 0 < keyDen m s := by
  cases m <;> simp only [keyDen]
  · split <;> omega
  · omega
  · omega

theorem better_total (m : Metric) (a b : Score) : better m a b = true ∨ better m b a = true := by
  simp only [better, decide_eq_true_eq]
  exact Int.le_total _ _

theorem better_trans (m : Metric) (a b c : Score) (h1 : better m a b = true) (h2 : better m b c = true) :
    better m a c = true := by
  simp only [better, decide_eq_true_eq] at *
  have ha := keyDen_pos m a
  have hb := keyDen_pos m b
  have hc := keyDen_pos m c
  have e1 := mul_le_mul_of_nonneg_right h1 (le_of_lt hc)
  have e2 := mul_le_mul_of_nonneg_right h2 (le_of_lt ha)
  have h3 : (keyNum m c * keyDen m a) * keyDen m b ≤ (keyNum m a * keyDen m c) * keyDen m b := by
    nlinarith [e1, e2]
  exact le_of_mul_le_mul_right h3 hb

theorem candBetter_total (m : Metric) (a b : Cand) : candBetter m a b = true ∨ candBetter m b a = true :=
  better_total m _ _

theorem candBetter_trans (m : Metric) (a b c : Cand) (h1 : candBetter m a b = true)
    (h2 : candBetter m b c = true) : candBetter m a c = true :=
  better_trans m _ _ _ h1 h2

/-! ### storage representation -/

def foldSet {α : Type} (d : List α) (es : List (Nat × α)) : List α :=
  es.foldl (fun d e => d.set e.1 e.2) d

/-- what `to_dense ∘ from_dense` computes, element by element -/
def normalise {α : Type} (ops : ElemOps α) (v : List α) : List α :=
  v.map fun x => if ops.isZero x then ops.zero else x

theorem foldSet_sparseEntries {α : Type} (ops : ElemOps α) (xs : List α) :
    ∀ (pre d : List α), d.length = xs.length →
      foldSet (pre ++ d) (sparseEntries ops pre.length xs)
        = pre ++ List.zipWith (fun dj x => if ops.isZero x then dj else x) d xs := by
  induction xs with
  | nil =>
    intro pre d hd
    have : d = [] := List.eq_nil_of_length_eq_zero (by simpa using hd)
    subst this
    simp [sparseEntries, foldSet]
  | cons x xs ih =>
    intro pre d hd
    match d, hd with
    | dj :: d', hd =>
      have hd' : d'.length = xs.length := by simpa using hd
      have hlen : (pre ++ [dj]).length = pre.length + 1 := by simp
      simp only [sparseEntries]
      split
      · rename_i hz
        have := ih (pre ++ [dj]) d' hd'
        rw [hlen] at this
        simp only [List.append_assoc, List.singleton_append] at this
        rw [this]
        simp [List.zipWith, hz]
      · rename_i hz
        have := ih (pre ++ [x]) d' hd'
        have hlen2 : (pre ++ [x]).length = pre.length + 1 := by simp
        rw [hlen2] at this
        simp only [List.append_assoc, List.singleton_append] at this
        simp only [foldSet, List.foldl_cons] at this ⊢
        have hset : (pre ++ dj :: d').set pre.length x = pre ++ x :: d' := by
          rw [List.set_append_right _ _ (Nat.le_refl _)]
          simp
        rw [hset, this]
        simp [List.zipWith, hz]

theorem toDense_fromDense {α : Type} (ops : ElemOps α) (v : List α) :
    toDense ops (fromDense ops v) = normalise ops v := by
  have h := foldSet_sparseEntries ops v [] (List.replicate v.length ops.zero) (by simp)
  simp only [List.nil_append, List.length_nil] at h
  simp only [toDense, fromDense]
  change foldSet _ _ = _
  rw [h, normalise]
  clear h
  induction v with
  | nil => rfl
  | cons x xs ih => simp [List.replicate_succ, List.zipWith, ih]

theorem normalise_int (v : List Int) : normalise intOps v = v := by
  induction v with
  | nil => rfl
  | cons x xs ih =>
    simp only [normalise, List.map_cons] at ih ⊢
    rw [ih]
    by_cases hx : x = 0
    · subst hx; simp [intOps]
    · simp [intOps, hx]

theorem toDense_mkRepr {α : Type} (ops : ElemOps α) (v : List α) :
    toDense ops (mkRepr ops v) = if shouldUseSparse ops v then normalise ops v else v := by
  simp only [mkRepr]
  split
  · exact toDense_fromDense ops v
  · rfl

theorem vecOf_mkItem (v : List Int) (md : List (String × Int)) : vecOf (mkItem v md) = v := by
  simp only [vecOf, mkItem, toDense_mkRepr, normalise_int, ite_self]

/-! ### association lists -/

theorem alGet_of_mem_nodup {β : Type} (m : List (String × β)) (k : String) (v : β)
    (hn : (m.map (·.1)).Nodup) (h : (k, v) ∈ m) : alGet m k = some v := by
  induction m with
  | nil => cases h
  | cons e es ih =>
    simp only [List.map_cons, List.nodup_cons] at hn
    simp only [alGet, List.find?_cons]
    rcases List.mem_cons.mp h with rfl | h'
    · simp
    · have hne : e.1 ≠ k := by
        intro heq
        apply hn.1
        rw [heq]
        exact List.mem_map.mpr ⟨(k, v), h', rfl⟩
      have : (e.1 == k) = false := by simpa using hne
      rw [this]
      exact ih hn.2 h'

theorem mem_of_alGet {β : Type} (m : List (String × β)) (k : String) (v : β)
    (h : alGet m k = some v) : (k, v) ∈ m := by
  simp only [alGet, Option.map_eq_some_iff] at h
  obtain ⟨e, he, rfl⟩ := h
  have hm := List.mem_of_find?_eq_some he
  have hk := List.find?_some he
  have : e.1 = k := by simpa using hk
  subst this
  exact hm

theorem alHas_iff {β : Type} (m : List (String × β)) (k : String) :
    alHas m k = true ↔ k ∈ m.map (·.1) := by
  simp only [alHas, List.any_eq_true, List.mem_map]
  constructor
  · rintro ⟨e, he, hk⟩
    exact ⟨e, he, by simpa using hk⟩
  · rintro ⟨e, he, hk⟩
    exact ⟨e, he, by simpa using hk⟩

theorem alDel_keys {β : Type} (m : List (String × β)) (k : String) :
    (alDel m k).map (·.1) = (m.map (·.1)).filter (fun x => !(x == k)) := by
  induction m with
  | nil => rfl
  | cons e es ih =>
    simp only [alDel, List.filter_cons, List.map_cons] at ih ⊢
    by_cases h : (e.1 == k) = true
    · simp [h, ih]
    · simp [h, ih]

theorem alDel_nodup {β : Type} (m : List (String × β)) (k : String)
    (hn : (m.map (·.1)).Nodup) : ((alDel m k).map (·.1)).Nodup := by
  rw [alDel_keys]; exact hn.filter _

theorem alGet_alDel_self {β : Type} (m : List (String × β)) (k : String) : alGet (alDel m k) k = none := by
  simp only [alGet, alDel, Option.map_eq_none_iff, List.find?_eq_none]
  intro e he
  have := (List.mem_filter.mp he).2
  simpa using this

theorem foldl_alDel_nodup {β : Type} (ks : List String) (m : List (String × β))
    (hn : (m.map (·.1)).Nodup) : ((ks.foldl alDel m).map (·.1)).Nodup := by
  induction ks generalizing m with
  | nil => exact hn
  | cons k ks ih => exact ih _ (alDel_nodup m k hn)

theorem alPut_keys_of_has {β : Type} (m : List (String × β)) (k : String) (v : β) :
    (m.map (fun e => if e.1 == k then (k, v) else e)).map (·.1) = m.map (·.1) := by
  induction m with
  | nil => rfl
  | cons e es ih =>
    simp only [List.map_cons, ih]
    by_cases h : (e.1 == k) = true
    · have : e.1 = k := by simpa using h
      simp [h, this]
    · simp [h]

theorem alPut_nodup {β : Type} (m : List (String × β)) (k : String) (v : β)
    (hn : (m.map (·.1)).Nodup) : ((alPut m k v).map (·.1)).Nodup := by
  simp only [alPut]
  split
  · rw [alPut_keys_of_has]; exact hn
  · rename_i hh
    have hk : k ∉ m.map (·.1) := by
      intro hm; exact hh ((alHas_iff m k).mpr hm)
    simp only [List.map_append, List.map_cons, List.map_nil]
    exact List.nodup_append.mpr ⟨hn, by simp, by
      intro a ha b hb
      have : b = k := by simpa using hb
      subst this
      intro hab; subst hab; exact hk ha⟩

theorem alGet_alPut_self {β : Type} (m : List (String × β)) (k : String) (v : β) :
    alGet (alPut m k v) k = some v := by
  simp only [alPut]
  split
  · rename_i hh
    induction m with
    | nil => simp [alHas] at hh
    | cons e es ih =>
      simp only [alGet, List.map_cons, List.find?_cons]
      by_cases h : (e.1 == k) = true
      · simp [h]
      · have hf : (e.1 == k) = false := by simpa using h
        simp only [hf, ite_false, Bool.false_eq_true]
        have hh' : alHas es k = true := by
          simp only [alHas, List.any_cons, hf, Bool.false_or] at hh
          exact hh
        exact ih hh'
  · rename_i hh
    have hnone : m.find? (fun e => e.1 == k) = none := by
      rw [List.find?_eq_none]
      intro e he hk
      apply hh
      simp only [alHas, List.any_eq_true]
      exact ⟨e, he, hk⟩
    simp [alGet, List.find?_append, hnone]

theorem mem_alPut {β : Type} (m : List (String × β)) (k : String) (v : β) (e : String × β)
    (h : e ∈ alPut m k v) : e ∈ m ∨ e = (k, v) := by
  simp only [alPut] at h
  split at h
  · obtain ⟨e0, he0, rfl⟩ := List.mem_map.mp h
    by_cases hk : (e0.1 == k) = true
    · right; simp [hk]
    · left; simp [hk]; exact he0
  · rcases List.mem_append.mp h with h | h
    · exact Or.inl h
    · right; simpa using h

/-! ### invariants of reachable states -/

/-- a cached index, if any, was built from exactly the current data, and that data passed the
    build-time check "every vector has the first one's dimension" -/
def Fresh (x : Coll) : Prop := ∀ s, x.cache = some s → s = snapOf x.items ∧ sameDims x.items = true

def Inv (st : State) : Prop := Fresh st.dflt ∧ ∀ e ∈ st.named, Fresh e.2

def KeysOK (st : State) : Prop :=
  (st.dflt.items.map (·.1)).Nodup ∧ ∀ e ∈ st.named, (e.2.items.map (·.1)).Nodup

theorem fresh_none (items : Items) : Fresh ⟨items, none⟩ := by
  intro s h; cases h

theorem fresh_build (items : Items) (hd : sameDims items = true) : Fresh ⟨items, some (snapOf items)⟩ := by
  intro s h
  simp only [Option.some.injEq] at h
  exact ⟨h.symm, hd⟩

theorem fresh_collOf (st : State) (c : String) (h : Inv st) : Fresh (collOf st c) := by
  simp only [collOf]
  cases hg : alGet st.named c with
  | none => simpa [Coll.empty] using fresh_none []
  | some x => simpa using h.2 (c, x) (mem_of_alGet _ _ _ hg)

theorem inv_setColl (st : State) (c : String) (x : Coll) (h : Inv st) (hx : Fresh x) :
    Inv (setColl st c x) := by
  refine ⟨h.1, ?_⟩
  intro e he
  rcases mem_alPut _ _ _ _ he with he | rfl
  · exact h.2 e he
  · exact hx

theorem inv_ite {p : Prop} [Decidable p] (A B : State × Resp) (hA : Inv A.1) (hB : Inv B.1) :
    Inv (if p then A else B).1 := by
  split <;> assumption

theorem alDel_absent {β : Type} (m : List (String × β)) (k : String) (h : alHas m k = false) :
    alDel m k = m := by
  simp only [alDel]
  apply List.filter_eq_self.mpr
  intro e he
  cases hk : (e.1 == k) with
  | false => rfl
  | true =>
    have : alHas m k = true := by
      simp only [alHas, List.any_eq_true]
      exact ⟨e, he, hk⟩
    rw [h] at this; cases this

theorem foldl_alDel_absent {β : Type} (ks : List String) (m : List (String × β))
    (h : ∀ k ∈ ks, alHas m k = false) : ks.foldl alDel m = m := by
  induction ks with
  | nil => rfl
  | cons k ks ih =>
    simp only [List.foldl_cons]
    rw [alDel_absent m k (h k (by simp))]
    exact ih (fun k' hk' => h k' (by simp [hk']))

/-- `batch_delete_embeddings` deleted nothing (`deleted == 0`): the data is unchanged -/
theorem batchDelete_nothing {β : Type} (ks : List String) (m : List (String × β))
    (h : (ks.eraseDups.filter (fun k => alHas m k)).length = 0) : ks.foldl alDel m = m := by
  apply foldl_alDel_absent
  intro k hk
  have hnil : ks.eraseDups.filter (fun k => alHas m k) = [] := List.eq_nil_of_length_eq_zero h
  have hk' : k ∈ ks.eraseDups := List.mem_eraseDups.mpr hk
  cases hh : alHas m k with
  | false => rfl
  | true =>
    have : k ∈ ks.eraseDups.filter (fun k => alHas m k) := List.mem_filter.mpr ⟨hk', hh⟩
    rw [hnil] at this; cases this

/-! ### in-place modification of metadata: keys and vectors are untouched -/

theorem alModify_keys {β : Type} (m : List (String × β)) (k : String) (f : β → β) :
    (alModify m k f).map (·.1) = m.map (·.1) := by
  induction m with
  | nil => rfl
  | cons e es ih =>
    simp only [alModify, List.map_cons] at ih ⊢
    rw [ih]
    by_cases h : (e.1 == k) = true <;> simp [h]

theorem snapOf_alModify (items : Items) (k : String) (f : Item → Item)
    (hf : ∀ it, (f it).repr = it.repr) : snapOf (alModify items k f) = snapOf items := by
  induction items with
  | nil => rfl
  | cons e es ih =>
    simp only [snapOf, alModify, List.map_cons] at ih ⊢
    rw [ih]
    by_cases h : (e.1 == k) = true
    · simp [h, vecOf, hf]
    · simp [h]

theorem sameDims_of_snapOf_eq (a b : Items) (h : snapOf a = snapOf b) : sameDims a = sameDims b := by
  cases a with
  | nil =>
    cases b with
    | nil => rfl
    | cons e r => simp [snapOf] at h
  | cons e r =>
    cases b with
    | nil => simp [snapOf] at h
    | cons e' r' =>
      simp only [snapOf, List.map_cons, List.cons.injEq, Prod.mk.injEq] at h
      obtain ⟨⟨_, hv⟩, hr⟩ := h
      simp only [sameDims]
      have e1 : r.all (fun x => (vecOf x.2).length == (vecOf e.2).length)
          = (r.map (fun x => (x.1, vecOf x.2))).all (fun y => y.2.length == (vecOf e.2).length) := by
        rw [List.all_map]; rfl
      have e2 : r'.all (fun x => (vecOf x.2).length == (vecOf e'.2).length)
          = (r'.map (fun x => (x.1, vecOf x.2))).all (fun y => y.2.length == (vecOf e'.2).length) := by
        rw [List.all_map]; rfl
      rw [e1, e2, hr, hv]

theorem fresh_alModify (x : Coll) (k : String) (f : Item → Item) (hf : ∀ it, (f it).repr = it.repr)
    (h : Fresh x) : Fresh ⟨alModify x.items k f, x.cache⟩ := by
  intro s hs
  obtain ⟨h1, h2⟩ := h s hs
  refine ⟨?_, ?_⟩
  · simp only [snapOf_alModify x.items k f hf]; exact h1
  · rw [sameDims_of_snapOf_eq _ x.items (snapOf_alModify x.items k f hf)]; exact h2

theorem foldl_alPut_nodup {β : Type} (inputs : List (String × List Int)) (g : List Int → β)
    (m : List (String × β)) (hn : (m.map (·.1)).Nodup) :
    ((inputs.foldl (fun items e => alPut items e.1 (g e.2)) m).map (·.1)).Nodup := by
  induction inputs generalizing m with
  | nil => exact hn
  | cons e es ih => exact ih _ (alPut_nodup m e.1 _ hn)

/-- every operation of the current code keeps "a cached index was built from the current data" -/
theorem inv_step (st : State) (op : Op) (h : Inv st) : Inv (step st op).1 := by
  cases op with
  | store key vec =>
    simp only [step]; split
    · exact h
    · exact ⟨fresh_none _, h.2⟩
  | storeMeta key vec md =>
    simp only [step]; split
    · exact h
    · exact ⟨fresh_none _, h.2⟩
  | delete key =>
    simp only [step]; split
    · exact ⟨fresh_none _, h.2⟩
    · exact h
  | batchDelete keys =>
    simp only [step]
    refine ⟨?_, h.2⟩
    split
    · rename_i h0
      intro s hs
      simp only at hs ⊢
      rw [batchDelete_nothing keys st.dflt.items h0]
      exact h.1 s hs
    · exact fresh_none _
  | clear =>
    simp only [step]
    refine ⟨?_, h.2⟩
    split
    · rename_i h0
      intro s hs
      simp only at hs ⊢
      have : st.dflt.items = [] := List.eq_nil_of_length_eq_zero h0
      rw [← this]
      exact h.1 s hs
    · exact fresh_none _
  | build =>
    simp only [step]; split
    · rename_i hd
      exact ⟨fresh_build _ hd, h.2⟩
    · exact h
  | createColl c cfg =>
    simp only [step]; split
    · exact h
    · exact ⟨h.1, h.2⟩
  | dropColl c =>
    simp only [step]; split
    · have := inv_setColl st c ⟨[], none⟩ h (fresh_none _)
      exact ⟨this.1, this.2⟩
    · exact h
  | cstore c key vec md =>
    simp only [step]
    exact inv_ite _ _ h (inv_ite _ _ (inv_setColl st c _ h (fresh_none _)) h)
  | cdelete c key =>
    simp only [step]; split
    · exact inv_setColl st c _ h (fresh_none _)
    · exact h
  | cbuild c =>
    simp only [step]; split
    · exact h
    · split
      · rename_i hd
        exact inv_setColl st c _ h (fresh_build _ hd)
      · exact h
  | invalidate c =>
    cases c with
    | none => exact ⟨fresh_none _, h.2⟩
    | some c => exact inv_setColl st c _ h (fresh_none _)
  | updateMeta key md =>
    simp only [step]; split
    · exact ⟨fresh_alModify st.dflt key _ (fun _ => rfl) h.1, h.2⟩
    · exact h
  | removeMetaField key field =>
    simp only [step]; split
    · exact ⟨fresh_alModify st.dflt key _ (fun _ => rfl) h.1, h.2⟩
    · exact h
  | batchStore inputs =>
    simp only [step]; split
    · exact h
    · split
      · exact h
      · exact ⟨fresh_none _, h.2⟩

theorem inv_run (ops : List Op) (st : State) (h : Inv st) : Inv (run st ops) := by
  induction ops generalizing st with
  | nil => exact h
  | cons op ops ih =>
    simp only [run]
    exact ih _ (inv_step st op h)

theorem inv_init : Inv State.init := ⟨fresh_none _, by intro e he; cases he⟩

theorem keysOK_collOf (st : State) (c : String) (h : KeysOK st) :
    ((collOf st c).items.map (·.1)).Nodup := by
  simp only [collOf]
  cases hg : alGet st.named c with
  | none => simp [Coll.empty]
  | some x => simpa using h.2 (c, x) (mem_of_alGet _ _ _ hg)

theorem keysOK_setColl (st : State) (c : String) (x : Coll) (h : KeysOK st)
    (hx : (x.items.map (·.1)).Nodup) : KeysOK (setColl st c x) := by
  refine ⟨h.1, ?_⟩
  intro e he
  rcases mem_alPut _ _ _ _ he with he | rfl
  · exact h.2 e he
  · exact hx

theorem keysOK_ite {p : Prop} [Decidable p] (A B : State × Resp) (hA : KeysOK A.1) (hB : KeysOK B.1) :
    KeysOK (if p then A else B).1 := by
  split <;> assumption

theorem keysOK_step (st : State) (op : Op) (h : KeysOK st) : KeysOK (step st op).1 := by
  cases op with
  | store key vec =>
    simp only [step]; split
    · exact h
    · exact ⟨alPut_nodup _ _ _ h.1, h.2⟩
  | storeMeta key vec md =>
    simp only [step]; split
    · exact h
    · exact ⟨alPut_nodup _ _ _ h.1, h.2⟩
  | delete key =>
    simp only [step]; split
    · exact ⟨alDel_nodup _ _ h.1, h.2⟩
    · exact h
  | batchDelete keys =>
    simp only [step]
    exact ⟨foldl_alDel_nodup _ _ h.1, h.2⟩
  | clear =>
    simp only [step]
    exact ⟨by simp, h.2⟩
  | build =>
    simp only [step]; split
    · exact ⟨h.1, h.2⟩
    · exact h
  | createColl c cfg =>
    simp only [step]; split
    · exact h
    · exact ⟨h.1, h.2⟩
  | dropColl c =>
    simp only [step]; split
    · have := keysOK_setColl st c ⟨[], none⟩ h (by simp)
      exact ⟨this.1, this.2⟩
    · exact h
  | cstore c key vec md =>
    simp only [step]
    exact keysOK_ite _ _ h (keysOK_ite _ _
      (keysOK_setColl st c ⟨alPut (collOf st c).items key (mkItem vec md), none⟩ h
        (alPut_nodup _ _ _ (keysOK_collOf st c h))) h)
  | cdelete c key =>
    simp only [step]; split
    · exact keysOK_setColl st c _ h (alDel_nodup _ _ (keysOK_collOf st c h))
    · exact h
  | cbuild c =>
    simp only [step]; split
    · exact h
    · split
      · exact keysOK_setColl st c _ h (keysOK_collOf st c h)
      · exact h
  | invalidate c =>
    cases c with
    | none => exact ⟨h.1, h.2⟩
    | some c => exact keysOK_setColl st c _ h (keysOK_collOf st c h)
  | updateMeta key md =>
    simp only [step]; split
    · exact ⟨by simp only [alModify_keys]; exact h.1, h.2⟩
    · exact h
  | removeMetaField key field =>
    simp only [step]; split
    · exact ⟨by simp only [alModify_keys]; exact h.1, h.2⟩
    · exact h
  | batchStore inputs =>
    simp only [step]; split
    · exact h
    · split
      · exact h
      · exact ⟨foldl_alPut_nodup inputs (fun v => mkItem v []) _ h.1, h.2⟩

theorem keysOK_run (ops : List Op) (st : State) (h : KeysOK st) : KeysOK (run st ops) := by
  induction ops generalizing st with
  | nil => exact h
  | cons op ops ih => exact ih _ (keysOK_step st op h)

theorem keysOK_init : KeysOK State.init := ⟨by simp [State.init, Coll.empty], by intro e he; cases he⟩

/-! ### candidates -/

theorem mem_candidates (items : Items) (m : Metric) (q : List Int) (f : Option Filter) (c : Cand)
    (h : c ∈ candidates items m q f) :
    ∃ it, (c.key, it) ∈ items ∧ (vecOf it).length = q.length ∧ c.score = score m q (vecOf it)
      ∧ c.pass = passes it.md f := by
  simp only [candidates, List.mem_filterMap] at h
  obtain ⟨e, he, hc⟩ := h
  split at hc
  · rename_i hl
    simp only [Option.some.injEq] at hc
    subst hc
    exact ⟨e.2, he, hl, rfl, rfl⟩
  · cases hc

theorem candidates_keys_sublist (items : Items) (m : Metric) (q : List Int) (f : Option Filter) :
    ((candidates items m q f).map (·.key)).Sublist (items.map (·.1)) := by
  induction items with
  | nil => simp [candidates]
  | cons e es ih =>
    simp only [candidates] at ih ⊢
    by_cases hl : (vecOf e.2).length = q.length
    · rw [List.filterMap_cons_some (b := ⟨e.1, score m q (vecOf e.2), passes e.2.md f⟩) (by simp [hl])]
      simp only [List.map_cons]
      exact List.Sublist.cons_cons _ ih
    · rw [List.filterMap_cons_none (by simp [hl])]
      simp only [List.map_cons]
      exact List.Sublist.cons _ ih

/-! ### statements used by Props (definitions of the property predicates and their core lemmas) -/

/-- `r` is the exact answer: the `k` best (all, if fewer) of the currently stored vectors of the
    query's dimension that pass the filter, best first, each a live key with the score of its
    CURRENT vector, no key twice. -/
def IsTopK (items : Items) (m : Metric) (q : List Int) (f : Option Filter) (k : Nat) (r : List Cand) : Prop :=
  r.length = min k ((candidates items m q f).filter (·.pass)).length ∧
  r.Pairwise (fun a b => candBetter m a b = true) ∧
  (∃ rest, (r ++ rest).Perm ((candidates items m q f).filter (·.pass)) ∧
    ∀ x ∈ r, ∀ y ∈ rest, candBetter m x y = true) ∧
  (∀ c ∈ r, ∃ it, alGet items c.key = some it ∧ (vecOf it).length = q.length ∧
    c.score = score m q (vecOf it) ∧ passes it.md f = true) ∧
  (r.map (·.key)).Nodup

theorem brute_is_topk (items : Items) (hn : (items.map (·.1)).Nodup) (m : Metric) (q : List Int)
    (f : Option Filter) (k : Nat) :
    IsTopK items m q f k ((rank m ((candidates items m q f).filter (·.pass))).take k) := by
  have g := topk_generic (candBetter m) (candBetter_total m) (candBetter_trans m)
    ((candidates items m q f).filter (·.pass)) k
  have hperm := sortBy_perm (candBetter m) ((candidates items m q f).filter (·.pass))
  refine ⟨g.1, g.2.1, ⟨_, g.2.2.1, g.2.2.2⟩, ?_, ?_⟩
  · intro c hc
    have h1 : c ∈ (candidates items m q f).filter (·.pass) :=
      hperm.subset (List.mem_of_mem_take hc)
    obtain ⟨h2, h3⟩ := List.mem_filter.mp h1
    obtain ⟨it, hmem, hl, hs, hp⟩ := mem_candidates items m q f c h2
    exact ⟨it, alGet_of_mem_nodup items c.key it hn hmem, hl, hs, by rw [← hp]; exact h3⟩
  · have s1 : (((rank m ((candidates items m q f).filter (·.pass))).take k).map (·.key)).Sublist
        ((rank m ((candidates items m q f).filter (·.pass))).map (·.key)) :=
      (List.take_sublist k _).map _
    have p2 : ((rank m ((candidates items m q f).filter (·.pass))).map (·.key)).Perm
        (((candidates items m q f).filter (·.pass)).map (·.key)) := hperm.map _
    have s3 : (((candidates items m q f).filter (·.pass)).map (·.key)).Sublist (items.map (·.1)) :=
      (List.filter_sublist.map _).trans (candidates_keys_sublist items m q f)
    exact (p2.nodup_iff.mpr (hn.sublist s3)).sublist s1

theorem answer_allpass (m : Metric) (rs : List Cand) (k : Nat) (h : ∀ c ∈ rs, c.pass = true) :
    SearchOut.answer (.ranked m rs k k) = rs.take k := by
  simp only [SearchOut.answer]
  have : (rs.take k).filter (·.pass) = rs.take k :=
    List.filter_eq_self.mpr (fun c hc => h c (List.mem_of_mem_take hc))
  rw [this, List.take_take, Nat.min_self]

theorem unfiltered_pass (items : Items) (m : Metric) (q : List Int) :
    ∀ c ∈ candidates items m q none, c.pass = true := by
  intro c hc
  obtain ⟨it, _, _, _, hp⟩ := mem_candidates items m q none c hc
  rw [hp]; rfl

theorem unfiltered_answer (items : Items) (hn : (items.map (·.1)).Nodup) (m : Metric) (q : List Int) (k : Nat) :
    IsTopK items m q none k (SearchOut.answer (.ranked m (rank m (candidates items m q none)) k k)) := by
  have hall : (candidates items m q none).filter (·.pass) = candidates items m q none :=
    List.filter_eq_self.mpr (unfiltered_pass items m q)
  rw [answer_allpass]
  · have := brute_is_topk items hn m q none k
    rw [hall] at this
    exact this
  · intro c hc
    exact unfiltered_pass items m q c ((sortBy_perm _ _).subset hc)

theorem prefilter_answer (items : Items) (hn : (items.map (·.1)).Nodup) (m : Metric) (q : List Int)
    (f : Filter) (k : Nat) :
    IsTopK items m q (some f) k
      (SearchOut.answer (.ranked m (rank m ((candidates items m q (some f)).filter (·.pass))) k k)) := by
  rw [answer_allpass]
  · exact brute_is_topk items hn m q (some f) k
  · intro c hc
    exact (List.mem_filter.mp ((sortBy_perm _ _).subset hc)).2

theorem searchCore_ranked (x : Coll) (m : Metric) (q : List Int) (f : Option Filter) (cut k : Nat)
    (m' : Metric) (rs : List Cand) (cut' k' : Nat)
    (h : searchCore x m q f cut k = .ranked m' rs cut' k') :
    m' = m ∧ rs = rank m (candidates x.items m q f) ∧ cut' = cut ∧ k' = k := by
  simp only [searchCore] at h
  split at h
  · split at h
    · cases h
    · injection h with h1 h2 h3 h4; exact ⟨h1.symm, h2.symm, h3.symm, h4.symm⟩
  · injection h with h1 h2 h3 h4; exact ⟨h1.symm, h2.symm, h3.symm, h4.symm⟩

/-- the index is consulted only when it is cached and passes the guard -/
theorem searchCore_viaIndex (x : Coll) (m : Metric) (q : List Int) (f : Option Filter) (cut k : Nat)
    (snap : Snap) (rs : List Cand) (cut' k' : Nat)
    (h : searchCore x m q f cut k = .viaIndex snap rs cut' k') :
    x.cache = some snap ∧ indexUsable snap q = true := by
  simp only [searchCore] at h
  split at h
  · rename_i s hs
    split at h
    · rename_i hu
      injection h with h1
      subst h1
      exact ⟨hs, hu⟩
    · cases h
  · cases h

theorem searchCore_ne_mismatch (x : Coll) (m : Metric) (q : List Int) (f : Option Filter) (cut k : Nat)
    (s : Snap) : searchCore x m q f cut k ≠ .indexDimMismatch s := by
  intro h
  simp only [searchCore] at h
  split at h
  · split at h <;> cases h
  · cases h

/-- data that passed the build-time dimension check and whose first vector has the query's
    dimension: every indexed vector has the query's dimension -/
theorem snap_dims (items : Items) (hd : sameDims items = true) (q : List Int)
    (hu : indexUsable (snapOf items) q = true) : ∀ e ∈ snapOf items, e.2.length = q.length := by
  cases items with
  | nil => simp [snapOf, indexUsable] at hu
  | cons e0 rest =>
    simp only [snapOf, List.map_cons, indexUsable, beq_iff_eq] at hu
    simp only [sameDims, List.all_eq_true, beq_iff_eq] at hd
    intro e he
    simp only [snapOf, List.map_cons, List.mem_cons, List.mem_map] at he
    rcases he with rfl | ⟨x, hx, rfl⟩
    · exact hu
    · simp only
      rw [hd x hx]; exact hu

/-- what "never consulted after the data changed" means for a state -/
def NoStaleUse (st : State) : Prop :=
  Inv st ∧
  (∀ q k snap rs cut k', searchDefault st q k = .viaIndex snap rs cut k' → snap = snapOf st.dflt.items) ∧
  (∀ q k f s os snap rs cut k', searchFiltered st q k f s os = .viaIndex snap rs cut k' →
    snap = snapOf st.dflt.items) ∧
  (∀ c q k snap rs cut k', searchColl st c q k = .viaIndex snap rs cut k' →
    snap = snapOf (collOf st c).items) ∧
  (∀ c q k f s os snap rs cut k', searchCollFiltered st c q k f s os = .viaIndex snap rs cut k' →
    snap = snapOf (collOf st c).items)

/-- what an entry point may answer for a query `q` as far as dimensions go: an index is consulted
    only if every indexed vector has the query's dimension; the unspecified outcome of the
    pre-B1 code never occurs -/
def SearchOut.dimOK (q : List Int) : SearchOut → Prop
  | .viaIndex snap _ _ _ => ∀ e ∈ snap, e.2.length = q.length
  | .indexDimMismatch _ => False
  | _ => True

def DimGuarded (st : State) : Prop :=
  (∀ q k, (searchDefault st q k).dimOK q) ∧
  (∀ m q k, (searchMetric st m q k).dimOK q) ∧
  (∀ q k f s os, (searchFiltered st q k f s os).dimOK q) ∧
  (∀ c q k, (searchColl st c q k).dimOK q) ∧
  (∀ c q k f s os, (searchCollFiltered st c q k f s os).dimOK q)

theorem searchCore_dimOK (x : Coll) (hf : Fresh x) (m : Metric) (q : List Int) (f : Option Filter)
    (cut k : Nat) : (searchCore x m q f cut k).dimOK q := by
  cases hout : searchCore x m q f cut k with
  | err e => trivial
  | zeroQuery => trivial
  | ranked m' rs c' k' => trivial
  | indexDimMismatch s => exact absurd hout (searchCore_ne_mismatch _ _ _ _ _ _ _)
  | viaIndex snap rs c' k' =>
    obtain ⟨hc, hu⟩ := searchCore_viaIndex _ _ _ _ _ _ _ _ _ _ hout
    obtain ⟨rfl, hd⟩ := hf snap hc
    exact snap_dims x.items hd q hu

theorem dimGuarded_of_inv (st : State) (h : Inv st) : DimGuarded st := by
  refine ⟨?_, ?_, ?_, ?_, ?_⟩
  · intro q k
    simp only [searchDefault]
    split
    · trivial
    · split
      · trivial
      · split
        · trivial
        · exact searchCore_dimOK _ h.1 _ _ _ _ _
  · intro m q k
    simp only [searchMetric]
    split
    · trivial
    · split
      · trivial
      · split <;> trivial
  · intro q k f s os
    simp only [searchFiltered]
    split
    · trivial
    · split
      · trivial
      · split
        · split
          · trivial
          · exact searchCore_dimOK _ h.1 _ _ _ _ _
        · split <;> trivial
  · intro c q k
    simp only [searchColl]
    split
    · trivial
    · split
      · trivial
      · split
        · trivial
        · split
          · trivial
          · exact searchCore_dimOK _ (fresh_collOf st c h) _ _ _ _ _
  · intro c q k f s os
    simp only [searchCollFiltered]
    split
    · trivial
    · split
      · trivial
      · split
        · trivial
        · split
          · trivial
          · split
            · exact searchCore_dimOK _ (fresh_collOf st c h) _ _ _ _ _
            · trivial

theorem noStaleUse_of_inv (st : State) (h : Inv st) : NoStaleUse st := by
  refine ⟨h, ?_, ?_, ?_, ?_⟩
  · intro q k snap rs cut k' hs
    simp only [searchDefault] at hs
    split at hs
    · cases hs
    · split at hs
      · cases hs
      · split at hs
        · cases hs
        · exact (h.1 _ (searchCore_viaIndex _ _ _ _ _ _ _ _ _ _ hs).1).1
  · intro q k f s os snap rs cut k' hs
    simp only [searchFiltered] at hs
    split at hs
    · cases hs
    · split at hs
      · cases hs
      · split at hs
        · split at hs
          · cases hs
          · exact (h.1 _ (searchCore_viaIndex _ _ _ _ _ _ _ _ _ _ hs).1).1
        · split at hs <;> cases hs
  · intro c q k snap rs cut k' hs
    simp only [searchColl] at hs
    split at hs
    · cases hs
    · split at hs
      · cases hs
      · split at hs
        · cases hs
        · split at hs
          · cases hs
          · exact (fresh_collOf st c h _ (searchCore_viaIndex _ _ _ _ _ _ _ _ _ _ hs).1).1
  · intro c q k f s os snap rs cut k' hs
    simp only [searchCollFiltered] at hs
    split at hs
    · cases hs
    · split at hs
      · cases hs
      · split at hs
        · cases hs
        · split at hs
          · cases hs
          · split at hs
            · exact (fresh_collOf st c h _ (searchCore_viaIndex _ _ _ _ _ _ _ _ _ _ hs).1).1
            · cases hs


theorem getElem?_key_inj (snap : Snap) (hn : (snap.map (·.1)).Nodup) (i j : Nat) (x y : String × List Int)
    (hi : snap[i]? = some x) (hj : snap[j]? = some y) (hxy : x.1 = y.1) : i = j := by
  obtain ⟨hi', rfl⟩ := List.getElem?_eq_some_iff.mp hi
  obtain ⟨hj', rfl⟩ := List.getElem?_eq_some_iff.mp hj
  have hi2 : i < (snap.map (·.1)).length := by simpa using hi'
  have hj2 : j < (snap.map (·.1)).length := by simpa using hj'
  have : (snap.map (·.1))[i] = (snap.map (·.1))[j] := by simpa using hxy
  exact (List.getElem_inj (h₀ := hi2) (h₁ := hj2) hn).mp this

theorem mapped_keys_nodup (snap : Snap) (hn : (snap.map (·.1)).Nodup) (ann : List (Nat × Score))
    (hids : (ann.map (·.1)).Nodup) :
    ((ann.filterMap fun a => (snap[a.1]?).map fun e => (⟨e.1, a.2, true⟩ : Cand)).map (·.key)).Nodup := by
  induction ann with
  | nil => simp
  | cons a rest ih =>
    simp only [List.map_cons, List.nodup_cons] at hids
    cases ha : snap[a.1]? with
    | none =>
      rw [List.filterMap_cons_none (by simp [ha])]
      exact ih hids.2
    | some e =>
      rw [List.filterMap_cons_some (b := ⟨e.1, a.2, true⟩) (by simp [ha])]
      simp only [List.map_cons, List.nodup_cons]
      refine ⟨?_, ih hids.2⟩
      intro hmem
      obtain ⟨c, hc, hkey⟩ := List.mem_map.mp hmem
      obtain ⟨b, hb, hbc⟩ := List.mem_filterMap.mp hc
      cases hb' : snap[b.1]? with
      | none => simp [hb'] at hbc
      | some e' =>
        simp only [hb', Option.map_some, Option.some.injEq] at hbc
        subst hbc
        simp only at hkey
        have : b.1 = a.1 := getElem?_key_inj snap hn _ _ _ _ hb' ha hkey
        exact hids.1 (List.mem_map.mpr ⟨b, hb, this⟩)

/-- every result of the engine's post-processing names a node the index returned -/
theorem mem_postProcessAnn (snap : Snap) (ann : List (Nat × Score)) (k : Nat) (c : Cand)
    (hc : c ∈ postProcessAnn snap ann k) :
    ∃ a ∈ ann, ∃ e, snap[a.1]? = some e ∧ c = ⟨e.1, a.2, true⟩ := by
  have hperm := sortBy_perm (candBetter .cosine)
    (ann.filterMap fun a => (snap[a.1]?).map fun e => (⟨e.1, a.2, true⟩ : Cand))
  have h1 := hperm.subset (List.mem_of_mem_take hc)
  obtain ⟨a, ha, hac⟩ := List.mem_filterMap.mp h1
  cases he : snap[a.1]? with
  | none => simp [he] at hac
  | some e =>
    simp only [he, Option.map_some, Option.some.injEq] at hac
    exact ⟨a, ha, e, he, hac.symm⟩

/-- a key of a fresh snapshot is a key stored now, and the snapshot holds its current vector -/
theorem current_of_mem_snapOf (items : Items) (hn : (items.map (·.1)).Nodup) (key : String)
    (vec : List Int) (h : (key, vec) ∈ snapOf items) :
    ∃ it, alGet items key = some it ∧ vecOf it = vec := by
  simp only [snapOf, List.mem_map] at h
  obtain ⟨e, he, heq⟩ := h
  simp only [Prod.mk.injEq] at heq
  obtain ⟨rfl, rfl⟩ := heq
  exact ⟨e.2, alGet_of_mem_nodup items e.1 e.2 hn he, rfl⟩


/-! ### pagination -/

theorem pageOf_take (α : Type) (L : List α) (k skip : Nat) (limit : Option Nat) :
    pageOf skip limit (L.take (pagedK k skip limit)) = pageOf skip limit (L.take k) := by
  cases limit with
  | none =>
    simp only [pagedK, Option.getD_none, pageOf]
    rw [Nat.min_eq_right (Nat.le_add_left k skip)]
  | some n =>
    simp only [pagedK, Option.getD_some, pageOf, List.drop_take, List.take_take]
    congr 1
    omega

/-! ### post-filter answers: sound, and exact when the oversample pool covers every candidate -/

/-- the exact filtered ranking, of which every filtered answer is a part -/
def filteredRanking (items : Items) (m : Metric) (q : List Int) (f : Filter) : List Cand :=
  (rank m (candidates items m q (some f))).filter (·.pass)

theorem filteredRanking_perm (items : Items) (m : Metric) (q : List Int) (f : Filter) :
    (filteredRanking items m q f).Perm ((candidates items m q (some f)).filter (·.pass)) :=
  (sortBy_perm _ _).filter _

theorem filteredRanking_sorted (items : Items) (m : Metric) (q : List Int) (f : Filter) :
    (filteredRanking items m q f).Pairwise (fun a b => candBetter m a b = true) :=
  (sortBy_sorted _ (candBetter_total m) (candBetter_trans m) _).sublist List.filter_sublist

theorem filteredRanking_keys_nodup (items : Items) (hn : (items.map (·.1)).Nodup) (m : Metric)
    (q : List Int) (f : Filter) : ((filteredRanking items m q f).map (·.key)).Nodup := by
  have p2 := (filteredRanking_perm items m q f).map (·.key)
  have s3 : (((candidates items m q (some f)).filter (·.pass)).map (·.key)).Sublist (items.map (·.1)) :=
    (List.filter_sublist.map _).trans (candidates_keys_sublist items m q (some f))
  exact p2.nodup_iff.mpr (hn.sublist s3)

theorem mem_filteredRanking (items : Items) (hn : (items.map (·.1)).Nodup) (m : Metric)
    (q : List Int) (f : Filter) (c : Cand) (hc : c ∈ filteredRanking items m q f) :
    ∃ it, alGet items c.key = some it ∧ (vecOf it).length = q.length ∧
      c.score = score m q (vecOf it) ∧ evalFilter it.md f = true := by
  have h1 := (filteredRanking_perm items m q f).subset hc
  obtain ⟨h2, h3⟩ := List.mem_filter.mp h1
  obtain ⟨it, hmem, hl, hs, hp⟩ := mem_candidates items m q (some f) c h2
  refine ⟨it, alGet_of_mem_nodup items c.key it hn hmem, hl, hs, ?_⟩
  have : c.pass = true := by simpa using h3
  rw [hp] at this
  exact this

/-- the post-filter answer `((ranking.take cut).filter pass).take k` is a sub-list (same order)
    of the exact filtered ranking -/
theorem postfilter_answer_sublist (items : Items) (m : Metric) (q : List Int) (f : Filter) (cut k : Nat) :
    (SearchOut.answer (.ranked m (rank m (candidates items m q (some f))) cut k)).Sublist
      (filteredRanking items m q f) := by
  simp only [SearchOut.answer, filteredRanking]
  exact (List.take_sublist k _).trans ((List.take_sublist cut _).filter _)

/-- when the oversample pool is at least as large as the candidate set, nothing is cut off and
    the post-filter answer IS the exact top-k -/
theorem postfilter_exact (items : Items) (hn : (items.map (·.1)).Nodup) (m : Metric) (q : List Int)
    (f : Filter) (cut k : Nat) (hcut : (candidates items m q (some f)).length ≤ cut) :
    IsTopK items m q (some f) k
      (SearchOut.answer (.ranked m (rank m (candidates items m q (some f))) cut k)) := by
  have hlen : (rank m (candidates items m q (some f))).length ≤ cut := by
    rw [rank, (sortBy_perm _ _).length_eq]; exact hcut
  have hans : SearchOut.answer (.ranked m (rank m (candidates items m q (some f))) cut k)
      = (filteredRanking items m q f).take k := by
    simp only [SearchOut.answer, filteredRanking, List.take_of_length_le hlen]
  rw [hans]
  have hp := filteredRanking_perm items m q f
  have hs := filteredRanking_sorted items m q f
  refine ⟨?_, hs.sublist (List.take_sublist k _), ⟨(filteredRanking items m q f).drop k, ?_, ?_⟩, ?_, ?_⟩
  · rw [List.length_take, hp.length_eq]
  · rw [List.take_append_drop]; exact hp
  · have h2 : ((filteredRanking items m q f).take k ++ (filteredRanking items m q f).drop k).Pairwise
        (fun a b => candBetter m a b = true) := by rw [List.take_append_drop]; exact hs
    exact (List.pairwise_append.mp h2).2.2
  · intro c hc
    obtain ⟨it, h1, h2, h3, h4⟩ := mem_filteredRanking items hn m q f c (List.mem_of_mem_take hc)
    exact ⟨it, h1, h2, h3, h4⟩
  · exact (filteredRanking_keys_nodup items hn m q f).sublist ((List.take_sublist k _).map _)

/-! ### `update_metadata`: new fields override, the others are kept -/

theorem alGet_replace_ne {β : Type} (m : List (String × β)) (k k' : String) (v : β) (h : k' ≠ k) :
    alGet (m.map (fun e => if e.1 == k then (k, v) else e)) k' = alGet m k' := by
  induction m with
  | nil => rfl
  | cons e es ih =>
    simp only [alGet, List.map_cons, List.find?_cons] at ih ⊢
    have hk' : (k == k') = false := by simpa using (Ne.symm h)
    by_cases he : (e.1 == k) = true
    · have : e.1 = k := by simpa using he
      have hek' : (e.1 == k') = false := by rw [this]; exact hk'
      simp only [he, ite_true, hk', hek']
      exact ih
    · simp only [he, Bool.false_eq_true, ite_false]
      by_cases hek' : (e.1 == k') = true
      · simp [hek']
      · simp only [hek']; exact ih

theorem alGet_alPut_ne {β : Type} (m : List (String × β)) (k k' : String) (v : β) (h : k' ≠ k) :
    alGet (alPut m k v) k' = alGet m k' := by
  simp only [alPut]
  split
  · exact alGet_replace_ne m k k' v h
  · have hk' : (k == k') = false := by simpa using (Ne.symm h)
    simp only [alGet, List.find?_append, List.find?_cons, hk', List.find?_nil]
    cases m.find? (fun e => e.1 == k') <;> rfl

theorem alGet_mergeMeta (old new : List (String × Int)) (hn : (new.map (·.1)).Nodup) (f : String) :
    alGet (mergeMeta old new) f = (alGet new f).or (alGet old f) := by
  induction new generalizing old with
  | nil => simp [mergeMeta, alGet]
  | cons e es ih =>
    simp only [List.map_cons, List.nodup_cons] at hn
    have hstep : mergeMeta old (e :: es) = mergeMeta (alPut old e.1 e.2) es := rfl
    rw [hstep, ih _ hn.2]
    by_cases hf : e.1 = f
    · subst hf
      have hnone : alGet es e.1 = none := by
        simp only [alGet, Option.map_eq_none_iff, List.find?_eq_none]
        intro x hx hxe
        have : x.1 = e.1 := by simpa using hxe
        exact hn.1 (this ▸ List.mem_map.mpr ⟨x, hx, rfl⟩)
      rw [hnone, alGet_alPut_self]
      simp [alGet]
    · have h1 : alGet (alPut old e.1 e.2) f = alGet old f := alGet_alPut_ne old e.1 f e.2 (Ne.symm hf)
      rw [h1]
      have hef : (e.1 == f) = false := by simpa using hf
      simp [alGet, List.find?_cons, hef]


/-! ### reads see the last write: the default collection is a map from keys to vectors -/

/-- the map semantics of every operation, as seen by `get_embedding` -/
def specStep (m : String → Option (List Int)) : Op → (String → Option (List Int))
  | .store key v => if v.isEmpty then m else fun k => if k = key then some v else m k
  | .storeMeta key v _ => if v.isEmpty then m else fun k => if k = key then some v else m k
  | .delete key => fun k => if k = key then none else m k
  | .batchDelete keys => fun k => if k ∈ keys then none else m k
  | .clear => fun _ => none
  | .batchStore inputs =>
    if inputs.any (fun e => e.2.isEmpty) then m
    else fun k => match inputs.reverse.find? (fun e => e.1 == k) with
      | some e => some e.2
      | none => m k
  | _ => m

theorem alGet_alDel_ne {β : Type} (m : List (String × β)) (k k' : String) (h : k' ≠ k) :
    alGet (alDel m k) k' = alGet m k' := by
  induction m with
  | nil => rfl
  | cons e es ih =>
    simp only [alGet, alDel, List.filter_cons] at ih ⊢
    by_cases he : (e.1 == k) = true
    · have hek : e.1 = k := by simpa using he
      have hk' : (e.1 == k') = false := by rw [hek]; simpa using (Ne.symm h)
      simp only [he, Bool.not_true, Bool.false_eq_true, ite_false, List.find?_cons, hk']
      exact ih
    · simp only [he, Bool.not_false, ite_true, List.find?_cons]
      by_cases hk' : (e.1 == k') = true
      · simp [hk']
      · simp only [hk']; exact ih

theorem alGet_none_of_not_has {β : Type} (m : List (String × β)) (k : String) (h : alHas m k = false) :
    alGet m k = none := by
  simp only [alGet, Option.map_eq_none_iff, List.find?_eq_none]
  intro e he hk
  have : alHas m k = true := by
    simp only [alHas, List.any_eq_true]; exact ⟨e, he, hk⟩
  rw [h] at this; cases this

theorem alGet_foldl_alDel {β : Type} (ks : List String) (m : List (String × β)) (k : String) :
    alGet (ks.foldl alDel m) k = if k ∈ ks then none else alGet m k := by
  induction ks generalizing m with
  | nil => simp
  | cons k0 ks ih =>
    simp only [List.foldl_cons, ih, List.mem_cons]
    by_cases hk : k ∈ ks
    · simp [hk]
    · by_cases h0 : k = k0
      · subst h0; simp [hk, alGet_alDel_self]
      · simp [hk, h0, alGet_alDel_ne m k0 k h0]

theorem view_alModify (items : Items) (k k' : String) (f : Item → Item)
    (hf : ∀ it, (f it).repr = it.repr) :
    (alGet (alModify items k f) k').map vecOf = (alGet items k').map vecOf := by
  induction items with
  | nil => rfl
  | cons e es ih =>
    simp only [alGet, alModify, List.map_cons, List.find?_cons] at ih ⊢
    by_cases he : (e.1 == k) = true
    · simp only [he, ite_true]
      by_cases hk' : (e.1 == k') = true
      · simp [hk', vecOf, hf]
      · simp only [hk']; exact ih
    · simp only [he, Bool.false_eq_true, ite_false]
      by_cases hk' : (e.1 == k') = true
      · simp [hk']
      · simp only [hk']; exact ih

theorem alGet_foldl_alPut (inputs : List (String × List Int)) (m : Items) (k : String) :
    (alGet (inputs.foldl (fun items e => alPut items e.1 (mkItem e.2 [])) m) k).map vecOf
      = match inputs.reverse.find? (fun e => e.1 == k) with
        | some e => some e.2
        | none => (alGet m k).map vecOf := by
  induction inputs generalizing m with
  | nil => simp
  | cons e es ih =>
    simp only [List.foldl_cons, ih, List.reverse_cons, List.find?_append]
    cases hf : es.reverse.find? (fun e => e.1 == k) with
    | some x => simp
    | none =>
      simp only [Option.none_or, List.find?_cons, List.find?_nil]
      by_cases hk : (e.1 == k) = true
      · have : e.1 = k := by simpa using hk
        subst this
        simp [alGet_alPut_self, vecOf_mkItem]
      · have hne : k ≠ e.1 := by
          intro h; apply hk; rw [h]; simp
        simp [hk, alGet_alPut_ne m e.1 k _ hne]

/-- one operation, as seen through `get_embedding` -/
theorem view_step (st : State) (op : Op) :
    getDefault (step st op).1 = specStep (getDefault st) op := by
  funext k
  cases op with
  | store key v =>
    simp only [step, specStep]
    split
    · rfl
    · simp only [getDefault]
      by_cases hk : k = key
      · subst hk; simp [alGet_alPut_self, vecOf_mkItem]
      · simp [hk, alGet_alPut_ne _ key k _ hk]
  | storeMeta key v md =>
    simp only [step, specStep]
    split
    · rfl
    · simp only [getDefault]
      by_cases hk : k = key
      · subst hk; simp [alGet_alPut_self, vecOf_mkItem]
      · simp [hk, alGet_alPut_ne _ key k _ hk]
  | delete key =>
    simp only [step, specStep]
    split
    · simp only [getDefault]
      by_cases hk : k = key
      · subst hk; simp [alGet_alDel_self]
      · simp [hk, alGet_alDel_ne _ key k hk]
    · rename_i hh
      simp only [getDefault]
      by_cases hk : k = key
      · subst hk
        have : alHas st.dflt.items k = false := by simpa using hh
        simp [alGet_none_of_not_has _ _ this]
      · simp [hk]
  | batchDelete keys =>
    simp only [step, specStep, getDefault, alGet_foldl_alDel]
    split <;> simp
  | clear => simp [step, specStep, getDefault, alGet]
  | batchStore inputs =>
    simp only [step, specStep]
    split
    · rename_i he
      have : inputs = [] := by simpa using he
      subst this
      simp
    · split
      · rfl
      · simp only [getDefault]
        exact alGet_foldl_alPut inputs st.dflt.items k
  | updateMeta key md =>
    simp only [step, specStep]
    split
    · exact view_alModify st.dflt.items key k (fun it => ⟨it.repr, mergeMeta it.md md⟩) (fun _ => rfl)
    · rfl
  | removeMetaField key field =>
    simp only [step, specStep]
    split
    · exact view_alModify st.dflt.items key k (fun it => ⟨it.repr, alDel it.md field⟩) (fun _ => rfl)
    · rfl
  | build => simp only [step, specStep]; split <;> rfl
  | createColl c cfg => simp only [step, specStep]; split <;> rfl
  | dropColl c => simp only [step, specStep]; split <;> rfl
  | cstore c key vec md =>
    simp only [step, specStep]
    split
    · rfl
    · split
      · split <;> rfl
      · rfl
  | cdelete c key => simp only [step, specStep]; split <;> rfl
  | cbuild c =>
    simp only [step, specStep]
    split
    · rfl
    · split <;> rfl
  | invalidate c => cases c <;> rfl

theorem view_run (ops : List Op) (st : State) :
    getDefault (run st ops) = ops.foldl specStep (getDefault st) := by
  induction ops generalizing st with
  | nil => rfl
  | cons op ops ih => simp only [run, List.foldl_cons, ih, view_step]

end Neumann.Vec
