import NeumannModel.Vec.NsLemmas
/-
  C06 — property theorems about the storage-key layer of the vector engine (`NsModel.lean`):
  which key a search through a cached index reports, and where the picture "every collection is
  its own map with its own cached index" (`Vec.Model`) is, and is not, what the code does.

  `frun Flat.init ops` is the flat store + the cache slots after ANY sequence of `FOp`s of the
  code as it is (with 4fa63773); `frunOld` / `Flat.buildOld` are the code before 4fa63773 and
  occur only in the `_witness` theorem of that fix.  Theorems quantified over `fs : Flat` hold
  for EVERY store content and EVERY slot content, reachable or not, and for every key and
  collection-name string.
-/
namespace Neumann.Vec.NsProps
open Neumann.Vec

/-! ### 4fa63773 — a cached default-collection index reports the keys it indexed -/

/-- Stripping the storage prefix from a storage key gives back the key, for EVERY key string —
    also one that itself starts with `emb:` or `coll:` (both collections). -/
theorem storage_key_roundtrip (c key : String) :
    stripOr embPrefix (embKey key) = key ∧ stripPrefix? embPrefix (embKey key) = some key ∧
    stripOr (collPrefix c) (collKey c key) = key ∧
    stripPrefix? (collPrefix c) (collKey c key) = some key :=
  ⟨stripOr_embKey key, stripPrefix?_append _ _, stripOr_collKey c key, stripPrefix?_append _ _⟩

/-- For EVERY store content: what `build_and_cache_index` leaves in slot `_default`, read the way
    `search_similar` reads it (`strip_prefix("emb:").unwrap_or(key)` on every cached key), is
    exactly the list `build_hnsw_index` indexed — node for node the key `list_keys()` returned
    with the vector `get_embedding(key)` returned. -/
theorem cached_default_index_reports_indexed_keys (fs : Flat)
    (hd : snapSameDims fs.buildSnap = true) :
    (alGet fs.build.slots defaultSlot).map (reportSnap embPrefix) = some fs.buildSnap := by
  simp only [Flat.build, hd, if_true, alGet_alPut_self, Option.map_some, reportSnap, List.map_map,
    Option.some.injEq]
  conv => rhs; rw [← List.map_id fs.buildSnap]
  apply List.map_congr_left
  intro e _
  simp only [Function.comp, stripOr_embKey, id]

/-- every indexed entry is a key `list_keys()` lists, with the vector stored under it NOW -/
theorem buildSnap_entries_are_stored (fs : Flat) :
    ∀ e ∈ fs.buildSnap, e.1 ∈ fs.listKeys ∧ fs.getDefault e.1 = some e.2 := by
  intro e he
  simp only [Flat.buildSnap, List.mem_filterMap, Option.map_eq_some_iff] at he
  obtain ⟨k, hk, v, hv, rfl⟩ := he
  exact ⟨hk, hv⟩

/-- ... hence, for EVERY store content (on which the build succeeds: one dimension), query and
    `k`: when `search_similar` right after `build_and_cache_index` answers from the index, the
    candidates it reports are the indexed entries themselves — each key is a stored key (whatever
    characters it is made of) and is scored with the vector stored under THAT key.  This is what
    lets `Vec.Model` say `viaIndex (snapOf items)` with the items' own keys. -/
theorem search_after_build_reports_stored_keys (fs : Flat) (hd : snapSameDims fs.buildSnap = true)
    (q : List Int) (k : Nat) (s : Snap) (rs : List Cand) (cut k' : Nat)
    (h : fs.build.searchDefault q k = .viaIndex s rs cut k') :
    s = fs.buildSnap ∧ rs = rank .cosine (snapCands fs.buildSnap [] q none) ∧
    ∀ e ∈ s, e.1 ∈ fs.listKeys ∧ fs.getDefault e.1 = some e.2 := by
  have hc := cached_default_index_reports_indexed_keys fs hd
  simp only [Flat.searchDefault, Flat.searchSlot] at h
  split at h
  · cases h
  · split at h
    · cases h
    · split at h
      · cases h
      · cases hs : alGet fs.build.slots defaultSlot with
        | none => rw [hs] at hc; cases hc
        | some s0 =>
          rw [hs] at hc h
          simp only [Option.map_some, Option.some.injEq] at hc
          simp only at h
          split at h
          · rw [hc] at h
            cases h
            exact ⟨rfl, rfl, buildSnap_entries_are_stored fs⟩
          · cases h

def prefixOps : List FOp := [.store "emb:x" [1, 0], .store "x" [0, 1], .build]

/-- Regression witness (code before 4fa63773): keys `emb:x` = [1,0] and `x` = [0,1], index built
    and cached.  The old code cached the bare keys and `search_similar` stripped `emb:` from them
    once more: the best match of [1,0] — the vector stored under `emb:x`, `q·v = 1` — was reported
    under the name `x`, the key of the OTHER vector.  The current code reports `emb:x`. -/
theorem cached_index_strips_key_prefix_witness :
    (frunOld Flat.init prefixOps).listKeys = ["emb:x", "x"] ∧
    (match (frunOld Flat.init prefixOps).searchDefault [1, 0] 1 with
      | .viaIndex _ rs _ _ => rs.map fun c => (c.key, c.score.p)
      | _ => []) = [("x", 1), ("x", 0)] ∧
    (match (frun Flat.init prefixOps).searchDefault [1, 0] 1 with
      | .viaIndex _ rs _ _ => rs.map fun c => (c.key, c.score.p)
      | _ => []) = [("emb:x", 1), ("x", 0)] := by
  decide

/-! ### the default collection of the flat store IS the default collection of `Vec.Model` -/

/-- For EVERY sequence of operations of the flat layer — default collection and named collections
    interleaved, keys and names arbitrary strings (`emb:x`, `coll:a:emb:k`, `a:emb:b`, ...) — in
    which no collection is literally named `_default`: what the code keeps under the `emb:` prefix
    and in slot `_default` is exactly the default collection of `Vec.Model` after the default
    collection's operations of that sequence — same keys in the same order, same reads, and for
    every query and `k` the same search outcome (same path, same candidates, same keys).  So the
    theorems of `Props.lean` about the default collection (search_is_topk, no_stale_cache,
    cached_index_dimension_guard, ...) speak about the code's storage keys for every key string,
    and no operation on a named collection can disturb them. -/
theorem default_collection_refines (ops : List FOp)
    (ha : ∀ op ∈ ops, op.avoidsDefaultSlot = true) (q : List Int) (k : Nat) :
    (frun Flat.init ops).view embPrefix = (run State.init (ops.filterMap FOp.toOp?)).dflt.items ∧
    (∀ key, (frun Flat.init ops).getDefault key
      = getDefault (run State.init (ops.filterMap FOp.toOp?)) key) ∧
    (frun Flat.init ops).searchDefault q k
      = searchDefault (run State.init (ops.filterMap FOp.toOp?)) q k := by
  have h := defaultRel_run ops Flat.init State.init defaultRel_init ha
  exact ⟨h.1, getDefault_of_rel _ _ h, searchDefault_of_rel _ _ h q k⟩

/-! ### known finding — the default collection's cache slot is a legal collection name -/

def slotOps : List FOp := [.cstore "_default" "incoll" [0, 1], .store "indefault" [1, 0], .build]

/-- Known finding `vector_engine.search_in_collection/default_cache_slot_shared` (current code):
    a collection literally named `_default` holds `incoll`; the default collection holds
    `indefault`.  Before `build_and_cache_index` a search in collection `_default` finds `incoll`;
    after it the search reads slot `_default` — the DEFAULT collection's index — and reports the
    other collection's entry (under its storage key, which the collection prefix does not
    match), never `incoll`. -/
theorem default_cache_slot_shared_witness :
    (frun Flat.init slotOps).listCollKeys "_default" = ["incoll"] ∧
    ((frun Flat.init (slotOps.take 2)).searchColl "_default" [0, 1] 5).keys = ["incoll"] ∧
    ((frun Flat.init slotOps).searchColl "_default" [0, 1] 5).keys = ["emb:indefault"] := by
  decide

/-- Every other collection name has a slot of its own: the clash needs exactly that name. -/
theorem collection_slot_is_not_default_slot (fs : Flat) (c : String) (hc : c ≠ defaultSlot) (s : Snap) :
    alGet (alPut fs.slots defaultSlot s) c = alGet fs.slots c :=
  alGet_alPut_ne _ _ _ _ hc

/-! ### known finding — collection names are key prefixes -/

def overlapOps : List FOp := [.cstore "a:emb:b" "k" [1, 0]]

/-- Known finding `vector_engine.search_in_collection/collection_prefix_overlap` (current code):
    `(a:emb:b, k)` and `(a, b:emb:k)` are the same storage key.  One store into collection
    `a:emb:b` makes a key appear in collection `a`: it is listed, found by search and readable
    there although nothing was ever stored in `a`. -/
theorem collection_prefix_overlap_witness :
    collKey "a:emb:b" "k" = collKey "a" "b:emb:k" ∧
    (frun Flat.init overlapOps).listCollKeys "a" = ["b:emb:k"] ∧
    ((frun Flat.init overlapOps).searchColl "a" [1, 0] 5).keys = ["b:emb:k"] ∧
    (frun Flat.init overlapOps).getColl "a" "b:emb:k" = some [1, 0] := by
  decide

/-- Where the overlap cannot happen, for EVERY key string: a storage key of collection `c` falls
    under the scan prefix of collection `c'` only if `c' = c`, provided neither name contains the
    separator `:` (the harness's collection names are `[a-z0-9]+`); and the default collection's
    keys and the named collections' keys never fall under each other's prefix, whatever the
    names and keys are. -/
theorem collections_disjoint_without_separator (c c' key : String)
    (hc : ':' ∉ c.toList) (hc' : ':' ∉ c'.toList) :
    (hasPrefix (collPrefix c') (collKey c key) = true → c' = c) ∧
    hasPrefix embPrefix (collKey c key) = false ∧
    hasPrefix (collPrefix c) (embKey key) = false := by
  refine ⟨?_, ?_, ?_⟩
  · intro h
    simp only [hasPrefix, List.isPrefixOf_iff_prefix, collKey, collPrefix, String.toList_append] at h
    have e1 : "coll:".toList = ['c', 'o', 'l', 'l', ':'] := by decide
    have e2 : ":emb:".toList = ':' :: ['e', 'm', 'b', ':'] := by decide
    rw [e1, e2] at h
    simp only [List.append_assoc, List.cons_append, List.nil_append, List.prefix_cons_inj] at h
    exact String.ext_iff.2 (sep_prefix_eq _ _ _ _ hc' hc h)
  · simp only [hasPrefix, collKey, collPrefix, embPrefix, String.toList_append]
    have e1 : "coll:".toList = ['c', 'o', 'l', 'l', ':'] := by decide
    have e2 : "emb:".toList = ['e', 'm', 'b', ':'] := by decide
    rw [e1, e2]
    simp [List.isPrefixOf]
  · simp only [hasPrefix, embKey, collPrefix, embPrefix, String.toList_append]
    have e1 : "coll:".toList = ['c', 'o', 'l', 'l', ':'] := by decide
    have e2 : "emb:".toList = ['e', 'm', 'b', ':'] := by decide
    rw [e1, e2]
    simp [List.isPrefixOf]

/-! ### Non-vacuity -/

/-- a store on which the build succeeds, with a key that itself starts with the storage prefix,
    and a search that does go through the index -/
example : snapSameDims (frun Flat.init (prefixOps.take 2)).buildSnap = true := by decide
example : (match (frun Flat.init (prefixOps.take 2)).build.searchDefault [1, 0] 1 with
    | .viaIndex s _ _ _ => s.map (·.1)
    | _ => []) = ["emb:x", "x"] := by decide
example : stripOr embPrefix "emb:x" = "x" ∧ stripOr embPrefix (embKey "emb:x") = "emb:x" := by decide
-- default_collection_refines: a sequence that meets the hypothesis, with colliding key strings, a
-- named collection in between, and a search that goes through the index on both sides
def refineOps : List FOp :=
  [.store "emb:x" [1, 0], .cstore "a:emb:b" "k" [1, 1], .store "x" [0, 1], .build, .cbuild "a"]
example : (∀ op ∈ refineOps, op.avoidsDefaultSlot = true) ∧
    ((frun Flat.init refineOps).searchDefault [1, 0] 1).keys = ["emb:x", "x"] ∧
    (match searchDefault (run State.init (refineOps.filterMap FOp.toOp?)) [1, 0] 1 with
      | .viaIndex s _ _ _ => s.map (·.1)
      | _ => []) = ["emb:x", "x"] := by decide
example : ':' ∉ "c0".toList ∧ hasPrefix (collPrefix "c0") (collKey "c0" "emb:k") = true := by decide

end Neumann.Vec.NsProps
