import NeumannModel.Paths.AStarProofs
import NeumannModel.Paths.AlgoSpec
/-
  C18 — A* under a config (`edge_type`, no `weight_property`): the engine searches the view of the
  graph that keeps the edges of the requested type and (unweighted) gives every edge weight 1; the
  theorems of `AStarProofs` hold on that view.
-/
namespace Neumann.Paths

theorem mem_astarView_edges (g : Graph) (etype : Option Nat) (weighted : Bool) (e' : Edge) :
    e' ∈ (astarView g etype weighted).edges ↔
      ∃ e, e ∈ g.edges ∧ typeOk etype e = true ∧ e' = (if weighted then e else { e with weight := none }) := by
  unfold astarView
  simp only [List.mem_map, List.mem_filter]
  constructor
  · rintro ⟨e, ⟨he, ht⟩, rfl⟩; exact ⟨e, he, ht, rfl⟩
  · rintro ⟨e, he, ht, rfl⟩; exact ⟨e, ⟨he, ht⟩, rfl⟩

theorem astarView_hasNode (g : Graph) (etype : Option Nat) (weighted : Bool) (n : Nat) :
    (astarView g etype weighted).hasNode n = g.hasNode n := rfl

/-- with a weight property the view keeps the weights, so non-negativity is inherited -/
theorem nonNeg_astarView_weighted (g : Graph) (etype : Option Nat) (h : NonNeg g) :
    NonNeg (astarView g etype true) := by
  intro e' he'
  obtain ⟨e, he, _, heq⟩ := (mem_astarView_edges g etype true e').1 he'
  simp only [if_true] at heq
  rw [heq]
  exact h e he

/-- without a weight property every edge weighs 1 -/
theorem astarView_unweighted_w (g : Graph) (etype : Option Nat) (e' : Edge)
    (he' : e' ∈ (astarView g etype false).edges) : e'.w = 1 := by
  obtain ⟨e, _, _, heq⟩ := (mem_astarView_edges g etype false e').1 he'
  rw [heq]
  simp [Edge.w]

theorem nonNeg_astarView_unweighted (g : Graph) (etype : Option Nat) :
    NonNeg (astarView g etype false) := by
  intro e' he'
  rw [astarView_unweighted_w g etype e' he']
  decide

theorem astar_cfg_cost_is_walk (g : Graph) (etype : Option Nat) (weighted : Bool) (dir : Dir) (s t : Nat) (c : Int)
    (hnn : weighted = true → NonNeg g) (h : astarCostCfg g etype weighted dir s t = some c) :
    AWalk (astarView g etype weighted) dir s t c := by
  cases weighted with
  | true => exact astar_cost_is_walk _ dir s t c (nonNeg_astarView_weighted g etype (hnn rfl)) h
  | false => exact astar_cost_is_walk _ dir s t c (nonNeg_astarView_unweighted g etype) h

theorem astar_cfg_cost_optimal (g : Graph) (etype : Option Nat) (weighted : Bool) (dir : Dir) (s t : Nat) (c : Int)
    (hnn : weighted = true → NonNeg g) (h : astarCostCfg g etype weighted dir s t = some c) :
    ∀ c', AWalk (astarView g etype weighted) dir s t c' → c ≤ c' := by
  cases weighted with
  | true => exact astar_cost_optimal _ dir s t c (nonNeg_astarView_weighted g etype (hnn rfl)) h
  | false => exact astar_cost_optimal _ dir s t c (nonNeg_astarView_unweighted g etype) h

theorem astar_cfg_none_iff_unreachable (g : Graph) (etype : Option Nat) (weighted : Bool) (dir : Dir) (s t : Nat)
    (hnn : weighted = true → NonNeg g) (hst : s ≠ t) (hs : g.hasNode s = true) (ht : g.hasNode t = true) :
    astarCostCfg g etype weighted dir s t = none ↔ ¬ ∃ c, AWalk (astarView g etype weighted) dir s t c := by
  cases weighted with
  | true => exact astar_none_iff_unreachable _ dir s t (nonNeg_astarView_weighted g etype (hnn rfl)) hst hs ht
  | false => exact astar_none_iff_unreachable _ dir s t (nonNeg_astarView_unweighted g etype) hst hs ht

end Neumann.Paths
