import NeumannModel.Paths.BfsProofs
import NeumannModel.Paths.DijkstraProofs
import NeumannModel.Paths.TraverseProofs
import NeumannModel.Paths.VarProofs
import NeumannModel.Paths.AllPathsProofs
import NeumannModel.Paths.AStarProofs
/-
  C18 — "Path queries return real, optimal paths": the property theorems.

  Everything here is stated over the model of `Model.lean` and the declarative notions of `Spec.lean`
  (`BWalk`, `WWalk`, `TWalk`, `ChainOk`, `VarPathOk`) for EVERY graph: no bound on the number of nodes
  or edges, any ids, self-loops, parallel edges, duplicate ids, dangling endpoints.  Proofs live in
  `BfsProofs`, `DijkstraProofs`, `TraverseProofs`, `VarProofs`, `AllPathsProofs`, `AStarProofs` (loop
  invariants + fuel adequacy).

  A* is modelled for the default (zero) heuristic and answers the COST of the returned path (which of
  several optimal paths the engine returns depends on heap tie order; the path itself is validated by
  the correspondence run).  The second half of the property — `find_all_weighted_paths`, the stored
  adjacency as `edges_of` / `neighbors` show it, A* under a config, and the algorithm family
  (components, spanning forest, core numbers, triangles, strongly connected components) — is in
  `AlgoProps.lean`.
-/
namespace Neumann.Paths.Props
open Neumann.Paths

/-! ### the defect fixed by `fix: find_path does not traverse directed edges against their direction` -/

/-- one directed edge 1 → 2 -/
def oneEdge : Graph :=
  { nodes := [⟨1, none⟩, ⟨2, none⟩], edges := [⟨7, 1, 2, true, 0, none, none⟩] }

/-- the pre-fix neighbour rule answers `find_path(2, 1)` with the path [2, 1] over edge 7,
    which is not a walk: no `BStep` leads from 2 to 1 -/
theorem old_find_path_witness :
    (findPathOld oneEdge Flt.all 2 1).toOption = some { nodes := [2, 1], edges := [7] } ∧
    ¬ ChainOk oneEdge (BStep oneEdge Flt.all 1) [2, 1] [7] := by
  refine ⟨by decide, ?_⟩
  intro h
  obtain ⟨⟨e, he, _, _, _, hj, _⟩, _⟩ := h
  simp only [oneEdge, List.mem_singleton] at he
  subst he
  revert hj
  decide

/-- the current rule says PathNotFound on the same query -/
example : (findPath oneEdge Flt.all 2 1).toOption = none := by decide
example : (findPath oneEdge Flt.all 1 2).toOption = some { nodes := [1, 2], edges := [7] } := by decide

/-! ### find_path: a real walk, with the fewest hops; "not found" iff unreachable -/

/-- the returned path starts at `s`, ends at `t`, and every consecutive pair of nodes is joined by an
    existing edge carrying the listed id, usable in that direction, passing the edge filter, and
    leading to a node that passes the node filter (the target is exempt) -/
theorem bfs_path_is_walk (g : Graph) (flt : Flt) (s t : Nat) (p : Path)
    (h : findPath g flt s t = .ok p) :
    p.nodes.head? = some s ∧ p.nodes.getLast? = some t ∧ ChainOk g (BStep g flt t) p.nodes p.edges :=
  Neumann.Paths.bfs_path_is_walk g flt s t p h

/-- no qualifying walk from `s` to `t` has fewer hops than the returned path -/
theorem bfs_path_shortest (g : Graph) (flt : Flt) (s t : Nat) (p : Path)
    (h : findPath g flt s t = .ok p) :
    ∀ n, BWalk g flt t s t n → p.edges.length ≤ n :=
  Neumann.Paths.bfs_path_shortest g flt s t p h

/-- for existing endpoints, `PathNotFound` is answered exactly when no qualifying walk exists -/
theorem bfs_none_iff_unreachable (g : Graph) (flt : Flt) (s t : Nat)
    (hs : g.hasNode s = true) (ht : g.hasNode t = true) :
    findPath g flt s t = .error .pathNotFound ↔ ¬ ∃ n, BWalk g flt t s t n :=
  Neumann.Paths.bfs_none_iff_unreachable g flt s t hs ht

/-- fuel adequacy: the BFS loop never stops for lack of fuel -/
theorem bfs_fuel_adequate (g : Graph) (flt : Flt) (s t : Nat) (k : Nat) :
    bfsLoop g flt t (bfsFuel g + k) { queue := [s], visited := [s], parent := [] }
      = bfsLoop g flt t (bfsFuel g) { queue := [s], visited := [s], parent := [] } :=
  Neumann.Paths.bfs_fuel_adequate g flt s t k

/-- non-vacuity: a mixed graph with a filter that forces a detour (node 2 fails `c ≠ 9`),
    an unreachable pair with existing endpoints, and a target exempt from the node filter -/
def fltGraph : Graph :=
  { nodes := [⟨1, some 0⟩, ⟨2, some 9⟩, ⟨3, some 0⟩, ⟨4, some 9⟩, ⟨5, some 0⟩]
    edges := [⟨10, 1, 2, true, 0, none, some 1⟩, ⟨11, 2, 4, true, 0, none, some 1⟩,
              ⟨12, 1, 3, false, 0, none, some 1⟩, ⟨13, 5, 3, false, 0, none, some 1⟩,
              ⟨14, 5, 4, true, 0, none, some 1⟩, ⟨15, 4, 4, true, 0, none, some 1⟩] }

def ne9 : Flt := mkFlt fltGraph [{ op := .ne, val := 9 }] []

example : (findPath fltGraph Flt.all 1 4).toOption = some { nodes := [1, 2, 4], edges := [10, 11] } := by decide
example : (findPath fltGraph ne9 1 4).toOption = some { nodes := [1, 3, 5, 4], edges := [12, 13, 14] } := by decide
example : fltGraph.hasNode 4 = true ∧ fltGraph.hasNode 1 = true ∧
    (findPath fltGraph Flt.all 4 1).toOption = none := by decide

/-! ### error taxonomy: a missing endpoint is reported, and nothing else is -/

/-- `find_path` answers `NodeNotFound(n)` exactly for the first missing endpoint -/
theorem find_path_missing_node (g : Graph) (flt : Flt) (s t n : Nat) :
    findPath g flt s t = .error (.nodeNotFound n) ↔
      (g.hasNode s = false ∧ n = s) ∨ (g.hasNode s = true ∧ g.hasNode t = false ∧ n = t) := by
  unfold findPath findPathWith
  cases hs : g.hasNode s <;> cases ht : g.hasNode t
  · simp [eq_comm]
  · simp [eq_comm]
  · simp [eq_comm]
  · simp only [Bool.not_true, Bool.false_eq_true, if_false, Bool.true_eq_false, false_and, and_false, or_self, iff_false]
    intro h
    split at h
    · cases h
    · split at h <;> cases h

/-- with both endpoints present `find_path` answers a path or `PathNotFound`, never another error -/
theorem find_path_total (g : Graph) (flt : Flt) (s t : Nat)
    (hs : g.hasNode s = true) (ht : g.hasNode t = true) :
    (∃ p, findPath g flt s t = .ok p) ∨ findPath g flt s t = .error .pathNotFound := by
  unfold findPath findPathWith
  simp only [hs, ht, Bool.not_true, Bool.false_eq_true, if_false]
  split
  · exact Or.inl ⟨_, rfl⟩
  · split
    · exact Or.inr rfl
    · exact Or.inl ⟨_, rfl⟩

/-! ### find_weighted_path: a real walk of the reported weight, optimal for non-negative weights -/

/-- the returned chain starts at `s`, ends at `t`, follows existing edges along their direction and
    its edge weights add up to exactly the reported total -/
theorem dijkstra_path_is_walk (g : Graph) (s t : Nat) (p : WPath) (hnn : NonNeg g)
    (h : findWeightedPath g s t = .ok p) :
    p.nodes.head? = some s ∧ p.nodes.getLast? = some t ∧ WChainOk g p.nodes p.edges p.total :=
  Neumann.Paths.dijkstra_path_is_walk g s t p hnn h

/-- no direction-respecting walk from `s` to `t` is lighter than the reported total -/
theorem dijkstra_optimal (g : Graph) (s t : Nat) (p : WPath) (hnn : NonNeg g)
    (h : findWeightedPath g s t = .ok p) :
    ∀ c, WWalk g s t c → p.total ≤ c :=
  Neumann.Paths.dijkstra_optimal g s t p hnn h

/-- `NegativeWeight{edge_id}` always names an existing edge with a negative weight -/
theorem dijkstra_negative_reported (g : Graph) (s t : Nat) (id : Nat)
    (h : findWeightedPath g s t = .error (.negativeWeight id)) :
    ∃ e, e ∈ g.edges ∧ e.id = id ∧ e.w < 0 :=
  Neumann.Paths.dijkstra_negative_reported g s t id h

/-- for existing endpoints and non-negative weights, `PathNotFound` iff no walk exists
    (includes fuel adequacy of the Dijkstra loop) -/
theorem dijkstra_none_iff_unreachable (g : Graph) (s t : Nat) (hnn : NonNeg g)
    (hs : g.hasNode s = true) (ht : g.hasNode t = true) :
    findWeightedPath g s t = .error .pathNotFound ↔ ¬ ∃ c, WWalk g s t c :=
  Neumann.Paths.dijkstra_none_iff_unreachable g s t hnn hs ht

/-- non-vacuity: parallel edges of different weight, a zero-weight edge, a missing weight (= 1),
    an undirected edge used backwards; the two-hop route 1→2→3 (0 + 1) beats the direct edge (5) -/
def wGraph : Graph :=
  { nodes := [⟨1, none⟩, ⟨2, none⟩, ⟨3, none⟩, ⟨4, none⟩]
    edges := [⟨20, 1, 3, true, 0, some 5, none⟩, ⟨21, 1, 2, true, 0, some 0, none⟩,
              ⟨22, 3, 2, false, 0, none, none⟩, ⟨23, 1, 3, true, 0, some 4, none⟩,
              ⟨24, 4, 1, true, 0, some 2, none⟩] }

example : NonNeg wGraph := by
  intro e he
  simp only [wGraph, List.mem_cons, List.not_mem_nil, or_false] at he
  rcases he with rfl | rfl | rfl | rfl | rfl <;> decide
example : (findWeightedPath wGraph 1 3).toOption = some { nodes := [1, 2, 3], edges := [21, 22], total := 1 } := by decide
example : wGraph.hasNode 1 = true ∧ wGraph.hasNode 4 = true ∧ (findWeightedPath wGraph 1 4).toOption = none := by decide

/-! ### astar_path (zero heuristic): the cost of a real walk, optimal; "no path" iff unreachable -/

/-- the answered cost is the total weight of a real walk from `s` to `t` that follows edges the way
    the requested direction allows and only visits existing nodes -/
theorem astar_cost_is_walk (g : Graph) (dir : Dir) (s t : Nat) (c : Int) (hnn : NonNeg g)
    (h : astarCost g dir s t = some c) : AWalk g dir s t c :=
  Neumann.Paths.astar_cost_is_walk g dir s t c hnn h

/-- no such walk is lighter -/
theorem astar_cost_optimal (g : Graph) (dir : Dir) (s t : Nat) (c : Int) (hnn : NonNeg g)
    (h : astarCost g dir s t = some c) : ∀ c', AWalk g dir s t c' → c ≤ c' :=
  Neumann.Paths.astar_cost_optimal g dir s t c hnn h

/-- for distinct existing endpoints, `path: None` is answered exactly when no walk exists
    (includes fuel adequacy of the A* loop) -/
theorem astar_none_iff_unreachable (g : Graph) (dir : Dir) (s t : Nat) (hnn : NonNeg g) (hst : s ≠ t)
    (hs : g.hasNode s = true) (ht : g.hasNode t = true) :
    astarCost g dir s t = none ↔ ¬ ∃ c, AWalk g dir s t c :=
  Neumann.Paths.astar_none_iff_unreachable g dir s t hnn hst hs ht

/-- the A* loop never stops for lack of fuel -/
theorem astar_fuel_adequate (g : Graph) (dir : Dir) (s t : Nat) (hnn : NonNeg g) (hst : s ≠ t) :
    astarLoop g dir t (astarFuel g) { closed := [], gs := [(s, 0)], heap := [(0, s)] } ≠ .outOfFuel :=
  Neumann.Paths.astar_fuel_adequate g dir s t hnn hst

/-- with the zero heuristic and `Direction::Outgoing`, A* answers exactly the total weight
    `find_weighted_path` answers (and no path exactly when it answers `PathNotFound`), on every
    graph with non-negative weights whose edge endpoints exist -/
theorem astar_cost_eq_dijkstra_cost (g : Graph) (s t : Nat) (hnn : NonNeg g) (hend : EndpointsExist g)
    (hs : g.hasNode s = true) (ht : g.hasNode t = true) :
    astarCost g .out s t = (findWeightedPath g s t).toOption.map (·.total) :=
  Neumann.Paths.astar_cost_eq_dijkstra_cost g s t hnn hend hs ht

/-- non-vacuity on `wGraph` (parallel edges 5 / 4, a zero-weight edge, a missing weight, an
    undirected edge): both answer 1 for 1 ⇝ 3; backwards over `Incoming` 3 ⇝ 1 costs 1 too, and the
    pre-fix witness shape (one directed edge queried against its direction) has no path -/
example : EndpointsExist wGraph := by
  intro e he
  simp only [wGraph, List.mem_cons, List.not_mem_nil, or_false] at he
  rcases he with rfl | rfl | rfl | rfl | rfl <;> decide
example : astarCost wGraph .out 1 3 = some 1 ∧ astarCost wGraph .inc 3 1 = some 1 ∧
    astarCost wGraph .out 1 4 = none ∧ astarCost wGraph .both 1 4 = some 2 := by decide
example : astarCost oneEdge .out 2 1 = none ∧ astarCost oneEdge .both 2 1 = some 1 := by decide

/-! ### find_all_paths: all shortest paths -/

/-- every listed path is a real direction-respecting chain from `s` to `t` with exactly `hops` edges -/
theorem allpaths_sound (g : Graph) (maxPaths cap s t : Nat) (r : AllPaths)
    (h : findAllPaths g maxPaths cap s t = .ok r) :
    ∀ p, p ∈ r.paths → p.nodes.head? = some s ∧ p.nodes.getLast? = some t ∧
      ChainOk g (BStep g Flt.all t) p.nodes p.edges ∧ p.edges.length = r.hops :=
  Neumann.Paths.allpaths_sound g maxPaths cap s t r h

/-- the reported hop count is the true distance -/
theorem allpaths_hops_shortest (g : Graph) (maxPaths cap s t : Nat) (r : AllPaths)
    (h : findAllPaths g maxPaths cap s t = .ok r) :
    BWalk g Flt.all t s t r.hops ∧ ∀ n, BWalk g Flt.all t s t n → r.hops ≤ n :=
  Neumann.Paths.allpaths_hops_shortest g maxPaths cap s t r h

theorem allpaths_none_iff_unreachable (g : Graph) (maxPaths cap s t : Nat)
    (hs : g.hasNode s = true) (ht : g.hasNode t = true) :
    findAllPaths g maxPaths cap s t = .error .pathNotFound ↔ ¬ ∃ n, BWalk g Flt.all t s t n :=
  Neumann.Paths.allpaths_none_iff_unreachable g maxPaths cap s t hs ht

/-- when neither cap is reached (`max_parents_per_node ≥ 2·|E|`, fewer than `max_paths` results)
    every shortest chain is listed -/
theorem allpaths_complete (g : Graph) (maxPaths cap s t : Nat) (r : AllPaths)
    (h : findAllPaths g maxPaths cap s t = .ok r)
    (hcap : 2 * g.edges.length ≤ cap) (hmax : r.paths.length < maxPaths)
    (ns es : List Nat) (hhead : ns.head? = some s) (hlast : ns.getLast? = some t)
    (hchain : ChainOk g (BStep g Flt.all t) ns es) (hlen : es.length = r.hops) :
    { nodes := ns, edges := es } ∈ r.paths :=
  Neumann.Paths.allpaths_complete g maxPaths cap s t r h hcap hmax ns es hhead hlast hchain hlen

/-- non-vacuity: the diamond 1→2→4, 1→3→4, 4—5 has two shortest paths 1 ⇝ 5; `max_paths = 1` truncates -/
example : (findAllPaths apExG 1000 100 1 5).toOption.map (fun r => (r.hops, r.paths.length)) = some (3, 2) := by decide
example : (findAllPaths apExG 1 100 1 5).toOption.map (fun r => r.paths.length) = some 1 := by decide

/-! ### traverse: exactly the nodes within the hop bound -/

/-- the result of `traverse` holds exactly the existing nodes that pass the node filter (the start
    always) and lie within `md` hops of the start over edges of the requested type / direction that
    pass the edge filter -/
theorem traverse_exact (g : Graph) (s : Nat) (dir : Dir) (md : Nat) (etype : Option Nat) (flt : Flt) (r : List Nat)
    (h : traverse g s dir md etype flt = some r) :
    ∀ v, v ∈ r ↔ (g.hasNode v = true ∧ (v = s ∨ flt.nodeOk v = true) ∧
      ∃ n, n ≤ md ∧ TWalk g etype dir flt s v n) :=
  Neumann.Paths.traverse_exact g s dir md etype flt r h

theorem traverse_nodup (g : Graph) (s : Nat) (dir : Dir) (md : Nat) (etype : Option Nat) (flt : Flt) (r : List Nat)
    (h : traverse g s dir md etype flt = some r) : r.Nodup :=
  Neumann.Paths.traverse_nodup g s dir md etype flt r h

theorem traverse_none_iff (g : Graph) (s : Nat) (dir : Dir) (md : Nat) (etype : Option Nat) (flt : Flt) :
    traverse g s dir md etype flt = none ↔ g.hasNode s = false :=
  Neumann.Paths.traverse_none_iff g s dir md etype flt

/-- the neighbour set used by `traverse` is the declarative one-hop relation -/
theorem neighbours_exact (g : Graph) (etype : Option Nat) (dir : Dir) (flt : Flt) (u v : Nat) :
    v ∈ nbrIds g etype dir flt u ↔ TStep g etype dir flt u v :=
  Neumann.Paths.mem_nbrIds_iff g etype dir flt u v

/-- non-vacuity: a graph where the bound cuts the result (4 is three hops away) -/
example : traverse travExGraph 1 .out 2 none Flt.all = some [1, 2, 5, 3] := by decide

/-! ### variable-length matches: exactly the chains within the hop bounds -/

theorem varpaths_exact (g : Graph) (cfg : VarCfg) (flt : Flt) (s t : Nat) (ps : List Path)
    (h : findVariablePaths g cfg flt s t = .ok ps) :
    ∀ p, p ∈ ps ↔ VarPathOk g cfg flt s t p :=
  Neumann.Paths.varpaths_exact g cfg flt s t ps h

/-- non-vacuity: two matches 1 ⇝ 3 within 1..2 hops; undirected triangle with cycles allowed -/
example : (findVariablePaths exGraph ⟨1, 2, .out, none, false⟩ Flt.all 1 3).toOption
    = some [⟨[1, 3], [12]⟩, ⟨[1, 2, 3], [10, 11]⟩] := by decide
example : ((findVariablePaths exTri ⟨0, 3, .both, none, true⟩ Flt.all 1 1).toOption.map List.length) = some 5 := by decide

theorem varpaths_error_iff (g : Graph) (cfg : VarCfg) (flt : Flt) (s t : Nat) :
    (∃ e, findVariablePaths g cfg flt s t = .error e) ↔ (g.hasNode s = false ∨ g.hasNode t = false) :=
  Neumann.Paths.varpaths_error_iff g cfg flt s t

end Neumann.Paths.Props
