import NeumannModel.Paths.TraverseProofs
import NeumannModel.Paths.VarProofs
/-
  C18 — "Path queries return real, optimal paths": the property theorems.

  Everything here is stated over the model of `Model.lean` and the declarative notions of `Spec.lean`
  (`BWalk`, `WWalk`, `TWalk`, `ChainOk`, `VarPathOk`) for EVERY graph: no bound on the number of nodes
  or edges, any ids, self-loops, parallel edges, duplicate ids, dangling endpoints.  Proofs live in
  `BfsProofs`, `DijkstraProofs`, `TraverseProofs`, `VarProofs` (loop invariants + fuel adequacy).

  Components / spanning forest / core numbers / triangles / A* / all-shortest-paths: `Spec.lean` gives
  the textbook definitions; there is NO theorem about the Rust algorithms — the engine is compared
  with independent reference implementations by the correspondence run only.
-/
namespace Neumann.Paths.Props
open Neumann.Paths

/-! ### the defect fixed by `fix: find_path does not traverse directed edges against their direction` -/

/-- one directed edge 1 → 2 -/
def oneEdge : Graph :=
  { nodes := [⟨1, none⟩, ⟨2, none⟩], edges := [⟨7, 1, 2, true, 0, none, none⟩] }

/-- the pre-fix neighbour rule answers `find_path(2, 1)` with the path [2, 1] over edge 7,
    which is not a walk: no `BStep` leads from 2 to 1 -/
theorem old_find_path_witness :
    (findPathOld oneEdge Flt.all 2 1).toOption = some { nodes := [2, 1], edges := [7] } ∧
    ¬ ChainOk oneEdge (BStep oneEdge Flt.all 1) [2, 1] [7] := by
  refine ⟨by decide, ?_⟩
  intro h
  obtain ⟨⟨e, he, _, _, _, hj, _⟩, _⟩ := h
  simp only [oneEdge, List.mem_singleton] at he
  subst he
  revert hj
  decide

/-- the current rule says PathNotFound on the same query -/
example : (findPath oneEdge Flt.all 2 1).toOption = none := by decide
example : (findPath oneEdge Flt.all 1 2).toOption = some { nodes := [1, 2], edges := [7] } := by decide

/-! ### traverse: exactly the nodes within the hop bound -/

/-- the result of `traverse` holds exactly the existing nodes that pass the node filter (the start
    always) and lie within `md` hops of the start over edges of the requested type / direction that
    pass the edge filter -/
theorem traverse_exact (g : Graph) (s : Nat) (dir : Dir) (md : Nat) (etype : Option Nat) (flt : Flt) (r : List Nat)
    (h : traverse g s dir md etype flt = some r) :
    ∀ v, v ∈ r ↔ (g.hasNode v = true ∧ (v = s ∨ flt.nodeOk v = true) ∧
      ∃ n, n ≤ md ∧ TWalk g etype dir flt s v n) :=
  Neumann.Paths.traverse_exact g s dir md etype flt r h

theorem traverse_nodup (g : Graph) (s : Nat) (dir : Dir) (md : Nat) (etype : Option Nat) (flt : Flt) (r : List Nat)
    (h : traverse g s dir md etype flt = some r) : r.Nodup :=
  Neumann.Paths.traverse_nodup g s dir md etype flt r h

theorem traverse_none_iff (g : Graph) (s : Nat) (dir : Dir) (md : Nat) (etype : Option Nat) (flt : Flt) :
    traverse g s dir md etype flt = none ↔ g.hasNode s = false :=
  Neumann.Paths.traverse_none_iff g s dir md etype flt

/-- the neighbour set used by `traverse` is the declarative one-hop relation -/
theorem neighbours_exact (g : Graph) (etype : Option Nat) (dir : Dir) (flt : Flt) (u v : Nat) :
    v ∈ nbrIds g etype dir flt u ↔ TStep g etype dir flt u v :=
  Neumann.Paths.mem_nbrIds_iff g etype dir flt u v

/-- non-vacuity: a graph where the bound cuts the result (4 is three hops away) -/
example : traverse travExGraph 1 .out 2 none Flt.all = some [1, 2, 5, 3] := by decide

/-! ### variable-length matches: exactly the chains within the hop bounds -/

theorem varpaths_exact (g : Graph) (cfg : VarCfg) (flt : Flt) (s t : Nat) (ps : List Path)
    (h : findVariablePaths g cfg flt s t = .ok ps) :
    ∀ p, p ∈ ps ↔ VarPathOk g cfg flt s t p :=
  Neumann.Paths.varpaths_exact g cfg flt s t ps h

theorem varpaths_error_iff (g : Graph) (cfg : VarCfg) (flt : Flt) (s t : Nat) :
    (∃ e, findVariablePaths g cfg flt s t = .error e) ↔ (g.hasNode s = false ∨ g.hasNode t = false) :=
  Neumann.Paths.varpaths_error_iff g cfg flt s t

end Neumann.Paths.Props
