/-
  C18 — model of the path queries of `graph_engine` (import-free, total, computable).

  Anchors (all in /repo/graph_engine/src/lib.rs):
    create_edge / add_edge_to_list   → `inOut`, `inIn`, `outEdges`, `inEdges`
    find_path + reconstruct_path     → `bfsNbr`, `bfsScan`, `bfsLoop`, `reconstruct`, `findPath`
    find_weighted_path (Dijkstra)    → `edgeWeight`, `dijCands`, `popMin`, `dijRelax`, `dijLoop`, `findWeightedPath`
    get_neighbor_ids_filtered        → `nbrIds`
    traverse                         → `travPush`, `travLoop`, `traverse`
    find_variable_paths (+ dfs)      → `varNbrs`, `varDfs`, `findVariablePaths`
    find_all_paths + enumerate_paths → `apScan`, `apLevel`, `apLoop`, `apEnum`, `findAllPaths`
    neighbors + algorithms/astar.rs  → `neighborsRaw`, `neighborIds`, `astarEdges`, `lightest`, `astarRelax`, `astarLoop`, `astarCost`

  The engine keeps, per node, two id lists `node:N:out` / `node:N:in` (creation order, no
  duplicates): a directed edge a→b is in out(a) and in(b); an undirected edge is in out+in of BOTH
  endpoints.  Edge ids are unique (a counter), so the model keeps the edge itself where the engine keeps
  its id and fetches it with `get_edge`.  Weights are `f64` in the engine and `Int` here: the
  correspondence only uses integer weights whose sums stay below 2^53, on which `f64` is exact.
  A property that is missing / not numeric is `none`.
-/
namespace Neumann.Paths

structure Edge where
  id : Nat
  src : Nat
  dst : Nat
  directed : Bool
  etype : Nat
  weight : Option Int
  prop : Option Int
deriving Repr, DecidableEq, Inhabited

structure Node where
  id : Nat
  prop : Option Int
deriving Repr, DecidableEq, Inhabited

/-- nodes and edges in creation order -/
structure Graph where
  nodes : List Node
  edges : List Edge
deriving Repr, Inhabited

structure Path where
  nodes : List Nat
  edges : List Nat
deriving Repr, DecidableEq, Inhabited

def Graph.hasNode (g : Graph) (n : Nat) : Bool := g.nodes.any (·.id == n)

def Graph.findNode (g : Graph) (n : Nat) : Option Node := g.nodes.find? (·.id == n)

/-! ### adjacency as stored -/

/-- the edge's id is in `node:n:out` -/
def inOut (e : Edge) (n : Nat) : Bool := e.src == n || (!e.directed && e.dst == n)

/-- the edge's id is in `node:n:in` -/
def inIn (e : Edge) (n : Nat) : Bool := e.dst == n || (!e.directed && e.src == n)

def outEdges (g : Graph) (n : Nat) : List Edge := g.edges.filter (inOut · n)

def inEdges (g : Graph) (n : Nat) : List Edge := g.edges.filter (inIn · n)

/-- `find_path`: `all_edge_ids = out; for eid in in { if !all.contains(eid) { push } }`.
    (ids unique ⇒ the in-list has no internal duplicates, so testing against `out` is the same.) -/
def allEdges (g : Graph) (n : Nat) : List Edge :=
  let out := outEdges g n
  out ++ (inEdges g n).filter (fun e => !(out.any (·.id == e.id)))

/-! ### filters -/

inductive Cmp | eq | ne | lt | le | gt | ge
deriving Repr, DecidableEq, Inhabited

structure Cond where
  op : Cmp
  val : Int
deriving Repr, DecidableEq, Inhabited

/-- `PropertyCondition::evaluate_properties` on an Int property: missing ⇒ only `Ne` matches -/
def Cond.eval (c : Cond) : Option Int → Bool
  | none => c.op == .ne
  | some a =>
    match c.op with
    | .eq => a == c.val
    | .ne => a != c.val
    | .lt => a < c.val
    | .le => a ≤ c.val
    | .gt => a > c.val
    | .ge => a ≥ c.val

/-- what the algorithms see of an `Option<&TraversalFilter>` -/
structure Flt where
  edgeOk : Edge → Bool
  nodeOk : Nat → Bool

def Flt.all : Flt := { edgeOk := fun _ => true, nodeOk := fun _ => true }

/-- `TraversalFilter { node_conditions, edge_conditions }` over the graph's properties;
    `if let Ok(node) = get_node(id)`: a node that cannot be fetched is not filtered. -/
def mkFlt (g : Graph) (nodeConds edgeConds : List Cond) : Flt :=
  { edgeOk := fun e => edgeConds.all (·.eval e.prop)
    nodeOk := fun n => match g.findNode n with
      | none => true
      | some nd => nodeConds.all (·.eval nd.prop) }

/-! ### find_path (BFS) -/

/-- the neighbour rule of the `find_path` loop (current code, after the fix) -/
def bfsDirRule (cur : Nat) (e : Edge) : Option Nat :=
  if e.src == cur then some e.dst
  else if e.dst == cur && !e.directed then some e.src
  else none

/-- the rule before `fix: find_path does not traverse directed edges against their direction` -/
def oldBfsDirRule (cur : Nat) (e : Edge) : Option Nat :=
  if e.src == cur then some e.dst
  else if e.dst == cur then some e.src
  else none

/-- one iteration of `for edge_id in all_edge_ids` up to (not including) `visited.insert`:
    edge filter, neighbour rule, node filter on every neighbour except the target. -/
def bfsNbrWith (rule : Nat → Edge → Option Nat) (flt : Flt) (tgt cur : Nat) (e : Edge) : Option Nat :=
  if !flt.edgeOk e then none
  else match rule cur e with
    | none => none
    | some nb => if nb != tgt && !flt.nodeOk nb then none else some nb

abbrev bfsNbr := bfsNbrWith bfsDirRule

/-- `parent: HashMap<u64,(u64,u64)>` as an association list `(node, parent, edge id)`, newest first;
    a key is inserted only when the node is first visited, so keys are unique. -/
abbrev ParentMap := List (Nat × Nat × Nat)

structure BfsSt where
  queue : List Nat
  visited : List Nat
  parent : ParentMap
deriving Repr, Inhabited

/-- the inner `for` loop over the edges of `cur`; `.error parent` = the early `return Ok(reconstruct …)` -/
def bfsScanWith (rule : Nat → Edge → Option Nat) (flt : Flt) (tgt cur : Nat) :
    List Edge → BfsSt → Except ParentMap BfsSt
  | [], st => .ok st
  | e :: es, st =>
    match bfsNbrWith rule flt tgt cur e with
    | none => bfsScanWith rule flt tgt cur es st
    | some nb =>
      if st.visited.contains nb then bfsScanWith rule flt tgt cur es st
      else
        let parent' := (nb, cur, e.id) :: st.parent
        if nb == tgt then .error parent'
        else bfsScanWith rule flt tgt cur es
          { queue := st.queue ++ [nb], visited := nb :: st.visited, parent := parent' }

abbrev bfsScan := bfsScanWith bfsDirRule

/-- `while let Some(current) = queue.pop_front()`; `none` = queue exhausted (or fuel, see `bfsFuel`) -/
def bfsLoopWith (rule : Nat → Edge → Option Nat) (g : Graph) (flt : Flt) (tgt : Nat) :
    Nat → BfsSt → Option ParentMap
  | 0, _ => none
  | fuel + 1, st =>
    match st.queue with
    | [] => none
    | cur :: rest =>
      match bfsScanWith rule flt tgt cur (allEdges g cur) { st with queue := rest } with
      | .error p => some p
      | .ok st' => bfsLoopWith rule g flt tgt fuel st'

abbrev bfsLoop := bfsLoopWith bfsDirRule

/-- every dequeued node other than the start is an endpoint of an edge and is enqueued once -/
def bfsFuel (g : Graph) : Nat := 2 * g.edges.length + 2

def lookupParent (p : ParentMap) (n : Nat) : Option (Nat × Nat) :=
  match p.find? (·.1 == n) with
  | some (_, par, eid) => some (par, eid)
  | none => none

/-- `reconstruct_path`: walk the parent map back from the target.  Accumulators are already in
    forward order (the engine pushes then reverses). -/
def reconstruct (p : ParentMap) (src : Nat) : Nat → Nat → List Nat → List Nat → Path
  | 0, _, ns, es => { nodes := src :: ns, edges := es }
  | fuel + 1, cur, ns, es =>
    if cur == src then { nodes := src :: ns, edges := es }
    else match lookupParent p cur with
      | some (par, eid) => reconstruct p src fuel par (cur :: ns) (eid :: es)
      | none => { nodes := src :: cur :: ns, edges := es }

inductive QErr
  | nodeNotFound (n : Nat)
  | pathNotFound
  | negativeWeight (edge : Nat)
deriving Repr, DecidableEq, Inhabited

def findPathWith (rule : Nat → Edge → Option Nat) (g : Graph) (flt : Flt) (src tgt : Nat) : Except QErr Path :=
  if !g.hasNode src then .error (.nodeNotFound src)
  else if !g.hasNode tgt then .error (.nodeNotFound tgt)
  else if src == tgt then .ok { nodes := [src], edges := [] }
  else
    match bfsLoopWith rule g flt tgt (bfsFuel g) { queue := [src], visited := [src], parent := [] } with
    | none => .error .pathNotFound
    | some p => .ok (reconstruct p src (p.length + 1) tgt [] [])

def findPath := findPathWith bfsDirRule

/-- the pre-fix `find_path` (kept for `old_find_path_witness`) -/
def findPathOld := findPathWith oldBfsDirRule

/-! ### find_weighted_path (Dijkstra) -/

/-- `extract_edge_weight`: negative ⇒ `NegativeWeight{edge_id}`, missing ⇒ 1 -/
def edgeWeight (e : Edge) : Except Nat Int :=
  match e.weight with
  | some w => if w < 0 then .error e.id else .ok w
  | none => .ok 1

/-- weight with which an edge counts in a walk (no error case) -/
def Edge.w (e : Edge) : Int := match e.weight with | some w => w | none => 1

/-- the two `for` loops of one Dijkstra expansion, as the list of (neighbour, edge) they relax, in order:
    first the out-list (`from == cur → to`, `!directed ∧ to == cur → from`), then the in-list
    (directed edges skipped; `to == cur → from`). -/
def dijCands (g : Graph) (cur : Nat) : List (Nat × Edge) :=
  (outEdges g cur).filterMap (fun e =>
    if e.src == cur then some (e.dst, e)
    else if !e.directed && e.dst == cur then some (e.src, e)
    else none)
  ++ (inEdges g cur).filterMap (fun e =>
    if e.directed then none
    else if e.dst == cur then some (e.src, e)
    else none)

/-- `DijkstraEntry::cmp` makes the max-heap pop the smallest cost, and among equal costs the LARGEST node id -/
def entryBefore (a b : Int × Nat) : Bool := a.1 < b.1 || (a.1 == b.1 && a.2 > b.2)

/-- best entry of a non-empty heap -/
def bestOf : (Int × Nat) → List (Int × Nat) → (Int × Nat)
  | b, [] => b
  | b, x :: xs => if entryBefore x b then bestOf x xs else bestOf b xs

/-- `BinaryHeap::pop`: the order is total on (cost,node), so which of several identical entries is
    removed is unobservable; the heap is kept as a plain multiset (list). -/
def popMin : List (Int × Nat) → Option ((Int × Nat) × List (Int × Nat))
  | [] => none
  | x :: xs => let b := bestOf x xs; some (b, (x :: xs).erase b)

abbrev DistMap := List (Nat × Int)

/-- `dist.get(n)`; `none` = `f64::INFINITY` -/
def lookupDist (d : DistMap) (n : Nat) : Option Int :=
  match d.find? (·.1 == n) with
  | some (_, c) => some c
  | none => none

/-- `new_cost < *dist.get(&nb).unwrap_or(&INFINITY)` -/
def improves (nc : Int) : Option Int → Bool
  | none => true
  | some c => nc < c

structure DijSt where
  dist : DistMap
  parent : ParentMap
  heap : List (Int × Nat)
deriving Repr, Inhabited

def dijRelax (cur : Nat) (cost : Int) : List (Nat × Edge) → DijSt → Except Nat DijSt
  | [], st => .ok st
  | (nb, e) :: rest, st =>
    match edgeWeight e with
    | .error id => .error id
    | .ok w =>
      let nc := cost + w
      if improves nc (lookupDist st.dist nb) then
        dijRelax cur cost rest
          { dist := (nb, nc) :: st.dist, parent := (nb, cur, e.id) :: st.parent, heap := (nc, nb) :: st.heap }
      else dijRelax cur cost rest st

/-- `cost > *dist.get(&node).unwrap_or(&INFINITY)` -/
def stale (cost : Int) : Option Int → Bool
  | none => false
  | some c => cost > c

/-- result of the main loop: `.ok (some (cost, parent))` target popped, `.ok none` heap exhausted,
    `.error eid` negative weight met -/
def dijLoop (g : Graph) (tgt : Nat) : Nat → DijSt → Except Nat (Option (Int × ParentMap))
  | 0, _ => .ok none
  | fuel + 1, st =>
    match popMin st.heap with
    | none => .ok none
    | some ((cost, u), heap') =>
      if u == tgt then .ok (some (cost, st.parent))
      else if stale cost (lookupDist st.dist u) then dijLoop g tgt fuel { st with heap := heap' }
      else match dijRelax u cost (dijCands g u) { st with heap := heap' } with
        | .error id => .error id
        | .ok st' => dijLoop g tgt fuel st'

/-- every push is one relaxation of one (expansion, candidate) pair; an entry is pushed at most once
    per strict improvement, generously bounded -/
def dijFuel (g : Graph) : Nat := (2 * g.edges.length + 2) * (2 * g.edges.length + 2) + 2

structure WPath where
  nodes : List Nat
  edges : List Nat
  total : Int
deriving Repr, DecidableEq, Inhabited

def findWeightedPath (g : Graph) (src tgt : Nat) : Except QErr WPath :=
  if !g.hasNode src then .error (.nodeNotFound src)
  else if !g.hasNode tgt then .error (.nodeNotFound tgt)
  else if src == tgt then .ok { nodes := [src], edges := [], total := 0 }
  else
    match dijLoop g tgt (dijFuel g) { dist := [(src, 0)], parent := [], heap := [(0, src)] } with
    | .error id => .error (.negativeWeight id)
    | .ok none => .error .pathNotFound
    | .ok (some (cost, p)) =>
      let r := reconstruct p src (p.length + 1) tgt [] []
      .ok { nodes := r.nodes, edges := r.edges, total := cost }

/-! ### find_all_paths (all shortest paths, level BFS with multi-parent tracking) -/

/-- `parents: HashMap<u64, Vec<(u64,u64)>>` -/
abbrev MultiParent := List (Nat × List (Nat × Nat))

def lookupLevel (m : List (Nat × Nat)) (n : Nat) : Option Nat :=
  match m.find? (·.1 == n) with
  | some (_, l) => some l
  | none => none

def lookupParents (m : MultiParent) (n : Nat) : Option (List (Nat × Nat)) :=
  match m.find? (·.1 == n) with
  | some (_, ps) => some ps
  | none => none

/-- `parents.get_mut(&n).push(..)` when shorter than `max_parents_per_node` -/
def pushParent (cap : Nat) (n : Nat) (entry : Nat × Nat) : MultiParent → MultiParent
  | [] => []
  | (k, ps) :: rest =>
    if k == n then (k, if ps.length < cap then ps ++ [entry] else ps) :: rest
    else (k, ps) :: pushParent cap n entry rest

structure APSt where
  levels : List (Nat × Nat)     -- visited_level
  parents : MultiParent
  next : List Nat               -- next_level
  found : Bool                  -- destination_level.is_some()
deriving Repr, Inhabited

/-- `find_all_paths` uses the out-list only, no filter -/
def apNbr (cur : Nat) (e : Edge) : Option Nat :=
  if e.src == cur then some e.dst
  else if !e.directed && e.dst == cur then some e.src
  else none

/-- the `for edge_id in out_list(current)` loop at BFS level `level` -/
def apScan (cap tgt cur level : Nat) : List Edge → APSt → APSt
  | [], st => st
  | e :: es, st =>
    match apNbr cur e with
    | none => apScan cap tgt cur level es st
    | some nb =>
      match lookupLevel st.levels nb with
      | none =>
        apScan cap tgt cur level es
          { levels := (nb, level) :: st.levels, parents := (nb, [(cur, e.id)]) :: st.parents,
            next := st.next ++ [nb], found := st.found || nb == tgt }
      | some l =>
        if l == level then
          apScan cap tgt cur level es { st with parents := pushParent cap nb (cur, e.id) st.parents }
        else apScan cap tgt cur level es st

/-- `while let Some(current) = current_level.pop_front()` -/
def apLevel (g : Graph) (cap tgt level : Nat) : List Nat → APSt → APSt
  | [], st => st
  | cur :: rest, st => apLevel g cap tgt level rest (apScan cap tgt cur level (outEdges g cur) st)

/-- `while !current_level.is_empty() && destination_level.is_none()`; returns (hop count, parents) -/
def apLoop (g : Graph) (cap tgt : Nat) : Nat → Nat → List Nat → APSt → Option (Nat × MultiParent)
  | 0, _, _, _ => none
  | fuel + 1, level, current, st =>
    if current.isEmpty then none
    else
      let st' := apLevel g cap tgt (level + 1) current { st with next := [] }
      if st'.found then some (level + 1, st'.parents)
      else apLoop g cap tgt fuel (level + 1) st'.next st'

/-- `enumerate_paths`: the explicit stack pops the LAST pushed parent first, so parents are explored
    in reverse list order, depth first; `d` bounds the depth (parents sit one level lower each step).
    `ns`/`es` are already in forward order. -/
def apEnum (parents : MultiParent) (src : Nat) : Nat → Nat → List Nat → List Nat → List Path
  | d, cur, ns, es =>
    if cur == src then [{ nodes := ns, edges := es }]
    else match d with
      | 0 => []
      | d + 1 =>
        match lookupParents parents cur with
        | none => []
        | some ps => ps.reverse.flatMap (fun (p, eid) => apEnum parents src d p (p :: ns) (eid :: es))

structure AllPaths where
  hops : Nat
  paths : List Path
deriving Repr, Inhabited

/-- `find_all_paths(from, to, config)`; `maxPaths`/`cap` = `AllPathsConfig` (defaults 1000 / 100) -/
def findAllPaths (g : Graph) (maxPaths cap : Nat) (src tgt : Nat) : Except QErr AllPaths :=
  if !g.hasNode src then .error (.nodeNotFound src)
  else if !g.hasNode tgt then .error (.nodeNotFound tgt)
  else if src == tgt then .ok { hops := 0, paths := [{ nodes := [src], edges := [] }] }
  else
    match apLoop g cap tgt (bfsFuel g) 0 [src] { levels := [(src, 0)], parents := [], next := [], found := false } with
    | none => .error .pathNotFound
    | some (hops, parents) => .ok { hops := hops, paths := (apEnum parents src hops tgt [tgt] []).take maxPaths }

/-! ### neighbours and traverse -/

inductive Dir | out | inc | both
deriving Repr, DecidableEq, Inhabited

def Dir.hasOut : Dir → Bool | .out => true | .both => true | .inc => false
def Dir.hasIn : Dir → Bool | .inc => true | .both => true | .out => false

def typeOk (etype : Option Nat) (e : Edge) : Bool :=
  match etype with | none => true | some t => e.etype == t

/-- `get_neighbor_ids_filtered` before the set is formed: ids inserted, in order -/
def nbrIdsRaw (g : Graph) (etype : Option Nat) (dir : Dir) (flt : Flt) (n : Nat) : List Nat :=
  (if dir.hasOut then
    (outEdges g n).flatMap (fun e =>
      if typeOk etype e && flt.edgeOk e then
        (if e.src == n then [e.dst] else []) ++ (if !e.directed && e.dst == n then [e.src] else [])
      else [])
   else [])
  ++
  (if dir.hasIn then
    (inEdges g n).flatMap (fun e =>
      if typeOk etype e && flt.edgeOk e then
        (if e.dst == n then [e.src] else []) ++ (if !e.directed && e.src == n then [e.dst] else [])
      else [])
   else [])

/-- the `HashSet` with `node_id` removed; iteration order of the engine's set is unspecified, the model
    uses first-insertion order (the results compared are order-free) -/
def nbrIds (g : Graph) (etype : Option Nat) (dir : Dir) (flt : Flt) (n : Nat) : List Nat :=
  ((nbrIdsRaw g etype dir flt n).filter (· != n)).eraseDups

/-- `for neighbor_id in neighbors { if visited.insert(neighbor_id) { queue.push_back((neighbor_id, depth+1)) } }` -/
def travPush (d : Nat) : List Nat → List (Nat × Nat) → List Nat → List (Nat × Nat) × List Nat
  | [], q, vis => (q, vis)
  | nb :: rest, q, vis =>
    if vis.contains nb then travPush d rest q vis
    else travPush d rest (q ++ [(nb, d)]) (nb :: vis)

structure TravSt where
  queue : List (Nat × Nat)
  visited : List Nat
  result : List Nat      -- newest first
deriving Repr, Inhabited

def travLoop (g : Graph) (etype : Option Nat) (dir : Dir) (flt : Flt) (start maxDepth : Nat) :
    Nat → TravSt → List Nat
  | 0, st => st.result.reverse
  | fuel + 1, st =>
    match st.queue with
    | [] => st.result.reverse
    | (cur, depth) :: rest =>
      let incl := g.hasNode cur && (cur == start || flt.nodeOk cur)
      let result' := if incl then cur :: st.result else st.result
      if depth ≥ maxDepth then
        travLoop g etype dir flt start maxDepth fuel { queue := rest, visited := st.visited, result := result' }
      else
        let (q', v') := travPush (depth + 1) (nbrIds g etype dir flt cur) rest st.visited
        travLoop g etype dir flt start maxDepth fuel { queue := q', visited := v', result := result' }

/-- `traverse`: ids of the returned nodes in visiting order; `none` = `NodeNotFound(start)` -/
def traverse (g : Graph) (start : Nat) (dir : Dir) (maxDepth : Nat) (etype : Option Nat) (flt : Flt) :
    Option (List Nat) :=
  if !g.hasNode start then none
  else some (travLoop g etype dir flt start maxDepth (bfsFuel g)
    { queue := [(start, 0)], visited := [start], result := [] })

/-! ### find_variable_paths -/

def typesOk (etypes : Option (List Nat)) (e : Edge) : Bool :=
  match etypes with | none => true | some ts => ts.contains e.etype

/-- `get_variable_path_neighbors_filtered`: (neighbour, edge id) pairs in order -/
def varNbrs (g : Graph) (etypes : Option (List Nat)) (dir : Dir) (flt : Flt) (n : Nat) : List (Nat × Nat) :=
  (if dir.hasOut then
    (outEdges g n).filterMap (fun e =>
      if !typesOk etypes e then none
      else if !flt.edgeOk e then none
      else if e.src == n then some (e.dst, e.id)
      else if !e.directed && e.dst == n then some (e.src, e.id)
      else none)
   else [])
  ++
  (if dir.hasIn then
    (inEdges g n).filterMap (fun e =>
      if !typesOk etypes e then none
      else if !flt.edgeOk e then none
      else
        let nb := if e.dst == n then some e.src else if !e.directed && e.src == n then some e.dst else none
        match nb with
        | none => none
        | some x => if dir == .both && !e.directed then none else some (x, e.id))
   else [])

structure VarCfg where
  minHops : Nat
  maxHops : Nat
  dir : Dir
  etypes : Option (List Nat)
  allowCycles : Bool

/-- `find_paths_dfs_backtrack` with `remaining = target_depth - current_depth`; `pn`/`pe` are the
    path so far in reverse.  (`max_paths` / memory truncation is not modelled: the correspondence
    only compares runs whose `stats.truncated` is false.) -/
def varDfs (g : Graph) (cfg : VarCfg) (flt : Flt) (tgt : Nat) :
    Nat → Nat → List Nat → List Nat → List Nat → List Path
  | 0, cur, pn, pe, _ => if cur == tgt then [{ nodes := pn.reverse, edges := pe.reverse }] else []
  | rem + 1, cur, pn, pe, vis =>
    (varNbrs g cfg.etypes cfg.dir flt cur).flatMap (fun (nb, eid) =>
      if !cfg.allowCycles && vis.contains nb then []
      else if nb != tgt && !flt.nodeOk nb then []
      else varDfs g cfg flt tgt rem nb (nb :: pn) (eid :: pe) (if cfg.allowCycles then vis else nb :: vis))

def findVariablePaths (g : Graph) (cfg : VarCfg) (flt : Flt) (src tgt : Nat) : Except QErr (List Path) :=
  if !g.hasNode src then .error (.nodeNotFound src)
  else if !g.hasNode tgt then .error (.nodeNotFound tgt)
  else
    let zero : List Path := if src == tgt && cfg.minHops == 0 then [{ nodes := [src], edges := [] }] else []
    if src == tgt && cfg.minHops == 0 && cfg.maxHops == 0 then .ok zero
    else
      let lo := max cfg.minHops 1
      let depths := (List.range (cfg.maxHops + 1)).filter (fun d => lo ≤ d)
      .ok (zero ++ depths.flatMap (fun d =>
        varDfs g cfg flt tgt d src [src] [] (if cfg.allowCycles then [] else [src])))

/-! ### astar_path (algorithms/astar.rs) with the default (zero) heuristic -/

/-- ids `GraphEngine::neighbors(n, None, dir, None)` inserts into its `HashSet`, in order:
    out-list (`from == n ∧ to ≠ n → to`, else `to == n ∧ from ≠ n → from`), then in-list
    (`to == n ∧ from ≠ n → from`, else `from == n ∧ to ≠ n → to`) -/
def neighborsRaw (g : Graph) (dir : Dir) (n : Nat) : List Nat :=
  (if dir.hasOut then
    (outEdges g n).filterMap (fun e =>
      if e.src == n && e.dst != n then some e.dst
      else if e.dst == n && e.src != n then some e.src
      else none)
   else [])
  ++
  (if dir.hasIn then
    (inEdges g n).filterMap (fun e =>
      if e.dst == n && e.src != n then some e.src
      else if e.src == n && e.dst != n then some e.dst
      else none)
   else [])

/-- the nodes `neighbors` returns: the set, restricted to ids for which `get_node` succeeds.
    (The engine sorts them by id; A* relaxes them in that order, the model in first-insertion
    order — the optimal cost does not depend on it.) -/
def neighborIds (g : Graph) (dir : Dir) (n : Nat) : List Nat :=
  ((neighborsRaw g dir n).eraseDups).filter (fun v => g.hasNode v)

/-- the edges `get_astar_edge_weight(u, v, ..)` looks at, in order: `node:u:out` for
    Outgoing/Both, then `node:u:in` for Incoming/Both, kept when they join the two nodes -/
def astarEdges (g : Graph) (dir : Dir) (u v : Nat) : List Edge :=
  ((if dir.hasOut then outEdges g u else []) ++ (if dir.hasIn then inEdges g u else [])).filter
    (fun e => (e.src == u && e.dst == v) || (e.dst == u && e.src == v))

/-- `if best.is_none_or(|(w, _)| weight < w) { best = Some((weight, edge_id)) }`; the weight is the
    property value or `default_weight = 1` (no negative-weight check in A*) -/
def lightest : List Edge → Option (Int × Nat) → Option (Int × Nat)
  | [], best => best
  | e :: es, none => lightest es (some (e.w, e.id))
  | e :: es, some (w, i) => if e.w < w then lightest es (some (e.w, e.id)) else lightest es (some (w, i))

/-- `best.unwrap_or((default_weight, 0))` -/
def astarEdgeWeight (g : Graph) (dir : Dir) (u v : Nat) : Int × Nat :=
  match lightest (astarEdges g dir u v) none with
  | some b => b
  | none => (1, 0)

/-- `closed_set`, `g_scores`, `open_set`; with the zero heuristic `f_score = g_score`, so a heap
    entry is (g_score, node).  `came_from` is not modelled: which of several optimal paths is
    returned depends on `HashSet`/`BinaryHeap` tie order; the model answers the cost. -/
structure AStarSt where
  closed : List Nat
  gs : DistMap
  heap : List (Int × Nat)
deriving Repr, Inhabited

/-- the `for neighbor in neighbors` loop of one expansion -/
def astarRelax (g : Graph) (dir : Dir) (cur : Nat) (cost : Int) : List Nat → AStarSt → AStarSt
  | [], st => st
  | nb :: rest, st =>
    if st.closed.contains nb then astarRelax g dir cur cost rest st
    else
      let t := cost + (astarEdgeWeight g dir cur nb).1
      if improves t (lookupDist st.gs nb) then
        astarRelax g dir cur cost rest { st with gs := (nb, t) :: st.gs, heap := (t, nb) :: st.heap }
      else astarRelax g dir cur cost rest st

inductive AStarOut
  | found (cost : Int)
  | notFound
  | outOfFuel
deriving Repr, DecidableEq, Inhabited

/-- `while let Some(current) = open_set.pop()`.  `AStarEntry::cmp` only compares `f_score`: which of
    several equal entries pops first is unspecified; the model reuses `popMin`'s rule. -/
def astarLoop (g : Graph) (dir : Dir) (tgt : Nat) : Nat → AStarSt → AStarOut
  | 0, _ => .outOfFuel
  | fuel + 1, st =>
    match popMin st.heap with
    | none => .notFound
    | some ((cost, u), heap') =>
      if st.closed.contains u then astarLoop g dir tgt fuel { st with heap := heap' }
      else if u == tgt then .found cost
      else
        astarLoop g dir tgt fuel
          (astarRelax g dir u cost (neighborIds g dir u) { st with heap := heap', closed := u :: st.closed })

/-- one pop per push; a node is expanded once and pushes at most `2·|E|` entries -/
def astarFuel (g : Graph) : Nat := (2 * g.edges.length + 1) * (2 * g.edges.length + 1) + 2

/-- `astar_path(from, to, AStarConfig::new().weight_property(w).direction(dir))`: total weight of the
    returned path, `none` = `path: None`.  (`from == to` is answered before the existence check.) -/
def astarCost (g : Graph) (dir : Dir) (src tgt : Nat) : Option Int :=
  if src == tgt then some 0
  else if !g.hasNode src || !g.hasNode tgt then none
  else
    match astarLoop g dir tgt (astarFuel g) { closed := [], gs := [(src, 0)], heap := [(0, src)] } with
    | .found c => some c
    | _ => none

end Neumann.Paths
