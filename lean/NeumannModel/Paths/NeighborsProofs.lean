import NeumannModel.Paths.TraverseProofs
import NeumannModel.Paths.AlgoSpec
/-
  C18 — the public `edges_of` and `neighbors` (observation points on the stored adjacency) against the
  declarative one-hop relation of `Spec.lean`.

  Fully proved here, for every graph / node / direction / edge type / filter:
    * `edges_of_exact`, `edges_of_none_iff`        — `edgesOf` is exactly the ids of the edges stored in
                                                     the requested list(s), without repetition
    * `neighbors_api_exact`, `neighbors_api_none_iff` — `neighborsApi` is exactly the existing nodes that
                                                     pass the node filter and are one `TStep` away
    * `neighbors_api_all`                          — without a filter it is `nbrSet`
-/
namespace Neumann.Paths

/-! ### list helpers -/

theorem nb_eraseDups_nodup_aux : ∀ (k : Nat) (l : List Nat), l.length ≤ k → l.eraseDups.Nodup := by
  intro k
  induction k with
  | zero =>
    intro l hl
    have : l = [] := List.length_eq_zero_iff.1 (by omega)
    subst this; simp
  | succ k ih =>
    intro l hl
    cases l with
    | nil => simp
    | cons a as =>
      rw [List.eraseDups_cons, List.nodup_cons]
      have h1 : (as.filter (fun b => !b == a)).length ≤ as.length := List.length_filter_le _ _
      refine ⟨?_, ih _ (by simp only [List.length_cons] at hl; omega)⟩
      rw [List.mem_eraseDups, List.mem_filter]
      simp

theorem nb_eraseDups_nodup (l : List Nat) : l.eraseDups.Nodup :=
  nb_eraseDups_nodup_aux _ l (Nat.le_refl _)

theorem nb_nodup_filter {α : Type} (p : α → Bool) {l : List α} (h : l.Nodup) : (l.filter p).Nodup :=
  List.Nodup.sublist List.filter_sublist h

/-! ### the stored lists -/

theorem nb_inOut_iff (e : Edge) (n : Nat) :
    inOut e n = true ↔ (e.src = n ∨ (e.directed = false ∧ e.dst = n)) := by
  unfold inOut
  simp only [Bool.or_eq_true, beq_iff_eq, Bool.and_eq_true, Bool.not_eq_true']

theorem nb_inIn_iff (e : Edge) (n : Nat) :
    inIn e n = true ↔ (e.dst = n ∨ (e.directed = false ∧ e.src = n)) := by
  unfold inIn
  simp only [Bool.or_eq_true, beq_iff_eq, Bool.and_eq_true, Bool.not_eq_true']

theorem nb_mem_outEdges (g : Graph) (n : Nat) (e : Edge) :
    e ∈ outEdges g n ↔ e ∈ g.edges ∧ (e.src = n ∨ (e.directed = false ∧ e.dst = n)) := by
  unfold outEdges
  rw [List.mem_filter, nb_inOut_iff]

theorem nb_mem_inEdges (g : Graph) (n : Nat) (e : Edge) :
    e ∈ inEdges g n ↔ e ∈ g.edges ∧ (e.dst = n ∨ (e.directed = false ∧ e.src = n)) := by
  unfold inEdges
  rw [List.mem_filter, nb_inIn_iff]

/-! ### edges_of -/

theorem edges_of_none_iff (g : Graph) (dir : Dir) (n : Nat) : edgesOf g dir n = none ↔ g.hasNode n = false := by
  unfold edgesOf
  cases h : g.hasNode n <;> simp

theorem edges_of_exact (g : Graph) (dir : Dir) (n : Nat) (r : List Nat) (h : edgesOf g dir n = some r) :
    r.Nodup ∧ ∀ i, i ∈ r ↔ ∃ e, e ∈ g.edges ∧ e.id = i ∧
      ((dir.hasOut = true ∧ (e.src = n ∨ (e.directed = false ∧ e.dst = n))) ∨
       (dir.hasIn = true ∧ (e.dst = n ∨ (e.directed = false ∧ e.src = n)))) := by
  unfold edgesOf at h
  split at h
  · exact absurd h (by simp)
  · simp only [Option.some.injEq] at h
    subst h
    refine ⟨nb_eraseDups_nodup _, ?_⟩
    intro i
    rw [List.mem_eraseDups, List.mem_map]
    constructor
    · rintro ⟨e, he, hi⟩
      rw [List.mem_append] at he
      rcases he with he | he
      · split at he
        · rename_i hd
          rw [nb_mem_outEdges] at he
          exact ⟨e, he.1, hi, Or.inl ⟨hd, he.2⟩⟩
        · simp at he
      · split at he
        · rename_i hd
          rw [nb_mem_inEdges] at he
          exact ⟨e, he.1, hi, Or.inr ⟨hd, he.2⟩⟩
        · simp at he
    · rintro ⟨e, he, hi, hc⟩
      refine ⟨e, ?_, hi⟩
      rw [List.mem_append]
      rcases hc with ⟨hd, hc⟩ | ⟨hd, hc⟩
      · left
        rw [if_pos hd, nb_mem_outEdges]
        exact ⟨he, hc⟩
      · right
        rw [if_pos hd, nb_mem_inEdges]
        exact ⟨he, hc⟩

/-! ### neighbors: the per-edge rules -/

/-- the out-list rule of `neighbors` -/
def nbOutRule (etype : Option Nat) (flt : Flt) (n : Nat) (e : Edge) : Option Nat :=
  if !typeOk etype e then none
  else if !flt.edgeOk e then none
  else if e.src == n && e.dst != n then some e.dst
  else if e.dst == n && e.src != n then some e.src
  else none

/-- the in-list rule of `neighbors` -/
def nbInRule (etype : Option Nat) (flt : Flt) (n : Nat) (e : Edge) : Option Nat :=
  if !typeOk etype e then none
  else if !flt.edgeOk e then none
  else if e.dst == n && e.src != n then some e.src
  else if e.src == n && e.dst != n then some e.dst
  else none

theorem neighborsRawF_eq (g : Graph) (etype : Option Nat) (dir : Dir) (flt : Flt) (n : Nat) :
    neighborsRawF g etype dir flt n =
      (if dir.hasOut then (outEdges g n).filterMap (nbOutRule etype flt n) else []) ++
      (if dir.hasIn then (inEdges g n).filterMap (nbInRule etype flt n) else []) := rfl

/-- on an edge of `node:n:out` the rule yields exactly the `v ≠ n` the edge joins `n` to -/
theorem nbOutRule_iff (etype : Option Nat) (flt : Flt) (n v : Nat) (e : Edge)
    (hs : e.src = n ∨ (e.directed = false ∧ e.dst = n)) :
    nbOutRule etype flt n e = some v ↔
      (typeOk etype e = true ∧ flt.edgeOk e = true ∧ v ≠ n ∧ e.joins n v) := by
  unfold nbOutRule Edge.joins
  cases ht : typeOk etype e <;> cases hf : flt.edgeOk e <;>
    simp only [Bool.not_true, Bool.not_false, Bool.false_eq_true, if_true, if_false, reduceCtorEq,
      false_and, and_false, true_and, Bool.and_eq_true, beq_iff_eq, bne_iff_ne, ne_eq]
  by_cases h1 : e.src = n
  · by_cases h2 : e.dst = n
    · rw [if_neg (by intro h; exact h.2 h2), if_neg (by intro h; exact h.2 h1)]
      constructor
      · intro h; exact absurd h (by simp)
      · rintro ⟨hne, ⟨_, h⟩ | ⟨_, _, h⟩⟩
        · exact absurd (h.symm.trans h2) hne
        · exact absurd (h.symm.trans h1) hne
    · rw [if_pos ⟨h1, h2⟩]
      simp only [Option.some.injEq]
      constructor
      · intro h; subst h; exact ⟨h2, Or.inl ⟨h1, rfl⟩⟩
      · rintro ⟨_, ⟨_, h⟩ | ⟨_, h, _⟩⟩
        · exact h
        · exact absurd h h2
  · rcases hs with hs | ⟨hu, h2⟩
    · exact absurd hs h1
    · rw [if_neg (by intro h; exact h1 h.1), if_pos ⟨h2, h1⟩]
      simp only [Option.some.injEq]
      constructor
      · intro h; subst h; exact ⟨h1, Or.inr ⟨hu, h2, rfl⟩⟩
      · rintro ⟨_, ⟨h, _⟩ | ⟨_, _, h⟩⟩
        · exact absurd h h1
        · exact h

/-- on an edge of `node:n:in` the rule yields exactly the `v ≠ n` the edge joins to `n` -/
theorem nbInRule_iff (etype : Option Nat) (flt : Flt) (n v : Nat) (e : Edge)
    (hs : e.dst = n ∨ (e.directed = false ∧ e.src = n)) :
    nbInRule etype flt n e = some v ↔
      (typeOk etype e = true ∧ flt.edgeOk e = true ∧ v ≠ n ∧ e.joins v n) := by
  unfold nbInRule Edge.joins
  cases ht : typeOk etype e <;> cases hf : flt.edgeOk e <;>
    simp only [Bool.not_true, Bool.not_false, Bool.false_eq_true, if_true, if_false, reduceCtorEq,
      false_and, and_false, true_and, Bool.and_eq_true, beq_iff_eq, bne_iff_ne, ne_eq]
  by_cases h2 : e.dst = n
  · by_cases h1 : e.src = n
    · rw [if_neg (by intro h; exact h.2 h1), if_neg (by intro h; exact h.2 h2)]
      constructor
      · intro h; exact absurd h (by simp)
      · rintro ⟨hne, ⟨h, _⟩ | ⟨_, h, _⟩⟩
        · exact absurd (h.symm.trans h1) hne
        · exact absurd (h.symm.trans h2) hne
    · rw [if_pos ⟨h2, h1⟩]
      simp only [Option.some.injEq]
      constructor
      · intro h; subst h; exact ⟨h1, Or.inl ⟨rfl, h2⟩⟩
      · rintro ⟨_, ⟨h, _⟩ | ⟨_, _, h⟩⟩
        · exact h
        · exact absurd h h1
  · rcases hs with hs | ⟨hu, h1⟩
    · exact absurd hs h2
    · rw [if_neg (by intro h; exact h2 h.1), if_pos ⟨h1, h2⟩]
      simp only [Option.some.injEq]
      constructor
      · intro h; subst h; exact ⟨h2, Or.inr ⟨hu, rfl, h1⟩⟩
      · rintro ⟨_, ⟨_, h⟩ | ⟨_, h, _⟩⟩
        · exact absurd h h2
        · exact h

theorem nb_joins_out {e : Edge} {n v : Nat} (h : e.joins n v) :
    e.src = n ∨ (e.directed = false ∧ e.dst = n) := by
  rcases h with ⟨h, _⟩ | ⟨hu, h, _⟩
  · exact Or.inl h
  · exact Or.inr ⟨hu, h⟩

theorem nb_joins_in {e : Edge} {n v : Nat} (h : e.joins v n) :
    e.dst = n ∨ (e.directed = false ∧ e.src = n) := by
  rcases h with ⟨_, h⟩ | ⟨hu, _, h⟩
  · exact Or.inl h
  · exact Or.inr ⟨hu, h⟩

/-- the ids inserted into the set are exactly the `TStep` neighbours -/
theorem mem_neighborsRawF_iff (g : Graph) (etype : Option Nat) (dir : Dir) (flt : Flt) (n v : Nat) :
    v ∈ neighborsRawF g etype dir flt n ↔ TStep g etype dir flt n v := by
  rw [neighborsRawF_eq, List.mem_append]
  unfold TStep
  constructor
  · rintro (h | h)
    · split at h
      · rename_i hd
        rw [List.mem_filterMap] at h
        obtain ⟨e, he, hv⟩ := h
        rw [nb_mem_outEdges] at he
        rw [nbOutRule_iff etype flt n v e he.2] at hv
        exact ⟨hv.2.2.1, e, he.1, hv.1, hv.2.1, Or.inl ⟨hd, hv.2.2.2⟩⟩
      · simp at h
    · split at h
      · rename_i hd
        rw [List.mem_filterMap] at h
        obtain ⟨e, he, hv⟩ := h
        rw [nb_mem_inEdges] at he
        rw [nbInRule_iff etype flt n v e he.2] at hv
        exact ⟨hv.2.2.1, e, he.1, hv.1, hv.2.1, Or.inr ⟨hd, hv.2.2.2⟩⟩
      · simp at h
  · rintro ⟨hne, e, he, ht, hf, ⟨hd, hj⟩ | ⟨hd, hj⟩⟩
    · left
      rw [if_pos hd, List.mem_filterMap]
      refine ⟨e, (nb_mem_outEdges g n e).2 ⟨he, nb_joins_out hj⟩, ?_⟩
      exact (nbOutRule_iff etype flt n v e (nb_joins_out hj)).2 ⟨ht, hf, hne, hj⟩
    · right
      rw [if_pos hd, List.mem_filterMap]
      refine ⟨e, (nb_mem_inEdges g n e).2 ⟨he, nb_joins_in hj⟩, ?_⟩
      exact (nbInRule_iff etype flt n v e (nb_joins_in hj)).2 ⟨ht, hf, hne, hj⟩

/-! ### neighbors -/

theorem neighbors_api_none_iff (g : Graph) (etype : Option Nat) (dir : Dir) (flt : Flt) (n : Nat) :
    neighborsApi g etype dir flt n = none ↔ g.hasNode n = false := by
  unfold neighborsApi
  cases h : g.hasNode n <;> simp

theorem neighbors_api_exact (g : Graph) (etype : Option Nat) (dir : Dir) (flt : Flt) (n : Nat) (r : List Nat)
    (h : neighborsApi g etype dir flt n = some r) :
    r.Nodup ∧ ∀ v, v ∈ r ↔ (g.hasNode v = true ∧ flt.nodeOk v = true ∧ TStep g etype dir flt n v) := by
  unfold neighborsApi at h
  split at h
  · exact absurd h (by simp)
  · simp only [Option.some.injEq] at h
    subst h
    refine ⟨nb_nodup_filter _ (nb_eraseDups_nodup _), ?_⟩
    intro v
    rw [List.mem_filter, List.mem_eraseDups, mem_neighborsRawF_iff]
    simp only [Bool.and_eq_true]
    constructor
    · rintro ⟨hs, hn, hf⟩
      exact ⟨hn, hf, hs⟩
    · rintro ⟨hn, hf, hs⟩
      exact ⟨hs, hn, hf⟩

theorem neighborsRawF_all (g : Graph) (etype : Option Nat) (dir : Dir) (n : Nat) :
    neighborsRawF g etype dir Flt.all n = neighborsRawT g etype dir n := by
  unfold neighborsRawF neighborsRawT Flt.all
  simp only [Bool.not_true, Bool.false_eq_true, if_false]

theorem neighbors_api_all (g : Graph) (etype : Option Nat) (dir : Dir) (n : Nat) (hn : g.hasNode n = true) :
    neighborsApi g etype dir Flt.all n = some (nbrSet g etype dir n) := by
  unfold neighborsApi nbrSet
  rw [neighborsRawF_all]
  simp only [hn, Bool.not_true, Bool.false_eq_true, if_false, Flt.all, Bool.and_true]

/-! ### closed examples: a directed edge 1→2, an undirected edge 2—3, a self-loop on 2 -/

def nbExampleGraph : Graph :=
  { nodes := [⟨1, none⟩, ⟨2, none⟩, ⟨3, none⟩],
    edges := [ ⟨10, 1, 2, true, 0, none, none⟩,
               ⟨11, 2, 3, false, 0, none, none⟩,
               ⟨12, 2, 2, true, 0, none, none⟩ ] }

example : neighborsApi nbExampleGraph none .out Flt.all 2 = some [3] := by decide
example : neighborsApi nbExampleGraph none .inc Flt.all 2 = some [1, 3] := by decide
example : neighborsApi nbExampleGraph none .both Flt.all 2 = some [3, 1] := by decide
example : edgesOf nbExampleGraph .out 2 = some [11, 12] := by decide
example : edgesOf nbExampleGraph .inc 2 = some [10, 11, 12] := by decide
example : edgesOf nbExampleGraph .both 2 = some [11, 12, 10] := by decide
example : neighborsApi nbExampleGraph none .both Flt.all 4 = none := by decide

end Neumann.Paths
