import NeumannModel.Paths.Model
/-
  C18 — model of `find_all_weighted_paths` and of the algorithm family of `graph_engine`
  (import-free, total, computable).

  Anchors:
    lib.rs  find_all_weighted_paths + enumerate_weighted_paths → `awRelax`, `awLoop`, `awEnum`, `findAllWeightedPaths`
    lib.rs  UnionFind (also algorithms/mst.rs UnionFind)        → `UF`, `ufFind`, `ufUnion`
    lib.rs  connected_components                                → `connectedComponents`
    algorithms/mst.rs  minimum_spanning_tree (Kruskal)          → `sortByW`, `kruskal`, `minimumSpanningTree`
    lib.rs  neighbors(n, edge_type, dir, None)                  → `nbrSet`
    algorithms/kcore.rs  kcore_decomposition (peeling)          → `kDec`, `kLoop`, `kcore`
    algorithms/triangles.rs  count_triangles (forward)          → `triEdge`, `triangles`

  `HashMap`s are association lists, newest binding first (`insert` = cons, `get` = first match);
  `HashSet` iteration orders are abstracted to first-insertion order (every result compared is
  independent of it: the theorems of `Props.lean` hold for the model's order and the differential run
  compares canonicalised answers).
-/
namespace Neumann.Paths

/-! ### find_all_weighted_paths -/

/-- `dist`, `parents`, `heap`, `destination_cost` -/
structure AWSt where
  dist : DistMap
  parents : MultiParent
  heap : List (Int × Nat)
  dc : Option Int
deriving Repr, Inhabited

/-- `(new_cost - current_dist).abs() < EPSILON` on integer costs (`INFINITY` is never within EPSILON) -/
def sameCost (nc : Int) : Option Int → Bool
  | none => false
  | some c => nc == c

/-- the two `for` loops of one expansion (same candidates, same order as `find_weighted_path`):
    strictly better ⇒ `dist.insert`, `parents.insert(nb, vec![(cur, eid)])`, push, and
    `destination_cost = Some(new_cost)` when the neighbour is the target;
    equal ⇒ `parents.get_mut(nb).push(..)` below `max_parents_per_node`.
    (On integer costs `a < b - 1e-10` is `a < b` and `|a - b| < 1e-10` is `a = b`.) -/
def awRelax (cap tgt cur : Nat) (cost : Int) : List (Nat × Edge) → AWSt → Except Nat AWSt
  | [], st => .ok st
  | (nb, e) :: rest, st =>
    match edgeWeight e with
    | .error id => .error id
    | .ok w =>
      let nc := cost + w
      if improves nc (lookupDist st.dist nb) then
        awRelax cap tgt cur cost rest
          { dist := (nb, nc) :: st.dist, parents := (nb, [(cur, e.id)]) :: st.parents,
            heap := (nc, nb) :: st.heap, dc := if nb == tgt then some nc else st.dc }
      else if sameCost nc (lookupDist st.dist nb) then
        awRelax cap tgt cur cost rest { st with parents := pushParent cap nb (cur, e.id) st.parents }
      else awRelax cap tgt cur cost rest st

/-- `if let Some(dc) = destination_cost { if cost > dc + EPSILON { break } }` -/
def pastDest (cost : Int) : Option Int → Bool
  | none => false
  | some dc => cost > dc

/-- `while let Some(entry) = heap.pop()`; the target is expanded like every other node -/
def awLoop (g : Graph) (cap tgt : Nat) : Nat → AWSt → Except Nat AWSt
  | 0, st => .ok st
  | fuel + 1, st =>
    match popMin st.heap with
    | none => .ok st
    | some ((cost, u), heap') =>
      if pastDest cost st.dc then .ok st
      else if stale cost (lookupDist st.dist u) then awLoop g cap tgt fuel { st with heap := heap' }
      else match awRelax cap tgt u cost (dijCands g u) { st with heap := heap' } with
        | .error id => .error id
        | .ok st' => awLoop g cap tgt fuel st'

/-- `enumerate_weighted_paths`: like `apEnum` (last pushed parent first, depth first) but a parent
    already on the partial path is skipped (`nodes.contains(parent)`): only simple paths.
    `ns`/`es` are in forward order. -/
def awEnum (parents : MultiParent) (src : Nat) : Nat → Nat → List Nat → List Nat → List Path
  | d, cur, ns, es =>
    if cur == src then [{ nodes := ns, edges := es }]
    else match d with
      | 0 => []
      | d + 1 =>
        match lookupParents parents cur with
        | none => []
        | some ps => ps.reverse.flatMap (fun (p, eid) =>
            if ns.contains p then [] else awEnum parents src d p (p :: ns) (eid :: es))

structure AllWPaths where
  total : Int
  paths : List Path
deriving Repr, Inhabited

/-- a simple path has at most one node per edge endpoint -/
def awDepth (g : Graph) : Nat := 2 * g.edges.length + 2

/-- `find_all_weighted_paths(from, to, weight, config)`; `maxPaths`/`cap` = `AllPathsConfig` -/
def findAllWeightedPaths (g : Graph) (maxPaths cap : Nat) (src tgt : Nat) : Except QErr AllWPaths :=
  if !g.hasNode src then .error (.nodeNotFound src)
  else if !g.hasNode tgt then .error (.nodeNotFound tgt)
  else if src == tgt then .ok { total := 0, paths := [{ nodes := [src], edges := [] }] }
  else
    match awLoop g cap tgt (dijFuel g) { dist := [(src, 0)], parents := [], heap := [(0, src)], dc := none } with
    | .error id => .error (.negativeWeight id)
    | .ok st =>
      match st.dc with
      | none => .error .pathNotFound
      | some total =>
        .ok { total := total, paths := (awEnum st.parents src (awDepth g) tgt [tgt] []).take maxPaths }

/-! ### UnionFind (lib.rs and algorithms/mst.rs: identical apart from `union`'s return value) -/

abbrev NatMap := List (Nat × Nat)

def nmGet (m : NatMap) (k : Nat) : Option Nat :=
  match m.find? (·.1 == k) with
  | some (_, v) => some v
  | none => none

structure UF where
  parent : NatMap
  rank : NatMap
deriving Repr, Inhabited

/-- `UnionFind::new(nodes)` -/
def UF.new (nodes : List Nat) : UF :=
  { parent := nodes.map (fun n => (n, n)), rank := nodes.map (fun n => (n, 0)) }

/-- `self.parent[&x]`; the engine panics on a missing key — it never meets one (edge endpoints
    exist); the model answers `x` (a singleton root) to stay total -/
def UF.parentOf (uf : UF) (x : Nat) : Nat := (nmGet uf.parent x).getD x

def UF.rankOf (uf : UF) (x : Nat) : Nat := (nmGet uf.rank x).getD 0

/-- `find` with path compression (`self.parent.insert(x, root)` after the recursive call);
    fuel bounds the recursion depth (see `ufFuel`) -/
def ufFind : Nat → UF → Nat → Nat × UF
  | 0, uf, x => (x, uf)
  | fuel + 1, uf, x =>
    let p := uf.parentOf x
    if p == x then (x, uf)
    else
      let r := ufFind fuel uf p
      (r.1, { r.2 with parent := (x, r.1) :: r.2.parent })

/-- `union`: by rank, ties attach `ry` under `rx` and bump `rx`; answers whether the sets were distinct -/
def ufUnion (fuel : Nat) (uf : UF) (x y : Nat) : UF × Bool :=
  let fx := ufFind fuel uf x
  let fy := ufFind fuel fx.2 y
  let rx := fx.1
  let ry := fy.1
  let uf2 := fy.2
  if rx == ry then (uf2, false)
  else
    let kx := uf2.rankOf rx
    let ky := uf2.rankOf ry
    if kx < ky then ({ uf2 with parent := (rx, ry) :: uf2.parent }, true)
    else if kx > ky then ({ uf2 with parent := (ry, rx) :: uf2.parent }, true)
    else ({ parent := (ry, rx) :: uf2.parent, rank := (rx, kx + 1) :: uf2.rank }, true)

/-- a rank grows by at most one per union and strictly along parent links, so a parent chain is
    never longer than the number of unions performed -/
def ufFuel (g : Graph) : Nat := g.edges.length + 2

/-- `for &node in &nodes { let root = uf.find(node); … }` (compression carried along) -/
def ufLabels (fuel : Nat) : List Nat → UF → List (Nat × Nat)
  | [], _ => []
  | n :: ns, uf => let r := ufFind fuel uf n; (n, r.1) :: ufLabels fuel ns r.2

/-- the unions of `connected_components`: every edge of the requested type, in id order -/
def ccUnions (fuel : Nat) (etype : Option Nat) : List Edge → UF → UF
  | [], uf => uf
  | e :: es, uf =>
    if typeOk etype e then ccUnions fuel etype es (ufUnion fuel uf e.src e.dst).1
    else ccUnions fuel etype es uf

/-- `connected_components(config)`: the `communities` map (node ↦ root of its set), in node order.
    Direction is ignored (`uf.union(edge.from, edge.to)` for every edge). -/
def connectedComponents (g : Graph) (etype : Option Nat) : List (Nat × Nat) :=
  let nodes := g.nodes.map (·.id)
  ufLabels (ufFuel g) nodes (ccUnions (ufFuel g) etype g.edges (UF.new nodes))

/-! ### minimum_spanning_tree (Kruskal) -/

/-- stable insertion by weight: `e` goes before the first element that is not lighter -/
def insertW (e : Edge) : List Edge → List Edge
  | [] => [e]
  | x :: xs => if e.w ≤ x.w then e :: x :: xs else x :: insertW e xs

/-- `weighted_edges.sort_by(weight)` (stable).  The weight is the property or `default_weight = 1`;
    negative weights are legal here. -/
def sortByW (es : List Edge) : List Edge := es.foldr insertW []

/-- the Kruskal loop; `acc` holds the accepted edges, newest first; `!compute_forest` stops after
    `nodes.len() - 1` accepted edges -/
def kruskal (fuel : Nat) (forest : Bool) (n : Nat) : List Edge → UF → List Edge → UF × List Edge
  | [], uf, acc => (uf, acc)
  | e :: es, uf, acc =>
    let r := ufUnion fuel uf e.src e.dst
    if r.2 then
      if !forest && (e :: acc).length == n - 1 then (r.1, e :: acc)
      else kruskal fuel forest n es r.1 (e :: acc)
    else kruskal fuel forest n es r.1 acc

structure MstRes where
  edges : List Edge      -- accepted edges in acceptance order
  total : Int
  trees : Nat
deriving Repr, Inhabited

def sumW (es : List Edge) : Int := (es.map Edge.w).foldl (· + ·) 0

/-- `minimum_spanning_tree(config)` run on the edges in scan order `order` (the engine scans a hash
    map: the order is unspecified; `g.edges` is one such order).  `none` = `MstResult::empty()`. -/
def mstOf (g : Graph) (forest : Bool) (order : List Edge) : Option MstRes :=
  let nodes := g.nodes.map (·.id)
  if nodes.isEmpty then none
  else
    let r := kruskal (ufFuel g) forest nodes.length (sortByW order) (UF.new nodes) []
    let roots := (ufLabels (ufFuel g) nodes r.1).map (·.2)
    some { edges := r.2.reverse, total := sumW r.2.reverse, trees := roots.eraseDups.length }

def minimumSpanningTree (g : Graph) (forest : Bool) : Option MstRes := mstOf g forest g.edges

/-! ### neighbors(n, edge_type, direction, None) as a set of ids -/

/-- `neighborsRaw` with the `edge_type` test -/
def neighborsRawT (g : Graph) (etype : Option Nat) (dir : Dir) (n : Nat) : List Nat :=
  (if dir.hasOut then
    (outEdges g n).filterMap (fun e =>
      if !typeOk etype e then none
      else if e.src == n && e.dst != n then some e.dst
      else if e.dst == n && e.src != n then some e.src
      else none)
   else [])
  ++
  (if dir.hasIn then
    (inEdges g n).filterMap (fun e =>
      if !typeOk etype e then none
      else if e.dst == n && e.src != n then some e.src
      else if e.src == n && e.dst != n then some e.dst
      else none)
   else [])

/-- ids of the nodes `neighbors` returns (the set, restricted to ids for which `get_node` succeeds) -/
def nbrSet (g : Graph) (etype : Option Nat) (dir : Dir) (n : Nat) : List Nat :=
  ((neighborsRawT g etype dir n).eraseDups).filter (fun v => g.hasNode v)

/-! ### kcore_decomposition (peeling with a lazy min-heap) -/

/-- `Reverse((degree, node))`: smallest degree first, then smallest id -/
def pairBefore (a b : Nat × Nat) : Bool := a.1 < b.1 || (a.1 == b.1 && a.2 < b.2)

def bestPair : (Nat × Nat) → List (Nat × Nat) → (Nat × Nat)
  | b, [] => b
  | b, x :: xs => if pairBefore x b then bestPair x xs else bestPair b xs

def popMinPair : List (Nat × Nat) → Option ((Nat × Nat) × List (Nat × Nat))
  | [] => none
  | x :: xs => let b := bestPair x xs; some (b, (x :: xs).erase b)

/-- `for &neighbor in neighbors { if !processed.contains(neighbor) { if *deg > 0 { *deg -= 1; push } } }` -/
def kDec (processed : List Nat) : List Nat → NatMap → List (Nat × Nat) → NatMap × List (Nat × Nat)
  | [], d, h => (d, h)
  | nb :: rest, d, h =>
    if processed.contains nb then kDec processed rest d h
    else match nmGet d nb with
      | none => kDec processed rest d h
      | some dg =>
        if dg > 0 then kDec processed rest ((nb, dg - 1) :: d) ((dg - 1, nb) :: h)
        else kDec processed rest d h

structure KSt where
  degrees : NatMap
  heap : List (Nat × Nat)
  processed : List Nat
  core : List (Nat × Nat)     -- (node, core number), newest first
  cur : Nat                   -- current_core
deriving Repr, Inhabited

/-- `while let Some(Reverse((_deg, node))) = pq.pop()` -/
def kLoop (adj : Nat → List Nat) : Nat → KSt → KSt
  | 0, st => st
  | fuel + 1, st =>
    match popMinPair st.heap with
    | none => st
    | some ((_, node), heap') =>
      if st.processed.contains node then kLoop adj fuel { st with heap := heap' }
      else
        let actual := (nmGet st.degrees node).getD 0
        let cur := max st.cur actual
        let processed := node :: st.processed
        let r := kDec processed (adj node) st.degrees heap'
        kLoop adj fuel { degrees := r.1, heap := r.2, processed := processed,
                         core := (node, cur) :: st.core, cur := cur }

/-- `kcore_decomposition(config)`: `core_numbers`, newest first.  The degree is always the undirected
    one (`Direction::Both`), whatever `config.undirected` says.
    Fuel: one pop per initial heap entry plus one per decrement, and a node's degree is decremented at
    most as often as its initial value. -/
def kcore (g : Graph) (etype : Option Nat) : List (Nat × Nat) :=
  let nodes := g.nodes.map (·.id)
  let adj := fun n => nbrSet g etype .both n
  let degrees : NatMap := nodes.map (fun n => (n, (adj n).length))
  (kLoop adj (degrees.length + (degrees.map (·.2)).sum + 2)
    { degrees := degrees, heap := degrees.map (fun p => (p.2, p.1)), processed := [], core := [], cur := 0 }).core

/-! ### count_triangles (forward algorithm over the (degree, id) order) -/

structure TriSt where
  counted : List (Nat × Nat)          -- counted_edges
  found : List (Nat × Nat × Nat)      -- one entry per `triangle_count += 1`, newest first
deriving Repr, Inhabited

/-- `(a_deg, a) < (b_deg, b)` on tuples -/
def rankLt (deg : Nat → Nat) (a b : Nat) : Bool := deg a < deg b || (deg a == deg b && a < b)

/-- the body of `for &v in u_neighbors` -/
def triEdge (adj : Nat → List Nat) (deg : Nat → Nat) (u v : Nat) (st : TriSt) : TriSt :=
  let key := if u < v then (u, v) else (v, u)
  if st.counted.contains key then st
  else if deg u > deg v || (deg u == deg v && u > v) then st
  else
    let ws := (adj u).filter (fun w => rankLt deg v w && (adj v).contains w)
    { counted := key :: st.counted, found := (ws.map (fun w => (u, v, w))).reverse ++ st.found }

def triNode (adj : Nat → List Nat) (deg : Nat → Nat) (u : Nat) (st : TriSt) : TriSt :=
  (adj u).foldl (fun st v => triEdge adj deg u v st) st

/-- the triangles found, in discovery order -/
def triFound (g : Graph) (etype : Option Nat) (undirected : Bool) : List (Nat × Nat × Nat) :=
  let dir := if undirected then Dir.both else Dir.out
  let adj := fun n => nbrSet g etype dir n
  let deg := fun n => (adj n).length
  ((g.nodes.map (·.id)).foldl (fun st u => triNode adj deg u st) { counted := [], found := [] }).found.reverse

/-- `triangle_count` -/
def triangleCount (g : Graph) (etype : Option Nat) (undirected : Bool) : Nat :=
  (triFound g etype undirected).length

/-- number of found triangles that have `x` as a corner -/
def cornerCount (found : List (Nat × Nat × Nat)) (x : Nat) : Nat :=
  (found.filter (fun t => t.1 == x || t.2.1 == x || t.2.2 == x)).length

/-- `node_triangles[x]`: one increment per found triangle that has `x` as a corner -/
def nodeTriangles (g : Graph) (etype : Option Nat) (undirected : Bool) (x : Nat) : Nat :=
  cornerCount (triFound g etype undirected) x

/-! ### the public `edges_of` and `neighbors` (observation points on the stored adjacency itself) -/

/-- `edges_of(n, direction)`: ids in `node:n:out` and/or `node:n:in` as a set; `none` = `NodeNotFound` -/
def edgesOf (g : Graph) (dir : Dir) (n : Nat) : Option (List Nat) :=
  if !g.hasNode n then none
  else some ((((if dir.hasOut then outEdges g n else []) ++ (if dir.hasIn then inEdges g n else [])).map (·.id)).eraseDups)

/-- ids `neighbors(n, edge_type, dir, filter)` inserts into its set: `neighborsRawT` with the edge
    filter applied after the type test -/
def neighborsRawF (g : Graph) (etype : Option Nat) (dir : Dir) (flt : Flt) (n : Nat) : List Nat :=
  (if dir.hasOut then
    (outEdges g n).filterMap (fun e =>
      if !typeOk etype e then none
      else if !flt.edgeOk e then none
      else if e.src == n && e.dst != n then some e.dst
      else if e.dst == n && e.src != n then some e.src
      else none)
   else [])
  ++
  (if dir.hasIn then
    (inEdges g n).filterMap (fun e =>
      if !typeOk etype e then none
      else if !flt.edgeOk e then none
      else if e.dst == n && e.src != n then some e.src
      else if e.src == n && e.dst != n then some e.dst
      else none)
   else [])

/-- `neighbors(n, edge_type, dir, filter)`: ids of the returned nodes (the set, restricted to ids for
    which `get_node` succeeds and whose node passes the node filter); `none` = `NodeNotFound` -/
def neighborsApi (g : Graph) (etype : Option Nat) (dir : Dir) (flt : Flt) (n : Nat) : Option (List Nat) :=
  if !g.hasNode n then none
  else some (((neighborsRawF g etype dir flt n).eraseDups).filter (fun v => g.hasNode v && flt.nodeOk v))

/-! ### astar_path under `AStarConfig { edge_type, weight_property: None }` -/

/-- the graph `astar_path` searches under a config: `neighbors(.., edge_type, ..)` and
    `get_astar_edge_weight(.., edge_type, ..)` both skip edges of another type, and without a
    `weight_property` every edge weighs `default_weight = 1` -/
def astarView (g : Graph) (etype : Option Nat) (weighted : Bool) : Graph :=
  { g with edges := (g.edges.filter (typeOk etype)).map (fun e => if weighted then e else { e with weight := none }) }

/-- `astar_path(from, to, AStarConfig::new().edge_type(t)?.weight_property(w)?.direction(dir))` -/
def astarCostCfg (g : Graph) (etype : Option Nat) (weighted : Bool) (dir : Dir) (src tgt : Nat) : Option Int :=
  astarCost (astarView g etype weighted) dir src tgt

/-! ### strongly_connected_components (recursive Tarjan, algorithms/scc.rs) -/

/-- `TarjanState`; `on_stack[w]` is true exactly while `w` is in `stack` (set at the push, cleared at
    the pop), so the model tests membership in `stack` -/
structure TjSt where
  index : Nat
  indices : NatMap
  low : NatMap
  stack : List Nat              -- top first
  comps : List (List Nat)       -- newest first
deriving Repr, Inhabited

/-- the `loop { w = stack.pop(); component.push(w); if w == v { break } }` of a root:
    (component in pop order, remaining stack) -/
def tjPop (v : Nat) : List Nat → List Nat → List Nat × List Nat
  | [], comp => (comp.reverse, [])
  | w :: rest, comp => if w == v then ((w :: comp).reverse, rest) else tjPop v rest (w :: comp)

mutual
/-- `tarjan_strongconnect(v)`; the fuel bounds the recursion depth (a DFS path has no repeated node) -/
def tjVisit (g : Graph) (etype : Option Nat) : Nat → Nat → TjSt → TjSt
  | 0, _, st => st
  | fuel + 1, v, st =>
    let st1 : TjSt := { st with indices := (v, st.index) :: st.indices, low := (v, st.index) :: st.low,
                                index := st.index + 1, stack := v :: st.stack }
    let st2 := tjNbrs g etype fuel v (nbrSet g etype .out v) st1
    if nmGet st2.low v == nmGet st2.indices v then
      let r := tjPop v st2.stack []
      { st2 with stack := r.2, comps := r.1 :: st2.comps }
    else st2
termination_by fuel _ _ => (fuel, 0)
/-- `for neighbor in neighbors(v, edge_type, Outgoing)` -/
def tjNbrs (g : Graph) (etype : Option Nat) : Nat → Nat → List Nat → TjSt → TjSt
  | _, _, [], st => st
  | fuel, v, w :: ws, st =>
    match nmGet st.indices w with
    | none =>
      let st' := tjVisit g etype fuel w st
      let lowV := (nmGet st'.low v).getD 0
      let lowW := (nmGet st'.low w).getD 0
      tjNbrs g etype fuel v ws { st' with low := (v, min lowV lowW) :: st'.low }
    | some idxW =>
      if st.stack.contains w then
        let lowV := (nmGet st.low v).getD 0
        tjNbrs g etype fuel v ws { st with low := (v, min lowV idxW) :: st.low }
      else tjNbrs g etype fuel v ws st
termination_by fuel _ ws _ => (fuel, ws.length + 1)
end

/-- `for &node in &nodes { if !indices.contains_key(node) { strongconnect(node) } }` -/
def tjAll (g : Graph) (etype : Option Nat) (fuel : Nat) : List Nat → TjSt → TjSt
  | [], st => st
  | n :: ns, st =>
    match nmGet st.indices n with
    | none => tjAll g etype fuel ns (tjVisit g etype fuel n st)
    | some _ => tjAll g etype fuel ns st

/-- `strongly_connected_components(config).members`, oldest component first.  Successors are
    `neighbors(v, edge_type, Outgoing)`: along directed edges, either way over undirected ones. -/
def sccComponents (g : Graph) (etype : Option Nat) : List (List Nat) :=
  (tjAll g etype (g.nodes.length + 1) (g.nodes.map (·.id))
    { index := 0, indices := [], low := [], stack := [], comps := [] }).comps.reverse

/-! ### find_all_weighted_paths as the engine runs it: the enumeration stops at `max_paths` -/

mutual
/-- `awEnum` cut after `k` results WITHOUT exploring further (`if paths.len() >= max_paths { break }`
    at the top of the engine's loop).  `findAllWeightedPathsFast_eq` (AllWFastProofs) proves it equal
    to `(awEnum ..).take k`; the driver runs this version, because the full enumeration is exponential
    on dense zero-weight graphs. -/
def awEnumTake (parents : MultiParent) (src : Nat) : Nat → Nat → List Nat → List Nat → Nat → List Path
  | d, cur, ns, es, k =>
    if k == 0 then []
    else if cur == src then [{ nodes := ns, edges := es }]
    else match d with
      | 0 => []
      | d + 1 =>
        match lookupParents parents cur with
        | none => []
        | some ps => awEnumTakeList parents src d ns es ps.reverse k
termination_by d _ _ _ _ => (d, 0)
/-- the parents of one node, first to last (already reversed by the caller) -/
def awEnumTakeList (parents : MultiParent) (src : Nat) (d : Nat) (ns es : List Nat) :
    List (Nat × Nat) → Nat → List Path
  | [], _ => []
  | (p, eid) :: rest, k =>
    if k == 0 then []
    else
      let here := if ns.contains p then [] else awEnumTake parents src d p (p :: ns) (eid :: es) k
      here ++ awEnumTakeList parents src d ns es rest (k - here.length)
termination_by ps _ => (d, ps.length + 1)
end

/-- `findAllWeightedPaths` with the early-stopping enumeration -/
def findAllWeightedPathsFast (g : Graph) (maxPaths cap : Nat) (src tgt : Nat) : Except QErr AllWPaths :=
  if !g.hasNode src then .error (.nodeNotFound src)
  else if !g.hasNode tgt then .error (.nodeNotFound tgt)
  else if src == tgt then .ok { total := 0, paths := [{ nodes := [src], edges := [] }] }
  else
    match awLoop g cap tgt (dijFuel g) { dist := [(src, 0)], parents := [], heap := [(0, src)], dc := none } with
    | .error id => .error (.negativeWeight id)
    | .ok st =>
      match st.dc with
      | none => .error .pathNotFound
      | some total =>
        .ok { total := total, paths := awEnumTake st.parents src (awDepth g) tgt [tgt] [] maxPaths }

/-! ### articulation_points / bridges (algorithms/biconnected.rs, low-link DFS on the undirected view) -/

/-- `BiconnectedState` without `edge_stack` / `components` (the biconnected components' edge sets are
    not modelled; articulation points and bridges do not depend on them) -/
structure BcSt where
  time : Nat
  disc : NatMap
  low : NatMap
  parent : NatMap                 -- `parent[v] = Some(u)`; a DFS root has no entry
  aps : List Nat                  -- `articulation_points` (a set: repeated inserts are harmless)
  bridges : List (Nat × Nat)      -- (smaller id, larger id), newest first
deriving Repr, Inhabited

mutual
/-- `biconnected_dfs(u)`; the fuel bounds the recursion depth -/
def bcVisit (g : Graph) (etype : Option Nat) : Nat → Nat → BcSt → BcSt
  | 0, _, st => st
  | fuel + 1, u, st =>
    bcNbrs g etype fuel u (nbrSet g etype .both u) 0
      { st with disc := (u, st.time) :: st.disc, low := (u, st.time) :: st.low, time := st.time + 1 }
termination_by fuel _ _ => (fuel, 0)
/-- `for v in neighbors` with the running `children` counter.  (The engine sorts the neighbours by
    id; the model keeps `nbrSet` order — the answers are sets that do not depend on it.) -/
def bcNbrs (g : Graph) (etype : Option Nat) : Nat → Nat → List Nat → Nat → BcSt → BcSt
  | _, _, [], _, st => st
  | fuel, u, v :: vs, ch, st =>
    match nmGet st.disc v with
    | none =>
      let st' := bcVisit g etype fuel v { st with parent := (v, u) :: st.parent }
      let lowV := (nmGet st'.low v).getD 0
      let lowU := (nmGet st'.low u).getD 0
      let discU := (nmGet st'.disc u).getD 0
      let isRoot := (nmGet st'.parent u).isNone
      let ap : Bool := if isRoot then decide (ch + 1 > 1) else decide (lowV ≥ discU)
      bcNbrs g etype fuel u vs (ch + 1)
        { st' with low := (u, min lowU lowV) :: st'.low,
                   aps := if ap then u :: st'.aps else st'.aps,
                   bridges := if lowV > discU then (min u v, max u v) :: st'.bridges else st'.bridges }
    | some discV =>
      if nmGet st.parent u != some v then
        let lowU := (nmGet st.low u).getD 0
        if discV < lowU then bcNbrs g etype fuel u vs ch { st with low := (u, discV) :: st.low }
        else bcNbrs g etype fuel u vs ch st
      else bcNbrs g etype fuel u vs ch st
termination_by fuel _ vs _ _ => (fuel, vs.length + 1)
end

/-- `for &node in &nodes { if !discovery.contains_key(node) { dfs(node) } }` -/
def bcAll (g : Graph) (etype : Option Nat) (fuel : Nat) : List Nat → BcSt → BcSt
  | [], st => st
  | n :: ns, st =>
    match nmGet st.disc n with
    | none => bcAll g etype fuel ns (bcVisit g etype fuel n st)
    | some _ => bcAll g etype fuel ns st

def bcFinal (g : Graph) (etype : Option Nat) : BcSt :=
  bcAll g etype (g.nodes.length + 1) (g.nodes.map (·.id))
    { time := 0, disc := [], low := [], parent := [], aps := [], bridges := [] }

/-- `articulation_points(config)` as a set -/
def articulationPoints (g : Graph) (etype : Option Nat) : List Nat := (bcFinal g etype).aps.eraseDups

/-- `bridges(config)`: node pairs (smaller id first) -/
def bridgePairs (g : Graph) (etype : Option Nat) : List (Nat × Nat) := (bcFinal g etype).bridges.reverse

/-! ### find_variable_paths under `max_paths` -/

/-- `find_variable_paths` with `config.max_paths = k ≥ 1`: every test `paths.len() >= max_paths` stops
    the search as soon as `k` matches are collected, so the answer is the first `k` matches of the
    untruncated enumeration (the memory limit is not modelled; `stats.truncated` is not modelled) -/
def findVariablePathsCapped (g : Graph) (cfg : VarCfg) (flt : Flt) (src tgt k : Nat) : Except QErr (List Path) :=
  match findVariablePaths g cfg flt src tgt with
  | .ok ps => .ok (ps.take k)
  | .error e => .error e

end Neumann.Paths
