import NeumannModel.Paths.DijkstraProofs
/-
  C18 — proofs about the model of `astar_path` with the default (zero) heuristic, for every graph
  and every direction: the answered cost is the cost of a real walk, no walk is lighter
  (non-negative weights), "no path" iff no walk, the loop never runs out of fuel.

  Invariant (textbook Dijkstra with a closed set, stated without path decomposition):
    * every heap entry (c, x) is the cost of a real walk to x, and g(x) ≤ c;
    * every open node with a g-score has the entry (g(x), x) in the heap;
    * every edge out of a closed node is relaxed: g(y) ≤ g(x) + w;
    * g of a closed node is ≤ every heap entry of an open node.
  From these, by induction on a walk s ⇝ v of cost c: either v is closed with g(v) ≤ c, or the heap
  holds an entry of an open node with cost ≤ c (`walk_claim`).
-/
namespace Neumann.Paths

/-! ### neighbours -/

theorem mem_neighborsRaw_iff (g : Graph) (dir : Dir) (u v : Nat) :
    v ∈ neighborsRaw g dir u ↔
      v ≠ u ∧ ∃ e, e ∈ g.edges ∧ ((dir.hasOut = true ∧ e.joins u v) ∨ (dir.hasIn = true ∧ e.joins v u)) := by
  unfold neighborsRaw
  simp only [List.mem_append]
  constructor
  · rintro (h | h)
    · split at h
      · rename_i hd
        simp only [List.mem_filterMap, outEdges, List.mem_filter, inOut] at h
        obtain ⟨e, ⟨he, hio⟩, hv⟩ := h
        unfold Edge.joins
        split at hv
        · rename_i h1
          simp only [Bool.and_eq_true, beq_iff_eq, bne_iff_ne, ne_eq] at h1
          simp only [Option.some.injEq] at hv
          subst hv
          exact ⟨h1.2, e, he, .inl ⟨hd, .inl ⟨h1.1, rfl⟩⟩⟩
        · split at hv
          · rename_i h0 h1
            simp only [Bool.and_eq_true, beq_iff_eq, bne_iff_ne, ne_eq] at h1 h0
            simp only [Option.some.injEq] at hv
            subst hv
            simp only [Bool.or_eq_true, beq_iff_eq, Bool.and_eq_true, Bool.not_eq_true'] at hio
            refine ⟨h1.2, e, he, .inl ⟨hd, ?_⟩⟩
            rcases hio with hs | ⟨hnd, _⟩
            · exact absurd hs h1.2
            · exact .inr ⟨hnd, h1.1, rfl⟩
          · simp at hv
      · simp at h
    · split at h
      · rename_i hd
        simp only [List.mem_filterMap, inEdges, List.mem_filter, inIn] at h
        obtain ⟨e, ⟨he, hio⟩, hv⟩ := h
        unfold Edge.joins
        split at hv
        · rename_i h1
          simp only [Bool.and_eq_true, beq_iff_eq, bne_iff_ne, ne_eq] at h1
          simp only [Option.some.injEq] at hv
          subst hv
          exact ⟨h1.2, e, he, .inr ⟨hd, .inl ⟨rfl, h1.1⟩⟩⟩
        · split at hv
          · rename_i h0 h1
            simp only [Bool.and_eq_true, beq_iff_eq, bne_iff_ne, ne_eq] at h1 h0
            simp only [Option.some.injEq] at hv
            subst hv
            simp only [Bool.or_eq_true, beq_iff_eq, Bool.and_eq_true, Bool.not_eq_true'] at hio
            refine ⟨h1.2, e, he, .inr ⟨hd, ?_⟩⟩
            rcases hio with hs | ⟨hnd, _⟩
            · exact absurd hs h1.2
            · exact .inr ⟨hnd, rfl, h1.1⟩
          · simp at hv
      · simp at h
  · rintro ⟨hne, e, he, h⟩
    rcases h with ⟨hd, hj⟩ | ⟨hd, hj⟩
    · left
      rw [if_pos hd, List.mem_filterMap]
      refine ⟨e, ?_, ?_⟩
      · simp only [outEdges, List.mem_filter, inOut]
        refine ⟨he, ?_⟩
        rcases hj with ⟨h1, _⟩ | ⟨h1, h2, _⟩
        · simp [h1]
        · simp [h1, h2]
      · rcases hj with ⟨h1, h2⟩ | ⟨h1, h2, h3⟩
        · subst h1; subst h2
          simp [hne]
        · subst h2; subst h3
          have : ¬ e.src = e.dst := hne
          simp [this]
    · right
      rw [if_pos hd, List.mem_filterMap]
      refine ⟨e, ?_, ?_⟩
      · simp only [inEdges, List.mem_filter, inIn]
        refine ⟨he, ?_⟩
        rcases hj with ⟨_, h1⟩ | ⟨h1, _, h2⟩
        · simp [h1]
        · simp [h1, h2]
      · rcases hj with ⟨h1, h2⟩ | ⟨h1, h2, h3⟩
        · subst h1; subst h2
          have : ¬ e.src = e.dst := hne
          simp [this]
        · subst h2; subst h3
          have : ¬ e.dst = e.src := hne
          simp [this]

theorem mem_neighborIds_iff (g : Graph) (dir : Dir) (u v : Nat) :
    v ∈ neighborIds g dir u ↔ v ≠ u ∧ ∃ e, AStep g dir u v e := by
  unfold neighborIds AStep
  rw [List.mem_filter, List.mem_eraseDups, mem_neighborsRaw_iff]
  constructor
  · rintro ⟨⟨hne, e, he, h⟩, hn⟩
    exact ⟨hne, e, he, hn, h⟩
  · rintro ⟨hne, e, he, hn, h⟩
    exact ⟨⟨hne, e, he, h⟩, hn⟩

theorem eraseDups_length_le : ∀ (n : Nat) (l : List Nat), l.length ≤ n → l.eraseDups.length ≤ l.length := by
  intro n
  induction n with
  | zero =>
    intro l hl
    have : l = [] := List.length_eq_zero_iff.1 (by omega)
    subst this; simp
  | succ k ih =>
    intro l hl
    cases l with
    | nil => simp
    | cons a as =>
      rw [List.eraseDups_cons]
      have h1 : (as.filter (fun b => !b == a)).length ≤ as.length := List.length_filter_le _ _
      have h2 := ih (as.filter (fun b => !b == a)) (by simp only [List.length_cons] at hl; omega)
      simp only [List.length_cons]
      omega

theorem ite_filterMap_length_le {α β : Type} (b : Bool) (f : α → Option β) (l : List α) (n : Nat)
    (h : l.length ≤ n) : (if b = true then l.filterMap f else []).length ≤ n := by
  split
  · exact Nat.le_trans (List.length_filterMap_le _ _) h
  · simp

theorem neighborsRaw_length_le (g : Graph) (dir : Dir) (u : Nat) :
    (neighborsRaw g dir u).length ≤ 2 * g.edges.length := by
  unfold neighborsRaw
  have ho : (outEdges g u).length ≤ g.edges.length := List.length_filter_le _ _
  have hi : (inEdges g u).length ≤ g.edges.length := List.length_filter_le _ _
  rw [List.length_append]
  have h1 := ite_filterMap_length_le dir.hasOut (fun e : Edge =>
      if e.src == u && e.dst != u then some e.dst
      else if e.dst == u && e.src != u then some e.src
      else none) (outEdges g u) _ ho
  have h2 := ite_filterMap_length_le dir.hasIn (fun e : Edge =>
      if e.dst == u && e.src != u then some e.src
      else if e.src == u && e.dst != u then some e.dst
      else none) (inEdges g u) _ hi
  omega

theorem neighborIds_length_le (g : Graph) (dir : Dir) (u : Nat) :
    (neighborIds g dir u).length ≤ 2 * g.edges.length := by
  unfold neighborIds
  have h1 := List.length_filter_le (fun v => g.hasNode v) (neighborsRaw g dir u).eraseDups
  have h2 := eraseDups_length_le _ (neighborsRaw g dir u) (Nat.le_refl _)
  have h3 := neighborsRaw_length_le g dir u
  omega

/-! ### the edge `get_astar_edge_weight` picks -/

theorem mem_astarEdges_of_step {g : Graph} {dir : Dir} {u v : Nat} {e : Edge}
    (hs : AStep g dir u v e) : e ∈ astarEdges g dir u v := by
  obtain ⟨he, _, h⟩ := hs
  unfold astarEdges
  rw [List.mem_filter, List.mem_append]
  unfold Edge.joins at h
  rcases h with ⟨hd, hj⟩ | ⟨hd, hj⟩
  · refine ⟨.inl ?_, ?_⟩
    · rw [if_pos hd]
      simp only [outEdges, List.mem_filter, inOut]
      refine ⟨he, ?_⟩
      rcases hj with ⟨h1, _⟩ | ⟨h1, h2, _⟩
      · simp [h1]
      · simp [h1, h2]
    · rcases hj with ⟨h1, h2⟩ | ⟨_, h2, h3⟩
      · simp [h1, h2]
      · simp [h2, h3]
  · refine ⟨.inr ?_, ?_⟩
    · rw [if_pos hd]
      simp only [inEdges, List.mem_filter, inIn]
      refine ⟨he, ?_⟩
      rcases hj with ⟨_, h1⟩ | ⟨h1, _, h2⟩
      · simp [h1]
      · simp [h1, h2]
    · rcases hj with ⟨h1, h2⟩ | ⟨_, h2, h3⟩
      · simp [h1, h2]
      · simp [h2, h3]

theorem step_of_mem_astarEdges {g : Graph} {dir : Dir} {u v : Nat} {e : Edge}
    (hne : v ≠ u) (hn : g.hasNode v = true) (h : e ∈ astarEdges g dir u v) : AStep g dir u v e := by
  unfold astarEdges at h
  rw [List.mem_filter, List.mem_append] at h
  obtain ⟨hl, hc⟩ := h
  simp only [Bool.or_eq_true, Bool.and_eq_true, beq_iff_eq] at hc
  unfold AStep Edge.joins
  rcases hl with hl | hl
  · split at hl
    · rename_i hd
      simp only [outEdges, List.mem_filter, inOut, Bool.or_eq_true, beq_iff_eq, Bool.and_eq_true,
        Bool.not_eq_true'] at hl
      refine ⟨hl.1, hn, .inl ⟨hd, ?_⟩⟩
      rcases hc with ⟨h1, h2⟩ | ⟨h1, h2⟩
      · exact .inl ⟨h1, h2⟩
      · rcases hl.2 with h3 | ⟨h3, _⟩
        · exact absurd (h2.symm.trans h3) hne
        · exact .inr ⟨h3, h1, h2⟩
    · simp at hl
  · split at hl
    · rename_i hd
      simp only [inEdges, List.mem_filter, inIn, Bool.or_eq_true, beq_iff_eq, Bool.and_eq_true,
        Bool.not_eq_true'] at hl
      refine ⟨hl.1, hn, .inr ⟨hd, ?_⟩⟩
      rcases hc with ⟨h1, h2⟩ | ⟨h1, h2⟩
      · rcases hl.2 with h3 | ⟨h3, _⟩
        · exact absurd (h2.symm.trans h3) hne
        · exact .inr ⟨h3, h2, h1⟩
      · exact .inl ⟨h2, h1⟩
    · simp at hl

theorem lightest_spec (es : List Edge) : ∀ (best : Option (Int × Nat)),
    (es = [] ∧ best = none ∧ lightest es best = none) ∨
    ∃ w i, lightest es best = some (w, i) ∧ ((∃ e, e ∈ es ∧ e.w = w) ∨ best = some (w, i)) ∧
      (∀ e, e ∈ es → w ≤ e.w) ∧ (∀ w' i', best = some (w', i') → w ≤ w') := by
  induction es with
  | nil =>
    intro best
    cases best with
    | none => left; simp [lightest]
    | some b =>
      obtain ⟨w, i⟩ := b
      right
      refine ⟨w, i, by simp [lightest], .inr rfl, by simp, ?_⟩
      intro w' i' h
      simp only [Option.some.injEq, Prod.mk.injEq] at h
      omega
  | cons e es ih =>
    intro best
    right
    cases best with
    | none =>
      rw [lightest]
      rcases ih (some (e.w, e.id)) with ⟨_, h, _⟩ | ⟨w, i, h1, h2, h3, h4⟩
      · cases h
      · refine ⟨w, i, h1, .inl ?_, ?_, by simp⟩
        · rcases h2 with ⟨e', he', hw⟩ | h2
          · exact ⟨e', by simp [he'], hw⟩
          · simp only [Option.some.injEq, Prod.mk.injEq] at h2
            exact ⟨e, by simp, h2.1⟩
        · intro e' he'
          simp only [List.mem_cons] at he'
          rcases he' with rfl | he'
          · exact h4 _ _ rfl
          · exact h3 e' he'
    | some b =>
      obtain ⟨w0, i0⟩ := b
      rw [lightest]
      by_cases hlt : e.w < w0
      · rw [if_pos hlt]
        rcases ih (some (e.w, e.id)) with ⟨_, h, _⟩ | ⟨w, i, h1, h2, h3, h4⟩
        · cases h
        · refine ⟨w, i, h1, .inl ?_, ?_, ?_⟩
          · rcases h2 with ⟨e', he', hw⟩ | h2
            · exact ⟨e', by simp [he'], hw⟩
            · simp only [Option.some.injEq, Prod.mk.injEq] at h2
              exact ⟨e, by simp, h2.1⟩
          · intro e' he'
            simp only [List.mem_cons] at he'
            rcases he' with rfl | he'
            · exact h4 _ _ rfl
            · exact h3 e' he'
          · intro w' i' h
            simp only [Option.some.injEq, Prod.mk.injEq] at h
            have := h4 _ _ rfl
            omega
      · rw [if_neg hlt]
        rcases ih (some (w0, i0)) with ⟨_, h, _⟩ | ⟨w, i, h1, h2, h3, h4⟩
        · cases h
        · refine ⟨w, i, h1, ?_, ?_, ?_⟩
          · rcases h2 with ⟨e', he', hw⟩ | h2
            · exact .inl ⟨e', by simp [he'], hw⟩
            · exact .inr h2
          · intro e' he'
            simp only [List.mem_cons] at he'
            rcases he' with rfl | he'
            · have := h4 _ _ rfl
              omega
            · exact h3 e' he'
          · exact h4

/-- when some edge joins the two nodes, the weight used is the weight of one of them and no joining
    edge is lighter -/
theorem astarEdgeWeight_spec {g : Graph} {dir : Dir} {u v : Nat} {e0 : Edge} (h0 : e0 ∈ astarEdges g dir u v) :
    (∃ e, e ∈ astarEdges g dir u v ∧ e.w = (astarEdgeWeight g dir u v).1) ∧
    ∀ e, e ∈ astarEdges g dir u v → (astarEdgeWeight g dir u v).1 ≤ e.w := by
  unfold astarEdgeWeight
  rcases lightest_spec (astarEdges g dir u v) none with ⟨h, _, _⟩ | ⟨w, i, h1, h2, h3, _⟩
  · rw [h] at h0; cases h0
  · rw [h1]
    refine ⟨?_, h3⟩
    rcases h2 with h2 | h2
    · exact h2
    · cases h2

/-! ### walks -/

theorem AWalk.nonneg {g : Graph} {dir : Dir} (hnn : NonNeg g) {s v : Nat} {c : Int} (h : AWalk g dir s v c) : 0 ≤ c := by
  induction h with
  | nil => omega
  | snoc e _ hs ih =>
    have := hnn e hs.1
    omega

theorem AWalk.mem_walkNodes {g : Graph} {dir : Dir} {s v : Nat} {c : Int} (h : AWalk g dir s v c) :
    v ∈ walkNodes g s := by
  cases h with
  | nil => simp [walkNodes]
  | snoc e _ hs =>
    unfold walkNodes
    refine List.mem_cons_of_mem _ ?_
    rw [List.mem_flatMap]
    refine ⟨e, hs.1, ?_⟩
    have := hs.2.2
    unfold Edge.joins at this
    simp only [List.mem_cons]
    grind

/-- a step in front of a walk -/
theorem AWalk.cons {g : Graph} {dir : Dir} {u v w : Nat} {c : Int} {e : Edge}
    (hs : AStep g dir u v e) (h : AWalk g dir v w c) : AWalk g dir u w (e.w + c) := by
  induction h with
  | nil =>
    have := AWalk.snoc e (AWalk.nil (g := g) (dir := dir) (s := u)) hs
    have heq : (0 : Int) + e.w = e.w + 0 := by omega
    rw [← heq]; exact this
  | @snoc x y c' e' _ hs' ih =>
    have := AWalk.snoc e' ih hs'
    have heq : e.w + c' + e'.w = e.w + (c' + e'.w) := by omega
    rw [← heq]; exact this

/-- for `Outgoing`, on graphs whose edge endpoints exist, the walks of A* are the walks of
    `find_weighted_path` -/
theorem awalk_out_of_wwalk {g : Graph} (hend : EndpointsExist g) {u v : Nat} {c : Int}
    (h : WWalk g u v c) : AWalk g .out u v c := by
  induction h with
  | nil u => exact AWalk.nil
  | cons e hs _ ih =>
    rename_i a b d c'
    refine AWalk.cons ⟨hs.1, ?_, .inl ⟨rfl, hs.2⟩⟩ ih
    have := hend e hs.1
    have hj := hs.2
    unfold Edge.joins at hj
    rcases hj with ⟨_, h2⟩ | ⟨_, _, h2⟩
    · rw [← h2]; exact this.2
    · rw [← h2]; exact this.1

theorem wwalk_of_awalk_out {g : Graph} {u v : Nat} {c : Int} (h : AWalk g .out u v c) : WWalk g u v c := by
  induction h with
  | nil => exact WWalk.nil _
  | snoc e _ hs ih =>
    refine WWalk.snoc ih ⟨hs.1, ?_⟩
    rcases hs.2.2 with ⟨_, hj⟩ | ⟨hd, _⟩
    · exact hj
    · cases hd

/-! ### the invariant of the main loop -/

structure AInv (g : Graph) (dir : Dir) (s t : Nat) (st : AStarSt) : Prop where
  src : lookupDist st.gs s = some 0
  sound : ∀ c x, (c, x) ∈ st.heap → AWalk g dir s x c
  hle : ∀ c x, (c, x) ∈ st.heap → ∃ c', lookupDist st.gs x = some c' ∧ c' ≤ c
  opn : ∀ x c, x ∉ st.closed → lookupDist st.gs x = some c → (c, x) ∈ st.heap
  relaxed : ∀ x, x ∈ st.closed → ∀ y e, y ≠ x → AStep g dir x y e →
    ∃ cx cy, lookupDist st.gs x = some cx ∧ lookupDist st.gs y = some cy ∧ cy ≤ cx + e.w
  mono : ∀ x, x ∈ st.closed → ∃ cx, lookupDist st.gs x = some cx ∧
    ∀ c y, (c, y) ∈ st.heap → y ∉ st.closed → cx ≤ c
  tgt : t ∉ st.closed
  nodup : st.closed.Nodup
  reach : ∀ x, x ∈ st.closed → ∃ c, AWalk g dir s x c

/-- every walk from the source ends in a closed node whose g-score it does not beat, or is at least as
    heavy as some heap entry of an open node -/
theorem walk_claim {g : Graph} {dir : Dir} {s t : Nat} {st : AStarSt} (hnn : NonNeg g)
    (inv : AInv g dir s t st) {v : Nat} {c : Int} (h : AWalk g dir s v c) :
    (v ∈ st.closed ∧ ∃ cv, lookupDist st.gs v = some cv ∧ cv ≤ c) ∨
    (∃ c' x, (c', x) ∈ st.heap ∧ x ∉ st.closed ∧ c' ≤ c) := by
  induction h with
  | nil =>
    by_cases hs : s ∈ st.closed
    · exact .inl ⟨hs, 0, inv.src, Int.le_refl _⟩
    · exact .inr ⟨0, s, inv.opn s 0 hs inv.src, hs, Int.le_refl _⟩
  | @snoc u v c1 e _ hs ih =>
    have hw := hnn e hs.1
    rcases ih with ⟨huc, cu, hgu, hle⟩ | ⟨c', x, hm, hx, hle⟩
    · by_cases hvu : v = u
      · subst hvu
        exact .inl ⟨huc, cu, hgu, by omega⟩
      · obtain ⟨cx, cy, h1, h2, h3⟩ := inv.relaxed u huc v e hvu hs
        rw [hgu] at h1
        cases h1
        by_cases hvc : v ∈ st.closed
        · exact .inl ⟨hvc, cy, h2, by omega⟩
        · exact .inr ⟨cy, v, inv.opn v cy hvc h2, hvc, by omega⟩
    · exact .inr ⟨c', x, hm, hx, by omega⟩

/-! ### one expansion -/

/-- invariant while the neighbours of the just-closed node `u` (popped with cost `c0`) are relaxed;
    `pend` are the neighbours still to be looked at -/
structure RInv (g : Graph) (dir : Dir) (s t u : Nat) (c0 : Int) (pend : List Nat) (st : AStarSt) : Prop where
  src : lookupDist st.gs s = some 0
  sound : ∀ c x, (c, x) ∈ st.heap → AWalk g dir s x c
  hle : ∀ c x, (c, x) ∈ st.heap → ∃ c', lookupDist st.gs x = some c' ∧ c' ≤ c
  opn : ∀ x c, x ∉ st.closed → lookupDist st.gs x = some c → (c, x) ∈ st.heap
  relaxed : ∀ x, x ∈ st.closed → ∀ y e, y ≠ x → AStep g dir x y e →
    (x = u ∧ y ∈ pend) ∨
    ∃ cx cy, lookupDist st.gs x = some cx ∧ lookupDist st.gs y = some cy ∧ cy ≤ cx + e.w
  le0 : ∀ x, x ∈ st.closed → ∃ cx, lookupDist st.gs x = some cx ∧ cx ≤ c0
  gu : lookupDist st.gs u = some c0
  ge0 : ∀ c y, (c, y) ∈ st.heap → c0 ≤ c
  walkU : AWalk g dir s u c0
  uin : u ∈ st.closed
  pendOk : ∀ y, y ∈ pend → y ≠ u ∧ ∃ e, AStep g dir u y e
  tgt : t ∉ st.closed
  nodup : st.closed.Nodup
  reach : ∀ x, x ∈ st.closed → ∃ c, AWalk g dir s x c

theorem astarRelax_closed (g : Graph) (dir : Dir) (u : Nat) (c : Int) :
    ∀ (pend : List Nat) (st : AStarSt), (astarRelax g dir u c pend st).closed = st.closed := by
  intro pend
  induction pend with
  | nil => intro st; rfl
  | cons nb rest ih =>
    intro st
    rw [astarRelax]
    dsimp only
    split
    · exact ih st
    · split
      · rw [ih]
      · exact ih st

theorem astarRelax_heap_length (g : Graph) (dir : Dir) (u : Nat) (c : Int) :
    ∀ (pend : List Nat) (st : AStarSt),
      (astarRelax g dir u c pend st).heap.length ≤ st.heap.length + pend.length := by
  intro pend
  induction pend with
  | nil => intro st; simp [astarRelax]
  | cons nb rest ih =>
    intro st
    rw [astarRelax]
    dsimp only
    split
    · have := ih st
      simp only [List.length_cons]; omega
    · split
      · have := ih { st with gs := (nb, c + (astarEdgeWeight g dir u nb).1) :: st.gs,
                             heap := (c + (astarEdgeWeight g dir u nb).1, nb) :: st.heap }
        simp only [List.length_cons] at this ⊢; omega
      · have := ih st
        simp only [List.length_cons]; omega

theorem improves_some {nc c : Int} (h : improves nc (some c) = true) : nc < c := by
  simpa [improves] using h

theorem not_improves {nc : Int} {o : Option Int} (h : ¬ improves nc o = true) : ∃ c, o = some c ∧ c ≤ nc := by
  cases o with
  | none => simp [improves] at h
  | some c => exact ⟨c, rfl, by simpa [improves] using h⟩

theorem astarRelax_inv {g : Graph} {dir : Dir} {s t u : Nat} {c0 : Int} (hnn : NonNeg g) :
    ∀ (pend : List Nat) (st : AStarSt), RInv g dir s t u c0 pend st →
      RInv g dir s t u c0 [] (astarRelax g dir u c0 pend st) := by
  intro pend
  induction pend with
  | nil => intro st h; exact h
  | cons nb rest ih =>
    intro st h
    obtain ⟨hnbu, e0, hstep0⟩ := h.pendOk nb (by simp)
    have hc0 : 0 ≤ c0 := AWalk.nonneg hnn h.walkU
    rw [astarRelax]
    dsimp only
    by_cases hcl : st.closed.contains nb = true
    · rw [if_pos hcl]
      have hcl' : nb ∈ st.closed := by simpa using hcl
      apply ih
      exact
        { src := h.src, sound := h.sound, hle := h.hle, opn := h.opn, le0 := h.le0, gu := h.gu, ge0 := h.ge0,
          walkU := h.walkU, uin := h.uin, tgt := h.tgt, nodup := h.nodup, reach := h.reach
          pendOk := fun y hy => h.pendOk y (by simp [hy])
          relaxed := by
            intro x hx y e hyx hs
            rcases h.relaxed x hx y e hyx hs with ⟨hxu, hy⟩ | hr
            · simp only [List.mem_cons] at hy
              rcases hy with hy | hy
              · right
                subst hy
                subst hxu
                obtain ⟨cy, hgy, hle⟩ := h.le0 y hcl'
                have := hnn e hs.1
                exact ⟨c0, cy, h.gu, hgy, by omega⟩
              · exact .inl ⟨hxu, hy⟩
            · exact .inr hr }
    · rw [if_neg hcl]
      have hncl : nb ∉ st.closed := by simpa using hcl
      have hmem0 := mem_astarEdges_of_step hstep0
      obtain ⟨⟨e1, he1, hw1⟩, hmin⟩ := astarEdgeWeight_spec hmem0
      have hstep1 : AStep g dir u nb e1 := step_of_mem_astarEdges hnbu hstep0.2.1 he1
      have hw1nn : 0 ≤ e1.w := hnn e1 hstep1.1
      obtain ⟨w, hwdef⟩ : ∃ w, (astarEdgeWeight g dir u nb).1 = w := ⟨_, rfl⟩
      rw [hwdef] at hw1 hmin ⊢
      have hne_closed : ∀ x, x ∈ st.closed → nb ≠ x := fun x hx hh => hncl (hh ▸ hx)
      by_cases himp : improves (c0 + w) (lookupDist st.gs nb) = true
      · rw [if_pos himp]
        apply ih
        exact
          { walkU := h.walkU, uin := h.uin, tgt := h.tgt, nodup := h.nodup, reach := h.reach
            pendOk := fun y hy => h.pendOk y (by simp [hy])
            src := by
              show lookupDist ((nb, c0 + w) :: st.gs) s = some 0
              rw [lookupDist_cons]
              split
              · rename_i hns
                subst hns
                rw [h.src] at himp
                have := improves_some himp
                omega
              · exact h.src
            sound := by
              intro c x hm
              simp only [List.mem_cons, Prod.mk.injEq] at hm
              rcases hm with ⟨rfl, rfl⟩ | hm
              · rw [← hw1]; exact AWalk.snoc e1 h.walkU hstep1
              · exact h.sound c x hm
            hle := by
              intro c x hm
              show ∃ c', lookupDist ((nb, c0 + w) :: st.gs) x = some c' ∧ c' ≤ c
              simp only [List.mem_cons, Prod.mk.injEq] at hm
              rcases hm with ⟨rfl, rfl⟩ | hm
              · exact ⟨c0 + w, by rw [lookupDist_cons]; simp, Int.le_refl _⟩
              · obtain ⟨c', hg, hl⟩ := h.hle c x hm
                by_cases hx : nb = x
                · subst hx
                  rw [hg] at himp
                  have := improves_some himp
                  exact ⟨c0 + w, by rw [lookupDist_cons]; simp, by omega⟩
                · exact ⟨c', by rw [lookupDist_cons, if_neg hx]; exact hg, hl⟩
            opn := by
              intro x c hx hg
              change lookupDist ((nb, c0 + w) :: st.gs) x = some c at hg
              show (c, x) ∈ (c0 + w, nb) :: st.heap
              rw [lookupDist_cons] at hg
              split at hg
              · rename_i hnx
                subst hnx
                cases hg
                exact List.mem_cons_self
              · exact List.mem_cons_of_mem _ (h.opn x c hx hg)
            relaxed := by
              intro x hx y e hyx hs
              show (x = u ∧ y ∈ rest) ∨ ∃ cx cy, lookupDist ((nb, c0 + w) :: st.gs) x = some cx ∧
                lookupDist ((nb, c0 + w) :: st.gs) y = some cy ∧ cy ≤ cx + e.w
              have hxnb : nb ≠ x := hne_closed x hx
              rcases h.relaxed x hx y e hyx hs with ⟨hxu, hy⟩ | ⟨cx, cy, h1, h2, h3⟩
              · simp only [List.mem_cons] at hy
                rcases hy with hy | hy
                · right
                  subst hy
                  subst hxu
                  have := hmin e (mem_astarEdges_of_step hs)
                  exact ⟨c0, c0 + w, by rw [lookupDist_cons, if_neg hxnb]; exact h.gu,
                    by rw [lookupDist_cons]; simp, by omega⟩
                · exact .inl ⟨hxu, hy⟩
              · right
                by_cases hynb : nb = y
                · subst hynb
                  rw [h2] at himp
                  have := improves_some himp
                  exact ⟨cx, c0 + w, by rw [lookupDist_cons, if_neg hxnb]; exact h1,
                    by rw [lookupDist_cons]; simp, by omega⟩
                · exact ⟨cx, cy, by rw [lookupDist_cons, if_neg hxnb]; exact h1,
                    by rw [lookupDist_cons, if_neg hynb]; exact h2, h3⟩
            le0 := by
              intro x hx
              obtain ⟨cx, hg, hl⟩ := h.le0 x hx
              exact ⟨cx, by
                show lookupDist ((nb, c0 + w) :: st.gs) x = some cx
                rw [lookupDist_cons, if_neg (hne_closed x hx)]; exact hg, hl⟩
            gu := by
              show lookupDist ((nb, c0 + w) :: st.gs) u = some c0
              rw [lookupDist_cons, if_neg hnbu]; exact h.gu
            ge0 := by
              intro c y hm
              simp only [List.mem_cons, Prod.mk.injEq] at hm
              rcases hm with ⟨rfl, _⟩ | hm
              · omega
              · exact h.ge0 c y hm }
      · rw [if_neg himp]
        apply ih
        obtain ⟨cn, hgn, hcn⟩ := not_improves himp
        exact
          { src := h.src, sound := h.sound, hle := h.hle, opn := h.opn, le0 := h.le0, gu := h.gu, ge0 := h.ge0,
            walkU := h.walkU, uin := h.uin, tgt := h.tgt, nodup := h.nodup, reach := h.reach
            pendOk := fun y hy => h.pendOk y (by simp [hy])
            relaxed := by
              intro x hx y e hyx hs
              rcases h.relaxed x hx y e hyx hs with ⟨hxu, hy⟩ | hr
              · simp only [List.mem_cons] at hy
                rcases hy with hy | hy
                · right
                  subst hy
                  subst hxu
                  have := hmin e (mem_astarEdges_of_step hs)
                  exact ⟨c0, cn, h.gu, hgn, by omega⟩
                · exact .inl ⟨hxu, hy⟩
              · exact .inr hr }

/-! ### the main loop -/

/-- postcondition of `astarLoop` -/
def APost (g : Graph) (dir : Dir) (s t : Nat) : AStarOut → Prop
  | .found c => AWalk g dir s t c ∧ ∀ c', AWalk g dir s t c' → c ≤ c'
  | .notFound => ∀ c', ¬ AWalk g dir s t c'
  | .outOfFuel => False

/-- heap entries still to pop, plus what the nodes not yet closed may still push -/
def apot (g : Graph) (st : AStarSt) : Nat :=
  st.heap.length + ((2 * g.edges.length + 1) - st.closed.length) * (2 * g.edges.length + 1)

theorem closed_length_le {g : Graph} {dir : Dir} {s t : Nat} {st : AStarSt} (inv : AInv g dir s t st) :
    st.closed.length ≤ 2 * g.edges.length + 1 := by
  rw [← walkNodes_length g s]
  exact nodup_subset_length inv.nodup (fun x hx => (inv.reach x hx).elim fun _ h => h.mem_walkNodes)

theorem astarLoop_post {g : Graph} {dir : Dir} {s t : Nat} (hnn : NonNeg g) :
    ∀ (fuel : Nat) (st : AStarSt), AInv g dir s t st → apot g st < fuel →
      APost g dir s t (astarLoop g dir t fuel st) := by
  intro fuel
  induction fuel with
  | zero => intro st _ hp; omega
  | succ n ih =>
    intro st inv hp
    rw [astarLoop]
    cases hpop : popMin st.heap with
    | none =>
      have hnil := popMin_none hpop
      show ∀ c', ¬ AWalk g dir s t c'
      intro c' hw
      rcases walk_claim hnn inv hw with ⟨hc, _⟩ | ⟨c'', x, hm, _⟩
      · exact inv.tgt hc
      · rw [hnil] at hm; cases hm
    | some p =>
      obtain ⟨⟨c, u⟩, heap'⟩ := p
      obtain ⟨hmem, herase, hmin⟩ := popMin_spec hpop
      dsimp only
      have hlen : heap'.length + 1 = st.heap.length := by
        rw [herase, List.length_erase_of_mem hmem]
        have := List.length_pos_of_mem hmem
        omega
      by_cases hcl : st.closed.contains u = true
      · rw [if_pos hcl]
        have hucl : u ∈ st.closed := by simpa using hcl
        apply ih
        · exact
            { src := inv.src, relaxed := inv.relaxed, tgt := inv.tgt, nodup := inv.nodup, reach := inv.reach
              sound := fun c' x hm => inv.sound c' x (by rw [herase] at hm; exact List.mem_of_mem_erase hm)
              hle := fun c' x hm => inv.hle c' x (by rw [herase] at hm; exact List.mem_of_mem_erase hm)
              opn := by
                intro x c' hx hg
                have := inv.opn x c' hx hg
                show (c', x) ∈ heap'
                rw [herase]
                refine (List.mem_erase_of_ne ?_).2 this
                intro hh
                cases hh
                exact hx hucl
              mono := by
                intro x hx
                obtain ⟨cx, hg, hm⟩ := inv.mono x hx
                exact ⟨cx, hg, fun c' y hy hyc => hm c' y (by rw [herase] at hy; exact List.mem_of_mem_erase hy) hyc⟩ }
        · unfold apot at hp ⊢
          dsimp only
          omega
      · rw [if_neg hcl]
        have hucl : u ∉ st.closed := by simpa using hcl
        by_cases hut : (u == t) = true
        · rw [if_pos hut]
          have hut' : u = t := by simpa using hut
          subst hut'
          refine ⟨inv.sound c u hmem, ?_⟩
          intro c' hw
          rcases walk_claim hnn inv hw with ⟨hc, _⟩ | ⟨c'', x, hm, _, hle⟩
          · exact absurd hc inv.tgt
          · have := hmin (c'', x) hm
            simp only at this
            omega
        · rw [if_neg hut]
          have hut' : u ≠ t := by simpa using hut
          -- g(u) is the popped cost
          have hgu : lookupDist st.gs u = some c := by
            obtain ⟨c', hg, hl⟩ := inv.hle c u hmem
            have hin := inv.opn u c' hucl hg
            have := hmin (c', u) hin
            simp only at this
            have : c' = c := by omega
            rw [← this]; exact hg
          have hR : RInv g dir s t u c (neighborIds g dir u) { st with heap := heap', closed := u :: st.closed } :=
            { src := inv.src
              sound := fun c' x hm => inv.sound c' x (by rw [herase] at hm; exact List.mem_of_mem_erase hm)
              hle := fun c' x hm => inv.hle c' x (by rw [herase] at hm; exact List.mem_of_mem_erase hm)
              opn := by
                intro x c' hx hg
                have hx' : x ≠ u ∧ x ∉ st.closed := by
                  constructor
                  · intro hh; exact hx (by simp [hh])
                  · intro hh; exact hx (by simp [hh])
                have := inv.opn x c' hx'.2 hg
                show (c', x) ∈ heap'
                rw [herase]
                refine (List.mem_erase_of_ne ?_).2 this
                intro hh
                cases hh
                exact hx'.1 rfl
              relaxed := by
                intro x hx y e hyx hs
                have hx' : x = u ∨ x ∈ st.closed := by simpa using hx
                rcases hx' with hx' | hx'
                · subst hx'
                  exact .inl ⟨rfl, (mem_neighborIds_iff g dir x y).2 ⟨hyx, e, hs⟩⟩
                · exact .inr (inv.relaxed x hx' y e hyx hs)
              le0 := by
                intro x hx
                have hx' : x = u ∨ x ∈ st.closed := by simpa using hx
                rcases hx' with hx' | hx'
                · subst hx'
                  exact ⟨c, hgu, Int.le_refl _⟩
                · obtain ⟨cx, hg, hm⟩ := inv.mono x hx'
                  exact ⟨cx, hg, hm c u hmem hucl⟩
              gu := hgu
              ge0 := by
                intro c' y hm
                have := hmin (c', y) (by rw [herase] at hm; exact List.mem_of_mem_erase hm)
                simpa using this
              walkU := inv.sound c u hmem
              uin := by simp
              pendOk := fun y hy => (mem_neighborIds_iff g dir u y).1 hy
              tgt := by
                intro hh
                have hh' : t = u ∨ t ∈ st.closed := by simpa using hh
                rcases hh' with hh' | hh'
                · exact hut' hh'.symm
                · exact inv.tgt hh'
              nodup := List.nodup_cons.2 ⟨hucl, inv.nodup⟩
              reach := by
                intro x hx
                have hx' : x = u ∨ x ∈ st.closed := by simpa using hx
                rcases hx' with hx' | hx'
                · subst hx'; exact ⟨c, inv.sound c x hmem⟩
                · exact inv.reach x hx' }
          have hR' := astarRelax_inv hnn _ _ hR
          have hclosed := astarRelax_closed g dir u c (neighborIds g dir u) { st with heap := heap', closed := u :: st.closed }
          have hheap := astarRelax_heap_length g dir u c (neighborIds g dir u) { st with heap := heap', closed := u :: st.closed }
          have hnb := neighborIds_length_le g dir u
          have inv' : AInv g dir s t (astarRelax g dir u c (neighborIds g dir u) { st with heap := heap', closed := u :: st.closed }) :=
            { src := hR'.src, sound := hR'.sound, hle := hR'.hle, opn := hR'.opn, tgt := hR'.tgt,
              nodup := hR'.nodup, reach := hR'.reach
              relaxed := by
                intro x hx y e hyx hs
                rcases hR'.relaxed x hx y e hyx hs with ⟨_, hy⟩ | hr
                · cases hy
                · exact hr
              mono := by
                intro x hx
                obtain ⟨cx, hg, hl⟩ := hR'.le0 x hx
                exact ⟨cx, hg, fun c' y hm _ => by have := hR'.ge0 c' y hm; omega⟩ }
          apply ih _ inv'
          have hcl2 := closed_length_le inv'
          rw [hclosed] at hcl2
          dsimp only at hcl2 hheap
          simp only [List.length_cons] at hcl2
          unfold apot at hp ⊢
          rw [hclosed]
          dsimp only
          simp only [List.length_cons]
          have hk : (2 * g.edges.length + 1 - st.closed.length) * (2 * g.edges.length + 1)
              = (2 * g.edges.length + 1 - (st.closed.length + 1)) * (2 * g.edges.length + 1) + (2 * g.edges.length + 1) := by
            have : 2 * g.edges.length + 1 - st.closed.length = (2 * g.edges.length + 1 - (st.closed.length + 1)) + 1 := by omega
            rw [this, Nat.add_mul, Nat.one_mul]
          rw [hk] at hp
          omega

theorem ainv_init (g : Graph) (dir : Dir) (s t : Nat) (hst : s ≠ t) :
    AInv g dir s t { closed := [], gs := [(s, 0)], heap := [(0, s)] } :=
  { src := by simp [lookupDist]
    sound := by
      intro c x hm
      simp only [List.mem_singleton, Prod.mk.injEq] at hm
      obtain ⟨rfl, rfl⟩ := hm
      exact AWalk.nil
    hle := by
      intro c x hm
      simp only [List.mem_singleton, Prod.mk.injEq] at hm
      obtain ⟨rfl, rfl⟩ := hm
      exact ⟨0, by simp [lookupDist], Int.le_refl _⟩
    opn := by
      intro x c _ hg
      change lookupDist [(s, 0)] x = some c at hg
      rw [lookupDist_cons] at hg
      split at hg
      · rename_i hsx
        subst hsx
        cases hg
        simp
      · simp [lookupDist] at hg
    relaxed := by intro x hx; cases hx
    mono := by intro x hx; cases hx
    tgt := by simp
    nodup := by simp
    reach := by intro x hx; cases hx }

theorem astarLoop_main {g : Graph} (hnn : NonNeg g) (dir : Dir) (s t : Nat) (hst : s ≠ t) :
    APost g dir s t (astarLoop g dir t (astarFuel g) { closed := [], gs := [(s, 0)], heap := [(0, s)] }) := by
  apply astarLoop_post hnn _ _ (ainv_init g dir s t hst)
  unfold apot astarFuel
  simp only [List.length_cons, List.length_nil, Nat.sub_zero]
  omega

/-! ### the theorems -/

theorem astar_cost_is_walk (g : Graph) (dir : Dir) (s t : Nat) (c : Int) (hnn : NonNeg g)
    (h : astarCost g dir s t = some c) : AWalk g dir s t c := by
  unfold astarCost at h
  split at h
  · rename_i hst
    simp only [beq_iff_eq] at hst
    subst hst
    cases h
    exact AWalk.nil
  · rename_i hst
    have hst' : s ≠ t := by simpa using hst
    split at h
    · cases h
    · have hpost := astarLoop_main hnn dir s t hst'
      split at h
      · rename_i c' hl
        rw [hl] at hpost
        cases h
        exact hpost.1
      · cases h

theorem astar_cost_optimal (g : Graph) (dir : Dir) (s t : Nat) (c : Int) (hnn : NonNeg g)
    (h : astarCost g dir s t = some c) : ∀ c', AWalk g dir s t c' → c ≤ c' := by
  unfold astarCost at h
  split at h
  · cases h
    intro c' hw
    exact hw.nonneg hnn
  · rename_i hst
    have hst' : s ≠ t := by simpa using hst
    split at h
    · cases h
    · have hpost := astarLoop_main hnn dir s t hst'
      split at h
      · rename_i c' hl
        rw [hl] at hpost
        cases h
        exact hpost.2
      · cases h

theorem astar_none_iff_unreachable (g : Graph) (dir : Dir) (s t : Nat) (hnn : NonNeg g) (hst : s ≠ t)
    (hs : g.hasNode s = true) (ht : g.hasNode t = true) :
    astarCost g dir s t = none ↔ ¬ ∃ c, AWalk g dir s t c := by
  unfold astarCost
  have hbeq : (s == t) = false := by simp [hst]
  simp only [hbeq, hs, ht, Bool.false_eq_true, if_false, Bool.not_true, Bool.or_self]
  have hpost := astarLoop_main hnn dir s t hst
  cases hl : astarLoop g dir t (astarFuel g) { closed := [], gs := [(s, 0)], heap := [(0, s)] } with
  | found c =>
    rw [hl] at hpost
    simp only
    constructor
    · intro h; cases h
    · intro h; exact absurd ⟨c, hpost.1⟩ h
  | notFound =>
    rw [hl] at hpost
    simp only [true_iff]
    rintro ⟨c, hw⟩
    exact hpost c hw
  | outOfFuel =>
    rw [hl] at hpost
    exact absurd hpost (by simp [APost])

/-- the loop never stops for lack of fuel -/
theorem astar_fuel_adequate (g : Graph) (dir : Dir) (s t : Nat) (hnn : NonNeg g) (hst : s ≠ t) :
    astarLoop g dir t (astarFuel g) { closed := [], gs := [(s, 0)], heap := [(0, s)] } ≠ .outOfFuel := by
  intro h
  have hpost := astarLoop_main hnn dir s t hst
  rw [h] at hpost
  exact hpost

/-! ### A* (zero heuristic, Outgoing) and Dijkstra answer the same cost -/

theorem dijkstra_total_is_walk (g : Graph) (s t : Nat) (p : WPath) (hnn : NonNeg g)
    (h : findWeightedPath g s t = .ok p) : WWalk g s t p.total := by
  unfold findWeightedPath at h
  split at h
  · simp at h
  · split at h
    · simp at h
    · split at h
      · rename_i hst
        simp only [beq_iff_eq] at hst
        subst hst
        simp only [Except.ok.injEq] at h
        subst h
        exact WWalk.nil _
      · have hpost := dijLoop_main hnn s t
        split at h
        · simp at h
        · simp at h
        · rename_i cost P hl
          rw [hl] at hpost
          simp only [Except.ok.injEq] at h
          subst h
          exact hpost.2.1

theorem astar_cost_eq_dijkstra_cost (g : Graph) (s t : Nat) (hnn : NonNeg g) (hend : EndpointsExist g)
    (hs : g.hasNode s = true) (ht : g.hasNode t = true) :
    astarCost g .out s t = (findWeightedPath g s t).toOption.map (·.total) := by
  by_cases hst : s = t
  · subst hst
    unfold astarCost findWeightedPath
    simp [hs, Except.toOption]
  · cases hd : findWeightedPath g s t with
    | error e =>
      simp only [Except.toOption, Option.map_none]
      cases e with
      | nodeNotFound n =>
        exfalso
        unfold findWeightedPath at hd
        simp only [hs, ht, Bool.not_true, Bool.false_eq_true, if_false] at hd
        split at hd
        · cases hd
        · split at hd <;> cases hd
      | pathNotFound =>
        rw [astar_none_iff_unreachable g .out s t hnn hst hs ht]
        rintro ⟨c, hw⟩
        exact (dijkstra_none_iff_unreachable g s t hnn hs ht).1 hd ⟨c, wwalk_of_awalk_out hw⟩
      | negativeWeight id =>
        exfalso
        obtain ⟨e, he, _, hneg⟩ := dijkstra_negative_reported g s t id hd
        have := hnn e he
        omega
    | ok p =>
      simp only [Except.toOption, Option.map_some]
      have hwalk := awalk_out_of_wwalk hend (dijkstra_total_is_walk g s t p hnn hd)
      cases ha : astarCost g .out s t with
      | none => exact absurd ⟨p.total, hwalk⟩ ((astar_none_iff_unreachable g .out s t hnn hst hs ht).1 ha)
      | some c =>
        have h1 := astar_cost_optimal g .out s t c hnn ha p.total hwalk
        have h2 := dijkstra_optimal g s t p hnn hd c (wwalk_of_awalk_out (astar_cost_is_walk g .out s t c hnn ha))
        have : c = p.total := by omega
        rw [this]

end Neumann.Paths
